/- No EXPUNGE response comes out of non-expunge responders, and `merge` creates none. -/
import GluonModel.Lemmas.Pop

namespace Gluon

@[simp] theorem Resp.isExpunge_exists (n) : (Resp.exists n).isExpunge = false := rfl
@[simp] theorem Resp.isExpunge_recent (n) : (Resp.recent n).isExpunge = false := rfl
@[simp] theorem Resp.isExpunge_expunge (n) : (Resp.expunge n).isExpunge = true := rfl
@[simp] theorem Resp.isExpunge_fetch (s f u) : (Resp.fetch s f u).isExpunge = false := rfl

def NoExp (l : List Resp) : Prop := ∀ x ∈ l, x.isExpunge = false

theorem NoExp.nil : NoExp [] := by simp [NoExp]
theorem NoExp.append {a b : List Resp} (ha : NoExp a) (hb : NoExp b) : NoExp (a ++ b) := by
  intro x hx
  rcases List.mem_append.mp hx with h | h
  · exact ha x h
  · exact hb x h

theorem handle_out_noexp (r : Responder) (hr : r.isExpunge = false) (close : Bool) (sid : StateId) (snap : Snap) :
    NoExp (r.handle close sid snap).out := by
  cases r with
  | expunge id => simp at hr
  | «exists» id uid fl t o =>
    simp only [Responder.handle]
    split
    · exact NoExp.nil
    · split
      · exact NoExp.nil
      · split <;> simp [NoExp]
  | fetch id fl op a b c =>
    simp only [Responder.handle]
    split
    · exact NoExp.nil
    · split
      · exact NoExp.nil
      · split
        · exact NoExp.nil
        · split <;> simp [NoExp]

theorem handleAll_out_noexp (close : Bool) (sid : StateId) (snap : Snap) (rs : List Responder)
    (h : ∀ r ∈ rs, r.isExpunge = false) : NoExp (handleAll close sid snap rs).2.1 := by
  induction rs generalizing snap with
  | nil => simp [handleAll, NoExp]
  | cons r rs ih =>
    simp only [handleAll]
    split
    · exact NoExp.nil
    · have h1 := handle_out_noexp r (h r List.mem_cons_self) close sid snap
      have h2 := ih (r.handle close sid snap).snap (fun x hx => h x (List.mem_cons_of_mem _ hx))
      exact NoExp.append h1 h2

theorem mergeWith_noexp {new o r : Resp} (h : Resp.mergeWith new o = some (.ok r)) : r.isExpunge = false := by
  cases new <;> cases o <;> simp [Resp.mergeWith] at h
  · split at h <;> simp at h; subst h; rfl
  · split at h <;> simp at h; subst h; rfl
  · obtain ⟨_, rfl⟩ := h; rfl

theorem scan_noexp (new : Resp) (rev rev' : List Resp) (h : NoExp rev)
    (hs : Resp.scan new rev = some (.ok rev')) : NoExp rev' := by
  induction rev generalizing rev' with
  | nil => simp [Resp.scan] at hs
  | cons o rest ih =>
    have ho : o.isExpunge = false := h o List.mem_cons_self
    have hrest : NoExp rest := fun x hx => h x (List.mem_cons_of_mem _ hx)
    simp only [Resp.scan] at hs
    split at hs
    · next r hm =>
      simp at hs; subst hs
      intro x hx
      rcases List.mem_cons.mp hx with rfl | hx
      · exact mergeWith_noexp hm
      · exact hrest x hx
    · simp at hs
    · split at hs
      · split at hs
        · next rest' hsc =>
          simp at hs; subst hs
          intro x hx
          rcases List.mem_cons.mp hx with rfl | hx
          · exact ho
          · exact ih rest' hrest hsc x hx
        · simp at hs
        · simp at hs
      · simp at hs

theorem appendOrMergeRev_noexp (rev rev' : List Resp) (new : Resp) (h : NoExp rev) (hn : new.isExpunge = false)
    (hs : Resp.appendOrMergeRev rev new = .ok rev') : NoExp rev' := by
  have hcons : NoExp (new :: rev) := by
    intro x hx
    rcases List.mem_cons.mp hx with rfl | hx
    · exact hn
    · exact h x hx
  simp only [Resp.appendOrMergeRev] at hs
  split at hs
  · simp at hs; subst hs; exact hcons
  · split at hs
    · next r hsc => simp at hs; subst hs; exact scan_noexp new rev _ h hsc
    · simp at hs
    · simp at hs; subst hs; exact hcons

theorem mergeRevAux_noexp (rev rev' input : List Resp) (h : NoExp rev) (hi : NoExp input)
    (hs : Resp.mergeRevAux rev input = .ok rev') : NoExp rev' := by
  induction input generalizing rev with
  | nil => simp [Resp.mergeRevAux] at hs; subst hs; exact h
  | cons r rs ih =>
    simp only [Resp.mergeRevAux] at hs
    split at hs
    · next rev1 h1 =>
      exact ih rev1 (appendOrMergeRev_noexp rev rev1 r h (hi r List.mem_cons_self) h1)
        (fun x hx => hi x (List.mem_cons_of_mem _ hx)) hs
    · simp at hs

theorem merge_noexp (input out : List Resp) (hi : NoExp input) (hs : Resp.merge input = .ok out) : NoExp out := by
  simp only [Resp.merge] at hs
  split at hs
  · simp at hs; subst hs; exact hi
  · split at hs
    · next rev h1 =>
      simp at hs; subst hs
      have := mergeRevAux_noexp [] rev input NoExp.nil hi h1
      intro x hx
      exact this x (List.mem_reverse.mp hx)
    · simp at hs

end Gluon
