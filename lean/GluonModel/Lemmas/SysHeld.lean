/- C05 on the system model: a non-permitting command announces no removal, whatever the state; under the system
   invariant every removal of a message a session knows is in that session's queue. -/
import GluonModel.Lemmas.SysExplicable
import GluonModel.Theorems.C05

namespace Gluon.Sys
open Gluon

/-! ### no EXPUNGE without permission -/

theorem andThen_resps_noexp {o : Out} {r : FlushResult} (ho : ∀ x ∈ o.resps, x.isExpunge = false)
    (hr : ∀ out, r = .ok out → ∀ x ∈ out, x.isExpunge = false) : ∀ x ∈ (o.andThen r).resps, x.isExpunge = false := by
  cases r with
  | ok out =>
    intro x hx
    simp only [Out.andThen, List.mem_append] at hx
    rcases hx with h | h
    · exact ho x h
    · exact hr out rfl x h
  | err e => simp only [Out.andThen]; split <;> exact ho
  | mergePanic => simp only [Out.andThen]; split <;> exact ho

theorem sess_flush_false_noexp (sid : StateId) (me : Sess) :
    ∀ out, (me.flush sid false).2 = .ok out → ∀ x ∈ out, x.isExpunge = false := by
  intro out h
  exact C05.flush_false_no_expunge false sid me.snap me.res out h

/-- the flushes of a command whose handler flushes without permission (or not at all) -/
theorem endFlushes_noexp (sid : StateId) (e : Effect) (me : Sess) (hf : e.flush1 = none ∨ e.flush1 = some false) :
    ∀ x ∈ (endFlushes sid e me).2.resps, x.isExpunge = false := by
  unfold Sys.endFlushes
  rcases hf with hf | hf <;> simp only [hf]
  · split
    · exact andThen_resps_noexp (by simp) (sess_flush_false_noexp sid me)
    · simp
  · split
    · apply andThen_resps_noexp _ (sess_flush_false_noexp sid _)
      exact andThen_resps_noexp (by simp) (sess_flush_false_noexp sid me)
    · exact andThen_resps_noexp (by simp) (sess_flush_false_noexp sid me)

/-- STORE and COPY flush without permission -/
theorem effect_flush1_store_copy {idx : Index} {me : Sess} {sid : StateId} {c : Cmd} {e : Effect}
    (h : effect idx me sid c = some e)
    (hc : (∃ seqs op fl silent, c = .store seqs op fl silent) ∨ ∃ seqs dest, c = .copy seqs dest) :
    e.flush1 = none ∨ e.flush1 = some false := by
  rcases hc with ⟨seqs, op, fl, silent, rfl⟩ | ⟨seqs, dest, rfl⟩
  · simp only [effect] at h
    split at h
    · cases h
    · split at h
      · cases h
      · simp only [Option.some.injEq] at h; subst h; exact Or.inr rfl
  · simp only [effect] at h
    split at h
    · cases h
    · split at h
      · cases h
      · split at h
        · cases h
        · simp only [Option.some.injEq] at h; subst h; exact Or.inl rfl

/-- the ops that do not permit EXPUNGE: any FETCH-class command, STORE, COPY -/
def SysOp.NonPermitting : SysOp → Prop
  | .flush _ p => p = false
  | .cmd _ (.store ..) => True
  | .cmd _ (.copy ..) => True
  | _ => False

/-- **no EXPUNGE while answering a command that does not permit it** — every state, every schedule -/
theorem step_nonPermitting_noexp (s : Sys) (op : SysOp) (hop : op.NonPermitting) :
    ∀ x ∈ (step s op).2.resps, x.isExpunge = false := by
  cases op with
  | conn c => exact absurd hop (by simp [SysOp.NonPermitting])
  | drain j k => exact absurd hop (by simp [SysOp.NonPermitting])
  | select j mb => exact absurd hop (by simp [SysOp.NonPermitting])
  | unselect j => exact absurd hop (by simp [SysOp.NonPermitting])
  | close j => exact absurd hop (by simp [SysOp.NonPermitting])
  | flush j p =>
    have hp : p = false := hop
    subst hp
    cases hj : s.sess[j]? with
    | none => rw [(step_none hj).2.1 false]; simp
    | some sj =>
      cases hs : sj.sel with
      | none => rw [step_flush_unsel hj hs]; simp
      | some mb =>
        rw [step_flush_sel hj hs]
        exact andThen_resps_noexp (by simp) (sess_flush_false_noexp _ sj)
  | cmd j c =>
    have hc : (∃ seqs op fl silent, c = .store seqs op fl silent) ∨ ∃ seqs dest, c = .copy seqs dest := by
      cases c with
      | store seqs op fl silent => exact Or.inl ⟨seqs, op, fl, silent, rfl⟩
      | copy seqs dest => exact Or.inr ⟨seqs, dest, rfl⟩
      | append mb fl => exact absurd hop (by simp [SysOp.NonPermitting])
      | expunge => exact absurd hop (by simp [SysOp.NonPermitting])
      | move seqs dest => exact absurd hop (by simp [SysOp.NonPermitting])
    cases hj : s.sess[j]? with
    | none => rw [(step_none hj).2.2.2.2 c]; simp
    | some sj =>
      cases he : effect s.idx sj (sidOf j) c with
      | none =>
        rcases step_cmd_none hj he with h1 | ⟨mb, _, h1⟩
        · rw [h1]; simp
        · rw [h1]
          exact andThen_resps_noexp (by simp) (sess_flush_false_noexp _ sj)
      | some e =>
        obtain ⟨_, _, h3, _, _⟩ := step_cmd_some hj he
        rw [h3]
        exact endFlushes_noexp _ e _ (effect_flush1_store_copy he hc)

/-- a refused command announces no removal either (at most the trailing non-permitting flush runs) -/
theorem step_refused_noexp (s : Sys) (j : Nat) (c : Cmd) (h : (step s (.cmd j c)).2.status = .refused) :
    ∀ x ∈ (step s (.cmd j c)).2.resps, x.isExpunge = false := by
  cases hj : s.sess[j]? with
  | none => rw [(step_none hj).2.2.2.2 c]; simp
  | some sj =>
    cases he : effect s.idx sj (sidOf j) c with
    | none =>
      rcases step_cmd_none hj he with h1 | ⟨mb, _, h1⟩
      · rw [h1]; simp
      · rw [h1]
        exact andThen_resps_noexp (by simp) (sess_flush_false_noexp _ sj)
    | some e =>
      -- a command that is carried out does not answer `refused`
      exfalso
      obtain ⟨_, _, h3, _, _⟩ := step_cmd_some hj he
      rw [h3] at h
      unfold Sys.endFlushes at h
      have key : ∀ (o : Out) (r : FlushResult), o.status ≠ .refused → (o.andThen r).status ≠ .refused := by
        intro o r ho
        cases r with
        | ok out => exact ho
        | err e' => simp only [Out.andThen]; split <;> simp_all
        | mergePanic => simp only [Out.andThen]; split <;> simp_all
      have h0 : ({} : Out).status ≠ .refused := by simp
      revert h
      cases e.flush1 with
      | none =>
        simp only
        split
        · exact key _ _ h0
        · exact h0
      | some p =>
        simp only
        split
        · exact key _ _ (key _ _ h0)
        · exact key _ _ h0

/-! ### a removal is queued for every session that knows the message -/

theorem foldl_stepId_isSome {sid : StateId} {id : MsgId} (q : List Responder) (cur : Option SMsg)
    (hno : Responder.expunge id ∉ q) (hcur : cur.isSome = true) : (q.foldl (stepId sid id) cur).isSome = true := by
  induction q generalizing cur with
  | nil => exact hcur
  | cons r t ih =>
    rw [List.foldl_cons]
    apply ih _ (fun h => hno (List.mem_cons_of_mem _ h))
    cases r with
    | «exists» id' uid fl tg o =>
      simp only [stepId]
      split
      · cases cur with
        | none => rfl
        | some m => rfl
      · exact hcur
    | expunge id' =>
      simp only [stepId]
      split
      · next h => subst h; exact absurd List.mem_cons_self hno
      · exact hcur
    | fetch id' fl op a b c =>
      simp only [stepId]
      split
      · cases cur with
        | none => cases hcur
        | some m => rfl
      · exact hcur

theorem foldl_stepId_isSome_of_exists {sid : StateId} {id : MsgId} (q : List Responder) (cur : Option SMsg)
    (hno : Responder.expunge id ∉ q) (hex : ∃ r ∈ q, r.isExists = true ∧ r.msgId = id) :
    (q.foldl (stepId sid id) cur).isSome = true := by
  induction q generalizing cur with
  | nil => obtain ⟨r, hr, _⟩ := hex; cases hr
  | cons r t ih =>
    rw [List.foldl_cons]
    have hno' : Responder.expunge id ∉ t := fun h => hno (List.mem_cons_of_mem _ h)
    obtain ⟨r0, hr0, hex0, hid0⟩ := hex
    rcases List.mem_cons.mp hr0 with rfl | hr0'
    · -- the EXISTS itself: afterwards the entry is there
      apply foldl_stepId_isSome t _ hno'
      cases r0 with
      | «exists» id' uid fl tg o =>
        simp only [Responder.msgId] at hid0
        subst hid0
        simp only [stepId, if_true]
        cases cur <;> rfl
      | expunge _ => simp [Responder.isExists] at hex0
      | fetch _ _ _ _ _ _ => simp [Responder.isExists] at hex0
    · exact ih _ hno' ⟨r0, hr0', hex0, hid0⟩

/-- handling a queue that holds no `expunge id` does not lose message `id` -/
theorem run_keeps {sid : StateId} {s s' : Snap} {q : List Responder} {id : MsgId} (hinv : Snap.Inv s)
    (hrun : Gluon.run sid s q = some s') (hno : Responder.expunge id ∉ q)
    (hknown : s.has id = true ∨ ∃ r ∈ q, r.isExists = true ∧ r.msgId = id) : s'.has id = true := by
  have hl := look_run hinv hrun id
  have hsome : (s'.look id).isSome = true := by
    rw [hl]
    rcases hknown with h | h
    · apply foldl_stepId_isSome q _ hno
      cases hlk : s.look id with
      | none => rw [Snap.look_eq_none_iff] at hlk; rw [hlk] at h; cases h
      | some m => rfl
    · exact foldl_stepId_isSome_of_exists q _ hno h
  cases hh : s'.has id with
  | true => rfl
  | false =>
    rw [← Snap.look_eq_none_iff] at hh
    rw [hh] at hsome; cases hsome

theorem sameView_has {s : Snap} {v : View} (h : SameView s v) (id : MsgId) : s.has id = true ↔ id ∈ v.ids := by
  rw [← h.ids_eq]
  simp [Snap.has, Snap.ids]

/-- **a removal reaches the queue** — in a state satisfying the system invariant: if a session knows message `id` (it is
    in its snapshot, or an EXISTS for it is applied or queued) and the authoritative mailbox no longer holds it, the
    `expunge id` responder is among the session's responders or will be contributed by its update queue -/
theorem removal_queued {s : Sys} (h : SysInv s) {j : Nat} {me : Sess} {mb : Nat} (hj : s.sess[j]? = some me)
    (hs : me.sel = some mb) {id : MsgId}
    (hknown : me.snap.has id = true ∨ ∃ r ∈ me.res ++ pendOf (sidOf j) mb me.inbox, r.isExists = true ∧ r.msgId = id)
    (hgone : id ∉ (s.idx.view mb).ids) : Responder.expunge id ∈ me.res ++ pendOf (sidOf j) mb me.inbox := by
  have hsi := h.sess j me hj
  unfold SessInv at hsi
  rw [hs] at hsi
  obtain ⟨_, hh, _⟩ := hsi
  unfold Sess.virt at hh
  obtain ⟨s', hs', hsv⟩ := conv_iff.mp hh.conv
  apply Classical.byContradiction
  intro hno
  have := run_keeps hh.inv hs' hno hknown
  rw [sameView_has hsv] at this
  exact hgone this

end Gluon.Sys
