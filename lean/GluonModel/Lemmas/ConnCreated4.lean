/-
MessagesCreated, part 4: from the loop invariant to the described effect.
-/
import GluonModel.Lemmas.ConnCreated3

namespace Gluon.ConnUpd

theorem ridUnique_of (db : DB) (hi : InvP db) (done : List NewMsg) (tc : List Msg) (h : TcInv db done tc) :
    ∀ x ∈ db.msgs ++ tc, ∀ y ∈ db.msgs ++ tc, x.rid = y.rid → x = y := by
  intro x hx y hy he
  rw [List.mem_append] at hx hy
  have hcontra : ∀ a ∈ db.msgs, ∀ c ∈ tc, a.rid = c.rid → False := by
    intro a ha c hc e
    have h1 := h.fresh c hc
    have h2 : (db.msgByRid c.rid).isSome = true := find?_isSome_of_mem _ _ a ha (by simp [e])
    rw [h1] at h2; cases h2
  rcases hx with hx | hx <;> rcases hy with hy | hy
  · exact eq_of_key_eq (fun g : Msg => g.rid) db.msgs x y hi.msgRid hx hy he
  · exact (hcontra x hx y hy he).elim
  · exact (hcontra y hy x hx he.symm).elim
  · exact eq_of_key_eq (fun g : Msg => g.rid) tc x y h.rid hx hy he

theorem pairsOf_of_mem (fm : FM) (hnd : (fmKeys fm).Nodup) (e : Nat × List (Nat × RID)) (he : e ∈ fm) :
    pairsOf fm e.1 = e.2 := by
  unfold pairsOf
  have := find?_of_mem (fun e : Nat × List (Nat × RID) => e.1) fm e (nodupKeys_of_nodup_map _ fm hnd) he
  rw [this]

/-- the pairs recorded for a mailbox can all be inserted -/
theorem okToAdd_of (cfg : Cfg) (db : DB) (hi : InvP db) (ms : List NewMsg) (tc : List Msg) (fm : FM)
    (htc : TcInv db ms tc) (hfm : FmInv db ms tc (fun _ => ms.length) fm)
    (B : Mbox) (hB : B ∈ db.mboxes) (hroom : roomFor cfg B ms.length = true) :
    okToAdd cfg B (toAddOf B (pairsOf fm B.iid)) := by
  have hlen : (toAddOf B (pairsOf fm B.iid)).length ≤ ms.length :=
    Nat.le_trans (List.length_filter_le _ _) (hfm.len B.iid)
  simp only [roomFor, Bool.and_eq_true, decide_eq_true_eq] at hroom
  have hrid := ridUnique_of db hi ms tc htc
  have hsub : ∀ p ∈ toAddOf B (pairsOf fm B.iid), p ∈ pairsOf fm B.iid ∧ B.has p.1 = false := by
    intro p hp
    simp only [toAddOf, List.mem_filter, Bool.not_eq_true'] at hp
    exact hp
  refine ⟨by omega, by omega, ?_, ?_⟩
  · apply hasDupMsg_false
    · exact nodupKeys_filter _ _ _ (hfm.pairNd B.iid)
    · -- equal remote ids mean equal messages, hence equal internal ids
      have key : ∀ l : List (Nat × RID), (∀ p ∈ l, p ∈ pairsOf fm B.iid) → nodupKeys (fun p : Nat × RID => p.1) l = true →
          nodupKeys (fun p : Nat × RID => p.2) l = true := by
        intro l
        induction l with
        | nil => intro _ _; rfl
        | cons p ps ih =>
          intro hmem hn
          rw [nodupKeys_cons] at hn ⊢
          refine ⟨?_, ih (fun q hq => hmem q (List.mem_cons_of_mem _ hq)) hn.2⟩
          intro q hq
          cases hb : (q.2 == p.2) with
          | false => rfl
          | true =>
            exfalso
            obtain ⟨⟨x, hx, hxr, hxi⟩, _⟩ := hfm.sound B.iid p (hmem p (List.mem_cons_self))
            obtain ⟨⟨y, hy, hyr, hyi⟩, _⟩ := hfm.sound B.iid q (hmem q (List.mem_cons_of_mem _ hq))
            have : x = y := hrid x hx y hy (by rw [hxr, hyr]; exact (eq_of_beq hb).symm)
            have h1 := hn.1 q hq
            rw [← hxi, ← hyi, this] at h1
            simp at h1
      exact key _ (fun p hp => (hsub p hp).1) (nodupKeys_filter _ _ _ (hfm.pairNd B.iid))
  · rw [List.all_eq_true]
    intro p hp
    obtain ⟨hpp, hhas⟩ := hsub p hp
    rw [List.all_eq_true]
    intro r hr
    simp only [Bool.and_eq_true, bne_iff_ne, ne_eq]
    have hne : ¬ r.msg = p.1 := by
      intro e
      simp only [Mbox.has, List.any_eq_false, beq_iff_eq] at hhas
      exact hhas r hr e
    refine ⟨hne, ?_⟩
    intro e
    apply hne
    obtain ⟨g', hg', hg'r⟩ := hi.rowRef B hB r hr
    obtain ⟨hg'm, hg'i⟩ := msgByIid_some hg'
    obtain ⟨⟨x, hx, hxr, hxi⟩, _⟩ := hfm.sound B.iid p hpp
    have : g' = x := hrid g' (List.mem_append_left _ hg'm) x hx (by rw [hg'r, e, hxr])
    rw [← hg'i, this, hxi]

/-- a look-up by remote id in an index with the same (remote id, id) keys -/
theorem mboxByRid_of_keys (db db2 : DB) (hi : InvP db)
    (hkeys : db2.mboxes.map (fun m => (m.rid, m.iid)) = db.mboxes.map (fun m => (m.rid, m.iid)))
    (b : RID) (B B2 : Mbox) (hB : db.mboxByRid b = some B) (hB2 : db2.mboxByIid B.iid = some B2) :
    db2.mboxByRid b = some B2 := by
  have h1 := mboxByRid_iid_of_keys db db2 hkeys b
  rw [hB] at h1
  cases h2 : db2.mboxByRid b with
  | none => rw [h2] at h1; cases h1
  | some B' =>
    rw [h2] at h1
    simp only [Option.map_some, Option.some.injEq] at h1
    have hiids : db2.mboxes.map (·.iid) = db.mboxes.map (·.iid) := by
      have := congrArg (List.map Prod.snd) hkeys
      simp only [List.map_map] at this
      exact this
    have hnd : nodupKeys (fun m : Mbox => m.iid) db2.mboxes = true := by
      apply nodupKeys_of_nodup_map
      rw [hiids]
      exact nodup_map_of_nodupKeys _ _ hi.mboxIid
    have hf := find?_of_mem (fun m : Mbox => m.iid) db2.mboxes B' hnd (mboxByRid_some h2).1
    have : db2.mboxByIid B.iid = some B' := by
      simp only [DB.mboxByIid]
      rw [← h1]; exact hf
    rw [this] at hB2
    rw [Option.some.inj hB2]

theorem created_effect (cfg : Cfg) (db : DB) (hi : InvP db) (ms : List NewMsg) (tc : List Msg) (fm : FM) (db2 : DB)
    (htc : TcInv db ms tc) (hfm : FmInv db ms tc (fun _ => ms.length) fm) (hc : FmComplete db ms fm)
    (hng : ∀ m ∈ ms, db.ghost m.rid = false)
    (hmsgs : db2.msgs = db.msgs ++ tc) (hds : db2.delSubs = db.delSubs)
    (hkeys : db2.mboxes.map (fun m => (m.rid, m.iid)) = db.mboxes.map (fun m => (m.rid, m.iid)))
    (hpt : ∀ B ∈ db.mboxes, db2.mboxByIid B.iid = some (growMany B (toAddOf B (pairsOf fm B.iid))))
    (hok : ∀ B ∈ db.mboxes, okToAdd cfg B (toAddOf B (pairsOf fm B.iid))) :
    effectCreated ms db db2 = true := by
  have hrid := ridUnique_of db hi ms tc htc
  have hiid := iidUnique_of db hi ms tc htc
  have hiids : db2.mboxes.map (·.iid) = db.mboxes.map (·.iid) := by
    have := congrArg (List.map Prod.snd) hkeys
    simp only [List.map_map] at this
    exact this
  -- look-ups in the new message table
  have hfind_old : ∀ g ∈ db.msgs, db2.msgByRid g.rid = some g := by
    intro g hg
    simp only [DB.msgByRid, hmsgs, List.find?_append]
    have := msgByRid_of_mem hi hg
    simp only [DB.msgByRid] at this
    simp [this]
  have hfind_new : ∀ c ∈ tc, db2.msgByRid c.rid = some c := by
    intro c hc
    simp only [DB.msgByRid, hmsgs, List.find?_append]
    have h1 := htc.fresh c hc
    simp only [DB.msgByRid] at h1
    rw [h1]
    simp only [Option.none_or]
    exact find?_of_mem (fun g : Msg => g.rid) tc c htc.rid hc
  simp only [effectCreated, Bool.and_eq_true]
  refine ⟨⟨⟨⟨⟨?_, ?_⟩, ?_⟩, all_known_of_iids db db2 hiids⟩, ?_⟩, sameDelSubs_of_eq _ _ hds⟩
  · -- (1) every listed message exists afterwards
    rw [List.all_eq_true]
    intro m hm
    cases hl : db.liveMsg m.rid with
    | some g =>
      obtain ⟨hg, _⟩ := liveMsg_some hl
      obtain ⟨hgm, hgr⟩ := msgByRid_some hg
      simp only
      rw [← hgr, hfind_old g hgm]
      exact msgSame_refl g
    | none =>
      have hnone : db.msgByRid m.rid = none := by
        cases hg : db.msgByRid m.rid with
        | none => rfl
        | some g =>
          exfalso
          have := hng m hm
          simp only [DB.ghost, hg] at this
          simp [DB.liveMsg, hg, this] at hl
      obtain ⟨c, hc, hcr⟩ := htc.complete m hm hnone
      obtain ⟨f, hf, hfl⟩ := htc.flags c hc
      simp only
      rw [← hcr, hf]
      simp only [liveWithFlags, DB.liveMsg, hfind_new c hc, htc.live c hc, Bool.false_eq_true, if_false, hfl]
      exact sameSet_dedup f.flags
  · -- (2) and is in every listed mailbox the server knows
    rw [List.all_eq_true]
    intro m hm
    rw [List.all_eq_true]
    intro b hb
    cases hB : db.mboxByRid b with
    | none => simp [DB.known, hB]
    | some B =>
      obtain ⟨hBm, hBr⟩ := mboxByRid_some hB
      obtain ⟨p, hp, hpr⟩ := hc m hm b hb B hB
      have hB2 := mboxByRid_of_keys db db2 hi hkeys b B _ hB (hpt B hBm)
      simp only [DB.known, hB, Option.isSome_some, Bool.not_true, Bool.false_or, DB.inMbox, hB2, Mbox.hasRid, growMany,
        List.any_append, Bool.or_eq_true, List.any_eq_true, beq_iff_eq]
      by_cases hhas : B.has p.1 = true
      · left
        simp only [Mbox.has, List.any_eq_true, beq_iff_eq] at hhas
        obtain ⟨r, hr, hrm⟩ := hhas
        refine ⟨r, hr, ?_⟩
        obtain ⟨g', hg', hg'r⟩ := hi.rowRef B hBm r hr
        obtain ⟨hg'm, hg'i⟩ := msgByIid_some hg'
        obtain ⟨⟨x, hx, hxr, hxi⟩, _⟩ := hfm.sound B.iid p hp
        have : g' = x := hiid g' (List.mem_append_left _ hg'm) x hx (by rw [hg'i, hxi, hrm])
        rw [← hg'r, this, hxr, hpr]
      · right
        have hpa : p ∈ toAddOf B (pairsOf fm B.iid) := by
          simp only [toAddOf, List.mem_filter, Bool.not_eq_true']
          exact ⟨hp, Bool.eq_false_iff.2 hhas⟩
        obtain ⟨r, hr, _, hrr⟩ := mkRows_mem_of _ (B.seq + 1) p hpa
        exact ⟨r, hr, by rw [hrr, hpr]⟩
  · -- (3) every mailbox only gained rows for listed pairs, with fresh UIDs
    rw [List.all_eq_true]
    intro B hB
    rw [hpt B hB]
    simp only [Bool.and_eq_true]
    refine ⟨by simp [metaSame, growMany], ?_⟩
    obtain ⟨_, _, hdup, hfree⟩ := hok B hB
    apply rowsExtended_growMany
    · intro p hp
      have hpp : p ∈ pairsOf fm B.iid := (List.mem_filter.1 hp).1
      obtain ⟨_, m, hm, hmr, B', hB'm, hB'i, hcont⟩ := hfm.sound B.iid p hpp
      have hBB : B' = B := eq_of_key_eq (fun m : Mbox => m.iid) db.mboxes B' B hi.mboxIid hB'm hB hB'i
      constructor
      · rw [List.any_eq_true]
        have hcont' : m.mboxes.contains B.rid = true := by rw [← hBB]; exact hcont
        exact ⟨m, hm, by simp only [hmr, beq_self_eq_true, hcont', Bool.and_self]⟩
      · rw [List.all_eq_true] at hfree
        have := hfree p hp
        rw [List.all_eq_true] at this
        simp only [Mbox.hasRid, List.any_eq_false, beq_iff_eq]
        intro r hr
        have := this r hr
        simp only [Bool.and_eq_true, bne_iff_ne, ne_eq] at this
        exact this.2
    · exact nodupKeys_snd_of_hasDupMsg _ hdup
  · -- (4) no other message changed
    simp only [sameMsgsExcept, Bool.and_eq_true, List.all_eq_true, Bool.or_eq_true]
    constructor
    · intro g hg
      right
      rw [hfind_old g hg]
      exact msgSame_refl g
    · intro g hg
      rw [hmsgs, List.mem_append] at hg
      rcases hg with hg | hg
      · right; rw [msgByRid_of_mem hi hg]; rfl
      · left
        obtain ⟨f, hf, _⟩ := htc.flags g hg
        obtain ⟨hfm', hfr⟩ := find?_key_mem _ _ _ hf
        rw [List.any_eq_true]
        exact ⟨f, hfm', hfr⟩

end Gluon.ConnUpd
