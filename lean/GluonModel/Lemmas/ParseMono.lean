/-
The parser only moves forward, whatever the outcome: `Mono p` — after `p`, successful or failed, the
unread bytes are a suffix of what was unread before. (`Shrinks` in `ParseTerm` says the same for successful
outcomes of loaded states; the reader loop of the session needs it for the state a FAILED `Parse` leaves
behind, on which `ConsumeInvalidInput` and the next `Parse` run.) By composition (type class resolution
over the `do` blocks) and by induction for the loops, like `NoPanic`.
-/
import GluonModel.Model.Parse.Grammar

namespace Gluon.Parse

set_option synthInstance.maxSize 4096
set_option synthInstance.maxHeartbeats 400000

/-- the state an outcome carries has a suffix of `s`'s unread bytes -/
def Res.RestLe (r : Res α) (s : PState) : Prop :=
  match r with
  | .ok _ s' => s'.rest <:+ s.rest
  | .err _ s' => s'.rest <:+ s.rest
  | .fuel => True

theorem Res.RestLe.trans {r : Res α} {s1 s : PState} (h : r.RestLe s1) (h1 : s1.rest <:+ s.rest) : r.RestLe s := by
  unfold Res.RestLe at *
  cases r with
  | ok a s' => exact List.IsSuffix.trans h h1
  | err e s' => exact List.IsSuffix.trans h h1
  | fuel => trivial

/-- `p` never un-reads: ok or error, the unread bytes afterwards are a suffix of those before -/
class Mono (p : P α) : Prop where
  mono : ∀ s, (p s).RestLe s

theorem Mono.ok {α : Type} {p : P α} [m : Mono p] {s : PState} {a : α} {s' : PState} (h : p s = .ok a s') :
    s'.rest <:+ s.rest := by
  have := m.mono s; rw [h] at this; exact this
theorem Mono.err {α : Type} {p : P α} [m : Mono p] {s : PState} {e : PErr} {s' : PState} (h : p s = .err e s') :
    s'.rest <:+ s.rest := by
  have := m.mono s; rw [h] at this; exact this

instance : Mono (pure a : P α) := ⟨fun _ => List.suffix_refl _⟩
instance (x : P α) (f : α → P β) [hx : Mono x] [hf : ∀ a, Mono (f a)] : Mono (x >>= f) := ⟨by
  intro s
  have e : (x >>= f) s = match x s with
      | .ok a s' => f a s'
      | .err e s' => .err e s'
      | .fuel => .fuel := rfl
  rw [e]
  cases hxs : x s with
  | ok a s1 => exact ((hf a).mono s1).trans (Mono.ok hxs)
  | err e s1 => exact Mono.err hxs
  | fuel => trivial⟩
instance (c : Prop) [Decidable c] (p q : P α) [hp : Mono p] [hq : Mono q] : Mono (if c then p else q) := ⟨by
  intro s
  split
  · exact hp.mono s
  · exact hq.mono s⟩
instance : Mono (outOfFuel : P α) := ⟨fun _ => trivial⟩
instance : Mono (makeError : P α) := ⟨fun _ => List.suffix_refl _⟩
instance : Mono (makeErrorAt : P α) := ⟨fun _ => List.suffix_refl _⟩
instance : Mono (fail e : P α) := ⟨fun _ => List.suffix_refl _⟩
instance : Mono advance := ⟨fun s => by
  unfold advance
  split
  · exact List.suffix_refl _
  · rename_i b bs h; show bs <:+ s.rest; rw [h]; exact List.suffix_cons _ _⟩
instance : Mono (check t) := ⟨fun _ => List.suffix_refl _⟩
instance : Mono (checkWith f) := ⟨fun _ => List.suffix_refl _⟩
instance : Mono prevVal := ⟨fun _ => List.suffix_refl _⟩
instance : Mono curVal := ⟨fun _ => List.suffix_refl _⟩
instance : Mono bumpConts := ⟨fun _ => List.suffix_refl _⟩
instance : Mono getState := ⟨fun _ => List.suffix_refl _⟩

instance : Mono (consumeWith f) := ⟨by
  intro s
  unfold consumeWith
  split
  · exact Mono.mono (p := advance) s
  · exact Mono.mono (p := (makeError : P Unit)) s⟩
instance : Mono (consume t) := inferInstanceAs (Mono (consumeWith _))
instance : Mono (matchesWith f) := ⟨by
  intro s
  unfold matchesWith
  split
  · exact Mono.mono (p := advance >>= fun _ => pure true) s
  · exact List.suffix_refl _⟩
instance : Mono (matchesTy t) := inferInstanceAs (Mono (matchesWith _))

theorem mono_consumeBytes (l : Bytes) : Mono (consumeBytes l) := by
  induction l with
  | nil => exact inferInstanceAs (Mono (pure ()))
  | cons c cs ih =>
    refine ⟨fun s => ?_⟩
    unfold consumeBytes
    split
    · exact Mono.mono (p := (makeError : P Unit)) s
    · exact Mono.mono (p := advance >>= fun _ => consumeBytes cs) s
instance : Mono (consumeBytes l) := mono_consumeBytes l

theorem mono_consumeBytesFold (l : Bytes) : Mono (consumeBytesFold l) := by
  induction l with
  | nil => exact inferInstanceAs (Mono (pure ()))
  | cons c cs ih =>
    refine ⟨fun s => ?_⟩
    unfold consumeBytesFold
    split
    · exact Mono.mono (p := (makeError : P Unit)) s
    · exact Mono.mono (p := advance >>= fun _ => consumeBytesFold cs) s
instance : Mono (consumeBytesFold l) := mono_consumeBytesFold l

instance : Mono (goMakeBytes size) := ⟨fun s => by
  unfold goMakeBytes
  split <;> exact List.suffix_refl _⟩
instance : Mono (scannerConsumeBytes n) := ⟨fun s => by
  unfold scannerConsumeBytes
  split
  · exact List.suffix_refl _
  · split
    · exact List.nil_suffix
    · exact List.drop_suffix _ _⟩

theorem mono_collectLoop (f : TokTy → Bool) (n : Nat) : Mono (collectLoop f n) := by
  induction n with
  | zero => exact inferInstanceAs (Mono outOfFuel)
  | succ n ih => unfold collectLoop; infer_instance
instance : Mono (collectLoop f n) := mono_collectLoop f n
instance : Mono (collectWhile f n) := mono_collectLoop f n
instance : Mono (collectWhilePrev f n) := by unfold collectWhilePrev; infer_instance

theorem mono_numberLoop (n : Nat) : ∀ acc, Mono (numberLoop n acc) := by
  induction n with
  | zero => intro acc; exact inferInstanceAs (Mono outOfFuel)
  | succ n ih => intro acc; unfold numberLoop; infer_instance
instance : Mono (numberLoop n acc) := mono_numberLoop n acc
instance : Mono (parseNumber n) := by unfold parseNumber; infer_instance


theorem mono_numberNLoop (n : Nat) : ∀ acc, Mono (numberNLoop n acc) := by
  induction n with
  | zero => intro acc; exact inferInstanceAs (Mono (pure acc))
  | succ n ih => intro acc; unfold numberNLoop; infer_instance
instance : Mono (numberNLoop n acc) := mono_numberNLoop n acc
instance : Mono (parseNumberN n) := by unfold parseNumberN; infer_instance
instance : Mono (parseAtom n) := by unfold parseAtom; infer_instance

theorem mono_quotedLoop (n : Nat) : Mono (quotedLoop n) := by
  induction n with
  | zero => exact inferInstanceAs (Mono outOfFuel)
  | succ n ih => unfold quotedLoop; infer_instance
instance : Mono (quotedLoop n) := mono_quotedLoop n
instance : Mono (parseQuoted n) := by unfold parseQuoted; infer_instance

instance : Mono (bumpContsIf b) := by unfold bumpContsIf; infer_instance

instance : Mono (parseLiteral fuel) := by unfold parseLiteral; infer_instance

instance : Mono (parseString n) := by unfold parseString; infer_instance
instance : Mono (parseAString n) := by unfold parseAString; infer_instance
instance : Mono (tryParseString n) := by unfold tryParseString; infer_instance


theorem mono_sepLoop (sep : TokTy) (item : P α) [Mono item] (n : Nat) : Mono (sepLoop sep item n) := by
  induction n with
  | zero => exact inferInstanceAs (Mono outOfFuel)
  | succ n ih => unfold sepLoop; infer_instance
instance (sep : TokTy) (item : P α) [Mono item] : Mono (sepLoop sep item n) := mono_sepLoop sep item n

instance : Mono (readKeyword fuel) := by unfold readKeyword; infer_instance
instance : Mono (parseMailbox fuel) := by unfold parseMailbox; infer_instance
instance : Mono (parseListMailbox fuel) := by unfold parseListMailbox; infer_instance
instance : Mono (parseFlag fuel) := by unfold parseFlag; infer_instance
instance : Mono (parseFlagList fuel) := by unfold parseFlagList; infer_instance
instance : Mono (tryParseFlagList fuel) := by unfold tryParseFlagList; infer_instance
instance : Mono (parseNZNumber fuel) := by unfold parseNZNumber; infer_instance
instance : Mono (parseSeqNumber fuel) := by unfold parseSeqNumber; infer_instance
instance : Mono (parseSeqRange fuel) := by unfold parseSeqRange; infer_instance
instance : Mono (parseSeqSet fuel) := by unfold parseSeqSet; infer_instance
instance : Mono parseDateDayFixed := by unfold parseDateDayFixed; infer_instance
instance : Mono parseDateMonth := by
  unfold parseDateMonth
  have : ∀ o : Option Int, Mono (match o with | some m => (pure m : P Int) | none => makeError) := by
    intro o; cases o <;> infer_instance
  infer_instance
instance : Mono parseDateYear := by unfold parseDateYear; infer_instance
instance : Mono parseZone := by unfold parseZone; infer_instance
instance : Mono parseTime := by unfold parseTime; infer_instance
instance : Mono parseDateTime := by
  unfold parseDateTime
  have : ∀ (year month day : Int) (t : Int × Int × Int), Mono (match t with
      | (h, m, s) => do
        consume .sp
        let zone ← parseZone
        consume .dquote
        pure (DateTime.mk year month day h m s zone) : P DateTime) := by
    intro y mo d t; obtain ⟨h, m, s⟩ := t; infer_instance
  infer_instance
instance : Mono parseDateText := by unfold parseDateText; infer_instance
instance : Mono parseDate := by unfold parseDate; infer_instance
instance : Mono (parseMailboxCmd mk fuel) := by unfold parseMailboxCmd; infer_instance
instance : Mono (parseLogin fuel) := by unfold parseLogin; infer_instance
instance : Mono (parseRename fuel) := by unfold parseRename; infer_instance
instance : Mono (parseListCmd mk fuel) := by unfold parseListCmd; infer_instance
instance : Mono (parseStatusAttribute fuel) := by unfold parseStatusAttribute; infer_instance
instance : Mono (parseStatus fuel) := by unfold parseStatus; infer_instance
instance : Mono (parseStoreFlags fuel) := by
  unfold parseStoreFlags
  have : ∀ o : Option (List BStr), Mono (match o with
      | some fl => (pure fl : P (List BStr))
      | none => do
        let f ← parseFlag fuel
        let r ← sepLoop .sp (parseFlag fuel) fuel
        pure (f :: r)) := by
    intro o; cases o <;> infer_instance
  infer_instance
instance : Mono (parseStore fuel) := by unfold parseStore; infer_instance
instance : Mono (parseCopyMove mk fuel) := by unfold parseCopyMove; infer_instance
instance : Mono (parseHeaderList fuel) := by unfold parseHeaderList; infer_instance
instance : Mono (parseHeaderFields fuel) := by unfold parseHeaderFields; infer_instance
instance : Mono (handleSectionMessageText t fuel) := by unfold handleSectionMessageText; infer_instance
instance : Mono (parseSectionText fuel) := by unfold parseSectionText; infer_instance
instance : Mono (parseSectionMsgText fuel) := by unfold parseSectionMsgText; infer_instance
theorem mono_sectionPartLoop (fuel n : Nat) : Mono (sectionPartLoop fuel n) := by
  induction n with
  | zero => exact inferInstanceAs (Mono outOfFuel)
  | succ n ih => unfold sectionPartLoop; infer_instance
instance : Mono (sectionPartLoop fuel n) := mono_sectionPartLoop fuel n
instance : Mono (parseSectionPart fuel) := by unfold parseSectionPart; infer_instance
instance : Mono (parseSectionSpec fuel) := by unfold parseSectionSpec; infer_instance
instance : Mono (handleBodyFetchAttribute fuel) := by unfold handleBodyFetchAttribute; infer_instance
instance : Mono (handleRFC822FetchAttribute fuel) := by unfold handleRFC822FetchAttribute; infer_instance
instance : Mono (handleFetchAttribute name fuel) := by unfold handleFetchAttribute; infer_instance
instance : Mono (parseFetchAttribute fuel) := by unfold parseFetchAttribute; infer_instance
instance : Mono (parseFetchAttributes fuel) := by unfold parseFetchAttributes; infer_instance
instance : Mono (parseFetch fuel) := by unfold parseFetch; infer_instance
instance : Mono (consumeIf b t) := by unfold consumeIf; infer_instance
instance : Mono appendDateTime := by unfold appendDateTime; infer_instance
instance : Mono (parseAppend fuel) := by unfold parseAppend; infer_instance
instance (p : P α) [Mono p] : Mono (spThen p) := by unfold spThen; infer_instance
instance (recKey : P SearchKey) [Mono recKey] : Mono (handleSearchKey recKey k fuel) := by unfold handleSearchKey; infer_instance
instance (recKey : P SearchKey) [Mono recKey] : Mono (parseSearchKeyList recKey fuel) := by unfold parseSearchKeyList; infer_instance
theorem mono_parseSearchKey (d fuel : Nat) : Mono (parseSearchKey d fuel) := by
  induction d with
  | zero => unfold parseSearchKey; infer_instance
  | succ d ih => unfold parseSearchKey; infer_instance
instance : Mono (parseSearchKey d fuel) := mono_parseSearchKey d fuel
instance : Mono (searchFirst fuel) := by unfold searchFirst; infer_instance
instance : Mono (parseSearch fuel) := by
  unfold parseSearch
  have : ∀ x : BStr × List SearchKey, Mono (match x with
      | (charset, first) => do
        let more ← sepLoop .sp (parseSearchKey searchBudget fuel) fuel
        let keys := first ++ more
        if keys.isEmpty then makeError
        else pure (Cmd.search charset keys) : P Cmd) := by
    intro x; obtain ⟨a, b⟩ := x; infer_instance
  infer_instance
instance : Mono (dispatchUID c fuel) := by unfold dispatchUID; infer_instance
instance : Mono (parseUID fuel) := by unfold parseUID; infer_instance
instance : Mono (parseNString fuel) := by
  unfold parseNString
  have : ∀ o : Option Bytes, Mono (match o with
      | some s => (pure (some s) : P (Option BStr))
      | none => do
        consumeBytesFold (kw "NIL")
        pure none) := by
    intro o; cases o <;> infer_instance
  infer_instance
theorem mono_idLoop (fuel n : Nat) : ∀ m, Mono (idLoop fuel n m) := by
  induction n with
  | zero => intro m; exact inferInstanceAs (Mono outOfFuel)
  | succ n ih =>
    intro m
    unfold idLoop
    have : ∀ o : Option Bytes, Mono (match o with
        | none => (pure m : P (List (BStr × BStr)))
        | some key => do
          consume .sp
          let v ← parseNString fuel
          let atEnd ← check .rparen
          consumeIf (!atEnd) .sp
          idLoop fuel n (mapInsert m key (v.getD []))) := by
      intro o; cases o <;> infer_instance
    infer_instance
instance : Mono (idLoop fuel n m) := mono_idLoop fuel n m
instance : Mono (parseID fuel) := by unfold parseID; infer_instance
instance : Mono (parseTag fuel) := by unfold parseTag; infer_instance
instance : Mono (dispatchCommand c fuel) := by unfold dispatchCommand; infer_instance
instance : Mono (parseCommand fuel) := by unfold parseCommand; infer_instance
instance : Mono (parseLine fuel) := by unfold parseLine; infer_instance


end Gluon.Parse
