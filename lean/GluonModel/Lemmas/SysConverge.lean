/- Quiescence on the system model: every session applies its whole queue and answers a NOOP. -/
import GluonModel.Lemmas.SysDecide
import GluonModel.Theorems.C02

namespace Gluon.Sys
open Gluon

/-- session `i` applies (at most) `k` queued updates, then answers a NOOP -/
def settle (k : Nat) (s : Sys) (i : Nat) : Sys := (step (step s (.drain i k)).1 (.flush i true)).1

/-- … every session in turn -/
def settleAll (k : Nat) (s : Sys) : Sys := (List.range s.sess.length).foldl (settle k) s

/-- a session whose snapshot shows the authoritative mailbox and that has nothing pending -/
def Settled (idx : Index) (me : Sess) : Prop :=
  ∀ mb, me.sel = some mb → SameView me.snap (idx.view mb) ∧ me.res = [] ∧ me.inbox = []

theorem init_inv (n k : Nat) : SysInv (Sys.init n k) := by
  have hbox : ∀ mb, (Sys.init n k).idx.box mb = {} := by
    intro mb
    simp only [Sys.init, Index.box]
    cases h : (List.replicate k ({} : Box))[mb]? with
    | none => rfl
    | some b =>
      have := List.mem_of_getElem? h
      simp only [List.mem_replicate] at this
      simp [this.2]
  refine ⟨⟨?_, ?_, ?_⟩, ?_⟩
  · intro mb
    simp only [Index.mbox, Index.view, hbox]
    exact mbox_default_wf
  · intro mb r hr
    rw [hbox] at hr
    cases hr
  · intro id
    simp [Sys.init, Index.msgFlags]
  · intro i me hi
    simp only [Sys.init] at hi
    have := List.mem_of_getElem? hi
    simp only [List.mem_replicate] at this
    simp [SessInv, this.2]

theorem exec_nil (s : Sys) : exec s [] = s := rfl

theorem exec_cons (s : Sys) (op : SysOp) (ops : List SysOp) : exec s (op :: ops) = exec (step s op).1 ops := rfl

theorem exec_inv {s : Sys} (h : SysInv s) (ops : List SysOp) (hv : ∀ op ∈ ops, op.Valid) (hno : NoOvertake s ops) :
    SysInv (exec s ops) := by
  induction ops generalizing s with
  | nil => exact h
  | cons op ops ih =>
    rw [exec_cons]
    exact ih (step_inv h op (hv op List.mem_cons_self) hno.1) (fun o ho => hv o (List.mem_cons_of_mem _ ho)) hno.2

theorem drain_flush_valid (i k : Nat) (p : Bool) : (SysOp.drain i k).Valid ∧ (SysOp.flush i p).Valid := ⟨trivial, trivial⟩

/-- what `settle` does to session `i` -/
def settled1 (k : Nat) (i : Nat) (me : Sess) : Sess :=
  match (me.drain (sidOf i) k).sel with
  | none => me.drain (sidOf i) k
  | some _ => ((me.drain (sidOf i) k).flush (sidOf i) true).1

theorem settle_eq {k : Nat} {s : Sys} {i : Nat} {me : Sess} (hi : s.sess[i]? = some me) :
    settle k s i = { idx := s.idx, sess := s.sess.set i (settled1 k i me) } := by
  unfold settle settled1
  simp only [step, hi]
  have hset : (s.setSess i (me.drain (sidOf i) k)).sess[i]? = some (me.drain (sidOf i) k) :=
    getElem?_set_self' hi
  simp only [hset]
  cases hs : (me.drain (sidOf i) k).sel with
  | none => simp [Sys.setSess]
  | some mb => simp [Sys.setSess]

theorem settle_none {k : Nat} {s : Sys} {i : Nat} (hi : s.sess[i]? = none) : settle k s i = s := by
  unfold settle
  simp [step, hi]

theorem settle_spec {k : Nat} {s : Sys} (h : SysInv s) (i : Nat)
    (hk : ∀ me : Sess, s.sess[i]? = some me → me.inbox.length ≤ k) :
    (settle k s i).idx = s.idx ∧ SysInv (settle k s i) ∧ (settle k s i).sess.length = s.sess.length ∧
    (∀ j, j ≠ i → (settle k s i).sess[j]? = s.sess[j]?) ∧
    (∀ me' : Sess, (settle k s i).sess[i]? = some me' → me'.inbox = [] ∧ Settled s.idx me') := by
  have hinv1 : SysInv (step s (.drain i k)).1 := step_inv h _ trivial trivial
  have hinv2 : SysInv (settle k s i) := step_inv hinv1 _ trivial trivial
  cases hi : s.sess[i]? with
  | none =>
    rw [settle_none hi]
    exact ⟨rfl, h, rfl, fun _ _ => rfl, fun me' hme' => by rw [hi] at hme'; cases hme'⟩
  | some me =>
    rw [settle_eq hi] at hinv2 ⊢
    refine ⟨rfl, hinv2, by simp, fun j hj => by simp [List.getElem?_set, Ne.symm hj], ?_⟩
    intro me' hme'
    rw [getElem?_set_self' hi] at hme'
    simp only [Option.some.injEq] at hme'
    subst hme'
    have hinb : (me.drain (sidOf i) k).inbox = [] := by
      simp only [Sess.drain, applyAll_inbox]
      exact List.drop_eq_nil_of_le (hk me hi)
    unfold settled1
    cases hs : (me.drain (sidOf i) k).sel with
    | none =>
      simp only
      exact ⟨hinb, fun mb hmb => by rw [hs] at hmb; cases hmb⟩
    | some mb =>
      simp only
      refine ⟨by simpa [Sess.flush] using hinb, ?_⟩
      intro mb' hmb'
      simp only [Sess.flush] at hmb' ⊢
      rw [hs] at hmb'
      simp only [Option.some.injEq] at hmb'
      subst hmb'
      have hset : (step s (.drain i k)).1.sess[i]? = some (me.drain (sidOf i) k) := by
        simp only [step, hi]
        exact getElem?_set_self' hi
      have hsi := hinv1.sess i _ hset
      unfold SessInv at hsi
      rw [hs] at hsi
      obtain ⟨_, hh, _⟩ := hsi
      unfold Sess.virt at hh
      rw [hinb] at hh
      simp only [pendOf, pendC_nil, List.append_nil] at hh
      have hidx : (step s (.drain i k)).1.idx = s.idx := by simp only [step, hi]; rfl
      rw [hidx] at hh
      obtain ⟨h1, h2, _⟩ := C02.flush_true_converges hh.conv
      exact ⟨h1, h2, hinb⟩

theorem settleList_spec {k : Nat} (L : List Nat) (hnd : L.Nodup) {s : Sys} (h : SysInv s)
    (hk : ∀ (i : Nat) (me : Sess), s.sess[i]? = some me → me.inbox.length ≤ k) :
    (L.foldl (settle k) s).idx = s.idx ∧ SysInv (L.foldl (settle k) s) ∧
    (L.foldl (settle k) s).sess.length = s.sess.length ∧
    (∀ j, j ∉ L → (L.foldl (settle k) s).sess[j]? = s.sess[j]?) ∧
    (∀ i ∈ L, ∀ me', (L.foldl (settle k) s).sess[i]? = some me' → Settled s.idx me') := by
  induction L generalizing s with
  | nil => exact ⟨rfl, h, rfl, fun _ _ => rfl, fun i hi => by cases hi⟩
  | cons a t ih =>
    simp only [List.nodup_cons] at hnd
    simp only [List.foldl_cons]
    obtain ⟨e1, hinv1, hl1, ho1, hs1⟩ := settle_spec h a (hk a)
    have hk1 : ∀ (i : Nat) (me : Sess), (settle k s a).sess[i]? = some me → me.inbox.length ≤ k := by
      intro i me hme
      by_cases hia : i = a
      · subst hia
        rw [(hs1 me hme).1]; exact Nat.zero_le _
      · rw [ho1 i hia] at hme; exact hk i me hme
    obtain ⟨e2, hinv2, hl2, ho2, hs2⟩ := ih hnd.2 hinv1 hk1
    refine ⟨e2.trans e1, hinv2, hl2.trans hl1, ?_, ?_⟩
    · intro j hj
      have hj' : j ≠ a ∧ j ∉ t := by simpa using hj
      rw [ho2 j hj'.2, ho1 j hj'.1]
    · intro i hi me' hme'
      rcases List.mem_cons.mp hi with rfl | hit
      · rw [ho2 i hnd.1] at hme'
        exact (hs1 me' hme').2
      · have := hs2 i hit me' hme'
        rwa [e1] at this

/-- **quiescence**: after every session has applied its queue and answered a NOOP, every session's snapshot shows the
    authoritative mailbox and nothing is pending -/
theorem settleAll_spec {k : Nat} {s : Sys} (h : SysInv s) (hk : ∀ (i : Nat) (me : Sess), s.sess[i]? = some me → me.inbox.length ≤ k) :
    (settleAll k s).idx = s.idx ∧ SysInv (settleAll k s) ∧
    ∀ (i : Nat) (me' : Sess), (settleAll k s).sess[i]? = some me' → Settled s.idx me' := by
  obtain ⟨e, hinv, hl, _, hs⟩ := settleList_spec (k := k) (List.range s.sess.length) List.nodup_range h hk
  refine ⟨e, hinv, ?_⟩
  intro i me' hme'
  apply hs i _ me' hme'
  have : i < (settleAll k s).sess.length := by
    rcases Nat.lt_or_ge i (settleAll k s).sess.length with h' | h'
    · exact h'
    · rw [List.getElem?_eq_none h'] at hme'; cases hme'
  simp only [settleAll] at this
  rw [hl] at this
  simpa using this

end Gluon.Sys
