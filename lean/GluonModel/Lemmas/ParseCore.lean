/-
Round-trip infrastructure for the parser model.

`load c bytes` is the parser state whose look-ahead token is the first byte of `bytes` (or EOF) and
whose scanner still holds the other bytes; `c` carries the parts of the state the round-trip lemmas do
not care about (previous token, scanner byte, continuation counter).

`RT p w v ok` ("p reads w as v"): from every state loaded with `w ++ rest`, where `rest` satisfies the
follow condition `ok`, the parser `p` succeeds with value `v` and leaves a state loaded with `rest`.
`RT.bind` composes such facts along the `do` blocks of the model.
-/
import GluonModel.Model.Parse.Grammar

namespace Gluon.Parse

structure Ctx where
  pv : Tok
  cb : UInt8
  n : Nat

def load (c : Ctx) : Bytes → PState
  | [] => { rest := [], prev := c.pv, cur := Tok.eof, curByte := c.cb, conts := c.n }
  | b :: bs => { rest := bs, prev := c.pv, cur := Tok.ofByte b, curByte := b, conts := c.n }

/-- token type of the first byte, `eof` for the empty input -/
def headTy : Bytes → TokTy
  | [] => .eof
  | b :: _ => tokTy b

/-- value of the look-ahead token -/
def headVal : Bytes → UInt8
  | [] => 0
  | b :: _ => b

@[simp] theorem headTy_nil : headTy [] = .eof := rfl
@[simp] theorem headTy_cons (b : UInt8) (bs : Bytes) : headTy (b :: bs) = tokTy b := rfl
@[simp] theorem headTy_cons_append (b : UInt8) (bs rest : Bytes) : headTy (b :: bs ++ rest) = tokTy b := rfl

@[simp] theorem load_cur_ty (c : Ctx) (bs : Bytes) : (load c bs).cur.ty = headTy bs := by
  cases bs <;> rfl
@[simp] theorem load_cur_val (c : Ctx) (bs : Bytes) : (load c bs).cur.val = headVal bs := by
  cases bs <;> rfl
@[simp] theorem load_prev (c : Ctx) (bs : Bytes) : (load c bs).prev = c.pv := by
  cases bs <;> rfl

/-! ### the monad -/

theorem bind_def (x : P α) (f : α → P β) (s : PState) :
    (x >>= f) s = match x s with
      | .ok a s' => f a s'
      | .err e s' => .err e s'
      | .fuel => .fuel := rfl

theorem bind_ok {x : P α} {f : α → P β} {s s' : PState} {a : α} (h : x s = .ok a s') :
    (x >>= f) s = f a s' := by
  simp [bind_def, h]

@[simp] theorem pure_run (a : α) (s : PState) : (pure a : P α) s = .ok a s := rfl

/-- `advance` on a loaded state consumes the look-ahead byte -/
theorem advance_load (c : Ctx) (b : UInt8) (bs : Bytes) :
    advance (load c (b :: bs)) = .ok () (load ⟨Tok.ofByte b, b, c.n⟩ bs) := by
  cases bs <;> rfl

/-! ### readers that do not move -/

@[simp] theorem bind_check (t : TokTy) (k : Bool → P β) (s : PState) :
    (check t >>= k) s = k (s.cur.ty == t) s := rfl
@[simp] theorem bind_checkWith (f : TokTy → Bool) (k : Bool → P β) (s : PState) :
    (checkWith f >>= k) s = k (f s.cur.ty) s := rfl
@[simp] theorem bind_prevVal (k : UInt8 → P β) (s : PState) :
    (prevVal >>= k) s = k s.prev.val s := rfl
@[simp] theorem bind_curVal (k : UInt8 → P β) (s : PState) :
    (curVal >>= k) s = k s.cur.val s := rfl
@[simp] theorem bind_pure (a : α) (k : α → P β) (s : PState) :
    ((pure a : P α) >>= k) s = k a s := rfl

/-! ### RT -/

def RT (p : P α) (w : Bytes) (v : α) (ok : Bytes → Prop) : Prop :=
  ∀ c rest, ok rest → ∃ c', p (load c (w ++ rest)) = .ok v (load c' rest)

/-- no follow condition -/
def anyRest : Bytes → Prop := fun _ => True
/-- the next token is not in class `f` -/
def nextNot (f : TokTy → Bool) : Bytes → Prop := fun rest => f (headTy rest) = false
/-- the next token is `t` -/
def nextIs (t : TokTy) : Bytes → Prop := fun rest => headTy rest = t

theorem RT.weaken {p : P α} {w : Bytes} {v : α} {ok ok' : Bytes → Prop}
    (h : RT p w v ok) (hi : ∀ r, ok' r → ok r) : RT p w v ok' :=
  fun c rest hr => h c rest (hi rest hr)

theorem RT.ret (v : α) (ok : Bytes → Prop) : RT (pure v) [] v ok :=
  fun c _ _ => ⟨c, rfl⟩

theorem RT.bind {p : P α} {k : α → P β} {w1 w2 : Bytes} {v1 : α} {v2 : β}
    {ok1 ok2 : Bytes → Prop}
    (h1 : RT p w1 v1 ok1) (h2 : RT (k v1) w2 v2 ok2) (hf : ∀ rest, ok2 rest → ok1 (w2 ++ rest)) :
    RT (p >>= k) (w1 ++ w2) v2 ok2 := by
  intro c rest hr
  obtain ⟨c1, e1⟩ := h1 c (w2 ++ rest) (hf rest hr)
  obtain ⟨c2, e2⟩ := h2 c1 rest hr
  refine ⟨c2, ?_⟩
  rw [List.append_assoc, bind_ok e1, e2]

/-- `RT.bind` when the first parser has no follow condition -/
theorem RT.bind' {p : P α} {k : α → P β} {w1 w2 : Bytes} {v1 : α} {v2 : β} {ok2 : Bytes → Prop}
    (h1 : RT p w1 v1 anyRest) (h2 : RT (k v1) w2 v2 ok2) :
    RT (p >>= k) (w1 ++ w2) v2 ok2 :=
  RT.bind h1 h2 (fun _ _ => trivial)

theorem RT.congr_w {p : P α} {w w' : Bytes} {v : α} {ok : Bytes → Prop}
    (h : RT p w v ok) (e : w' = w) : RT p w' v ok := e ▸ h

/-- functional version: map the result -/
theorem RT.map {p : P α} {w : Bytes} {v : α} {ok : Bytes → Prop} (f : α → β) (h : RT p w v ok) :
    RT (p >>= fun a => pure (f a)) w (f v) ok := by
  have := RT.bind (k := fun a => Pure.pure (f a)) (ok1 := ok) (ok2 := ok) h (RT.ret (f v) ok)
    (fun rest hr => by simpa using hr)
  simpa using this

/-! ### consuming one token -/

theorem rt_consumeWith {f : TokTy → Bool} {b : UInt8} (h : f (tokTy b) = true) (ok : Bytes → Prop) :
    RT (consumeWith f) [b] () ok := by
  intro c rest _
  refine ⟨⟨Tok.ofByte b, b, c.n⟩, ?_⟩
  show consumeWith f (load c (b :: rest)) = _
  unfold consumeWith
  simp [h, advance_load]

theorem rt_consume {t : TokTy} {b : UInt8} (h : tokTy b = t) (ok : Bytes → Prop) :
    RT (consume t) [b] () ok :=
  rt_consumeWith (by simp [h]) ok

theorem rt_matchesWith_yes {f : TokTy → Bool} {b : UInt8} (h : f (tokTy b) = true)
    (ok : Bytes → Prop) : RT (matchesWith f) [b] true ok := by
  intro c rest _
  refine ⟨⟨Tok.ofByte b, b, c.n⟩, ?_⟩
  show matchesWith f (load c (b :: rest)) = _
  unfold matchesWith
  simp [h, bind_ok (advance_load c b rest)]

theorem rt_matchesWith_no (f : TokTy → Bool) : RT (matchesWith f) [] false (nextNot f) := by
  intro c rest hr
  refine ⟨c, ?_⟩
  show matchesWith f (load c rest) = _
  unfold matchesWith
  have : f (headTy rest) = false := hr
  simp [this]

theorem rt_matchesTy_yes {t : TokTy} {b : UInt8} (h : tokTy b = t) (ok : Bytes → Prop) :
    RT (matchesTy t) [b] true ok :=
  rt_matchesWith_yes (by simp [h]) ok

theorem rt_matchesTy_no (t : TokTy) : RT (matchesTy t) [] false (fun rest => headTy rest ≠ t) := by
  have := rt_matchesWith_no (· == t)
  exact this.weaken (fun r hr => by simpa [nextNot] using hr)

end Gluon.Parse
