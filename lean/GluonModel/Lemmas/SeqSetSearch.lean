/-
C16 helper lemmas, part 8: SEARCH with a message-set key (`searchSeqSet`, `searchUIDSet`).
-/
import GluonModel.Lemmas.SeqSetRfc

namespace Gluon
namespace SeqSet
open SeqSetSpec

theorem searchSeqSet_eq (s : Snap) (set : List SeqRange) :
    searchSeqSet s set = .ok ((allWithSeq s).filter fun m => (set.map (seqIv s)).any fun iv => iv.contains m.seq) := by
  unfold searchSeqSet resolveSeqInterval
  rw [resolveAll_ok (resolveSeq s) (seqIv s) set (fun r _ => resolveOne_seq s r)]
  rfl

theorem searchUIDSet_eq (s : Snap) (hne : s.length ≠ 0) (set : List SeqRange) :
    searchUIDSet s set = .ok ((allWithSeq s).filter fun m => (set.map (ivOf (ru s))).any fun iv => iv.contains m.msg.uid) := by
  unfold searchUIDSet resolveUIDInterval
  rw [resolveAll_ok (resolveUID s) (ivOf (ru s)) set (fun r _ => resolveOne_eq _ _ (resolveUID_eq s hne) r)]
  rfl

theorem contains_iff (iv : Interval) (x : Nat) : iv.contains x = true ↔ iv.b ≤ x ∧ x ≤ iv.e := by
  simp [Interval.contains]

/-- every message of the snapshot is in the list the SEARCH loop walks over, under its number -/
theorem number_complete (l : List SMsg) (first i : Nat) (x : SMsg) (h : l[i]? = some x)
    (hb : first + l.length ≤ 4294967296) : (⟨first + i, x⟩ : SeqMsg) ∈ number (first : Int) l := by
  induction l generalizing first i with
  | nil => simp at h
  | cons m rest ih =>
    simp only [List.length_cons] at hb
    have h1 : toU32 (first : Int) = first := toU32_nat (by omega)
    simp only [number, List.mem_cons, h1]
    cases i with
    | zero =>
      simp only [List.getElem?_cons_zero, Option.some.injEq] at h
      left; simp [h]
    | succ i =>
      right
      simp only [List.getElem?_cons_succ] at h
      have e : ((first : Int) + 1) = ((first + 1 : Nat) : Int) := by omega
      rw [e]
      have := ih (first + 1) i h (by omega)
      have e2 : first + 1 + i = first + (i + 1) := by omega
      rw [e2] at this
      exact this

theorem allWithSeq_sound (s : Snap) (hl : s.length < 4294967296) : ∀ m ∈ allWithSeq s, SoundAt s m := by
  have := number_sound s 0 s.length (by omega) hl
  simpa [allWithSeq, SoundAt] using this

theorem allWithSeq_complete (s : Snap) (hl : s.length < 4294967296) (k : Nat) (x : SMsg) (h1 : 1 ≤ k)
    (hx : s[k - 1]? = some x) : (⟨k, x⟩ : SeqMsg) ∈ allWithSeq s := by
  have := number_complete s 1 (k - 1) x hx (by omega)
  have e : 1 + (k - 1) = k := by omega
  rw [e] at this
  exact this

theorem allWithSeq_obs (s : Snap) (hl : s.length < 4294967296) (m : SeqMsg) (h : m ∈ allWithSeq s) :
    obs m ∈ entries s.uids := by
  have := number_obs s 1 (by omega)
  unfold entries Snap.uids
  rw [← this]
  exact List.mem_map_of_mem h

/-! ### `SEARCH <sequence set>` on a set that is valid for the view -/

theorem mem_selectSeq_bounds (v : View) (S : SSet) (sel : List Sel) (h : selectSeq v S = some sel) (k u : Nat)
    (hm : (k, u) ∈ sel) : 1 ≤ k ∧ v[k - 1]? = some u := by
  induction S generalizing sel with
  | nil => simp only [selectSeq, Option.some.injEq] at h; subst h; simp at hm
  | cons it rest ih =>
    simp only [selectSeq] at h
    cases h1 : selectSeqItem v it with
    | none => simp [h1] at h
    | some l1 =>
      cases h2 : selectSeq v rest with
      | none => simp [h1, h2] at h
      | some l2 =>
        simp only [h1, h2, Option.some.injEq] at h
        subst h
        simp only [List.mem_append] at hm
        rcases hm with hm | hm
        · cases it with
          | one a =>
            simp only [selectSeqItem] at h1
            cases ha : seqVal v a with
            | none => simp [ha] at h1
            | some x =>
              simp only [ha, Option.some.injEq] at h1; subst h1
              exact ((mem_seqBetween v x x k u).mp hm).2
          | range a b =>
            simp only [selectSeqItem] at h1
            cases ha : seqVal v a with
            | none => simp [ha] at h1
            | some x =>
              cases hb : seqVal v b with
              | none => simp [ha, hb] at h1
              | some y =>
                simp only [ha, hb, Option.some.injEq] at h1; subst h1
                exact ((mem_seqBetween v _ _ k u).mp hm).2
        · exact ih l2 h2 hm

/-- on a valid set, "some resolved interval contains `k`" is "the RFC selection contains `k`" -/
theorem valid_cover (s : Snap) (hl : s.length < 4294967296) (set : List SeqRange) (hr : InParserRange set)
    (sel : List Sel) (h : selectSeq s.uids (absSet set) = some sel) (k : Nat) :
    ((set.map (seqIv s)).any fun iv => iv.contains k) = true ↔ ∃ u, (k, u) ∈ sel := by
  induction set generalizing sel with
  | nil =>
    simp only [absSet, List.map_nil, selectSeq, Option.some.injEq] at h
    subst h; simp
  | cons r rest ih =>
    have hr1 := hr r (by simp)
    simp only [absSet, List.map_cons, selectSeq] at h
    cases h1 : selectSeqItem s.uids (absRange r) with
    | none => simp [h1] at h
    | some l1 =>
      cases h2 : selectSeq s.uids (List.map absRange rest) with
      | none => simp [h1, h2] at h
      | some l2 =>
        simp only [h1, h2, Option.some.injEq] at h
        subst h
        have ih := ih (fun r' h' => hr r' (by simp [h'])) l2 h2
        have hshape := seqIv_shape s r hl ⟨hr1.1.1, hr1.2.1⟩ ⟨hr1.1.2, hr1.2.2⟩
        rw [h1] at hshape
        cases hshape with
        | beyond n hn hlt ho => cases ho
        | emptyStar x hx hz ho => cases ho
        | valid lo hi hiv b1 b2 b3 ho =>
          simp only [Option.some.injEq] at ho
          subst ho
          have hex := exists_mem_seqBetween s.uids lo hi k b1 (by rw [uids_length]; exact b3)
          simp only [List.map_cons, List.any_cons, Bool.or_eq_true, List.mem_append, exists_or]
          rw [ih, hex, hiv, contains_iff]

/-! ### `SEARCH UID <sequence set>` -/

theorem mem_uidBetween (v : View) (lo hi k u : Nat) :
    (k, u) ∈ uidBetween v lo hi ↔ (lo ≤ u ∧ u ≤ hi) ∧ (k, u) ∈ entries v := by
  simp only [uidBetween, List.mem_filter, Bool.and_eq_true, decide_eq_true_eq]
  exact ⟨fun ⟨a, b⟩ => ⟨b, a⟩, fun ⟨a, b⟩ => ⟨b, a⟩⟩

/-- the judged part of one item, as the interval the resolver built -/
theorem uidItem_interval (s : Snap) (hasc : Asc s) (hl : s.length < 4294967296) (r : SeqRange)
    (hp : 0 ≤ r.b ∧ 0 ≤ r.e) (h32 : r.b < 4294967296 ∧ r.e < 4294967296) :
    (if excludedUIDItem s.uids (absRange r) then [] else selectUIDItem s.uids (absRange r))
      = uidBetween s.uids (ivOf (ru s) r).b (ivOf (ru s) r).e := by
  obtain ⟨ms, h1, h2⟩ := uidItem_spec s hasc hl r hp h32
  obtain ⟨ms', h1', h2'⟩ := uidOne_spec s hasc hl (ivOf (ru s) r).b (ivOf (ru s) r).e (ivOf_le _ r)
  have e : (⟨(ivOf (ru s) r).b, (ivOf (ru s) r).e⟩ : Interval) = ivOf (ru s) r := rfl
  rw [e, h1] at h1'
  cases h1'
  rw [← h2, h2']

theorem uid_cover (s : Snap) (hasc : Asc s) (hl : s.length < 4294967296) (set : List SeqRange) (hr : InParserRange set)
    (m : SeqMsg) (hm : m ∈ allWithSeq s) :
    ((set.map (ivOf (ru s))).any fun iv => iv.contains m.msg.uid) = true ↔
      obs m ∈ ((absSet set).filter (fun it => !excludedUIDItem s.uids it)).flatMap (selectUIDItem s.uids) := by
  rw [← flatMap_filter_not]
  have hent := allWithSeq_obs s hl m hm
  induction set with
  | nil => simp [absSet]
  | cons r rest ih =>
    have hr1 := hr r (by simp)
    have ih := ih (fun r' h' => hr r' (by simp [h']))
    have hitem := uidItem_interval s hasc hl r ⟨hr1.1.1, hr1.2.1⟩ ⟨hr1.1.2, hr1.2.2⟩
    have h_item : (ivOf (ru s) r).contains m.msg.uid = true ↔
        obs m ∈ (if excludedUIDItem s.uids (absRange r) then [] else selectUIDItem s.uids (absRange r)) := by
      rw [hitem, contains_iff]
      have := mem_uidBetween s.uids (ivOf (ru s) r).b (ivOf (ru s) r).e m.seq m.msg.uid
      simp only [obs] at hent ⊢
      rw [this]
      exact ⟨fun h => ⟨h, hent⟩, fun h => h.1⟩
    simp only [absSet, List.map_cons, List.any_cons, Bool.or_eq_true, List.flatMap_cons, List.mem_append] at ih ⊢
    exact or_congr h_item ih

end SeqSet
end Gluon
