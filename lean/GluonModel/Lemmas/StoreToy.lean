/- The toy primitives of `Spec/StoreToy.lean` satisfy every hypothesis structure of M-STORE. -/
import GluonModel.Spec.StoreToy
import GluonModel.Lemmas.Store

set_option linter.unusedSimpArgs false

namespace Gluon.Store.Toy

theorem fit_length (ns : Nat) (n : Bytes) : (fit ns n).length = ns := by
  simp [fit, List.length_take, List.length_append, List.length_replicate]

theorem fit_of_length {ns : Nat} {n : Bytes} (h : n.length = ns) : fit ns n = n := by
  subst h; simp [fit]

theorem tag_length (ns k : Nat) (n x : Bytes) : (tag ns k n x).length = ns + 4 := by
  simp [tag, fit_length]

theorem topen_tseal (ns k : Nat) (n x : Bytes) : topen ns k n (tseal ns k n x) = some x := by
  have hl : (x ++ tag ns k n x).length - (ns + 4) = x.length := by
    simp only [List.length_append, tag_length]; omega
  have h1 : ¬ (x ++ tag ns k n x).length < ns + 4 := by
    simp only [List.length_append, tag_length]; omega
  simp only [topen, tseal, h1, if_false, hl, List.take_left', List.drop_left', if_true]

theorem topen_only_sealed (ns k : Nat) (n c x : Bytes) (h : topen ns k n c = some x) :
    c = tseal ns k n x := by
  unfold topen at h
  split at h
  · exact absurd h (by simp)
  · simp only at h
    split at h
    · next heq =>
      have hx : c.take (c.length - (ns + 4)) = x := by simpa using h
      rw [tseal, ← hx, ← heq, List.take_append_drop]
    · exact absurd h (by simp)

theorem tag_inj {ns k k' : Nat} {n n' x : Bytes} (hn : n.length = ns) (hn' : n'.length = ns)
    (h : tag ns k n x = tag ns k' n' x) : k = k' ∧ n = n' := by
  simp only [tag, fit_of_length hn, fit_of_length hn'] at h
  have h' := List.cons.inj (by simpa only [List.cons_append] using h)
  exact ⟨h'.1, List.append_cancel_right h'.2⟩

theorem topen_other (ns k k' : Nat) (n n' x : Bytes) (hn : n.length = ns) (hn' : n'.length = ns)
    (hne : k ≠ k' ∨ n ≠ n') : topen ns k' n' (tseal ns k n x) = none := by
  have hl : (x ++ tag ns k n x).length - (ns + 4) = x.length := by
    simp only [List.length_append, tag_length]; omega
  have h1 : ¬ (x ++ tag ns k n x).length < ns + 4 := by
    simp only [List.length_append, tag_length]; omega
  simp only [topen, tseal, h1, if_false, hl, List.take_left', List.drop_left']
  split
  · next heq =>
    have := tag_inj hn hn' heq
    rcases hne with h | h
    · exact absurd this.1 h
    · exact absurd this.2 h
  · rfl

/-! ### the frame reader -/

theorem length_le_flatten_enc : ∀ ps : List Bytes, ps.length ≤ ((ps.map encPiece).flatten).length
  | [] => by simp
  | p :: ps => by
    have := length_le_flatten_enc ps
    simp only [List.map, List.flatten_cons, List.length_append, encPiece, List.length_cons]
    omega

/-- complete pieces, the end mark, anything after it: the reader returns the pieces (and never looks further) -/
theorem loop_pieces (t : Term) :
    ∀ (ps : List Bytes), (∀ p ∈ ps, p ≠ []) → ∀ (fuel : Nat) (acc rest : Bytes), ps.length + 1 ≤ fuel →
      loop t fuel ((ps.map encPiece).flatten ++ 0 :: rest) acc = .done (acc ++ ps.flatten)
  | [], _, fuel, acc, rest, hf => by
    cases fuel with
    | zero => omega
    | succ f => simp [loop]
  | p :: ps, hne, fuel, acc, rest, hf => by
    cases fuel with
    | zero => omega
    | succ f =>
      cases p with
      | nil => exact absurd rfl (hne [] List.mem_cons_self)
      | cons a p' =>
        have ih := loop_pieces t ps (fun x hx => hne x (List.mem_cons_of_mem _ hx)) f
          (acc ++ a :: p') rest (by simp only [List.length_cons] at hf; omega)
        have hlen : ¬ (a :: (p' ++ ((ps.map encPiece).flatten ++ 0 :: rest))).length < p'.length + 1 := by
          simp only [List.length_cons, List.length_append]; omega
        have hdrop : (a :: (p' ++ ((ps.map encPiece).flatten ++ 0 :: rest))).drop (p'.length + 1)
            = (ps.map encPiece).flatten ++ 0 :: rest := by simp
        have htake : (a :: (p' ++ ((ps.map encPiece).flatten ++ 0 :: rest))).take (p'.length + 1)
            = a :: p' := by simp
        simp only [List.map, List.flatten_cons, encPiece, List.length_cons, List.cons_append,
          List.append_assoc, loop, List.isEmpty_cons, Bool.false_eq_true, if_false, hlen, hdrop, htake]
        rw [ih]; simp

/-- a strict prefix of the frame body followed by a pipe error is an error -/
theorem loop_strict_prefix :
    ∀ (ps : List Bytes), (∀ p ∈ ps, p ≠ []) → ∀ (fuel : Nat) (q acc : Bytes),
      q <+: (ps.map encPiece).flatten ++ [0] → q ≠ (ps.map encPiece).flatten ++ [0] →
      loop .fail fuel q acc = .bad
  | [], _, fuel, q, acc, hpre, hne => by
    cases fuel with
    | zero => simp [loop]
    | succ f =>
      have hq : q = [] := by
        cases q with
        | nil => rfl
        | cons a q' =>
          exfalso
          simp only [List.map, List.flatten_nil, List.nil_append] at hpre hne
          obtain ⟨s, hs⟩ := hpre
          simp only [List.cons_append, List.cons.injEq, List.append_eq_nil_iff] at hs
          exact hne (by rw [hs.1, hs.2.1])
      subst hq; simp [loop]
  | p :: ps, hnem, fuel, q, acc, hpre, hne => by
    cases fuel with
    | zero => simp [loop]
    | succ f =>
      cases p with
      | nil => exact absurd rfl (hnem [] List.mem_cons_self)
      | cons a p' =>
        cases q with
        | nil => simp [loop]
        | cons h q' =>
          simp only [List.map, List.flatten_cons, encPiece, List.length_cons, List.cons_append,
            List.append_assoc] at hpre hne
          obtain ⟨s, hs⟩ := hpre
          simp only [List.cons_append, List.cons.injEq] at hs
          obtain ⟨hh, hs⟩ := hs
          subst hh
          simp only [loop]
          by_cases he : q'.isEmpty = true
          · simp [he]
          · simp only [he, Bool.false_eq_true, if_false]
            by_cases hl : q'.length < p'.length + 1
            · simp [hl]
            · simp only [hl, if_false]
              -- q' = (a :: p') ++ q''
              have hA : q'.take (p'.length + 1) = a :: p' := by
                have : (q' ++ s).take (p'.length + 1) = (a :: (p' ++ ((ps.map encPiece).flatten ++ [0]))).take (p'.length + 1) := by
                  rw [hs]
                rw [List.take_append_of_le_length (by omega)] at this
                rw [this]; simp
              have hq' : q' = (a :: p') ++ q'.drop (p'.length + 1) := by
                rw [← hA, List.take_append_drop]
              have hrest : q'.drop (p'.length + 1) ++ s = (ps.map encPiece).flatten ++ [0] := by
                rw [hq'] at hs
                simp only [List.cons_append, List.append_assoc, List.cons.injEq, true_and] at hs
                have := List.append_cancel_left hs
                simpa using this
              apply loop_strict_prefix ps (fun x hx => hnem x (List.mem_cons_of_mem _ hx)) f
              · exact ⟨s, hrest⟩
              · intro heq
                apply hne
                rw [hq']
                simp only [List.cons_append, List.append_assoc, List.cons.injEq, true_and]
                rw [heq]

theorem cut_pieces_ne_nil {L : Nat} (hL : 0 < L) (b : Bytes) : ∀ p ∈ cut L b, p ≠ [] :=
  shaped_ne_nil_of_mem hL _ (cut_shaped hL b)

theorem decode_compress (L : Nat) (hL : 0 < L) (b : Bytes) (t : Term) :
    decode (compress L b) t = .done b := by
  simp only [decode, compress, if_true]
  have h := loop_pieces t (cut L b) (cut_pieces_ne_nil hL b)
    ((((cut L b).map encPiece).flatten ++ [0]).length + 1) [] []
    (by have := length_le_flatten_enc (cut L b); simp only [List.length_append, List.length_singleton]; omega)
  rw [h, flatten_cut hL]; simp

theorem decode_strict_prefix (L : Nat) (hL : 0 < L) (b p : Bytes) (hp : p <+: compress L b)
    (hne : p ≠ compress L b) : decode p .fail = .bad := by
  cases p with
  | nil => simp [decode]
  | cons m q =>
    obtain ⟨s, hs⟩ := hp
    simp only [compress, List.cons_append, List.cons.injEq] at hs
    obtain ⟨hm, hs⟩ := hs
    subst hm
    simp only [decode, if_true]
    apply loop_strict_prefix (cut L b) (cut_pieces_ne_nil hL b)
    · exact ⟨s, hs⟩
    · intro heq; apply hne; rw [compress, heq]

/-! ### the instance satisfies the hypothesis structures -/

theorem laws (ns L : Nat) (hL : 0 < L) : Laws (prims ns L) where
  open_seal := topen_tseal ns
  seal_length := by intro k n x; simp only [prims, tseal, List.length_append, tag_length]
  decode_compress := fun b => decode_compress L hL b .eof

theorem aead (ns L : Nat) : AEAD (prims ns L) where
  open_only_sealed := topen_only_sealed ns
  open_other := fun k n k' n' x hn hn' hne => topen_other ns k k' n n' x hn hn' hne

theorem lz4seq (ns L : Nat) (hL : 0 < L) : LZ4Seq (prims ns L) where
  stops_at_end := fun b => decode_compress L hL b .fail
  no_early_end := fun b p hp hne => decode_strict_prefix L hL b p hp hne
  frame_nonempty := by intro b; simp [prims, compress]

theorem emptyIsEOF (ns L : Nat) : EmptyIsEOF (prims ns L) := rfl

end Gluon.Store.Toy
