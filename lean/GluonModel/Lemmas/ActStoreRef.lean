/-
C03 helper lemmas, part 8: STORE refines the reference `refStore` — under the named hypothesis `NoForward`
(the flag list names none of the "forwarded" aliases, which gluon expands).  Since gluon 45f4598 the DELETE of
-FLAGS and of FLAGS-with-nothing-but-`\Deleted` ignores letter case, so no hypothesis about spellings is left.
-/
import GluonModel.Lemmas.ActStore

namespace Gluon.C03
open Gluon.DB Gluon.Act

/-- **Named hypothesis**: the flag list names neither `$Forwarded` nor `Forwarded` (any spelling) -/
def NoForward (flags : List String) : Prop := (FSet.new flags).hasAny forwardKeys = false

/-- FOREIGN KEY of message_flags_v2: every flag row belongs to a message row -/
def FkOk (db : DB) : Prop := ∀ p ∈ db.msgFlags, ∃ r ∈ db.messages, r.id = p.1

variable (E : Env) (hE : E.sites = factSites)

theorem guardRecent_ok (fs : FSet) (s s' : State) (h : guardRecent fs s = .ok ((), s')) : fs.has keyRecent = false ∧ s' = s := by
  unfold guardRecent at h
  by_cases hc : fs.has keyRecent = true
  · simp [hc, fail] at h
  · simp only [hc, Bool.false_eq_true, if_false] at h
    rw [pureA_ok] at h; cases h
    exact ⟨by simpa using hc, rfl⟩

theorem withForwardAliases_id (flags : List String) (h : NoForward flags) : withForwardAliases (FSet.new flags) = FSet.new flags := by
  unfold withForwardAliases
  rw [h]; simp

def condDel (cond : Bool) (ids : List MessageId) (d : Bool) (t : MTable) : MTable := if cond then setDelRows ids d t else t

theorem setDelRows_nil (d : Bool) (t : MTable) : setDelRows [] d t = t := by
  cases t; simp [setDelRows]

include hE in
theorem deletedStep_eff (sel : MailboxId) (ids : List MessageId) (cond d : Bool) (s s' : State)
    (h : deletedStep E sel ids cond d s = .ok ((), s')) : TabEff sel (condDel cond ids d) s s' := by
  unfold deletedStep at h
  cases cond with
  | false =>
    simp only [Bool.false_eq_true, if_false] at h
    rw [pureA_ok] at h; cases h
    exact TabEff.noop _ _ _ (fun t _ => rfl)
  | true =>
    simp only [if_true] at h
    rw [liftTx_ok] at h
    obtain ⟨db', h, rfl⟩ := h
    rw [hE] at h
    by_cases hemp : ids = []
    · subst hemp
      have := setDeleted_nil sel d s.db db' h
      subst this
      exact TabEff.noop _ _ _ (fun t _ => by simp [condDel, setDelRows_nil])
    · obtain ⟨t, ht, hp, ha⟩ := setDeleted_effect sel ids d hemp s.db db' h
      refine ⟨⟨rfl, rfl, rfl, ha⟩, ?_, ?_⟩
      · intro t' ht'; rw [ht] at ht'; cases ht'; exact hp
      · intro hn; rw [ht] at hn; cases hn

/-- the reference's change of the `\Deleted` entries of one mailbox, when `cond` says whether anything changes -/
def condDelRef (cond : Bool) (ids : List MessageId) (d : Bool) (b : MailboxRef.Mailbox) : MailboxRef.Mailbox :=
  { b with entries := b.entries.map fun e => if cond then setDelEntry ids d e else e }

theorem abs_deletedStep (s s' : State) (hInv : Inv s) (sel : MboxRow) (hsel : sel ∈ s.db.mailboxes) (ids : List MessageId) (cond d : Bool)
    (h : TabEff sel.id (condDel cond ids d) s s') :
    Inv s' ∧ abs s' = (abs s).updMailbox sel.name (condDelRef cond ids d) := by
  apply abs_TabEff s s' hInv sel hsel _ _ h
  · intro t ht
    cases cond with
    | false =>
      refine ⟨ht, ?_⟩
      simp [condDel, condDelRef]
    | true =>
      refine ⟨ht.setDel ids d, ?_⟩
      simp only [condDel, if_true, condDelRef]
      exact absTable_setDel t ht ids d
  · intro _; simp [condDelRef]

/-! ### what each STORE variant does to the flag set of one message -/

theorem canon_eq_of_mem (a : List String) (b : MailboxRef.FlagSet) (hb : Sorted b)
    (h : ∀ x, x ∈ a.map MailboxRef.lower ↔ x ∈ b) : MailboxRef.canon a = b :=
  sorted_ext _ _ (sorted_canon a) hb fun x => by rw [mem_canon]; exact h x

include hE in
/-- `+FLAGS`: model state after `applyMessageFlagsAdded` = `refStore … .add` -/
theorem applyFlagsAdded_ref (s s' : State) (hInv : Inv s) (sel : MboxRow) (hsel : sel ∈ s.db.mailboxes) (ids : List MessageId)
    (flags : List String) (hnf : NoForward flags) (ups : List Upd)
    (h : applyFlagsAdded E sel.id ids (FSet.new flags) s = .ok (ups, s')) :
    Inv s' ∧ abs s' = MailboxRef.refStore (abs s) sel.name ids .add flags ∧ (FkOk s.db → FkOk s'.db) ∧
      s'.db.messages = s.db.messages ∧ s'.nextRid = s.nextRid := by
  unfold applyFlagsAdded at h
  rw [bindA_ok] at h
  obtain ⟨_, s0, h0, h⟩ := h
  obtain ⟨hrec, e0⟩ := guardRecent_ok _ _ _ h0
  rw [e0] at h
  rw [bindA_ok] at h
  obtain ⟨cur, s0', hcur, h⟩ := h
  rw [liftRead_ok] at hcur
  obtain ⟨hcur, e0'⟩ := hcur
  rw [e0'] at h
  rw [hE] at hcur
  simp only [withForwardAliases_id flags hnf] at h
  rw [bindA_ok] at h
  obtain ⟨_, s1, hdel, h⟩ := h
  rw [bindA_ok] at h
  obtain ⟨_, s2, hloop, h⟩ := h
  rw [pureA_ok] at h
  cases h
  have e1 := deletedStep_eff E hE _ _ _ _ _ _ hdel
  obtain ⟨hInv1, habs1⟩ := abs_deletedStep s s1 hInv sel hsel ids _ true e1
  obtain ⟨l1, l2, l3⟩ := addFlagsLoop_eff E hE cur _ s1 s' hloop
  -- the flag rows of s1 are those of s0
  have hfl1 : s1.db.msgFlags = s.db.msgFlags ∧ s1.db.messages = s.db.messages := by
    rcases hs : s.db.table? sel.id with _ | t
    · have := congrArg (fun P : Proj => (P.msgFlags, P.messages)) (e1.2.2 hs); simpa [proj] using this
    · have := congrArg (fun P : Proj => (P.msgFlags, P.messages)) (e1.2.1 t hs); simpa [proj, Proj.setTable] using this
  have hkeys := refFlags_keys flags hrec
  have hfl : ∀ r ∈ s1.db.messages, MailboxRef.canon (flagsOf s'.db.msgFlags r.id) =
      if ids.contains r.id then MailboxRef.storeFlags .add flags (MailboxRef.canon (flagsOf s1.db.msgFlags r.id))
      else MailboxRef.canon (flagsOf s1.db.msgFlags r.id) := by
    intro r hr
    have hmem : ∀ g, g ∈ flagsOf s'.db.msgFlags r.id ↔ g ∈ flagsOf s1.db.msgFlags r.id ∨
        (g ∈ (FSet.new flags).remove flagDeleted ∧ r.id ∈ ids ∧ FSet.has (flagsOf s1.db.msgFlags r.id) (lower g) = false) := by
      intro g
      rw [mem_flagsOf, l3, mem_flagsOf, mem_withKey s.db ids cur hcur]
      simp only [hfl1.1]
      constructor
      · rintro (h1 | ⟨h1, _, h2, h3⟩); exact Or.inl h1; exact Or.inr ⟨h1, h2, h3⟩
      · rintro (h1 | ⟨h1, h2, h3⟩)
        · exact Or.inl h1
        · exact Or.inr ⟨h1, ⟨r, by rw [← hfl1.2]; exact hr, rfl⟩, h2, h3⟩
    by_cases hc : r.id ∈ ids
    · simp only [List.contains_iff_mem, hc, if_true, MailboxRef.storeFlags]
      apply canon_eq_of_mem _ _ (sorted_insAll _ _ (sorted_canon _))
      intro x
      rw [mem_insAll, mem_canon, hkeys x]
      simp only [List.mem_map]
      constructor
      · rintro ⟨g, hg, rfl⟩
        rcases (hmem g).mp hg with h1 | ⟨h1, _, _⟩
        · exact Or.inr ⟨g, h1, rfl⟩
        · exact Or.inl ⟨g, h1, rfl⟩
      · rintro (⟨g, hg, rfl⟩ | ⟨g, hg, rfl⟩)
        · by_cases hh : FSet.has (flagsOf s1.db.msgFlags r.id) (lower g) = true
          · rw [FSet.has_iff] at hh
            obtain ⟨g', hg', he⟩ := List.mem_map.mp hh
            exact ⟨g', (hmem g').mpr (Or.inl hg'), he⟩
          · exact ⟨g, (hmem g).mpr (Or.inr ⟨hg, hc, by simpa using hh⟩), rfl⟩
        · exact ⟨g, (hmem g).mpr (Or.inl hg), rfl⟩
    · simp only [List.contains_iff_mem, hc, if_false]
      apply canon_ext
      intro x
      simp only [List.mem_map]
      constructor
      · rintro ⟨g, hg, rfl⟩
        rcases (hmem g).mp hg with h1 | ⟨_, h2, _⟩
        · exact ⟨g, h1, rfl⟩
        · exact absurd h2 hc
      · rintro ⟨g, hg, rfl⟩; exact ⟨g, (hmem g).mpr (Or.inl hg), rfl⟩
  obtain ⟨hInv', habs'⟩ := abs_flags s1 s' l1.1 l1.2.1 l2 ids _ hfl
  refine ⟨hInv' hInv1, ?_, ?_⟩
  · rw [habs', habs1]
    unfold MailboxRef.refStore
    rw [← updMailbox_updMessages]
    apply updMailbox_congr
    intro p _ _
    simp only [condDelRef, MailboxRef.Mailbox.mk.injEq, and_true]
    apply List.map_congr_left
    intro e _
    rw [FSet.has_new]
    simp only [setDelEntry, MailboxRef.storeDeleted, MailboxRef.hasDeleted]
    have hk : keyDeleted = MailboxRef.deletedKey := rfl
    rw [hk]
    by_cases hd : (flags.any fun f => MailboxRef.lower f == MailboxRef.deletedKey) = true
    · have : (flags.any fun f => lower f == MailboxRef.deletedKey) = true := hd
      simp [this, hd]
    · have hd' : (flags.any fun f => MailboxRef.lower f == MailboxRef.deletedKey) = false := by simpa using hd
      have : (flags.any fun f => lower f == MailboxRef.deletedKey) = false := hd'
      simp [this, hd']
  · refine ⟨?_, by rw [l2.2.2.1, hfl1.2], by rw [l1.2.2.1, e1.1.2.2.1]⟩
    · intro hfk p hp
      rw [l2.2.2.1, hfl1.2]
      rw [l3] at hp
      rcases hp with hp | ⟨_, hp⟩
      · rw [hfl1.1] at hp; exact hfk p hp
      · exact ((mem_withKey s.db ids cur hcur _ _ _).mp hp).1

theorem hasDeleted_eq (flags : List String) : (FSet.new flags).has keyDeleted = MailboxRef.hasDeleted flags := by
  rw [FSet.has_new]; rfl

include hE in
/-- `-FLAGS`: model state after `applyMessageFlagsRemoved` = `refStore … .remove`, whatever the spellings -/
theorem applyFlagsRemoved_ref (s s' : State) (hInv : Inv s) (sel : MboxRow) (hsel : sel ∈ s.db.mailboxes) (ids : List MessageId)
    (flags : List String) (hnf : NoForward flags) (ups : List Upd)
    (h : applyFlagsRemoved E sel.id ids (FSet.new flags) s = .ok (ups, s')) :
    Inv s' ∧ abs s' = MailboxRef.refStore (abs s) sel.name ids .remove flags ∧ (FkOk s.db → FkOk s'.db) ∧
      s'.db.messages = s.db.messages ∧ s'.nextRid = s.nextRid := by
  unfold applyFlagsRemoved at h
  rw [bindA_ok] at h
  obtain ⟨_, s0, h0, h⟩ := h
  obtain ⟨hrec, e0⟩ := guardRecent_ok _ _ _ h0
  rw [e0] at h
  rw [bindA_ok] at h
  obtain ⟨cur, s0', hcur, h⟩ := h
  rw [liftRead_ok] at hcur
  obtain ⟨hcur, e0'⟩ := hcur
  rw [e0'] at h
  rw [hE] at hcur
  simp only [withForwardAliases_id flags hnf] at h
  rw [bindA_ok] at h
  obtain ⟨_, s1, hdel, h⟩ := h
  rw [bindA_ok] at h
  obtain ⟨_, s2, hloop, h⟩ := h
  rw [pureA_ok] at h
  cases h
  have e1 := deletedStep_eff E hE _ _ _ _ _ _ hdel
  obtain ⟨hInv1, habs1⟩ := abs_deletedStep s s1 hInv sel hsel ids _ false e1
  obtain ⟨l1, l2, l3⟩ := remFlagsLoop_eff E hE cur _ s1 s' hloop
  have hfl1 : s1.db.msgFlags = s.db.msgFlags ∧ s1.db.messages = s.db.messages := by
    rcases hs : s.db.table? sel.id with _ | t
    · have := congrArg (fun P : Proj => (P.msgFlags, P.messages)) (e1.2.2 hs); simpa [proj] using this
    · have := congrArg (fun P : Proj => (P.msgFlags, P.messages)) (e1.2.1 t hs); simpa [proj, Proj.setTable] using this
  have hkeys := refFlags_keys flags hrec
  have hfl : ∀ r ∈ s1.db.messages, MailboxRef.canon (flagsOf s'.db.msgFlags r.id) =
      if ids.contains r.id then MailboxRef.storeFlags .remove flags (MailboxRef.canon (flagsOf s1.db.msgFlags r.id))
      else MailboxRef.canon (flagsOf s1.db.msgFlags r.id) := by
    intro r hr
    have hmem : ∀ g, g ∈ flagsOf s'.db.msgFlags r.id ↔ g ∈ flagsOf s1.db.msgFlags r.id ∧
        ¬(r.id ∈ ids ∧ lower g ∈ ((FSet.new flags).remove flagDeleted).map lower) := by
      intro g
      rw [mem_flagsOf, l3, mem_flagsOf]
      simp only [hfl1.1]
      constructor
      · rintro ⟨h1, h2⟩
        refine ⟨h1, ?_⟩
        rintro ⟨h3, h4⟩
        obtain ⟨f, hf, hfg⟩ := List.mem_map.mp h4
        apply h2
        refine ⟨f, hf, hfg.symm, ?_⟩
        rw [mem_withKey s.db ids cur hcur]
        refine ⟨⟨r, by rw [← hfl1.2]; exact hr, rfl⟩, h3, ?_⟩
        rw [FSet.has_iff]
        exact List.mem_map.mpr ⟨g, (mem_flagsOf _ _ _).mpr h1, hfg.symm⟩
      · rintro ⟨h1, h2⟩
        refine ⟨h1, ?_⟩
        rintro ⟨f, hf, hfg, hw⟩
        rw [mem_withKey s.db ids cur hcur] at hw
        exact h2 ⟨hw.2.1, List.mem_map.mpr ⟨f, hf, hfg.symm⟩⟩
    by_cases hc : r.id ∈ ids
    · simp only [List.contains_iff_mem, hc, if_true, MailboxRef.storeFlags]
      apply canon_eq_of_mem _ _ (sorted_filter _ _ (sorted_canon _))
      intro x
      simp only [List.mem_filter, mem_canon, Bool.not_eq_true', List.contains_eq_mem, decide_eq_false_iff_not]
      rw [hkeys x]
      simp only [List.mem_map]
      constructor
      · rintro ⟨g, hg, rfl⟩
        obtain ⟨h1, h2⟩ := (hmem g).mp hg
        exact ⟨⟨g, h1, rfl⟩, fun ⟨f, hf, hfg⟩ => h2 ⟨hc, List.mem_map.mpr ⟨f, hf, hfg⟩⟩⟩
      · rintro ⟨⟨g, hg, rfl⟩, h2⟩
        refine ⟨g, (hmem g).mpr ⟨hg, fun ⟨_, h3⟩ => ?_⟩, rfl⟩
        obtain ⟨f, hf, hfg⟩ := List.mem_map.mp h3
        exact h2 ⟨f, hf, hfg⟩
    · simp only [List.contains_iff_mem, hc, if_false]
      apply canon_ext
      intro x
      simp only [List.mem_map]
      constructor
      · rintro ⟨g, hg, rfl⟩; exact ⟨g, ((hmem g).mp hg).1, rfl⟩
      · rintro ⟨g, hg, rfl⟩; exact ⟨g, (hmem g).mpr ⟨hg, fun ⟨h2, _⟩ => hc h2⟩, rfl⟩
  obtain ⟨hInv', habs'⟩ := abs_flags s1 s' l1.1 l1.2.1 l2 ids _ hfl
  refine ⟨hInv' hInv1, ?_, ?_, by rw [l2.2.2.1, hfl1.2], by rw [l1.2.2.1, e1.1.2.2.1]⟩
  · rw [habs', habs1]
    unfold MailboxRef.refStore
    rw [← updMailbox_updMessages]
    apply updMailbox_congr
    intro p _ _
    simp only [condDelRef, MailboxRef.Mailbox.mk.injEq, and_true]
    apply List.map_congr_left
    intro e _
    rw [hasDeleted_eq]
    simp only [setDelEntry, MailboxRef.storeDeleted]
    by_cases hd : MailboxRef.hasDeleted flags = true
    · simp [hd]
    · have hd' : MailboxRef.hasDeleted flags = false := by simpa using hd
      simp [hd']
  · intro hfk p hp
    rw [l2.2.2.1, hfl1.2]
    rw [l3, hfl1.1] at hp
    exact hfk p hp.1

/-! `FLAGS` -/

theorem foldAdd_keys (cur : List (MessageId × RemoteId × List FlagVal)) : ∀ (acc : FSet) (x : String),
    x ∈ (cur.foldl (fun acc r => FSet.add acc r.2.2) acc).map lower ↔ x ∈ acc.map lower ∨ ∃ row ∈ cur, x ∈ row.2.2.map lower := by
  induction cur with
  | nil => intro acc x; simp
  | cons a r ih =>
    intro acc x
    simp only [List.foldl_cons]
    rw [ih, FSet.add_keys]
    simp only [List.mem_cons, exists_eq_or_imp]
    constructor
    · rintro ((h | h) | h); exact Or.inl h; exact Or.inr (Or.inl h); exact Or.inr (Or.inr h)
    · rintro (h | h | h); exact Or.inl (Or.inl h); exact Or.inl (Or.inr h); exact Or.inr h

include hE in
/-- `FLAGS`: model state after `applyMessageFlagsSet` = `refStore … .set`, whatever the spellings -/
theorem applyFlagsSet_ref (s s' : State) (hInv : Inv s) (sel : MboxRow) (hsel : sel ∈ s.db.mailboxes) (ids : List MessageId)
    (flags : List String) (hnf : NoForward flags) (ups : List Upd)
    (h : applyFlagsSet E sel.id ids (FSet.new flags) s = .ok (ups, s')) :
    Inv s' ∧ abs s' = MailboxRef.refStore (abs s) sel.name ids .set flags ∧ (FkOk s.db → FkOk s'.db) ∧
      s'.db.messages = s.db.messages ∧ s'.nextRid = s.nextRid := by
  unfold applyFlagsSet at h
  rw [bindA_ok] at h
  obtain ⟨_, s0, h0, h⟩ := h
  obtain ⟨hrec, e0⟩ := guardRecent_ok _ _ _ h0
  rw [e0] at h
  rw [bindA_ok] at h
  obtain ⟨cur, s0', hcur, h⟩ := h
  rw [liftRead_ok] at hcur
  obtain ⟨hcur, e0'⟩ := hcur
  rw [e0'] at h
  rw [hE] at hcur
  simp only [withForwardAliases_id flags hnf] at h
  rw [bindA_ok] at h
  obtain ⟨_, s1, hdel, h⟩ := h
  rw [bindA_ok] at h
  obtain ⟨_, s2, hloop, h⟩ := h
  rw [pureA_ok] at h
  cases h
  have e1 := deletedStep_eff E hE _ _ _ _ _ _ hdel
  obtain ⟨hInv1, habs1⟩ := abs_deletedStep s s1 hInv sel hsel ids true _ e1
  have hfl1 : s1.db.msgFlags = s.db.msgFlags ∧ s1.db.messages = s.db.messages := by
    rcases hs : s.db.table? sel.id with _ | t
    · have := congrArg (fun P : Proj => (P.msgFlags, P.messages)) (e1.2.2 hs); simpa [proj] using this
    · have := congrArg (fun P : Proj => (P.msgFlags, P.messages)) (e1.2.1 t hs); simpa [proj, Proj.setTable] using this
  have hkeys := refFlags_keys flags hrec
  have hcurc := getMessagesFlags_char s.db ids cur hcur
  have hres : SameRest s1 s' ∧ SameButFlags s1.db s'.db ∧ (FkOk s.db → FkOk s'.db) ∧
      ∀ r ∈ s1.db.messages, MailboxRef.canon (flagsOf s'.db.msgFlags r.id) =
        if ids.contains r.id then MailboxRef.storeFlags .set flags (MailboxRef.canon (flagsOf s1.db.msgFlags r.id))
        else MailboxRef.canon (flagsOf s1.db.msgFlags r.id) := by
    unfold setOrClear at hloop
    by_cases hemp : ((FSet.new flags).remove flagDeleted).isEmpty = true
    · simp only [hemp, Bool.not_true, Bool.false_eq_true, if_false] at hloop
      obtain ⟨l1, l2, l3⟩ := clearLoop_eff E hE ids _ s1 s' hloop
      have hrem : (FSet.new flags).remove flagDeleted = [] := by simpa using hemp
      refine ⟨l1, l2, ?_, ?_⟩
      · intro hfk p hp
        rw [l2.2.2.1, hfl1.2]
        rw [l3, hfl1.1] at hp
        exact hfk p hp.1
      · intro r hr
        by_cases hc : r.id ∈ ids
        · simp only [List.contains_iff_mem, hc, if_true, MailboxRef.storeFlags]
          have hnil : flagsOf s'.db.msgFlags r.id = [] := by
            rw [List.eq_nil_iff_forall_not_mem]
            intro g hg
            rw [mem_flagsOf, l3] at hg
            obtain ⟨hg1, hg2⟩ := hg
            apply hg2
            refine ⟨hc, ?_⟩
            -- the key of every flag of a named message is a key of toClear
            have hrow : (r.id, r.remoteId, flagsOf s.db.msgFlags r.id) ∈ cur :=
              (hcurc _).mpr ⟨r, by rw [← hfl1.2]; exact hr, hc, rfl⟩
            rw [hfl1.1] at hg1
            exact (foldAdd_keys cur [] _).mpr (Or.inr ⟨_, hrow, List.mem_map.mpr ⟨g, (mem_flagsOf _ _ _).mpr hg1, rfl⟩⟩)
          rw [hnil]
          apply canon_ext
          intro x
          rw [hkeys x, hrem]
          simp
        · simp only [List.contains_iff_mem, hc, if_false]
          apply canon_ext
          intro x
          simp only [List.mem_map]
          constructor
          · rintro ⟨g, hg, rfl⟩
            rw [mem_flagsOf, l3] at hg
            exact ⟨g, (mem_flagsOf _ _ _).mpr hg.1, rfl⟩
          · rintro ⟨g, hg, rfl⟩
            exact ⟨g, by rw [mem_flagsOf, l3]; exact ⟨(mem_flagsOf _ _ _).mp hg, fun ⟨h2, _⟩ => hc h2⟩, rfl⟩
    · have hne : (!((FSet.new flags).remove flagDeleted).isEmpty) = true := by simpa using hemp
      simp only [hne, if_true] at hloop
      rw [liftTx_ok] at hloop
      obtain ⟨db', hloop, rfl⟩ := hloop
      rw [hE] at hloop
      have hrem : (FSet.new flags).remove flagDeleted ≠ [] := by
        intro e; rw [e] at hemp; exact hemp rfl
      obtain ⟨l2, l3, l4⟩ := setFlags_effect ids _ hrem s1.db db' hloop
      refine ⟨⟨rfl, rfl, rfl, l2.2.2.2⟩, l2, ?_, ?_⟩
      · intro hfk p hp
        show ∃ r ∈ db'.messages, r.id = p.1
        rw [l2.2.2.1, hfl1.2]
        rw [l3] at hp
        rcases hp with ⟨hp, _⟩ | ⟨hp, _⟩
        · rw [hfl1.1] at hp; exact hfk p hp
        · have := l4 p.1 hp
          unfold DB.hasMessage at this
          rw [List.any_eq_true] at this
          obtain ⟨r, hr, he⟩ := this
          rw [hfl1.2] at hr
          exact ⟨r, hr, by simpa using he⟩
      · intro r hr
        have hmem : ∀ g, g ∈ flagsOf db'.msgFlags r.id ↔
            (g ∈ flagsOf s1.db.msgFlags r.id ∧ ¬(r.id ∈ ids ∧ g ∉ (FSet.new flags).remove flagDeleted)) ∨
            (r.id ∈ ids ∧ g ∈ (FSet.new flags).remove flagDeleted) := by
          intro g; rw [mem_flagsOf, l3, mem_flagsOf]
        by_cases hc : r.id ∈ ids
        · simp only [List.contains_iff_mem, hc, if_true, MailboxRef.storeFlags]
          apply canon_ext
          intro x
          rw [hkeys x]
          simp only [List.mem_map]
          constructor
          · rintro ⟨g, hg, rfl⟩
            rcases (hmem g).mp hg with ⟨_, h2⟩ | ⟨_, h2⟩
            · refine ⟨g, ?_, rfl⟩
              by_cases h3 : g ∈ (FSet.new flags).remove flagDeleted
              · exact h3
              · exact absurd ⟨hc, h3⟩ h2
            · exact ⟨g, h2, rfl⟩
          · rintro ⟨g, hg, rfl⟩; exact ⟨g, (hmem g).mpr (Or.inr ⟨hc, hg⟩), rfl⟩
        · simp only [List.contains_iff_mem, hc, if_false]
          apply canon_ext
          intro x
          simp only [List.mem_map]
          constructor
          · rintro ⟨g, hg, rfl⟩
            rcases (hmem g).mp hg with ⟨h1, _⟩ | ⟨h1, _⟩
            · exact ⟨g, h1, rfl⟩
            · exact absurd h1 hc
          · rintro ⟨g, hg, rfl⟩; exact ⟨g, (hmem g).mpr (Or.inl ⟨hg, fun ⟨h2, _⟩ => hc h2⟩), rfl⟩
  obtain ⟨l1, l2, hF, hfl⟩ := hres
  obtain ⟨hInv', habs'⟩ := abs_flags s1 s' l1.1 l1.2.1 l2 ids _ hfl
  refine ⟨hInv' hInv1, ?_, hF, by rw [l2.2.2.1, hfl1.2], by rw [l1.2.2.1, e1.1.2.2.1]⟩
  rw [habs', habs1]
  unfold MailboxRef.refStore
  rw [← updMailbox_updMessages]
  apply updMailbox_congr
  intro p _ _
  simp only [condDelRef, MailboxRef.Mailbox.mk.injEq, and_true]
  apply List.map_congr_left
  intro e _
  have : (FSet.new flags).contains' flagDeleted = MailboxRef.hasDeleted flags := by
    unfold FSet.contains'; rw [lower_flagDeleted, hasDeleted_eq]
  rw [this]
  simp only [setDelEntry, MailboxRef.storeDeleted, if_true]

end Gluon.C03
