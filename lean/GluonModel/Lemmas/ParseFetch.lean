/-
Round-trip lemmas: FETCH attributes, body sections, partials.
-/
import GluonModel.Lemmas.ParseDate

namespace Gluon.Parse

/-! ### FETCH: header lists, sections -/

/-- fuel and size conditions for a list of strings -/
def StrListOK (l : List BStr) (fuel : Nat) : Prop := ListFuel l fuel ∧ ∀ x ∈ l, StrOK x

theorem nextNot_astring_rparen (r : Bytes) : nextNot isAStringChar (41 :: r) := by rfl

theorem rt_parseHeaderList (c : Choices) (h : BStr) (t : List BStr) (fuel : Nat)
    (hl : StrListOK (h :: t) fuel) :
    RT (parseHeaderList fuel) (printHeaderList c (h :: t)) (h :: t) anyRest := by
  unfold parseHeaderList printHeaderList
  simp only [printSepList, List.append_assoc]
  refine RT.bind (w1 := [40]) (rt_consume rfl anyRest) ?_ (fun _ _ => trivial)
  refine RT.bind (rt_parseAString _ h (hl.2 h (by simp)) fuel (hl.1.2 h (by simp))) ?_ ?_
  · refine RT.bind (rt_sepLoop .sp 32 rfl (parseAString fuel) (fun c s => printAString c.here s)
      (nextNot isAStringChar) (nextIs .rparen) t
      (fun c x hx => rt_parseAString _ x (hl.2 x (by simp [hx])) fuel (hl.1.2 x (by simp [hx])))
      (fun r hr => by rw [hr]; decide) (fun r hr => by unfold nextNot; rw [hr]; rfl)
      (fun r => nextNot_astring_sp r) fuel (by have := hl.1.1; simp at this; omega) _) ?_ (fun r _ => rfl)
    exact RT.map _ (rt_consume (b := 41) (t := .rparen) rfl anyRest)
  · intro r _
    cases t with
    | nil => exact nextNot_astring_rparen _
    | cons x xs => exact nextNot_astring_sp _

/-- a section text the printer can write (header lists non-empty, strings below the cap) -/
def SecTextOK (fuel : Nat) : SecText → Prop
  | .headerFields _ l => l ≠ [] ∧ StrListOK l fuel
  | _ => True

/-- what may follow a section text: `]` -/
theorem nextNot_char_rbracket (r : Bytes) : nextNot isCharTok (93 :: r) := by rfl

theorem rt_parseHeaderFields (c : Choices) (neg : Bool) (l : List BStr) (fuel : Nat) (hne : l ≠ [])
    (hl : StrListOK l fuel) (hf : 10 < fuel) :
    RT (parseHeaderFields fuel)
      (kwCase c.r.l (kw "fields") ++ (if neg then 46 :: (kwCase c.r.r.l (kw "not") ++ (32 :: printHeaderList c.r.r.r l))
        else 32 :: printHeaderList c.r.r l)) (.headerFields neg l) anyRest := by
  cases l with
  | nil => exact absurd rfl hne
  | cons h t =>
    unfold parseHeaderFields
    cases neg
    · simp only [Bool.false_eq_true, if_false]
      refine RT.bind (rt_kw c.r.l (kw "fields") fuel (by decide) (by simp [kw]; omega)) ?_ (fun r _ => nextNot_char_sp _)
      have : ¬ (kw "fields" ≠ kw "fields") := by simp
      simp only [this, if_false]
      have hneg : RT (do
          if (← matchesTy .period) then
            let t ← readKeyword fuel
            if t ≠ kw "not" then makeError else pure true
          else pure false) [] false (nextIs .sp) := by
        have := RT.bind (k := fun b => if b = true then readKeyword fuel >>= fun t =>
            if t ≠ kw "not" then makeError else pure true else pure false)
          (rt_matchesTy_no .period) (by simpa using RT.ret false (nextIs .sp))
          (fun r hr => by simp only [List.nil_append]; rw [hr]; decide)
        simpa using this
      refine RT.bind (w1 := []) hneg ?_ (fun r _ => rfl)
      refine RT.bind (w1 := [32]) (rt_consume rfl anyRest) ?_ (fun _ _ => trivial)
      exact RT.map _ (rt_parseHeaderList c.r.r h t fuel hl)
    · simp only [if_true]
      refine RT.bind (rt_kw c.r.l (kw "fields") fuel (by decide) (by simp [kw]; omega)) ?_
        (fun r _ => by show isCharTok (tokTy 46) = false; rfl)
      have : ¬ (kw "fields" ≠ kw "fields") := by simp
      simp only [this, if_false]
      have hneg : RT (do
          if (← matchesTy .period) then
            let t ← readKeyword fuel
            if t ≠ kw "not" then makeError else pure true
          else pure false) (46 :: kwCase c.r.r.l (kw "not")) true (nextIs .sp) := by
        have h2 : RT (readKeyword fuel >>= fun t => if t ≠ kw "not" then makeError else pure true)
            (kwCase c.r.r.l (kw "not")) true (nextIs .sp) := by
          refine RT.bind_nil (rt_kw c.r.r.l (kw "not") fuel (by decide) (by simp [kw]; omega)) ?_
            (fun r hr => by unfold nextNot; rw [hr]; rfl)
          have : ¬ (kw "not" ≠ kw "not") := by simp
          simp only [this, if_false]
          exact RT.ret _ _
        have := RT.bind (k := fun b => if b = true then readKeyword fuel >>= fun t =>
            if t ≠ kw "not" then makeError else pure true else pure false)
          (rt_matchesTy_yes (b := 46) (t := .period) rfl anyRest) (by simpa using h2) (fun _ _ => trivial)
        simpa using this
      refine RT.bind (w1 := 46 :: kwCase c.r.r.l (kw "not")) hneg ?_ (fun r _ => rfl)
      refine RT.bind (w1 := [32]) (rt_consume rfl anyRest) ?_ (fun _ _ => trivial)
      exact RT.map _ (rt_parseHeaderList c.r.r.r h t fuel hl)


theorem nextNot_char_of_rbracket {r : Bytes} (h : nextIs .rbracket r) : nextNot isCharTok r := by
  unfold nextNot; rw [h]; rfl

/-- `handleSectionMessageText` on the keyword just read, for header / header.fields / text -/
theorem rt_handleSectionMessageText (c : Choices) (t : SecText) (fuel : Nat) (ht : SecTextOK fuel t)
    (hf : 10 < fuel) (hm : t ≠ .mime) :
    ∃ (name rest' : Bytes), printSecText c t = kwCase (match t with | .headerFields _ _ => c.l | _ => c) name ++ rest' ∧
      allLower name = true ∧ name.length < 10 ∧ name ≠ kw "mime" ∧
      (∀ r, nextIs .rbracket r → nextNot isCharTok (rest' ++ r)) ∧
      RT (handleSectionMessageText name fuel) rest' t (nextIs .rbracket) := by
  cases t with
  | mime => exact absurd rfl hm
  | header =>
    refine ⟨kw "header", [], by simp [printSecText], by decide, by decide, by decide,
      fun r hr => by simpa using nextNot_char_of_rbracket hr, ?_⟩
    unfold handleSectionMessageText
    simp only [if_true]
    have := RT.bind (k := fun b => if (!b) = true then pure SecText.header else parseHeaderFields fuel)
      (rt_matchesTy_no .period) (by simpa using RT.ret SecText.header (nextIs .rbracket))
      (fun r hr => by simp only [List.nil_append]; rw [hr]; decide)
    simpa using this
  | text =>
    refine ⟨kw "text", [], by simp [printSecText], by decide, by decide, by decide,
      fun r hr => by simpa using nextNot_char_of_rbracket hr, ?_⟩
    unfold handleSectionMessageText
    have h1 : ¬ (kw "text" = kw "header") := by decide
    simp only [h1, if_false, if_true]
    exact RT.ret _ _
  | headerFields neg l =>
    refine ⟨kw "header", 46 :: (kwCase c.r.l (kw "fields") ++ (if neg then 46 :: (kwCase c.r.r.l (kw "not") ++ (32 :: printHeaderList c.r.r.r l))
        else 32 :: printHeaderList c.r.r l)), by cases neg <;> simp [printSecText], by decide, by decide, by decide,
      fun r _ => by show isCharTok (tokTy 46) = false; rfl, ?_⟩
    unfold handleSectionMessageText
    simp only [if_true]
    have h2 : RT (parseHeaderFields fuel) _ (SecText.headerFields neg l) (nextIs .rbracket) :=
      (rt_parseHeaderFields c neg l fuel ht.1 ht.2 hf).weaken (fun _ _ => trivial)
    have := RT.bind (k := fun b => if (!b) = true then pure SecText.header else parseHeaderFields fuel)
      (ok2 := nextIs .rbracket)
      (rt_matchesTy_yes (b := 46) (t := .period) rfl anyRest)
      (by simpa using h2)
      (fun _ _ => trivial)
    simpa using this


theorem rt_parseSectionMsgText (c : Choices) (t : SecText) (fuel : Nat) (ht : SecTextOK fuel t)
    (hf : 10 < fuel) (hm : t ≠ .mime) :
    RT (parseSectionMsgText fuel) (printSecText c t) t (nextIs .rbracket) := by
  obtain ⟨name, rest', hp, hl, hlen, _, hfol, hrt⟩ := rt_handleSectionMessageText c t fuel ht hf hm
  rw [hp]
  unfold parseSectionMsgText
  exact RT.bind (rt_kw _ name fuel hl (by omega)) hrt hfol

theorem rt_parseSectionText (c : Choices) (t : SecText) (fuel : Nat) (ht : SecTextOK fuel t)
    (hf : 10 < fuel) :
    RT (parseSectionText fuel) (printSecText c t) t (nextIs .rbracket) := by
  by_cases hm : t = .mime
  · subst hm
    unfold parseSectionText printSecText
    refine RT.bind_nil (rt_kw c (kw "mime") fuel (by decide) (by simp [kw]; omega)) ?_
      (fun r hr => nextNot_char_of_rbracket hr)
    simp only [if_true]
    exact RT.ret _ _
  · obtain ⟨name, rest', hp, hl, hlen, hnm, hfol, hrt⟩ := rt_handleSectionMessageText c t fuel ht hf hm
    rw [hp]
    unfold parseSectionText
    refine RT.bind (rt_kw _ name fuel hl (by omega)) ?_ hfol
    simp only [hnm, if_false]
    exact hrt

/-! ### section parts -/

def PartOK (p : List Int) : Prop := p ≠ [] ∧ ∀ n ∈ p, 1 ≤ n ∧ n ≤ 4294967295

theorem headTy_printNum (n : Int) (rest : Bytes) : headTy (printNum n ++ rest) = .digit :=
  headTy_natDigits _ _

/-- the loop of `parseSectionPart` over `.n1.n2…`, optionally ended by a `.` that is not followed by a
digit (`dot`) -/
theorem rt_sectionPartLoop (c : Choices) (ns : List Int) (hns : ∀ n ∈ ns, 1 ≤ n ∧ n ≤ 4294967295)
    (fuel : Nat) (hf : 10 < fuel) (n : Nat) (hn : ns.length < n) (dot : Bool) :
    RT (sectionPartLoop fuel n)
      (printSepTail 46 (fun _ x => printNum x) c ns ++ (if dot then [46] else []))
      ns (fun r => headTy r ≠ .digit ∧ (dot = false → headTy r ≠ .period)) := by
  induction ns generalizing n c with
  | nil =>
    cases n with
    | zero => simp at hn
    | succ n =>
      unfold sectionPartLoop
      simp only [printSepTail, List.nil_append]
      cases dot
      · have := RT.bind (k := fun b => if (!b) = true then pure ([] : List Int) else
            check .digit >>= fun d => if (!d) = true then pure [] else
              parseNZNumber fuel >>= fun x => sectionPartLoop fuel n >>= fun r => pure (x :: r))
          (rt_matchesTy_no .period)
          (by simpa using RT.ret ([] : List Int) (fun r => headTy r ≠ .digit ∧ (false = false → headTy r ≠ .period)))
          (fun r hr => by simpa using hr.2)
        simpa using this
      · have h2 : RT (check .digit >>= fun d => if (!d) = true then pure ([] : List Int) else
              parseNZNumber fuel >>= fun x => sectionPartLoop fuel n >>= fun r => pure (x :: r))
            [] [] (fun r => headTy r ≠ .digit ∧ (true = false → headTy r ≠ .period)) :=
          RT.check_eq false (fun r hr => by simpa using hr.1) (by simpa using RT.ret ([] : List Int) _)
        have := RT.bind (k := fun b => if (!b) = true then pure ([] : List Int) else
            check .digit >>= fun d => if (!d) = true then pure [] else
              parseNZNumber fuel >>= fun x => sectionPartLoop fuel n >>= fun r => pure (x :: r))
          (rt_matchesTy_yes (b := 46) (t := .period) rfl anyRest) (by simpa using h2) (fun _ _ => trivial)
        simpa using this
  | cons x xs ih =>
    cases n with
    | zero => simp at hn
    | succ n =>
      have ih' := ih c.r (fun y hy => hns y (by simp [hy])) n (by simpa using hn)
      have hx := hns x (by simp)
      unfold sectionPartLoop
      simp only [printSepTail, List.cons_append, List.append_assoc]
      have h3 : RT (parseNZNumber fuel >>= fun y => sectionPartLoop fuel n >>= fun r => pure (y :: r))
          (printNum x ++ (printSepTail 46 (fun _ x => printNum x) c.r xs ++ (if dot then [46] else [])))
          (x :: xs) (fun r => headTy r ≠ .digit ∧ (dot = false → headTy r ≠ .period)) := by
        refine RT.bind (rt_parseNZNumber x hx.1 hx.2 fuel hf) (RT.map _ ih') ?_
        intro r hr
        cases xs with
        | nil =>
          cases dot
          · simp only [printSepTail, List.nil_append, Bool.false_eq_true, if_false]
            unfold nextNot isDigitTok
            simpa using hr.1
          · rfl
        | cons y ys => rfl
      have h2 : RT (check .digit >>= fun d => if (!d) = true then pure ([] : List Int) else
            parseNZNumber fuel >>= fun y => sectionPartLoop fuel n >>= fun r => pure (y :: r))
          (printNum x ++ (printSepTail 46 (fun _ x => printNum x) c.r xs ++ (if dot then [46] else [])))
          (x :: xs) (fun r => headTy r ≠ .digit ∧ (dot = false → headTy r ≠ .period)) :=
        RT.check_eq true (fun r _ => by rw [List.append_assoc, headTy_printNum]; rfl) (by simpa using h3)
      have := RT.bind (k := fun b => if (!b) = true then pure ([] : List Int) else
          check .digit >>= fun d => if (!d) = true then pure [] else
            parseNZNumber fuel >>= fun y => sectionPartLoop fuel n >>= fun r => pure (y :: r))
        (rt_matchesTy_yes (b := 46) (t := .period) rfl anyRest) (by simpa using h2) (fun _ _ => trivial)
      simpa using this


theorem headTy_printSecText (c : Choices) (t : SecText) (rest : Bytes) :
    headTy (printSecText c t ++ rest) = .char := by
  cases t with
  | header => exact headTy_kwCase _ _ (by decide) (by decide) _
  | text => exact headTy_kwCase _ _ (by decide) (by decide) _
  | mime => exact headTy_kwCase _ _ (by decide) (by decide) _
  | headerFields neg l =>
    cases neg <;> (simp only [printSecText, List.append_assoc]; exact headTy_kwCase _ _ (by decide) (by decide) _)

def SectionOK (fuel : Nat) : Section → Prop
  | .msg t => t ≠ .mime ∧ SecTextOK fuel t
  | .part p none => PartOK p
  | .part p (some t) => PartOK p ∧ SecTextOK fuel t

theorem rt_parseSectionPart (c : Choices) (x : Int) (xs : List Int) (h : PartOK (x :: xs)) (fuel : Nat)
    (hf : xs.length + 10 < fuel) (dot : Bool) :
    RT (parseSectionPart fuel)
      (printSepList 46 (fun _ n => printNum n) c (x :: xs) ++ (if dot then [46] else []))
      (x :: xs) (fun r => headTy r ≠ .digit ∧ (dot = false → headTy r ≠ .period)) := by
  unfold parseSectionPart
  simp only [printSepList, List.append_assoc]
  have hx := h.2 x (by simp)
  refine RT.bind (rt_parseNZNumber x hx.1 hx.2 fuel (by omega)) ?_ ?_
  · exact RT.map _ (rt_sectionPartLoop c.r xs (fun y hy => h.2 y (by simp [hy])) fuel (by omega) fuel (by omega) dot)
  · intro r hr
    cases xs with
    | nil =>
      cases dot
      · simp only [printSepTail, List.nil_append, Bool.false_eq_true, if_false]
        unfold nextNot isDigitTok
        simpa using hr.1
      · rfl
    | cons y ys => rfl

def sectionPartLen : Section → Nat
  | .part p _ => p.length
  | _ => 0

/-- section_roundtrip -/
theorem rt_parseSectionSpec (c : Choices) (s : Section) (fuel : Nat) (hs : SectionOK fuel s)
    (hf : sectionPartLen s + 10 < fuel) :
    RT (parseSectionSpec fuel) (printSection c s) s (nextIs .rbracket) := by
  unfold parseSectionSpec
  cases s with
  | msg t =>
    simp only [printSection]
    refine RT.check_eq false (fun r _ => by rw [headTy_printSecText]; rfl) ?_
    simp only [Bool.false_eq_true, if_false]
    exact RT.map _ (rt_parseSectionMsgText c t fuel hs.2 (by omega) hs.1)
  | part p t =>
    cases p with
    | nil => cases t <;> exact absurd rfl (by first | exact hs.1 | exact hs.1.1)
    | cons x xs =>
      simp only [sectionPartLen, List.length_cons] at hf
      cases t with
      | none =>
        simp only [printSection]
        have h1 := rt_parseSectionPart c x xs hs fuel (by omega) false
        simp only [Bool.false_eq_true, if_false, List.append_nil] at h1
        refine RT.check_eq true (fun r _ => by simp only [printSepList, List.append_assoc]; rw [headTy_printNum]; rfl) ?_
        simp only [if_true]
        refine RT.bind_nil h1 ?_ (fun r hr => ⟨by rw [hr]; decide, fun _ => by rw [hr]; decide⟩)
        refine RT.check_eq false (fun r hr => by simp only [List.nil_append]; rw [hr]; rfl) ?_
        exact RT.ret _ _
      | some t =>
        simp only [printSection]
        have h1 := rt_parseSectionPart c.l x xs hs.1 fuel (by omega) true
        simp only [if_true] at h1
        refine RT.check_eq true (fun r _ => by simp only [printSepList, List.append_assoc]; rw [headTy_printNum]; rfl) ?_
        simp only [if_true]
        have hw : printSepList 46 (fun _ n => printNum n) c.l (x :: xs) ++ 46 :: printSecText c.r t
            = (printSepList 46 (fun _ n => printNum n) c.l (x :: xs) ++ [46]) ++ printSecText c.r t := by simp
        rw [hw]
        refine RT.bind h1 ?_ (fun r _ => ⟨by rw [headTy_printSecText]; decide, fun h => by cases h⟩)
        refine RT.check_eq true (fun r _ => by rw [headTy_printSecText]; rfl) ?_
        simp only [if_true]
        exact RT.map _ (rt_parseSectionText c.r t fuel hs.2 (by omega))


/-! ### fetch attributes -/

/-- what follows a fetch attribute: SP, `)` or CR -/
def fetchFollow (r : Bytes) : Prop := headTy r = .sp ∨ headTy r = .rparen ∨ headTy r = .cr

theorem fetchFollow_facts {r : Bytes} (h : fetchFollow r) :
    nextNot isCharTok r ∧ headTy r ≠ .period ∧ headTy r ≠ .lbracket ∧ headTy r ≠ .less ∧
    nextNot isDigitTok r := by
  unfold nextNot
  rcases h with h | h | h <;> rw [h] <;> decide

def bodyPeekP : P Bool := do
  if (← matchesTy .period) then
    consumeBytesFold (kw "PEEK")
    pure true
  else pure false

theorem rt_bodyPeek (c : Choices) (peek : Bool) : RT bodyPeekP (printPeek c peek) peek (nextIs .lbracket) := by
  unfold bodyPeekP printPeek
  cases peek
  · have := RT.bind (k := fun b => if b = true then consumeBytesFold (kw "PEEK") >>= fun _ => pure true else pure false)
      (rt_matchesTy_no .period) (by simpa using RT.ret false (nextIs .lbracket))
      (fun r hr => by simp only [List.nil_append]; rw [hr]; decide)
    simpa using this
  · have h2 : RT (consumeBytesFold (kw "PEEK") >>= fun _ => pure true) (kwCase c (kw "peek")) true (nextIs .lbracket) :=
      (RT.map (fun _ => true) (rt_consumeBytesFold (kw "PEEK") (kwCase c (kw "peek"))
        (lowerBytes_kw_upper c _ _ (by decide) (by decide)))).weaken (fun _ _ => trivial)
    have := RT.bind (k := fun b => if b = true then consumeBytesFold (kw "PEEK") >>= fun _ => pure true else pure false)
      (rt_matchesTy_yes (b := 46) (t := .period) rfl anyRest) (by simpa using h2) (fun _ _ => trivial)
    simpa using this

def optSectionP (fuel : Nat) : P (Option Section) := do
  if !(← check .rbracket) then
    let s ← parseSectionSpec fuel
    pure (some s)
  else pure none

def OptSectionOK (fuel : Nat) : Option Section → Prop
  | none => True
  | some s => SectionOK fuel s ∧ sectionPartLen s + 10 < fuel

theorem headTy_printSection (c : Choices) (s : Section) (hs : SectionOK fuel s) (rest : Bytes) :
    headTy (printSection c s ++ rest) = .char ∨ headTy (printSection c s ++ rest) = .digit := by
  cases s with
  | msg t => left; exact headTy_printSecText c t rest
  | part p t =>
    right
    cases p with
    | nil => cases t <;> exact absurd rfl (by first | exact hs.1 | exact hs.1.1)
    | cons x xs =>
      cases t <;> simp only [printSection, printSepList, List.append_assoc] <;> exact headTy_printNum _ _

theorem rt_optSection (c : Choices) (sec : Option Section) (fuel : Nat) (h : OptSectionOK fuel sec) :
    RT (optSectionP fuel) (printOptSection c sec) sec (nextIs .rbracket) := by
  unfold optSectionP
  cases sec with
  | none =>
    exact RT.check_eq true (fun r hr => by simpa [printOptSection, nextIs] using hr)
      (by simpa [printOptSection] using RT.ret (none : Option Section) (nextIs .rbracket))
  | some s =>
    refine RT.check_eq false (fun r _ => ?_) ?_
    · simp only [printOptSection]
      rcases headTy_printSection c s h.1 r with e | e <;> rw [e] <;> rfl
    · simp only [Bool.not_false, if_true]
      exact RT.map _ (rt_parseSectionSpec c s fuel h.1 h.2)

def partialP (fuel : Nat) : P (Option (Int × Int)) := do
  if (← matchesTy .less) then
    let off ← parseNumber fuel
    consume .period
    let cnt ← parseNZNumber fuel
    consume .greater
    pure (some (off, cnt))
  else pure none

def PartialOK : Option (Int × Int) → Prop
  | none => True
  | some (o, n) => 0 ≤ o ∧ o ≤ 4294967295 ∧ 1 ≤ n ∧ n ≤ 4294967295

/-- partial_roundtrip -/
theorem rt_partial (part : Option (Int × Int)) (h : PartialOK part) (fuel : Nat) (hf : 10 < fuel) :
    RT (partialP fuel) (printPartial part) part fetchFollow := by
  unfold partialP
  cases part with
  | none =>
    have := RT.bind (k := fun b => if b = true then parseNumber fuel >>= fun off => consume .period >>= fun _ =>
        parseNZNumber fuel >>= fun cnt => consume .greater >>= fun _ => pure (some (off, cnt)) else pure none)
      (rt_matchesTy_no .less) (by simpa using RT.ret (none : Option (Int × Int)) fetchFollow)
      (fun r hr => by simpa using (fetchFollow_facts hr).2.2.2.1)
    simpa [printPartial] using this
  | some p =>
    obtain ⟨o, n⟩ := p
    obtain ⟨h1, h2, h3, h4⟩ := h
    have hb : RT (parseNumber fuel >>= fun off => consume .period >>= fun _ =>
        parseNZNumber fuel >>= fun cnt => consume .greater >>= fun _ => pure (some (off, cnt)))
        (printNum o ++ (46 :: (printNum n ++ [62]))) (some (o, n)) fetchFollow := by
      refine RT.bind (rt_parseNumber32 o h1 h2 fuel hf) ?_ (fun r _ => by rfl)
      refine RT.bind (w1 := [46]) (rt_consume rfl anyRest) ?_ (fun _ _ => trivial)
      refine RT.bind (rt_parseNZNumber n h3 h4 fuel hf) ?_ (fun r _ => by rfl)
      exact (RT.map _ (rt_consume (b := 62) (t := .greater) rfl anyRest)).weaken (fun _ _ => trivial)
    have := RT.bind (k := fun b => if b = true then parseNumber fuel >>= fun off => consume .period >>= fun _ =>
        parseNZNumber fuel >>= fun cnt => consume .greater >>= fun _ => pure (some (off, cnt)) else pure none)
      (rt_matchesTy_yes (b := 60) (t := .less) rfl anyRest) (by simpa using hb) (fun _ _ => trivial)
    simpa [printPartial] using this


theorem rt_handleBody_plain (fuel : Nat) : RT (handleBodyFetchAttribute fuel) [] .body fetchFollow := by
  unfold handleBodyFetchAttribute
  refine RT.check_eq false (fun r hr => by simpa using (fetchFollow_facts hr).2.2.1) ?_
  refine RT.check_eq false (fun r hr => by simpa using (fetchFollow_facts hr).2.1) ?_
  simp only [Bool.not_false, Bool.and_self, if_true]
  exact RT.ret _ _

theorem rt_handleBody_section (c : Choices) (sec : Option Section) (peek : Bool) (part : Option (Int × Int))
    (fuel : Nat) (hs : OptSectionOK fuel sec) (hp : PartialOK part) (hf : 10 < fuel) :
    RT (handleBodyFetchAttribute fuel)
      (printPeek c.r.l peek ++ (91 :: (printOptSection c.r.r.l sec ++ (93 :: printPartial part))))
      (.bodySection sec peek part) fetchFollow := by
  unfold handleBodyFetchAttribute
  have hbody : RT (do
      let peek ← bodyPeekP
      consume .lbracket
      let sec ← optSectionP fuel
      consume .rbracket
      let part ← partialP fuel
      pure (FetchAttr.bodySection sec peek part))
      (printPeek c.r.l peek ++ (91 :: (printOptSection c.r.r.l sec ++ (93 :: printPartial part))))
      (.bodySection sec peek part) fetchFollow := by
    refine RT.bind (rt_bodyPeek c.r.l peek) ?_ (fun r _ => rfl)
    refine RT.bind (w1 := [91]) (rt_consume rfl anyRest) ?_ (fun _ _ => trivial)
    refine RT.bind (rt_optSection c.r.r.l sec fuel hs) ?_ (fun r _ => rfl)
    refine RT.bind (w1 := [93]) (rt_consume rfl anyRest) ?_ (fun _ _ => trivial)
    exact RT.map _ (rt_partial part hp fuel hf)
  cases peek
  · refine RT.check_eq true (fun r _ => by rfl) ?_
    refine RT.check_eq false (fun r _ => by rfl) ?_
    simp only [Bool.not_true, Bool.false_and, Bool.false_eq_true, if_false]
    exact hbody
  · refine RT.check_eq false (fun r _ => by rfl) ?_
    refine RT.check_eq true (fun r _ => by rfl) ?_
    simp only [Bool.not_true, Bool.and_false, Bool.false_eq_true, if_false]
    exact hbody

theorem rt_handleRFC822 (c : Choices) (sub : Option Bytes) (a : FetchAttr) (fuel : Nat) (hf : 10 < fuel)
    (h : (sub = none ∧ a = .rfc822) ∨ (sub = some (kw "header") ∧ a = .rfc822Header) ∨
      (sub = some (kw "size") ∧ a = .rfc822Size) ∨ (sub = some (kw "text") ∧ a = .rfc822Text)) :
    RT (handleRFC822FetchAttribute fuel)
      (kw "822" ++ (match sub with | none => [] | some s => 46 :: kwCase c s)) a fetchFollow := by
  unfold handleRFC822FetchAttribute
  refine RT.bind (rt_consumeBytesFold (kw "822") (kw "822") rfl) ?_ (fun _ _ => trivial)
  rcases h with ⟨rfl, rfl⟩ | ⟨rfl, rfl⟩ | ⟨rfl, rfl⟩ | ⟨rfl, rfl⟩
  · have := RT.bind (k := fun b => if (!b) = true then pure FetchAttr.rfc822 else readKeyword fuel >>= fun a =>
        if a = kw "header" then pure .rfc822Header else if a = kw "size" then pure .rfc822Size
        else if a = kw "text" then pure .rfc822Text else makeErrorAt)
      (rt_matchesTy_no .period) (by simpa using RT.ret FetchAttr.rfc822 fetchFollow)
      (fun r hr => by simpa using (fetchFollow_facts hr).2.1)
    simpa using this
  all_goals
    first
    | (have h2 : RT (readKeyword fuel >>= fun a =>
          if a = kw "header" then pure FetchAttr.rfc822Header else if a = kw "size" then pure .rfc822Size
          else if a = kw "text" then pure .rfc822Text else makeErrorAt) (kwCase c (kw "header")) .rfc822Header fetchFollow := by
        refine RT.bind_nil (rt_kw c _ fuel (by decide) (by simp [kw]; omega)) ?_ (fun r hr => (fetchFollow_facts hr).1)
        exact RT.ret _ _
       have := RT.bind (k := fun b => if (!b) = true then pure FetchAttr.rfc822 else readKeyword fuel >>= fun a =>
          if a = kw "header" then pure .rfc822Header else if a = kw "size" then pure .rfc822Size
          else if a = kw "text" then pure .rfc822Text else makeErrorAt)
        (rt_matchesTy_yes (b := 46) (t := .period) rfl anyRest) (by simpa using h2) (fun _ _ => trivial)
       simpa using this)
    | (have h2 : RT (readKeyword fuel >>= fun a =>
          if a = kw "header" then pure FetchAttr.rfc822Header else if a = kw "size" then pure .rfc822Size
          else if a = kw "text" then pure .rfc822Text else makeErrorAt) (kwCase c (kw "size")) .rfc822Size fetchFollow := by
        refine RT.bind_nil (rt_kw c _ fuel (by decide) (by simp [kw]; omega)) ?_ (fun r hr => (fetchFollow_facts hr).1)
        exact RT.ret _ _
       have := RT.bind (k := fun b => if (!b) = true then pure FetchAttr.rfc822 else readKeyword fuel >>= fun a =>
          if a = kw "header" then pure .rfc822Header else if a = kw "size" then pure .rfc822Size
          else if a = kw "text" then pure .rfc822Text else makeErrorAt)
        (rt_matchesTy_yes (b := 46) (t := .period) rfl anyRest) (by simpa using h2) (fun _ _ => trivial)
       simpa using this)
    | (have h2 : RT (readKeyword fuel >>= fun a =>
          if a = kw "header" then pure FetchAttr.rfc822Header else if a = kw "size" then pure .rfc822Size
          else if a = kw "text" then pure .rfc822Text else makeErrorAt) (kwCase c (kw "text")) .rfc822Text fetchFollow := by
        refine RT.bind_nil (rt_kw c _ fuel (by decide) (by simp [kw]; omega)) ?_ (fun r hr => (fetchFollow_facts hr).1)
        exact RT.ret _ _
       have := RT.bind (k := fun b => if (!b) = true then pure FetchAttr.rfc822 else readKeyword fuel >>= fun a =>
          if a = kw "header" then pure .rfc822Header else if a = kw "size" then pure .rfc822Size
          else if a = kw "text" then pure .rfc822Text else makeErrorAt)
        (rt_matchesTy_yes (b := 46) (t := .period) rfl anyRest) (by simpa using h2) (fun _ _ => trivial)
       simpa using this)


def FetchAttrOK (fuel : Nat) : FetchAttr → Prop
  | .all | .full | .fast => False
  | .bodySection sec _ part => OptSectionOK fuel sec ∧ PartialOK part
  | _ => True

theorem nextNot_char_digit8 (r : Bytes) : nextNot isCharTok (kw "822" ++ r) := by rfl

/-- every non-macro fetch attribute is printed as a keyword followed by what `handleFetchAttribute` reads -/
theorem fetchAttr_decomp (c : Choices) (a : FetchAttr) (fuel : Nat) (h : FetchAttrOK fuel a) (hf : 14 < fuel) :
    ∃ (c' : Choices) (name rest' : Bytes), printFetchAttr c a = kwCase c' name ++ rest' ∧
      allLower name = true ∧ name.length < 14 ∧ name ≠ [] ∧
      name ≠ kw "all" ∧ name ≠ kw "full" ∧ name ≠ kw "fast" ∧
      (∀ r, fetchFollow r → nextNot isCharTok (rest' ++ r)) ∧
      RT (handleFetchAttribute name fuel) rest' a fetchFollow := by
  have hfol : ∀ r, fetchFollow r → nextNot isCharTok ([] ++ r) := fun r hr => (fetchFollow_facts hr).1
  cases a with
  | all => exact absurd h id
  | full => exact absurd h id
  | fast => exact absurd h id
  | envelope =>
    exact ⟨c, kw "envelope", [], by simp [printFetchAttr], by decide, by decide, by decide, by decide,
      by decide, by decide, hfol, RT.ret _ _⟩
  | flags =>
    exact ⟨c, kw "flags", [], by simp [printFetchAttr], by decide, by decide, by decide, by decide,
      by decide, by decide, hfol, RT.ret _ _⟩
  | internalDate =>
    exact ⟨c, kw "internaldate", [], by simp [printFetchAttr], by decide, by decide, by decide, by decide,
      by decide, by decide, hfol, RT.ret _ _⟩
  | bodyStructure =>
    exact ⟨c, kw "bodystructure", [], by simp [printFetchAttr], by decide, by decide, by decide, by decide,
      by decide, by decide, hfol, RT.ret _ _⟩
  | uid =>
    exact ⟨c, kw "uid", [], by simp [printFetchAttr], by decide, by decide, by decide, by decide,
      by decide, by decide, hfol, RT.ret _ _⟩
  | body =>
    exact ⟨c, kw "body", [], by simp [printFetchAttr], by decide, by decide, by decide, by decide,
      by decide, by decide, hfol, rt_handleBody_plain fuel⟩
  | rfc822 =>
    refine ⟨c, kw "rfc", kw "822", rfl, by decide, by decide, by decide, by decide, by decide, by decide,
      fun r _ => nextNot_char_digit8 _, ?_⟩
    have := rt_handleRFC822 c none .rfc822 fuel (by omega) (Or.inl ⟨rfl, rfl⟩)
    simp only [List.append_nil] at this
    exact this
  | rfc822Header =>
    exact ⟨c.l, kw "rfc", _, rfl, by decide, by decide, by decide, by decide, by decide, by decide,
      fun r _ => by rfl,
      rt_handleRFC822 c.r (some (kw "header")) .rfc822Header fuel (by omega) (Or.inr (Or.inl ⟨rfl, rfl⟩))⟩
  | rfc822Size =>
    exact ⟨c.l, kw "rfc", _, rfl, by decide, by decide, by decide, by decide, by decide, by decide,
      fun r _ => by rfl,
      rt_handleRFC822 c.r (some (kw "size")) .rfc822Size fuel (by omega) (Or.inr (Or.inr (Or.inl ⟨rfl, rfl⟩)))⟩
  | rfc822Text =>
    exact ⟨c.l, kw "rfc", _, rfl, by decide, by decide, by decide, by decide, by decide, by decide,
      fun r _ => by rfl,
      rt_handleRFC822 c.r (some (kw "text")) .rfc822Text fuel (by omega) (Or.inr (Or.inr (Or.inr ⟨rfl, rfl⟩)))⟩
  | bodySection sec peek part =>
    exact ⟨c.l, kw "body", _, rfl, by decide, by decide, by decide, by decide, by decide, by decide,
      fun r _ => by cases peek <;> rfl,
      rt_handleBody_section c sec peek part fuel h.1 h.2 (by omega)⟩

/-- fetchattr_roundtrip (one attribute inside a list or alone, not a macro) -/
theorem rt_parseFetchAttribute (c : Choices) (a : FetchAttr) (fuel : Nat) (h : FetchAttrOK fuel a)
    (hf : 14 < fuel) :
    RT (parseFetchAttribute fuel) (printFetchAttr c a) a fetchFollow := by
  obtain ⟨c', name, rest', hp, hl, hlen, _, _, _, _, hfol, hrt⟩ := fetchAttr_decomp c a fuel h hf
  rw [hp]
  unfold parseFetchAttribute
  exact RT.bind (rt_kw c' name fuel hl (by omega)) hrt hfol

theorem headTy_printFetchAttr (c : Choices) (a : FetchAttr) (rest : Bytes) :
    headTy (printFetchAttr c a ++ rest) = .char := by
  cases a <;> simp only [printFetchAttr, List.append_assoc] <;> exact headTy_kwCase _ _ (by decide) (by decide) _

theorem fetchFollow_sp (r : Bytes) : fetchFollow (32 :: r) := Or.inl rfl
theorem fetchFollow_rparen (r : Bytes) : fetchFollow (41 :: r) := Or.inr (Or.inl rfl)

theorem rt_parseFetchAttributes (c : Choices) (a : FetchAttr) (as : List FetchAttr) (fuel : Nat)
    (h : ∀ x ∈ a :: as, FetchAttrOK fuel x) (hf : as.length + 14 < fuel) :
    RT (parseFetchAttributes fuel) (40 :: (printSepList 32 printFetchAttr c (a :: as) ++ [41])) (a :: as) anyRest := by
  unfold parseFetchAttributes
  simp only [printSepList, List.append_assoc]
  refine RT.bind (w1 := [40]) (rt_consume rfl anyRest) ?_ (fun _ _ => trivial)
  refine RT.bind (rt_parseFetchAttribute _ a fuel (h a (by simp)) (by omega)) ?_ ?_
  · refine RT.bind (rt_sepLoop .sp 32 rfl (parseFetchAttribute fuel) printFetchAttr fetchFollow
      (nextIs .rparen) as (fun c x hx => rt_parseFetchAttribute c x fuel (h x (by simp [hx])) (by omega))
      (fun r hr => by rw [hr]; decide) (fun r hr => Or.inr (Or.inl hr))
      (fun r => fetchFollow_sp r) fuel (by omega) _) ?_ (fun r _ => rfl)
    exact RT.map _ (rt_consume (b := 41) (t := .rparen) rfl anyRest)
  · intro r _
    cases as with
    | nil => exact fetchFollow_rparen _
    | cons x xs => exact fetchFollow_sp _


def FetchAttrsOK (fuel : Nat) (attrs : List FetchAttr) : Prop :=
  attrs ≠ [] ∧ ((∃ a, attrs = [a] ∧ a.isMacro = true) ∨ ∀ a ∈ attrs, FetchAttrOK fuel a)

theorem fetchFollow_cr {r : Bytes} (h : nextIs .cr r) : fetchFollow r := Or.inr (Or.inr h)

theorem rt_fetchAttrs (c : Choices) (attrs : List FetchAttr) (seq : SeqSet) (fuel : Nat)
    (h : FetchAttrsOK fuel attrs) (hf : attrs.length + 14 < fuel) :
    RT (do
      if (← check .lparen) then
        let attrs ← parseFetchAttributes fuel
        pure (Cmd.fetch seq attrs)
      else do
        let n ← readKeyword fuel
        if n = kw "all" then pure (.fetch seq [.all])
        else if n = kw "full" then pure (.fetch seq [.full])
        else if n = kw "fast" then pure (.fetch seq [.fast])
        else do
          let a ← handleFetchAttribute n fuel
          pure (.fetch seq [a]))
      (printFetchAttrs c attrs) (.fetch seq attrs) (nextIs .cr) := by
  obtain ⟨hne, hcases⟩ := h
  have single : ∀ a, FetchAttrOK fuel a →
      RT (do
        if (← check .lparen) then
          let attrs ← parseFetchAttributes fuel
          pure (Cmd.fetch seq attrs)
        else do
          let n ← readKeyword fuel
          if n = kw "all" then pure (.fetch seq [.all])
          else if n = kw "full" then pure (.fetch seq [.full])
          else if n = kw "fast" then pure (.fetch seq [.fast])
          else do
            let a ← handleFetchAttribute n fuel
            pure (.fetch seq [a])) (printFetchAttr c.r a) (.fetch seq [a]) (nextIs .cr) := by
    intro a ha
    refine RT.check_eq false (fun r _ => by rw [headTy_printFetchAttr]; rfl) ?_
    simp only [Bool.false_eq_true, if_false]
    obtain ⟨c', name, rest', hp, hl, hlen, _, h1, h2, h3, hfol, hrt⟩ := fetchAttr_decomp c.r a fuel ha (by omega)
    rw [hp]
    refine RT.bind (rt_kw c' name fuel hl (by omega)) ?_ (fun r hr => hfol r (fetchFollow_cr hr))
    simp only [h1, h2, h3, if_false]
    exact RT.map _ (hrt.weaken (fun r hr => fetchFollow_cr hr))
  have paren : ∀ (cc : Choices) (a : FetchAttr) (as : List FetchAttr), (∀ x ∈ a :: as, FetchAttrOK fuel x) →
      as.length + 14 < fuel →
      RT (do
        if (← check .lparen) then
          let attrs ← parseFetchAttributes fuel
          pure (Cmd.fetch seq attrs)
        else do
          let n ← readKeyword fuel
          if n = kw "all" then pure (.fetch seq [.all])
          else if n = kw "full" then pure (.fetch seq [.full])
          else if n = kw "fast" then pure (.fetch seq [.fast])
          else do
            let a ← handleFetchAttribute n fuel
            pure (.fetch seq [a])) (40 :: (printSepList 32 printFetchAttr cc (a :: as) ++ [41]))
          (.fetch seq (a :: as)) (nextIs .cr) := by
    intro cc a as hall hlen
    refine RT.check_eq true (fun r _ => by rfl) ?_
    simp only [if_true]
    exact (RT.map _ (rt_parseFetchAttributes cc a as fuel hall hlen)).weaken (fun _ _ => trivial)
  match attrs, hne, hcases with
  | [a], _, hc =>
    simp only [printFetchAttrs]
    split
    · rename_i hcond
      rcases hc with ⟨a', ha', hm⟩ | hall
      · have : a = a' := by simpa using ha'
        subst this
        refine RT.check_eq false (fun r _ => by rw [headTy_printFetchAttr]; rfl) ?_
        simp only [Bool.false_eq_true, if_false]
        cases a <;> simp [FetchAttr.isMacro] at hm
        · refine RT.bind_nil (rt_kw c.r (kw "all") fuel (by decide) (by simp [kw]; omega)) ?_
            (fun r hr => (fetchFollow_facts (fetchFollow_cr hr)).1)
          exact RT.ret _ _
        · refine RT.bind_nil (rt_kw c.r (kw "full") fuel (by decide) (by simp [kw]; omega)) ?_
            (fun r hr => (fetchFollow_facts (fetchFollow_cr hr)).1)
          exact RT.ret _ _
        · refine RT.bind_nil (rt_kw c.r (kw "fast") fuel (by decide) (by simp [kw]; omega)) ?_
            (fun r hr => (fetchFollow_facts (fetchFollow_cr hr)).1)
          exact RT.ret _ _
      · exact single a (hall a (by simp))
    · rename_i hcond
      rcases hc with ⟨a', ha', hm⟩ | hall
      · have : a = a' := by simpa using ha'
        subst this
        simp [hm] at hcond
      · have := paren c.r a [] hall (by simp; omega)
        simpa [printSepList, printSepTail] using this
  | a :: b :: rest, _, hc =>
    simp only [printFetchAttrs]
    rcases hc with ⟨a', ha', _⟩ | hall
    · simp at ha'
    · exact paren c.r a (b :: rest) hall (by simp at hf ⊢; omega)

theorem rt_parseFetch (c : Choices) (s : SeqSet) (attrs : List FetchAttr) (hs : SeqSetOK s) (fuel : Nat)
    (h : FetchAttrsOK fuel attrs) (hf : s.length + attrs.length + 14 < fuel) :
    RT (parseFetch fuel) (32 :: (printSeqSet c.r.l s ++ (32 :: printFetchAttrs c.r.r attrs)))
      (.fetch s attrs) (nextIs .cr) := by
  unfold parseFetch
  refine RT.bind (w1 := [32]) (rt_consume rfl anyRest) ?_ (fun _ _ => trivial)
  refine RT.bind (rt_parseSeqSet _ s hs fuel (by omega)) ?_ (fun r _ => seqFollow_sp _)
  refine RT.bind (w1 := [32]) (rt_consume rfl anyRest) ?_ (fun _ _ => trivial)
  exact rt_fetchAttrs c.r.r attrs s fuel h (by omega)


end Gluon.Parse
