/- Helper lemmas about the limits model: int64 wrap arithmetic and the check-then-insert machine. -/
import GluonModel.Model.Limits

namespace Gluon.Limits

theorem wrap64_of_int64 (x : Int) (h : isInt64 x) : wrap64 x = x := by
  unfold isInt64 at h
  unfold wrap64
  omega

/-- the sum of two int64 values after wrapping: the value itself, or off by 2^64 -/
theorem wrap64_add_cases (a b : Int) (ha : isInt64 a) (hb : isInt64 b) :
    (isInt64 (a + b) ∧ wrap64 (a + b) = a + b) ∨
    (2 ^ 63 ≤ a + b ∧ wrap64 (a + b) = a + b - 2 ^ 64) ∨
    (a + b < -(2 : Int) ^ 63 ∧ wrap64 (a + b) = a + b + 2 ^ 64) := by
  unfold isInt64 at *
  unfold wrap64
  omega

/-- `CheckMailBoxMessageCount` passes: the true sum is within the maximum, nothing wrapped -/
theorem msgCount_sound (l : IMAP) (e n : Int) (he : isInt64 e) (hn : isInt64 n) (hs : 0 ≤ n ∨ 0 ≤ e)
    (h : checkMailBoxMessageCount l e n = none) :
    e + n ≤ l.maxMessageCountPerMailbox ∧ 0 ≤ n ∧ isInt64 (e + n) := by
  unfold checkMailBoxMessageCount at h
  simp only at h
  split at h
  · simp at h
  · rename_i hc
    have hw := wrap64_add_cases e n he hn
    unfold isInt64 at *
    omega

theorem uidCount_sound (l : IMAP) (u : Nat) (n : Int) (hu : (u : Int) < 2 ^ 32) (hn : isInt64 n)
    (h : checkUIDCount l u n = none) :
    (u : Int) + n ≤ l.maxUID ∧ 0 ≤ n ∧ isInt64 ((u : Int) + n) := by
  unfold checkUIDCount at h
  simp only at h
  split at h
  · simp at h
  · rename_i hc
    have hu' : isInt64 (u : Int) := by unfold isInt64; omega
    have hw := wrap64_add_cases (u : Int) n hu' hn
    unfold isInt64 at *
    omega

theorem msgCount_complete (l : IMAP) (e n : Int) (he : 0 ≤ e) (hn : 0 ≤ n)
    (hfit : e + n ≤ l.maxMessageCountPerMailbox) (hm : l.maxMessageCountPerMailbox < 2 ^ 63) :
    checkMailBoxMessageCount l e n = none := by
  unfold checkMailBoxMessageCount
  have : wrap64 (e + n) = e + n := wrap64_of_int64 _ (by unfold isInt64; omega)
  simp only [this]
  split
  · omega
  · rfl

theorem uidCount_complete (l : IMAP) (u : Nat) (n : Int) (hn : 0 ≤ n)
    (hfit : (u : Int) + n ≤ l.maxUID) (hm : l.maxUID < 2 ^ 63) :
    checkUIDCount l u n = none := by
  unfold checkUIDCount
  have : wrap64 ((u : Int) + n) = (u : Int) + n := wrap64_of_int64 _ (by unfold isInt64; omega)
  simp only [this]
  split
  · omega
  · rfl

/-- both message checks pass on a world within the limits: the insert keeps it within -/
theorem msgChecks_sound (l : IMAP) (hl : U32Limits l) (w : World) (hw : Within l w) (n : Nat)
    (hn : (n : Int) < 2 ^ 63) (h : msgChecks l w n = true) :
    (w.count : Int) + n ≤ l.maxMessageCountPerMailbox ∧ (w.uidNext : Int) + n ≤ l.maxUID := by
  unfold msgChecks at h
  simp only [Bool.and_eq_true, Option.isNone_iff_eq_none] at h
  unfold U32Limits at hl
  unfold Within at hw
  have h1 := msgCount_sound l w.count n (by unfold isInt64; omega) (by unfold isInt64; omega) (by omega) h.1
  have h2 := uidCount_sound l w.uidNext n (by omega) (by unfold isInt64; omega) h.2
  omega

/-- invariant of the machine under the two hypotheses -/
def Inv (l : IMAP) (pending : Option Nat) (w : World) : Prop :=
  Within l w ∧
  match pending with
  | none => w.passed = []
  | some s => w.passed = [] ∨ ∃ n, w.passed = [(s, n)] ∧
      (w.count : Int) + n ≤ l.maxMessageCountPerMailbox ∧ (w.uidNext : Int) + n ≤ l.maxUID

theorem trace_within (l : IMAP) (hl : U32Limits l) (evs : List Ev) (p : Option Nat) (w : World)
    (hinv : Inv l p w) (hc : CheckThenInsert p evs) (hi : EvsInt64 evs) :
    ∀ w' ∈ trace l evs w, Within l w' := by
  induction evs generalizing p w with
  | nil => simp [trace]
  | cons e rest ih =>
    obtain ⟨hw, hpass⟩ := hinv
    have hwu := hw
    unfold Within at hwu
    -- it suffices to re-establish the invariant for the next state
    suffices hnext : ∃ p', Inv l p' (step l w e) ∧ CheckThenInsert p' rest ∧ EvsInt64 rest by
      obtain ⟨p', hinv', hc', hi'⟩ := hnext
      intro w' hw'
      simp only [trace, List.mem_cons] at hw'
      rcases hw' with rfl | hw'
      · exact hinv'.1
      · exact ih p' _ hinv' hc' hi' w' hw'
    cases p with
    | some s =>
      -- only `insert s` is allowed
      cases e with
      | insert s' =>
        simp only [CheckThenInsert] at hc
        obtain ⟨rfl, hc'⟩ := hc
        refine ⟨none, ?_, hc', by simpa [EvsInt64] using hi⟩
        simp only at hpass
        rcases hpass with hnil | ⟨n, hpn, h1, h2⟩
        · simp [step, hnil, Inv, hw]
        · simp only [step, hpn, List.lookup, beq_self_eq_true]
          refine ⟨?_, by simp⟩
          unfold Within
          simp only [Int.natCast_add]
          omega
      | create _ => simp [CheckThenInsert] at hc
      | renameParents _ => simp [CheckThenInsert] at hc
      | addTx _ => simp [CheckThenInsert] at hc
      | replaceTx _ _ => simp [CheckThenInsert] at hc
      | check _ _ => simp [CheckThenInsert] at hc
      | remove _ => simp [CheckThenInsert] at hc
      | deleteMailbox => simp [CheckThenInsert] at hc
    | none =>
      simp only at hpass
      cases e with
      | insert _ => simp [CheckThenInsert] at hc
      | create parents =>
        refine ⟨none, ?_, by simpa [CheckThenInsert] using hc, by simpa [EvsInt64] using hi⟩
        simp only [step]
        split
        · rename_i hck
          simp only [Bool.and_eq_true, Option.isNone_iff_eq_none, checkMailBoxCount] at hck
          obtain ⟨_, hck2⟩ := hck
          refine ⟨?_, by simpa using hpass⟩
          unfold Within
          simp only [Int.natCast_add]
          split at hck2
          · simp at hck2
          · simp only [Int.cast_ofNat_Int]
            omega
        · exact ⟨hw, hpass⟩
      | renameParents parents =>
        refine ⟨none, ?_, by simpa [CheckThenInsert] using hc, by simpa [EvsInt64] using hi⟩
        simp only [step]
        split
        · exact ⟨hw, hpass⟩
        · rename_i hck
          refine ⟨?_, by simpa using hpass⟩
          unfold Within
          simp only [Int.natCast_add]
          by_cases hp0 : parents = 0
          · subst hp0; simp; omega
          · have hpos : parents > 0 := by omega
            simp only [hpos, decide_true, Bool.true_and, Bool.not_eq_false, Bool.not_eq_eq_eq_not, Bool.not_true, Option.isNone_iff_eq_none, checkMailBoxCount] at hck
            split at hck
            · rename_i hge; simp at hck
            · omega
      | addTx n =>
        simp only [EvsInt64] at hi
        refine ⟨none, ?_, by simpa [CheckThenInsert] using hc, hi.2⟩
        simp only [step]
        split
        · rename_i hck
          have := msgChecks_sound l hl w hw n hi.1 hck
          refine ⟨?_, by simpa using hpass⟩
          unfold Within
          simp only [Int.natCast_add]
          omega
        · exact ⟨hw, hpass⟩
      | replaceTx k n =>
        simp only [EvsInt64] at hi
        refine ⟨none, ?_, by simpa [CheckThenInsert] using hc, hi.2⟩
        simp only [step]
        split
        · rename_i hck
          have hw' : Within l { w with count := w.count - k } := by
            unfold Within
            simp only
            omega
          have := msgChecks_sound l hl _ hw' n hi.1 hck
          simp only at this
          refine ⟨?_, by simpa using hpass⟩
          unfold Within
          simp only [Int.natCast_add]
          omega
        · exact ⟨hw, hpass⟩
      | check s n =>
        simp only [EvsInt64] at hi
        refine ⟨some s, ?_, by simpa [CheckThenInsert] using hc, hi.2⟩
        simp only [step]
        split
        · rename_i hck
          have := msgChecks_sound l hl w hw n hi.1 hck
          refine ⟨hw, Or.inr ⟨n, ?_, this.1, this.2⟩⟩
          simp [hpass]
        · refine ⟨hw, Or.inl ?_⟩
          simp [hpass]
      | remove k =>
        refine ⟨none, ?_, by simpa [CheckThenInsert] using hc, by simpa [EvsInt64] using hi⟩
        simp only [step]
        refine ⟨?_, by simpa using hpass⟩
        unfold Within
        simp only
        omega
      | deleteMailbox =>
        refine ⟨none, ?_, by simpa [CheckThenInsert] using hc, by simpa [EvsInt64] using hi⟩
        simp only [step]
        refine ⟨?_, by simpa using hpass⟩
        unfold Within
        simp only
        omega

end Gluon.Limits
