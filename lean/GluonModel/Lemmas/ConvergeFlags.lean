/- Flag-set membership lemmas and `FlagsEq` (equality of flag sets ignoring `\Recent`) (C02). -/
import GluonModel.Spec.MailboxView

namespace Gluon
namespace Flags

theorem mem_add1 {fs : Flags} {g f : Flag} : f ∈ add1 fs g ↔ f ∈ fs ∨ f = g := by
  simp only [add1]
  split
  · next h =>
    have : g ∈ fs := by simpa using h
    constructor
    · exact Or.inl
    · rintro (h | rfl)
      · exact h
      · exact this
  · simp

theorem mem_add {fs gs : Flags} {f : Flag} : f ∈ add fs gs ↔ f ∈ fs ∨ f ∈ gs := by
  simp only [add]
  induction gs generalizing fs with
  | nil => simp
  | cons g t ih =>
    simp only [List.foldl_cons, ih, mem_add1, List.mem_cons]
    grind

theorem mem_remove1 {fs : Flags} {g f : Flag} : f ∈ remove1 fs g ↔ f ∈ fs ∧ f ≠ g := by
  simp [remove1]

theorem mem_remove {fs gs : Flags} {f : Flag} : f ∈ remove fs gs ↔ f ∈ fs ∧ f ∉ gs := by
  simp only [remove]
  induction gs generalizing fs with
  | nil => simp
  | cons g t ih =>
    simp only [List.foldl_cons, ih, mem_remove1, List.mem_cons]
    grind

theorem mem_norm {gs : Flags} {f : Flag} : f ∈ norm gs ↔ f ∈ gs := by
  simp [norm, mem_add]

theorem mem_set {fs : Flags} {g f : Flag} {on : Bool} :
    f ∈ set fs g on ↔ (on = true ∧ (f ∈ fs ∨ f = g)) ∨ (on = false ∧ f ∈ fs ∧ f ≠ g) := by
  cases on <;> simp [set, mem_add1, mem_remove1]

theorem deleted_ne_recent : deleted ≠ recent := by decide

end Flags

namespace FlagsEq

theorem refl (a : Flags) : FlagsEq a a := fun _ _ => Iff.rfl
theorem symm {a b : Flags} (h : FlagsEq a b) : FlagsEq b a := fun f hf => (h f hf).symm
theorem trans {a b c : Flags} (h1 : FlagsEq a b) (h2 : FlagsEq b c) : FlagsEq a c :=
  fun f hf => (h1 f hf).trans (h2 f hf)

theorem remove1_recent (a : Flags) : FlagsEq (Flags.remove1 a Flags.recent) a := by
  intro f hf
  simp [Flags.mem_remove1, hf]

theorem add1_recent (a : Flags) : FlagsEq (Flags.add1 a Flags.recent) a := by
  intro f hf
  simp [Flags.mem_add1, hf]

theorem contains_deleted {a b : Flags} (h : FlagsEq a b) :
    a.contains Flags.deleted = b.contains Flags.deleted := by
  have := h Flags.deleted Flags.deleted_ne_recent
  rw [Bool.eq_iff_iff]
  simpa using this

/-- `fetch.handle`'s flag computation respects equality ignoring `\Recent` -/
theorem newFlags {a b : Flags} (h : FlagsEq a b) (op : FlagOp) (fl : Flags) (other : Bool) :
    FlagsEq (Gluon.newFlags a op fl other) (Gluon.newFlags b op fl other) := by
  intro f hf
  have hd := contains_deleted h
  have hf' := h f hf
  cases op <;> cases other <;>
    simp only [Gluon.newFlags, if_true, Bool.false_eq_true, if_false, Flags.mem_set, Flags.mem_add,
      Flags.mem_remove, hd, hf']

end FlagsEq
end Gluon
