/- Per-message reading of a snapshot (`Snap.look`): every responder acts on the entry of its own
   message only (`stepId`), and a snapshot under the invariant is determined by its entries (C02). -/
import GluonModel.Lemmas.ConvergeView

namespace Gluon

/-- what a responder does to the snapshot entry of message `a` (`none` = not in the snapshot) -/
def stepId (sid : StateId) (a : MsgId) (cur : Option SMsg) : Responder → Option SMsg
  | .exists id uid fl t _ =>
    if id = a then (match cur with
      | some m => some m
      | none => some (Snap.mkMsg id uid (exFlags sid t fl)))
    else cur
  | .expunge id => if id = a then none else cur
  | .fetch id fl op _ _ other => if id = a then cur.map (fetchUpd op fl other) else cur

theorem stepId_other {sid : StateId} {a : MsgId} {cur : Option SMsg} {r : Responder} (h : r.msgId ≠ a) :
    stepId sid a cur r = cur := by
  cases r <;> simp only [Responder.msgId] at h <;> simp [stepId, h]

namespace Snap

theorem look_ins {m : SMsg} {s : Snap} (hno : s.has m.id = false) (a : MsgId) :
    (ins m s).look a = if m.id = a then some m else s.look a := by
  induction s with
  | nil => simp [ins, look, List.find?_cons]; split <;> simp_all
  | cons b t ih =>
    have hb : b.id ≠ m.id := by
      intro h; simp [has, h] at hno
    have ht : has t m.id = false := by
      simp only [has, List.any_cons, Bool.or_eq_false_iff] at hno; exact hno.2
    simp only [ins]
    split
    · simp only [look, List.find?_cons] at ih ⊢
      by_cases hba : (b.id == a) = true
      · have : m.id ≠ a := by
          intro h; apply hb; rw [h]; simpa using hba
        simp [hba, this]
      · simp only [hba]
        exact ih ht
    · simp only [look, List.find?_cons]
      by_cases hma : m.id = a
      · simp [hma]
      · have : (m.id == a) = false := by simpa using hma
        simp [this, hma]

theorem look_eraseP {s : Snap} (hnd : s.ids.Nodup) (id a : MsgId) :
    look (s.eraseP (·.id == id)) a = if id = a then none else s.look a := by
  induction s with
  | nil => simp [look]
  | cons b t ih =>
    simp only [ids, List.map_cons, List.nodup_cons] at hnd
    simp only [List.eraseP_cons]
    by_cases hbi : (b.id == id) = true
    · have hbe : b.id = id := by simpa using hbi
      simp only [hbi]
      by_cases hia : id = a
      · simp only [hia, if_true]
        rw [look_eq_none_iff, not_has_iff]
        rw [← hia, ← hbe]; exact hnd.1
      · have : (b.id == a) = false := by rw [hbe]; simpa using hia
        simp [hia, look, this]
    · have hbi' : (b.id == id) = false := by simpa using hbi
      simp only [hbi', cond_false]
      simp only [look, List.find?_cons] at ih ⊢
      by_cases hba : (b.id == a) = true
      · have : id ≠ a := by
          intro h; apply hbi; rw [h]; exact hba
        simp [hba, this]
      · simp only [hba]
        exact ih hnd.2

theorem look_map_upd (s : Snap) (id a : MsgId) (U : SMsg → SMsg) (hU : ∀ x, (U x).id = x.id) :
    look (s.map fun x => if x.id == id then U x else x) a =
      if id = a then (s.look a).map U else s.look a := by
  induction s with
  | nil => simp [look]
  | cons b t ih =>
    have hG : (if (b.id == id) = true then U b else b).id = b.id := by split <;> simp [hU]
    simp only [look, List.map_cons, List.find?_cons, hG] at ih ⊢
    by_cases hba : (b.id == a) = true
    · have hbe : b.id = a := by simpa using hba
      simp only [hba]
      by_cases hia : id = a
      · simp [hia, hbe]
      · have : ¬ a = id := fun h => hia h.symm
        simp [hia, hbe, this]
    · simp only [hba]
      exact ih

theorem mem_of_look {s : Snap} {a : MsgId} {x : SMsg} (h : s.look a = some x) : x ∈ s :=
  List.mem_of_find?_eq_some h

theorem id_of_look {s : Snap} {a : MsgId} {x : SMsg} (h : s.look a = some x) : x.id = a := by
  have := List.find?_some h
  simpa using this

/-- strictly UID-sorted snapshots with the same members are equal -/
theorem eq_of_sorted_mem {s1 s2 : Snap} (h1 : s1.uids.Pairwise (· < ·)) (h2 : s2.uids.Pairwise (· < ·))
    (hm : ∀ x, x ∈ s1 ↔ x ∈ s2) : s1 = s2 := by
  induction s1 generalizing s2 with
  | nil =>
    cases s2 with
    | nil => rfl
    | cons b t => exact absurd ((hm b).mpr List.mem_cons_self) (by simp)
  | cons a t1 ih =>
    cases s2 with
    | nil => exact absurd ((hm a).mp List.mem_cons_self) (by simp)
    | cons b t2 =>
      simp only [uids, List.map_cons, List.pairwise_cons] at h1 h2
      have hlt1 : ∀ x ∈ t1, a.uid < x.uid := fun x hx => h1.1 x.uid (List.mem_map_of_mem hx)
      have hlt2 : ∀ x ∈ t2, b.uid < x.uid := fun x hx => h2.1 x.uid (List.mem_map_of_mem hx)
      have hab : a = b := by
        rcases List.mem_cons.mp ((hm a).mp List.mem_cons_self) with h | h
        · exact h
        · rcases List.mem_cons.mp ((hm b).mpr List.mem_cons_self) with h' | h'
          · exact h'.symm
          · have := hlt1 b h'; have := hlt2 a h; omega
      subst hab
      congr 1
      apply ih h1.2 h2.2
      intro x
      constructor
      · intro hx
        rcases List.mem_cons.mp ((hm x).mp (List.mem_cons_of_mem _ hx)) with h | h
        · subst h; have := hlt1 x hx; omega
        · exact h
      · intro hx
        rcases List.mem_cons.mp ((hm x).mpr (List.mem_cons_of_mem _ hx)) with h | h
        · subst h; have := hlt2 x hx; omega
        · exact h

/-- a snapshot under the invariant is determined by its per-message entries -/
theorem ext_look {s1 s2 : Snap} (h1 : Inv s1) (h2 : Inv s2) (h : ∀ a, s1.look a = s2.look a) : s1 = s2 := by
  apply eq_of_sorted_mem h1.asc h2.asc
  intro x
  constructor
  · intro hx
    have := look_unique h1.nodup hx
    rw [h] at this
    exact mem_of_look this
  · intro hx
    have := look_unique h2.nodup hx
    rw [← h] at this
    exact mem_of_look this

end Snap

/-- a successful EXISTS of a new message is a sorted insertion, whoever created it -/
theorem snapStep_exists_ins {sid : StateId} {s s' : Snap} (hasc : s.uids.Pairwise (· < ·)) {id : MsgId} {uid : UID}
    {fl : Flags} {t : StateId} {o : Option StateId} (hno : s.has id = false)
    (h : snapStep sid s (.exists id uid fl t o) = .ok s') :
    s' = Snap.ins (Snap.mkMsg id uid (exFlags sid t fl)) s := by
  simp only [snapStep, hno, Bool.false_eq_true, if_false] at h
  split at h
  · obtain ⟨rfl, hlt⟩ := Snap.insert_ok hasc h
    rw [Snap.ins_at_end]
    simpa [Snap.mkMsg] using hlt
  · exact (Snap.insertOutOfOrder_ok h).1

/-- every responder changes the entry of its own message only, as `stepId` says -/
theorem look_snapStep {sid : StateId} {s s' : Snap} {r : Responder} (hinv : Snap.Inv s)
    (h : snapStep sid s r = .ok s') (a : MsgId) : s'.look a = stepId sid a (s.look a) r := by
  cases r with
  | «exists» id uid fl t o =>
    by_cases hh : s.has id = true
    · simp only [snapStep, hh, if_true, Except.ok.injEq] at h
      subst h
      simp only [stepId]
      split
      · next hia =>
        subst hia
        cases hl : s.look id with
        | none => rw [Snap.look_eq_none_iff] at hl; rw [hl] at hh; cases hh
        | some m => rfl
      · rfl
    · have hno : s.has id = false := by simpa using hh
      have := snapStep_exists_ins hinv.asc hno h
      subst this
      rw [Snap.look_ins (by simpa [Snap.mkMsg] using hno)]
      simp only [stepId, Snap.mkMsg]
      by_cases hia : id = a
      · subst hia
        simp [Snap.look_eq_none_iff.mpr hno]
      · simp [hia]
  | expunge id =>
    simp only [snapStep, Except.ok.injEq] at h
    subst h
    rw [Snap.look_eraseP hinv.nodup]
    rfl
  | fetch id fl op x y other =>
    rw [snapStep_fetch_map hinv] at h
    simp only [Except.ok.injEq] at h
    subst h
    rw [Snap.look_map_upd s id a (fetchUpd op fl other) (fun _ => rfl)]
    rfl

theorem look_run {sid : StateId} {s s' : Snap} {rs : List Responder} (hinv : Snap.Inv s)
    (h : run sid s rs = some s') (a : MsgId) : s'.look a = rs.foldl (stepId sid a) (s.look a) := by
  induction rs generalizing s with
  | nil => simp only [run, Option.some.injEq] at h; subst h; rfl
  | cons r rs ih =>
    simp only [run] at h
    cases hs : snapStep sid s r with
    | error e => simp [hs] at h
    | ok s1 =>
      simp only [hs] at h
      rw [List.foldl_cons, ← look_snapStep hinv hs a]
      exact ih (snapStep_inv hinv hs) h

end Gluon
