/-
Lemmas for C08/C03 `chunk_faithful`, part 2: every chunk-loop body of `Model/DB.lean`, on a call
site of the expected shape, is the corresponding un-chunked step of `Spec/DBSpec.lean` applied to
the chunk; and those steps are additive.
-/
import GluonModel.Lemmas.DBChunk

namespace Gluon.DB

/-! ### evaluating a site of the expected shape -/

theorem good_size {S : Sites} {fn : String} (h : S.good fn = true) : 0 < (S.site fn).size S.limit := by
  simp [Sites.good] at h; exact h.1.1.1

theorem good_stmts {S : Sites} {fn : String} (h : S.good fn = true) : (S.site fn).stmts = expectedStmts fn := by
  simp [Sites.good] at h; exact h.2

theorem stmt0 {site : ChunkSite} {a : ChunkStmt} {l : List ChunkStmt} (h : site.stmts = a :: l) : site.stmt 0 = a := by
  simp [ChunkSite.stmt, h]

theorem stmt1 {site : ChunkSite} {a b : ChunkStmt} {l : List ChunkStmt} (h : site.stmts = a :: b :: l) : site.stmt 1 = b := by
  simp [ChunkSite.stmt, h]

theorem bindN_exact (args : List Bind) (n : Nat) (h : args.length = n) : bindN (some n) args = .ok args := by
  subst h; simp [bindN]

theorem bind_inList {α : Type} (c w : List α) (extra : List (String × Nat)) (args : List Bind) (h : args.length = c.length) :
    bindStmt Shape.inList c w extra args = .ok args := by
  unfold bindStmt
  have : Shape.inList.ph.eval (siteEnv c w extra) = some c.length := by
    simp [Shape.inList, Poly.eval, Mono.eval, siteEnv]
  rw [this]; exact bindN_exact _ _ h

theorem bind_inList1 {α : Type} (c w : List α) (extra : List (String × Nat)) (args : List Bind) (h : args.length = c.length + 1) :
    bindStmt Shape.inList1 c w extra args = .ok args := by
  unfold bindStmt
  have : Shape.inList1.ph.eval (siteEnv c w extra) = some (c.length + 1) := by
    simp [Shape.inList1, Poly.eval, Mono.eval, siteEnv]; omega
  rw [this]; exact bindN_exact _ _ h

theorem bind_tuples {α : Type} (k : Nat) (c w : List α) (extra : List (String × Nat)) (args : List Bind) (h : args.length = k * c.length) :
    bindStmt (Shape.tuples k) c w extra args = .ok args := by
  unfold bindStmt
  have : (Shape.tuples k).ph.eval (siteEnv c w extra) = some (k * c.length) := by
    simp [Shape.tuples, Poly.eval, Mono.eval, siteEnv]
  rw [this]; exact bindN_exact _ _ h

@[simp] theorem pick_inList {α : Type} (c w : List α) : pick Shape.inList c w = .ok c := rfl
@[simp] theorem pick_inList1 {α : Type} (c w : List α) : pick Shape.inList1 c w = .ok c := rfl
@[simp] theorem pick_tuples {α : Type} (k : Nat) (c w : List α) : pick (Shape.tuples k) c w = .ok c := rfl

@[simp] theorem contains_map_msg (c : List MessageId) (x : MessageId) : (c.map Bind.msg).contains (Bind.msg x) = c.contains x := by
  induction c with
  | nil => rfl
  | cons a t ih => simp

@[simp] theorem contains_map_str (c : List String) (x : String) : (c.map Bind.str).contains (Bind.str x) = c.contains x := by
  induction c with
  | nil => rfl
  | cons a t ih => simp

open Spec

theorem table?_setTable (db : DB) (mb : MailboxId) (t t' : MTable) (h : db.table? mb = some t) :
    (db.setTable mb t').table? mb = some t' := by
  unfold DB.table? DB.setTable at *
  simp only
  generalize db.mtables = l at h
  induction l with
  | nil => simp [List.lookup] at h
  | cons p rest ih =>
    obtain ⟨k, v⟩ := p
    simp only [List.map_cons, List.lookup_cons] at h ⊢
    by_cases hk : mb = k
    · subst hk; simp
    · have hk' : (mb == k) = false := by simpa using hk
      have hk2 : (k == mb) = false := by simpa using (fun h => hk h.symm)
      simp only [hk', hk2] at h ⊢
      simp only [Bool.false_eq_true, ↓reduceIte, List.lookup_cons, hk']
      exact ih h

theorem getTable_ok {db : DB} {mb : MailboxId} {t : MTable} (h : db.getTable mb = .ok t) : db.table? mb = some t := by
  unfold DB.getTable at h; split at h <;> simp_all

theorem getTable_setTable (db : DB) (mb : MailboxId) (t t' : MTable) (h : db.getTable mb = .ok t) :
    (db.setTable mb t').getTable mb = .ok t' := by
  unfold DB.getTable; rw [table?_setTable db mb t t' (getTable_ok h)]

theorem setTable_setTable (db : DB) (mb : MailboxId) (t t' : MTable) :
    (db.setTable mb t).setTable mb t' = db.setTable mb t' := by
  unfold DB.setTable
  simp only [List.map_map]
  congr 1
  apply List.map_congr_left
  intro p _
  by_cases h : p.1 = mb <;> simp [h]

@[simp] theorem beq_mbox (a b : MailboxId) : (Bind.mbox a == Bind.mbox b) = (a == b) := by
  by_cases h : a = b
  · subst h; simp
  · have : Bind.mbox a ≠ Bind.mbox b := by intro h'; exact h (Bind.mbox.inj h')
    rw [beq_eq_false_iff_ne.mpr h, beq_eq_false_iff_ne.mpr this]
@[simp] theorem beq_str (a b : String) : (Bind.str a == Bind.str b) = (a == b) := by
  by_cases h : a = b
  · subst h; simp
  · have : Bind.str a ≠ Bind.str b := by intro h'; exact h (Bind.str.inj h')
    rw [beq_eq_false_iff_ne.mpr h, beq_eq_false_iff_ne.mpr this]

theorem removeMessagesChunk_good (site : ChunkSite) (hs : site.stmts = [Shape.inList, Shape.inList1])
    (mb : MailboxId) (ids c : List MessageId) (db : DB) :
    removeMessagesChunk site mb ids c db = removeStep mb c db := by
  unfold removeMessagesChunk removeStep
  rw [stmt0 hs, stmt1 hs]
  cases hg : db.getTable mb with
  | error e => rfl
  | ok t =>
    simp only [bind, Except.bind, pick_inList, pick_inList1]
    rw [bind_inList c ids [] _ (by simp), bind_inList1 c ids [] _ (by simp)]
    simp [pure, Except.pure]
    congr 1; funext p; rw [Bool.beq_comm (a := mb)]

theorem removeStep_append (mb : MailboxId) (a b : List MessageId) (db : DB) :
    removeStep mb (a ++ b) db = removeStep mb a db >>= removeStep mb b := by
  unfold removeStep
  cases hg : db.getTable mb with
  | error e => rfl
  | ok t =>
    simp only [bind, Except.bind, pure, Except.pure]
    have h2 : ({ db.setTable mb { rows := List.filter (fun r => !a.contains r.msgId) t.rows, seq := t.seq } with
          m2m := List.filter (fun p => !(a.contains p.1 && p.2 == mb)) (db.setTable mb { rows := List.filter (fun r => !a.contains r.msgId) t.rows, seq := t.seq }).m2m } : DB).getTable mb
        = .ok { rows := List.filter (fun r => !a.contains r.msgId) t.rows, seq := t.seq } := by
      have := getTable_setTable db mb t { rows := List.filter (fun r => !a.contains r.msgId) t.rows, seq := t.seq } hg
      simpa [DB.getTable, DB.table?, DB.setTable] using this
    rw [h2]
    simp only [DB.setTable, List.map_map, List.filter_filter]
    have e1 : ∀ x : MessageId, (!(a ++ b).contains x) = (!b.contains x && !a.contains x) := by
      intro x; rw [List.contains_eq_mem, List.contains_eq_mem, List.contains_eq_mem]
      by_cases ha : x ∈ a <;> by_cases hb : x ∈ b <;> simp [ha, hb]
    congr 2
    · apply List.map_congr_left
      intro p _
      by_cases hp : (p.1 == mb) = true
      · simp only [Function.comp, hp, if_true, BEq.rfl]
        congr 2; apply List.filter_congr; intro r _; exact e1 r.msgId
      · simp [Function.comp, hp]
    · apply List.filter_congr
      intro p _
      have := e1 p.1
      by_cases ha : a.contains p.1 <;> by_cases hb : b.contains p.1 <;> by_cases hm : p.2 == mb <;> simp_all


theorem removeMessages_faithful (S : Sites) (h : S.good "RemoveMessagesFromMailbox" = true)
    (mb : MailboxId) (ids : List MessageId) (db : DB) :
    removeMessagesFromMailbox S mb ids db = Spec.removeMessagesFromMailbox mb ids db := by
  have hs := good_stmts h
  unfold removeMessagesFromMailbox Spec.removeMessagesFromMailbox
  exact chunkedTx_eq _ (good_size h) ids _ (removeStep mb)
    (fun c db => removeMessagesChunk_good _ hs mb ids c db)
    (fun a b s _ _ => removeStep_append mb a b s) db

-- setMailboxMessagesDeletedFlag
theorem setDeletedChunk_good (site : ChunkSite) (hs : site.stmts = [Shape.inList1])
    (mb : MailboxId) (d : Bool) (ids c : List MessageId) (db : DB) :
    setDeletedChunk site mb d ids c db = setDeletedStep mb d c db := by
  unfold setDeletedChunk setDeletedStep
  rw [stmt0 hs]
  cases hg : db.getTable mb with
  | error e => rfl
  | ok t =>
    simp only [bind, Except.bind, pick_inList1]
    rw [bind_inList1 c ids [] _ (by simp)]
    simp [pure, Except.pure]

theorem setDeletedStep_append (mb : MailboxId) (d : Bool) (a b : List MessageId) (db : DB) :
    setDeletedStep mb d (a ++ b) db = setDeletedStep mb d a db >>= setDeletedStep mb d b := by
  unfold setDeletedStep
  cases hg : db.getTable mb with
  | error e => rfl
  | ok t =>
    simp only [bind, Except.bind, pure, Except.pure]
    rw [getTable_setTable db mb t _ hg]
    simp only [setTable_setTable, List.map_map]
    congr 3
    apply List.map_congr_left
    intro r _
    simp only [Function.comp]
    rw [List.contains_eq_mem, List.contains_eq_mem, List.contains_eq_mem]
    by_cases ha : r.msgId ∈ a <;> by_cases hb : r.msgId ∈ b <;> simp [ha, hb]

theorem setDeleted_faithful (S : Sites) (h : S.good "SetMailboxMessagesDeletedFlag" = true)
    (mb : MailboxId) (ids : List MessageId) (d : Bool) (db : DB) :
    setMailboxMessagesDeletedFlag S mb ids d db = Spec.setMailboxMessagesDeletedFlag mb ids d db := by
  have hs := good_stmts h
  unfold setMailboxMessagesDeletedFlag Spec.setMailboxMessagesDeletedFlag
  exact chunkedTx_eq _ (good_size h) ids _ (setDeletedStep mb d)
    (fun c db => setDeletedChunk_good _ hs mb d ids c db)
    (fun a b s _ _ => setDeletedStep_append mb d a b s) db

-- removeFlagFromMessages
theorem removeFlagChunk_good (site : ChunkSite) (hs : site.stmts = [Shape.inList1])
    (flag : FlagVal) (ids c : List MessageId) (db : DB) :
    removeFlagChunk site flag ids c db = removeFlagStep flag c db := by
  unfold removeFlagChunk removeFlagStep
  rw [stmt0 hs]
  simp only [bind, Except.bind, pick_inList1]
  rw [bind_inList1 c ids [] _ (by simp)]
  simp [pure, Except.pure, nocaseEq]

theorem removeFlagStep_append (flag : FlagVal) (a b : List MessageId) (db : DB) :
    removeFlagStep flag (a ++ b) db = removeFlagStep flag a db >>= removeFlagStep flag b := by
  unfold removeFlagStep
  simp only [bind, Except.bind, List.filter_filter]
  congr 2
  apply List.filter_congr
  intro p _
  rw [List.contains_eq_mem, List.contains_eq_mem, List.contains_eq_mem]
  by_cases ha : p.1 ∈ a <;> by_cases hb : p.1 ∈ b <;> by_cases hf : p.2.toLower == flag.toLower <;> simp [ha, hb, hf]

theorem removeFlag_faithful (S : Sites) (h : S.good "RemoveFlagFromMessages" = true)
    (ids : List MessageId) (flag : FlagVal) (db : DB) :
    removeFlagFromMessages S ids flag db = Spec.removeFlagFromMessages ids flag db := by
  have hs := good_stmts h
  unfold removeFlagFromMessages Spec.removeFlagFromMessages
  exact chunkedTx_eq _ (good_size h) ids _ (removeFlagStep flag)
    (fun c db => removeFlagChunk_good _ hs flag ids c db)
    (fun a b s _ _ => removeFlagStep_append flag a b s) db



theorem gone_contains (msgs : List MsgRow) (ids : List MessageId) (x : MessageId) :
    ((msgs.filter fun r => ids.contains r.id).map (·.id)).contains x = (msgs.any (·.id == x) && ids.contains x) := by
  rw [Bool.eq_iff_iff]
  simp only [List.contains_eq_mem, List.mem_map, List.mem_filter, List.any_eq_true, Bool.and_eq_true,
    decide_eq_true_eq, beq_iff_eq]
  constructor
  · rintro ⟨r, ⟨hr, hi⟩, rfl⟩; exact ⟨⟨r, hr, rfl⟩, hi⟩
  · rintro ⟨⟨r, hr, rfl⟩, hi⟩; exact ⟨r, ⟨hr, hi⟩, rfl⟩

theorem deleteMessagesChunk_good (site : ChunkSite) (hs : site.stmts = [Shape.inList])
    (ids c : List MessageId) (db : DB) :
    deleteMessagesChunk site ids c db = deleteStep c db := by
  unfold deleteMessagesChunk deleteStep
  rw [stmt0 hs]
  simp only [bind, Except.bind, pick_inList]
  rw [bind_inList c ids [] _ (by simp)]
  simp only [contains_map_msg]


/-- some row of some `mailbox_message_<id>` table references a message satisfying `p` -/
def refd (db : DB) (p : MessageId → Bool) : Bool := db.mtables.any fun t => t.2.rows.any fun r => p r.msgId

/-- state after `DELETE FROM messages_v2 WHERE id IN ids` (with cascades) -/
def delState (ids : List MessageId) (db : DB) : DB :=
  { db with
    messages := db.messages.filter fun r => !ids.contains r.id
    msgFlags := db.msgFlags.filter fun p => !(db.hasMessage p.1 && ids.contains p.1)
    m2m := db.m2m.filter fun p => !(db.hasMessage p.1 && ids.contains p.1) }

theorem deleteStep_eq (ids : List MessageId) (db : DB) :
    deleteStep ids db =
      if refd db (fun x => db.hasMessage x && ids.contains x) then .error .notNull else .ok (delState ids db) := by
  unfold deleteStep refd delState
  simp only [gone_contains, DB.hasMessage]
  by_cases hc : (db.mtables.any fun p => p.snd.rows.any fun r => (db.messages.any fun x => x.id == r.msgId) && ids.contains r.msgId) = true
  · simp only [hc, if_true]
  · simp only [hc]
    have : List.filter (fun r => !((db.messages.any fun x => x.id == r.id) && ids.contains r.id)) db.messages
        = List.filter (fun r => !ids.contains r.id) db.messages := by
      apply List.filter_congr
      intro r hr
      have : db.messages.any (fun x => x.id == r.id) = true := List.any_eq_true.mpr ⟨r, hr, by simp⟩
      simp [this]
    rw [this]

theorem refd_congr (db : DB) (p q : MessageId → Bool)
    (h : ∀ t ∈ db.mtables, ∀ r ∈ t.2.rows, p r.msgId = q r.msgId) : refd db p = refd db q := by
  unfold refd
  rw [Bool.eq_iff_iff]
  simp only [List.any_eq_true]
  constructor
  · rintro ⟨t, ht, r, hr, hp⟩; exact ⟨t, ht, r, hr, by rw [← h t ht r hr]; exact hp⟩
  · rintro ⟨t, ht, r, hr, hp⟩; exact ⟨t, ht, r, hr, by rw [h t ht r hr]; exact hp⟩

theorem refd_false (db : DB) (p : MessageId → Bool) (h : refd db p = false) :
    ∀ t ∈ db.mtables, ∀ r ∈ t.2.rows, p r.msgId = false := by
  intro t ht r hr
  unfold refd at h
  have h1 := List.any_eq_false.mp h t ht
  have h2 := List.any_eq_false.mp (by simpa using h1) r hr
  simpa using h2

theorem refd_or (db : DB) (p q : MessageId → Bool) : refd db (fun x => p x || q x) = (refd db p || refd db q) := by
  unfold refd
  rw [Bool.eq_iff_iff]
  simp only [List.any_eq_true, Bool.or_eq_true]
  constructor
  · rintro ⟨t, ht, r, hr, h | h⟩
    · exact Or.inl ⟨t, ht, r, hr, h⟩
    · exact Or.inr ⟨t, ht, r, hr, h⟩
  · rintro (⟨t, ht, r, hr, h⟩ | ⟨t, ht, r, hr, h⟩)
    · exact ⟨t, ht, r, hr, Or.inl h⟩
    · exact ⟨t, ht, r, hr, Or.inr h⟩

theorem delState_hasMessage (a : List MessageId) (db : DB) (x : MessageId) :
    (delState a db).hasMessage x = (db.hasMessage x && !a.contains x) := by
  rw [Bool.eq_iff_iff]
  simp only [delState, DB.hasMessage, List.any_eq_true, List.mem_filter, Bool.and_eq_true, beq_iff_eq, Bool.not_eq_true']
  constructor
  · rintro ⟨r, ⟨hr, hn⟩, rfl⟩; exact ⟨⟨r, hr, rfl⟩, hn⟩
  · rintro ⟨⟨r, hr, rfl⟩, hn⟩; exact ⟨r, ⟨hr, hn⟩, rfl⟩

theorem delState_delState (a b : List MessageId) (db : DB) : delState b (delState a db) = delState (a ++ b) db := by
  have hh := delState_hasMessage a db
  unfold delState at hh ⊢
  simp only [hh, List.filter_filter]
  congr 1
  · apply List.filter_congr; intro r _
    rw [List.contains_eq_mem, List.contains_eq_mem, List.contains_eq_mem]
    by_cases ha : r.id ∈ a <;> by_cases hb : r.id ∈ b <;> simp [ha, hb]
  · apply List.filter_congr; intro p _
    rw [List.contains_eq_mem, List.contains_eq_mem, List.contains_eq_mem]
    by_cases ha : p.1 ∈ a <;> by_cases hb : p.1 ∈ b <;> cases db.hasMessage p.1 <;> simp [ha, hb]
  · apply List.filter_congr; intro p _
    rw [List.contains_eq_mem, List.contains_eq_mem, List.contains_eq_mem]
    by_cases ha : p.1 ∈ a <;> by_cases hb : p.1 ∈ b <;> cases db.hasMessage p.1 <;> simp [ha, hb]

theorem deleteStep_append (a b : List MessageId) (db : DB) :
    deleteStep (a ++ b) db = deleteStep a db >>= deleteStep b := by
  rw [deleteStep_eq, deleteStep_eq]
  have hor : refd db (fun x => db.hasMessage x && (a ++ b).contains x)
      = (refd db (fun x => db.hasMessage x && a.contains x) || refd db (fun x => db.hasMessage x && b.contains x)) := by
    rw [← refd_or]; apply refd_congr; intro t _ r _
    rw [List.contains_eq_mem, List.contains_eq_mem, List.contains_eq_mem]
    by_cases ha : r.msgId ∈ a <;> by_cases hb : r.msgId ∈ b <;> simp [ha, hb]
  rw [hor]
  cases hA : refd db (fun x => db.hasMessage x && a.contains x) with
  | true => simp [bind, Except.bind]
  | false =>
    simp only [Bool.false_or, bind, Except.bind, Bool.false_eq_true, if_false]
    rw [deleteStep_eq, delState_delState]
    have hB : refd (delState a db) (fun x => (delState a db).hasMessage x && b.contains x)
        = refd db (fun x => db.hasMessage x && b.contains x) := by
      have : refd (delState a db) (fun x => (delState a db).hasMessage x && b.contains x)
          = refd db (fun x => (delState a db).hasMessage x && b.contains x) := rfl
      rw [this]
      apply refd_congr
      intro t ht r hr
      rw [delState_hasMessage]
      have := refd_false db _ hA t ht r hr
      cases h1 : db.hasMessage r.msgId <;> cases h2 : a.contains r.msgId <;> simp_all
    rw [hB]

theorem deleteMessages_faithful (S : Sites) (h : S.good "DeleteMessages" = true) (ids : List MessageId) (db : DB) :
    deleteMessages S ids db = Spec.deleteMessages ids db := by
  have hs := good_stmts h
  unfold deleteMessages Spec.deleteMessages
  exact chunkedTx_eq _ (good_size h) ids _ deleteStep
    (fun c db => deleteMessagesChunk_good _ hs ids c db)
    (fun a b s _ _ => deleteStep_append a b s) db



theorem pairs_flatMap2 {α β : Type} (c : List α) (f g : α → β) :
    pairs (c.flatMap fun x => [f x, g x]) = c.map fun x => (f x, g x) := by
  induction c with
  | nil => rfl
  | cons a t ih => simp [List.flatMap_cons, pairs, ih]

theorem decodeMsgStr_map {α : Type} (c : List α) (f : α → MessageId) (g : α → String) :
    decodeMsgStr (c.map fun x => (Bind.msg (f x), Bind.str (g x))) = some (c.map fun x => (f x, g x)) := by
  induction c with
  | nil => rfl
  | cons a t ih => simp [decodeMsgStr, ih]

theorem decodeMsgMbox_map {α : Type} (c : List α) (f : α → MessageId) (g : α → MailboxId) :
    decodeMsgMbox (c.map fun x => (Bind.msg (f x), Bind.mbox (g x))) = some (c.map fun x => (f x, g x)) := by
  induction c with
  | nil => rfl
  | cons a t ih => simp [decodeMsgMbox, ih]

theorem appendKeys_append {α : Type} [BEq α] (o : Bool) (l1 l2 : List α) :
    ∀ rel : List α, appendKeys o rel (l1 ++ l2) = appendKeys o rel l1 >>= fun r => appendKeys o r l2 := by
  induction l1 with
  | nil => intro rel; rfl
  | cons k t ih =>
    intro rel
    simp only [List.cons_append, appendKeys]
    by_cases hk : rel.contains k = true
    · cases o with
      | true => simp only [hk, if_true]; exact ih rel
      | false => simp [hk, bind, Except.bind]
    · simp only [hk]; exact ih _

theorem appendKeys_true_ok {α : Type} [BEq α] (l : List α) :
    ∀ rel : List α, ∃ r, appendKeys true rel l = .ok r := by
  induction l with
  | nil => intro rel; exact ⟨rel, rfl⟩
  | cons k t ih =>
    intro rel
    simp only [appendKeys]
    by_cases hk : rel.contains k = true
    · simp only [hk, if_true]; exact ih rel
    · simp only [hk]; exact ih _

theorem length_flatMap_const {α β : Type} (k : Nat) (f : α → List β) (hf : ∀ x, (f x).length = k) (c : List α) :
    (c.flatMap f).length = k * c.length := by
  induction c with
  | nil => simp
  | cons a t ih => simp [List.flatMap_cons, ih, hf, Nat.mul_add]; omega

theorem insertMsgFlags_typed {α : Type} (o : Bool) (db : DB) (l : List α) (f : α → MessageId) (g : α → String) :
    insertMsgFlags o db (l.flatMap fun x => [Bind.msg (f x), Bind.str (g x)]) =
      (appendKeys o db.msgFlags (l.map fun x => (f x, g x))) >>= fun rel =>
        if l.any (fun x => !db.hasMessage (f x)) then .error .fk else .ok { db with msgFlags := rel } := by
  unfold insertMsgFlags
  rw [pairs_flatMap2, decodeMsgStr_map]
  simp only [List.any_map]
  rfl

theorem addFlagChunk_good (site : ChunkSite) (hs : site.stmts = [Shape.tuples 2])
    (flag : FlagVal) (ids c : List MessageId) (db : DB) :
    addFlagChunk site flag ids c db = addFlagStep flag c db := by
  unfold addFlagChunk addFlagStep
  rw [stmt0 hs]
  simp only [bind, Except.bind, pick_tuples]
  rw [bind_tuples 2 c ids [] _ (length_flatMap_const 2 _ (fun _ => rfl) c)]
  have := insertMsgFlags_typed true db c id (fun _ => flag)
  simp only [id, bind, Except.bind] at this
  exact this

theorem addFlagStep_append (flag : FlagVal) (a b : List MessageId) (db : DB) :
    addFlagStep flag (a ++ b) db = addFlagStep flag a db >>= addFlagStep flag b := by
  unfold addFlagStep
  rw [List.map_append, appendKeys_append, List.any_append]
  obtain ⟨r1, h1⟩ := appendKeys_true_ok (a.map fun m => (m, flag)) db.msgFlags
  obtain ⟨r2, h2⟩ := appendKeys_true_ok (b.map fun m => (m, flag)) r1
  simp only [h1, h2, bind, Except.bind]
  cases ha : a.any (fun m => !db.hasMessage m) with
  | true => simp
  | false => simp [h2, DB.hasMessage]

theorem addFlag_faithful (S : Sites) (h : S.good "AddFlagToMessages" = true) (ids : List MessageId) (flag : FlagVal) (db : DB) :
    addFlagToMessages S ids flag db = Spec.addFlagToMessages ids flag db := by
  have hs := good_stmts h
  unfold addFlagToMessages Spec.addFlagToMessages
  exact chunkedTx_eq _ (good_size h) ids _ (addFlagStep flag)
    (fun c db => addFlagChunk_good _ hs flag ids c db)
    (fun a b s _ _ => addFlagStep_append flag a b s) db




theorem appendKeys_true_eq {α : Type} [BEq α] (l : List α) (rel : List α) :
    appendKeys true rel l = .ok (l.foldl (fun r k => if r.contains k then r else r ++ [k]) rel) := by
  induction l generalizing rel with
  | nil => rfl
  | cons k t ih =>
    simp only [appendKeys, List.foldl_cons]
    by_cases hk : rel.contains k = true
    · simp only [hk, if_true]; exact ih rel
    · simp only [hk]; exact ih _

/-- the relation after `INSERT OR IGNORE` of the tuples `l` -/
def orIgnore {α : Type} [BEq α] (rel l : List α) : List α := l.foldl (fun r k => if r.contains k then r else r ++ [k]) rel

theorem orIgnore_filter {α : Type} [BEq α] [LawfulBEq α] (p : α → Bool) (l : List α) (hl : ∀ k ∈ l, p k = true) :
    ∀ rel : List α, (orIgnore rel l).filter p = orIgnore (rel.filter p) l := by
  induction l with
  | nil => intro rel; rfl
  | cons k t ih =>
    intro rel
    have hk : p k = true := hl k (by simp)
    have ht : ∀ x ∈ t, p x = true := fun x hx => hl x (by simp [hx])
    simp only [orIgnore, List.foldl_cons] at ih ⊢
    have hc : (rel.filter p).contains k = rel.contains k := by
      rw [Bool.eq_iff_iff]; simp [List.mem_filter, hk]
    rw [hc]
    by_cases hr : rel.contains k = true
    · simp only [hr, if_true]; exact ih ht rel
    · have hr' : rel.contains k = false := by simpa using hr
      simp only [hr', Bool.false_eq_true, if_false]
      have := ih ht (rel ++ [k])
      rw [this, List.filter_append]
      simp [hk]


theorem orIgnore_append {α : Type} [BEq α] (rel l1 l2 : List α) : orIgnore rel (l1 ++ l2) = orIgnore (orIgnore rel l1) l2 := by
  simp [orIgnore, List.foldl_append]

/-- `ids × flags` as `(message_id, value)` tuples, in the order the code builds them -/
def prodFlags (ids : List MessageId) (flags : List FlagVal) : List (MessageId × FlagVal) :=
  ids.flatMap fun m => flags.map fun f => (m, f)

def keptPred (ids : List MessageId) (flags : List FlagVal) (p : MessageId × FlagVal) : Bool :=
  !(ids.contains p.1 && !flags.contains p.2)

theorem setFlagsStep_eq (flags : List FlagVal) (ids : List MessageId) (db : DB) :
    setFlagsStep flags ids db =
      if (!flags.isEmpty && ids.any (fun m => !db.hasMessage m)) then .error .fk
      else .ok { db with msgFlags := orIgnore (db.msgFlags.filter (keptPred ids flags)) (prodFlags ids flags) } := by
  unfold setFlagsStep
  simp only [appendKeys_true_eq, bind, Except.bind]
  rfl

theorem keptPred_prod (b : List MessageId) (flags : List FlagVal) (a : List MessageId) :
    ∀ k ∈ prodFlags a flags, keptPred b flags k = true := by
  intro k hk
  simp only [prodFlags, List.mem_flatMap, List.mem_map] at hk
  obtain ⟨m, _, f, hf, rfl⟩ := hk
  simp [keptPred, hf]

theorem setFlagsStep_append (flags : List FlagVal) (a b : List MessageId) (db : DB) :
    setFlagsStep flags (a ++ b) db = setFlagsStep flags a db >>= setFlagsStep flags b := by
  rw [setFlagsStep_eq, setFlagsStep_eq]
  rw [List.any_append, Bool.and_or_distrib_left]
  cases ha : (!flags.isEmpty && a.any fun m => !db.hasMessage m) with
  | true => simp [bind, Except.bind]
  | false =>
    simp only [Bool.false_or, Bool.false_eq_true, if_false, bind, Except.bind]
    rw [setFlagsStep_eq]
    have hm : ∀ m, ({ db with msgFlags := orIgnore (db.msgFlags.filter (keptPred a flags)) (prodFlags a flags) } : DB).hasMessage m = db.hasMessage m := fun _ => rfl
    simp only [hm]
    have hp : prodFlags (a ++ b) flags = prodFlags a flags ++ prodFlags b flags := by simp [prodFlags]
    rw [hp, orIgnore_append, orIgnore_filter _ _ (keptPred_prod b flags a), List.filter_filter]
    have hf : db.msgFlags.filter (keptPred (a ++ b) flags) = db.msgFlags.filter (fun x => keptPred b flags x && keptPred a flags x) := by
      apply List.filter_congr; intro p _
      simp only [keptPred]
      rw [List.contains_eq_mem, List.contains_eq_mem, List.contains_eq_mem]
      by_cases h1 : p.1 ∈ a <;> by_cases h2 : p.1 ∈ b <;> cases flags.contains p.2 <;> simp [h1, h2]
    rw [hf]



theorem bind_setFlagsDelete {α : Type} (c w : List α) (nf : Nat) (args : List Bind) (h : args.length = c.length + nf) :
    bindStmt Shape.setFlagsDelete c w [("flagSlice", nf)] args = .ok args := by
  unfold bindStmt
  have : Shape.setFlagsDelete.ph.eval (siteEnv c w [("flagSlice", nf)]) = some (c.length + nf) := by
    simp [Shape.setFlagsDelete, Poly.eval, Mono.eval, siteEnv, List.lookup]
  rw [this]; exact bindN_exact _ _ h

theorem bind_setFlagsInsert {α : Type} (c w : List α) (nf : Nat) (args : List Bind) (h : args.length = 2 * (c.length * nf)) :
    bindStmt Shape.setFlagsInsert c w [("flagSlice", nf)] args = .ok args := by
  unfold bindStmt
  have : Shape.setFlagsInsert.ph.eval (siteEnv c w [("flagSlice", nf)]) = some (2 * (c.length * nf)) := by
    simp [Shape.setFlagsInsert, Poly.eval, Mono.eval, siteEnv, List.lookup, Nat.mul_assoc]
  rw [this]; exact bindN_exact _ _ h

@[simp] theorem pick_setFlagsDelete {α : Type} (c w : List α) : pick Shape.setFlagsDelete c w = .ok c := rfl
@[simp] theorem pick_setFlagsInsert {α : Type} (c w : List α) : pick Shape.setFlagsInsert c w = .ok c := rfl

theorem prodFlags_binds (c : List MessageId) (flags : List FlagVal) :
    (c.flatMap fun m => flags.flatMap fun f => [Bind.msg m, Bind.str f])
      = (prodFlags c flags).flatMap fun p => [Bind.msg p.1, Bind.str p.2] := by
  simp [prodFlags, List.flatMap_assoc, List.flatMap_map]

theorem prodFlags_length (c : List MessageId) (flags : List FlagVal) : (prodFlags c flags).length = c.length * flags.length := by
  induction c with
  | nil => simp [prodFlags]
  | cons a t ih =>
    simp only [prodFlags, List.flatMap_cons, List.length_append, List.length_map] at ih ⊢
    rw [ih, List.length_cons, Nat.succ_mul]; omega

theorem any_const {α : Type} (l : List α) (b : Bool) : l.any (fun _ => b) = (!l.isEmpty && b) := by
  induction l with
  | nil => rfl
  | cons a t ih => cases b <;> simp [ih]

theorem prodFlags_any (c : List MessageId) (flags : List FlagVal) (q : MessageId → Bool) :
    (prodFlags c flags).any (fun x => q x.1) = (!flags.isEmpty && c.any q) := by
  induction c with
  | nil => simp [prodFlags]
  | cons m t ih =>
    have : prodFlags (m :: t) flags = flags.map (fun f => (m, f)) ++ prodFlags t flags := by simp [prodFlags]
    rw [this, List.any_append, ih, List.any_map]
    have : (flags.any ((fun x => q x.1) ∘ fun f => (m, f))) = flags.any (fun _ => q m) := rfl
    rw [this, any_const, List.any_cons]
    cases flags.isEmpty <;> simp

theorem setFlagsChunk_good (site : ChunkSite) (hs : site.stmts = [Shape.setFlagsDelete, Shape.setFlagsInsert])
    (flags : List FlagVal) (ids c : List MessageId) (db : DB) :
    setFlagsChunk site flags ids c db = setFlagsStep flags c db := by
  rw [setFlagsStep_eq]
  unfold setFlagsChunk
  rw [stmt0 hs, stmt1 hs]
  simp only [bind, Except.bind, pick_setFlagsDelete, pick_setFlagsInsert]
  rw [bind_setFlagsDelete c ids flags.length _ (by simp)]
  rw [prodFlags_binds, bind_setFlagsInsert c ids flags.length _ (by
    rw [length_flatMap_const 2 _ (fun _ => rfl), prodFlags_length])]
  simp only []
  have hl : (List.map Bind.msg c ++ List.map Bind.str flags).length - flags.length = c.length := by simp
  rw [hl]
  have h1 : (List.map Bind.msg c ++ List.map Bind.str flags).take c.length = List.map Bind.msg c := by
    exact List.take_left' (by simp)
  have h2 : (List.map Bind.msg c ++ List.map Bind.str flags).drop c.length = List.map Bind.str flags := by
    exact List.drop_left' (by simp)
  rw [h1, h2]
  simp only [contains_map_msg, contains_map_str]
  have := insertMsgFlags_typed true
    { db with msgFlags := db.msgFlags.filter fun p => !(c.contains p.1 && !flags.contains p.2) }
    (prodFlags c flags) (·.1) (·.2)
  simp only [bind, Except.bind, appendKeys_true_eq] at this
  rw [this]
  have hany := prodFlags_any c flags (fun m => !db.hasMessage m)
  have hmap : List.map (fun x : MessageId × FlagVal => (x.fst, x.snd)) (prodFlags c flags) = prodFlags c flags := by simp
  simp only [DB.hasMessage] at hany ⊢
  simp only [hany, hmap]
  rfl



theorem setFlags_faithful (S : Sites) (h : S.good "SetFlagsOnMessages" = true) (ids : List MessageId)
    (flags : List FlagVal) (hflags : flags ≠ []) (db : DB) :
    setFlagsOnMessages S ids flags db = Spec.setFlagsOnMessages ids flags db := by
  have hs := good_stmts h
  unfold setFlagsOnMessages Spec.setFlagsOnMessages
  have he : flags.isEmpty = false := by simpa using hflags
  simp only [he, Bool.false_eq_true, if_false]
  exact chunkedTx_eq _ (good_size h) ids _ (setFlagsStep flags)
    (fun c db => setFlagsChunk_good _ hs flags ids c db)
    (fun a b s _ _ => setFlagsStep_append flags a b s) db

/-! ### chunked reads -/

/-- same outcome, and on success the same *set* of rows (SQL does not order these results) -/
def SameSet {α : Type} (a b : Except DbErr (List α)) : Prop :=
  match a, b with
  | .ok l1, .ok l2 => ∀ x, x ∈ l1 ↔ x ∈ l2
  | .error _, .error _ => True
  | _, _ => False

theorem foldlM_collect {α β : Type} (g : List α → List β) (cs : List (List α)) :
    ∀ acc : List β, cs.foldlM (fun acc c => (Except.ok (acc ++ g c) : Except DbErr (List β))) acc = .ok (acc ++ cs.flatMap g) := by
  induction cs with
  | nil => intro acc; simp [pure, Except.pure]
  | cons c rest ih =>
    intro acc
    simp only [List.foldlM_cons, bind, Except.bind, List.flatMap_cons]
    rw [ih]; simp

theorem mem_chunks_flatMap {α β : Type} (n : Nat) (hn : 0 < n) (xs : List α) (sel : List α → List β)
    (P : α → β → Prop) (hsel : ∀ c y, y ∈ sel c ↔ ∃ k ∈ c, P k y) (y : β) :
    y ∈ (chunk n xs).flatMap sel ↔ y ∈ sel xs := by
  rw [List.mem_flatMap, hsel]
  constructor
  · rintro ⟨c, hc, hy⟩
    obtain ⟨k, hk, hp⟩ := (hsel c y).mp hy
    refine ⟨k, ?_, hp⟩
    rw [← chunk_flatten n hn xs]; exact List.mem_flatten.mpr ⟨c, hc, hk⟩
  · rintro ⟨k, hk, hp⟩
    rw [← chunk_flatten n hn xs] at hk
    obtain ⟨c, hc, hkc⟩ := List.mem_flatten.mp hk
    exact ⟨c, hc, (hsel c y).mpr ⟨k, hkc, hp⟩⟩


theorem translateChunk_good (site : ChunkSite) (hs : site.stmts = [Shape.inList]) (db : DB) (rids c : List RemoteId) (acc : List MailboxId) :
    translateChunk site db rids c acc = .ok (acc ++ (db.mailboxes.filter fun m => c.contains m.remoteId).map (·.id)) := by
  unfold translateChunk
  rw [stmt0 hs]
  simp only [bind, Except.bind, pick_inList]
  rw [bind_inList c rids [] _ (by simp)]
  simp [pure, Except.pure]

theorem translate_faithful (S : Sites) (h : S.good "MailboxTranslateRemoteIDs" = true) (db : DB) (rids : List RemoteId) :
    SameSet (mailboxTranslateRemoteIDs S db rids) (Spec.mailboxTranslateRemoteIDs db rids) := by
  have hs := good_stmts h
  have hn := good_size h
  unfold mailboxTranslateRemoteIDs Spec.mailboxTranslateRemoteIDs
  simp only []
  rw [forChunks_pos _ hn]
  have hb : (fun (s : List MailboxId) (c : List RemoteId) => translateChunk (S.site "MailboxTranslateRemoteIDs") db rids c s)
      = fun acc c => Except.ok (acc ++ (fun c : List RemoteId => (db.mailboxes.filter fun m => c.contains m.remoteId).map (·.id)) c) := by
    funext acc c; exact translateChunk_good _ hs db rids c acc
  rw [hb, foldlM_collect]
  simp only [SameSet, List.nil_append]
  intro x
  exact mem_chunks_flatMap _ hn rids _ (fun k y => ∃ m ∈ db.mailboxes, m.remoteId = k ∧ m.id = y)
    (by
      intro c y
      simp only [List.mem_map, List.mem_filter, List.contains_eq_mem, decide_eq_true_eq]
      constructor
      · rintro ⟨m, ⟨hm, hc⟩, rfl⟩; exact ⟨m.remoteId, hc, m, hm, rfl, rfl⟩
      · rintro ⟨k, hk, m, hm, rfl, rfl⟩; exact ⟨m, ⟨hm, hk⟩, rfl⟩) x

theorem messagesFlagsChunk_good (site : ChunkSite) (hs : site.stmts = [Shape.inList]) (db : DB) (ids c : List MessageId)
    (acc : List (MessageId × RemoteId × List FlagVal)) :
    messagesFlagsChunk site db ids c acc
      = .ok (acc ++ (db.messages.filter fun r => c.contains r.id).map fun r => (r.id, r.remoteId, flagsOf db.msgFlags r.id)) := by
  unfold messagesFlagsChunk
  rw [stmt0 hs]
  simp only [bind, Except.bind, pick_inList]
  rw [bind_inList c ids [] _ (by simp)]
  simp [pure, Except.pure]

theorem messagesFlags_faithful (S : Sites) (h : S.good "GetMessagesFlags" = true) (db : DB) (ids : List MessageId) :
    SameSet (getMessagesFlags S db ids) (Spec.getMessagesFlags db ids) := by
  have hs := good_stmts h
  have hn := good_size h
  unfold getMessagesFlags Spec.getMessagesFlags
  simp only []
  rw [forChunks_pos _ hn]
  have hb : (fun (s : List (MessageId × RemoteId × List FlagVal)) (c : List MessageId) => messagesFlagsChunk (S.site "GetMessagesFlags") db ids c s)
      = fun acc c => Except.ok (acc ++ (fun c : List MessageId =>
          (db.messages.filter fun r => c.contains r.id).map fun r => (r.id, r.remoteId, flagsOf db.msgFlags r.id)) c) := by
    funext acc c; exact messagesFlagsChunk_good _ hs db ids c acc
  rw [hb, foldlM_collect]
  simp only [SameSet, List.nil_append]
  intro x
  exact mem_chunks_flatMap _ hn ids _ (fun k y => ∃ r ∈ db.messages, r.id = k ∧ (r.id, r.remoteId, flagsOf db.msgFlags r.id) = y)
    (by
      intro c y
      simp only [List.mem_map, List.mem_filter, List.contains_eq_mem, decide_eq_true_eq]
      constructor
      · rintro ⟨r, ⟨hr, hc⟩, rfl⟩; exact ⟨r.id, hc, r, hr, rfl, rfl⟩
      · rintro ⟨k, hk, r, hr, rfl, rfl⟩; exact ⟨r, ⟨hr, hk⟩, rfl⟩) x


theorem foldlM_error {α β : Type} (e : DbErr) (cs : List (List α)) (hne : cs ≠ []) (acc : List β) :
    cs.foldlM (fun (_ : List β) (_ : List α) => (Except.error e : Except DbErr (List β))) acc = .error e := by
  cases cs with
  | nil => exact absurd rfl hne
  | cons c rest => simp [List.foldlM_cons, bind, Except.bind]

theorem filterContainsChunk_good (site : ChunkSite) (hs : site.stmts = [Shape.inList]) (db : DB) (mb : MailboxId)
    (ids c : List MessageId) (acc : List MessageId) :
    filterContainsChunk site db mb ids c acc
      = (db.getTable mb).bind fun t => .ok (acc ++ (t.rows.filter fun r => c.contains r.msgId).map (·.msgId)) := by
  unfold filterContainsChunk
  rw [stmt0 hs]
  cases db.getTable mb with
  | error e => rfl
  | ok t =>
    simp only [bind, Except.bind, pick_inList]
    rw [bind_inList c ids [] _ (by simp)]
    simp [pure, Except.pure]

theorem filterContains_faithful (S : Sites) (h : S.good "MailboxFilterContainsInternalID" = true) (db : DB) (mb : MailboxId)
    (pairs : List (MessageId × RemoteId)) :
    SameSet (mailboxFilterContains S db mb pairs) (Spec.mailboxFilterContains db mb pairs) := by
  have hs := good_stmts h
  have hn := good_size h
  unfold mailboxFilterContains mailboxFilterContainsInternalID Spec.mailboxFilterContains
  simp only []
  rw [forChunks_pos _ hn]
  have hb : (fun (s : List MessageId) (c : List MessageId) => filterContainsChunk (S.site "MailboxFilterContainsInternalID") db mb (pairs.map (·.1)) c s)
      = fun acc c => (db.getTable mb).bind fun t => .ok (acc ++ (t.rows.filter fun r => c.contains r.msgId).map (·.msgId)) := by
    funext acc c; exact filterContainsChunk_good _ hs db mb _ c acc
  rw [hb]
  by_cases he : pairs = []
  · subst he; simp [chunk_nil, SameSet, pure, Except.pure]
  · have he' : pairs.isEmpty = false := by simpa using he
    have hne : chunk ((S.site "MailboxFilterContainsInternalID").size S.limit) (pairs.map (·.1)) ≠ [] := by
      intro h0; exact he (List.map_eq_nil_iff.mp ((chunk_eq_nil_iff _ hn _).mp h0))
    simp only [he', Bool.false_eq_true, if_false]
    cases hg : db.getTable mb with
    | error e =>
      have : (fun (acc : List MessageId) (c : List MessageId) => (Except.error e : Except DbErr MTable).bind fun t =>
          Except.ok (acc ++ (t.rows.filter fun r => c.contains r.msgId).map (·.msgId)))
          = fun _ _ => Except.error e := by funext _ _; rfl
      rw [this, foldlM_error e _ hne]
      simp [SameSet, bind, Except.bind]
    | ok t =>
      have : (fun (acc : List MessageId) (c : List MessageId) => (Except.ok t : Except DbErr MTable).bind fun t =>
          Except.ok (acc ++ (t.rows.filter fun r => c.contains r.msgId).map (·.msgId)))
          = fun acc c => Except.ok (acc ++ (fun c : List MessageId => (t.rows.filter fun r => c.contains r.msgId).map (·.msgId)) c) := by
        funext _ _; rfl
      rw [this, foldlM_collect]
      simp only [SameSet, List.nil_append, bind, Except.bind, pure, Except.pure]
      intro x
      exact mem_chunks_flatMap _ hn (pairs.map (·.1))
        (fun c : List MessageId => (t.rows.filter fun r => c.contains r.msgId).map (·.msgId))
        (fun k y => ∃ r ∈ t.rows, r.msgId = k ∧ r.msgId = y)
        (by
          intro c y
          simp only [List.mem_map, List.mem_filter, List.contains_eq_mem, decide_eq_true_eq]
          constructor
          · rintro ⟨r, ⟨hr, hc⟩, rfl⟩; exact ⟨r.msgId, hc, r, hr, rfl, rfl⟩
          · rintro ⟨k, hk, r, hr, rfl, rfl⟩; exact ⟨r, ⟨hr, hk⟩, rfl⟩) x



theorem appendRows_append (l1 l2 : List (MessageId × RemoteId)) :
    ∀ t : MTable, appendRows t (l1 ++ l2) = appendRows t l1 >>= fun t' => appendRows t' l2 := by
  induction l1 with
  | nil => intro t; rfl
  | cons p rest ih =>
    intro t
    obtain ⟨m, r⟩ := p
    simp only [List.cons_append, appendRows]
    split
    · rfl
    · exact ih _

theorem insertMailboxRows_typed {α : Type} (db : DB) (mb : MailboxId) (l : List α) (f : α → MessageId) (g : α → String) :
    insertMailboxRows db mb (l.flatMap fun x => [Bind.msg (f x), Bind.str (g x)]) =
      (db.getTable mb) >>= fun t => (appendRows t (l.map fun x => (f x, g x))) >>= fun t' =>
        if l.any (fun x => !db.hasMessage (f x)) then .error .fk else .ok (db.setTable mb t') := by
  unfold insertMailboxRows
  rw [pairs_flatMap2, decodeMsgStr_map]
  simp only [List.any_map]
  rfl

theorem insertM2M_typed {α : Type} (db : DB) (l : List α) (f : α → MessageId) (g : α → MailboxId) :
    insertM2M db (l.flatMap fun x => [Bind.msg (f x), Bind.mbox (g x)]) =
      (appendKeys false db.m2m (l.map fun x => (f x, g x))) >>= fun rel =>
        if l.any (fun x => !db.hasMessage (f x) || !db.hasMailbox (g x)) then .error .fk else .ok { db with m2m := rel } := by
  unfold insertM2M
  rw [pairs_flatMap2, decodeMsgMbox_map]
  simp only [List.any_map]
  rfl

theorem addMessagesChunk_good (site : ChunkSite) (hs : site.stmts = [Shape.tuples 2, Shape.tuples 2])
    (mb : MailboxId) (ids c : List (MessageId × RemoteId)) (db : DB) :
    addMessagesChunk site mb ids c db = addStep mb c db := by
  unfold addMessagesChunk addStep
  rw [stmt0 hs, stmt1 hs]
  simp only [bind, Except.bind, pick_tuples]
  rw [bind_tuples 2 c ids [] _ (length_flatMap_const 2 _ (fun _ => rfl) c)]
  rw [bind_tuples 2 c ids [] _ (length_flatMap_const 2 _ (fun _ => rfl) c)]
  simp only []
  rw [insertMailboxRows_typed db mb c (·.1) (·.2)]
  simp only [bind, Except.bind]
  cases hg : db.getTable mb with
  | error e => rfl
  | ok t =>
    simp only []
    have hmap : List.map (fun x : MessageId × RemoteId => (x.fst, x.snd)) c = c := by simp
    rw [hmap]
    cases hr : appendRows t c with
    | error e => rfl
    | ok t' =>
      simp only []
      cases hfk : c.any (fun x => !db.hasMessage x.1) with
      | true => simp
      | false =>
        simp only [Bool.false_eq_true, if_false]
        rw [insertM2M_typed (db.setTable mb t') c (·.1) (fun _ => mb)]
        simp only [bind, Except.bind]
        rfl


theorem bind_ok_iff {σ τ : Type} (x : Except DbErr σ) (f : σ → Except DbErr τ) (s : τ) :
    (x >>= f) = .ok s ↔ ∃ s1, x = .ok s1 ∧ f s1 = .ok s := by
  cases x with
  | error e => simp [bind, Except.bind]
  | ok v => simp [bind, Except.bind]

theorem agree_of_ok_iff {σ : Type} (a b : Except DbErr σ) (h : ∀ s, a = .ok s ↔ b = .ok s) : Agree a b := by
  unfold Agree
  cases a with
  | ok s => have := (h s).mp rfl; rw [this]
  | error e =>
    cases b with
    | error e' => rfl
    | ok s => have := (h s).mpr rfl; cases this

theorem addStep_ok_iff (mb : MailboxId) (l : List (MessageId × RemoteId)) (db s : DB) :
    addStep mb l db = .ok s ↔
      ∃ t t' rel, db.getTable mb = .ok t ∧ appendRows t l = .ok t' ∧ l.any (fun p => !db.hasMessage p.1) = false ∧
        appendKeys false db.m2m (l.map fun p => (p.1, mb)) = .ok rel ∧
        l.any (fun p => !db.hasMessage p.1 || !db.hasMailbox mb) = false ∧ s = { db.setTable mb t' with m2m := rel } := by
  unfold addStep
  simp only [bind, Except.bind]
  cases hg : db.getTable mb with
  | error e => simp
  | ok t =>
    simp only []
    cases hr : appendRows t l with
    | error e =>
      simp only [reduceCtorEq, false_iff]
      rintro ⟨t0, t0', rel0, h1, h2, _⟩; cases h1; rw [hr] at h2; cases h2
    | ok t' =>
      simp only []
      cases hf1 : l.any (fun p => !db.hasMessage p.1) with
      | true =>
        simp only [if_true, reduceCtorEq, false_iff]
        rintro ⟨t0, t0', rel0, _, _, h3, _⟩; cases h3
      | false =>
        simp only [Bool.false_eq_true, if_false]
        cases hk : appendKeys false db.m2m (l.map fun p => (p.1, mb)) with
        | error e =>
          simp only [reduceCtorEq, false_iff]
          rintro ⟨t0, t0', rel0, _, _, _, h4, _⟩; cases h4
        | ok rel =>
          simp only []
          cases hf2 : l.any (fun p => !db.hasMessage p.1 || !db.hasMailbox mb) with
          | true =>
            simp only [if_true, reduceCtorEq, false_iff]
            rintro ⟨t0, t0', rel0, _, _, _, _, h5, _⟩; cases h5
          | false =>
            simp only [Bool.false_eq_true, if_false, Except.ok.injEq]
            constructor
            · rintro rfl; exact ⟨t, t', rel, rfl, hr, trivial, rfl, trivial, rfl⟩
            · rintro ⟨t0, t0', rel0, h1, h2, _, h4, _, rfl⟩
              cases h1; rw [hr] at h2; cases h2; cases h4; rfl

theorem setTable_m2m (db : DB) (mb : MailboxId) (t' t'' : MTable) (r1 r2 : List (MessageId × MailboxId)) :
    ({ ({ db.setTable mb t' with m2m := r1 } : DB).setTable mb t'' with m2m := r2 } : DB) = { db.setTable mb t'' with m2m := r2 } := by
  have := setTable_setTable db mb t' t''
  unfold DB.setTable at this ⊢
  simp only [DB.mk.injEq] at this ⊢
  simp only [this, and_self]

theorem addStep_append (mb : MailboxId) (a b : List (MessageId × RemoteId)) (db : DB) :
    Agree (addStep mb (a ++ b) db) (addStep mb a db >>= addStep mb b) := by
  apply agree_of_ok_iff
  intro s
  rw [bind_ok_iff]
  simp only [addStep_ok_iff, List.any_append, List.map_append, Bool.or_eq_false_iff]
  constructor
  · rintro ⟨t, t'', rel, hg, hr, ⟨hfa, hfb⟩, hk, ⟨hga, hgb⟩, rfl⟩
    rw [appendRows_append, bind_ok_iff] at hr
    obtain ⟨t', hra, hrb⟩ := hr
    rw [appendKeys_append, bind_ok_iff] at hk
    obtain ⟨rel', hka, hkb⟩ := hk
    refine ⟨{ db.setTable mb t' with m2m := rel' }, ⟨t, t', rel', hg, hra, hfa, hka, hga, rfl⟩, ?_⟩
    refine ⟨t', t'', rel, ?_, hrb, hfb, hkb, hgb, ?_⟩
    · exact getTable_setTable db mb t t' hg
    · exact (setTable_m2m db mb t' t'' rel' rel).symm
  · rintro ⟨s1, ⟨t, t', rel', hg, hra, hfa, hka, hga, rfl⟩, ⟨t1, t'', rel, hg1, hrb, hfb, hkb, hgb, rfl⟩⟩
    have : t1 = t' := by
      have := getTable_setTable db mb t t' hg
      have h2 : ({ db.setTable mb t' with m2m := rel' } : DB).getTable mb = (db.setTable mb t').getTable mb := rfl
      rw [h2, this] at hg1; cases hg1; rfl
    subst this
    refine ⟨t, t'', rel, hg, ?_, ⟨hfa, hfb⟩, ?_, ⟨hga, hgb⟩, ?_⟩
    · rw [appendRows_append, bind_ok_iff]; exact ⟨t1, hra, hrb⟩
    · rw [appendKeys_append, bind_ok_iff]; exact ⟨rel', hka, hkb⟩
    · exact (setTable_m2m db mb t1 t'' rel' rel)



theorem mem_insertByUid (r x : MMRow) (l : List MMRow) : x ∈ insertByUid r l ↔ x = r ∨ x ∈ l := by
  induction l with
  | nil => simp [insertByUid]
  | cons a t ih =>
    simp only [insertByUid]
    split
    · simp
    · simp only [List.mem_cons, ih]
      constructor
      · rintro (h | h | h)
        · exact Or.inr (Or.inl h)
        · exact Or.inl h
        · exact Or.inr (Or.inr h)
      · rintro (h | h | h)
        · exact Or.inr (Or.inl h)
        · exact Or.inl h
        · exact Or.inr (Or.inr h)

theorem mem_sortByUid (x : MMRow) (l : List MMRow) : x ∈ sortByUid l ↔ x ∈ l := by
  induction l with
  | nil => simp [sortByUid]
  | cons a t ih =>
    have : sortByUid (a :: t) = insertByUid a (sortByUid t) := rfl
    rw [this, mem_insertByUid, ih]; simp

theorem uidsWithFlagsChunk_good (site : ChunkSite) (hs : site.stmts = [Shape.inList]) (db : DB) (mb : MailboxId)
    (ids c : List MessageId) (acc : List SnapRow) :
    uidsWithFlagsChunk site db mb ids c acc
      = (db.getTable mb).bind fun t => .ok (acc ++ (sortByUid (t.rows.filter fun r => c.contains r.msgId)).map (snapRow db)) := by
  unfold uidsWithFlagsChunk
  rw [stmt0 hs]
  cases db.getTable mb with
  | error e => rfl
  | ok t =>
    simp only [bind, Except.bind, pick_inList]
    rw [bind_inList c ids [] _ (by simp)]
    simp [pure, Except.pure]

theorem uidsWithFlags_faithful (S : Sites) (h : S.good "GetMailboxMessageUIDsWithFlagsAfterAddOrUIDBump" = true) (db : DB)
    (mb : MailboxId) (ids : List MessageId) :
    SameSet (getMailboxMessageUIDsWithFlags S db mb ids) (Spec.uidsWithFlags db mb ids) := by
  have hs := good_stmts h
  have hn := good_size h
  unfold getMailboxMessageUIDsWithFlags Spec.uidsWithFlags
  simp only []
  rw [forChunks_pos _ hn]
  have hb : (fun (s : List SnapRow) (c : List MessageId) => uidsWithFlagsChunk (S.site "GetMailboxMessageUIDsWithFlagsAfterAddOrUIDBump") db mb ids c s)
      = fun acc c => (db.getTable mb).bind fun t => .ok (acc ++ (sortByUid (t.rows.filter fun r => c.contains r.msgId)).map (snapRow db)) := by
    funext acc c; exact uidsWithFlagsChunk_good _ hs db mb _ c acc
  rw [hb]
  by_cases he : ids = []
  · subst he; simp [chunk_nil, SameSet, pure, Except.pure]
  · have he' : ids.isEmpty = false := by simpa using he
    have hne : chunk ((S.site "GetMailboxMessageUIDsWithFlagsAfterAddOrUIDBump").size S.limit) ids ≠ [] := by
      intro h0; exact he ((chunk_eq_nil_iff _ hn _).mp h0)
    simp only [he', Bool.false_eq_true, if_false]
    cases hg : db.getTable mb with
    | error e =>
      have : (fun (acc : List SnapRow) (c : List MessageId) => (Except.error e : Except DbErr MTable).bind fun t =>
          Except.ok (acc ++ (sortByUid (t.rows.filter fun r => c.contains r.msgId)).map (snapRow db)))
          = fun _ _ => Except.error e := by funext _ _; rfl
      rw [this, foldlM_error e _ hne]
      simp [SameSet, bind, Except.bind]
    | ok t =>
      have : (fun (acc : List SnapRow) (c : List MessageId) => (Except.ok t : Except DbErr MTable).bind fun t =>
          Except.ok (acc ++ (sortByUid (t.rows.filter fun r => c.contains r.msgId)).map (snapRow db)))
          = fun acc c => Except.ok (acc ++ (fun c : List MessageId => (sortByUid (t.rows.filter fun r => c.contains r.msgId)).map (snapRow db)) c) := by
        funext _ _; rfl
      rw [this, foldlM_collect]
      simp only [SameSet, List.nil_append, bind, Except.bind, pure, Except.pure]
      intro x
      exact mem_chunks_flatMap _ hn ids
        (fun c : List MessageId => (sortByUid (t.rows.filter fun r => c.contains r.msgId)).map (snapRow db))
        (fun k y => ∃ r ∈ t.rows, r.msgId = k ∧ snapRow db r = y)
        (by
          intro c y
          simp only [List.mem_map, mem_sortByUid, List.mem_filter, List.contains_eq_mem, decide_eq_true_eq]
          constructor
          · rintro ⟨r, ⟨hr, hc⟩, rfl⟩; exact ⟨r.msgId, hc, r, hr, rfl, rfl⟩
          · rintro ⟨k, hk, r, hr, rfl, rfl⟩; exact ⟨r, ⟨hr, hk⟩, rfl⟩) x

/-- same outcome; on success the same state and the same *set* of result rows -/
def AgreeRes {β : Type} (a b : Except DbErr (List β × DB)) : Prop :=
  match a, b with
  | .ok (l1, d1), .ok (l2, d2) => d1 = d2 ∧ ∀ x, x ∈ l1 ↔ x ∈ l2
  | .error _, .error _ => True
  | _, _ => False

theorem addMessages_faithful (S : Sites) (h : S.good "AddMessagesToMailbox" = true)
    (h' : S.good "GetMailboxMessageUIDsWithFlagsAfterAddOrUIDBump" = true)
    (mb : MailboxId) (pairs : List (MessageId × RemoteId)) (db : DB) :
    AgreeRes (addMessagesToMailbox S mb pairs db) (Spec.addMessagesToMailbox mb pairs db) := by
  have hs := good_stmts h
  unfold addMessagesToMailbox Spec.addMessagesToMailbox
  by_cases he : pairs.isEmpty = true
  · simp [he, AgreeRes, pure, Except.pure]
  · have he' : pairs.isEmpty = false := by simpa using he
    simp only [he', Bool.false_eq_true, if_false, bind, Except.bind]
    have hb : addMessagesChunk (S.site "AddMessagesToMailbox") mb pairs = addStep mb := by
      funext c d; exact addMessagesChunk_good _ hs mb pairs c d
    rw [hb]
    have hag := forChunks_agree _ (good_size h) pairs (addStep mb)
      (fun a b s _ _ => addStep_append mb a b s) db
    simp only [he', Bool.false_eq_true, if_false] at hag
    unfold Agree at hag
    cases hm : forChunks ((S.site "AddMessagesToMailbox").size S.limit) pairs (addStep mb) db with
    | error e =>
      cases hsp : addStep mb pairs db with
      | error e' => simp [AgreeRes]
      | ok d => rw [hm, hsp] at hag; simp [Except.toOption] at hag
    | ok d =>
      cases hsp : addStep mb pairs db with
      | error e' => rw [hm, hsp] at hag; simp [Except.toOption] at hag
      | ok d' =>
        rw [hm, hsp] at hag
        have hd : d = d' := by simpa [Except.toOption] using hag
        subst hd
        simp only []
        have hr := uidsWithFlags_faithful S h' d mb (pairs.map (·.1))
        unfold SameSet at hr
        cases h1 : getMailboxMessageUIDsWithFlags S d mb (pairs.map (·.1)) with
        | error e =>
          cases h2 : Spec.uidsWithFlags d mb (pairs.map (·.1)) with
          | error e' => simp [AgreeRes]
          | ok l => rw [h1, h2] at hr; exact hr.elim
        | ok l =>
          cases h2 : Spec.uidsWithFlags d mb (pairs.map (·.1)) with
          | error e' => rw [h1, h2] at hr; exact hr.elim
          | ok l' =>
            rw [h1, h2] at hr
            simp only [AgreeRes, pure, Except.pure]
            exact ⟨trivial, hr⟩



/-- chunks of an even-length list with an even chunk size have even length -/
theorem chunkF_even {α : Type} (n : Nat) (hn : n % 2 = 0) :
    ∀ (fuel : Nat) (xs : List α), xs.length % 2 = 0 → ∀ c ∈ chunkF fuel n xs, c.length % 2 = 0 := by
  intro fuel
  induction fuel with
  | zero => intro xs _ c h; simp [chunkF] at h
  | succ f ih =>
    intro xs hx c h
    unfold chunkF at h
    by_cases he : xs.isEmpty
    · simp [he] at h
    · simp only [he] at h
      rcases List.mem_cons.mp h with h | h
      · subst h; rw [List.length_take]; omega
      · exact ih (xs.drop n) (by rw [List.length_drop]; omega) c h

theorem chunk_even {α : Type} (n : Nat) (hn : n % 2 = 0) (xs : List α) (hx : xs.length % 2 = 0) :
    ∀ c ∈ chunk n xs, c.length % 2 = 0 := chunkF_even n hn xs.length xs hx

/-- fold lemma with a side condition on the chunks -/
theorem foldlM_chunks_agree_P {α σ : Type} (P : List α → Prop) (step : List α → σ → Except DbErr σ)
    (happ : ∀ a b s, P a → Agree (step (a ++ b) s) (step a s >>= step b)) :
    ∀ (cs : List (List α)), cs ≠ [] → (∀ c ∈ cs, P c) → ∀ s,
      Agree (cs.foldlM (fun s c => step c s) s) (step cs.flatten s) := by
  intro cs
  induction cs with
  | nil => intro h; exact absurd rfl h
  | cons c rest ih =>
    intro _ hP s
    cases rest with
    | nil =>
      simp only [List.foldlM_cons, List.foldlM_nil, List.flatten_cons, List.flatten_nil, List.append_nil]
      have : (step c s >>= fun s' => (pure s' : Except DbErr σ)) = step c s := by
        cases step c s <;> rfl
      rw [this]; exact Agree.refl _
    | cons c' rest' =>
      have ih' := ih (by simp) (fun x hx => hP x (by simp [hx]))
      rw [List.foldlM_cons, List.flatten_cons]
      exact Agree.trans (Agree.bind_right _ ih') (Agree.symm (happ c _ s (hP c (by simp))))

theorem pairs_append_even {α : Type} : ∀ (n : Nat) (a b : List α), a.length = 2 * n → pairs (a ++ b) = pairs a ++ pairs b := by
  intro n
  induction n with
  | zero => intro a b h; have : a = [] := List.length_eq_zero_iff.mp (by omega); subst this; rfl
  | succ k ih =>
    intro a b h
    match a, h with
    | x :: y :: rest, h =>
      simp only [List.cons_append, pairs]
      rw [ih rest b (by simp at h; omega)]

theorem decodeMsgStr_append (x y : List (Bind × Bind)) :
    decodeMsgStr (x ++ y) = (decodeMsgStr x).bind fun a => (decodeMsgStr y).map fun b => a ++ b := by
  induction x with
  | nil => simp [decodeMsgStr]
  | cons p rest ih =>
    obtain ⟨u, v⟩ := p
    cases u <;> cases v <;> simp [decodeMsgStr, ih]
    cases decodeMsgStr rest <;> simp
    cases decodeMsgStr y <;> simp


/-- `INSERT INTO message_flags_v2 VALUES rows` on typed rows -/
def flagStep (rows : List (MessageId × FlagVal)) (db : DB) : Except DbErr DB :=
  (appendKeys false db.msgFlags rows) >>= fun rel =>
    if rows.any (fun p => !db.hasMessage p.1) then .error .fk else .ok { db with msgFlags := rel }

theorem insertMsgFlags_some (db : DB) (l : List Bind) (rows : List (MessageId × FlagVal))
    (h : decodeMsgStr (pairs l) = some rows) : insertMsgFlags false db l = flagStep rows db := by
  unfold insertMsgFlags flagStep; rw [h]

theorem insertMsgFlags_none (db : DB) (l : List Bind) (h : decodeMsgStr (pairs l) = none) :
    insertMsgFlags false db l = .error .unmodelled := by
  unfold insertMsgFlags; rw [h]

theorem flagStep_ok_iff (rows : List (MessageId × FlagVal)) (db s : DB) :
    flagStep rows db = .ok s ↔ ∃ rel, appendKeys false db.msgFlags rows = .ok rel ∧
      rows.any (fun p => !db.hasMessage p.1) = false ∧ s = { db with msgFlags := rel } := by
  unfold flagStep
  simp only [bind, Except.bind]
  cases hk : appendKeys false db.msgFlags rows with
  | error e => simp
  | ok rel =>
    simp only []
    cases hf : rows.any (fun p => !db.hasMessage p.1) with
    | true => simp
    | false =>
      simp only [Bool.false_eq_true, if_false, Except.ok.injEq]
      constructor
      · rintro rfl; exact ⟨rel, rfl, trivial, rfl⟩
      · rintro ⟨_, h1, _, rfl⟩; cases h1; rfl

theorem flagStep_append (ra rb : List (MessageId × FlagVal)) (db : DB) :
    Agree (flagStep (ra ++ rb) db) (flagStep ra db >>= flagStep rb) := by
  apply agree_of_ok_iff
  intro s
  rw [bind_ok_iff]
  simp only [flagStep_ok_iff, List.any_append, Bool.or_eq_false_iff]
  constructor
  · rintro ⟨rel, hk, ⟨hfa, hfb⟩, rfl⟩
    rw [appendKeys_append, bind_ok_iff] at hk
    obtain ⟨rel', hka, hkb⟩ := hk
    exact ⟨{ db with msgFlags := rel' }, ⟨rel', hka, hfa, rfl⟩, ⟨rel, hkb, hfb, rfl⟩⟩
  · rintro ⟨s1, ⟨rel', hka, hfa, rfl⟩, ⟨rel, hkb, hfb, rfl⟩⟩
    refine ⟨rel, ?_, ⟨hfa, hfb⟩, rfl⟩
    rw [appendKeys_append, bind_ok_iff]; exact ⟨rel', hka, hkb⟩

theorem insertMsgFlags_append (db : DB) (a b : List Bind) (n : Nat) (ha : a.length = 2 * n) :
    Agree (insertMsgFlags false db (a ++ b)) (insertMsgFlags false db a >>= fun d => insertMsgFlags false d b) := by
  have hp := pairs_append_even n a b ha
  cases hda : decodeMsgStr (pairs a) with
  | none =>
    rw [insertMsgFlags_none db (a ++ b) (by rw [hp, decodeMsgStr_append, hda]; rfl), insertMsgFlags_none db a hda]
    exact Agree.refl _
  | some ra =>
    cases hdb : decodeMsgStr (pairs b) with
    | none =>
      rw [insertMsgFlags_none db (a ++ b) (by rw [hp, decodeMsgStr_append, hda, hdb]; rfl)]
      unfold Agree
      cases insertMsgFlags false db a with
      | error e => rfl
      | ok d => simp [bind, Except.bind, insertMsgFlags_none d b hdb, Except.toOption]
    | some rb =>
      rw [insertMsgFlags_some db (a ++ b) (ra ++ rb) (by rw [hp, decodeMsgStr_append, hda, hdb]; rfl),
        insertMsgFlags_some db a ra hda]
      have : (fun d => insertMsgFlags false d b) = flagStep rb := by
        funext d; exact insertMsgFlags_some d b rb hdb
      rw [this]
      exact flagStep_append ra rb db


theorem foldlM_congr_mem {α σ : Type} (f g : σ → α → Except DbErr σ) (cs : List α)
    (h : ∀ c ∈ cs, ∀ s, f s c = g s c) : ∀ s, cs.foldlM f s = cs.foldlM g s := by
  induction cs with
  | nil => intro s; rfl
  | cons c rest ih =>
    intro s
    simp only [List.foldlM_cons]
    rw [h c (by simp) s]
    congr 1; funext s'
    exact ih (fun x hx => h x (by simp [hx])) s'

@[simp] theorem pick_flatPairs {α : Type} (c w : List α) : pick Shape.flatPairs c w = .ok c := rfl

theorem bind_flatPairs {α : Type} (c w : List α) (args : List Bind) (h : args.length = 2 * (c.length / 2)) :
    bindStmt Shape.flatPairs c w [] args = .ok args := by
  unfold bindStmt
  have : Shape.flatPairs.ph.eval (siteEnv c w []) = some (2 * (c.length / 2)) := by
    simp [Shape.flatPairs, Poly.eval, Mono.eval, siteEnv]
  rw [this]; exact bindN_exact _ _ h

theorem createFlagsChunk_good (inner : ChunkSite) (hs : inner.stmts = [Shape.flatPairs]) (flat fc : List Bind)
    (hfc : fc.length % 2 = 0) (db : DB) :
    createFlagsChunk inner flat fc db = insertMsgFlags false db fc := by
  unfold createFlagsChunk
  rw [stmt0 hs]
  simp only [bind, Except.bind, pick_flatPairs]
  rw [bind_flatPairs fc flat fc (by omega)]

theorem innerLoop_agree (inner : ChunkSite) (limit : Nat) (hsz : 0 < inner.size limit) (hev : inner.size limit % 2 = 0)
    (hs : inner.stmts = [Shape.flatPairs]) (flat : List Bind) (hflat : flat.length % 2 = 0) (db : DB) :
    Agree (forChunks (inner.size limit) flat (createFlagsChunk inner flat) db)
      (if flat.isEmpty then .ok db else insertMsgFlags false db flat) := by
  rw [forChunks_pos _ hsz]
  have hall := chunk_even (inner.size limit) hev flat hflat
  rw [foldlM_congr_mem _ (fun s c => insertMsgFlags false s c) _
    (fun c hc s => createFlagsChunk_good inner hs flat c (hall c hc) s)]
  by_cases he : flat = []
  · subst he; simp [chunk_nil]; exact Agree.refl _
  · have h1 : chunk (inner.size limit) flat ≠ [] := fun h => he ((chunk_eq_nil_iff _ hsz flat).mp h)
    have := foldlM_chunks_agree_P (fun c : List Bind => ∃ n, c.length = 2 * n) (fun fc d => insertMsgFlags false d fc)
      (fun a b s ⟨n, hn⟩ => insertMsgFlags_append s a b n hn)
      (chunk (inner.size limit) flat) h1 (fun c hc => ⟨c.length / 2, by have := hall c hc; omega⟩) db
    rw [chunk_flatten _ hsz] at this
    have he' : flat.isEmpty = false := by simpa using he
    simpa [he'] using this


theorem foldlM_agree_congr {α σ : Type} (f g : σ → α → Except DbErr σ) (cs : List α)
    (h : ∀ c s, Agree (f s c) (g s c)) : ∀ s, Agree (cs.foldlM f s) (cs.foldlM g s) := by
  induction cs with
  | nil => intro s; exact Agree.refl _
  | cons c rest ih =>
    intro s
    simp only [List.foldlM_cons]
    exact Agree.trans (Agree.bind_left _ (h c s)) (Agree.bind_right _ ih)

/-- chunk loop whose body agrees with an additive step (both only up to which error) -/
theorem chunkedTx_agree' {α : Type} (n : Nat) (hn : 0 < n) (xs : List α) (body step : List α → DB → Except DbErr DB)
    (hb : ∀ c db, Agree (body c db) (step c db))
    (happ : ∀ a b s, a ≠ [] → b ≠ [] → Agree (step (a ++ b) s) (step a s >>= step b)) (db : DB) :
    Agree (do let db ← forChunks n xs body db; pure ((), db) : Except DbErr (Unit × DB)) (Spec.guarded xs (step xs) db) := by
  have h1 : Agree (forChunks n xs body db) (forChunks n xs step db) := by
    rw [forChunks_pos n hn, forChunks_pos n hn]
    exact foldlM_agree_congr _ _ _ (fun c s => hb c s) db
  have h2 := Agree.trans h1 (forChunks_agree n hn xs step happ db)
  unfold Spec.guarded
  have := Agree.bind_left (fun db => (pure ((), db) : Except DbErr (Unit × DB))) h2
  refine Agree.trans this ?_
  cases (if xs.isEmpty = true then Except.ok db else step xs db) <;> exact Agree.refl _

theorem sevens_flatMap (c : List CreateReq) : sevens (c.flatMap reqArgs) = c.map Spec.reqRow := by
  induction c with
  | nil => rfl
  | cons r rest ih => simp [List.flatMap_cons, reqArgs, sevens, ih, Spec.reqRow]

theorem appendMessages_mem (l : List MsgRow) : ∀ (ms ms' : List MsgRow), appendMessages ms l = .ok ms' →
    (∀ r ∈ ms, r ∈ ms') ∧ ∀ r ∈ l, r ∈ ms' := by
  induction l with
  | nil => intro ms ms' h; simp [appendMessages] at h; subst h; exact ⟨fun _ h => h, fun _ h => by simp at h⟩
  | cons r rest ih =>
    intro ms ms' h
    simp only [appendMessages] at h
    split at h
    · cases h
    · obtain ⟨h1, h2⟩ := ih _ _ h
      refine ⟨fun x hx => h1 x (by simp [hx]), fun x hx => ?_⟩
      rcases List.mem_cons.mp hx with rfl | hx
      · exact h1 _ (by simp)
      · exact h2 x hx

/-- typed `(message_id, value)` tuples of the flags of a list of requests, in the order the code builds them -/
def reqFlags (c : List CreateReq) : List (MessageId × FlagVal) := c.flatMap fun r => r.flags.map fun f => (r.id, f)

theorem reqFlags_binds (c : List CreateReq) :
    (c.flatMap fun r => r.flags.flatMap fun f => [Bind.msg r.id, Bind.str f])
      = (reqFlags c).flatMap fun p => [Bind.msg p.1, Bind.str p.2] := by
  simp [reqFlags, List.flatMap_assoc, List.flatMap_map]



theorem appendMessages_append (l1 l2 : List MsgRow) :
    ∀ ms : List MsgRow, appendMessages ms (l1 ++ l2) = appendMessages ms l1 >>= fun m => appendMessages m l2 := by
  induction l1 with
  | nil => intro ms; rfl
  | cons r rest ih =>
    intro ms
    simp only [List.cons_append, appendMessages]
    split
    · rfl
    · exact ih _

theorem createStep_ok_iff (l : List CreateReq) (db s : DB) :
    createStep l db = .ok s ↔ ∃ msgs fl, appendMessages db.messages (l.map reqRow) = .ok msgs ∧
      appendKeys false db.msgFlags (reqFlags l) = .ok fl ∧ s = { db with messages := msgs, msgFlags := fl } := by
  unfold createStep reqFlags
  simp only [bind, Except.bind, pure, Except.pure]
  cases hm : appendMessages db.messages (l.map reqRow) with
  | error e => simp
  | ok msgs =>
    simp only []
    cases hk : appendKeys false db.msgFlags (l.flatMap fun r => r.flags.map fun f => (r.id, f)) with
    | error e => simp
    | ok fl =>
      simp only [Except.ok.injEq]
      constructor
      · rintro rfl; exact ⟨msgs, fl, rfl, rfl, rfl⟩
      · rintro ⟨_, _, h1, h2, rfl⟩; cases h1; cases h2; rfl

theorem createStep_append (a b : List CreateReq) (db : DB) :
    Agree (createStep (a ++ b) db) (createStep a db >>= createStep b) := by
  apply agree_of_ok_iff
  intro s
  rw [bind_ok_iff]
  simp only [createStep_ok_iff]
  have hf : reqFlags (a ++ b) = reqFlags a ++ reqFlags b := by simp [reqFlags]
  constructor
  · rintro ⟨msgs, fl, hm, hk, rfl⟩
    rw [List.map_append, appendMessages_append, bind_ok_iff] at hm
    obtain ⟨m1, hma, hmb⟩ := hm
    rw [hf, appendKeys_append, bind_ok_iff] at hk
    obtain ⟨f1, hka, hkb⟩ := hk
    exact ⟨{ db with messages := m1, msgFlags := f1 }, ⟨m1, f1, hma, hka, rfl⟩, ⟨msgs, fl, hmb, hkb, rfl⟩⟩
  · rintro ⟨s1, ⟨m1, f1, hma, hka, rfl⟩, ⟨msgs, fl, hmb, hkb, rfl⟩⟩
    refine ⟨msgs, fl, ?_, ?_, rfl⟩
    · rw [List.map_append, appendMessages_append, bind_ok_iff]; exact ⟨m1, hma, hmb⟩
    · rw [hf, appendKeys_append, bind_ok_iff]; exact ⟨f1, hka, hkb⟩

theorem createMessagesChunk_agree (site inner : ChunkSite) (limit : Nat)
    (hs : site.stmts = [Shape.tuples 7]) (hi : inner.stmts = [Shape.flatPairs])
    (hsz : 0 < inner.size limit) (hev : inner.size limit % 2 = 0)
    (reqs c : List CreateReq) (db : DB) :
    Agree (createMessagesChunk site inner limit reqs c db) (createStep c db) := by
  unfold createMessagesChunk
  rw [stmt0 hs]
  simp only [bind, Except.bind, pick_tuples]
  rw [bind_tuples 7 c reqs [] _ (length_flatMap_const 7 _ (fun _ => rfl) c)]
  simp only []
  unfold insertMessages
  rw [sevens_flatMap]
  have hlen : ((c.map reqRow).length * 7 != (c.flatMap reqArgs).length) = false := by
    rw [length_flatMap_const 7 _ (fun _ => rfl) c]; simp; omega
  simp only [hlen, Bool.false_eq_true, if_false]
  apply agree_of_ok_iff
  intro s
  rw [createStep_ok_iff]
  cases hm : appendMessages db.messages (c.map reqRow) with
  | error e => simp [Except.map]
  | ok msgs =>
    simp only [Except.map]
    rw [reqFlags_binds]
    have hflat : ((reqFlags c).flatMap fun p => [Bind.msg p.1, Bind.str p.2]).length % 2 = 0 := by
      rw [length_flatMap_const 2 _ (fun _ => rfl)]; omega
    have hin := innerLoop_agree inner limit hsz hev hi _ hflat { db with messages := msgs }
    have hdec : decodeMsgStr (pairs ((reqFlags c).flatMap fun p => [Bind.msg p.1, Bind.str p.2])) = some (reqFlags c) := by
      rw [pairs_flatMap2, decodeMsgStr_map]; simp
    have hstep : (if ((reqFlags c).flatMap fun p => [Bind.msg p.1, Bind.str p.2]).isEmpty then Except.ok { db with messages := msgs }
        else insertMsgFlags false { db with messages := msgs } ((reqFlags c).flatMap fun p => [Bind.msg p.1, Bind.str p.2]))
        = flagStep (reqFlags c) { db with messages := msgs } := by
      rw [insertMsgFlags_some _ _ _ hdec]
      split
      · next he =>
        have : reqFlags c = [] := by
          cases h : reqFlags c with
          | nil => rfl
          | cons p t => rw [h] at he; simp at he
        rw [this]; rfl
      · rfl
    rw [hstep] at hin
    rw [Agree.ok_iff hin s, flagStep_ok_iff]
    -- the FOREIGN KEY check is vacuous: every flag row belongs to a message that was just inserted
    have hfk : (reqFlags c).any (fun p => !({ db with messages := msgs } : DB).hasMessage p.1) = false := by
      rw [List.any_eq_false]
      intro p hp
      simp only [reqFlags, List.mem_flatMap, List.mem_map] at hp
      obtain ⟨r, hr, f, _, rfl⟩ := hp
      have := (appendMessages_mem _ _ _ hm).2 (reqRow r) (List.mem_map.mpr ⟨r, hr, rfl⟩)
      simp only [DB.hasMessage, Bool.not_eq_true, Bool.not_eq_false', List.any_eq_true]
      exact ⟨reqRow r, this, by simp [reqRow]⟩
    constructor
    · rintro ⟨rel, hk, _, rfl⟩; exact ⟨msgs, rel, rfl, hk, rfl⟩
    · rintro ⟨m, fl, h1, hk, rfl⟩; cases h1; exact ⟨fl, hk, hfk, rfl⟩

theorem createMessages_faithful (S : Sites) (h : S.good "CreateMessages" = true) (h' : S.good "CreateMessages.flagArgs" = true)
    (reqs : List CreateReq) (db : DB) :
    Agree (createMessages S reqs db) (Spec.createMessages reqs db) := by
  have hs := good_stmts h
  have hi := good_stmts h'
  have hev : (S.site "CreateMessages.flagArgs").size S.limit % 2 = 0 := by
    simp [Sites.good, expectedStride] at h'; exact h'.1.2
  unfold createMessages Spec.createMessages
  exact chunkedTx_agree' _ (good_size h) reqs _ createStep
    (fun c db => createMessagesChunk_agree _ _ S.limit hs hi (good_size h') hev reqs c db)
    (fun a b s _ _ => createStep_append a b s) db


end Gluon.DB
