/-
Helper lemmas for C20, part 7: every command preserves the recovery invariant; it holds in every
reachable state.
-/
import GluonModel.Lemmas.AppendRestart

namespace Gluon.Append

theorem RecInv.same {H : Nat → Nat} {s s' : St} (h : RecInv H s) (hb : s'.db.boxes = s.db.boxes) (hst : s'.store = s.store)
    (hi : s'.idToHash = s.idToHash) (hh : s'.hashes = s.hashes) (hn : s'.nextId = s.nextId)
    (h1 : s'.staleHash = s.staleHash) (h2 : s'.lostHash = s.lostHash) : RecInv H s' :=
  RecInv.core (s := s) ⟨recMsgs_boxes hb, hi, hh, h1, h2, by rw [hn]; exact Nat.le_refl _, fun _ _ => by rw [hst]⟩ h

theorem append_inv {H : Nat → Nat} (s : St) (n : String) (l : Lit) (h : RecInv H s) : RecInv H (append H s n l).2 := by
  unfold append
  split
  · exact h
  · next hrn =>
    have hn : n ≠ recName := ne_recName_of_not_isRecName (by simpa using hrn)
    split
    · exact h
    · split
      · exact h
      · have hf := appendRegular_frame s n l hn
        split
        · next u s1 he => rw [he] at hf; exact RecInv.frame hf h
        · next e s1 he =>
          rw [he] at hf
          have h1 : RecInv H s1 := RecInv.frame hf h
          split
          · exact h1
          · have := RecInv.ins (createRecovered_spec H s1 l) h1
            split
            · next k s2 hk => rw [hk] at this; exact this
            · next e2 s2 hk => rw [hk] at this; exact this

theorem copy_inv {H : Nat → Nat} (s : St) (src : String) (uids : List Nat) (dst : String) (h : RecInv H s) :
    RecInv H (copy s src uids dst).2 := by
  unfold copy
  split
  · exact h
  · next bs _ =>
    split
    · exact h
    · next hrn =>
      have hd : dst ≠ recName := ne_recName_of_not_isRecName (by simpa using hrn)
      split
      · exact h
      · simp only
        have hf : Frame s.nextId s (withTx s (fun s0 => if src == recName then copyOutOfRecovery s0 ((selectUids bs uids).map (·.2)) dst
            else actionAdd s0 dst ((selectUids bs uids).map (·.2)))).2 := by
          refine withTx_frame s _ ?_
          split
          · exact copyOutOfRecovery_frame { s with txIns := false, txErase := false } _ dst hd
          · exact actionAdd_frame _ { s with txIns := false, txErase := false } dst _ hd
        split
        · next e s1 he => rw [he] at hf; exact RecInv.frame hf h
        · next d s1 he => rw [he] at hf; exact RecInv.frame hf h

theorem move_inv {H : Nat → Nat} (s : St) (src : String) (uids : List Nat) (dst : String) (h : RecInv H s) :
    RecInv H (move s src uids dst).2 := by
  unfold move
  split
  · exact h
  · next bs _ =>
    split
    · exact h
    · next hrn =>
      have hd : dst ≠ recName := ne_recName_of_not_isRecName (by simpa using hrn)
      split
      · exact h
      · simp only
        have hi : RecInv H (withTx s (fun s0 => if src == recName then moveOutOfRecovery s0 ((selectUids bs uids).map (·.2)) dst
            else actionMove s0 src dst ((selectUids bs uids).map (·.2)))).2 := by
          by_cases hs : src = recName
          · simp only [hs, beq_self_eq_true, ↓reduceIte]
            exact moveOut_inv s _ dst hd h
          · have : (src == recName) = false := by simpa using hs
            simp only [this, Bool.false_eq_true, ↓reduceIte]
            exact RecInv.frame (withTx_frame s _ (actionMove_frame _ { s with txIns := false, txErase := false } src dst _ hs hd)) h
        split
        · next e s1 he => rw [he] at hi; exact hi
        · next d s1 he => rw [he] at hi; exact hi

theorem expunge_inv {H : Nat → Nat} (s : St) (src : String) (uids : List Nat) (h : RecInv H s) :
    RecInv H (expunge s src uids).2 := by
  unfold expunge
  split
  · exact h
  · next bs _ =>
    simp only
    have hi : RecInv H (withTx s (fun s0 => actionRemove s0 src ((selectUids bs uids).map (·.2)))).2 := by
      by_cases hs : src = recName
      · subst hs; exact expunge_rec_inv s _ h
      · exact RecInv.frame (withTx_frame s _ (actionRemove_frame _ { s with txIns := false, txErase := false } src _ hs)) h
    split
    · next e s1 he => rw [he] at hi; exact hi
    · next s1 he => rw [he] at hi; exact hi

/-! ### CREATE / DELETE / RENAME do not touch the recovery mailbox -/

theorem find_delBoxes_ne (bs : List Mbox) (n m : String) (h : m ≠ n) :
    (delBoxes bs n).find? (·.name == m) = bs.find? (·.name == m) := by
  induction bs with
  | nil => simp [delBoxes]
  | cons b r ih =>
    by_cases hb : b.name = n
    · have : ¬ b.name = m := by rw [hb]; exact fun e => h e.symm
      simp [delBoxes, hb, find?_cons', Ne.symm h]
    · by_cases hm : b.name = m
      · subst hm; simp [delBoxes, hb, find?_cons']
      · simp [delBoxes, hb, find?_cons', hm, ih]

theorem find_rename_ne (bs : List Mbox) (o n m : String) (ho : m ≠ o) (hn : m ≠ n) :
    (updBoxes bs o (fun b => { b with name := n })).find? (·.name == m) = bs.find? (·.name == m) := by
  induction bs with
  | nil => simp [updBoxes]
  | cons b r ih =>
    by_cases hb : b.name = o
    · simp [updBoxes, hb, find?_cons', Ne.symm ho, Ne.symm hn]
    · by_cases hm : b.name = m
      · subst hm; simp [updBoxes, hb, find?_cons']
      · simp [updBoxes, hb, find?_cons', hm, ih]

theorem create_inv {H : Nat → Nat} (s : St) (n : String) (h : RecInv H s) : RecInv H (create s n).2 := by
  unfold create
  split; · exact h
  split; · exact h
  split; · exact h
  split; · exact h
  have hrec : recMsgs { s with db := { s.db with boxes := s.db.boxes ++ [{ name := n }] } } = recMsgs s := by
    simp only [recMsgs, getBox, List.find?_append]
    cases List.find? (fun x => x.name == recName) s.db.boxes with
    | some b => simp
    | none =>
      by_cases e : n = recName
      · simp [e]
      · simp [e]
  exact RecInv.core (s := s) ⟨hrec, rfl, rfl, rfl, rfl, Nat.le_refl _, fun _ _ => rfl⟩ h

theorem delete_inv {H : Nat → Nat} (s : St) (n : String) (h : RecInv H s) : RecInv H (delete s n).2 := by
  unfold delete
  split; · exact h
  split; · exact h
  next hrn =>
  have hn : n ≠ recName := ne_recName_of_not_isRecName (by simpa using hrn)
  split; · exact h
  have hrec : recMsgs { s with db := { s.db with boxes := delBoxes s.db.boxes n } } = recMsgs s := by
    simp only [recMsgs, getBox, find_delBoxes_ne _ _ _ (Ne.symm hn)]
  exact RecInv.core (s := s) ⟨hrec, rfl, rfl, rfl, rfl, Nat.le_refl _, fun _ _ => rfl⟩ h

theorem rename_inv {H : Nat → Nat} (s : St) (o n : String) (h : RecInv H s) : RecInv H (rename s o n).2 := by
  unfold rename
  split; · exact h
  next hrn =>
  simp only [Bool.or_eq_true, not_or] at hrn
  have ho : o ≠ recName := ne_recName_of_not_isRecName (by simpa using hrn.1)
  have hn : n ≠ recName := ne_recName_of_not_isRecName (by simpa using hrn.2)
  split; · exact h
  split; · exact h
  split; · exact h
  have hrec : recMsgs { s with db := updBox s.db o (fun b => { b with name := n }) } = recMsgs s := by
    simp only [recMsgs, getBox, updBox, find_rename_ne _ _ _ _ (Ne.symm ho) (Ne.symm hn)]
  exact RecInv.core (s := s) ⟨hrec, rfl, rfl, rfl, rfl, Nat.le_refl _, fun _ _ => rfl⟩ h

theorem step_inv {H : Nat → Nat} (s : St) (c : Cmd) (h : RecInv H s) : RecInv H (step H s c).2 := by
  cases c with
  | append n l => exact append_inv s n l h
  | copy a u d => exact copy_inv s a u d h
  | move a u d => exact move_inv s a u d h
  | expunge a u => exact expunge_inv s a u h
  | create n => exact create_inv s n h
  | delete n => exact delete_inv s n h
  | rename o n => exact rename_inv s o n h
  | list => exact h
  | restart => exact restart_inv s h

theorem init_inv (H : Nat → Nat) (sc : Script) (lim : Limits.IMAP) : RecInv H (init sc lim) := by
  have hrec : recMsgs (init sc lim) = [] := by
    have : getBox (init sc lim).db recName = some { name := recName } := by simp [init, getBox]
    simp [recMsgs, this]
  refine ⟨⟨fun i x hx => by simp [init] at hx, fun x hx => by simp [init] at hx, fun i x hx => by simp [init] at hx,
      fun i j x hx => by simp [init] at hx⟩, ?_, ?_, ?_, ?_, ?_⟩
  · rw [hrec]; intro p hp; simp at hp
  · rw [hrec]; intro p hp; simp at hp
  · intro _ i x hx; simp [init] at hx
  · rw [hrec]; intro _ p hp; simp at hp
  · rw [hrec]; simp

theorem reachable_inv {H : Nat → Nat} {s : St} (h : Reachable H s) : RecInv H s := by
  induction h with
  | init sc lim => exact init_inv H sc lim
  | step c _ ih => exact step_inv _ c ih

end Gluon.Append
