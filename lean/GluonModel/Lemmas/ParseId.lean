/-
Round-trip lemmas: ID, UID, and the assembly of `cmd_roundtrip`.
-/
import GluonModel.Lemmas.ParseSearch

namespace Gluon.Parse

/-! ### ID -/

/-- `RT.bind` for a first parser that reads nothing -/
theorem RT.nil_bind {p : P α} {k : α → P β} {w : Bytes} {v1 : α} {v2 : β} {ok1 ok2 : Bytes → Prop}
    (h1 : RT p [] v1 ok1) (h2 : RT (k v1) w v2 ok2) (hf : ∀ rest, ok2 rest → ok1 (w ++ rest)) :
    RT (p >>= k) w v2 ok2 :=
  RT.bind h1 h2 hf

theorem headTy_printString (e : Nat) (s : BStr) (rest : Bytes) :
    headTy (printString e s ++ rest) = .dquote ∨ headTy (printString e s ++ rest) = .lcurly := by
  unfold printString
  split
  · left; rfl
  · right; rfl

theorem rt_tryParseString_some (e : Nat) (s : BStr) (hs : StrOK s) (fuel : Nat) (hf : s.length + 1 < fuel) :
    RT (tryParseString fuel) (printString e s) (some s) anyRest := by
  intro c rest hr
  obtain ⟨c', h⟩ := rt_parseString e s hs fuel hf c rest hr
  refine ⟨c', ?_⟩
  unfold tryParseString
  rw [bind_check, bind_check, load_cur_ty]
  rcases headTy_printString e s rest with e1 | e1 <;> rw [e1] <;> simp [bind_ok h]

theorem rt_tryParseString_none (fuel : Nat) :
    RT (tryParseString fuel) [] (none : Option Bytes) (fun r => headTy r ≠ .dquote ∧ headTy r ≠ .lcurly) := by
  intro c rest hr
  refine ⟨c, ?_⟩
  unfold tryParseString
  rw [bind_check, bind_check, load_cur_ty]
  simp [hr.1, hr.2]

theorem rt_parseNString (c : Choices) (v : BStr) (hv : StrOK v) (fuel : Nat) (hf : v.length + 1 < fuel) :
    ∃ o : Option BStr, o.getD [] = v ∧ RT (parseNString fuel) (printNString c v) o anyRest := by
  unfold printNString
  split
  · rename_i h
    have hv0 : v = [] := by cases v <;> simp_all
    refine ⟨none, by simp [hv0], ?_⟩
    unfold parseNString
    refine RT.nil_bind (rt_tryParseString_none fuel) ?_
      (fun r _ => by rw [headTy_kwCase _ _ (by decide) (by decide)]; decide)
    exact RT.map _ (rt_consumeBytesFold (kw "NIL") _ (lowerBytes_kw_upper _ _ _ (by decide) (by decide)))
  · refine ⟨some v, rfl, ?_⟩
    unfold parseNString
    refine RT.bind_nil (rt_tryParseString_some _ v hv fuel hf) ?_ (fun _ h => h)
    exact RT.ret _ _


theorem mapInsert_fresh (m : List (BStr × BStr)) (k v : BStr) (h : k ∉ m.map Prod.fst) :
    mapInsert m k v = m ++ [(k, v)] := by
  unfold mapInsert
  have : m.any (fun e => e.1 == k) = false := by
    rw [List.any_eq_false]
    intro e he heq
    apply h
    simp only [beq_iff_eq] at heq
    exact List.mem_map.mpr ⟨e, he, heq⟩
  simp [this]

def IdPairOK (fuel : Nat) (p : BStr × BStr) : Prop :=
  StrOK p.1 ∧ p.1.length + 1 < fuel ∧ StrOK p.2 ∧ p.2.length + 1 < fuel

theorem consumeIf_false (t : TokTy) : RT (consumeIf false t) [] () anyRest := RT.ret () anyRest
theorem consumeIf_true_sp : RT (consumeIf true .sp) [32] () anyRest :=
  (rt_consume (b := 32) (t := .sp) rfl anyRest : RT (consume .sp) [32] () anyRest)

theorem rt_idLoop (fuel : Nat) (vals : List (BStr × BStr)) :
    ∀ (acc : List (BStr × BStr)) (c : Choices) (n : Nat), vals.length < n →
      ((acc ++ vals).map Prod.fst).Nodup → (∀ p ∈ vals, IdPairOK fuel p) →
      RT (idLoop fuel n acc) (printSepList 32 printIdPair c vals) (acc ++ vals) (nextIs .rparen) := by
  induction vals with
  | nil =>
    intro acc c n hn _ _
    cases n with
    | zero => simp at hn
    | succ n =>
      unfold idLoop
      simp only [printSepList, List.append_nil]
      refine RT.nil_bind (rt_tryParseString_none fuel) ?_ (fun r hr => by
        simp only [List.nil_append]; rw [hr]; exact ⟨by decide, by decide⟩)
      exact RT.ret _ _
  | cons p xs ih =>
    intro acc c n hn hnd hok
    obtain ⟨k, v⟩ := p
    cases n with
    | zero => simp at hn
    | succ n =>
      have hp := hok (k, v) (by simp)
      obtain ⟨o, ho, hns⟩ := rt_parseNString c.l.r v hp.2.2.1 fuel hp.2.2.2
      have hfresh : k ∉ acc.map Prod.fst := by
        intro hmem
        rw [List.map_append, List.nodup_append] at hnd
        exact hnd.2.2 k hmem k (by simp) rfl
      have hnd' : (((acc ++ [(k, v)]) ++ xs).map Prod.fst).Nodup := by
        simpa using hnd
      have ih' := ih (acc ++ [(k, v)]) c.r n (by simpa using hn) hnd' (fun q hq => hok q (by simp [hq]))
      have e : acc ++ [(k, v)] ++ xs = acc ++ (k, v) :: xs := by simp
      rw [e] at ih'
      unfold idLoop
      simp only [printSepList, printIdPair, List.append_assoc, List.cons_append]
      refine RT.bind (rt_tryParseString_some _ k hp.1 fuel hp.2.1) ?_ (fun _ _ => trivial)
      refine RT.cons (rt_consume (b := 32) (t := .sp) rfl anyRest) ?_
      refine RT.bind hns ?_ (fun _ _ => trivial)
      rw [ho, mapInsert_fresh acc k v hfresh]
      cases xs with
      | nil =>
        simp only [printSepTail]
        refine RT.check_eq true (fun r hr => by simpa [nextIs] using hr) ?_
        refine RT.nil_bind (consumeIf_false .sp) ?_ (fun _ _ => trivial)
        simpa [printSepList] using ih'
      | cons y ys =>
        simp only [printSepTail]
        refine RT.check_eq false (fun r _ => by rfl) ?_
        refine RT.cons consumeIf_true_sp ?_
        simpa [printSepList] using ih'

def IdOK (fuel : Nat) (vals : List (BStr × BStr)) : Prop :=
  (vals.map Prod.fst).Nodup ∧ (∀ p ∈ vals, IdPairOK fuel p) ∧ vals.length < fuel

theorem rt_parseID_set (c : Choices) (vals : List (BStr × BStr)) (fuel : Nat) (h : IdOK fuel vals) :
    RT (parseID fuel) (32 :: (40 :: (printSepList 32 printIdPair c vals ++ [41]))) (.idSet vals) anyRest := by
  unfold parseID
  refine RT.cons (rt_consume (b := 32) (t := .sp) rfl anyRest) ?_
  refine RT.check_eq false (fun r _ => by rfl) ?_
  simp only [Bool.false_eq_true, if_false]
  refine RT.cons (rt_consume (b := 40) (t := .lparen) rfl anyRest) ?_
  have hl := rt_idLoop fuel vals [] c fuel h.2.2 (by simpa using h.1) h.2.1
  simp only [List.nil_append] at hl
  refine RT.bind hl ?_ (fun _ _ => rfl)
  exact RT.map _ (rt_consume (b := 41) (t := .rparen) rfl anyRest)

theorem rt_parseID_get (c : Choices) (fuel : Nat) :
    RT (parseID fuel) (32 :: kwCase c (kw "nil")) .idGet anyRest := by
  unfold parseID
  refine RT.cons (rt_consume (b := 32) (t := .sp) rfl anyRest) ?_
  refine RT.check_eq true (fun r _ => by rw [headTy_kwCase _ _ (by decide) (by decide)]; rfl) ?_
  simp only [if_true]
  exact RT.map _ (rt_consumeBytesFold (kw "NIL") _ (lowerBytes_kw_upper _ _ _ (by decide) (by decide)))


/-! ### assembling the commands -/

/-- well-formedness of a command (other than the UID prefix and DONE) together with the loop fuel it
needs -/
def BaseOK (fuel : Nat) : Cmd → Prop
  | .done => False
  | .uid _ => False
  | .capability | .idle | .noop | .logout | .check | .close | .expunge | .unselect | .starttls => True
  | .login u p => StrOK u ∧ StrOK p ∧ u.length + p.length + 2 < fuel
  | .select m | .examine m | .create m | .delete m | .subscribe m | .unsubscribe m =>
    MboxOK m ∧ m.length + 1 < fuel
  | .rename a b => MboxOK a ∧ MboxOK b ∧ a.length + b.length + 2 < fuel
  | .list m p | .lsub m p => MboxOK m ∧ ListPatOK p ∧ m.length + p.length + 2 < fuel
  | .status m attrs => MboxOK m ∧ attrs ≠ [] ∧ m.length + attrs.length + 13 < fuel
  | .store s _ fl _ => SeqSetOK s ∧ (∀ x ∈ fl, FlagOK x) ∧ s.length + 10 < fuel ∧ ListFuel fl fuel
  | .copy s m | .move s m => SeqSetOK s ∧ MboxOK m ∧ s.length + m.length + 11 < fuel
  | .uidExpunge s => SeqSetOK s ∧ s.length + 10 < fuel
  | .fetch s attrs => SeqSetOK s ∧ FetchAttrsOK fuel attrs ∧ s.length + attrs.length + 14 < fuel
  | .append m fl dt lit => AppendOK m fl dt lit ∧ m.length + lit.length + 2 < fuel ∧ ListFuel fl fuel
  | .search cs keys => SearchOK fuel cs keys
  | .idGet => True
  | .idSet vals => IdOK fuel vals

/-- the commands that may follow `UID` -/
def IsUidSub : Cmd → Prop
  | .copy _ _ | .move _ _ | .fetch _ _ | .search _ _ | .store _ _ _ _ => True
  | _ => False

def CmdOK (fuel : Nat) : Cmd → Prop
  | .uid sub => IsUidSub sub ∧ BaseOK fuel sub
  | c => BaseOK fuel c

theorem cr_facts {r : Bytes} (h : nextIs .cr r) :
    nextNot isAStringChar r ∧ nextNot isCharTok r ∧ nextNot isListChar r ∧ storeFollow r ∧ seqFollow r ∧
    nextNot isAtomChar r := by
  unfold nextNot storeFollow seqFollow nextNot
  rw [h]; decide

/-- `cmd` is written as the keyword `name` followed by `args`, which the builder selected by `disp name`
reads back -/
def CmdLed (disp : Bytes → Nat → P Cmd) (fuel : Nat) (c : Choices) (pcmd : Cmd) (result : Cmd) : Prop :=
  ∃ (c' : Choices) (name args : Bytes), printCmd c pcmd = kwCase c' name ++ args ∧
    allLower name = true ∧ name.length < 12 ∧
    (∀ r, nextIs .cr r → nextNot isCharTok (args ++ r)) ∧
    RT (disp name fuel) args result (nextIs .cr)

theorem sp_notChar (w r : Bytes) : nextNot isCharTok (32 :: w ++ r) := by rfl


theorem cmdLed_nullary (fuel : Nat) (c : Choices) (cmd : Cmd) (name : Bytes)
    (hp : printCmd c cmd = kwCase c name) (hl : allLower name = true) (hlen : name.length < 12)
    (hh : RT (dispatchCommand name fuel) [] cmd (nextIs .cr)) :
    CmdLed dispatchCommand fuel c cmd cmd :=
  ⟨c, name, [], by simp [hp], hl, hlen, fun r hr => by simpa using (cr_facts hr).2.1, hh⟩

set_option maxHeartbeats 1000000 in
/-- every command other than `UID …` is printed as its keyword followed by what its builder reads -/
theorem base_led (fuel : Nat) (hf : 14 < fuel) (c : Choices) (cmd : Cmd) (h : BaseOK fuel cmd) :
    CmdLed dispatchCommand fuel c cmd cmd := by
  cases cmd with
  | done => exact absurd h id
  | uid sub => exact absurd h id
  | capability => exact cmdLed_nullary fuel c _ (kw "capability") rfl (by decide) (by decide) (RT.ret _ _)
  | idle => exact cmdLed_nullary fuel c _ (kw "idle") rfl (by decide) (by decide) (RT.ret _ _)
  | noop => exact cmdLed_nullary fuel c _ (kw "noop") rfl (by decide) (by decide) (RT.ret _ _)
  | logout => exact cmdLed_nullary fuel c _ (kw "logout") rfl (by decide) (by decide) (RT.ret _ _)
  | check => exact cmdLed_nullary fuel c _ (kw "check") rfl (by decide) (by decide) (RT.ret _ _)
  | close => exact cmdLed_nullary fuel c _ (kw "close") rfl (by decide) (by decide) (RT.ret _ _)
  | expunge => exact cmdLed_nullary fuel c _ (kw "expunge") rfl (by decide) (by decide) (RT.ret _ _)
  | unselect => exact cmdLed_nullary fuel c _ (kw "unselect") rfl (by decide) (by decide) (RT.ret _ _)
  | starttls => exact cmdLed_nullary fuel c _ (kw "starttls") rfl (by decide) (by decide) (RT.ret _ _)
  | login u p =>
    exact ⟨c.l, kw "login", _, rfl, by decide, by decide, fun r _ => sp_notChar _ _,
      (rt_parseLogin c u p h.1 h.2.1 fuel h.2.2).weaken (fun r hr => (cr_facts hr).1)⟩
  | select m =>
    exact ⟨c.l, kw "select", _, rfl, by decide, by decide, fun r _ => sp_notChar _ _,
      (rt_parseMailboxCmd _ c.r m h.1 fuel h.2).weaken (fun r hr => (cr_facts hr).1)⟩
  | examine m =>
    exact ⟨c.l, kw "examine", _, rfl, by decide, by decide, fun r _ => sp_notChar _ _,
      (rt_parseMailboxCmd _ c.r m h.1 fuel h.2).weaken (fun r hr => (cr_facts hr).1)⟩
  | create m =>
    exact ⟨c.l, kw "create", _, rfl, by decide, by decide, fun r _ => sp_notChar _ _,
      (rt_parseMailboxCmd _ c.r m h.1 fuel h.2).weaken (fun r hr => (cr_facts hr).1)⟩
  | delete m =>
    exact ⟨c.l, kw "delete", _, rfl, by decide, by decide, fun r _ => sp_notChar _ _,
      (rt_parseMailboxCmd _ c.r m h.1 fuel h.2).weaken (fun r hr => (cr_facts hr).1)⟩
  | subscribe m =>
    exact ⟨c.l, kw "subscribe", _, rfl, by decide, by decide, fun r _ => sp_notChar _ _,
      (rt_parseMailboxCmd _ c.r m h.1 fuel h.2).weaken (fun r hr => (cr_facts hr).1)⟩
  | unsubscribe m =>
    exact ⟨c.l, kw "unsubscribe", _, rfl, by decide, by decide, fun r _ => sp_notChar _ _,
      (rt_parseMailboxCmd _ c.r m h.1 fuel h.2).weaken (fun r hr => (cr_facts hr).1)⟩
  | rename a b =>
    exact ⟨c.l, kw "rename", _, rfl, by decide, by decide, fun r _ => sp_notChar _ _,
      (rt_parseRename c a b h.1 h.2.1 fuel h.2.2).weaken (fun r hr => (cr_facts hr).1)⟩
  | list m p =>
    exact ⟨c.l, kw "list", _, rfl, by decide, by decide, fun r _ => sp_notChar _ _,
      (rt_parseListCmd _ c m p h.1 h.2.1 fuel h.2.2).weaken (fun r hr => (cr_facts hr).2.2.1)⟩
  | lsub m p =>
    exact ⟨c.l, kw "lsub", _, rfl, by decide, by decide, fun r _ => sp_notChar _ _,
      (rt_parseListCmd _ c m p h.1 h.2.1 fuel h.2.2).weaken (fun r hr => (cr_facts hr).2.2.1)⟩
  | status m attrs =>
    cases attrs with
    | nil => exact absurd rfl h.2.1
    | cons a as =>
      exact ⟨c.l, kw "status", _, rfl, by decide, by decide, fun r _ => sp_notChar _ _,
        (rt_parseStatus c m a as h.1 fuel (by have := h.2.2; simp at this; omega)).weaken (fun _ _ => trivial)⟩
  | store s a fl silent =>
    exact ⟨c.l.l, kw "store", _, rfl, by decide, by decide, fun r _ => sp_notChar _ _,
      (rt_parseStore c s a fl silent h.1 h.2.1 fuel h.2.2.1 h.2.2.2).weaken (fun r hr => (cr_facts hr).2.2.2.1)⟩
  | copy s m =>
    exact ⟨c.l, kw "copy", _, rfl, by decide, by decide, fun r _ => sp_notChar _ _,
      (rt_parseCopyMove _ c s m h.1 h.2.1 fuel h.2.2).weaken (fun r hr => (cr_facts hr).1)⟩
  | move s m =>
    exact ⟨c.l, kw "move", _, rfl, by decide, by decide, fun r _ => sp_notChar _ _,
      (rt_parseCopyMove _ c s m h.1 h.2.1 fuel h.2.2).weaken (fun r hr => (cr_facts hr).1)⟩
  | fetch s attrs =>
    exact ⟨c.l, kw "fetch", _, rfl, by decide, by decide, fun r _ => sp_notChar _ _,
      rt_parseFetch c s attrs h.1 fuel h.2.1 h.2.2⟩
  | append m fl dt lit =>
    exact ⟨c.l.l, kw "append", _, rfl, by decide, by decide, fun r _ => sp_notChar _ _,
      (rt_parseAppend c m fl dt lit h.1 fuel h.2.1 h.2.2).weaken (fun _ _ => trivial)⟩
  | search cs keys =>
    refine ⟨c.l.l, kw "search", _, rfl, by decide, by decide, fun r _ => ?_, rt_parseSearch c cs keys fuel (by omega) h⟩
    unfold printSearchArgs; split <;> rfl
  | idGet =>
    exact ⟨c.l, kw "id", _, rfl, by decide, by decide, fun r _ => sp_notChar _ _,
      (rt_parseID_get c.r fuel).weaken (fun _ _ => trivial)⟩
  | idSet vals =>
    exact ⟨c.l, kw "id", _, rfl, by decide, by decide, fun r _ => sp_notChar _ _,
      (rt_parseID_set c.r vals fuel h).weaken (fun _ _ => trivial)⟩
  | uidExpunge s =>
    refine ⟨c.l.l, kw "uid", _, rfl, by decide, by decide, fun r _ => sp_notChar _ _, ?_⟩
    show RT (parseUID fuel) _ _ _
    unfold parseUID
    refine RT.cons (rt_consume (b := 32) (t := .sp) rfl anyRest) ?_
    refine RT.bind (rt_kw c.l.r (kw "expunge") fuel (by decide) (by simp [kw]; omega)) ?_ (fun r _ => sp_notChar _ _)
    show RT (consume .sp >>= fun _ => parseSeqSet fuel >>= fun s => pure (Cmd.uidExpunge s)) _ _ _
    refine RT.cons (rt_consume (b := 32) (t := .sp) rfl anyRest) ?_
    exact (RT.map _ (rt_parseSeqSet c.r s h.1 fuel h.2)).weaken (fun r hr => (cr_facts hr).2.2.2.2.1)


/-- the commands after `UID SP`: keyword, then the same builder, result wrapped in `UID{…}` -/
theorem uid_led (fuel : Nat) (hf : 14 < fuel) (c : Choices) (sub : Cmd) (hs : IsUidSub sub)
    (h : BaseOK fuel sub) : CmdLed dispatchUID fuel c sub (.uid sub) := by
  cases sub with
  | copy s m =>
    exact ⟨c.l, kw "copy", _, rfl, by decide, by decide, fun r _ => sp_notChar _ _,
      (RT.map Cmd.uid (rt_parseCopyMove _ c s m h.1 h.2.1 fuel h.2.2)).weaken (fun r hr => (cr_facts hr).1)⟩
  | move s m =>
    exact ⟨c.l, kw "move", _, rfl, by decide, by decide, fun r _ => sp_notChar _ _,
      (RT.map Cmd.uid (rt_parseCopyMove _ c s m h.1 h.2.1 fuel h.2.2)).weaken (fun r hr => (cr_facts hr).1)⟩
  | fetch s attrs =>
    exact ⟨c.l, kw "fetch", _, rfl, by decide, by decide, fun r _ => sp_notChar _ _,
      RT.map Cmd.uid (rt_parseFetch c s attrs h.1 fuel h.2.1 h.2.2)⟩
  | search cs keys =>
    refine ⟨c.l.l, kw "search", _, rfl, by decide, by decide, fun r _ => ?_,
      RT.map Cmd.uid (rt_parseSearch c cs keys fuel (by omega) h)⟩
    unfold printSearchArgs; split <;> rfl
  | store s a fl silent =>
    exact ⟨c.l.l, kw "store", _, rfl, by decide, by decide, fun r _ => sp_notChar _ _,
      (RT.map Cmd.uid (rt_parseStore c s a fl silent h.1 h.2.1 fuel h.2.2.1 h.2.2.2)).weaken
        (fun r hr => (cr_facts hr).2.2.2.1)⟩
  | _ => exact absurd hs id

/-- cmd_roundtrip at the level of `parseCommand`: keyword, dispatch, arguments -/
theorem rt_parseCommand (fuel : Nat) (hf : 14 < fuel) (c : Choices) (cmd : Cmd) (h : CmdOK fuel cmd) :
    RT (parseCommand fuel) (printCmd c cmd) cmd (nextIs .cr) := by
  unfold parseCommand
  by_cases hu : ∃ sub, cmd = .uid sub
  · obtain ⟨sub, rfl⟩ := hu
    obtain ⟨c', name, args, hp, hl, hlen, hfol, hrt⟩ := uid_led fuel hf c.r sub h.1 h.2
    show RT _ (kwCase c.l (kw "uid") ++ (32 :: printCmd c.r sub)) _ _
    refine RT.bind (rt_kw c.l (kw "uid") fuel (by decide) (by simp [kw]; omega)) ?_ (fun r _ => sp_notChar _ _)
    show RT (parseUID fuel) _ _ _
    unfold parseUID
    refine RT.cons (rt_consume (b := 32) (t := .sp) rfl anyRest) ?_
    rw [hp]
    exact RT.bind (rt_kw c' name fuel hl (by omega)) hrt hfol
  · have hb : BaseOK fuel cmd := by
      cases cmd with
      | uid sub => exact absurd ⟨sub, rfl⟩ hu
      | _ => exact h
    obtain ⟨c', name, args, hp, hl, hlen, hfol, hrt⟩ := base_led fuel hf c cmd hb
    rw [hp]
    exact RT.bind (rt_kw c' name fuel hl (by omega)) hrt hfol

/-- a complete command line as the printer writes it -/
def CommandOK (fuel : Nat) (cmd : Command) : Prop :=
  14 < fuel ∧
  ((cmd.payload = .done ∧ cmd.tag = []) ∨
   (TagOK cmd.tag ∧ cmd.tag.length < fuel ∧ CmdOK fuel cmd.payload))

theorem parse_done (fuel : Nat) (hf : 14 < fuel) (c : Choices) (tail : Bytes) :
    ∃ s, parse fuel (kwCase c (kw "done") ++ [13, 10] ++ tail) = .ok ⟨[], .done⟩ s ∧ s.rest = tail := by
  unfold parse parseLine
  rw [bind_ok (advance_init _)]
  -- the word DONE is read as a tag
  have hchars := kwCase_char c (kw "done") (allLower_spec (by decide))
  have hlb := lowerBytes_kwCase c (kw "done")
  have hlen := kwCase_length c (kw "done")
  generalize kwCase c (kw "done") = w at hchars hlb hlen
  match w, hlen with
  | [a, b, d, e], _ =>
    have htag : ∀ x ∈ [a, b, d, e], isTagChar (tokTy x) = true := by
      intro x hx
      have := hchars x hx
      simp only [isCharTok, beq_iff_eq] at this
      rw [this]; rfl
    obtain ⟨c1, e1⟩ := rt_consumeCollectPrev isTagChar a [b, d, e] (htag a (by simp))
      (fun x hx => htag x (by simp [hx])) fuel (by simp; omega) ⟨Tok.eof, 0, 0⟩ (13 :: 10 :: tail) (by rfl)
    have e1' : parseTag fuel (load ⟨Tok.eof, 0, 0⟩ ([a, b, d, e] ++ [13, 10] ++ tail)) =
        .ok [a, b, d, e] (load c1 (13 :: 10 :: tail)) := by unfold parseTag; simpa using e1
    rw [bind_ok e1']
    have hdone : lowerBytes [a, b, d, e] = kw "done" := by rw [hlb]; decide
    simp only [hdone, if_true, bind_pure]
    rw [consume_load (by rfl)]
    simp only [bind_check, load_cur_ty, headTy_cons]
    exact ⟨_, rfl, rfl⟩


/-- cmd_roundtrip: the printed line (any choices) followed by any bytes parses to the command, and exactly
the line has been consumed (its LF is the look-ahead token) -/
theorem parse_print (fuel : Nat) (c : Choices) (cmd : Command) (h : CommandOK fuel cmd) (tail : Bytes) :
    ∃ s, parse fuel (print c cmd ++ tail) = .ok cmd s ∧ s.rest = tail := by
  obtain ⟨hf, h⟩ := h
  obtain ⟨tag, payload⟩ := cmd
  rcases h with ⟨hd, ht⟩ | ⟨ht, htl, hc⟩
  · simp only at hd ht
    subst hd ht
    exact parse_done fuel hf c tail
  · simp only at ht htl hc
    have hnd : payload ≠ .done := by
      intro e
      subst e
      exact hc
    have hp : print c ⟨tag, payload⟩ = tag ++ (32 :: (printCmd c payload ++ [13, 10])) := by
      cases payload <;> first | rfl | exact absurd rfl hnd
    rw [hp]
    exact parseLine_frame tag ht (printCmd c payload) payload (nextIs .cr) fuel htl
      (rt_parseCommand fuel hf c payload hc) (fun _ => rfl) tail

end Gluon.Parse
