/-
C16 helper lemmas, part 1: the bridge between the model (Model/SeqSet.lean) and the abstract spec
(Spec/SeqSetSpec.lean), Go integer conversions, list slices, and message sequence numbers.
-/
import GluonModel.Model.SeqSet
import GluonModel.Spec.SeqSetSpec

namespace Gluon
namespace SeqSet
open SeqSetSpec

/-! ### from the model's types to the spec's -/

/-- a parser number as abstract `seq-number` (0 is `*`) -/
def absNum (x : Int) : SNum := if x = 0 then .star else .num x.toNat

/-- `command.SeqRange` as abstract item; `ParseSeqRange` renders the single number `n` as `n:n` -/
def absRange (r : SeqRange) : SItem :=
  if r.b = r.e then .one (absNum r.b) else .range (absNum r.b) (absNum r.e)

def absSet (set : List SeqRange) : SSet := set.map absRange

/-- what the client sees of a selected message: (sequence number, UID) -/
def obs (m : SeqMsg) : Sel := (m.seq, m.msg.uid)

/-- the numbers are parser output: `*` (0) or positive -/
def Parsed (set : List SeqRange) : Prop := ∀ r ∈ set, 0 ≤ r.b ∧ 0 ≤ r.e

/-- **the named hypothesis of the `_partial` theorems**: every number of the set is below 2^32
    (fits `imap.SeqID` / `imap.UID` without truncation). -/
def Fits32 (set : List SeqRange) : Prop := ∀ r ∈ set, r.b < 4294967296 ∧ r.e < 4294967296

/-- a weaker condition, enough for the absence of panics: no number other than `*` truncates to 0 -/
def NoTruncZero (set : List SeqRange) : Prop :=
  ∀ r ∈ set, (toU32 r.b = 0 → r.b = 0) ∧ (toU32 r.e = 0 → r.e = 0)

/-- the numbers that occur in a set -/
def SeqRange.nums (r : SeqRange) : List Int := [r.b, r.e]

/-! ### conversions -/

theorem toU32_of_lt {x : Int} (h0 : 0 ≤ x) (h : x < 4294967296) : toU32 x = x.toNat := by
  unfold toU32; omega

theorem toU32_nat {n : Nat} (h : n < 4294967296) : toU32 (n : Int) = n := by
  unfold toU32; omega

theorem toU32_lt (x : Int) : toU32 x < 4294967296 := by
  unfold toU32; omega

theorem u32Pred_pos {x : Nat} (h1 : 1 ≤ x) : u32Pred x = x - 1 := by
  unfold u32Pred
  have : ¬ x = 0 := by omega
  simp [this]

theorem u32Pred_zero : u32Pred 0 = 4294967295 := by simp [u32Pred]

/-! ### numbering -/

theorem number_obs (l : List SMsg) (first : Nat) (h : first + l.length ≤ 4294967296) :
    (number (first : Int) l).map obs = entriesFrom first (l.map (·.uid)) := by
  induction l generalizing first with
  | nil => simp [number, entriesFrom]
  | cons m rest ih =>
    simp only [List.length_cons] at h
    have h1 : toU32 (first : Int) = first := toU32_nat (by omega)
    have h2 : ((first : Int) + 1) = ((first + 1 : Nat) : Int) := by omega
    simp only [number, List.map_cons, entriesFrom, obs, h1]
    rw [h2, ← ih (first + 1) (by omega)]

theorem number_length (first : Int) (l : List SMsg) : (number first l).length = l.length := by
  induction l generalizing first with
  | nil => simp [number]
  | cons m rest ih => simp [number, ih]

/-- every numbered message sits at the position its number says -/
theorem number_sound (s : Snap) (k : Nat) (cnt : Nat) (h : k + cnt ≤ s.length) (hl : s.length < 4294967296) :
    ∀ m ∈ number ((k : Int) + 1) ((s.drop k).take cnt), 1 ≤ m.seq ∧ s[m.seq - 1]? = some m.msg := by
  induction cnt generalizing k with
  | zero => simp [number]
  | succ c ih =>
    intro m hm
    have hk : k < s.length := by omega
    rw [List.drop_eq_getElem_cons hk] at hm
    simp only [List.take_succ_cons, number, List.mem_cons] at hm
    rcases hm with rfl | hm
    · have : toU32 ((k : Int) + 1) = k + 1 := by
        have := toU32_nat (n := k + 1) (by omega); simpa using this
      simp [this]
    · have h2 : ((k : Int) + 1 + 1) = ((k + 1 : Nat) : Int) + 1 := by omega
      rw [h2] at hm
      exact ih (k + 1) (by omega) m hm

/-! ### slices of the spec's numbered list -/

theorem entriesFrom_length (n : Nat) (v : View) : (entriesFrom n v).length = v.length := by
  induction v generalizing n with
  | nil => simp [entriesFrom]
  | cons u rest ih => simp [entriesFrom, ih]

theorem entriesFrom_fst_ge {n : Nat} {v : View} {e : Sel} (h : e ∈ entriesFrom n v) : n ≤ e.1 := by
  induction v generalizing n with
  | nil => simp [entriesFrom] at h
  | cons u rest ih =>
    simp only [entriesFrom, List.mem_cons] at h
    rcases h with rfl | h
    · simp
    · have := ih h; omega

/-- phase B: once the numbering has reached `lo`, the filter is a `take`. -/
theorem filter_seq_take (v : View) (n lo hi : Nat) (h : lo ≤ n) :
    (entriesFrom n v).filter (fun e => decide (lo ≤ e.1) && decide (e.1 ≤ hi)) = entriesFrom n (v.take (hi + 1 - n)) := by
  induction v generalizing n with
  | nil => simp [entriesFrom]
  | cons u rest ih =>
    simp only [entriesFrom, List.filter_cons]
    by_cases hn : n ≤ hi
    · have e1 : hi + 1 - n = (hi + 1 - (n + 1)) + 1 := by omega
      rw [e1, List.take_succ_cons]
      simp only [entriesFrom]
      rw [← ih (n + 1) (by omega)]
      simp [h, hn]
    · have e1 : hi + 1 - n = 0 := by omega
      have e2 : hi + 1 - (n + 1) = 0 := by omega
      have := ih (n + 1) (by omega)
      rw [e2] at this
      simp only [List.take_zero, entriesFrom] at this
      rw [e1]
      simp [hn, this, entriesFrom]

/-- the messages numbered `lo … hi` are the slice `v[lo-n : hi+1-n]` of a list numbered from `n`. -/
theorem filter_seq_slice (v : View) (n lo hi : Nat) (h : n ≤ lo) :
    (entriesFrom n v).filter (fun e => decide (lo ≤ e.1) && decide (e.1 ≤ hi))
      = entriesFrom lo ((v.drop (lo - n)).take (hi + 1 - lo)) := by
  induction v generalizing n with
  | nil => simp [entriesFrom]
  | cons u rest ih =>
    by_cases hn : n = lo
    · subst hn
      simpa using filter_seq_take (u :: rest) n n hi (Nat.le_refl _)
    · have e1 : lo - n = (lo - (n + 1)) + 1 := by omega
      rw [e1, List.drop_succ_cons, ← ih (n + 1) (by omega)]
      simp only [entriesFrom, List.filter_cons]
      have : ¬ lo ≤ n := by omega
      simp [this]

/-- `seqBetween` as a slice -/
theorem seqBetween_slice (v : View) (lo hi : Nat) (h1 : 1 ≤ lo) :
    seqBetween v lo hi = entriesFrom lo ((v.drop (lo - 1)).take (hi + 1 - lo)) := by
  unfold seqBetween entries
  exact filter_seq_slice v 1 lo hi h1

end SeqSet
end Gluon
