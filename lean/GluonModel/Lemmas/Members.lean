/- Which (id, uid) pairs a snapshot holds before and after non-expunge responders. -/
import GluonModel.Lemmas.NoExpunge

namespace Gluon

/-- `a` and `b` are the same message instance (same internal id, same UID) -/
def SameInst (a b : SMsg) : Prop := a.id = b.id ∧ a.uid = b.uid

theorem Snap.mem_insert {s s' : Snap} {id uid fl} (h : s.insert id uid fl = .ok s') :
    ∀ m, m ∈ s' ↔ m ∈ s ∨ m = Snap.mkMsg id uid fl := by
  intro m
  simp only [Snap.insert] at h
  split at h
  · split at h
    · simp at h
    · simp at h; subst h; simp
  · simp at h; subst h; simp

theorem Snap.mem_insertOutOfOrder {s s' : Snap} {id uid fl} (h : s.insertOutOfOrder id uid fl = .ok s') :
    ∀ m, m ∈ s' ↔ m ∈ s ∨ m = Snap.mkMsg id uid fl := by
  intro m
  simp only [Snap.insertOutOfOrder] at h
  split at h
  · simp at h
  · simp at h; subst h
    have : m ∈ s ↔ m ∈ List.take (s.lowerBound uid) s ∨ m ∈ List.drop (s.lowerBound uid) s := by
      rw [← List.mem_append, List.take_append_drop]
    simp only [List.mem_append, List.mem_cons, this]
    grind

theorem Snap.mem_setFlags {s : Snap} {id fl} {m' : SMsg} (h : m' ∈ s.setFlags id fl) :
    ∃ m ∈ s, SameInst m m' := by
  simp only [Snap.setFlags, List.mem_map] at h
  obtain ⟨m, hm, rfl⟩ := h
  refine ⟨m, hm, ?_⟩
  split <;> simp [SameInst]

theorem Snap.setFlags_mem {s : Snap} {id fl} {m : SMsg} (h : m ∈ s) :
    ∃ m' ∈ s.setFlags id fl, SameInst m m' := by
  refine ⟨_, List.mem_map_of_mem h, ?_⟩
  split <;> simp [SameInst]

theorem Snap.has_iff {s : Snap} {id : MsgId} : s.has id = true ↔ ∃ m ∈ s, m.id = id := by
  simp [Snap.has]

/-- a non-expunge responder keeps every message instance of the snapshot -/
theorem handle_keeps (r : Responder) (hr : r.isExpunge = false) (close : Bool) (sid : StateId) (snap : Snap) :
    ∀ m ∈ snap, ∃ m' ∈ (r.handle close sid snap).snap, SameInst m m' := by
  intro m hm
  have self : ∃ m' ∈ snap, SameInst m m' := ⟨m, hm, rfl, rfl⟩
  cases r with
  | expunge id => simp at hr
  | «exists» id uid fl t o =>
    simp only [Responder.handle]
    split
    · exact self
    · split
      · exact self
      · next snap' hins =>
        have hmem : m ∈ snap' := by
          split at hins
          · exact (Snap.mem_insert hins m).mpr (Or.inl hm)
          · exact (Snap.mem_insertOutOfOrder hins m).mpr (Or.inl hm)
        split <;> exact ⟨m, hmem, rfl, rfl⟩
  | fetch id fl op a b c =>
    simp only [Responder.handle]
    split
    · exact self
    · split
      · exact Snap.setFlags_mem hm
      · split
        · exact Snap.setFlags_mem hm
        · split <;> exact Snap.setFlags_mem hm

/-- a non-expunge responder adds at most instances of ids the snapshot did not hold -/
theorem handle_new (r : Responder) (hr : r.isExpunge = false) (close : Bool) (sid : StateId) (snap : Snap) :
    ∀ m' ∈ (r.handle close sid snap).snap, (∃ m ∈ snap, SameInst m m') ∨ snap.has m'.id = false := by
  intro m' hm'
  have self : ∀ x ∈ snap, (∃ m ∈ snap, SameInst m x) ∨ snap.has x.id = false :=
    fun x hx => Or.inl ⟨x, hx, rfl, rfl⟩
  cases r with
  | expunge id => simp at hr
  | «exists» id uid fl t o =>
    simp only [Responder.handle] at hm'
    split at hm'
    · exact self _ hm'
    · next hhas =>
      split at hm'
      · exact self _ hm'
      · next snap' hins =>
        have hmem : m' ∈ snap' := by split at hm' <;> exact hm'
        have : m' ∈ snap ∨ ∃ f, m' = Snap.mkMsg id uid f := by
          split at hins
          · exact ((Snap.mem_insert hins m').mp hmem).imp (fun h => h) (fun h => ⟨_, h⟩)
          · exact ((Snap.mem_insertOutOfOrder hins m').mp hmem).imp (fun h => h) (fun h => ⟨_, h⟩)
        rcases this with h | ⟨f, h⟩
        · exact self _ h
        · right; subst h; simpa [Snap.mkMsg] using hhas
  | fetch id fl op a b c =>
    simp only [Responder.handle] at hm'
    split at hm'
    · exact self _ hm'
    · have key : ∀ f, m' ∈ snap.setFlags id f → (∃ m ∈ snap, SameInst m m') ∨ snap.has m'.id = false :=
        fun f h => Or.inl (Snap.mem_setFlags h)
      split at hm'
      · exact key _ hm'
      · split at hm'
        · exact key _ hm'
        · split at hm' <;> exact key _ hm'

theorem handle_has_mono (r : Responder) (hr : r.isExpunge = false) (close : Bool) (sid : StateId) (snap : Snap)
    (id : MsgId) (h : snap.has id = true) : (r.handle close sid snap).snap.has id = true := by
  obtain ⟨m, hm, rfl⟩ := Snap.has_iff.mp h
  obtain ⟨m', hm', hs⟩ := handle_keeps r hr close sid snap m hm
  exact Snap.has_iff.mpr ⟨m', hm', hs.1.symm⟩

theorem handleAll_keeps (close : Bool) (sid : StateId) (snap : Snap) (rs : List Responder)
    (h : ∀ r ∈ rs, r.isExpunge = false) :
    ∀ m ∈ snap, ∃ m' ∈ (handleAll close sid snap rs).1, SameInst m m' := by
  induction rs generalizing snap with
  | nil => intro m hm; exact ⟨m, hm, rfl, rfl⟩
  | cons r rs ih =>
    intro m hm
    obtain ⟨m1, hm1, hs1⟩ := handle_keeps r (h r List.mem_cons_self) close sid snap m hm
    simp only [handleAll]
    split
    · exact ⟨m1, hm1, hs1⟩
    · obtain ⟨m2, hm2, hs2⟩ := ih (r.handle close sid snap).snap (fun x hx => h x (List.mem_cons_of_mem _ hx)) m1 hm1
      exact ⟨m2, hm2, hs1.1.trans hs2.1, hs1.2.trans hs2.2⟩

theorem handleAll_new (close : Bool) (sid : StateId) (snap : Snap) (rs : List Responder)
    (h : ∀ r ∈ rs, r.isExpunge = false) :
    ∀ m' ∈ (handleAll close sid snap rs).1, (∃ m ∈ snap, SameInst m m') ∨ snap.has m'.id = false := by
  induction rs generalizing snap with
  | nil => intro m hm; exact Or.inl ⟨m, hm, rfl, rfl⟩
  | cons r rs ih =>
    intro m' hm'
    have hr := h r List.mem_cons_self
    simp only [handleAll] at hm'
    split at hm'
    · exact handle_new r hr close sid snap m' hm'
    · rcases ih (r.handle close sid snap).snap (fun x hx => h x (List.mem_cons_of_mem _ hx)) m' hm' with ⟨m1, hm1, hs1⟩ | hno
      · rcases handle_new r hr close sid snap m1 hm1 with ⟨m, hm, hs⟩ | hno
        · exact Or.inl ⟨m, hm, hs.1.trans hs1.1, hs.2.trans hs1.2⟩
        · right; rw [← hs1.1]; exact hno
      · right
        cases hh : snap.has m'.id with
        | false => rfl
        | true => rw [handle_has_mono r hr close sid snap _ hh] at hno; exact absurd hno (by simp)

end Gluon
