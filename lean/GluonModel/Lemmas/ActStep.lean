/-
C03 helper lemmas, part 11: `stateDBWrite` (two transactions) and the dispatch of `Act.step`.
-/
import GluonModel.Lemmas.ActAppend

namespace Gluon.C03
open Gluon.DB Gluon.Act

/-! ### the second transaction only clears `\Recent` -/

theorem absP_setTable_eq (P : Proj) (mb : MailboxId) (t t' : MTable) (ht : P.table? mb = some t) (h : absTable t' = absTable t)
    (store : List (MessageId × Act.Bytes)) (n : Nat) : absP (P.setTable mb t') store n = absP P store n := by
  unfold absP
  simp only [MailboxRef.State.mk.injEq, and_true]
  refine ⟨?_, rfl⟩
  show List.map (absMailbox (P.setTable mb t')) P.mailboxes = _
  apply List.map_congr_left
  intro m _
  simp only [absMailbox]
  by_cases hm : m.id = mb
  · rw [hm, Proj.table?_setTable, ht]; simp [h]
  · rw [Proj.table?_setTable_ne _ _ _ _ hm]

/-- what the second transaction may have done to the state the first one committed -/
def RecentOnly (s1 s' : State) : Prop :=
  s'.store = s1.store ∧ s'.nextId = s1.nextId ∧ s'.nextRid = s1.nextRid ∧ s'.db.msgFlags = s1.db.msgFlags ∧
    s'.db.messages = s1.db.messages ∧ (Inv s1 → Inv s' ∧ abs s' = abs s1)

theorem RecentOnly.refl (s : State) : RecentOnly s s := ⟨rfl, rfl, rfl, rfl, rfl, fun h => ⟨h, rfl⟩⟩

theorem clearRecentAll_ok (l : List (MailboxId × MessageId)) : ∀ (s1 : State) (db' : DB),
    clearRecentAll l s1.db = .ok ((), db') → RecentOnly s1 { s1 with db := db' } := by
  induction l with
  | nil =>
    intro s1 db' h
    simp only [clearRecentAll, pure, StateT.pure, Except.pure, Except.ok.injEq, Prod.mk.injEq, true_and] at h
    subst h
    exact RecentOnly.refl s1
  | cons p rest ih =>
    intro s1 db' h
    obtain ⟨mb, m⟩ := p
    simp only [clearRecentAll, bind, StateT.bind, Except.bind] at h
    cases h1 : clearRecentFlagInMailboxOnMessage mb m s1.db with
    | error e => rw [h1] at h; simp at h
    | ok v =>
      obtain ⟨_, db1⟩ := v
      rw [h1] at h
      simp only [] at h
      obtain ⟨t, ht, hp⟩ := clearRecent_effect mb m s1.db db1 h1
      have r2 := ih { s1 with db := db1 } db' h
      obtain ⟨a1, a2, a3, a4, a5, a6⟩ := r2
      have hfm : db1.msgFlags = s1.db.msgFlags ∧ db1.messages = s1.db.messages := by
        have := congrArg (fun P : Proj => (P.msgFlags, P.messages)) hp
        simpa [proj, Proj.setTable] using this
      refine ⟨a1, a2, a3, by rw [a4]; exact hfm.1, by rw [a5]; exact hfm.2, ?_⟩
      intro hInv
      have hst : SortedT t := hInv.sorted mb t (by simpa using ht)
      have hInv1 : Inv { s1 with db := db1 } := by
        unfold Inv
        rw [hp]
        exact PInv.setTable hInv mb _ (hst.mapRows _ (by intro r; split <;> rfl))
      obtain ⟨b1, b2⟩ := a6 hInv1
      refine ⟨b1, ?_⟩
      rw [b2]
      unfold abs
      simp only
      rw [hp]
      apply absP_setTable_eq _ _ t _ (by simpa using ht)
      have := absTable_mapRows t hst (fun r => if r.msgId == m then { r with recent := false } else r)
        (by intro r; split <;> rfl) id (by intro r; simp only [absEntry, id]; split <;> rfl)
      rw [this]; simp

theorem stateDBWrite_ok {α : Type} (f : ATx (List Upd × α)) (q : Second) (s s' : State) (a : α)
    (h : stateDBWrite f q s = (.ok a, s')) : ∃ ups s1, f s = .ok ((ups, a), s1) ∧ RecentOnly s1 s' := by
  unfold stateDBWrite writeA at h
  cases hf : f s with
  | error e => rw [hf] at h; simp at h
  | ok v =>
    obtain ⟨⟨ups, a1⟩, s1⟩ := v
    rw [hf] at h
    simp only [] at h
    by_cases hu : ups.isEmpty = true
    · simp only [hu, if_true, Prod.mk.injEq, Except.ok.injEq] at h
      obtain ⟨rfl, rfl⟩ := h
      exact ⟨ups, s1, rfl, RecentOnly.refl _⟩
    · simp only [hu, Bool.false_eq_true, if_false] at h
      by_cases hq : q.fails = true
      · simp [hq] at h
      · simp only [hq, Bool.false_eq_true, if_false] at h
        unfold write at h
        cases hc : clearRecentAll q.clearRecent s1.db with
        | error e => rw [hc] at h; simp at h
        | ok w =>
          obtain ⟨_, db'⟩ := w
          rw [hc] at h
          simp only [Prod.mk.injEq, Except.ok.injEq] at h
          obtain ⟨rfl, rfl⟩ := h
          exact ⟨ups, s1, rfl, clearRecentAll_ok _ s1 db' hc⟩

theorem stateDBWrite_err {α : Type} (f : ATx (List Upd × α)) (q : Second) (s s' : State) (e : Err)
    (h : stateDBWrite f q s = (.error e, s')) : e = .secondTx ∨ s' = s := by
  unfold stateDBWrite writeA at h
  cases hf : f s with
  | error e1 => rw [hf] at h; simp only [Prod.mk.injEq, Except.error.injEq] at h; exact Or.inr h.2.symm
  | ok v =>
    obtain ⟨⟨ups, a1⟩, s1⟩ := v
    rw [hf] at h
    simp only [] at h
    left
    by_cases hu : ups.isEmpty = true
    · simp [hu] at h
    · simp only [hu, Bool.false_eq_true, if_false] at h
      by_cases hq : q.fails = true
      · simp only [hq, if_true, Prod.mk.injEq, Except.error.injEq] at h; exact h.1.symm
      · simp only [hq, Bool.false_eq_true, if_false] at h
        unfold write at h
        cases hc : clearRecentAll q.clearRecent s1.db with
        | error e2 => rw [hc] at h; simp only [Prod.mk.injEq, Except.error.injEq] at h; exact h.1.symm
        | ok w => obtain ⟨_, db'⟩ := w; rw [hc] at h; simp at h

theorem answerOf_ok {α : Type} (r : Except Err α × State) (h : (answerOf r).1 = .ok) : ∃ a, r = (.ok a, (answerOf r).2) := by
  obtain ⟨x, s⟩ := r
  cases x with
  | ok a => exact ⟨a, rfl⟩
  | error e => simp [answerOf] at h

theorem answerOf_no {α : Type} (r : Except Err α × State) (e : Err) (h : (answerOf r).1 = .no e) : r = (.error e, (answerOf r).2) := by
  obtain ⟨x, s⟩ := r
  cases x with
  | ok a => simp [answerOf] at h
  | error e' => simp only [answerOf, Answer.no.injEq] at h; subst h; rfl

/-! ### mailbox lookups of a command -/

theorem selected_ok {E : Env} {s : State} {name : String} {m : MboxRow} (h : selected E s name = .ok m) :
    m ∈ s.db.mailboxes ∧ m.name = name := by
  unfold selected at h
  cases hg : getMailboxByName s.db name with
  | ok m' =>
    rw [hg] at h
    simp only at h
    split at h
    · simp at h
    · simp only [Except.ok.injEq] at h; subst h; exact getMailboxByName_ok hg
  | error e =>
    rw [hg] at h
    cases e <;> simp at h

theorem selected_err {E : Env} {s : State} {name : String} {a : Answer} (h : selected E s name = .error a) :
    a = .outOfScope ∨ ∃ e, a = .no e ∧ e ≠ .secondTx := by
  unfold selected at h
  cases hg : getMailboxByName s.db name with
  | ok m' =>
    rw [hg] at h
    simp only at h
    split at h
    · simp only [Except.error.injEq] at h; exact Or.inl h.symm
    · simp at h
  | error e =>
    rw [hg] at h
    right
    cases e <;> simp only [Except.error.injEq] at h <;> exact ⟨_, h.symm, by simp⟩

theorem destination_ok {E : Env} {s : State} {name : String} {m : MboxRow} (h : destination E s name = .ok m) :
    m ∈ s.db.mailboxes ∧ m.name = name := by
  unfold destination at h
  split at h
  · simp at h
  · cases hg : getMailboxByName s.db name with
    | ok m' => rw [hg] at h; simp only [Except.ok.injEq] at h; subst h; exact getMailboxByName_ok hg
    | error e => rw [hg] at h; cases e <;> simp at h

theorem destination_err {E : Env} {s : State} {name : String} {a : Answer} (h : destination E s name = .error a) :
    ∃ e, a = .no e ∧ e ≠ .secondTx := by
  unfold destination at h
  split at h
  · simp only [Except.error.injEq] at h; exact ⟨_, h.symm, by simp⟩
  · cases hg : getMailboxByName s.db name with
    | ok m' => rw [hg] at h; simp at h
    | error e => rw [hg] at h; cases e <;> simp only [Except.error.injEq] at h <;> exact ⟨_, h.symm, by simp⟩

end Gluon.C03
