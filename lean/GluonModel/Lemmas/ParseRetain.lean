/-
Retained memory: what the string parsers return is no longer than what they consumed.
-/
import GluonModel.Lemmas.ParseTerm

namespace Gluon.Parse
set_option synthInstance.maxSize 4096
set_option synthInstance.maxHeartbeats 400000

/-! ### what a string parser returns is paid for by the bytes it consumed -/

theorem bind_ok_inv {x : P α} {f : α → P β} {s s' : PState} {b : β} (h : (x >>= f) s = .ok b s') :
    ∃ a s1, x s = .ok a s1 ∧ f a s1 = .ok b s' := by
  rw [bind_eq] at h
  cases hx : x s with
  | ok a s1 => rw [hx] at h; exact ⟨a, s1, rfl, h⟩
  | err e s1 => rw [hx] at h; cases h
  | fuel => rw [hx] at h; cases h

theorem matchesWith_true_len (f : TokTy → Bool) [hf : NoEOF f] (s s' : PState)
    (h : matchesWith f s = .ok true s') : s'.input.length + 1 = s.input.length := by
  unfold matchesWith at h
  split at h
  · rename_i hc
    have hne : s.cur.ty ≠ .eof := by intro e; rw [e, hf.ne] at hc; cases hc
    obtain ⟨s1, e, hi, _⟩ := advance_input s
    rw [bind_eq, e] at h
    cases h
    rw [hi]
    simp [PState.input, hne]
  · cases h

theorem consumeWith_ok_len (f : TokTy → Bool) [hf : NoEOF f] (s s' : PState)
    (h : consumeWith f s = .ok () s') : s'.input.length + 1 = s.input.length ∧ Loaded s' := by
  unfold consumeWith at h
  split at h
  · rename_i hc
    have hne : s.cur.ty ≠ .eof := by intro e; rw [e, hf.ne] at hc; cases hc
    obtain ⟨s1, e, hi, hl⟩ := advance_input s
    rw [e] at h
    cases h
    rw [hi]
    exact ⟨by simp [PState.input, hne], hl⟩
  · cases h

theorem quotedLoop_len (n : Nat) : ∀ s r s', Loaded s → quotedLoop n s = .ok r s' →
    r.length + s'.input.length ≤ s.input.length := by
  induction n with
  | zero => intro s r s' _ h; cases h
  | succ n ih =>
    intro s r s' hl h
    unfold quotedLoop at h
    obtain ⟨b, s1, hm⟩ := matchesWith_cases isQuotedChar s
    rw [bind_eq, hm] at h
    cases b with
    | true =>
      simp only [if_true] at h
      obtain ⟨hl1, _⟩ := Shrinks.sh (p := matchesWith _) s true s1 hl hm
      have hlen := matchesWith_true_len _ s s1 hm
      have h' : (quotedLoop n >>= fun r => pure (s1.prev.val :: r)) s1 = .ok r s' := h
      obtain ⟨r1, s2, hq, hp⟩ := bind_ok_inv h'
      have := ih s1 r1 s2 hl1 hq
      cases hp
      simp only [List.length_cons]
      omega
    | false =>
      have hs1 := matchesWith_false_eq _ s s1 hm
      subst hs1
      simp only [Bool.false_eq_true, if_false] at h
      unfold matchesTy at h
      obtain ⟨b2, s2, hm2⟩ := matchesWith_cases (fun t => t == TokTy.backslash) s1
      rw [bind_eq, hm2] at h
      cases b2 with
      | false =>
        simp only [Bool.false_eq_true, if_false] at h
        have hs2 := matchesWith_false_eq _ s1 s2 hm2
        cases h
        rw [hs2]; simp
      | true =>
        simp only [if_true] at h
        obtain ⟨hl2, _⟩ := Shrinks.sh (p := matchesWith _) s1 true s2 hl hm2
        have hlen2 := matchesWith_true_len _ s1 s2 hm2
        obtain ⟨_, s3, hc, h3⟩ := bind_ok_inv h
        obtain ⟨hlen3, hl3⟩ := consumeWith_ok_len _ s2 s3 hc
        have h3' : (quotedLoop n >>= fun r => pure (s3.prev.val :: r)) s3 = .ok r s' := h3
        obtain ⟨r1, s4, hq, hp⟩ := bind_ok_inv h3'
        have := ih s3 r1 s4 hl3 hq
        cases hp
        simp only [List.length_cons]
        omega

theorem parseQuoted_len (n : Nat) (s : PState) (r : Bytes) (s' : PState) (hl : Loaded s)
    (h : parseQuoted n s = .ok r s') : r.length + s'.input.length ≤ s.input.length := by
  unfold parseQuoted at h
  obtain ⟨_, s1, h1, h⟩ := bind_ok_inv h
  obtain ⟨q, s2, h2, h⟩ := bind_ok_inv h
  obtain ⟨_, s3, h3, h⟩ := bind_ok_inv h
  cases h
  obtain ⟨hl1, hs1⟩ := Shrinks.sh (p := consume .dquote) s () s1 hl h1
  have := quotedLoop_len n s1 r s2 hl1 h2
  obtain ⟨hl2, _⟩ := Shrinks.sh (p := quotedLoop n) s1 r s2 hl1 h2
  obtain ⟨_, hs3⟩ := Shrinks.sh (p := consume .dquote) s2 () s' hl2 h3
  have a := hs1.length_le
  have b := hs3.length_le
  omega

/-- a literal of `k` bytes consumes `k` bytes — one less only when the input ends right after `{1}` CRLF
(`ConsumeBytes` then takes the LF it still has as `currentByte`; the following `Advance` hits EOF) -/
theorem literalTail_len (k : Nat) (hk : k ≠ 0) (s : PState) (r : Bytes) (s' : PState) (hl : Loaded s)
    (h : (scannerConsumeBytes k >>= fun lit => advance >>= fun _ => pure lit) s = .ok r s') :
    r.length + s'.input.length ≤ s.input.length + 1 := by
  rcases scannerConsumeBytes_cases k s with ⟨e, s1, he⟩ | hok
  · rw [bind_eq, he] at h; cases h
  · have hlenk : ¬ s.rest.length < k - 1 := by
      intro hlt
      unfold scannerConsumeBytes at hok
      simp [hk, hlt] at hok
    obtain ⟨s1, e, hi, _⟩ := advance_input { s with rest := s.rest.drop (k - 1) }
    rw [bind_eq, hok] at h
    simp only [bind_eq, e] at h
    cases h
    rw [hi]
    have := (rest_suffix_input s).length_le
    simp only [List.length_cons, List.length_take, List.length_drop]
    omega

theorem parseLiteral_len (n : Nat) (s : PState) (r : Bytes) (s' : PState) (hl : Loaded s)
    (h : parseLiteral n s = .ok r s') : r.length + s'.input.length ≤ s.input.length + 1 := by
  unfold parseLiteral at h
  obtain ⟨_, s1, h1, h⟩ := bind_ok_inv h
  obtain ⟨size, s2, h2, h⟩ := bind_ok_inv h
  obtain ⟨hl1, hs1⟩ := Shrinks.sh (p := consume .lcurly) s () s1 hl h1
  obtain ⟨hl2, hs2⟩ := Shrinks.sh (p := parseNumber n) s1 size s2 hl1 h2
  split at h
  · cases h
  · split at h
    · cases h
    · obtain ⟨_, s3, h3, h⟩ := bind_ok_inv h
      obtain ⟨_, s4, h4, h⟩ := bind_ok_inv h
      obtain ⟨b, s5, h5, h⟩ := bind_ok_inv h
      obtain ⟨_, s6, h6, h⟩ := bind_ok_inv h
      obtain ⟨_, s7, h7, h⟩ := bind_ok_inv h
      obtain ⟨hl3, hs3⟩ := Shrinks.sh (p := consume .rcurly) s2 () s3 hl2 h3
      obtain ⟨hl4, hs4⟩ := Shrinks.sh (p := consume .cr) s3 () s4 hl3 h4
      obtain ⟨hl5, hs5⟩ := Shrinks.sh (p := check .lf) s4 b s5 hl4 h5
      obtain ⟨hl6, hs6⟩ := Shrinks.sh (p := bumpContsIf b) s5 () s6 hl5 h6
      obtain ⟨hl7, hs7⟩ := Shrinks.sh (p := consume .lf) s6 () s7 hl6 h7
      have a1 := hs1.length_le; have a2 := hs2.length_le; have a3 := hs3.length_le
      have a4 := hs4.length_le; have a5 := hs5.length_le; have a6 := hs6.length_le; have a7 := hs7.length_le
      split at h
      · cases h; simp only [List.length_nil]; omega
      · rename_i hnz _ _
        obtain ⟨_, s8, h8, htail⟩ := bind_ok_inv h
        have hs8 : s8 = s7 := by
          unfold goMakeBytes at h8
          split at h8 <;> cases h8
          rfl
        rw [hs8] at htail
        have hk : size.toNat ≠ 0 := by omega
        have := literalTail_len size.toNat hk s7 r s' hl7 htail
        omega

/-- **string_retained_le_consumed**: what `ParseAString` returns is never longer than the bytes it consumed
(plus the one stale byte of the `{1}` CRLF end-of-input corner) -/
theorem parseAString_len (n : Nat) (s : PState) (r : Bytes) (s' : PState) (hl : Loaded s)
    (h : parseAString n s = .ok r s') : r.length + s'.input.length ≤ s.input.length + 1 := by
  unfold parseAString at h
  rw [bind_check, bind_check] at h
  split at h
  · unfold parseString at h
    rw [bind_check] at h
    split at h
    · have := parseQuoted_len n s r s' hl h; omega
    · rw [bind_check] at h
      split at h
      · exact parseLiteral_len n s r s' hl h
      · cases h
  · have := collectLoop_len isAStringChar n s r s' hl h
    omega


end Gluon.Parse
