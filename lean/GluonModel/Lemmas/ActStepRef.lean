/-
C03 helper lemmas, part 12: one command of `Act.step` against one step of the reference, and histories.
-/
import GluonModel.Lemmas.ActStep

namespace Gluon.C03
open Gluon.DB Gluon.Act

def storeOp : StoreAction → MailboxRef.StoreOp
  | .add => .add
  | .rem => .remove
  | .set => .set

/-- a command of the model as a command of the reference: remote ids and the literal's metadata are dropped -/
def toRef : Act.Cmd → MailboxRef.Cmd
  | .append mb fl lit => .append mb fl lit.bytes
  | .store mb msgs a fl => .store mb (msgs.map (·.1)) (storeOp a) fl
  | .expunge mb msgs => .expunge mb (msgs.map (·.1))
  | .copy src dst msgs => .copy src dst (msgs.map (·.1))
  | .move src dst msgs => .move src dst (msgs.map (·.1))

/-- what the theorems assume about the parameters of the model -/
structure EnvOk (E : Env) : Prop where
  /-- the call-site table is the one regenerated from the source -/
  sites : E.sites = factSites
  /-- the connector never hands out the same remote id twice -/
  inj : ∀ a b, E.rid a = E.rid b → a = b

/-- the invariant of the model state along a history -/
structure Good (E : Env) (s : State) : Prop where
  inv : Inv s
  fk : FkOk s.db
  /-- no message carries a remote id the connector has yet to hand out -/
  rid : ∀ r ∈ s.db.messages, ∀ k, s.nextRid ≤ k → r.remoteId ≠ E.rid k

/-- the named hypotheses of the `_partial` theorems, per command -/
def StepOk : Act.Cmd → Prop
  | .append _ _ lit => lit.gid = none
  | .store _ _ _ fl => NoForward fl
  | _ => True

theorem lower_flagRecent : lower flagRecent = keyRecent := by decide

theorem getMessageIDFromRemoteID_fresh (db : DB) (rid : RemoteId) (h : ∀ r ∈ db.messages, r.remoteId ≠ rid) :
    getMessageIDFromRemoteID db rid = .error .notFound := by
  unfold getMessageIDFromRemoteID
  have : db.messages.find? (·.remoteId == rid) = none := by
    rw [List.find?_eq_none]
    intro r hr
    simpa using h r hr
  rw [this]

theorem Good.of_untouched {E : Env} {s s1 s' : State} (hG : Good E s) (hInv : Inv s') (hu : Untouched s s1) (hr : RecentOnly s1 s') :
    Good E s' := by
  obtain ⟨u1, u2, u3⟩ := hu
  obtain ⟨_, _, r3, r4, r5, _⟩ := hr
  refine ⟨hInv, ?_, ?_⟩
  · intro p hp
    rw [r4, u1] at hp
    rw [r5, u2]
    exact hG.fk p hp
  · intro r hr' k hk
    rw [r5, u2] at hr'
    rw [r3, u3] at hk
    exact hG.rid r hr' k hk

/-- **One command, answered OK, is one step of the reference.** -/
theorem step_ref (E : Env) (hE : EnvOk E) (s : State) (hG : Good E s)
    (c : Act.Cmd) (q : Second) (hc : StepOk c) (h : (step E s c q).1 = .ok) :
    abs (step E s c q).2 = MailboxRef.refStep (abs s) (toRef c) ∧ Good E (step E s c q).2 := by
  have hS := hE.sites
  cases c with
  | append mb flags lit =>
    have hgid : lit.gid = none := hc
    simp only [step, toRef, MailboxRef.refStep] at h ⊢
    unfold Act.append at h ⊢
    by_cases hrec : (FSet.new flags).contains' flagRecent = true
    · simp [hrec] at h
    simp only [hrec, Bool.false_eq_true, if_false] at h ⊢
    have hrec' : (FSet.new flags).has keyRecent = false := by
      unfold FSet.contains' at hrec; rw [lower_flagRecent] at hrec; simpa using hrec
    by_cases hrn : (lower mb == lower E.recoveryName) = true
    · simp [hrn] at h
    simp only [hrn, Bool.false_eq_true, if_false] at h ⊢
    cases hg : getMailboxByName s.db mb with
    | error e => rw [hg] at h; cases e <;> simp at h
    | ok mbox =>
      rw [hg] at h
      simp only at h ⊢
      obtain ⟨hrow, hname⟩ := getMailboxByName_ok hg
      cases hca : checkAdd E mbox.id 1 s with
      | error e => rw [hca] at h; simp at h
      | ok v =>
        rw [hca] at h
        simp only [hgid] at h ⊢
        have hknown : (if FSet.contains' (flagsOf s.db.mboxAttrs mbox.id) attrDrafts = true then (none : Option MessageId) else none) = none := by
          split <;> rfl
        rw [hknown] at h ⊢
        simp only at h ⊢
        obtain ⟨a, ha⟩ := answerOf_ok _ h
        obtain ⟨ups, s1, hf, hro⟩ := stateDBWrite_ok _ _ _ _ _ ha
        -- the connector's id is fresh: a new message is created
        unfold actionCreateMessage at hf
        simp only at hf
        rw [getMessageIDFromRemoteID_fresh s.db (E.rid s.nextRid) (fun r hr => hG.rid r hr _ (Nat.le_refl _))] at hf
        simp only at hf
        obtain ⟨i1, i2, i3, i5, mrow, i6, i7⟩ := createNew_ref E hS { s with nextRid := s.nextRid + 1, nextId := s.nextId + 1 } s s1 hG.inv hG.fk mbox hrow lit flags _ hrec'
          ⟨rfl, rfl, rfl, rfl⟩ _ hf
        obtain ⟨r1, r2, r3, r4, r5, r6⟩ := hro
        obtain ⟨j1, j2⟩ := r6 i1
        refine ⟨?_, ⟨j1, ?_, ?_⟩⟩
        · rw [j2, i2, hname]
        · intro p hp; rw [r4] at hp; rw [r5]; exact i3 p hp
        · intro r hr k hk
          rw [r5, i7] at hr
          rw [r3, i5] at hk
          rcases List.mem_append.mp hr with hr | hr
          · exact hG.rid r hr k (by omega)
          · simp only [List.mem_singleton] at hr
            subst hr
            rw [i6]
            intro e
            have := hE.inj _ _ e
            omega
  | store mb msgs action flags =>
    have hnf : NoForward flags := hc
    simp only [step, toRef, MailboxRef.refStep] at h ⊢
    by_cases hrec : (FSet.new flags).contains' flagRecent = true
    · simp [hrec] at h
    simp only [hrec, Bool.false_eq_true, if_false] at h ⊢
    cases hsel : selected E s mb with
    | error a =>
      rw [hsel] at h; simp only at h
      rcases selected_err hsel with rfl | ⟨e, rfl, _⟩ <;> simp at h
    | ok sel =>
      rw [hsel] at h
      simp only at h ⊢
      obtain ⟨hrow, hname⟩ := selected_ok hsel
      obtain ⟨a, ha⟩ := answerOf_ok _ h
      obtain ⟨ups, s1, hf, hro⟩ := stateDBWrite_ok _ _ _ _ _ ha
      obtain ⟨r1, r2, r3, r4, r5, r6⟩ := hro
      have key : Inv s1 ∧ abs s1 = MailboxRef.refStore (abs s) sel.name (msgs.map (·.1)) (storeOp action) flags ∧
          (FkOk s.db → FkOk s1.db) ∧ s1.db.messages = s.db.messages ∧ s1.nextRid = s.nextRid := by
        cases action with
        | add =>
          simp only [storeTx] at hf
          rw [bindA_ok] at hf
          obtain ⟨ups', s2, hf, hp⟩ := hf
          rw [pureA_ok] at hp
          cases hp
          exact applyFlagsAdded_ref E hS s s1 hG.inv sel hrow _ flags hnf _ hf
        | rem =>
          simp only [storeTx] at hf
          rw [bindA_ok] at hf
          obtain ⟨ups', s2, hf, hp⟩ := hf
          rw [pureA_ok] at hp
          cases hp
          exact applyFlagsRemoved_ref E hS s s1 hG.inv sel hrow _ flags hnf _ hf
        | set =>
          simp only [storeTx] at hf
          rw [bindA_ok] at hf
          obtain ⟨ups', s2, hf, hp⟩ := hf
          rw [pureA_ok] at hp
          cases hp
          exact applyFlagsSet_ref E hS s s1 hG.inv sel hrow _ flags hnf _ hf
      obtain ⟨k1, k2, k4, k5, k6⟩ := key
      obtain ⟨j1, j2⟩ := r6 k1
      refine ⟨by rw [j2, k2, hname], ⟨j1, ?_, ?_⟩⟩
      · intro p hp; rw [r4] at hp; rw [r5]; exact k4 hG.fk p hp
      · intro r hr k hk
        rw [r5, k5] at hr
        rw [r3, k6] at hk
        exact hG.rid r hr k hk
  | expunge mb msgs =>
    simp only [step, toRef, MailboxRef.refStep] at h ⊢
    cases hsel : selected E s mb with
    | error a =>
      rw [hsel] at h; simp only at h
      rcases selected_err hsel with rfl | ⟨e, rfl, _⟩ <;> simp at h
    | ok sel =>
      rw [hsel] at h
      simp only at h ⊢
      obtain ⟨hrow, hname⟩ := selected_ok hsel
      obtain ⟨a, ha⟩ := answerOf_ok _ h
      obtain ⟨ups, s1, hf, hro⟩ := stateDBWrite_ok _ _ _ _ _ ha
      unfold expungeTx at hf
      rw [bindA_ok] at hf
      obtain ⟨ups', s2, hf, hp⟩ := hf
      rw [pureA_ok] at hp
      cases hp
      obtain ⟨k1, k2, k3⟩ := actionRemove_ref E hS s s1 hG.inv sel hrow msgs _ hf
      obtain ⟨j1, j2⟩ := hro.2.2.2.2.2 k1
      exact ⟨by rw [j2, k2, hname], hG.of_untouched j1 k3 hro⟩
  | copy src dst msgs =>
    simp only [step, toRef, MailboxRef.refStep] at h ⊢
    cases hd : destination E s dst with
    | error a =>
      rw [hd] at h; simp only at h
      obtain ⟨e, rfl, _⟩ := destination_err hd
      simp at h
    | ok d =>
      rw [hd] at h
      simp only at h ⊢
      cases hsel : selected E s src with
      | error a =>
        rw [hsel] at h; simp only at h
        rcases selected_err hsel with rfl | ⟨e, rfl, _⟩ <;> simp at h
      | ok sel =>
        rw [hsel] at h
        simp only at h ⊢
        obtain ⟨hrow, hname⟩ := destination_ok hd
        obtain ⟨a, ha⟩ := answerOf_ok _ h
        obtain ⟨ups, s1, hf, hro⟩ := stateDBWrite_ok _ _ _ _ _ ha
        obtain ⟨k1, k2, k3⟩ := actionAdd_ref E hS s s1 hG.inv d hrow msgs _ hf
        obtain ⟨j1, j2⟩ := hro.2.2.2.2.2 k1
        exact ⟨by rw [j2, k2, hname], hG.of_untouched j1 k3 hro⟩
  | move src dst msgs =>
    simp only [step, toRef, MailboxRef.refStep] at h ⊢
    cases hd : destination E s dst with
    | error a =>
      rw [hd] at h; simp only at h
      obtain ⟨e, rfl, _⟩ := destination_err hd
      simp at h
    | ok d =>
      rw [hd] at h
      simp only at h ⊢
      cases hsel : selected E s src with
      | error a =>
        rw [hsel] at h; simp only at h
        rcases selected_err hsel with rfl | ⟨e, rfl, _⟩ <;> simp at h
      | ok sel =>
        rw [hsel] at h
        simp only at h ⊢
        obtain ⟨hrow, hname⟩ := destination_ok hd
        obtain ⟨hrow2, hname2⟩ := selected_ok hsel
        obtain ⟨a, ha⟩ := answerOf_ok _ h
        obtain ⟨ups, s1, hf, hro⟩ := stateDBWrite_ok _ _ _ _ _ ha
        obtain ⟨k1, k2, k3⟩ := actionMove_ref E hS s s1 hG.inv sel d hrow2 hrow msgs _ hf
        obtain ⟨j1, j2⟩ := hro.2.2.2.2.2 k1
        exact ⟨by rw [j2, k2, hname, hname2], hG.of_untouched j1 k3 hro⟩

/-- a command either returns the state it got, or runs one `stateDBWrite` on it -/
theorem step_shape (E : Env) (s : State) (c : Act.Cmd) (q : Second) :
    (step E s c q).2 = s ∨ ∃ (α : Type) (f : ATx (List Upd × α)), step E s c q = answerOf (stateDBWrite f q s) := by
  cases c with
  | append mb flags lit =>
    simp only [step]
    unfold Act.append
    repeat' (first | split | (intro _) | (dsimp only))
    all_goals first | exact Or.inl rfl | exact Or.inr ⟨_, _, rfl⟩
  | store mb msgs action flags =>
    simp only [step]
    repeat' split
    all_goals first | exact Or.inl rfl | exact Or.inr ⟨_, _, rfl⟩
  | expunge mb msgs =>
    simp only [step]
    repeat' split
    all_goals first | exact Or.inl rfl | exact Or.inr ⟨_, _, rfl⟩
  | copy src dst msgs =>
    simp only [step]
    repeat' split
    all_goals first | exact Or.inl rfl | exact Or.inr ⟨_, _, rfl⟩
  | move src dst msgs =>
    simp only [step]
    repeat' split
    all_goals first | exact Or.inl rfl | exact Or.inr ⟨_, _, rfl⟩

/-- **A command that is not answered OK — and whose failure is not in the transaction that queues the state
    updates — leaves the whole model state as it was.** -/
theorem step_unchanged (E : Env) (s : State) (c : Act.Cmd) (q : Second)
    (h : (step E s c q).1 ≠ .ok) (h2 : (step E s c q).1 ≠ .no .secondTx) : (step E s c q).2 = s := by
  rcases step_shape E s c q with h3 | ⟨α, f, h3⟩
  · exact h3
  · rw [h3] at h h2 ⊢
    cases hr : stateDBWrite f q s with
    | mk x s' =>
      rw [hr] at h h2
      cases x with
      | ok a => simp [answerOf] at h
      | error e =>
        simp only [answerOf]
        rcases stateDBWrite_err f q s s' e hr with rfl | h4
        · simp [answerOf] at h2
        · exact h4

/-! ### histories -/

/-- the reference commands of a history: those the model answers OK -/
def okRef (E : Env) : State → List (Act.Cmd × Second) → List MailboxRef.Cmd
  | _, [] => []
  | s, (c, q) :: rest => (if (step E s c q).1 = .ok then [toRef c] else []) ++ okRef E (step E s c q).2 rest

/-- the named hypotheses along a history -/
def HistOk (E : Env) : State → List (Act.Cmd × Second) → Prop
  | _, [] => True
  | s, (c, q) :: rest => StepOk c ∧ (step E s c q).1 ≠ .no .secondTx ∧ HistOk E (step E s c q).2 rest

theorem run_cons (E : Env) (s : State) (c : Act.Cmd) (q : Second) (rest : List (Act.Cmd × Second)) :
    (run E s ((c, q) :: rest)).1 = (run E (step E s c q).2 rest).1 := rfl

theorem run_ref (E : Env) (hE : EnvOk E) (cmds : List (Act.Cmd × Second)) :
    ∀ (s : State), Good E s → HistOk E s cmds →
      abs (run E s cmds).1 = MailboxRef.refRun (abs s) (okRef E s cmds) ∧ Good E (run E s cmds).1 := by
  induction cmds with
  | nil => intro s hG _; exact ⟨rfl, hG⟩
  | cons p rest ih =>
    intro s hG hH
    obtain ⟨c, q⟩ := p
    obtain ⟨h1, h2, h3⟩ := hH
    rw [run_cons]
    simp only [okRef]
    by_cases hok : (step E s c q).1 = .ok
    · obtain ⟨a1, a2⟩ := step_ref E hE s hG c q h1 hok
      obtain ⟨b1, b2⟩ := ih _ a2 h3
      refine ⟨?_, b2⟩
      rw [b1, a1]
      simp [hok, MailboxRef.refRun]
    · have hs := step_unchanged E s c q hok h2
      rw [hs] at h3 ⊢
      obtain ⟨b1, b2⟩ := ih _ hG h3
      refine ⟨?_, b2⟩
      rw [b1]
      simp [hok]

end Gluon.C03
