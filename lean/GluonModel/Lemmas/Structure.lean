/- Lemmas for C12: `structCalls` (the call tree of imap.Structure) terminates within its fuel and
   never panics. -/
import GluonModel.Model.Structure
import GluonModel.Lemmas.MimeScan

namespace Gluon.Mime

theorem emptyInfo_not_message : isMsgOf emptyInfo = false := by
  decide

theorem mapE_struct_ok (env : HdrEnv) (det : HdrDetail) (lit : Bytes) (fuel : Nat)
    (ih : ∀ (s : Sec), s.Inside 0 lit.length → s.end_ - s.header < fuel →
      ∃ cs, structCalls env det lit fuel s = .ok cs) :
    ∀ (l : List Sec), (∀ c ∈ l, c.Inside 0 lit.length ∧ c.end_ - c.header < fuel) →
      ∃ ks, mapE (childCall (structCalls env det lit fuel)) l = .ok ks := by
  intro l
  induction l with
  | nil => intro _; exact ⟨[], rfl⟩
  | cons c l ihl =>
    intro h
    obtain ⟨hin, hf⟩ := h c (by simp)
    obtain ⟨cc, hcc⟩ := ih c hin hf
    obtain ⟨ks, hks⟩ := ihl (fun x hx => h x (by simp [hx]))
    simp only [mapE, childCall]
    rw [hcc]
    simp only
    rw [show mapE (childCall (structCalls env det lit fuel)) l = .ok ks from hks]
    exact ⟨_, rfl⟩

theorem structCalls_ok (env : HdrEnv) (det : HdrDetail) (lit : Bytes) :
    ∀ (fuel : Nat) (s : Sec), s.Inside 0 lit.length → s.end_ - s.header < fuel →
      ∃ cs, structCalls env det lit fuel s = .ok cs := by
  intro fuel
  induction fuel with
  | zero => intro s _ h; omega
  | succ fuel ih =>
    intro s hs hf
    obtain ⟨h1, h2, h3, h4⟩ := hs
    simp only [structCalls]
    obtain ⟨cs, hcs, hin, hemp⟩ := children_ok env lit (lit.length + 1) s ⟨h1, h2, h3, h4⟩ (by omega)
    rw [hcs]
    simp only
    rw [goSlice_ok _ _ _ h2 (by omega)]
    simp only
    have hhl : ((lit.drop s.header).take (s.body - s.header)).length = s.body - s.header := by
      simp [List.length_take, List.length_drop]; omega
    split
    · -- single part
      rw [goSlice_ok _ _ _ h3 h4]
      simp only
      have hemb : ∃ ec, embCalls (structCalls env det lit fuel) env det lit s
          (isMsgOf (detOf det ((lit.drop s.header).take (s.body - s.header)))) = .ok ec := by
        unfold embCalls
        split
        · next hmsg =>
          -- message/rfc822: the header is not empty, so the embedded message is strictly smaller
          have hne : s.body - s.header ≠ 0 := by
            intro hz
            have : detOf det ((lit.drop s.header).take (s.body - s.header)) = emptyInfo := by
              simp [detOf, hz]
            rw [this, emptyInfo_not_message] at hmsg
            cases hmsg
          obtain ⟨child, hc, hch, hce, hchb, hcbe⟩ := parseSec_ok env lit s.body s.end_ h3 h4
          rw [hc]
          simp only
          rw [goSlice_ok _ _ _ hchb (by omega)]
          simp only
          obtain ⟨cc, hcc⟩ := ih child ⟨by omega, hchb, hcbe, by omega⟩ (by omega)
          simp only [childCall]
          rw [hcc]
          exact ⟨_, rfl⟩
        · exact ⟨_, rfl⟩
      obtain ⟨ec, hec⟩ := hemb
      rw [hec]
      exact ⟨_, rfl⟩
    · next hnz =>
      have hne : s.header ≠ s.body := by
        intro he
        rw [hemp he] at hnz
        exact hnz rfl
      obtain ⟨ks, hks⟩ := mapE_struct_ok env det lit fuel ih cs (by
        intro c hc
        obtain ⟨a, b, c', d⟩ := hin c hc
        exact ⟨⟨by omega, b, c', by omega⟩, by omega⟩)
      rw [hks]
      exact ⟨_, rfl⟩

end Gluon.Mime
