/-
SysInv: what the system-level statements of C01 / C02 speak about (Model/System.lean).

* `Index.mbox idx mb` — the mailbox a session with `mb` selected is measured against: the table a newly
  opened session would see (`Index.view`) with its UID counter (`Spec/MailboxView.lean`: `Mbox`).
* `pendOf sid mb inbox` — the responders the queued updates will contribute once the session takes them
  from its queue (mailbox filter applied, message filter not: an update the message filter drops contributes
  only responders that do nothing).
* `Sess.virt` — the session as the session-level theorems see it: snapshot + (responders applied but not yet
  flushed ++ responders still to come from the queue).
* `SysInv` — **the invariant**: the index is well formed and every session that has a mailbox selected
  satisfies the session-level history invariant `HistInv` (Lemmas/ConvergeFlush.lean) against the index:
  replaying queue-then-responders on its snapshot fails nowhere and yields the authoritative view.
* `NoOvertake` — the named hypothesis on the schedule.
-/
import GluonModel.Model.System
import GluonModel.Lemmas.ConvergeFlush

namespace Gluon.Sys
open Gluon

/-- the mailbox `mb` of the index as `Spec/MailboxView.lean` sees it -/
def Index.mbox (idx : Index) (mb : Nat) : Mbox := { view := idx.view mb, uidNext := (idx.box mb).uidNext }

/-- the session as the session-level theorems see it -/
def Sess.virt (sid : StateId) (mb : Nat) (s : Sess) : Gluon.Sess :=
  { snap := s.snap, res := s.res ++ pendOf sid mb s.inbox }

/-- the index is well formed: every mailbox table has strictly ascending UIDs below its counter and holds a
    message at most once; message ids are below the id counter; `\Deleted` is kept per mailbox row, never in
    the per-message flag list -/
structure Index.Wf (idx : Index) : Prop where
  box : ∀ mb, (idx.mbox mb).Wf
  fresh : ∀ mb, ∀ r ∈ (idx.box mb).rows, r.id < idx.nextId
  noDel : ∀ id, Flags.deleted ∉ idx.msgFlags id

/-- message ids the session knows are below the id counter: a newly created message is new to everybody
    (the code draws a random UUID) -/
structure IdsInv (idx : Index) (sid : StateId) (mb : Nat) (s : Sess) : Prop where
  snap : ∀ x ∈ s.snap, x.id < idx.nextId
  queue : ∀ r ∈ s.res ++ pendOf sid mb s.inbox, r.isExists = true → r.msgId < idx.nextId

/-- **the per-session invariant**: nothing to say about a session without a selected mailbox; a session with
    mailbox `mb` selected satisfies `HistInv` against the index — in particular (`HistInv.conv`) handling
    first its responders, then what its queue will contribute, fails nowhere and ends in a snapshot identical
    to the authoritative view of `mb` -/
def SessInv (idx : Index) (i : Nat) (s : Sess) : Prop :=
  match s.sel with
  | none => True
  | some mb => mb < idx.boxes.length ∧ HistInv (sidOf i) (s.virt (sidOf i) mb) (idx.mbox mb) ∧
      IdsInv idx (sidOf i) mb s

/-- **the system invariant** -/
structure SysInv (s : Sys) : Prop where
  wf : s.idx.Wf
  sess : ∀ i me, s.sess[i]? = some me → SessInv s.idx i me

/-- arguments a well-formed client / connector sends: `\Deleted` is not a connector flag (the connector's
    flags go to the per-message list); a mailbox list names a mailbox once -/
def SysOp.Valid : SysOp → Prop
  | .conn (.create _ fl) => Flags.deleted ∉ fl
  | .conn (.setFlag _ f _) => f ≠ Flags.deleted
  | .conn (.boxes _ mbs) => mbs.Nodup
  | _ => True

instance (op : SysOp) : Decidable op.Valid := by
  unfold SysOp.Valid; split <;> infer_instance

/-- **NoOvertake, one step.**  When session `i` runs a command that hands responders to its own state (they are
    applied at once, *behind* nothing), no update addressed to its mailbox is still waiting in its queue — or the
    command hands nothing to its own mailbox.  When it SELECTs, no queued update is addressed to the mailbox it
    opens.  CLOSE counts as the EXPUNGE it runs.  `drain`, `flush`, `unselect` and connector-originated changes are
    unconstrained.

    Excluded are exactly the schedules in which `Session.serve` picks the client's next mutating command (or
    SELECT) although an earlier update for that mailbox is still in the session's update queue. -/
def OpNoOvertake (s : Sys) : SysOp → Prop
  | .cmd i c => ∀ me mb e, s.sess[i]? = some me → me.sel = some mb → effect s.idx me (sidOf i) c = some e →
      pendOf (sidOf i) mb me.inbox = [] ∨ pendOf (sidOf i) mb e.ups = []
  | .select i mb => ∀ me, s.sess[i]? = some me → pendOf (sidOf i) mb me.inbox = []
  | .close i => ∀ me mb e, s.sess[i]? = some me → me.sel = some mb → effect s.idx me (sidOf i) .expunge = some e →
      pendOf (sidOf i) mb me.inbox = [] ∨ pendOf (sidOf i) mb e.ups = []
  | _ => True

/-- **NoOvertake** along a trace -/
def NoOvertake (s : Sys) : List SysOp → Prop
  | [] => True
  | op :: ops => OpNoOvertake s op ∧ NoOvertake (step s op).1 ops

/-- the simple sufficient condition: a session's queue is EMPTY whenever it runs a command or SELECTs (what the
    history runner's barrier before every session step establishes) -/
def OpQueueEmpty (s : Sys) : SysOp → Prop
  | .cmd i _ => ∀ me, s.sess[i]? = some me → me.inbox = []
  | .select i _ => ∀ me, s.sess[i]? = some me → me.inbox = []
  | .close i => ∀ me, s.sess[i]? = some me → me.inbox = []
  | _ => True

def QueueEmpty (s : Sys) : List SysOp → Prop
  | [] => True
  | op :: ops => OpQueueEmpty s op ∧ QueueEmpty (step s op).1 ops

end Gluon.Sys
