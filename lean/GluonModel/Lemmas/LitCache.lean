/-
Lemmas about the finite maps of Model/LitCache.lean and the shape of `getLiteral`'s result.
-/
import GluonModel.Model.LitCache

namespace Gluon.LitCache
open Gluon.Rfc822

theorem lookup_filter_ne (l : Files) (id j : Nat) (h : j ≠ id) :
    (l.filter (fun e => e.1 != id)).lookup j = l.lookup j := by
  induction l with
  | nil => rfl
  | cons e tl ih =>
    obtain ⟨k, v⟩ := e
    by_cases hk : k = id
    · subst hk
      have hjk : (j == k) = false := by simpa using h
      simp [List.filter, List.lookup, hjk, ih]
    · have hne : (k != id) = true := by simpa using hk
      simp only [List.filter, hne, List.lookup]
      cases hj : (j == k) <;> simp [ih]

theorem lookup_filter_self (l : Files) (id : Nat) :
    (l.filter (fun e => e.1 != id)).lookup id = none := by
  induction l with
  | nil => rfl
  | cons e tl ih =>
    obtain ⟨k, v⟩ := e
    by_cases hk : k = id
    · subst hk; simp [List.filter, ih]
    · have hne : (k != id) = true := by simpa using hk
      have hik : (id == k) = false := by simpa using (fun h : id = k => hk h.symm)
      simp [List.filter, hne, List.lookup, hik, ih]

theorem lookup_put_self (l : Files) (id : Nat) (b : Bytes) : (put l id b).lookup id = some b := by
  simp [put]

theorem lookup_put_ne (l : Files) (id j : Nat) (b : Bytes) (h : j ≠ id) :
    (put l id b).lookup j = l.lookup j := by
  have hji : (j == id) = false := by simpa using h
  simp only [put, List.lookup, hji]
  exact lookup_filter_ne l id j h

theorem lookup_erase_self (l : Files) (id : Nat) : (erase l id).lookup id = none :=
  lookup_filter_self l id

theorem lookup_erase_ne (l : Files) (id j : Nat) (h : j ≠ id) : (erase l id).lookup j = l.lookup j :=
  lookup_filter_ne l id j h

/-- a hit: the stored bytes, nothing changes -/
theorem getLiteral_hit (env : Env) (st : St) (id : Nat) (b : Bytes) (h : st.store.lookup id = some b) :
    getLiteral env st id = (.ok b, st) := by
  simp [getLiteral, h]

/-- every successful read is of one of two shapes -/
theorem getLiteral_ok_cases {env : Env} {st st' : St} {id : Nat} {b : Bytes}
    (h : getLiteral env st id = (.ok b, st')) :
    (st.store.lookup id = some b ∧ st' = st) ∨
    (st.store.lookup id = none ∧ env.recovered id = false ∧ env.setOk id = true ∧
      ∃ c size, st.remote.lookup id = some c ∧ setHeaderValue c env.key (env.idText id) = .ok (b, size) ∧
        st' = { st with store := put st.store id b }) := by
  unfold getLiteral at h
  split at h
  next s hs =>
    left
    simp only [Prod.mk.injEq, Except.ok.injEq] at h
    exact ⟨by rw [hs, h.1], h.2.symm⟩
  next hs =>
    right
    split at h
    · simp at h
    next hrec =>
      split at h
      · simp at h
      next c hc =>
        split at h
        · simp at h
        next out size hset =>
          split at h
          next hok =>
            simp only [Prod.mk.injEq, Except.ok.injEq] at h
            refine ⟨hs, by simpa using hrec, hok, c, size, hc, ?_, ?_⟩
            · rw [hset, h.1]
            · rw [← h.2, h.1]
          · simp at h

end Gluon.LitCache
