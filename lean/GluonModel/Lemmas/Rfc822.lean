/- Helper lemmas for C13 over GluonModel/Model/Rfc822.lean -/
import GluonModel.Model.Rfc822
import GluonModel.Spec.Rfc822Spec

namespace Gluon.Rfc822

/-! ## slices -/

theorem slice_append (l : Bytes) {a b c : Nat} (hab : a ≤ b) (hbc : b ≤ c) :
    slice l a b ++ slice l b c = slice l a c := by
  unfold slice
  have h1 : c - a = (b - a) + (c - b) := by omega
  have h2 : l.drop b = (l.drop a).drop (b - a) := by
    rw [List.drop_drop]; congr 1; omega
  rw [h1, List.take_add, h2]

theorem slice_length (l : Bytes) {a b : Nat} (hab : a ≤ b) (hb : b ≤ l.length) :
    (slice l a b).length = b - a := by
  unfold slice
  rw [List.length_take, List.length_drop]; omega

theorem slice_zero (l : Bytes) (b : Nat) : slice l 0 b = l.take b := by
  simp [slice]

theorem slice_to_end (l : Bytes) {a : Nat} : slice l a l.length = l.drop a := by
  unfold slice
  apply List.take_of_length_le
  rw [List.length_drop]; omega

theorem slice_drop_append (l : Bytes) {a b : Nat} (hab : a ≤ b) :
    slice l a b ++ l.drop b = l.drop a := by
  unfold slice
  have h2 : l.drop b = (l.drop a).drop (b - a) := by
    rw [List.drop_drop]; congr 1; omega
  rw [h2, List.take_append_drop]

/-! ## Split -/

theorem splitLen_le (b : Bytes) (f : Bool) : splitLen b f ≤ b.length := by
  induction b generalizing f with
  | nil => simp [splitLen]
  | cons c tl ih =>
    unfold splitLen
    split
    · split
      · simp
      · have := ih true; simp; omega
    · have := ih (f && c == 13); simp; omega

theorem splitIndex_le (b : Bytes) : splitIndex b ≤ b.length := splitLen_le b true

theorem split_concat (b : Bytes) : (split b).1 ++ (split b).2 = b := by
  simp [split]

theorem split_fst_length (b : Bytes) : (split b).1.length = splitIndex b := by
  have := splitIndex_le b
  simp [split, List.length_take]; omega

/-! ## headerParser.next: offsets stay in step, entries tile the header unless empty-valued -/

/-- the offset/suffix pair is in step with a header of length `n` (`n+1` after `Key:\r` at the end) -/
def InStep (n : Nat) (r : Bytes) (o : Nat) : Prop := o + r.length = n ∨ (r = [] ∧ o = n + 1)

def KeyScan.Good (ks off n : Nat) : KeyScan → Prop
  | .err _ => True
  | .done e r o => e.keyStart = ks ∧ ks ≤ e.keyEnd ∧ ks ≤ e.valueEnd ∧ e.valueEnd ≤ n ∧ o + r.length = n ∧ off < o ∧
      e.valueEnd = o
  | .value ke r o => ks ≤ ke ∧ ke < o ∧ off < o ∧ InStep n r o

theorem KeyScan.Good.weaken {ks off n : Nat} {r : KeyScan} (h : r.Good ks (off + 1) n) : r.Good ks off n := by
  cases r with
  | err e => trivial
  | done e r o => simp only [KeyScan.Good] at *; omega
  | value ke r o =>
    simp only [KeyScan.Good] at *
    obtain ⟨a, b, c, d⟩ := h
    exact ⟨a, b, by omega, d⟩

theorem scanKey_good (ks n : Nat) : ∀ (rest : Bytes) (off : Nat) (valid : Bool),
    off + rest.length = n → ks ≤ off → (scanKey ks rest off valid).Good ks off n := by
  intro rest
  induction rest with
  | nil => intro off valid _ _; simp [scanKey, KeyScan.Good]
  | cons c tl ih =>
    intro off valid hlen hks
    simp only [List.length_cons] at hlen
    unfold scanKey
    split
    · split
      · trivial
      · rename_i d tl2
        simp only [List.length_cons] at hlen
        repeat' split
        all_goals (simp_all [KeyScan.Good, InStep] <;> omega)
    · split
      · simp [KeyScan.Good]; omega
      · exact (ih (off + 1) _ (by omega) (by omega)).weaken


theorem skipWSP_spec : ∀ (r : Bytes) (o : Nat),
    (skipWSP r o).2 + (skipWSP r o).1.length = o + r.length ∧ o ≤ (skipWSP r o).2 := by
  intro r
  induction r with
  | nil => intro o; simp [skipWSP]
  | cons c tl ih =>
    intro o
    unfold skipWSP
    split
    · have := ih (o + 1); simp only [List.length_cons]; omega
    · simp

def FindEnd.Good (off n : Nat) : FindEnd → Prop
  | .err _ => True
  | .found r o => o + r.length = n ∧ off ≤ o
  | .eof o => o = n

theorem findEnd_good (n : Nat) : ∀ (rest : Bytes) (st : VState) (off : Nat),
    off + rest.length = n → (findEnd st rest off).Good off n := by
  intro rest
  induction rest with
  | nil => intro st off h; cases st <;> simp_all [findEnd, FindEnd.Good]
  | cons b tl ih =>
    intro st off h
    simp only [List.length_cons] at h
    have step : ∀ st', (findEnd st' tl (off + 1)).Good off n := by
      intro st'
      have := ih st' (off + 1) (by omega)
      cases hf : findEnd st' tl (off + 1) <;> simp_all [FindEnd.Good] <;> omega
    cases st <;> unfold findEnd
    · split
      · exact step _
      · split
        · exact step _
        · exact step _
    · split
      · trivial
      · exact step _
    · split
      · exact step _
      · simp [FindEnd.Good]; omega

def Next.Good (off n : Nat) : Next → Prop
  | .eof => True
  | .err _ => True
  | .entry e r o => e.keyStart = off ∧ off < o ∧ InStep n r o ∧ off ≤ e.keyEnd ∧ off ≤ e.valueEnd ∧ e.valueEnd ≤ n ∧
      e.valueEnd = min o n

theorem next_good (n : Nat) (rest : Bytes) (off : Nat) (h : off + rest.length = n) :
    (next n rest off).Good off n := by
  unfold next
  split
  · trivial
  · rename_i c tl
    have hk := scanKey_good off n (c :: tl) off true h (Nat.le_refl _)
    split
    · trivial
    · rename_i e r o heq
      rw [heq] at hk
      simp only [KeyScan.Good] at hk
      simp only [Next.Good, InStep]
      omega
    · rename_i ke r1 o1 heq
      rw [heq] at hk
      simp only [KeyScan.Good, InStep] at hk
      obtain ⟨hk1, hk2, hk3, hk4⟩ := hk
      have hs := skipWSP_spec r1 o1
      generalize hsk : skipWSP r1 o1 = sk at hs
      obtain ⟨r2, o2⟩ := sk
      simp only at hs ⊢
      rcases hk4 with hk4 | ⟨hk4, hk5⟩
      · have hf := findEnd_good n r2 .normal o2 (by omega)
        split
        · trivial
        · rename_i r o hfe
          rw [hfe] at hf
          simp only [FindEnd.Good] at hf
          simp only [Next.Good, InStep]
          refine ⟨trivial, by omega, Or.inl hf.1, by omega, by omega, by omega, by omega⟩
        · rename_i o hfe
          rw [hfe] at hf
          simp only [FindEnd.Good] at hf
          simp only [Next.Good, InStep]
          refine ⟨trivial, by omega, Or.inl (by simp; omega), by omega, by omega, by omega, by omega⟩
      · subst hk4
        simp [skipWSP] at hsk
        obtain ⟨rfl, rfl⟩ := hsk
        simp only [findEnd, Next.Good, InStep]
        refine ⟨trivial, by omega, Or.inr ⟨trivial, hk5⟩, by omega, by omega, by omega, by omega⟩


/-- The entries tile `[start, n)`: each begins where the previous one ended and the last ends at `n`. -/
inductive Tiling (n : Nat) : Nat → List Entry → Prop
  | nil : Tiling n n []
  | cons {start : Nat} {e : Entry} {es : List Entry} :
      e.keyStart = start → start ≤ e.valueEnd → Tiling n e.valueEnd es → Tiling n start (e :: es)

theorem Tiling.start_le {n start : Nat} {es : List Entry} (t : Tiling n start es) : start ≤ n := by
  induction t with
  | nil => exact Nat.le_refl _
  | cons _ h2 _ ih => omega

theorem next_cons_ne_eof (n : Nat) (c : UInt8) (tl : Bytes) (off : Nat) : next n (c :: tl) off ≠ .eof := by
  unfold next
  simp only
  split
  · simp
  · simp
  · split <;> simp

theorem entriesLoop_tiling (n : Nat) : ∀ (fuel : Nat) (rest : Bytes) (off : Nat) (es : List Entry),
    InStep n rest off → entriesLoop n fuel rest off = .ok es → Tiling n (min off n) es := by
  intro fuel
  induction fuel with
  | zero => intro rest off es _ h; simp [entriesLoop] at h
  | succ fuel ih =>
    intro rest off es hin hrun
    unfold entriesLoop at hrun
    cases rest with
    | nil =>
      simp [next] at hrun
      subst hrun
      have : min off n = n := by
        simp [InStep] at hin; omega
      rw [this]; exact Tiling.nil
    | cons c tl =>
      have hlen : off + (c :: tl).length = n := by
        rcases hin with h | ⟨h, _⟩
        · exact h
        · cases h
      have hg := next_good n (c :: tl) off hlen
      split at hrun
      · rename_i heq; exact absurd heq (next_cons_ne_eof n c tl off)
      · cases hrun
      · rename_i e r o heq
        rw [heq] at hg
        simp only [Next.Good] at hg
        obtain ⟨g1, g2, g3, g4, g5, g6, g7⟩ := hg
        split at hrun
        · rename_i es' hes'
          cases hrun
          have hve : e.valueEnd = min o n := g7
          have t := ih r o es' g3 hes'
          simp only [List.length_cons] at hlen
          have : min off n = off := by omega
          rw [this]
          exact Tiling.cons g1 g5 (hve ▸ t)
        · cases hrun

theorem tiling_flatMap (h : Bytes) : ∀ (es : List Entry) (start : Nat),
    Tiling h.length start es → es.flatMap (Entry.all h) = h.drop start := by
  intro es
  induction es with
  | nil =>
    intro start t
    cases t
    simp
  | cons e es ih =>
    intro start t
    cases t with
    | cons h1 h2 t' =>
      rw [List.flatMap_cons, ih _ t']
      unfold Entry.all
      rw [h1]
      exact slice_drop_append h h2

/-- the entries `NewHeader` yields tile the header (since fix 1ac3d52 also for empty-valued fields) -/
theorem parseEntries_tiling {h : Bytes} {es : List Entry} (hp : parseEntries h = .ok es) :
    Tiling h.length 0 es := by
  have := entriesLoop_tiling h.length (h.length + 2) h 0 es (Or.inl (by simp)) hp
  simpa using this

/-- for an entry with a key that is not white space only, exactly one of `Fields` / `FieldsNot` selects it -/
theorem selects_xor (want : List Bytes) (h : Bytes) (e : Entry)
    (hk : e.hasKey = true) (hs : isSpaceOnly (e.all h) = false) :
    selects false want h e = !selects true want h e := by
  simp [selects, hk, hs]

/-- an entry that is white space only (the blank line closing the header) is selected by both -/
theorem selects_blank (neg : Bool) (want : List Bytes) (h : Bytes) (e : Entry)
    (hs : isSpaceOnly (e.all h) = true) : selects neg want h e = true := by
  simp [selects, hs]

/-- a key-less entry that is not white space only (a line without colon) is selected by neither -/
theorem selects_keyless (neg : Bool) (want : List Bytes) (h : Bytes) (e : Entry)
    (hk : e.hasKey = false) (hs : isSpaceOnly (e.all h) = false) : selects neg want h e = false := by
  simp [selects, hk, hs]

/-! ## strings.ToLower / strings.ToUpper on ASCII strings -/

theorem caseByte_lower (a : UInt8) (h : a < 128) : encodeRune (caseRune false a.toNat) = [lowerByte a] := by
  have key : ∀ n : Fin 128,
      encodeRune (caseRune false (UInt8.ofNat n.val).toNat) = [lowerByte (UInt8.ofNat n.val)] := by decide
  have := key ⟨a.toNat, by simpa [UInt8.lt_iff_toNat_lt] using h⟩
  simpa using this

theorem caseByte_upper (a : UInt8) (h : a < 128) : encodeRune (caseRune true a.toNat) = [upperByte a] := by
  have key : ∀ n : Fin 128,
      encodeRune (caseRune true (UInt8.ofNat n.val).toNat) = [upperByte (UInt8.ofNat n.val)] := by decide
  have := key ⟨a.toNat, by simpa [UInt8.lt_iff_toNat_lt] using h⟩
  simpa using this

theorem decodeRune_ascii (a : UInt8) (tl : Bytes) (h : a < 128) : decodeRune (a :: tl) = some (a.toNat, 1) := by
  simp [decodeRune, h]

theorem goCaseLoop_ascii (up : Bool) : ∀ (b : Bytes) (fuel : Nat), b.length ≤ fuel → (∀ c ∈ b, c < 128) →
    goCaseLoop up fuel b = b.map (if up then upperByte else lowerByte) := by
  intro b
  induction b with
  | nil => intro fuel _ _; cases fuel <;> simp [goCaseLoop]
  | cons a tl ih =>
    intro fuel hl hall
    cases fuel with
    | zero => simp at hl
    | succ f =>
      have ha : a < 128 := hall a (by simp)
      simp only [goCaseLoop, decodeRune_ascii a tl ha, Nat.sub_self, List.drop_zero]
      rw [ih f (by simpa using hl) (fun c hc => hall c (by simp [hc]))]
      cases up
      · simp [caseByte_lower a ha]
      · simp [caseByte_upper a ha]

/-- all bytes are ASCII -/
def IsAscii (b : Bytes) : Prop := ∀ c ∈ b, c < 128

/-- on an ASCII string `strings.ToUpper` is the byte-wise ASCII upper-casing -/
theorem goUpper_ascii (b : Bytes) (h : IsAscii b) : goUpper b = upperBytes b := by
  simpa [upperBytes, goUpper] using goCaseLoop_ascii true b b.length (Nat.le_refl _) h

/-- the decision of `Fields` / `FieldsNot` for an entry with a key, in terms of the requested names -/
theorem selects_iff (neg : Bool) (want : List Bytes) (h : Bytes) (e : Entry)
    (hk : e.hasKey = true) (hs : isSpaceOnly (e.all h) = false) :
    selects neg want h e = true ↔ (if neg then e.mapKey h ∉ want else e.mapKey h ∈ want) := by
  cases neg <;> simp [selects, hk, hs]

/-! ## SetHeaderValue -/

theorem firstKeyedLoop_bound (n : Nat) : ∀ (fuel : Nat) (rest : Bytes) (off : Nat) (e : Entry),
    InStep n rest off → firstKeyedLoop n fuel rest off = .ok (some e) → e.keyStart < n := by
  intro fuel
  induction fuel with
  | zero => intro rest off e _ h; simp [firstKeyedLoop] at h
  | succ fuel ih =>
    intro rest off e hin hrun
    unfold firstKeyedLoop at hrun
    cases rest with
    | nil => simp [next] at hrun
    | cons c tl =>
      have hlen : off + (c :: tl).length = n := by
        rcases hin with h | ⟨h, _⟩
        · exact h
        · cases h
      have hg := next_good n (c :: tl) off hlen
      split at hrun
      · cases hrun
      · cases hrun
      · rename_i e' r o heq
        rw [heq] at hg
        simp only [Next.Good] at hg
        split at hrun
        · cases hrun
          simp only [List.length_cons] at hlen
          omega
        · exact ih r o e hg.2.2.1 hrun

theorem firstKeyed_bound {h : Bytes} {e : Entry} (hf : firstKeyed h = .ok (some e)) : e.keyStart < h.length :=
  firstKeyedLoop_bound h.length _ h 0 e (Or.inl (by simp)) hf

theorem setHeaderValue_spec {lit k v out : Bytes} {size : Nat} (h : setHeaderValue lit k v = .ok (out, size)) :
    ∃ i, insertPoint lit = .ok i ∧ i ≤ (split lit).1.length ∧
      out = lit.take i ++ joinLine (canonKey k) v ++ lit.drop i ∧ size = out.length := by
  unfold setHeaderValue at h
  unfold insertPoint
  simp only at h
  split at h
  · cases h
  · rename_i hf
    simp only [Except.ok.injEq, Prod.mk.injEq] at h
    refine ⟨(split lit).1.length, rfl, Nat.le_refl _, ?_, ?_⟩
    · rw [← h.1, split_fst_length]; simp [split]
    · rw [← h.1, ← h.2]; simp; omega
  · rename_i e hf
    have hb := firstKeyed_bound hf
    simp only [Except.ok.injEq, Prod.mk.injEq] at h
    refine ⟨e.keyStart, rfl, Nat.le_of_lt hb, h.1.symm, ?_⟩
    rw [← h.1, ← h.2]; simp; omega

/-! ## sections -/

/-- a section's ranges are ordered and inside the literal -/
def Section.WF (lit : Bytes) (s : Section) : Prop := s.header ≤ s.body ∧ s.body ≤ s.end ∧ s.end ≤ lit.length

/-- `c` lies inside the body of `s` -/
def Section.Inside (s c : Section) : Prop := s.body ≤ c.header ∧ c.end ≤ s.end

theorem parse_header (lit : Bytes) (b e : Nat) : (parse lit b e).header = b := rfl
theorem parse_end (lit : Bytes) (b e : Nat) : (parse lit b e).end = e := rfl

theorem parse_body_bounds (lit : Bytes) {b e : Nat} (hbe : b ≤ e) (he : e ≤ lit.length) :
    b ≤ (parse lit b e).body ∧ (parse lit b e).body ≤ e := by
  unfold parse
  have h1 := split_fst_length (slice lit b e)
  have h2 := splitIndex_le (slice lit b e)
  have h3 := slice_length lit hbe he
  simp only
  split <;> omega

theorem parse_wf (lit : Bytes) {b e : Nat} (hbe : b ≤ e) (he : e ≤ lit.length) : (parse lit b e).WF lit := by
  have := parse_body_bounds lit hbe he
  exact ⟨by rw [parse_header]; exact this.1, by rw [parse_end]; exact this.2, by rw [parse_end]; exact he⟩

theorem parseRoot_wf (lit : Bytes) : (parseRoot lit).WF lit := parse_wf lit (Nat.zero_le _) (Nat.le_refl _)

/-- header ++ body = literal for every well-formed section -/
theorem Section.header_body (lit : Bytes) (s : Section) (h : s.WF lit) :
    s.headerBytes lit ++ s.bodyBytes lit = s.literalBytes lit :=
  slice_append lit h.1 h.2.1

/-! ## scanner: every part is inside the data -/

theorem checkedRange_bound {len a b : Nat} {r : Nat × Nat} (h : checkedRange len a b = .ok r) :
    r.1 = a ∧ r.1 + r.2 ≤ len := by
  unfold checkedRange at h
  split at h
  · rename_i hc
    simp only [Bool.and_eq_true, decide_eq_true_eq] at hc
    cases h
    refine ⟨rfl, ?_⟩
    show a + (b - a) ≤ len
    omega
  · cases h

theorem readToBoundary_bound (data sb : Bytes) (ss : Nat) : ∀ (fuel progress : Nat) (r : ReadRes),
    ss ≤ progress → readToBoundary data sb ss fuel progress = .ok r →
    ∀ p, r.part = some p → p.1 = ss ∧ p.1 + p.2 ≤ data.length := by
  intro fuel
  induction fuel with
  | zero => intro progress r _ h; simp [readToBoundary] at h
  | succ fuel ih =>
    intro progress r hss h p hp
    unfold readToBoundary at h
    simp only at h
    split at h
    · cases h; simp at hp
    · rename_i hlt
      simp only [decide_eq_false_iff_not, Nat.not_lt, Bool.not_eq_eq_eq_not, Bool.not_true] at hlt
      split at h
      · cases h
        simp only [Option.some.injEq] at hp
        subst hp
        refine ⟨rfl, ?_⟩
        show ss + (data.length - progress) ≤ data.length
        omega
      · rename_i index _
        split at h
        · exact ih _ r (by omega) h p hp
        · rename_i prev _
          split at h
          · split at h
            · exact ih _ r (by omega) h p hp
            · split at h
              · cases h
              · rename_i rr hr
                cases h
                simp only [Option.some.injEq] at hp
                subst hp
                exact checkedRange_bound hr
          · split at h
            · exact ih _ r (by omega) h p hp
            · split at h
              · cases h
              · rename_i rr hr
                cases h
                simp only [Option.some.injEq] at hp
                subst hp
                exact checkedRange_bound hr

theorem scanLoop_bound (data sb : Bytes) : ∀ (fuel progress : Nat) (ps : List (Nat × Nat)),
    scanLoop data sb fuel progress = .ok ps → ∀ p ∈ ps, p.1 + p.2 ≤ data.length := by
  intro fuel
  induction fuel with
  | zero => intro progress ps h; simp [scanLoop] at h
  | succ fuel ih =>
    intro progress ps h p hp
    unfold scanLoop at h
    split at h
    · cases h
    · rename_i r hr
      have hb := readToBoundary_bound data sb progress _ progress r (Nat.le_refl _) hr
      have hhere : ∀ q ∈ (match r.part with | some p => [p] | none => []), q.1 + q.2 ≤ data.length := by
        intro q hq
        split at hq
        · rename_i p' hp'
          simp only [List.mem_singleton] at hq
          subst hq
          exact (hb _ hp').2
        · simp at hq
      simp only at h
      split at h
      · cases h; exact hhere p hp
      · split at h
        · rename_i ps' hps'
          cases h
          rcases List.mem_append.mp hp with hp | hp
          · exact hhere p hp
          · exact ih _ ps' hps' p hp
        · cases h

theorem scanAll_bound {data boundary : Bytes} {ps : List (Nat × Nat)} (h : scanAll data boundary = .ok ps) :
    ∀ p ∈ ps, p.1 + p.2 ≤ data.length := by
  unfold scanAll at h
  simp only at h
  split at h
  · cases h
  · exact scanLoop_bound data _ _ _ ps h

/-! ## children and Part stay inside the parent -/

theorem loadChildren_inside (ct : Bytes → CT) (lit : Bytes) : ∀ (fuel : Nat) (s : Section) (ch : List Section),
    s.WF lit → loadChildren ct lit fuel s = .ok ch → ∀ c ∈ ch, c.WF lit ∧ s.Inside c := by
  intro fuel
  induction fuel with
  | zero => intro s ch _ h; simp [loadChildren] at h
  | succ fuel ih =>
    intro s ch hwf h c hc
    unfold loadChildren at h
    split at h
    · cases h
    · -- message/rfc822
      have hw := parse_wf lit hwf.2.1 hwf.2.2
      have hb := parse_body_bounds lit hwf.2.1 hwf.2.2
      have := ih _ ch hw h c hc
      refine ⟨this.1, ?_⟩
      have h2 := this.2
      simp only [Section.Inside, parse_end] at h2 ⊢
      omega
    · -- multipart
      rename_i boundary _
      split at h
      · cases h
      · cases h
      · rename_i parts hparts
        cases h
        simp only [List.mem_map] at hc
        obtain ⟨⟨o, l⟩, hmem, rfl⟩ := hc
        have hb0 := scanAll_bound hparts (o, l) hmem
        simp only [Section.bodyBytes] at hb0
        rw [slice_length lit hwf.2.1 hwf.2.2] at hb0
        have hb : o + l ≤ s.end - s.body := hb0
        have hse := hwf.2.1
        have hw := parse_wf lit (b := s.body + o) (e := s.body + o + l) (by omega) (by have := hwf.2.2; omega)
        refine ⟨hw, ?_⟩
        simp only [Section.Inside, parse_header, parse_end]
        omega
    · cases h; simp at hc

theorem children_inside {ct : Bytes → CT} {lit : Bytes} {s : Section} {ch : List Section}
    (hwf : s.WF lit) (h : children ct lit s = .ok ch) : ∀ c ∈ ch, c.WF lit ∧ s.Inside c :=
  loadChildren_inside ct lit _ s ch hwf h

/-- every section `Part` can return is well-formed and lies inside the section it was asked of -/
theorem part_wf (ct : Bytes → CT) (lit : Bytes) : ∀ (path : List Int) (s r : Section),
    s.WF lit → part ct lit s path = .ok r → r.WF lit ∧ s.header ≤ r.header ∧ r.end ≤ s.end := by
  intro path
  induction path with
  | nil => intro s r hwf h; simp [part] at h; subst h; exact ⟨hwf, Nat.le_refl _, Nat.le_refl _⟩
  | cons i rest ih =>
    intro s r hwf h
    unfold part at h
    split at h
    · cases h
    · rename_i ch hch
      split at h
      · cases h
      · split at h
        · simp only at h
          split at h
          · cases h
          · split at h
            · rename_i c hc
              have hmem : c ∈ ch := List.mem_of_getElem? hc
              have hci := children_inside hwf hch c hmem
              have := ih c r hci.1 h
              have h2 := hci.2
              simp only [Section.Inside] at h2
              have h3 := hci.1
              simp only [Section.WF] at h3 hwf
              exact ⟨this.1, by omega, by omega⟩
            · cases h
        · simp at h; subst h; exact ⟨hwf, Nat.le_refl _, Nat.le_refl _⟩

/-- `children[identifier[0]-1]` is never out of range: `Part` has no index panic of its own -/
theorem part_index_safe (ch : List Section) (k : Nat) (h : ¬ k ≥ ch.length) : ch[k]? ≠ none := by
  simp at h ⊢; omega

/-! ## WithPartial -/

theorem wrap64_id {x : Int} (h1 : minInt64 ≤ x) (h2 : x ≤ maxInt64) : wrap64 x = x := by
  unfold wrap64; unfold minInt64 at h1; unfold maxInt64 at h2; omega

theorem wrap64_overflow {x : Int} (h1 : maxInt64 < x) (h2 : x ≤ 2 * maxInt64 + 1) :
    wrap64 x = x - 18446744073709551616 := by
  unfold wrap64; unfold maxInt64 at h1 h2; omega

theorem withPartial_in_range (lit : Bytes) {o n : Int} (ho : 0 ≤ o) (hn : 0 ≤ n) (hsum : o + n ≤ maxInt64) :
    withPartial lit o n = some ((lit.drop o.toNat).take n.toNat) := by
  have hw : wrap64 (o + n) = o + n := wrap64_id (by unfold minInt64; omega) hsum
  unfold withPartial
  simp only [hw]
  split
  · rename_i h
    have : lit.drop o.toNat = [] := List.drop_eq_nil_of_le (by omega)
    simp [this]
  · rename_i h
    split
    · rename_i h2
      unfold goSlice
      have hc : (0 ≤ o && o ≤ (lit.length : Int) && (lit.length : Int) ≤ (lit.length : Int)) = true := by
        simp; omega
      simp only [hc, if_true, slice]
      congr 1
      have h3 : (lit.drop o.toNat).length ≤ n.toNat := by rw [List.length_drop]; omega
      have h4 : (lit.drop o.toNat).length ≤ (lit.length : Int).toNat - o.toNat := by rw [List.length_drop]; omega
      rw [List.take_of_length_le h3, List.take_of_length_le h4]
    · rename_i h2
      unfold goSlice
      have hc : (0 ≤ o && o ≤ o + n && o + n ≤ (lit.length : Int)) = true := by
        simp; omega
      simp only [hc, if_true, slice]
      congr 2
      omega

theorem withPartial_overflow (lit : Bytes) {o n : Int} (ho : 0 ≤ o) (hlt : o < lit.length)
    (ho' : o ≤ maxInt64) (hn : n ≤ maxInt64) (hsum : maxInt64 < o + n) : withPartial lit o n = none := by
  have hl : (lit.length : Int) ≤ maxInt64 ∨ maxInt64 < (lit.length : Int) := by omega
  have hw : wrap64 (o + n) = o + n - 18446744073709551616 := wrap64_overflow hsum (by unfold maxInt64 at *; omega)
  unfold withPartial
  simp only [hw]
  have h1 : ¬ (o ≥ (lit.length : Int)) := by omega
  rw [if_neg h1]
  unfold maxInt64 at *
  split
  · rename_i h2
    -- only possible for literals longer than 2^63 bytes; begin+count-2^64 < 0 ≤ len contradicts
    omega
  · unfold goSlice
    simp; intros; omega

theorem withPartial_negative (lit : Bytes) {o n : Int} (ho : o < 0) (homin : minInt64 ≤ o)
    (hn0 : 0 ≤ n) (hn : n ≤ maxInt64) : withPartial lit o n = none := by
  have hw : wrap64 (o + n) = o + n := wrap64_id (by omega) (by omega)
  unfold withPartial
  simp only [hw]
  have h1 : ¬ (o ≥ (lit.length : Int)) := by omega
  rw [if_neg h1]
  unfold goSlice
  split
  · simp; intros; omega
  · simp; intros; omega

/-! ## decimal rendering and literal framing -/

def digitsVal : List Nat → Nat
  | [] => 0
  | d :: ds => d + 10 * digitsVal ds

theorem digitsRev_val : ∀ (fuel n : Nat), n < fuel → digitsVal (digitsRev fuel n) = n := by
  intro fuel
  induction fuel with
  | zero => intro n h; omega
  | succ fuel ih =>
    intro n h
    unfold digitsRev
    split
    · simp [digitsVal]
    · have := ih (n / 10) (by omega)
      simp only [digitsVal, this]; omega

theorem digitsRev_lt : ∀ (fuel n : Nat), ∀ d ∈ digitsRev fuel n, d < 10 := by
  intro fuel
  induction fuel with
  | zero => intro n d h; simp [digitsRev] at h
  | succ fuel ih =>
    intro n d h
    unfold digitsRev at h
    split at h
    · simp at h; omega
    · simp only [List.mem_cons] at h
      rcases h with h | h
      · omega
      · exact ih _ d h

theorem digitsRev_ne_nil (fuel n : Nat) : digitsRev (fuel + 1) n ≠ [] := by
  unfold digitsRev; split <;> simp

def digitByte (d : Nat) : UInt8 := (48 + d).toUInt8

theorem digitByte_spec : ∀ d : Fin 10, (digitByte d.val).toNat = 48 + d.val ∧
    (48 ≤ digitByte d.val && digitByte d.val ≤ 57) = true ∧ (digitByte d.val != 125) = true := by decide

theorem digitByte_toNat {d : Nat} (h : d < 10) : (digitByte d).toNat - 48 = d := by
  have := (digitByte_spec ⟨d, h⟩).1; simp only at this; omega

theorem dec_eq (n : Nat) : dec n = ((digitsRev (n + 1) n).reverse).map digitByte := rfl

theorem undec_digits : ∀ (ds : List Nat), (∀ d ∈ ds, d < 10) →
    (ds.map digitByte).foldr (fun c acc => acc * 10 + (c.toNat - 48)) 0 = digitsVal ds := by
  intro ds
  induction ds with
  | nil => intro _; rfl
  | cons d ds ih =>
    intro h
    simp only [List.map_cons, List.foldr_cons, digitsVal]
    rw [ih (fun x hx => h x (List.mem_cons_of_mem _ hx)), digitByte_toNat (h d (List.mem_cons_self ..))]
    omega

theorem dec_all_digits (n : Nat) : (dec n).all (fun c => 48 ≤ c && c ≤ 57) = true := by
  rw [dec_eq, List.all_eq_true]
  intro c hc
  simp only [List.mem_map, List.mem_reverse] at hc
  obtain ⟨d, hd, rfl⟩ := hc
  exact (digitByte_spec ⟨d, digitsRev_lt _ _ d hd⟩).2.1

theorem dec_no_brace (n : Nat) : ∀ c ∈ dec n, (c != 125) = true := by
  intro c hc
  rw [dec_eq] at hc
  simp only [List.mem_map, List.mem_reverse] at hc
  obtain ⟨d, hd, rfl⟩ := hc
  exact (digitByte_spec ⟨d, digitsRev_lt _ _ d hd⟩).2.2

theorem dec_ne_nil (n : Nat) : dec n ≠ [] := by
  rw [dec_eq]
  simp [digitsRev_ne_nil]

theorem undec_dec (n : Nat) : Spec.undec (dec n) = some n := by
  unfold Spec.undec
  have h1 : (dec n).isEmpty = false := by
    cases h : dec n with
    | nil => exact absurd h (dec_ne_nil n)
    | cons _ _ => rfl
  simp only [h1, dec_all_digits, Bool.not_true, Bool.or_self, Bool.false_eq_true, if_false]
  rw [dec_eq, List.map_reverse, List.foldl_reverse]
  congr 1
  have := undec_digits (digitsRev (n + 1) n) (digitsRev_lt _ _)
  rw [this]
  exact digitsRev_val (n + 1) n (by omega)

theorem takeWhile_prefix {α : Type} (p : α → Bool) : ∀ (xs : List α) (y : α) (ys : List α),
    (∀ x ∈ xs, p x = true) → p y = false → (xs ++ y :: ys).takeWhile p = xs := by
  intro xs
  induction xs with
  | nil => intro y ys _ hy; simp [hy]
  | cons x xs ih =>
    intro y ys hx hy
    simp only [List.cons_append, List.takeWhile]
    rw [hx x (List.mem_cons_self ..)]
    simp only
    rw [ih y ys (fun z hz => hx z (List.mem_cons_of_mem _ hz)) hy]

/-- reading back a framed literal yields exactly the data and leaves exactly what followed it -/
theorem unframe_frame (d rest : Bytes) : Spec.unframe (frame d ++ rest) = some (d, rest) := by
  have htw : ((dec d.length ++ 125 :: (13 :: 10 :: (d ++ rest))).takeWhile (· != 125)) = dec d.length :=
    takeWhile_prefix _ _ _ _ (dec_no_brace _) (by decide)
  unfold frame Spec.unframe
  simp only [List.cons_append, List.nil_append, List.append_assoc]
  rw [htw, undec_dec]
  simp only [List.drop_left]
  simp

/-! ## the scanner's slice expressions are always in range: no panic -/

theorem isPrefix_length : ∀ (p l : Bytes), isPrefix p l = true → p.length ≤ l.length := by
  intro p
  induction p with
  | nil => intro l _; simp
  | cons x xs ih =>
    intro l h
    cases l with
    | nil => simp [isPrefix] at h
    | cons y ys =>
      simp only [isPrefix, Bool.and_eq_true] at h
      have := ih ys h.2
      simp only [List.length_cons]; omega

theorem indexOfFrom_bound (pat : Bytes) : ∀ (l : Bytes) (i j : Nat),
    indexOfFrom pat l i = some j → i ≤ j ∧ (j - i) + pat.length ≤ l.length := by
  intro l
  induction l with
  | nil =>
    intro i j h
    unfold indexOfFrom at h
    split at h
    · rename_i he
      cases h
      have : pat = [] := by cases pat <;> simp_all
      simp [this]
    · cases h
  | cons x xs ih =>
    intro i j h
    unfold indexOfFrom at h
    split at h
    · rename_i hp
      cases h
      have := isPrefix_length _ _ hp
      simp only [List.length_cons] at this ⊢
      omega
    · have := ih (i + 1) j h
      simp only [List.length_cons]
      omega

theorem indexOf_bound {pat l : Bytes} {j : Nat} (h : indexOf pat l = some j) : j + pat.length ≤ l.length := by
  have := indexOfFrom_bound pat l 0 j h
  omega

theorem prevLineBreak_le {data : Bytes} {progress index prev : Nat}
    (h : prevLineBreak data progress (progress + index) = some prev) : prev ≤ index := by
  unfold prevLineBreak at h
  split at h
  · cases h; omega
  · rename_i hne
    have hi : index ≠ 0 := by
      intro h0; subst h0; simp at hne
    split at h
    · split at h
      · rename_i h2
        simp only [Bool.and_eq_true, decide_eq_true_eq] at h2
        cases h; omega
      · cases h; omega
    · cases h

theorem checkedRange_ok {len a b : Nat} (h1 : a ≤ b) (h2 : b ≤ len) : checkedRange len a b = .ok (a, b - a) := by
  unfold checkedRange
  simp [h1, h2]

theorem readToBoundary_no_panic (data sb : Bytes) (ss : Nat) : ∀ (fuel progress : Nat),
    ss ≤ progress → readToBoundary data sb ss fuel progress ≠ .error .panic := by
  intro fuel
  induction fuel with
  | zero => intro progress _; simp [readToBoundary]
  | succ fuel ih =>
    intro progress hss
    unfold readToBoundary
    simp only
    split
    · simp
    · rename_i hlt
      simp only [decide_eq_false_iff_not, Nat.not_lt, Bool.not_eq_eq_eq_not, Bool.not_true] at hlt
      split
      · simp
      · rename_i index hidx
        have hib := indexOf_bound hidx
        rw [List.length_drop] at hib
        split
        · exact ih _ (by omega)
        · rename_i prev hprev
          have hpl := prevLineBreak_le hprev
          have hcr := checkedRange_ok (len := data.length) (a := ss) (b := progress + index - prev) (by omega) (by omega)
          split
          · split
            · exact ih _ (by omega)
            · rw [hcr]; simp
          · split
            · exact ih _ (by omega)
            · rw [hcr]; simp


theorem scanLoop_no_panic (data sb : Bytes) : ∀ (fuel progress : Nat),
    scanLoop data sb fuel progress ≠ .error .panic := by
  intro fuel
  induction fuel with
  | zero => intro progress; simp [scanLoop]
  | succ fuel ih =>
    intro progress
    unfold scanLoop
    split
    · rename_i e he
      intro h
      cases h
      exact readToBoundary_no_panic data sb progress _ progress (Nat.le_refl _) he
    · rename_i r hr
      simp only
      split
      · simp
      · split
        · simp
        · rename_i e he
          intro h
          cases h
          exact ih _ he

theorem scanAll_no_panic (data boundary : Bytes) : scanAll data boundary ≠ .error .panic := by
  unfold scanAll
  simp only
  split
  · rename_i e he
    intro h
    cases h
    exact readToBoundary_no_panic data _ 0 _ 0 (Nat.le_refl _) he
  · exact scanLoop_no_panic data _ _ _

theorem loadChildren_no_panic (ct : Bytes → CT) (lit : Bytes) : ∀ (fuel : Nat) (s : Section),
    loadChildren ct lit fuel s ≠ .error .panic := by
  intro fuel
  induction fuel with
  | zero => intro s; simp [loadChildren]
  | succ fuel ih =>
    intro s
    unfold loadChildren
    split
    · rename_i e he
      unfold contentType at he
      simp only at he
      split at he
      · cases he; simp
      · split at he <;> cases he
    · exact ih _
    · rename_i b _
      split
      · rename_i hp
        exact absurd hp (scanAll_no_panic _ _)
      · simp
      · simp
    · simp

/-- `Part` never panics: neither the scanner's slice expressions nor `children[identifier[0]-1]` can
    be out of range. -/
theorem part_no_panic (ct : Bytes → CT) (lit : Bytes) : ∀ (path : List Int) (s : Section),
    part ct lit s path ≠ .error .panic := by
  intro path
  induction path with
  | nil => intro s; simp [part]
  | cons i rest ih =>
    intro s
    unfold part
    split
    · rename_i e he
      intro h
      cases h
      exact loadChildren_no_panic ct lit _ s he
    · rename_i ch hch
      split
      · simp
      · split
        · simp only
          split
          · simp
          · rename_i hlt
            split
            · exact ih _
            · rename_i hnone
              exfalso
              have : (i - 1).toNat < ch.length := by omega
              simp at hnone
              omega
        · simp

/-! ## FETCH's section computation never panics -/

theorem contentType_no_panic (ct : Bytes → CT) (lit : Bytes) (s : Section) : contentType ct lit s ≠ .error .panic := by
  unfold contentType
  simp only
  split
  · simp
  · split <;> simp

theorem handleEmbedded_no_panic (ct : Bytes → CT) (lit : Bytes) (s : Section) : handleEmbedded ct lit s ≠ .error .panic := by
  unfold handleEmbedded
  split
  · rename_i e he
    intro h; cases h
    exact contentType_no_panic ct lit s he
  · simp
  · simp

theorem fetchBodySection_no_panic (ct : Bytes → CT) (lit : Bytes) (sec : BodySection) :
    fetchBodySection ct lit sec ≠ .error .panic := by
  unfold fetchBodySection
  split
  · rename_i e he
    intro h; cases h
    exact part_no_panic ct lit _ _ he
  · rename_i root _
    have hE := handleEmbedded_no_panic ct lit root
    split
    · simp
    · simp
    · cases hh : handleEmbedded ct lit root with
      | error e => simp only [Except.map]; intro h; cases h; exact hE hh
      | ok r => simp [Except.map]
    · cases hh : handleEmbedded ct lit root with
      | error e => simp only [Except.map]; intro h; cases h; exact hE hh
      | ok r => simp [Except.map]
    · split
      · rename_i e he
        intro h; cases h
        exact hE he
      · simp only
        split <;> simp

theorem fetchBodyLiteral_no_panic (ct : Bytes → CT) (lit : Bytes) (sec : BodySection) :
    fetchBodyLiteral ct lit sec ≠ .error .panic := by
  unfold fetchBodyLiteral
  split
  · simp
  · split
    · rename_i e he
      intro h; cases h
      exact fetchBodySection_no_panic ct lit sec he
    · simp

/-! ## the loop fuel of `NewHeader` / `SetHeaderValue` is never exhausted -/

theorem InStep.length_lt {n : Nat} {rest r : Bytes} {off o : Nat} (h : off + rest.length = n)
    (hne : 0 < rest.length) (hr : InStep n r o) (hlt : off < o) : r.length < rest.length := by
  rcases hr with hr | ⟨hr, _⟩
  · omega
  · subst hr; simp only [List.length_nil]; omega

theorem entriesLoop_fuel (n : Nat) : ∀ (fuel : Nat) (rest : Bytes) (off : Nat),
    InStep n rest off → rest.length < fuel → entriesLoop n fuel rest off ≠ .error .fuel := by
  intro fuel
  induction fuel with
  | zero => intro rest off _ h; omega
  | succ fuel ih =>
    intro rest off hin hf
    unfold entriesLoop
    cases rest with
    | nil => simp [next]
    | cons c tl =>
      have hlen : off + (c :: tl).length = n := by
        rcases hin with h | ⟨h, _⟩
        · exact h
        · cases h
      have hg := next_good n (c :: tl) off hlen
      split
      · simp
      · rename_i e he
        unfold next at he
        simp only at he
        intro h; cases h
        split at he
        · rename_i e' hs
          cases he
          -- scanKey never reports fuel
          have : ∀ (r : Bytes) (o : Nat) (v : Bool), scanKey off r o v ≠ .err .fuel := by
            intro r
            induction r with
            | nil => intro o v; simp [scanKey]
            | cons x xs ihx =>
              intro o v
              unfold scanKey
              repeat' split
              all_goals first | exact ihx _ _ | (simp; done)
          exact this _ _ _ hs
        · cases he
        · split at he
          · rename_i e' hs
            cases he
            have : ∀ (r : Bytes) (st : VState) (o : Nat), findEnd st r o ≠ .err .fuel := by
              intro r
              induction r with
              | nil => intro st o; cases st <;> simp [findEnd]
              | cons x xs ihx =>
                intro st o
                cases st <;> unfold findEnd <;> repeat' split
                all_goals first | exact ihx _ _ | (simp; done)
            exact this _ _ _ hs
          · cases he
          · cases he
      · rename_i e r o heq
        rw [heq] at hg
        simp only [Next.Good] at hg
        have hl := InStep.length_lt hlen (by simp) hg.2.2.1 hg.2.1
        have := ih r o hg.2.2.1 (by omega)
        split
        · simp
        · rename_i e' he'
          intro h; cases h
          exact this he'

theorem parseEntries_fuel (h : Bytes) : parseEntries h ≠ .error .fuel :=
  entriesLoop_fuel h.length _ h 0 (Or.inl (by simp)) (by omega)

end Gluon.Rfc822
