/- STORE on the system model: the index write of `storeEffect` and its combo update deliver (`Delivers`).
   The combo's parts are taken one by one against intermediate indexes (a proof device): the `\Deleted` part against
   the rows of the mailbox, each per-flag part against the flag lists of the messages it names. -/
import GluonModel.Lemmas.SysFlags

namespace Gluon.Sys
open Gluon

/-! ### tables as maps over the rows -/

theorem view_eq_map (idx : Index) (mb : Nat) :
    idx.view mb = (idx.box mb).rows.map fun r => { id := r.id, uid := r.uid, flags := rowX (idx.msgFlags r.id) r.deleted } := rfl

/-- comparing a flag-changed table with a table over the same rows -/
theorem viewEq_flagMap_rows (rows : List Row) (F G : Row → Flags) (ids : List MsgId) (op : FlagOp) (fl : Flags) (o : Bool)
    (h : ∀ r ∈ rows, if ids.contains r.id then FlagsEq (Flags.remove1 (newFlags (F r) op fl o) Flags.recent) (G r)
      else FlagsEq (F r) (G r)) :
    ViewEq (flagMap ids op fl o (rows.map fun r => { id := r.id, uid := r.uid, flags := F r }))
      (rows.map fun r => { id := r.id, uid := r.uid, flags := G r }) := by
  unfold flagMap
  rw [List.map_map]
  apply ViewEq.map
  intro r hr
  have := h r hr
  simp only [Function.comp_def]
  by_cases hc : ids.contains r.id = true
  · simp only [hc, if_true] at this ⊢
    exact ⟨rfl, rfl, this⟩
  · simp only [hc, Bool.false_eq_true, if_false] at this ⊢
    exact ⟨rfl, rfl, this⟩

theorem setDeleted_rows (b : Box) (ids : List MsgId) (d : Bool) :
    (b.setDeleted ids d).rows = b.rows.map fun r => if ids.contains r.id then { r with deleted := d } else r := rfl

/-- the table of a mailbox whose rows were re-marked, as a map over the OLD rows -/
theorem view_setDeleted (idx : Index) {sel : Nat} (hsel : sel < idx.boxes.length) (ids : List MsgId) (d : Bool) :
    (idx.setBox sel ((idx.box sel).setDeleted ids d)).view sel =
      (idx.box sel).rows.map fun r =>
        { id := r.id, uid := r.uid, flags := rowX (idx.msgFlags r.id) (if ids.contains r.id then d else r.deleted) } := by
  rw [view_eq_map, Index.box_setBox_same hsel, setDeleted_rows, List.map_map]
  apply List.map_congr_left
  intro r _
  simp only [Function.comp_def, Index.msgFlags_setBox]
  split <;> rfl

/-! ### what a flags update contributes -/

theorem pend_flags_single (sid : StateId) (mb sel : Nat) (origin : StateId) (cu cs : Bool) (p : FlagPart) :
    Update.pend sid mb cu cs (.flags sel origin [p]) =
      p.ids.map fun id => Responder.fetch id p.fl p.op cu (sid == origin && cs) (mb != sel) := by
  simp [Update.pend, Update.mboxPasses, Update.responders]

theorem pendC_flags_parts (sid : StateId) (mb sel : Nat) (origin : StateId) (cu cs : Bool) (ps : List FlagPart) :
    pendC sid mb cu cs [.flags sel origin ps] = pendC sid mb cu cs (ps.map fun p => .flags sel origin [p]) := by
  simp only [pendC, List.flatMap_cons, List.flatMap_nil, List.append_nil, Update.pend, Update.mboxPasses, if_true,
    Update.responders, List.flatMap_map]

/-! ### the three kinds of part -/

/-- the `\Deleted` part of STORE ±FLAGS -/
theorem delivers_deleted {idx : Index} (hnoDel : ∀ id, Flags.deleted ∉ idx.msgFlags id) {sel : Nat}
    (hsel : sel < idx.boxes.length) (origin : StateId) (ids : List MsgId) (hnd : ids.Nodup) (d : Bool) :
    Delivers idx (idx.setBox sel ((idx.box sel).setDeleted ids d))
      [.flags sel origin [⟨if d then .add else .rem, ids, [Flags.deleted]⟩]] := by
  apply delivers_flags (fun mb => mb != sel) hnd
  · intro sid mb cu cs
    exact ⟨cu, sid == origin && cs, pend_flags_single ..⟩
  · simp
  · rfl
  · intro mb
    by_cases hm : mb = sel
    · subst hm; simp [Index.box_setBox_same hsel, Box.setDeleted]
    · simp [Index.box_setBox_other hm]
  · intro mb
    by_cases hm : mb = sel
    · subst hm
      rw [view_setDeleted idx hsel, view_eq_map]
      apply viewEq_flagMap_rows
      intro r _
      simp only [bne_self_eq_false]
      split
      · exact flagsEq_deleted_same _ _ _ (hnoDel r.id)
      · exact FlagsEq.refl _
    · have hv : (idx.setBox sel ((idx.box sel).setDeleted ids d)).view mb = idx.view mb :=
        Index.view_congr (by simp [Index.box_setBox_other hm]) (fun _ _ => rfl)
      rw [hv, view_eq_map]
      apply viewEq_flagMap_rows
      intro r _
      have : (mb != sel) = true := by simpa using hm
      simp only [this]
      split
      · exact flagsEq_deleted_other _ _
      · exact FlagsEq.refl _

theorem view_mapMsgFlags (idx : Index) (ids : List MsgId) (f : Flags → Flags) (mb : Nat) :
    (idx.mapMsgFlags ids f).view mb = (idx.box mb).rows.map fun r =>
      { id := r.id, uid := r.uid,
        flags := rowX (if ids.contains r.id then f (idx.msgFlags r.id) else idx.msgFlags r.id) r.deleted } := by
  rw [view_eq_map]
  simp only [Index.box_mapMsgFlags, Index.msgFlags_mapMsgFlags]

/-- a per-flag part of STORE ±FLAGS (flags other than `\Deleted`) -/
theorem delivers_msgflags (idx : Index) (sel : Nat) (origin : StateId) (ids : List MsgId) (hnd : ids.Nodup) (op : FlagOp)
    (hop : op ≠ .set) (R : Flags) (hR : Flags.deleted ∉ R) :
    Delivers idx (idx.mapMsgFlags ids fun cur => newFlags cur op R false) [.flags sel origin [⟨op, ids, R⟩]] := by
  apply delivers_flags (fun mb => mb != sel) hnd
  · intro sid mb cu cs
    exact ⟨cu, sid == origin && cs, pend_flags_single ..⟩
  · rfl
  · rfl
  · intro mb; rfl
  · intro mb
    rw [view_mapMsgFlags, view_eq_map]
    apply viewEq_flagMap_rows
    intro r _
    split
    · exact flagsEq_msg _ _ _ _ _ hop hR
    · exact FlagsEq.refl _

/-- the table of the mailbox STORE FLAGS was run on, as a map over the OLD rows -/
theorem view_setflags_same (idx : Index) {sel : Nat} (hsel : sel < idx.boxes.length) (ids : List MsgId) (d : Bool)
    (f : Flags → Flags) :
    ((idx.setBox sel ((idx.box sel).setDeleted ids d)).mapMsgFlags ids f).view sel =
      (idx.box sel).rows.map fun r =>
        { id := r.id, uid := r.uid,
          flags := rowX (if ids.contains r.id then f (idx.msgFlags r.id) else idx.msgFlags r.id)
            (if ids.contains r.id then d else r.deleted) } := by
  rw [view_mapMsgFlags, Index.box_setBox_same hsel, setDeleted_rows, List.map_map]
  apply List.map_congr_left
  intro r _
  simp only [Function.comp_def, Index.msgFlags_setBox]
  split <;> simp [*]

/-- STORE FLAGS -/
theorem delivers_setflags {idx : Index} (hnoDel : ∀ id, Flags.deleted ∉ idx.msgFlags id) {sel : Nat}
    (hsel : sel < idx.boxes.length) (origin : StateId) (ids : List MsgId) (hnd : ids.Nodup) (fl : Flags) :
    Delivers idx ((idx.setBox sel ((idx.box sel).setDeleted ids (fl.contains Flags.deleted))).mapMsgFlags ids
        fun cur => newFlags cur .set (Flags.remove1 fl Flags.deleted) false)
      [.flags sel origin [⟨.set, ids, fl⟩]] := by
  apply delivers_flags (fun mb => mb != sel) hnd
  · intro sid mb cu cs
    exact ⟨cu, sid == origin && cs, pend_flags_single ..⟩
  · simp
  · rfl
  · intro mb
    by_cases hm : mb = sel
    · subst hm; simp [Index.box_setBox_same hsel, Box.setDeleted]
    · simp [Index.box_setBox_other hm]
  · intro mb
    by_cases hm : mb = sel
    · subst hm
      rw [view_setflags_same idx hsel, view_eq_map]
      apply viewEq_flagMap_rows
      intro r _
      simp only [bne_self_eq_false]
      by_cases hc : ids.contains r.id = true
      · simp only [hc, if_true]
        exact flagsEq_set_same _ _ _
      · simp only [hc, Bool.false_eq_true, if_false]
        exact FlagsEq.refl _
    · rw [view_mapMsgFlags]
      simp only [Index.msgFlags_setBox]
      rw [Index.box_setBox_other hm, view_eq_map]
      apply viewEq_flagMap_rows
      intro r _
      have : (mb != sel) = true := by simpa using hm
      simp only [this]
      split
      · exact flagsEq_set_other _ _ _ (hnoDel r.id)
      · exact FlagsEq.refl _

/-! ### the per-flag parts, one after the other -/

/-- the intermediate indexes: for every flag of `L` in turn, the messages `pick f` names get `newFlags · op R` -/
def flagChain (ids : List MsgId) (pick : Flag → MsgId → Bool) (op : FlagOp) (R : Flags) (I : Index) (L : List Flag) : Index :=
  L.foldl (fun I f => I.mapMsgFlags (ids.filter (pick f)) fun cur => newFlags cur op R false) I

theorem delivers_flagChain (sel : Nat) (origin : StateId) (ids : List MsgId) (hnd : ids.Nodup) (pick : Flag → MsgId → Bool)
    (op : FlagOp) (hop : op ≠ .set) (R : Flags) (hR : Flags.deleted ∉ R) (I : Index) (L : List Flag) :
    Delivers I (flagChain ids pick op R I L) (L.map fun f => .flags sel origin [⟨op, ids.filter (pick f), R⟩]) := by
  induction L generalizing I with
  | nil => exact Delivers.refl I
  | cons f L ih =>
    have h1 := delivers_msgflags I sel origin (ids.filter (pick f)) (hnd.sublist List.filter_sublist) op hop R hR
    have h2 := ih (I.mapMsgFlags (ids.filter (pick f)) fun cur => newFlags cur op R false)
    have := h1.trans h2
    simpa [flagChain] using this

@[simp] theorem flagChain_boxes (ids : List MsgId) (pick : Flag → MsgId → Bool) (op : FlagOp) (R : Flags) (I : Index) (L : List Flag) :
    (flagChain ids pick op R I L).boxes = I.boxes := by
  induction L generalizing I with
  | nil => rfl
  | cons f L ih => simp only [flagChain, List.foldl_cons] at ih ⊢; rw [ih]; rfl

@[simp] theorem flagChain_nextId (ids : List MsgId) (pick : Flag → MsgId → Bool) (op : FlagOp) (R : Flags) (I : Index) (L : List Flag) :
    (flagChain ids pick op R I L).nextId = I.nextId := by
  induction L generalizing I with
  | nil => rfl
  | cons f L ih => simp only [flagChain, List.foldl_cons] at ih ⊢; rw [ih]; rfl

theorem flagChain_box (ids : List MsgId) (pick : Flag → MsgId → Bool) (op : FlagOp) (R : Flags) (I : Index) (L : List Flag) (mb : Nat) :
    (flagChain ids pick op R I L).box mb = I.box mb := by
  simp [Index.box]

/-- the flags a message ends with after the chain of an `add` -/
theorem mem_flagChain_add (ids : List MsgId) (pick : Flag → MsgId → Bool) (R : Flags) (I : Index) (L : List Flag)
    (id : MsgId) (g : Flag) :
    g ∈ (flagChain ids pick .add R I L).msgFlags id ↔
      g ∈ I.msgFlags id ∨ (g ∈ R ∧ ∃ f ∈ L, id ∈ ids ∧ pick f id = true) := by
  induction L generalizing I with
  | nil => simp [flagChain]
  | cons f L ih =>
    simp only [flagChain, List.foldl_cons] at ih ⊢
    rw [ih, Index.msgFlags_mapMsgFlags]
    by_cases hc : (ids.filter (pick f)).contains id = true
    · have hc' : id ∈ ids ∧ pick f id = true := by simpa [List.mem_filter] using hc
      simp only [hc, if_true, newFlags, Bool.false_eq_true, if_false, Flags.mem_add, List.mem_cons]
      constructor
      · rintro ((h | h) | ⟨h1, f', hf', h2⟩)
        · exact Or.inl h
        · exact Or.inr ⟨h, f, Or.inl rfl, hc'⟩
        · exact Or.inr ⟨h1, f', Or.inr hf', h2⟩
      · rintro (h | ⟨h1, f', hf' | hf', h2⟩)
        · exact Or.inl (Or.inl h)
        · exact Or.inl (Or.inr h1)
        · exact Or.inr ⟨h1, f', hf', h2⟩
    · have hc' : ¬ (id ∈ ids ∧ pick f id = true) := by simpa [List.mem_filter] using hc
      simp only [hc, Bool.false_eq_true, if_false, List.mem_cons]
      constructor
      · rintro (h | ⟨h1, f', hf', h2⟩)
        · exact Or.inl h
        · exact Or.inr ⟨h1, f', Or.inr hf', h2⟩
      · rintro (h | ⟨h1, f', hf' | hf', h2⟩)
        · exact Or.inl h
        · subst hf'; exact absurd h2 hc'
        · exact Or.inr ⟨h1, f', hf', h2⟩

/-- … of a `rem` -/
theorem mem_flagChain_rem (ids : List MsgId) (pick : Flag → MsgId → Bool) (R : Flags) (I : Index) (L : List Flag)
    (id : MsgId) (g : Flag) :
    g ∈ (flagChain ids pick .rem R I L).msgFlags id ↔
      g ∈ I.msgFlags id ∧ ¬ (g ∈ R ∧ ∃ f ∈ L, id ∈ ids ∧ pick f id = true) := by
  induction L generalizing I with
  | nil => simp [flagChain]
  | cons f L ih =>
    simp only [flagChain, List.foldl_cons] at ih ⊢
    rw [ih, Index.msgFlags_mapMsgFlags]
    by_cases hc : (ids.filter (pick f)).contains id = true
    · have hc' : id ∈ ids ∧ pick f id = true := by simpa [List.mem_filter] using hc
      simp only [hc, if_true, newFlags, Bool.false_eq_true, if_false, Flags.mem_remove, List.mem_cons]
      constructor
      · rintro ⟨⟨h1, h2⟩, h3⟩
        exact ⟨h1, fun ⟨hr, _⟩ => h2 hr⟩
      · rintro ⟨h1, h2⟩
        refine ⟨⟨h1, fun hr => h2 ⟨hr, f, Or.inl rfl, hc'⟩⟩, fun ⟨hr, f', hf', h3⟩ => h2 ⟨hr, f', Or.inr hf', h3⟩⟩
    · have hc' : ¬ (id ∈ ids ∧ pick f id = true) := by simpa [List.mem_filter] using hc
      simp only [hc, Bool.false_eq_true, if_false, List.mem_cons]
      constructor
      · rintro ⟨h1, h2⟩
        refine ⟨h1, fun ⟨hr, f', hf', h3⟩ => ?_⟩
        rcases hf' with rfl | hf'
        · exact hc' h3
        · exact h2 ⟨hr, f', hf', h3⟩
      · rintro ⟨h1, h2⟩
        exact ⟨h1, fun ⟨hr, f', hf', h3⟩ => h2 ⟨hr, f', Or.inr hf', h3⟩⟩

theorem rowX_congr {a b : Flags} (h : FlagsEq a b) (rd : Bool) : FlagsEq (rowX a rd) (rowX b rd) := by
  intro g hg
  simp only [mem_rowX, h g hg]

/-- two indexes with the same rows and the same flag sets per message show the same tables -/
theorem viewEq_of_msgFlags {I J : Index} (hb : ∀ mb, J.box mb = I.box mb)
    (hf : ∀ id, FlagsEq (I.msgFlags id) (J.msgFlags id)) (mb : Nat) : ViewEq (I.view mb) (J.view mb) := by
  rw [view_eq_map, view_eq_map, hb]
  apply ViewEq.map
  intro r _
  exact ⟨rfl, rfl, rowX_congr (hf r.id) _⟩

/-! ### STORE -/

theorem deleted_not_mem_remove1 (fl : Flags) : Flags.deleted ∉ Flags.remove1 fl Flags.deleted := by
  simp [Flags.mem_remove1]

/-- **STORE delivers** -/
theorem delivers_store {idx : Index} (hnoDel : ∀ id, Flags.deleted ∉ idx.msgFlags id) {sel : Nat}
    (hsel : sel < idx.boxes.length) (sid : StateId) (ids : List MsgId) (hnd : ids.Nodup) (op : FlagOp) (fl : Flags) :
    Delivers idx (storeEffect idx sel sid ids op fl).1 (storeEffect idx sel sid ids op fl).2 := by
  have hR := deleted_not_mem_remove1 fl
  cases op with
  | set =>
    simp only [storeEffect]
    exact delivers_setflags hnoDel hsel sid ids hnd fl
  | add =>
    simp only [storeEffect]
    generalize hI : (if fl.contains Flags.deleted = true then idx.setBox sel ((idx.box sel).setDeleted ids true) else idx) = I
    generalize hP : (if fl.contains Flags.deleted = true then [(⟨.add, ids, [Flags.deleted]⟩ : FlagPart)] else []) = P
    -- the `\Deleted` part
    have h1 : Delivers idx I (P.map fun p => .flags sel sid [p]) := by
      subst hI hP
      by_cases hd : fl.contains Flags.deleted = true
      · simp only [hd, if_true, List.map_cons, List.map_nil]
        exact delivers_deleted hnoDel hsel sid ids hnd true
      · simp only [hd, Bool.false_eq_true, if_false, List.map_nil]
        exact Delivers.refl idx
    have hImf : ∀ id, I.msgFlags id = idx.msgFlags id := by
      subst hI; intro id; split <;> rfl
    -- the per-flag parts against the chain of intermediate indexes
    have h2 := delivers_flagChain sel sid ids hnd (fun f id => !(idx.msgFlags id).contains f) .add (by simp)
      (Flags.remove1 fl Flags.deleted) hR I (Flags.remove1 fl Flags.deleted)
    have h3 := h1.trans h2
    -- the chain ends in an index that shows the same tables as the model's
    have h4 := h3.congr_right (c := I.mapMsgFlags ids fun cur => newFlags cur .add (Flags.remove1 fl Flags.deleted) false)
      (by simp) (by simp) (fun mb => viewEq_of_msgFlags (fun mb => by simp [flagChain_box]) (fun id => by
        intro g _
        rw [mem_flagChain_add, Index.msgFlags_mapMsgFlags]
        by_cases hc : ids.contains id = true
        · have hc' : id ∈ ids := by simpa using hc
          simp only [hc, if_true, newFlags, Bool.false_eq_true, if_false, Flags.mem_add, hImf]
          constructor
          · rintro (h | ⟨h, _⟩)
            · exact Or.inl h
            · exact Or.inr h
          · rintro (h | h)
            · exact Or.inl h
            · by_cases hg : g ∈ idx.msgFlags id
              · exact Or.inl hg
              · exact Or.inr ⟨h, g, h, hc', by simpa using hg⟩
        · have hc' : id ∉ ids := by simpa using hc
          simp only [hc, Bool.false_eq_true, if_false, hImf]
          constructor
          · rintro (h | ⟨_, _, _, h, _⟩)
            · exact h
            · exact absurd h hc'
          · exact Or.inl) mb)
      (fun mb => by simp [flagChain_box])
    refine h4.congr_ups ?_
    intro sid' mb cu cs
    rw [pendC_flags_parts, List.map_append, List.map_map]
    rfl
  | rem =>
    simp only [storeEffect]
    generalize hI : (if fl.contains Flags.deleted = true then idx.setBox sel ((idx.box sel).setDeleted ids false) else idx) = I
    generalize hP : (if fl.contains Flags.deleted = true then [(⟨.rem, ids, [Flags.deleted]⟩ : FlagPart)] else []) = P
    have h1 : Delivers idx I (P.map fun p => .flags sel sid [p]) := by
      subst hI hP
      by_cases hd : fl.contains Flags.deleted = true
      · simp only [hd, if_true, List.map_cons, List.map_nil]
        exact delivers_deleted hnoDel hsel sid ids hnd false
      · simp only [hd, Bool.false_eq_true, if_false, List.map_nil]
        exact Delivers.refl idx
    have hImf : ∀ id, I.msgFlags id = idx.msgFlags id := by
      subst hI; intro id; split <;> rfl
    have h2 := delivers_flagChain sel sid ids hnd (fun f id => (idx.msgFlags id).contains f) .rem (by simp)
      (Flags.remove1 fl Flags.deleted) hR I (Flags.remove1 fl Flags.deleted)
    have h3 := h1.trans h2
    have h4 := h3.congr_right (c := I.mapMsgFlags ids fun cur => newFlags cur .rem (Flags.remove1 fl Flags.deleted) false)
      (by simp) (by simp) (fun mb => viewEq_of_msgFlags (fun mb => by simp [flagChain_box]) (fun id => by
        intro g _
        rw [mem_flagChain_rem, Index.msgFlags_mapMsgFlags]
        by_cases hc : ids.contains id = true
        · have hc' : id ∈ ids := by simpa using hc
          simp only [hc, if_true, newFlags, Bool.false_eq_true, if_false, Flags.mem_remove, hImf]
          constructor
          · rintro ⟨h1, h2⟩
            exact ⟨h1, fun hr => h2 ⟨hr, g, hr, hc', by simpa using h1⟩⟩
          · rintro ⟨h1, h2⟩
            exact ⟨h1, fun ⟨hr, _⟩ => h2 hr⟩
        · have hc' : id ∉ ids := by simpa using hc
          simp only [hc, Bool.false_eq_true, if_false, hImf]
          constructor
          · exact fun h => h.1
          · exact fun h => ⟨h, fun ⟨_, _, _, h', _⟩ => hc' h'⟩) mb)
      (fun mb => by simp [flagChain_box])
    refine h4.congr_ups ?_
    intro sid' mb cu cs
    rw [pendC_flags_parts, List.map_append, List.map_map]
    rfl

end Gluon.Sys
