/- Lemmas about the backtracking matcher `run`/`loop` of Model/Match.lean: declarative semantics `Sem`,
   soundness, completeness, hierarchy boundary and "longest level" for patterns ending in `%`. -/
import GluonModel.Model.Match
import GluonModel.Lemmas.Wildcard

namespace Gluon.Match
open Gluon

/-- `Sem d items s`: the whole of `s` is matched by the item sequence. -/
inductive Sem (d : Char) : List Item → Name → Prop where
  | nil : Sem d [] []
  | lit {c : Char} {is : List Item} {s : Name} : Sem d is s → Sem d (.lit c :: is) (c :: s)
  | star {is : List Item} {s m : Name} (a : Name) : m = a ++ s → Sem d is s → Sem d (.star :: is) m
  | pct {is : List Item} {s m : Name} (a : Name) : m = a ++ s → (∀ x ∈ a, x ≠ d) → Sem d is s → Sem d (.pct :: is) m

/-! ### the greedy loop -/

theorem loop_none {ok : Char → Bool} {k : Name → Option Name} {s : Name} (h : loop ok k s = none) :
    ∀ b s', s = b ++ s' → (∀ x ∈ b, ok x = true) → k s' = none := by
  induction s with
  | nil =>
    intro b s' e _
    have : b = [] ∧ s' = [] := by simpa using e.symm
    rw [this.2]; simpa [loop] using h
  | cons x xs ih =>
    intro b s' e hb
    simp only [loop] at h
    cases b with
    | nil =>
      simp at e; subst e
      split at h
      · split at h
        · cases h
        · exact h
      · exact h
    | cons y ys =>
      simp at e
      obtain ⟨rfl, rfl⟩ := e
      have hx : ok x = true := hb x (by simp)
      simp only [hx, if_true] at h
      split at h
      · cases h
      next hl => exact ih hl ys s' rfl (fun z hz => hb z (by simp [hz]))

theorem loop_spec {ok : Char → Bool} {k : Name → Option Name} {s r : Name} (h : loop ok k s = some r) :
    ∃ a s' r', s = a ++ s' ∧ (∀ x ∈ a, ok x = true) ∧ k s' = some r' ∧ r = a ++ r' ∧
      ∀ b s'', s = b ++ s'' → (∀ x ∈ b, ok x = true) → a.length < b.length → k s'' = none := by
  induction s generalizing r with
  | nil =>
    refine ⟨[], [], r, rfl, by simp, by simpa [loop] using h, rfl, ?_⟩
    intro b s'' e _ hl
    have : b = [] := by
      have := e.symm; simp at this; exact this.1
    subst this; simp at hl
  | cons x xs ih =>
    simp only [loop] at h
    by_cases hx : ok x = true
    · simp only [hx, if_true] at h
      cases hl : loop ok k xs with
      | some r1 =>
        rw [hl] at h
        simp at h; subst h
        obtain ⟨a, s', r', e, ha, hk, er, hmax⟩ := ih hl
        refine ⟨x :: a, s', r', by simp [e], ?_, hk, by simp [er], ?_⟩
        · intro z hz
          rcases List.mem_cons.mp hz with rfl | hz
          · exact hx
          · exact ha z hz
        · intro b s'' eb hb hlen
          cases b with
          | nil => simp at hlen
          | cons y ys =>
            simp at eb
            exact hmax ys s'' eb.2 (fun z hz => hb z (by simp [hz])) (by simpa using hlen)
      | none =>
        rw [hl] at h
        simp at h
        refine ⟨[], x :: xs, r, rfl, by simp, h, rfl, ?_⟩
        intro b s'' eb hb hlen
        cases b with
        | nil => simp at hlen
        | cons y ys =>
          simp at eb
          exact loop_none hl ys s'' eb.2 (fun z hz => hb z (by simp [hz]))
    · simp only [hx] at h
      refine ⟨[], x :: xs, r, rfl, by simp, by simpa using h, rfl, ?_⟩
      intro b s'' eb hb hlen
      cases b with
      | nil => simp at hlen
      | cons y ys =>
        simp at eb
        exact absurd (hb y (by simp)) (by rw [← eb.1]; exact hx)

theorem loop_complete {ok : Char → Bool} {k : Name → Option Name} (a s' : Name)
    (ha : ∀ x ∈ a, ok x = true) (hk : (k s').isSome = true) : (loop ok k (a ++ s')).isSome = true := by
  cases h : loop ok k (a ++ s') with
  | some r => rfl
  | none =>
    have := loop_none h a s' rfl ha
    rw [this] at hk; cases hk

/-- index form of `loop_spec` -/
theorem loop_index {ok : Char → Bool} {k : Name → Option Name} {u r : Name} (h : loop ok k u = some r) :
    ∃ n r', n ≤ u.length ∧ k (u.drop n) = some r' ∧ r = u.take n ++ r' ∧ (∀ x ∈ u.take n, ok x = true) ∧
      ∀ m, n < m → m ≤ u.length → (∀ x ∈ u.take m, ok x = true) → k (u.drop m) = none := by
  obtain ⟨a, s', r', e, ha, hk, er, hmax⟩ := loop_spec h
  subst e
  refine ⟨a.length, r', by simp, by simpa using hk, by simpa using er, by simpa using ha, ?_⟩
  intro m hm hle hok
  exact hmax ((a ++ s').take m) ((a ++ s').drop m) (List.take_append_drop m _).symm hok
    (by rw [List.length_take]; omega)

/-! ### soundness and completeness of `run` -/

theorem run_sound (d : Char) (ae : Bool) (is : List Item) : ∀ (s r : Name), run d ae is s = some r →
    ∃ t, s = r ++ t ∧ Sem d is r ∧ (ae = true → t = []) := by
  induction is with
  | nil =>
    intro s r h
    simp only [run] at h
    cases ae with
    | true =>
      simp at h
      obtain ⟨h1, rfl⟩ := h
      exact ⟨[], by simp [h1], .nil, fun _ => rfl⟩
    | false =>
      simp at h; subst h
      exact ⟨s, rfl, .nil, by simp⟩
  | cons it is ih =>
    intro s r h
    cases it with
    | lit c =>
      cases s with
      | nil => simp [run] at h
      | cons x xs =>
        simp only [run] at h
        split at h
        next hx =>
          subst hx
          cases h1 : run d ae is xs with
          | none => simp [h1] at h
          | some r1 =>
            simp [h1] at h; subst h
            obtain ⟨t, e, hs, hae⟩ := ih xs r1 h1
            exact ⟨t, by simp [e], .lit hs, hae⟩
        · cases h
    | star =>
      simp only [run] at h
      obtain ⟨a, s', r', e, ha, hk, er, _⟩ := loop_spec h
      obtain ⟨t, e', hs, hae⟩ := ih s' r' hk
      refine ⟨t, by simp [e, e', er], ?_, hae⟩
      rw [er]
      exact .star a rfl hs
    | pct =>
      simp only [run] at h
      obtain ⟨a, s', r', e, ha, hk, er, _⟩ := loop_spec h
      obtain ⟨t, e', hs, hae⟩ := ih s' r' hk
      refine ⟨t, by simp [e, e', er], ?_, hae⟩
      rw [er]
      exact .pct a rfl (fun x hx => by simpa using ha x hx) hs

theorem run_complete (d : Char) (ae : Bool) {is : List Item} {q : Name} (hs : Sem d is q) :
    ∀ t, (ae = true → t = []) → (run d ae is (q ++ t)).isSome = true := by
  induction hs with
  | nil =>
    intro t ht
    cases ae with
    | true => simp [run, ht rfl]
    | false => simp [run]
  | lit _ ih =>
    intro t ht
    simp only [run, List.cons_append, if_true]
    have := ih t ht
    cases h : run d ae _ (_ ++ t) with
    | none => rw [h] at this; cases this
    | some r => simp
  | star a e _ ih =>
    intro t ht
    subst e
    simp only [run, List.append_assoc]
    exact loop_complete a _ (fun _ _ => rfl) (ih t ht)
  | pct a e ha _ ih =>
    intro t ht
    subst e
    simp only [run, List.append_assoc]
    exact loop_complete a _ (fun x hx => by simpa using ha x hx) (ih t ht)

/-- anchored (`$`): the match is the whole string, and exists iff the items match it -/
theorem run_anchored (d : Char) (is : List Item) (s : Name) :
    (Sem d is s ∧ run d true is s = some s) ∨ (¬ Sem d is s ∧ run d true is s = none) := by
  cases h : run d true is s with
  | some r =>
    obtain ⟨t, e, hs, hae⟩ := run_sound d true is s r h
    have : t = [] := hae rfl
    subst this
    simp at e; subst e
    exact Or.inl ⟨hs, rfl⟩
  | none =>
    right
    refine ⟨?_, rfl⟩
    intro hs
    have := run_complete d true hs [] (fun _ => rfl)
    simp [h] at this

/-! ### items of a pattern versus the reference wildcard relation -/

theorem toItem_lit {c x : Char} (h : toItem c = .lit x) : c = x ∧ c ≠ '*' ∧ c ≠ '%' := by
  simp only [toItem] at h
  split at h
  · cases h
  · split at h
    · cases h
    · cases h; exact ⟨rfl, by assumption, by assumption⟩

theorem toItem_star {c : Char} (h : toItem c = .star) : c = '*' := by
  simp only [toItem] at h
  split at h
  · assumption
  · split at h <;> cases h

theorem toItem_pct {c : Char} (h : toItem c = .pct) : c = '%' := by
  simp only [toItem] at h
  split at h
  · cases h
  · split at h
    · assumption
    · cases h

theorem wild_of_sem {d : Char} {is : List Item} {n : Name} (h : Sem d is n) :
    ∀ p, is = toItems p → Spec.Wild d p n := by
  induction h with
  | nil =>
    intro p hp
    cases p with
    | nil => exact .nil
    | cons c p => simp [toItems] at hp
  | lit _ ih =>
    intro p hp
    cases p with
    | nil => simp [toItems] at hp
    | cons c p =>
      simp [toItems] at hp
      obtain ⟨rfl, h1, h2⟩ := toItem_lit hp.1.symm
      exact .lit h1 h2 (ih p (by simp [toItems, hp.2]))
  | star a e _ ih =>
    intro p hp
    cases p with
    | nil => simp [toItems] at hp
    | cons c p =>
      simp [toItems] at hp
      have := toItem_star hp.1.symm
      subst this
      exact .star a e (ih p (by simp [toItems, hp.2]))
  | pct a e ha _ ih =>
    intro p hp
    cases p with
    | nil => simp [toItems] at hp
    | cons c p =>
      simp [toItems] at hp
      have := toItem_pct hp.1.symm
      subst this
      exact .pct a e (fun hd => ha d hd rfl) (ih p (by simp [toItems, hp.2]))

theorem sem_of_wild {d : Char} {p n : Name} (h : Spec.Wild d p n) : Sem d (toItems p) n := by
  induction h with
  | nil => exact .nil
  | lit h1 h2 _ ih =>
    simp only [toItems, List.map_cons, toItem, h1, h2, if_false]
    exact .lit ih
  | star a e _ ih =>
    subst e
    simp only [toItems, List.map_cons, toItem, if_true]
    exact .star a rfl ih
  | pct a e ha _ ih =>
    subst e
    have : ('%' : Char) ≠ '*' := by decide
    simp only [toItems, List.map_cons, toItem, this, if_false, if_true]
    exact .pct a rfl (fun x hx hxd => ha (hxd ▸ hx)) ih

/-- the compiled expression means the RFC wildcard relation -/
theorem sem_iff_wild (d : Char) (p n : Name) : Sem d (toItems p) n ↔ Spec.Wild d p n :=
  ⟨fun h => wild_of_sem h p rfl, fun h => sem_of_wild h⟩

/-! ### patterns ending in `%` -/

def EndsPct (is : List Item) : Prop := is.getLast? = some .pct

theorem endsPct_cons {it : Item} {is : List Item} (h : EndsPct (it :: is)) (hne : is ≠ []) : EndsPct is := by
  cases is with
  | nil => exact absurd rfl hne
  | cons y ys => simpa [EndsPct, List.getLast?_cons_cons] using h

theorem endsPct_tail_ne {it : Item} {is : List Item} (h : EndsPct (it :: is)) (hit : it ≠ .pct) : is ≠ [] := by
  intro e; subst e
  simp [EndsPct] at h
  exact hit h

/-- the match of a pattern ending in `%` stops at the end of the name or right before a delimiter -/
theorem run_boundary (d : Char) (is : List Item) (hE : EndsPct is) : ∀ (s r : Name),
    run d false is s = some r → ∃ t, s = r ++ t ∧ (t = [] ∨ t.head? = some d) := by
  induction is with
  | nil => simp [EndsPct] at hE
  | cons it is ih =>
    intro s r h
    cases it with
    | lit c =>
      have hne := endsPct_tail_ne hE (by simp)
      cases s with
      | nil => simp [run] at h
      | cons x xs =>
        simp only [run] at h
        split at h
        · cases h1 : run d false is xs with
          | none => simp [h1] at h
          | some r1 =>
            simp [h1] at h; subst h
            obtain ⟨t, e, ht⟩ := ih (endsPct_cons hE hne) xs r1 h1
            exact ⟨t, by simp [e], ht⟩
        · cases h
    | star =>
      have hne := endsPct_tail_ne hE (by simp)
      simp only [run] at h
      obtain ⟨a, s', r', e, _, hk, er, _⟩ := loop_spec h
      obtain ⟨t, e', ht⟩ := ih (endsPct_cons hE hne) s' r' hk
      exact ⟨t, by simp [e, e', er], ht⟩
    | pct =>
      simp only [run] at h
      obtain ⟨a, s', r', e, ha, hk, er, hmax⟩ := loop_spec h
      by_cases hne : is = []
      · subst hne
        simp [run] at hk; subst hk
        refine ⟨s', by simp [e, er], ?_⟩
        cases s' with
        | nil => exact Or.inl rfl
        | cons y ys =>
          right
          by_cases hy : y = d
          · simp [hy]
          · exfalso
            have := hmax (a ++ [y]) ys (by simp [e]) (by
              intro z hz
              rcases List.mem_append.mp hz with hz | hz
              · exact ha z hz
              · simp at hz; subst hz; simpa using hy) (by simp)
            simp [run] at this
      · obtain ⟨t, e', ht⟩ := ih (endsPct_cons hE hne) s' r' hk
        exact ⟨t, by simp [e, e', er], ht⟩

theorem drop_append_left (a b : Name) : (a ++ b).drop a.length = b := by simp

theorem mem_take_drop_append {a rest : Name} {j m : Nat} {x : Char} (hm : j + m ≤ a.length)
    (hx : x ∈ ((a ++ rest).drop j).take m) : x ∈ a := by
  induction a generalizing j m with
  | nil =>
    simp at hm
    obtain ⟨rfl, rfl⟩ := hm
    simp at hx
  | cons y ys ih =>
    cases j with
    | zero =>
      cases m with
      | zero => simp at hx
      | succ m =>
        simp only [List.cons_append, List.drop_zero, List.take_succ_cons, List.mem_cons] at hx
        rcases hx with rfl | hx
        · simp
        · have : x ∈ ys := by
            apply ih (j := 0) (m := m) (by simp at hm ⊢; omega)
            simpa using hx
          simp [this]
    | succ j =>
      simp only [List.cons_append, List.drop_succ_cons] at hx
      have : x ∈ ys := ih (j := j) (by simp at hm; omega) hx
      simp [this]

/-- Greedy preference never stops short: if the items match `q` wholly and the search is started at
    any offset `j` inside `q` (of a text `q ++ t`), a successful search ends at or beyond the end
    of `q`. -/
theorem run_longest (d : Char) (is : List Item) (hE : EndsPct is) :
    ∀ (q t : Name) (j : Nat) (r : Name), Sem d is q → j ≤ q.length →
      run d false is ((q ++ t).drop j) = some r → q.length ≤ j + r.length := by
  induction is with
  | nil => simp [EndsPct] at hE
  | cons it is ih =>
    intro q t j r hs hj h
    cases hs with
    | @lit c _ q' hs' =>
      have hne := endsPct_tail_ne hE (by simp)
      have ih' := ih (endsPct_cons hE hne) q' t
      cases j with
      | zero =>
        simp only [List.cons_append, List.drop_zero, run, if_true] at h
        cases h1 : run d false is (q' ++ t) with
        | none => simp [h1] at h
        | some r1 =>
          simp [h1] at h; subst h
          have := ih' 0 r1 hs' (by omega) (by simpa using h1)
          simp; omega
      | succ j' =>
        simp only [List.cons_append, List.drop_succ_cons] at h
        cases hu : (q' ++ t).drop j' with
        | nil => rw [hu] at h; simp [run] at h
        | cons x xs =>
          rw [hu] at h
          simp only [run] at h
          split at h
          · cases h1 : run d false is xs with
            | none => simp [h1] at h
            | some r1 =>
              simp [h1] at h; subst h
              have hxs : xs = (q' ++ t).drop (j' + 1) := by
                have := congrArg (List.drop 1) hu
                simpa [List.drop_drop, Nat.add_comm] using this.symm
              simp at hj
              by_cases hjq : j' + 1 ≤ q'.length
              · have := ih' (j' + 1) r1 hs' hjq (by rw [← hxs]; exact h1)
                simp; omega
              · simp; omega
          · cases h
    | @star _ q' _ a e hs' =>
      subst e
      have hne := endsPct_tail_ne hE (by simp)
      have ih' := ih (endsPct_cons hE hne) q' t
      simp only [run] at h
      obtain ⟨n, r', hn, hk, er, _, hmax⟩ := loop_index h
      rw [List.drop_drop] at hk
      have hlen : ((a ++ q' ++ t).drop j).length = (a ++ q' ++ t).length - j := by simp
      have hrl : r.length = n + r'.length := by rw [er, List.length_append, List.length_take, Nat.min_eq_left hn]
      -- the loop went at least as far as the end of `a`
      have hja : a.length ≤ j + n := by
        by_cases hc : a.length ≤ j + n
        · exact hc
        · exfalso
          have := hmax (a.length - j) (by omega) (by rw [hlen]; simp; omega)
            (fun _ _ => rfl)
          rw [List.drop_drop] at this
          have e2 : j + (a.length - j) = a.length := by omega
          rw [e2, List.append_assoc, drop_append_left] at this
          have := run_complete d false hs' t (by simp)
          simp_all
      have hk' : run d false is ((q' ++ t).drop (j + n - a.length)) = some r' := by
        have : (a ++ q' ++ t).drop (j + n) = (q' ++ t).drop (j + n - a.length) := by
          rw [List.append_assoc]
          have e2 : j + n = a.length + (j + n - a.length) := by omega
          rw [e2, ← List.drop_drop, drop_append_left]
          congr 1; omega
        rw [← this]; exact hk
      simp at hj ⊢
      by_cases hjq : j + n - a.length ≤ q'.length
      · have := ih' (j + n - a.length) r' hs' hjq hk'
        omega
      · omega
    | @pct _ q' _ a e ha hs' =>
      subst e
      simp only [run] at h
      obtain ⟨n, r', hn, hk, er, _, hmax⟩ := loop_index h
      rw [List.drop_drop] at hk
      have hlen : ((a ++ q' ++ t).drop j).length = (a ++ q' ++ t).length - j := by simp
      have hrl : r.length = n + r'.length := by rw [er, List.length_append, List.length_take, Nat.min_eq_left hn]
      have hcompl : (run d false is (q' ++ t)).isSome = true := run_complete d false hs' t (by simp)
      have hja : a.length ≤ j + n := by
        by_cases hc : a.length ≤ j + n
        · exact hc
        · exfalso
          have := hmax (a.length - j) (by omega) (by rw [hlen]; simp; omega)
            (fun x hx => by
              have : x ∈ a := by
                rw [List.append_assoc] at hx
                exact mem_take_drop_append (by omega) hx
              simpa using ha x this)
          rw [List.drop_drop] at this
          have e2 : j + (a.length - j) = a.length := by omega
          rw [e2, List.append_assoc, drop_append_left] at this
          simp_all
      have hk' : run d false is ((q' ++ t).drop (j + n - a.length)) = some r' := by
        have : (a ++ q' ++ t).drop (j + n) = (q' ++ t).drop (j + n - a.length) := by
          rw [List.append_assoc]
          have e2 : j + n = a.length + (j + n - a.length) := by omega
          rw [e2, ← List.drop_drop, drop_append_left]
          congr 1; omega
        rw [← this]; exact hk
      simp at hj ⊢
      by_cases hne : is = []
      · subst hne
        cases hs'
        simp at hj ⊢
        omega
      · have ih' := ih (endsPct_cons hE hne) q' t
        by_cases hjq : j + n - a.length ≤ q'.length
        · have := ih' (j + n - a.length) r' hs' hjq hk'
          omega
        · omega

end Gluon.Match
