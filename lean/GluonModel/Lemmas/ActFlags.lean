/-
C03 helper lemmas, part 1: case-insensitive flag sets.
`canon` (Spec/MailboxRef.lean) is a normal form: two flag lists with the same lower-case names have
the same `canon` (`canon_ext`), so equality of reference states is equality of flag SETS.
-/
import GluonModel.Spec.MailboxRef
import GluonModel.Model.Actions

namespace Gluon.C03
open Gluon.MailboxRef

/-- strictly ascending -/
def Sorted (l : List String) : Prop := l.Pairwise (· < ·)

theorem mem_ins (x f : String) (l : FlagSet) : x ∈ ins f l ↔ x = f ∨ x ∈ l := by
  induction l with
  | nil => simp [ins]
  | cons g r ih =>
    unfold ins
    split
    · simp
    · split
      · next h => subst h; simp
      · simp [ih]; grind

theorem sorted_ins (f : String) (l : FlagSet) (h : Sorted l) : Sorted (ins f l) := by
  induction l with
  | nil => simp [ins, Sorted]
  | cons g r ih =>
    unfold Sorted at h ih ⊢
    rw [List.pairwise_cons] at h
    unfold ins
    split
    · next hfg =>
      rw [List.pairwise_cons]
      refine ⟨?_, List.pairwise_cons.mpr h⟩
      intro y hy
      rcases List.mem_cons.mp hy with rfl | hy
      · exact hfg
      · exact String.lt_trans hfg (h.1 y hy)
    · next hfg =>
      split
      · exact List.pairwise_cons.mpr h
      · next hne =>
        rw [List.pairwise_cons]
        refine ⟨?_, ih h.2⟩
        intro y hy
        rcases (mem_ins y f r).mp hy with rfl | hy
        · rcases Std.lt_trichotomy y g with h1 | h1 | h1
          · exact absurd h1 hfg
          · exact absurd h1 hne
          · exact h1
        · exact h.1 y hy

theorem sorted_ext : ∀ (a b : FlagSet), Sorted a → Sorted b → (∀ x, x ∈ a ↔ x ∈ b) → a = b := by
  intro a
  induction a with
  | nil =>
    intro b _ _ h
    cases b with
    | nil => rfl
    | cons y b' => exact absurd ((h y).mpr (List.mem_cons_self)) (by simp)
  | cons x a' ih =>
    intro b ha hb h
    cases b with
    | nil => exact absurd ((h x).mp (List.mem_cons_self)) (by simp)
    | cons y b' =>
      unfold Sorted at ha hb
      rw [List.pairwise_cons] at ha hb
      have hxy : x = y := by
        rcases List.mem_cons.mp ((h x).mp List.mem_cons_self) with h1 | h1
        · exact h1
        · rcases List.mem_cons.mp ((h y).mpr List.mem_cons_self) with h2 | h2
          · exact h2.symm
          · exact absurd (String.lt_trans (hb.1 x h1) (ha.1 y h2)) (String.lt_irrefl y)
      subst hxy
      congr 1
      apply ih b' ha.2 hb.2
      intro z
      constructor
      · intro hz
        rcases List.mem_cons.mp ((h z).mp (List.mem_cons_of_mem _ hz)) with h1 | h1
        · subst h1; exact absurd (ha.1 z hz) (String.lt_irrefl z)
        · exact h1
      · intro hz
        rcases List.mem_cons.mp ((h z).mpr (List.mem_cons_of_mem _ hz)) with h1 | h1
        · subst h1; exact absurd (hb.1 z hz) (String.lt_irrefl z)
        · exact h1

theorem mem_insAll (x : String) (ks : List String) (cur : FlagSet) : x ∈ insAll ks cur ↔ x ∈ ks ∨ x ∈ cur := by
  induction ks with
  | nil => simp [insAll]
  | cons k r ih =>
    have : insAll (k :: r) cur = ins k (insAll r cur) := rfl
    rw [this, mem_ins, ih]; simp; grind

theorem sorted_insAll (ks : List String) (cur : FlagSet) (h : Sorted cur) : Sorted (insAll ks cur) := by
  induction ks with
  | nil => exact h
  | cons k r ih => exact sorted_ins k _ ih

theorem sorted_canon (l : List String) : Sorted (canon l) := sorted_insAll _ _ (by simp [Sorted])

theorem mem_canon (x : String) (l : List String) : x ∈ canon l ↔ x ∈ l.map lower := by
  simp [canon, mem_insAll]

/-- **`canon` is a normal form of the flag set**: same lower-case names, same list. -/
theorem canon_ext (a b : List String) (h : ∀ x, x ∈ a.map lower ↔ x ∈ b.map lower) : canon a = canon b :=
  sorted_ext _ _ (sorted_canon a) (sorted_canon b) fun x => by rw [mem_canon, mem_canon]; exact h x

theorem sorted_filter (l : FlagSet) (p : String → Bool) (h : Sorted l) : Sorted (l.filter p) :=
  List.Pairwise.filter p h

/-- the model's and the reference's lower-casing are the same function -/
theorem lower_eq (s : String) : Act.lower s = lower s := rfl

end Gluon.C03
