/-
Lemmas about `Search.unfold` (mergeMultiline) for property C15: a line break with white space around it reads as one
space — wherever the value is folded.
-/
import GluonModel.Model.SearchHeader

namespace Gluon
namespace Search

/-- a printable ASCII character: nothing `bytes.TrimSpace` removes, no part of a multi-byte white-space rune -/
def plain (c : UInt8) : Bool := 33 ≤ c && c ≤ 126

/-- blanks and tabs (WSP of RFC 5322) -/
def isWSPs (ws : Bytes) : Prop := ∀ c ∈ ws, c = 32 ∨ c = 9

/-- everything the trimming functions ask about a byte, for a plain one -/
def edgeFacts (c : UInt8) : Bool :=
  !plain c || (!isAsciiSpace c && c != 0xC2 && c != 0xE1 && c != 0xE2 && c != 0xE3 && c != 0x85 && c != 0xA0 &&
    c != 0x80 && c != 0x9F && !isE280Space c && c != 10 && c != 13)

set_option maxRecDepth 20000 in
theorem edgeFacts_all : ∀ n : Fin 256, edgeFacts (UInt8.ofNat n.val) = true := by decide

theorem edgeFacts_of (c : UInt8) : edgeFacts c = true := by
  have h := edgeFacts_all ⟨c.toNat, UInt8.toNat_lt c⟩
  simpa using h

theorem plain_facts {c : UInt8} (h : plain c = true) :
    isAsciiSpace c = false ∧ (c == 0xC2) = false ∧ (c == 0xE1) = false ∧ (c == 0xE2) = false ∧ (c == 0xE3) = false ∧
    (c == 0x85) = false ∧ (c == 0xA0) = false ∧ (c == 0x80) = false ∧ (c == 0x9F) = false ∧ isE280Space c = false ∧
    (c == 10) = false ∧ (c == 13) = false := by
  have := edgeFacts_of c
  simp only [edgeFacts, h, Bool.not_true, Bool.false_or, Bool.and_eq_true, Bool.not_eq_true', bne_iff_ne, ne_eq] at this
  obtain ⟨⟨⟨⟨⟨⟨⟨⟨⟨⟨⟨h1, h2⟩, h3⟩, h4⟩, h5⟩, h6⟩, h7⟩, h8⟩, h9⟩, h10⟩, h11⟩, h12⟩ := this
  refine ⟨h1, ?_, ?_, ?_, ?_, ?_, ?_, ?_, ?_, h10, ?_, ?_⟩ <;> simp [*]

theorem wsp_space {c : UInt8} (h : c = 32 ∨ c = 9) : isAsciiSpace c = true := by
  rcases h with rfl | rfl <;> decide

theorem trimLeft_ws (ws b : Bytes) (h : isWSPs ws) : trimLeft (ws ++ b) = trimLeft b := by
  induction ws with
  | nil => rfl
  | cons c tl ih =>
    have hc := wsp_space (h c (by simp))
    rw [List.cons_append]
    conv => lhs; rw [trimLeft.eq_def]
    simp only [hc, if_true]
    exact ih (fun d hd => h d (by simp [hd]))

theorem trimLeft_plain (c : UInt8) (tl : Bytes) (h : plain c = true) : trimLeft (c :: tl) = c :: tl := by
  obtain ⟨h1, h2, h3, h4, h5, _⟩ := plain_facts h
  conv => lhs; rw [trimLeft.eq_def]
  simp [h1, h2, h3, h4, h5]

theorem trimLeftRev_ws (ws b : Bytes) (h : isWSPs ws) : trimLeftRev (ws ++ b) = trimLeftRev b := by
  induction ws with
  | nil => rfl
  | cons c tl ih =>
    have hc := wsp_space (h c (by simp))
    rw [List.cons_append]
    conv => lhs; rw [trimLeftRev.eq_def]
    simp only [hc, if_true]
    exact ih (fun d hd => h d (by simp [hd]))

theorem trimLeftRev_plain (c : UInt8) (tl : Bytes) (h : plain c = true) : trimLeftRev (c :: tl) = c :: tl := by
  obtain ⟨h1, _, _, _, _, h6, h7, h8, h9, h10, _⟩ := plain_facts h
  conv => lhs; rw [trimLeftRev.eq_def]
  simp only [h1, Bool.false_eq_true, if_false]
  split
  · simp only [h6, h7, Bool.or_self, Bool.and_false, Bool.false_eq_true, if_false]
    split
    · simp [h8, h9, h10]
    · rfl
  · rfl

/-- a physical line as it shows in the unfolded value: it starts and ends with a printable ASCII character and has no
    line feed inside (anything may stand between: blanks, tabs, 8-bit bytes, encoded words) -/
structure Clean (a : Bytes) : Prop where
  head : ∃ c tl, a = c :: tl ∧ plain c = true
  last : ∃ d ini, a = ini ++ [d] ∧ plain d = true
  noLF : 10 ∉ a

theorem isWSPs_reverse {ws : Bytes} (h : isWSPs ws) : isWSPs ws.reverse := fun c hc => h c (by simpa using hc)

/-- `bytes.TrimSpace` of a line with blanks / tabs on both sides is the line -/
theorem trimSpace_padded (p b q : Bytes) (hp : isWSPs p) (hq : isWSPs q) (hb : Clean b) :
    trimSpace (p ++ b ++ q) = b := by
  obtain ⟨c, tl, rfl, hc⟩ := hb.head
  obtain ⟨d, ini, hd, hdp⟩ := hb.last
  unfold trimSpace trimRight
  rw [List.append_assoc, trimLeft_ws _ _ hp, List.cons_append, trimLeft_plain _ _ hc, ← List.cons_append, hd]
  rw [List.reverse_append, trimLeftRev_ws _ _ (isWSPs_reverse hq)]
  simp only [List.reverse_append, List.reverse_cons, List.reverse_nil, List.nil_append, List.singleton_append]
  rw [trimLeftRev_plain _ _ hdp]
  simp

theorem unfoldGo_append (a t cur : Bytes) (h : 10 ∉ a) : unfoldGo (a ++ t) cur = unfoldGo t (a.reverse ++ cur) := by
  induction a generalizing cur with
  | nil => rfl
  | cons c tl ih =>
    have hc : (c == 10) = false := by
      cases hq : c == 10
      · rfl
      · exact absurd (by simp [eq_of_beq hq]) h
    simp only [List.cons_append, unfoldGo, hc, Bool.false_eq_true, if_false]
    rw [ih _ (fun hm => h (by simp [hm]))]
    simp

theorem wsps_noLF {ws : Bytes} (h : isWSPs ws) : 10 ∉ ws := by
  intro hm
  rcases h 10 hm with h | h <;> exact absurd h (by decide)

/-- one physical line `p ++ b ++ q` (blanks / tabs around the text `b`) closed by CRLF: the loop writes `b`, and one
    space if anything follows -/
theorem unfoldGo_line (p b q t : Bytes) (hp : isWSPs p) (hq : isWSPs q) (hb : Clean b) :
    unfoldGo (p ++ b ++ q ++ 13 :: 10 :: t) [] = b ++ (if t.isEmpty then [] else [32]) ++ unfoldGo t [] := by
  have hno : 10 ∉ p ++ b ++ q ++ [13] := by
    simp only [List.mem_append, List.mem_singleton, not_or]
    exact ⟨⟨⟨wsps_noLF hp, hb.noLF⟩, wsps_noLF hq⟩, by decide⟩
  have : p ++ b ++ q ++ 13 :: 10 :: t = (p ++ b ++ q ++ [13]) ++ 10 :: t := by simp
  rw [this, unfoldGo_append _ _ _ hno]
  obtain ⟨c, tl, hbe, _⟩ := hb.head
  have hne : (p ++ b ++ q).isEmpty = false := by subst hbe; cases p <;> simp
  simp only [List.reverse_append, List.reverse_cons, List.reverse_nil, List.nil_append, List.append_nil,
    List.cons_append, unfoldGo, beq_self_eq_true, if_true]
  simp only [List.reverse_reverse, List.append_assoc] at *
  rw [hne]
  simp only [Bool.false_eq_true, if_false]
  have := trimSpace_padded p b q hp hq hb
  simp only [List.append_assoc] at this
  rw [this, List.append_assoc]

/-- the folded text of a value: first line, then (white space before the break, white space after it, next line)… -/
def foldedRaw (a : Bytes) (rest : List (Bytes × Bytes × Bytes)) : Bytes :=
  a ++ rest.flatMap (fun p => p.1 ++ [13, 10] ++ p.2.1 ++ p.2.2) ++ [13, 10]

/-- … and what it reads as -/
def foldedVal (a : Bytes) (rest : List (Bytes × Bytes × Bytes)) : Bytes :=
  a ++ rest.flatMap (fun p => 32 :: p.2.2)

theorem unfoldGo_folded (p a : Bytes) (rest : List (Bytes × Bytes × Bytes)) (hp : isWSPs p) (ha : Clean a)
    (hr : ∀ x ∈ rest, isWSPs x.1 ∧ isWSPs x.2.1 ∧ Clean x.2.2) :
    unfoldGo (p ++ foldedRaw a rest) [] = foldedVal a rest := by
  induction rest generalizing p a with
  | nil =>
    have := unfoldGo_line p a [] [] hp (fun _ h => by cases h) ha
    simpa [foldedRaw, foldedVal, unfoldGo, trimSpace, trimRight, trimLeft, trimLeftRev] using this
  | cons x rest ih =>
    obtain ⟨hx1, hx2, hx3⟩ := hr x (by simp)
    have hrest : ∀ y ∈ rest, isWSPs y.1 ∧ isWSPs y.2.1 ∧ Clean y.2.2 := fun y hy => hr y (by simp [hy])
    have e : p ++ foldedRaw a (x :: rest) = p ++ a ++ x.1 ++ 13 :: 10 :: (x.2.1 ++ foldedRaw x.2.2 rest) := by
      simp [foldedRaw, List.append_assoc]
    rw [e, unfoldGo_line p a x.1 _ hp hx1 ha, ih x.2.1 x.2.2 hx2 hx3 hrest]
    obtain ⟨c, tl, hc, _⟩ := hx3.head
    have : (x.2.1 ++ foldedRaw x.2.2 rest).isEmpty = false := by
      simp [foldedRaw, hc]
    simp [this, foldedVal]

theorem clean_foldedVal (a : Bytes) (rest : List (Bytes × Bytes × Bytes)) (ha : Clean a)
    (hr : ∀ x ∈ rest, Clean x.2.2) : Clean (foldedVal a rest) := by
  refine ⟨?_, ?_, ?_⟩
  · obtain ⟨c, tl, rfl, hc⟩ := ha.head
    exact ⟨c, tl ++ rest.flatMap (fun p => 32 :: p.2.2), by simp [foldedVal], hc⟩
  · rcases List.eq_nil_or_concat rest with rfl | ⟨ini, x, rfl⟩
    · simpa [foldedVal] using ha.last
    · obtain ⟨d, i2, hd, hdp⟩ := (hr x (by simp)).last
      refine ⟨d, a ++ ini.flatMap (fun p => 32 :: p.2.2) ++ 32 :: i2, ?_, hdp⟩
      simp [foldedVal, List.flatMap_append, hd]
  · simp only [foldedVal, List.mem_append, List.mem_flatMap, List.mem_cons, not_or, not_exists, not_and]
    refine ⟨ha.noLF, fun x hx => ⟨by decide, (hr x hx).noLF⟩⟩

end Search
end Gluon
