/-
Round-trip lemmas for the primitives of `rfcparser/parser.go`: token loops, numbers, atoms, quoted
strings, literals, strings, astrings.
-/
import GluonModel.Lemmas.ParseTok
import GluonModel.Model.Parse.Print

namespace Gluon.Parse

/-! ### CPS rewriting lemmas on loaded states -/

theorem matchesWith_load_yes {f : TokTy → Bool} {b : UInt8} (h : f (tokTy b) = true) (k : Bool → P β)
    (c : Ctx) (bs : Bytes) :
    (matchesWith f >>= k) (load c (b :: bs)) = k true (load ⟨Tok.ofByte b, b, c.n⟩ bs) := by
  have : matchesWith f (load c (b :: bs)) = .ok true (load ⟨Tok.ofByte b, b, c.n⟩ bs) := by
    unfold matchesWith
    simp [h, bind_ok (advance_load c b bs)]
  rw [bind_ok this]

theorem matchesWith_load_no {f : TokTy → Bool} {bs : Bytes} (h : f (headTy bs) = false) (k : Bool → P β)
    (c : Ctx) :
    (matchesWith f >>= k) (load c bs) = k false (load c bs) := by
  have : matchesWith f (load c bs) = .ok false (load c bs) := by
    unfold matchesWith
    simp [h]
  rw [bind_ok this]

theorem consumeWith_load {f : TokTy → Bool} {b : UInt8} (h : f (tokTy b) = true) (k : Unit → P β)
    (c : Ctx) (bs : Bytes) :
    (consumeWith f >>= k) (load c (b :: bs)) = k () (load ⟨Tok.ofByte b, b, c.n⟩ bs) := by
  have : consumeWith f (load c (b :: bs)) = .ok () (load ⟨Tok.ofByte b, b, c.n⟩ bs) := by
    unfold consumeWith
    simp [h, advance_load]
  rw [bind_ok this]

/-! ### collect loops -/

theorem rt_collectLoop (f : TokTy → Bool) (w : Bytes) (hw : ∀ b ∈ w, f (tokTy b) = true)
    (fuel : Nat) (hf : w.length < fuel) : RT (collectLoop f fuel) w w (nextNot f) := by
  induction w generalizing fuel with
  | nil =>
    intro c rest hr
    cases fuel with
    | zero => simp at hf
    | succ n =>
      refine ⟨c, ?_⟩
      simp only [List.nil_append, Gluon.Parse.collectLoop]
      rw [matchesWith_load_no hr]
      rfl
  | cons b w ih =>
    intro c rest hr
    cases fuel with
    | zero => simp at hf
    | succ n =>
      have hb : f (tokTy b) = true := hw b (by simp)
      have hw' : ∀ x ∈ w, f (tokTy x) = true := fun x hx => hw x (by simp [hx])
      obtain ⟨c', e⟩ := ih hw' n (by simpa using hf) ⟨Tok.ofByte b, b, c.n⟩ rest hr
      refine ⟨c', ?_⟩
      simp only [List.cons_append, Gluon.Parse.collectLoop]
      rw [matchesWith_load_yes hb]
      simp only [if_true, bind_prevVal, load_prev]
      rw [bind_ok e]
      rfl

theorem rt_collectWhile (f : TokTy → Bool) (w : Bytes) (hw : ∀ b ∈ w, f (tokTy b) = true)
    (fuel : Nat) (hf : w.length < fuel) : RT (collectWhile f fuel) w w (nextNot f) :=
  rt_collectLoop f w hw fuel hf

/-- `ConsumeWith(f)` then `CollectBytesWhileMatchesWithPrevWith(f)`: the shape of `ParseAtom` and `parseTag` -/
theorem rt_consumeCollectPrev (f : TokTy → Bool) (b : UInt8) (w : Bytes)
    (hb : f (tokTy b) = true) (hw : ∀ x ∈ w, f (tokTy x) = true) (fuel : Nat) (hf : w.length < fuel) :
    RT (consumeWith f >>= fun _ => collectWhilePrev f fuel) (b :: w) (b :: w) (nextNot f) := by
  intro c rest hr
  obtain ⟨c', e⟩ := rt_collectLoop f w hw fuel hf ⟨Tok.ofByte b, b, c.n⟩ rest hr
  refine ⟨c', ?_⟩
  simp only [List.cons_append]
  rw [consumeWith_load hb]
  unfold collectWhilePrev
  simp only [bind_prevVal, load_prev]
  rw [bind_ok e]
  rfl

/-- `MatchesWith(f)` succeeded, then `CollectBytesWhileMatchesWithPrevWith(f)`: `parseListMailbox` -/
theorem collectWhilePrev_after (f : TokTy → Bool) (b : UInt8) (w : Bytes)
    (hw : ∀ x ∈ w, f (tokTy x) = true) (fuel : Nat) (hf : w.length < fuel) (n : Nat) (rest : Bytes)
    (hr : nextNot f rest) :
    ∃ c', collectWhilePrev f fuel (load ⟨Tok.ofByte b, b, n⟩ (w ++ rest)) = .ok (b :: w) (load c' rest) := by
  obtain ⟨c', e⟩ := rt_collectLoop f w hw fuel hf ⟨Tok.ofByte b, b, n⟩ rest hr
  refine ⟨c', ?_⟩
  unfold collectWhilePrev
  simp only [bind_prevVal, load_prev]
  rw [bind_ok e]
  rfl

theorem rt_parseAtom (b : UInt8) (w : Bytes) (hb : isAtomChar (tokTy b) = true)
    (hw : ∀ x ∈ w, isAtomChar (tokTy x) = true) (fuel : Nat) (hf : w.length < fuel) :
    RT (parseAtom fuel) (b :: w) (b :: w) (nextNot isAtomChar) :=
  rt_consumeCollectPrev isAtomChar b w hb hw fuel hf

/-! ### numbers -/

theorem wrap64_id {x : Int} (h1 : -9223372036854775808 ≤ x) (h2 : x < 9223372036854775808) :
    wrap64 x = x := by
  unfold wrap64; omega

def isDigitTok : TokTy → Bool := fun t => t == TokTy.digit

/-- every accumulated value stays within 32 bits -/
def prefOK : Int → Bytes → Prop
  | _, [] => True
  | acc, d :: ds => numStep acc d ≤ maxUint32 ∧ prefOK (numStep acc d) ds

theorem prefOK_append (acc : Int) (xs : Bytes) (d : UInt8) :
    prefOK acc (xs ++ [d]) ↔ (prefOK acc xs ∧ numStep (xs.foldl numStep acc) d ≤ maxUint32) := by
  induction xs generalizing acc with
  | nil => simp [prefOK]
  | cons x xs ih =>
    simp only [List.cons_append, prefOK, List.foldl_cons, ih]
    constructor
    · rintro ⟨a, b, c⟩; exact ⟨⟨a, b⟩, c⟩
    · rintro ⟨⟨a, b⟩, c⟩; exact ⟨a, b, c⟩

theorem rt_numberLoop (ds : Bytes) (hd : ∀ b ∈ ds, tokTy b = .digit) (acc : Int) (hp : prefOK acc ds)
    (fuel : Nat) (hf : ds.length < fuel) :
    RT (numberLoop fuel acc) ds (ds.foldl numStep acc) (nextNot isDigitTok) := by
  induction ds generalizing fuel acc with
  | nil =>
    intro c rest hr
    cases fuel with
    | zero => simp at hf
    | succ n =>
      refine ⟨c, ?_⟩
      simp only [List.nil_append, numberLoop, matchesTy]
      rw [matchesWith_load_no (f := fun t => t == TokTy.digit) hr]
      rfl
  | cons b ds ih =>
    intro c rest hr
    cases fuel with
    | zero => simp at hf
    | succ n =>
      have hb : (fun t => t == TokTy.digit) (tokTy b) = true := by simp [hd b (by simp)]
      have hd' : ∀ x ∈ ds, tokTy x = .digit := fun x hx => hd x (by simp [hx])
      obtain ⟨hp1, hp2⟩ := hp
      obtain ⟨c', e⟩ := ih hd' (numStep acc b) hp2 n (by simpa using hf) ⟨Tok.ofByte b, b, c.n⟩ rest hr
      refine ⟨c', ?_⟩
      simp only [List.cons_append, numberLoop, matchesTy]
      rw [matchesWith_load_yes hb]
      have hle : ¬ (numStep acc b > maxUint32) := by omega
      simp only [if_true, bind_prevVal, load_prev, Tok.ofByte, hle, if_false]
      exact e

theorem rt_parseNumberRaw (d : UInt8) (ds : Bytes) (h0 : tokTy d = .digit)
    (hd : ∀ b ∈ ds, tokTy b = .digit) (hp : prefOK (byteToInt d) ds) (fuel : Nat) (hf : ds.length < fuel) :
    RT (parseNumber fuel) (d :: ds) (ds.foldl numStep (byteToInt d)) (nextNot isDigitTok) := by
  intro c rest hr
  obtain ⟨c', e⟩ := rt_numberLoop ds hd (byteToInt d) hp fuel hf ⟨Tok.ofByte d, d, c.n⟩ rest hr
  refine ⟨c', ?_⟩
  unfold parseNumber consume
  simp only [List.cons_append]
  rw [consumeWith_load (f := fun t => t == TokTy.digit) (by simp [h0])]
  simp only [bind_prevVal, load_prev]
  exact e

/-- value of a digit string as `ParseNumber` computes it -/
def numVal (ds : Bytes) : Int := ds.foldl numStep 0

theorem digit_byte_facts : ∀ k, k < 10 →
    tokTy (digitByte k) = .digit ∧ byteToInt (digitByte k) = (k : Int) := by decide +kernel

theorem natDigits_digits (n : Nat) : ∀ b ∈ natDigits n, tokTy b = .digit := by
  induction n using Nat.strongRecOn with
  | _ n ih =>
    rw [natDigits]
    split
    · intro b hb
      rw [List.mem_singleton] at hb
      subst hb
      exact (digit_byte_facts n (by assumption)).1
    · intro b hb
      rw [List.mem_append, List.mem_singleton] at hb
      rcases hb with hb | hb
      · exact ih (n / 10) (by omega) b hb
      · subst hb
        exact (digit_byte_facts (n % 10) (by omega)).1

theorem natDigits_ne_nil (n : Nat) : natDigits n ≠ [] := by
  rw [natDigits]
  split <;> simp

theorem numStep_small (a : Int) (k : Nat) (hk : k < 10) (ha0 : 0 ≤ a)
    (ha : a * 10 + k < 9223372036854775808) :
    numStep a (digitByte k) = a * 10 + k := by
  unfold numStep
  rw [(digit_byte_facts k hk).2]
  rw [wrap64_id (x := a * 10) (by omega) (by omega)]
  rw [wrap64_id (by omega) (by omega)]

theorem numVal_natDigits (n : Nat) (h : n < 9223372036854775808) : numVal (natDigits n) = n := by
  induction n using Nat.strongRecOn with
  | _ n ih =>
    rw [natDigits]
    split
    · rename_i hlt
      unfold numVal
      rw [List.foldl_cons, List.foldl_nil]
      rw [numStep_small 0 n hlt (by omega) (by omega)]
      omega
    · rename_i hge
      have ih' := ih (n / 10) (by omega) (by omega)
      unfold numVal at ih' ⊢
      rw [List.foldl_append, ih', List.foldl_cons, List.foldl_nil]
      rw [numStep_small _ (n % 10) (by omega) (by omega) (by omega)]
      omega

/-- the digits of `n` keep every accumulated value within 32 bits iff `n` fits into 32 bits -/
theorem prefOK_natDigits (n : Nat) : prefOK 0 (natDigits n) ↔ n ≤ 4294967295 := by
  induction n using Nat.strongRecOn with
  | _ n ih =>
    rw [natDigits]
    split
    · rename_i hlt
      simp only [prefOK, and_true]
      rw [numStep_small 0 n hlt (by omega) (by omega)]
      unfold maxUint32
      omega
    · rename_i hge
      rw [prefOK_append, ih (n / 10) (by omega)]
      constructor
      · rintro ⟨h1, h2⟩
        have hv := numVal_natDigits (n / 10) (by omega)
        unfold numVal at hv
        rw [hv, numStep_small _ (n % 10) (by omega) (by omega) (by omega)] at h2
        unfold maxUint32 at h2
        omega
      · intro h
        refine ⟨by omega, ?_⟩
        have hv := numVal_natDigits (n / 10) (by omega)
        unfold numVal at hv
        rw [hv, numStep_small _ (n % 10) (by omega) (by omega) (by omega)]
        unfold maxUint32
        omega

theorem numStep_zero_digit (d : UInt8) (h : tokTy d = .digit) : numStep 0 d = byteToInt d := by
  have hdig := (tokTy_digit d).mp h
  unfold numStep
  have e : byteToInt d = (d.toNat : Int) - 48 := rfl
  rw [wrap64_id (x := 0 * 10) (by omega) (by omega)]
  rw [wrap64_id (by omega) (by omega)]
  omega

/-- `ParseNumber` reads the decimal digits of `n < 2^32` as `n` -/
theorem rt_parseNumber (n : Nat) (h : n ≤ 4294967295) (fuel : Nat)
    (hf : (natDigits n).length < fuel) :
    RT (parseNumber fuel) (natDigits n) (n : Int) (nextNot isDigitTok) := by
  have hd := natDigits_digits n
  have hv := numVal_natDigits n (by omega)
  have hp := (prefOK_natDigits n).mpr h
  cases hds : natDigits n with
  | nil => exact absurd hds (natDigits_ne_nil n)
  | cons d ds =>
    rw [hds] at hd hv hf hp
    have h0 : tokTy d = .digit := hd d (List.mem_cons_self ..)
    have hd' : ∀ b ∈ ds, tokTy b = .digit := fun b hb => hd b (List.mem_cons_of_mem _ hb)
    have hp' : prefOK (byteToInt d) ds := by
      have := hp.2
      rwa [numStep_zero_digit d h0] at this
    have := rt_parseNumberRaw d ds h0 hd' hp' fuel (by rw [List.length_cons] at hf; omega)
    have e : ds.foldl numStep (byteToInt d) = (n : Int) := by
      rw [← hv]
      unfold numVal
      rw [List.foldl_cons, numStep_zero_digit d h0]
    rw [e] at this
    exact this

theorem numStep_digit (acc : Int) (b : UInt8) (hb : tokTy b = .digit) (h0 : 0 ≤ acc)
    (h1 : acc ≤ 4294967295) : numStep acc b = acc * 10 + ((b.toNat : Int) - 48) := by
  have hdig := (tokTy_digit b).mp hb
  unfold numStep
  have e : byteToInt b = (b.toNat : Int) - 48 := rfl
  rw [wrap64_id (x := acc * 10) (by omega) (by omega)]
  rw [wrap64_id (by omega) (by omega), e]

theorem makeError_load (c : Ctx) (bs : Bytes) : (makeError : P α) (load c bs) = .err (.parse c.pv.ty) (load c bs) := by
  cases bs <;> rfl

theorem numberLoop_too_big (ds : Bytes) (hd : ∀ b ∈ ds, tokTy b = .digit) (acc : Int) (h0 : 0 ≤ acc)
    (h1 : acc ≤ 4294967295) (hp : ¬ prefOK acc ds) (fuel : Nat) (hf : ds.length < fuel) (c : Ctx)
    (rest : Bytes) :
    ∃ s, numberLoop fuel acc (load c (ds ++ rest)) = .err (.parse .digit) s := by
  induction ds generalizing fuel acc c with
  | nil => exact absurd trivial hp
  | cons b ds ih =>
    cases fuel with
    | zero => simp at hf
    | succ n =>
      have hbd : tokTy b = .digit := hd b (by simp)
      have hb : (fun t => t == TokTy.digit) (tokTy b) = true := by simp [hbd]
      have hd' : ∀ x ∈ ds, tokTy x = .digit := fun x hx => hd x (by simp [hx])
      have hdig := (tokTy_digit b).mp hbd
      have hs := numStep_digit acc b hbd h0 h1
      simp only [List.cons_append, numberLoop, matchesTy]
      rw [matchesWith_load_yes hb]
      simp only [if_true, bind_prevVal, load_prev, Tok.ofByte]
      by_cases hbig : numStep acc b > maxUint32
      · simp only [hbig, if_true]
        rw [makeError_load]
        exact ⟨_, by rw [hbd]⟩
      · simp only [hbig, if_false]
        unfold maxUint32 at hbig
        have hp' : ¬ prefOK (numStep acc b) ds := by
          intro h
          apply hp
          exact ⟨by unfold maxUint32; omega, h⟩
        exact ih hd' (numStep acc b) (by omega) (by omega) hp' n (by simpa using hf) _

/-- a decimal number that does not fit into 32 bits is a parse error (carrying a digit token) -/
theorem parseNumber_too_big (n : Nat) (h : n > 4294967295) (fuel : Nat)
    (hf : (natDigits n).length < fuel) (c : Ctx) (rest : Bytes) :
    ∃ s, parseNumber fuel (load c (natDigits n ++ rest)) = .err (.parse .digit) s := by
  have hd := natDigits_digits n
  have hp : ¬ prefOK 0 (natDigits n) := by rw [prefOK_natDigits]; omega
  cases hds : natDigits n with
  | nil => exact absurd hds (natDigits_ne_nil n)
  | cons d ds =>
    rw [hds] at hd hf hp
    have h0 : tokTy d = .digit := hd d (List.mem_cons_self ..)
    have hd' : ∀ b ∈ ds, tokTy b = .digit := fun b hb => hd b (List.mem_cons_of_mem _ hb)
    have hdig := (tokTy_digit d).mp h0
    have hp' : ¬ prefOK (byteToInt d) ds := by
      intro hh
      apply hp
      refine ⟨?_, ?_⟩
      · rw [numStep_zero_digit d h0]; unfold byteToInt maxUint32; omega
      · rw [numStep_zero_digit d h0]; exact hh
    have e : byteToInt d = (d.toNat : Int) - 48 := rfl
    obtain ⟨s, hs⟩ := numberLoop_too_big ds hd' (byteToInt d) (by omega) (by omega) hp' fuel
      (by rw [List.length_cons] at hf; omega) ⟨Tok.ofByte d, d, c.n⟩ rest
    refine ⟨s, ?_⟩
    unfold parseNumber consume
    simp only [List.cons_append]
    rw [consumeWith_load (f := fun t => t == TokTy.digit) (by simp [h0])]
    simp only [bind_prevVal, load_prev]
    exact hs


/-! ### strings -/

/-- no CR, no LF: what the parser accepts inside a quoted string -/
def NoCRLF (s : Bytes) : Prop := ∀ b ∈ s, b ≠ 13 ∧ b ≠ 10

theorem rt_quotedLoop (s : Bytes) (hq : NoCRLF s) (fuel : Nat) (hf : s.length < fuel) :
    RT (quotedLoop fuel) (escapeQuoted s) s (nextIs .dquote) := by
  induction s generalizing fuel with
  | nil =>
    intro c rest hr
    cases fuel with
    | zero => simp at hf
    | succ n =>
      refine ⟨c, ?_⟩
      have hr' : headTy rest = .dquote := hr
      simp only [escapeQuoted, List.nil_append, quotedLoop, matchesTy]
      rw [matchesWith_load_no (by rw [hr']; rfl)]
      simp only [Bool.false_eq_true, if_false]
      rw [matchesWith_load_no (f := fun t => t == TokTy.backslash) (by rw [hr']; rfl)]
      rfl
  | cons b s ih =>
    intro c rest hr
    cases fuel with
    | zero => simp at hf
    | succ n =>
      have hq' : NoCRLF s := fun x hx => hq x (by simp [hx])
      by_cases hb : (b == 34 || b == 92) = true
      · obtain ⟨c', e⟩ := ih hq' n (by simpa using hf) ⟨Tok.ofByte b, b, c.n⟩ rest hr
        refine ⟨c', ?_⟩
        have hsp : isQuotedSpecial (tokTy b) = true := by
          simp only [Bool.or_eq_true, beq_iff_eq] at hb
          rcases hb with h | h <;> subst h <;> rfl
        simp only [escapeQuoted, hb, if_true, List.cons_append, quotedLoop, matchesTy]
        rw [matchesWith_load_no (bs := 92 :: b :: (escapeQuoted s ++ rest)) (by rfl)]
        simp only [Bool.false_eq_true, if_false]
        rw [matchesWith_load_yes (f := fun t => t == TokTy.backslash) (b := 92) (by rfl)]
        simp only [if_true]
        rw [consumeWith_load hsp]
        simp only [bind_prevVal, load_prev]
        rw [bind_ok e]
        rfl
      · obtain ⟨c', e⟩ := ih hq' n (by simpa using hf) ⟨Tok.ofByte b, b, c.n⟩ rest hr
        refine ⟨c', ?_⟩
        have hqc : isQuotedChar (tokTy b) = true := by
          rw [isQuotedChar_tokTy]
          simp only [Bool.or_eq_true, beq_iff_eq, not_or] at hb
          exact ⟨hb.1, hb.2, hq b (by simp)⟩
        simp only [escapeQuoted, hb, Bool.false_eq_true, if_false, List.cons_append, quotedLoop]
        rw [matchesWith_load_yes hqc]
        simp only [if_true, bind_prevVal, load_prev]
        rw [bind_ok e]
        rfl


theorem consume_load {t : TokTy} {b : UInt8} (h : tokTy b = t) (k : Unit → P β) (c : Ctx) (bs : Bytes) :
    (consume t >>= k) (load c (b :: bs)) = k () (load ⟨Tok.ofByte b, b, c.n⟩ bs) :=
  consumeWith_load (f := fun x => x == t) (by simp [h]) k c bs

theorem rt_parseQuoted (s : Bytes) (hq : NoCRLF s) (fuel : Nat) (hf : s.length < fuel) :
    RT (parseQuoted fuel) (printQuoted s) s anyRest := by
  have h3 := RT.bind (k := fun _ => pure s) (rt_consume (b := 34) (t := .dquote) rfl anyRest)
    (RT.ret s anyRest) (fun _ _ => trivial)
  have h2 := RT.bind (k := fun q => consume .dquote >>= fun _ => pure q) (rt_quotedLoop s hq fuel hf) h3
    (fun _ _ => rfl)
  have h := RT.bind (k := fun _ => quotedLoop fuel >>= fun q => consume .dquote >>= fun _ => pure q)
    (rt_consume (b := 34) (t := .dquote) rfl anyRest) h2 (fun _ _ => trivial)
  exact h.congr_w (by simp [printQuoted])

theorem bumpConts_load (k : Unit → P β) (c : Ctx) (bs : Bytes) :
    (bumpConts >>= k) (load c bs) = k () (load ⟨c.pv, c.cb, c.n + 1⟩ bs) := by
  cases bs <;> rfl

theorem goMakeBytes_ok {n : Int} (h0 : 0 ≤ n) (h1 : n ≤ 281474976710656) (k : Unit → P β) (s : PState) :
    (goMakeBytes n >>= k) s = k () s := by
  have : goMakeBytes n s = .ok () s := by
    unfold goMakeBytes
    have : ¬ (n < 0) := by omega
    have : ¬ (n > 281474976710656) := by omega
    simp [*]
  rw [bind_ok this]

theorem natDigits_length_pos (n : Nat) : 0 < (natDigits n).length := by
  cases h : natDigits n with
  | nil => exact absurd h (natDigits_ne_nil n)
  | cons _ _ => simp

theorem rt_parseLiteral (s : Bytes) (hcap : s.length < 31457280) (fuel : Nat)
    (hf : (natDigits s.length).length < fuel) :
    RT (parseLiteral fuel) (printLiteral s) s anyRest := by
  intro c rest _
  obtain ⟨c1, e1⟩ := rt_parseNumber s.length (by omega) fuel hf ⟨Tok.ofByte 123, 123, c.n⟩
    (125 :: 13 :: 10 :: (s ++ rest)) (by rfl)
  have hw : printLiteral s ++ rest = 123 :: (natDigits s.length ++ 125 :: 13 :: 10 :: (s ++ rest)) := by
    simp [printLiteral]
  have hneg : ¬ (((s.length : Nat) : Int) < 0) := by omega
  have hcap' : ¬ (((s.length : Nat) : Int) ≥ literalCap) := by unfold literalCap; omega
  have hlf : (tokTy 10 == TokTy.lf) = true := by rfl
  cases s with
  | nil =>
    refine ⟨⟨Tok.ofByte 10, 10, c1.n + 1⟩, ?_⟩
    rw [hw]
    unfold parseLiteral
    rw [consume_load (by rfl), bind_ok e1]
    simp only [hneg, hcap', if_false]
    rw [consume_load (by rfl), consume_load (by rfl)]
    simp only [bind_check, load_cur_ty, headTy_cons, hlf, bumpContsIf, if_true]
    rw [bumpConts_load, consume_load (by rfl)]
    simp
  | cons d s' =>
    refine ⟨⟨Tok.ofByte d, d, c1.n + 1⟩, ?_⟩
    rw [hw]
    unfold parseLiteral
    rw [consume_load (by rfl), bind_ok e1]
    simp only [hneg, hcap', if_false]
    rw [consume_load (by rfl), consume_load (by rfl)]
    simp only [bind_check, load_cur_ty, headTy_cons, hlf, bumpContsIf, if_true]
    rw [bumpConts_load, consume_load (by rfl)]
    have hnz : ¬ (((d :: s').length : Nat) : Int) = 0 := by simp; omega
    simp only [hnz, if_false]
    rw [goMakeBytes_ok (by omega) (by simp at hcap ⊢; omega)]
    have hn : ((((d :: s').length : Nat) : Int)).toNat = s'.length + 1 := by simp
    rw [hn]
    simp only [List.cons_append]
    have e3 : scannerConsumeBytes (s'.length + 1) (load ⟨Tok.ofByte 10, 10, c1.n + 1⟩ (d :: (s' ++ rest)))
        = .ok (d :: s') { rest := rest, prev := Tok.ofByte 10, cur := Tok.ofByte d, curByte := d, conts := c1.n + 1 } := by
      unfold scannerConsumeBytes
      simp [load]
    rw [bind_ok e3]
    cases rest <;> rfl


theorem natDigits_length_le (n : Nat) : (natDigits n).length ≤ n + 1 := by
  induction n using Nat.strongRecOn with
  | _ n ih =>
    rw [natDigits]
    split
    · simp
    · have := ih (n / 10) (by omega)
      simp only [List.length_append, List.length_cons, List.length_nil]
      omega

/-- strings the printer may have to write as a literal must stay below the literal size cap -/
def StrOK (s : Bytes) : Prop := s.length < 31457280

theorem parseString_quoted (s : Bytes) (fuel : Nat) (c : Ctx) (rest : Bytes) :
    parseString fuel (load c (printQuoted s ++ rest)) = parseQuoted fuel (load c (printQuoted s ++ rest)) := by
  unfold parseString
  simp only [printQuoted, List.cons_append, bind_check, load_cur_ty, headTy_cons]
  rfl

theorem parseString_literal (s : Bytes) (fuel : Nat) (c : Ctx) (rest : Bytes) :
    parseString fuel (load c (printLiteral s ++ rest)) = parseLiteral fuel (load c (printLiteral s ++ rest)) := by
  unfold parseString
  simp only [printLiteral, List.cons_append, bind_check, load_cur_ty, headTy_cons]
  rfl

theorem quotedOK_noCRLF {s : Bytes} (h : quotedOK s = true) : NoCRLF s := by
  unfold quotedOK at h
  simp only [List.all_eq_true, Bool.and_eq_true, bne_iff_ne, ne_eq] at h
  exact fun b hb => ⟨(h b hb).1.2, (h b hb).2⟩

theorem rt_parseString (e : Nat) (s : Bytes) (hs : StrOK s) (fuel : Nat) (hf : s.length + 1 < fuel) :
    RT (parseString fuel) (printString e s) s anyRest := by
  intro c rest hr
  unfold printString
  split
  · rename_i h
    simp only [Bool.and_eq_true, decide_eq_true_eq] at h
    rw [parseString_quoted]; exact rt_parseQuoted s (quotedOK_noCRLF h.2) fuel (by omega) c rest hr
  · rw [parseString_literal]
    have := natDigits_length_le s.length
    exact rt_parseLiteral s hs fuel (by omega) c rest hr

set_option maxRecDepth 100000 in
theorem rfcAString_facts : ∀ n, n < 256 → rfcAStringCharN n = true → n ≠ 91 →
    isAStringChar (tokNat n) = true ∧ tokNat n ≠ .dquote ∧ tokNat n ≠ .lcurly := by decide +kernel

theorem atomOK_facts {s : Bytes} (h : atomOK s = true) :
    s ≠ [] ∧ ∀ b ∈ s, isAStringChar (tokTy b) = true ∧ tokTy b ≠ .dquote ∧ tokTy b ≠ .lcurly := by
  unfold atomOK at h
  simp only [Bool.and_eq_true, Bool.not_eq_true', List.all_eq_true, bne_iff_ne, ne_eq] at h
  refine ⟨by intro e; simp [e] at h, fun b hb => ?_⟩
  have := h.2 b hb
  exact rfcAString_facts b.toNat b.toNat_lt this.1 this.2

theorem parseAString_quoted (s : Bytes) (fuel : Nat) (c : Ctx) (rest : Bytes) :
    parseAString fuel (load c (printQuoted s ++ rest)) = parseString fuel (load c (printQuoted s ++ rest)) := by
  unfold parseAString
  simp only [printQuoted, List.cons_append, bind_check, load_cur_ty, headTy_cons]
  rfl

theorem parseAString_literal (s : Bytes) (fuel : Nat) (c : Ctx) (rest : Bytes) :
    parseAString fuel (load c (printLiteral s ++ rest)) = parseString fuel (load c (printLiteral s ++ rest)) := by
  unfold parseAString
  simp only [printLiteral, List.cons_append, bind_check, load_cur_ty, headTy_cons]
  rfl

theorem rt_parseAString (e : Nat) (s : Bytes) (hs : StrOK s) (fuel : Nat) (hf : s.length + 1 < fuel) :
    RT (parseAString fuel) (printAString e s) s (nextNot isAStringChar) := by
  intro c rest hr
  unfold printAString
  split
  · rename_i h
    simp only [Bool.and_eq_true, decide_eq_true_eq] at h
    obtain ⟨hne, hall⟩ := atomOK_facts h.2
    cases s with
    | nil => exact absurd rfl hne
    | cons b w =>
      have hb := hall b (List.mem_cons_self ..)
      have := rt_collectWhile isAStringChar (b :: w) (fun x hx => (hall x hx).1) fuel (by omega) c rest hr
      unfold parseAString
      simp only [List.cons_append, bind_check, load_cur_ty, headTy_cons]
      have h1 : (tokTy b == TokTy.dquote) = false := by simp [hb.2.1]
      have h2 : (tokTy b == TokTy.lcurly) = false := by simp [hb.2.2]
      simp only [h1, h2, Bool.or_self, Bool.false_eq_true, if_false]
      exact this
  · split
    · rename_i _ h
      simp only [Bool.and_eq_true, decide_eq_true_eq] at h
      rw [parseAString_quoted, parseString_quoted]
      exact rt_parseQuoted s (quotedOK_noCRLF h.2) fuel (by omega) c rest trivial
    · rw [parseAString_literal, parseString_literal]
      have := natDigits_length_le s.length
      exact rt_parseLiteral s hs fuel (by omega) c rest trivial


end Gluon.Parse
