/- Helper lemmas about the UIDVALIDITY generator model (closed form of the CAS loop, bounds). -/
import GluonModel.Model.UidValidity

namespace Gluon.UidV

/-- closed form of the loop: enough fuel is `last - t + 2` when a bump is needed, 1 otherwise -/
theorem loop_eq (fuel t last : Nat) (ht : t ≤ u32max) (hl : last ≤ u32max)
    (hf1 : last < t → 1 ≤ fuel) (hf2 : t ≤ last → last - t + 2 ≤ fuel) :
    loop fuel t last =
      if last ≥ t then (if last = u32max then (.err, last) else (.ok (last + 1), last + 1))
      else (.ok t, t) := by
  induction fuel generalizing t with
  | zero =>
    by_cases h : t ≤ last
    · have := hf2 h; omega
    · have := hf1 (by omega); omega
  | succ n ih =>
    unfold loop
    by_cases h : last ≥ t
    · simp only [h, if_true]
      by_cases h2 : t = u32max
      · have : last = u32max := by omega
        simp [h2, this]
      · simp only [h2, if_false]
        have hlt : t < u32max := by omega
        have hmod : (t + 1) % 2 ^ 32 = t + 1 := by
          apply Nat.mod_eq_of_lt
          simp only [u32max] at hlt
          omega
        rw [hmod]
        have hf2' := hf2 h
        rw [ih (t + 1) (by omega) (by intro _; omega) (by intro _; omega)]
        by_cases h3 : last ≥ t + 1
        · simp [h3]
        · have : last = t := by omega
          subst this
          have hne : ¬ (last = u32max) := by omega
          simp [hne]
    · simp [h]

/-- closed form of `Generate` for a generator whose state is a uint32 -/
theorem generate_eq (ts last : Nat) (hl : last ≤ u32max) :
    generate ts last =
      if ts > u32max then (.err, last)
      else if last ≥ ts then (if last = u32max then (.err, last) else (.ok (last + 1), last + 1))
      else (.ok ts, ts) := by
  unfold generate
  by_cases h : ts > u32max
  · simp [h]
  · simp only [h, if_false]
    have hts : ts ≤ u32max := by omega
    have hmod : ts % 2 ^ 32 = ts := by
      apply Nat.mod_eq_of_lt
      simp only [u32max] at hts
      omega
    simp only [hmod]
    exact loop_eq _ ts last hts hl (by intro _; omega) (by intro _; omega)

theorem generateC_eq (ts last : Nat) (hl : last ≤ u32max) : generateC ts last = generate ts last := by
  rw [generate_eq ts last hl]; rfl

/-- a successful call returns a value above the old state and at least the clock reading, and stores it -/
theorem generate_ok {ts last v l' : Nat} (hl : last ≤ u32max) (h : generate ts last = (.ok v, l')) :
    last < v ∧ ts ≤ v ∧ v ≤ u32max ∧ l' = v := by
  rw [generate_eq ts last hl] at h
  split at h
  · simp at h
  · split at h
    · split at h
      · simp at h
      · simp only [Prod.mk.injEq, Res.ok.injEq] at h
        omega
    · simp only [Prod.mk.injEq, Res.ok.injEq] at h
      omega

/-- a failing call leaves the state unchanged -/
theorem generate_err {ts last l' : Nat} (hl : last ≤ u32max) (h : generate ts last = (.err, l')) :
    l' = last := by
  rw [generate_eq ts last hl] at h
  split at h
  · simp only [Prod.mk.injEq] at h; omega
  · split at h
    · split at h
      · simp only [Prod.mk.injEq] at h; omega
      · simp at h
    · simp at h

/-- the state stays a uint32 and never decreases -/
theorem generate_state (ts last : Nat) (hl : last ≤ u32max) :
    last ≤ (generate ts last).2 ∧ (generate ts last).2 ≤ u32max := by
  rw [generate_eq ts last hl]
  split
  · simp; omega
  · split
    · split
      · simp; omega
      · simp; omega
    · simp; omega

/-- a call fails only when the clock is beyond 2^32-1 seconds after the epoch, or the counter is exhausted -/
theorem generate_err_iff (ts last : Nat) (hl : last ≤ u32max) :
    (generate ts last).1 = .err ↔ (ts > u32max ∨ last = u32max) := by
  rw [generate_eq ts last hl]
  split
  · simp_all
  · split
    · split
      · simp_all
      · simp_all
    · simp
      omega

theorem okVals_cons_ok (v : Nat) (l : List Res) : okVals (.ok v :: l) = v :: okVals l := rfl
theorem okVals_cons_err (l : List Res) : okVals (.err :: l) = okVals l := rfl

theorem okVals_append (a b : List Res) : okVals (a ++ b) = okVals a ++ okVals b := by
  induction a with
  | nil => rfl
  | cons x xs ih =>
    cases x with
    | ok v => simp [okVals, ih]
    | err => simp [okVals, ih]

/-- the Boolean check used by the judge and the witnesses is `List.Pairwise (· < ·)` -/
theorem strictlyIncreasing_iff (l : List Nat) : strictlyIncreasing l = true ↔ l.Pairwise (· < ·) := by
  induction l with
  | nil => simp [strictlyIncreasing]
  | cons a rest ih =>
    cases rest with
    | nil => simp [strictlyIncreasing]
    | cons b rest' =>
      simp only [strictlyIncreasing, Bool.and_eq_true, decide_eq_true_eq, ih, List.pairwise_cons]
      constructor
      · rintro ⟨hab, hb, hp⟩
        refine ⟨?_, hb, hp⟩
        intro x hx
        cases hx with
        | head => exact hab
        | tail _ hx' => exact Nat.lt_trans hab (hb x hx')
      · rintro ⟨ha, hb, hp⟩
        exact ⟨ha b (List.mem_cons_self ..), hb, hp⟩

/-- results of a process: increasing and above the initial state (general lemma behind
    `C04.uidv_mono_process`) -/
theorem run_increasing (nows : List Nat) (last : Nat) (hl : last ≤ u32max) :
    (okVals (run nows last)).Pairwise (· < ·) ∧ ∀ v ∈ okVals (run nows last), last < v := by
  induction nows generalizing last with
  | nil => simp [run, okVals]
  | cons now rest ih =>
    simp only [run]
    have hst := generate_state now last hl
    cases hg : generate now last with
    | mk r l' =>
      rw [hg] at hst
      simp only at hst
      obtain ⟨ihp, ihv⟩ := ih l' hst.2
      cases r with
      | ok v =>
        obtain ⟨h1, _, _, h4⟩ := generate_ok hl hg
        subst h4
        simp only [okVals_cons_ok, List.pairwise_cons, List.mem_cons]
        refine ⟨⟨fun x hx => ihv x hx, ihp⟩, ?_⟩
        rintro x (rfl | hx)
        · exact h1
        · exact Nat.lt_trans h1 (ihv x hx)
      | err =>
        have := generate_err hl hg
        subst this
        simp only [okVals_cons_err]
        exact ⟨ihp, ihv⟩

/-- histories with restarts, under `ClockAhead` (general lemma behind `C04.uidv_mono_restart_partial`) -/
theorem runH_increasing (evs : List Ev) (last hi : Nat) (hlh : last ≤ hi) (hh : hi ≤ u32max)
    (hc : ClockAhead evs last hi) :
    (okVals (runH evs last)).Pairwise (· < ·) ∧ ∀ v ∈ okVals (runH evs last), hi < v := by
  induction evs generalizing last hi with
  | nil => simp [runH, okVals]
  | cons e rest ih =>
    cases e with
    | restart =>
      simp only [runH]
      simp only [ClockAhead] at hc
      exact ih fresh hi (Nat.zero_le _) hh hc
    | gen now =>
      simp only [runH]
      simp only [ClockAhead] at hc
      obtain ⟨hnow, hrest⟩ := hc
      have hl : last ≤ u32max := Nat.le_trans hlh hh
      have hst := generate_state now last hl
      cases hg : generate now last with
      | mk r l' =>
        rw [hg] at hst hrest
        simp only at hst hrest
        cases r with
        | ok v =>
          obtain ⟨h1, h2, h3, h4⟩ := generate_ok hl hg
          subst h4
          have hv : hi < l' := by
            by_cases hb : last < hi
            · exact Nat.lt_of_lt_of_le (hnow hb) h2
            · have : last = hi := by omega
              omega
          have hmax : max hi l' = l' := by omega
          rw [hmax] at hrest
          obtain ⟨ihp, ihv⟩ := ih l' l' (Nat.le_refl _) h3 hrest
          simp only [okVals_cons_ok, List.pairwise_cons, List.mem_cons]
          refine ⟨⟨fun x hx => ihv x hx, ihp⟩, ?_⟩
          rintro x (rfl | hx)
          · exact hv
          · exact Nat.lt_trans hv (ihv x hx)
        | err =>
          have := generate_err hl hg
          subst this
          have hmax : max hi l' = hi := by omega
          rw [hmax] at hrest
          simp only [okVals_cons_err]
          exact ih l' hi hlh hh hrest

/-- the values commands went on to use are, in order, among the values issued -/
theorem usedFor_sublist (tags : List (Option String)) (rs : List Res) :
    ((usedFor tags rs).map (·.2)).Sublist (okVals rs) := by
  induction tags generalizing rs with
  | nil => cases rs <;> simp [usedFor]
  | cons t ts ih =>
    cases rs with
    | nil => cases t <;> simp [usedFor]
    | cons r rs =>
      cases t with
      | none =>
        cases r with
        | ok v => simpa [usedFor, okVals] using (ih rs).cons v
        | err => simpa [usedFor, okVals] using ih rs
      | some n =>
        cases r with
        | ok v => simpa [usedFor, okVals] using (ih rs).cons_cons v
        | err => simpa [usedFor, okVals] using ih rs

theorem valuesOf_sublist (name : String) (l : List (String × Nat)) :
    (valuesOf name l).Sublist (l.map (·.2)) :=
  (List.filter_sublist).map _

end Gluon.UidV
