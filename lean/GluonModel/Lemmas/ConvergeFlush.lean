/- Assembly for C02: a `permitExpunge = false` flush followed by the retained queue reaches the same
   snapshot as the queue handled in order; the history invariant and its preservation. -/
import GluonModel.Lemmas.ConvergeUids

namespace Gluon

theorem conv_iff {sid : StateId} {snap : Snap} {res : List Responder} {v : View} :
    Conv sid snap res v ↔ ∃ s', run sid snap res = some s' ∧ SameView s' v := by
  simp only [Conv, replayOk_iff]
  constructor
  · rintro ⟨h1, h2⟩; exact ⟨_, h1, h2⟩
  · rintro ⟨s', h1, h2⟩
    have := (run_eq_some_iff false sid snap s' res).mp h1
    have hrep : replay sid snap res = s' := this.2
    rw [hrep]; exact ⟨h1, h2⟩

/-- **popped first, retained afterwards = queue order** (on the snapshot) -/
theorem flush_false_core (sid : StateId) {snap : Snap} {res : List Responder} (hinv : Snap.Inv snap)
    (huid : UidsOk sid snap res) :
    ∃ s1 sF, run sid snap (popAux [] [] res).1 = some s1 ∧ run sid s1 (popAux [] [] res).2 = some sF ∧
      run sid snap res = some sF ∧ UidsOk sid s1 (popAux [] [] res).2 ∧
      (∀ x ∈ s1, (∃ y ∈ snap, y.uid = x.uid) ∨ x.uid ∈ existsUids (popAux [] [] res).1) := by
  obtain ⟨s1, hs1, hu1⟩ := run_uidsOk hinv (huid.sublist (popAux_fst_sublist [] [] res))
  have hinv1 := run_inv hinv hs1
  have huid1 : UidsOk sid s1 (popAux [] [] res).2 := huid.retained hu1
  obtain ⟨s2, hs2, _⟩ := run_uidsOk hinv1 huid1
  obtain ⟨sF, hsF, _⟩ := run_uidsOk hinv huid
  have hinv2 := run_inv hinv1 hs2
  have hinvF := run_inv hinv hsF
  have heq : s2 = sF := by
    apply Snap.ext_look hinv2 hinvF
    intro a
    rw [look_run hinv1 hs2 a, look_run hinv hs1 a, look_run hinv hsF a, ← List.foldl_append]
    exact (popFacts sid a res).comm _
  subst heq
  exact ⟨s1, s2, hs1, hs2, hsF, huid1, hu1⟩

theorem flush_snap_run {p c : Bool} {sid : StateId} {snap s1 : Snap} {res : List Responder}
    (h : run sid snap (popResponders p res).1 = some s1) : (flush p c sid snap res).snap = s1 := by
  rw [flush_snap]
  exact ((run_eq_some_iff c sid snap s1 _).mp h).2

theorem flush_result_not_err {p c : Bool} {sid : StateId} {snap s1 : Snap} {res : List Responder}
    (h : run sid snap (popResponders p res).1 = some s1) (e : Err) : (flush p c sid snap res).result ≠ .err e := by
  have hn := ((run_eq_some_iff c sid snap s1 _).mp h).1
  unfold flush
  simp only [hn]
  split
  · simp
  · split <;> simp

/-- a `permitExpunge = false` flush keeps `UidsAsc` (snapshot it leaves, queue it retains) -/
theorem flush_false_uidsAsc {sid : StateId} {snap : Snap} {res : List Responder} (hinv : Snap.Inv snap)
    (h : UidsAsc snap res) :
    UidsAsc (flush false false sid snap res).snap (flush false false sid snap res).rem := by
  obtain ⟨s1, sF, hs1, _, _, _, hu1⟩ := flush_false_core sid hinv (h.uidsOk (sid := sid))
  have hpop : popResponders false res = popAux [] [] res := by simp [popResponders]
  have hrun : run sid snap (popResponders false res).1 = some s1 := by rw [hpop]; exact hs1
  rw [flush_snap_run (c := false) hrun, flush_rem, hpop]
  exact h.retained hu1

/-- **every committed change is reflected once delivered** -/
theorem conv_change {sid : StateId} {snap : Snap} {res : List Responder} {v : View}
    (h : Conv sid snap res v) (hwf : v.Wf) {c : Change} {r : Responder} (hadm : c.AdmissibleV v)
    (hr : RespOf c r) : Conv sid snap (res ++ [r]) (v.apply c) := by
  obtain ⟨s', hs', hsv⟩ := conv_iff.mp h
  obtain ⟨s'', hs'', hsv'⟩ := snapStep_sameView hsv hwf sid c r hadm hr
  refine conv_iff.mpr ⟨s'', ?_, hsv'⟩
  rw [run_append, hs']
  simp [run, hs'']

/-- the invariant of a history: session (snapshot + queue) against mailbox (table + UIDNext) -/
structure HistInv (sid : StateId) (st : Sess) (mb : Mbox) : Prop where
  inv : Snap.Inv st.snap
  conv : Conv sid st.snap st.res mb.view
  wf : mb.Wf
  uids : UidsAsc st.snap st.res
  snapBelow : ∀ x ∈ st.snap, x.uid < mb.uidNext
  queueBelow : ∀ u ∈ existsUids st.res, u < mb.uidNext

theorem HistInv.init {sid : StateId} {snap : Snap} {mb : Mbox} (h : SameView snap mb.view) (hwf : mb.Wf) :
    HistInv sid { snap, res := [] } mb := by
  refine ⟨h.inv hwf.view, conv_iff.mpr ⟨snap, rfl, h⟩, hwf, ⟨by simp [existsUids], by simp [existsUids]⟩, ?_, by simp [existsUids]⟩
  intro x hx
  have : x.uid ∈ mb.view.uids := by rw [← h.uids_eq]; exact List.mem_map_of_mem hx
  obtain ⟨m, hm, hmu⟩ := List.mem_map.mp this
  rw [← hmu]; exact hwf.below m hm

theorem HistInv.change {sid : StateId} {st : Sess} {mb : Mbox} (h : HistInv sid st mb) {c : Change} {r : Responder}
    (hadm : mb.Admissible c) (hr : RespOf c r) :
    HistInv sid (st.step sid (.change c r)) (mb.step (.change c r)) := by
  have hmono := Mbox.uidNext_mono mb hadm
  simp only [Sess.step, Mbox.step]
  refine ⟨h.inv, conv_change h.conv h.wf.view (Mbox.admissibleV h.wf hadm) hr, Mbox.wf_apply h.wf hadm, ?_,
    fun x hx => Nat.lt_of_lt_of_le (h.snapBelow x hx) hmono, ?_⟩
  · -- UidsAsc for the longer queue
    cases c with
    | add id uid fl =>
      cases r with
      | «exists» id' uid' fl' t o =>
        obtain ⟨rfl, rfl, _⟩ := hr
        have hle : mb.uidNext ≤ uid' := hadm.1
        have hU : existsUids (st.res ++ [.exists id' uid' fl' t o]) = existsUids st.res ++ [uid'] := by
          rw [existsUids_append, existsUids_cons_exists]; rfl
        refine ⟨?_, ?_⟩
        · rw [hU, List.pairwise_append]
          refine ⟨h.uids.1, by simp, ?_⟩
          intro a ha b hb
          simp only [List.mem_singleton] at hb
          subst hb
          exact Nat.lt_of_lt_of_le (h.queueBelow a ha) hle
        · intro x hx u hu
          rw [hU, List.mem_append] at hu
          rcases hu with hu | hu
          · exact h.uids.2 x hx u hu
          · simp only [List.mem_singleton] at hu
            subst hu
            exact Nat.lt_of_lt_of_le (h.snapBelow x hx) hle
      | expunge _ => exact absurd hr (by simp [RespOf])
      | fetch _ _ _ _ _ _ => exact absurd hr (by simp [RespOf])
    | remove id =>
      cases r with
      | expunge id' =>
        have hU : existsUids (st.res ++ [.expunge id']) = existsUids st.res := by
          rw [existsUids_append, existsUids_cons_expunge]; simp [existsUids]
        exact ⟨by rw [hU]; exact h.uids.1, by rw [hU]; exact h.uids.2⟩
      | «exists» _ _ _ _ _ => exact absurd hr (by simp [RespOf])
      | fetch _ _ _ _ _ _ => exact absurd hr (by simp [RespOf])
    | setFlags id op fl other =>
      cases r with
      | fetch id' fl' op' a b other' =>
        have hU : existsUids (st.res ++ [.fetch id' fl' op' a b other']) = existsUids st.res := by
          rw [existsUids_append, existsUids_cons_fetch]; simp [existsUids]
        exact ⟨by rw [hU]; exact h.uids.1, by rw [hU]; exact h.uids.2⟩
      | «exists» _ _ _ _ _ => exact absurd hr (by simp [RespOf])
      | expunge _ => exact absurd hr (by simp [RespOf])
  · -- the queue's UIDs stay below UIDNext
    intro u hu
    rw [existsUids_append, List.mem_append] at hu
    rcases hu with hu | hu
    · exact Nat.lt_of_lt_of_le (h.queueBelow u hu) hmono
    · cases c with
      | add id uid fl =>
        cases r with
        | «exists» id' uid' fl' t o =>
          obtain ⟨rfl, rfl, _⟩ := hr
          rw [existsUids_cons_exists] at hu
          simp only [existsUids, List.filterMap_nil, List.mem_singleton] at hu
          subst hu
          simp [Mbox.apply]
        | expunge _ => exact absurd hr (by simp [RespOf])
        | fetch _ _ _ _ _ _ => exact absurd hr (by simp [RespOf])
      | remove id =>
        cases r with
        | expunge id' => simp [existsUids] at hu
        | «exists» _ _ _ _ _ => exact absurd hr (by simp [RespOf])
        | fetch _ _ _ _ _ _ => exact absurd hr (by simp [RespOf])
      | setFlags id op fl other =>
        cases r with
        | fetch id' fl' op' a b other' => simp [existsUids] at hu
        | «exists» _ _ _ _ _ => exact absurd hr (by simp [RespOf])
        | expunge _ => exact absurd hr (by simp [RespOf])

theorem HistInv.flush_true {sid : StateId} {st : Sess} {mb : Mbox} (h : HistInv sid st mb) :
    HistInv sid (st.step sid (.flush true)) (mb.step (.flush true)) := by
  obtain ⟨s', hs', hsv⟩ := conv_iff.mp h.conv
  have hpop : popResponders true st.res = (st.res, []) := by simp [popResponders]
  have hsnap : (flush true false sid st.snap st.res).snap = s' := flush_snap_run (by rw [hpop]; exact hs')
  have hrem : (flush true false sid st.snap st.res).rem = [] := by rw [flush_rem, hpop]
  simp only [Sess.step, Mbox.step, hsnap, hrem]
  exact HistInv.init hsv h.wf

theorem HistInv.flush_false {sid : StateId} {st : Sess} {mb : Mbox} (h : HistInv sid st mb) :
    HistInv sid (st.step sid (.flush false)) (mb.step (.flush false)) := by
  obtain ⟨s1, sF, hs1, hsF1, hsF, _, hu1⟩ := flush_false_core sid h.inv (h.uids.uidsOk (sid := sid))
  obtain ⟨s', hs', hsv⟩ := conv_iff.mp h.conv
  have hpop : popResponders false st.res = popAux [] [] st.res := by simp [popResponders]
  have hsnap : (flush false false sid st.snap st.res).snap = s1 := flush_snap_run (by rw [hpop]; exact hs1)
  have hrem : (flush false false sid st.snap st.res).rem = (popAux [] [] st.res).2 := by rw [flush_rem, hpop]
  simp only [Sess.step, Mbox.step, hsnap, hrem]
  have heq := existsUids_popAux [] [] st.res
  refine ⟨run_inv h.inv hs1, conv_iff.mpr ⟨sF, hsF1, ?_⟩, h.wf, h.uids.retained hu1, ?_, ?_⟩
  · rw [hsF] at hs'
    simp only [Option.some.injEq] at hs'
    subst hs'; exact hsv
  · intro x hx
    rcases hu1 x hx with ⟨y, hy, hyu⟩ | hin
    · rw [← hyu]; exact h.snapBelow y hy
    · exact h.queueBelow _ (by rw [← heq]; exact List.mem_append_left _ hin)
  · intro u hu
    exact h.queueBelow u (by rw [← heq]; exact List.mem_append_right _ hu)

theorem HistInv.rounds {sid : StateId} {st : Sess} {mb : Mbox} (h : HistInv sid st mb) (rounds : List Round)
    (hok : RoundsOk sid st mb rounds) :
    HistInv sid (runRounds sid st mb rounds).1 (runRounds sid st mb rounds).2 := by
  induction rounds generalizing st mb with
  | nil => exact h
  | cons r rs ih =>
    obtain ⟨h1, h2⟩ := hok
    simp only [runRounds]
    apply ih _ h2
    cases r with
    | change c resp => exact h.change h1.1 h1.2
    | flush p =>
      cases p with
      | true => exact h.flush_true
      | false => exact h.flush_false

instance RoundsOk.dec (sid : StateId) : (st : Sess) → (mb : Mbox) → (rs : List Round) →
    Decidable (RoundsOk sid st mb rs)
  | _, _, [] => isTrue trivial
  | st, mb, r :: rs =>
    have : Decidable (RoundsOk sid (st.step sid r) (mb.step r) rs) := RoundsOk.dec sid _ _ rs
    match r with
    | .change c resp => by unfold RoundsOk; exact inferInstance
    | .flush _ => by unfold RoundsOk; exact inferInstance

theorem runRounds_view (sid : StateId) (st : Sess) (mb : Mbox) (rounds : List Round) :
    (runRounds sid st mb rounds).2.view = mb.view.applyAll (changesOf rounds) := by
  induction rounds generalizing st mb with
  | nil => rfl
  | cons r rs ih =>
    simp only [runRounds]
    rw [ih]
    cases r with
    | change c resp => simp [Mbox.step, Mbox.apply, changesOf, View.applyAll]
    | flush p => simp [Mbox.step, changesOf]

end Gluon
