/- `matchName` against `Spec.MatchSpec`, and the `getMatches` fold against `Spec.ListSel`/`LsubSel`. -/
import GluonModel.Lemmas.MatchPaths
import GluonModel.Lemmas.MatchRun

namespace Gluon.Match
open Gluon

/-! ### a trailing `%` survives canonicalisation -/

theorem isInboxSeg_snoc_pct (xs : Name) : Spec.isInboxSeg (xs ++ ['%']) = false := by
  simp only [Spec.isInboxSeg, List.map_append, List.map_cons, List.map_nil, beq_eq_false_iff_ne, ne_eq]
  intro e
  have := congrArg List.getLast? e
  simp at this

theorem canon_last_pct (d : Char) (n : Name) (h : n.getLast? = some '%') : (canon d n).getLast? = some '%' := by
  rw [canon_eq]
  simp only [Spec.canon]
  have hsplit := List.takeWhile_append_dropWhile (p := fun x => x != d) (l := n)
  cases hdw : n.dropWhile (· != d) with
  | nil =>
    rw [hdw, List.append_nil] at hsplit
    rw [hsplit]
    obtain ⟨ys, hx⟩ := List.getLast?_eq_some_iff.mp h
    have hi : Spec.isInboxSeg n = false := by rw [hx]; exact isInboxSeg_snoc_pct _
    simp [hi, h]
  | cons y ys =>
    rw [hdw] at hsplit
    have : (y :: ys).getLast? = some '%' := by
      rw [← hsplit, List.getLast?_append] at h
      cases hl : (y :: ys).getLast? with
      | none => simp at hl
      | some v => rw [hl] at h; simpa using h
    rw [List.getLast?_append, this]
    rfl

theorem endsPct_toItems (d : Char) (ref pat : Name) (h : pat.getLast? = some '%') :
    EndsPct (toItems (canon d (ref ++ pat))) := by
  have h1 : (ref ++ pat).getLast? = some '%' := by simp [List.getLast?_append, h]
  have := canon_last_pct d _ h1
  simp [EndsPct, toItems, List.getLast?_map, this, toItem]

/-! ### match -/

theorem level_eq_of_length {d : Char} {p r : Name} (hr : r ∈ Spec.levels d p) (hl : p.length ≤ r.length) : r = p := by
  rw [Spec.mem_levels_iff] at hr
  rcases hr with ⟨t, rfl⟩ | rfl
  · simp at hl; omega
  · rfl

/-- `match` answers what RFC 3501 prescribes, for every reference, pattern, delimiter and name. -/
theorem matchName_spec (ref pat : Name) (d : Char) (name : Name) :
    ∃ res ok, matchName ref pat d name = .ret res ok ∧ Spec.MatchSpec d ref pat name res ok := by
  simp only [matchName, Spec.MatchSpec, Spec.MatchSpecFor]
  by_cases hp : pat = []
  · subst hp
    exact ⟨matchRoot d ref, true, by simp, by simp [matchRoot_eq]⟩
  · have hpe : pat.isEmpty = false := by simpa using hp
    simp only [hpe, hp, if_false, Bool.false_eq_true]
    rw [← canon_eq]
    generalize hcp : canon d (ref ++ pat) = cp
    by_cases hl : pat.getLast? = some '%'
    · have hE : EndsPct (toItems cp) := hcp ▸ endsPct_toItems d ref pat hl
      have he : endsPct pat = true := by simp [endsPct, hl]
      simp only [he, hl, Bool.not_true, ne_eq, not_true_eq_false, if_false]
      cases hr : run d false (toItems cp) name with
      | some r =>
        refine ⟨r, true, rfl, Or.inl ⟨rfl, ?_, ?_, ?_⟩⟩
        · obtain ⟨t, e, ht⟩ := run_boundary d _ hE name r hr
          rw [Spec.mem_levels_iff]
          rcases ht with rfl | ht
          · right; simpa using e.symm
          · left
            cases t with
            | nil => simp at ht
            | cons y ys => simp at ht; subst ht; exact ⟨ys, e⟩
        · obtain ⟨t, _, hs, _⟩ := run_sound d false _ name r hr
          exact wild_of_sem hs cp rfl
        · intro q hq hw
          have hs := sem_of_wild hw
          rw [Spec.mem_levels_iff] at hq
          rcases hq with ⟨t, rfl⟩ | rfl
          · have := run_longest d _ hE q (d :: t) 0 r hs (by omega) (by simpa using hr)
            omega
          · have := run_longest d _ hE q [] 0 r hs (by omega) (by simpa using hr)
            omega
      | none =>
        refine ⟨[], false, rfl, Or.inr ⟨rfl, rfl, ?_⟩⟩
        intro q hq hw
        have hs := sem_of_wild hw
        rw [Spec.mem_levels_iff] at hq
        rcases hq with ⟨t, rfl⟩ | rfl
        · have := run_complete d false hs (d :: t) (by simp)
          simp [hr] at this
        · have := run_complete d false hs [] (by simp)
          simp [hr] at this
    · have he : endsPct pat = false := by simp [endsPct, hl]
      simp only [he, hl, Bool.not_false, ne_eq, not_false_eq_true, if_true]
      rcases run_anchored d (toItems cp) name with ⟨hs, hr⟩ | ⟨hs, hr⟩
      · exact ⟨name, true, by simp [hr], Or.inl ⟨rfl, rfl, wild_of_sem hs cp rfl⟩⟩
      · exact ⟨[], false, by simp [hr], Or.inr ⟨rfl, rfl, fun hw => hs (sem_of_wild hw)⟩⟩

/-! ### getMatches -/

theorem lookupMBox_name {all : List MBox} {p : Name} {m : MBox} (h : lookupMBox all p = some m) : m.name = p := by
  have := List.find?_some h
  simpa using this

theorem lookupMBox_isSome_iff (all : List MBox) (p : Name) :
    (lookupMBox all p).isSome = true ↔ ∃ m ∈ all, m.name = p := by
  simp [lookupMBox]

theorem lookupMBox_eq_none_iff (all : List MBox) (p : Name) :
    lookupMBox all p = none ↔ ∀ m ∈ all, m.name ≠ p := by
  simp [lookupMBox]

theorem prepareMatch_name {all : List MBox} {p pat : Name} {ins sub : Bool} {n : Name} {a : Atts}
    (h : prepareMatch p (lookupMBox all p) pat ins sub = some (n, a)) : n = p := by
  cases hl : lookupMBox all p with
  | none =>
    simp only [prepareMatch, hl] at h
    split at h
    · cases h
    · simp at h; exact h.1.symm
  | some m =>
    have hn := lookupMBox_name hl
    simp only [prepareMatch, hl] at h
    split at h
    · cases h
    · split at h
      · simp at h; exact h.1.symm
      · cases he : m.ent <;> simp [he] at h <;> rw [← h.1, hn]

theorem lookup_isSome_iff (ms : Matches) (p : Name) : (ms.lookup p).isSome = true ↔ ∃ a, (p, a) ∈ ms := by
  induction ms with
  | nil => simp [List.lookup]
  | cons x xs ih =>
    obtain ⟨k, v⟩ := x
    simp only [List.lookup]
    by_cases hk : p = k
    · subst hk; simp
    · have : (p == k) = false := by simpa using hk
      simp only [this, ih, List.mem_cons, Prod.mk.injEq]
      constructor
      · rintro ⟨a, ha⟩; exact ⟨a, Or.inr ha⟩
      · rintro ⟨a, ha | ha⟩
        · exact absurd ha.1 hk
        · exact ⟨a, ha⟩

theorem filter_ne_of_lookup_none (ms : Matches) (p : Name) (h : (ms.lookup p).isSome = false) :
    ms.filter (fun x => x.1 != p) = ms := by
  apply List.filter_eq_self.mpr
  intro x hx
  have : ¬ ∃ a, (p, a) ∈ ms := by
    rw [← lookup_isSome_iff]; simp [h]
  simp only [bne_iff_ne, ne_eq]
  intro e
  exact this ⟨x.2, by rw [← e]; exact hx⟩

/-- the steps of `getMatches`: (mailbox, level of that mailbox), in iteration order -/
def cands (d : Char) (order : List Name) : List (Name × Name) :=
  order.flatMap fun m => (listSuperiors d m ++ [m]).map fun q => (m, q)

theorem mem_cands (d : Char) (order : List Name) (m q : Name) :
    (m, q) ∈ cands d order ↔ m ∈ order ∧ q ∈ Spec.levels d m := by
  simp only [cands, List.mem_flatMap, List.mem_map, Prod.mk.injEq, listSuperiors_eq, Spec.levels]
  constructor
  · rintro ⟨m', hm', q', hq', rfl, rfl⟩; exact ⟨hm', hq'⟩
  · rintro ⟨hm, hq⟩; exact ⟨m, hm, q, hq, rfl, rfl⟩

theorem getMatchesOrd_eq (all : List MBox) (order : List Name) (ref pat : Name) (d : Char) (sub : Bool) :
    getMatchesOrd all order ref pat d sub =
      (cands d order).foldl (fun acc mq => stepSuperior all ref pat d sub mq.1 acc mq.2) [] := by
  simp only [getMatchesOrd, cands, List.foldl_flatMap, List.foldl_map]

/-- invariant of the fold: `ms` holds exactly what the steps `done` produced -/
structure Inv (all : List MBox) (ref pat : Name) (d : Char) (sub : Bool) (ms : Matches) (done : List (Name × Name)) : Prop where
  sound : ∀ p a, (p, a) ∈ ms → ∃ m q, (m, q) ∈ done ∧ matchName ref pat d q = .ret p true ∧
            prepareMatch p (lookupMBox all p) pat (m == p) sub = some (p, a)
  complete : ∀ m q p, (m, q) ∈ done → matchName ref pat d q = .ret p true →
            (∃ a, (p, a) ∈ ms) ∨ prepareMatch p (lookupMBox all p) pat (m == p) sub = none
  nodup : (ms.map (·.1)).Nodup

theorem inv_step {all : List MBox} {ref pat : Name} {d : Char} {sub : Bool} {ms : Matches} {done : List (Name × Name)}
    (hI : Inv all ref pat d sub ms done) (m q : Name) :
    Inv all ref pat d sub (stepSuperior all ref pat d sub m ms q) (done ++ [(m, q)]) := by
  simp only [stepSuperior]
  cases hm : matchName ref pat d q with
  | ret p ok =>
    have grow : ∀ {ms'}, (∀ x, x ∈ ms → x ∈ ms') → (ms'.map (·.1)).Nodup →
        (∀ p' a, (p', a) ∈ ms' → (p', a) ∈ ms ∨ (p' = p ∧ ok = true ∧
            prepareMatch p (lookupMBox all p) pat (m == p) sub = some (p, a))) →
        (ok = true → (∃ a, (p, a) ∈ ms') ∨ prepareMatch p (lookupMBox all p) pat (m == p) sub = none) →
        Inv all ref pat d sub ms' (done ++ [(m, q)]) := by
      intro ms' hsub hnd hnew hcur
      refine ⟨?_, ?_, hnd⟩
      · intro p' a h
        rcases hnew p' a h with h | ⟨rfl, hok, hp⟩
        · obtain ⟨m1, q1, h1, h2, h3⟩ := hI.sound p' a h
          exact ⟨m1, q1, by simp [h1], h2, h3⟩
        · exact ⟨m, q, by simp, by rw [hm, hok], hp⟩
      · intro m1 q1 p1 h1 h2
        rcases List.mem_append.mp h1 with h1 | h1
        · rcases hI.complete m1 q1 p1 h1 h2 with ⟨a, ha⟩ | h
          · exact Or.inl ⟨a, hsub _ ha⟩
          · exact Or.inr h
        · simp at h1
          obtain ⟨rfl, rfl⟩ := h1
          rw [hm] at h2
          cases h2
          exact hcur rfl
    cases ok with
    | false =>
      exact grow (fun _ h => h) hI.nodup (fun _ _ h => Or.inl h) (by simp)
    | true =>
      simp only
      cases hl : (List.lookup p ms).isSome with
      | true =>
        simp only [if_true]
        exact grow (fun _ h => h) hI.nodup (fun _ _ h => Or.inl h)
          (fun _ => Or.inl ((lookup_isSome_iff ms p).mp hl))
      | false =>
        simp only [Bool.false_eq_true, if_false]
        cases hp : prepareMatch p (lookupMBox all p) pat (m == p) sub with
        | none =>
          exact grow (fun _ h => h) hI.nodup (fun _ _ h => Or.inl h) (fun _ => Or.inr hp)
        | some na =>
          obtain ⟨n, a⟩ := na
          have hn : n = p := prepareMatch_name hp
          subst hn
          simp only [filter_ne_of_lookup_none ms n hl]
          refine grow (ms' := (n, a) :: ms) (fun _ h => by simp [h]) ?_ ?_ (fun _ => Or.inl ⟨a, by simp⟩)
          · simp only [List.map_cons, List.nodup_cons]
            refine ⟨?_, hI.nodup⟩
            intro hmem
            obtain ⟨x, hx, e⟩ := List.mem_map.mp hmem
            have : (List.lookup n ms).isSome = true := (lookup_isSome_iff ms n).mpr ⟨x.2, by rw [← e]; exact hx⟩
            rw [hl] at this; cases this
          · intro p' a' h
            rcases List.mem_cons.mp h with h | h
            · simp at h; obtain ⟨rfl, rfl⟩ := h
              exact Or.inr ⟨rfl, rfl, hp⟩
            · exact Or.inl h

theorem inv_fold {all : List MBox} {ref pat : Name} {d : Char} {sub : Bool} (steps : List (Name × Name)) :
    ∀ (ms : Matches) (done : List (Name × Name)), Inv all ref pat d sub ms done →
      Inv all ref pat d sub
        (steps.foldl (fun acc mq => stepSuperior all ref pat d sub mq.1 acc mq.2) ms) (done ++ steps) := by
  induction steps with
  | nil => intro ms done hI; simpa using hI
  | cons s steps ih =>
    intro ms done hI
    have hI1 := inv_step hI s.1 s.2
    have hI2 := ih _ (done ++ [(s.1, s.2)]) hI1
    simpa using hI2

/-- result of `getMatches`, whatever the map iteration order: it holds exactly one entry per produced name -/
theorem getMatchesOrd_inv (all : List MBox) (order : List Name) (ref pat : Name) (d : Char) (sub : Bool) :
    Inv all ref pat d sub (getMatchesOrd all order ref pat d sub) (cands d order) := by
  rw [getMatchesOrd_eq]
  have h0 : Inv all ref pat d sub [] [] := ⟨by simp, by simp, by simp⟩
  simpa using inv_fold (cands d order) [] [] h0

/-- the attributes `prepareMatch` gives a name that passes its subscription filter -/
def attOf (all : List MBox) (p : Name) : Atts :=
  match lookupMBox all p with
  | none => .noselect
  | some m => if p.isEmpty then .noselect else match m.ent with
    | some attrs => .real attrs
    | none => .noselect

theorem prepareMatch_list (all : List MBox) (p pat : Name) (ins : Bool) :
    prepareMatch p (lookupMBox all p) pat ins false = some (p, attOf all p) := by
  simp only [prepareMatch, attOf]
  cases h : lookupMBox all p with
  | none => simp
  | some m =>
    have := lookupMBox_name h
    by_cases hp : p.isEmpty
    · simp [hp]
    · simp [hp]
      cases m.ent <;> simp [this]

theorem prepareMatch_lsub_some (all : List MBox) (p pat : Name) (ins : Bool) (m : MBox)
    (h : lookupMBox all p = some m) (hs : m.subscribed = true) :
    prepareMatch p (lookupMBox all p) pat ins true = some (p, attOf all p) := by
  simp only [prepareMatch, attOf, h, hs]
  have := lookupMBox_name h
  by_cases hp : p.isEmpty
  · simp [hp]
  · simp [hp]
    cases m.ent <;> simp [this]

theorem prepareMatch_lsub_none (all : List MBox) (p pat : Name) (h : lookupMBox all p = none) :
    prepareMatch p (lookupMBox all p) pat false true =
      if endsPct pat then some (p, .noselect) else none := by
  simp only [prepareMatch, h]
  cases endsPct pat <;> simp

/-- which attribute class an entry has -/
def Atts.sel : Atts → Spec.Sel
  | .noselect => .noselect
  | .real _ => .real

/-- a name that is a mailbox with a database entry (and not the empty name) -/
def selectable (all : List MBox) (p : Name) : Bool := !p.isEmpty && ((lookupMBox all p).bind (·.ent)).isSome

theorem attOf_sel (all : List MBox) (p : Name) :
    (attOf all p).sel = if selectable all p then .real else .noselect := by
  unfold attOf selectable
  split
  next h => simp [h, Atts.sel]
  next m h =>
    by_cases hp : p.isEmpty
    · simp [hp, Atts.sel]
    · cases he : m.ent <;> simp [hp, he, h, Atts.sel]

/-- what `match` yields on a level of a mailbox is a level of that mailbox which the pattern matches -/
theorem match_reach_sound {ref pat : Name} {d : Char} {m q p : Name}
    (hp : pat ≠ []) (hq : q ∈ Spec.levels d m) (h : matchName ref pat d q = .ret p true) :
    p ∈ Spec.levels d m ∧ Spec.Wild d (Spec.canon d (ref ++ pat)) p := by
  obtain ⟨res, ok, e, hs⟩ := matchName_spec ref pat d q
  rw [h] at e
  cases e
  simp only [Spec.MatchSpec, Spec.MatchSpecFor, hp, if_false] at hs
  split at hs
  · rcases hs with ⟨_, rfl, hw⟩ | ⟨h1, _⟩
    · exact ⟨hq, hw⟩
    · cases h1
  · rcases hs with ⟨_, hl, hw, _⟩ | ⟨h1, _⟩
    · exact ⟨Spec.levels_trans hq hl, hw⟩
    · cases h1

/-- a level the pattern matches is found when `match` is asked about that level itself -/
theorem match_reach_complete {ref pat : Name} {d : Char} {p : Name}
    (hp : pat ≠ []) (hw : Spec.Wild d (Spec.canon d (ref ++ pat)) p) :
    matchName ref pat d p = .ret p true := by
  obtain ⟨res, ok, e, hs⟩ := matchName_spec ref pat d p
  simp only [Spec.MatchSpec, Spec.MatchSpecFor, hp, if_false] at hs
  split at hs
  · rcases hs with ⟨rfl, rfl, _⟩ | ⟨_, _, hn⟩
    · exact e
    · exact absurd hw hn
  · rcases hs with ⟨rfl, hr, _, hlong⟩ | ⟨_, _, hn⟩
    · have := level_eq_of_length hr (hlong p (Spec.self_mem_levels d p) hw)
      rw [this] at e; exact e
    · exact absurd hw (hn p (Spec.self_mem_levels d p))

end Gluon.Match
