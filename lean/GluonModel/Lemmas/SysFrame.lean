/- Session-level frame lemmas for the system model: the history invariant `HistInv` is insensitive to the
   spelling of flag lists (`ViewEq`), survives the removal of responders that do nothing, and survives a flush of
   the applied responders while further responders are still to come from the update queue. -/
import GluonModel.Lemmas.SysInv

namespace Gluon

/-! ### tables that differ only in how the flag lists are written -/

def VMsg.Eqv (a b : VMsg) : Prop := a.id = b.id ∧ a.uid = b.uid ∧ FlagsEq a.flags b.flags

def ViewEq : View → View → Prop
  | [], [] => True
  | a :: as, b :: bs => a.Eqv b ∧ ViewEq as bs
  | _, _ => False

theorem ViewEq.refl (v : View) : ViewEq v v := by
  induction v with
  | nil => trivial
  | cons a t ih => exact ⟨⟨rfl, rfl, FlagsEq.refl _⟩, ih⟩

theorem ViewEq.of_eq {v w : View} (h : v = w) : ViewEq v w := h ▸ ViewEq.refl v

theorem ViewEq.trans {u v w : View} (h1 : ViewEq u v) (h2 : ViewEq v w) : ViewEq u w := by
  induction u generalizing v w with
  | nil => cases v with
    | nil => exact h2
    | cons _ _ => exact absurd h1 (by simp [ViewEq])
  | cons a t ih => cases v with
    | nil => exact absurd h1 (by simp [ViewEq])
    | cons b t' => cases w with
      | nil => exact absurd h2 (by simp [ViewEq])
      | cons c t'' =>
        obtain ⟨⟨e1, e2, e3⟩, r1⟩ := h1
        obtain ⟨⟨f1, f2, f3⟩, r2⟩ := h2
        exact ⟨⟨e1.trans f1, e2.trans f2, e3.trans f3⟩, ih r1 r2⟩

theorem ViewEq.symm {v w : View} (h : ViewEq v w) : ViewEq w v := by
  induction v generalizing w with
  | nil => cases w with
    | nil => trivial
    | cons _ _ => exact absurd h (by simp [ViewEq])
  | cons a t ih => cases w with
    | nil => exact absurd h (by simp [ViewEq])
    | cons b t' =>
      obtain ⟨⟨e1, e2, e3⟩, r⟩ := h
      exact ⟨⟨e1.symm, e2.symm, e3.symm⟩, ih r⟩

theorem ViewEq.ids_eq {v w : View} (h : ViewEq v w) : v.ids = w.ids := by
  induction v generalizing w with
  | nil => cases w with
    | nil => rfl
    | cons _ _ => exact absurd h (by simp [ViewEq])
  | cons a t ih => cases w with
    | nil => exact absurd h (by simp [ViewEq])
    | cons b t' =>
      obtain ⟨⟨e1, _, _⟩, r⟩ := h
      simp only [View.ids, List.map_cons, e1, List.cons.injEq, true_and]
      exact ih r

theorem ViewEq.uids_eq {v w : View} (h : ViewEq v w) : v.uids = w.uids := by
  induction v generalizing w with
  | nil => cases w with
    | nil => rfl
    | cons _ _ => exact absurd h (by simp [ViewEq])
  | cons a t ih => cases w with
    | nil => exact absurd h (by simp [ViewEq])
    | cons b t' =>
      obtain ⟨⟨_, e2, _⟩, r⟩ := h
      simp only [View.uids, List.map_cons, e2, List.cons.injEq, true_and]
      exact ih r

theorem ViewEq.append {v1 v2 w1 w2 : View} (h1 : ViewEq v1 w1) (h2 : ViewEq v2 w2) : ViewEq (v1 ++ v2) (w1 ++ w2) := by
  induction v1 generalizing w1 with
  | nil => cases w1 with
    | nil => exact h2
    | cons _ _ => exact absurd h1 (by simp [ViewEq])
  | cons a t ih => cases w1 with
    | nil => exact absurd h1 (by simp [ViewEq])
    | cons b t' => exact ⟨h1.1, ih h1.2⟩

/-- two maps over the same list -/
theorem ViewEq.map {α : Type} (l : List α) (f g : α → VMsg) (h : ∀ x ∈ l, (f x).Eqv (g x)) :
    ViewEq (l.map f) (l.map g) := by
  induction l with
  | nil => trivial
  | cons a t ih =>
    exact ⟨h a List.mem_cons_self, ih fun x hx => h x (List.mem_cons_of_mem _ hx)⟩

theorem SameView.viewEq {s : Snap} {v w : View} (h : SameView s v) (e : ViewEq v w) : SameView s w := by
  induction s generalizing v w with
  | nil => cases v with
    | nil => cases w with
      | nil => trivial
      | cons _ _ => exact absurd e (by simp [ViewEq])
    | cons _ _ => exact absurd h (by simp [SameView])
  | cons x t ih => cases v with
    | nil => exact absurd h (by simp [SameView])
    | cons a v' => cases w with
      | nil => exact absurd e (by simp [ViewEq])
      | cons b w' =>
        obtain ⟨⟨m1, m2, m3⟩, r⟩ := h
        obtain ⟨⟨e1, e2, e3⟩, r'⟩ := e
        exact ⟨⟨m1.trans e1, m2.trans e2, m3.trans e3⟩, ih r r'⟩

theorem View.Wf.viewEq {v w : View} (h : v.Wf) (e : ViewEq v w) : w.Wf :=
  ⟨e.uids_eq ▸ h.asc, e.ids_eq ▸ h.nodup⟩

theorem ViewEq.mem_uid {v w : View} (e : ViewEq v w) {m : VMsg} (hm : m ∈ w) : ∃ m' ∈ v, m'.uid = m.uid := by
  have : m.uid ∈ w.uids := List.mem_map_of_mem hm
  rw [← e.uids_eq] at this
  obtain ⟨m', hm', h⟩ := List.mem_map.mp this
  exact ⟨m', hm', h⟩

/-- **`HistInv` does not see the spelling of flag lists** -/
theorem HistInv.congr {sid : StateId} {st : Sess} {mb mb' : Mbox} (h : HistInv sid st mb)
    (hv : ViewEq mb.view mb'.view) (hn : mb.uidNext = mb'.uidNext) : HistInv sid st mb' := by
  refine ⟨h.inv, ⟨h.conv.1, h.conv.2.viewEq hv⟩, ⟨h.wf.view.viewEq hv, ?_⟩, h.uids, ?_, ?_⟩
  · intro m hm
    obtain ⟨m', hm', hu⟩ := hv.mem_uid hm
    rw [← hu, ← hn]; exact h.wf.below m' hm'
  · intro x hx; rw [← hn]; exact h.snapBelow x hx
  · intro u hu; rw [← hn]; exact h.queueBelow u hu

/-! ### `HistInv` only sees what the queue does to the snapshot and which UIDs it announces -/

theorem HistInv.of_queue {sid : StateId} {snap : Snap} {q q' : List Responder} {mb : Mbox}
    (h : HistInv sid { snap, res := q } mb) (hrun : run sid snap q' = run sid snap q)
    (hex : existsUids q' = existsUids q) : HistInv sid { snap, res := q' } mb := by
  obtain ⟨s', hs', hsv⟩ := conv_iff.mp h.conv
  refine ⟨h.inv, conv_iff.mpr ⟨s', by rw [hrun]; exact hs', hsv⟩, h.wf, ?_, h.snapBelow, ?_⟩
  · have := h.uids
    simp only [UidsAsc] at this ⊢
    rw [hex]; exact this
  · intro u hu
    simp only at hu
    rw [hex] at hu; exact h.queueBelow u hu

/-- a message in the snapshot after handling a queue was in the snapshot before or has an EXISTS in the queue -/
theorem has_run {sid : StateId} {snap s' : Snap} {q : List Responder} (hinv : Snap.Inv snap)
    (hs' : run sid snap q = some s') {id : MsgId} (h : s'.has id = true) :
    snap.has id = true ∨ ∃ r ∈ q, r.isExists = true ∧ r.msgId = id := by
  by_cases hhas : snap.has id = true
  · exact Or.inl hhas
  · right
    have hno : snap.look id = none := Snap.look_eq_none_iff.mpr (by simpa using hhas)
    have hl := look_run hinv hs' id
    rw [hno] at hl
    have hsome : s'.look id ≠ none := fun hn => by
      rw [Snap.look_eq_none_iff] at hn; rw [hn] at h; cases h
    rw [hl] at hsome
    have key : ∀ l : List Responder, (∀ r ∈ l, ¬ (r.isExists = true ∧ r.msgId = id)) →
        l.foldl (stepId sid id) none = none := by
      intro l
      induction l with
      | nil => intro _; rfl
      | cons r rs ih =>
        intro hl
        have hr := hl r List.mem_cons_self
        have : stepId sid id none r = none := by
          cases r with
          | «exists» id' uid fl t o =>
            have : id' ≠ id := fun e => hr ⟨rfl, e⟩
            simp [stepId, this]
          | expunge id' => simp only [stepId]; split <;> rfl
          | fetch id' fl op a b c => simp only [stepId]; split <;> rfl
        rw [List.foldl_cons, this]
        exact ih (fun x hx => hl x (List.mem_cons_of_mem _ hx))
    apply Classical.byContradiction
    intro hnone
    apply hsome
    apply key
    intro r hr hc
    exact hnone ⟨r, hr, hc⟩

theorem Snap.has_of_mem {s : Snap} {x : SMsg} (h : x ∈ s) : s.has x.id = true := by
  simp only [Snap.has, List.any_eq_true]
  exact ⟨x, h, by simp⟩

/-- a responder that is not an EXISTS and names message `id` -/
def Responder.touchesOnly (id : MsgId) (r : Responder) : Prop := r.isExists = false ∧ r.msgId = id

theorem snapStep_noop {sid : StateId} {s : Snap} {id : MsgId} {r : Responder} (hr : r.touchesOnly id)
    (hno : s.has id = false) : snapStep sid s r = .ok s := by
  obtain ⟨h1, h2⟩ := hr
  cases r with
  | «exists» _ _ _ _ _ => simp [Responder.isExists] at h1
  | expunge id' =>
    simp only [Responder.msgId] at h2; subst h2
    simp [snapStep, Snap.eraseP_of_not_has hno]
  | fetch id' fl op a b c =>
    simp only [Responder.msgId] at h2; subst h2
    simp [snapStep, Snap.look_eq_none_iff.mpr hno]

theorem run_noops {sid : StateId} {s : Snap} {id : MsgId} {rs : List Responder} (hr : ∀ r ∈ rs, r.touchesOnly id)
    (hno : s.has id = false) : run sid s rs = some s := by
  induction rs with
  | nil => rfl
  | cons r t ih =>
    simp only [run, snapStep_noop (hr r List.mem_cons_self) hno]
    exact ih fun x hx => hr x (List.mem_cons_of_mem _ hx)

theorem existsUids_noops {id : MsgId} {rs : List Responder} (hr : ∀ r ∈ rs, r.touchesOnly id) : existsUids rs = [] :=
  existsUids_eq_nil fun r h => (hr r h).1

/-- **responders the message filter would have dropped do nothing**: if the message is neither in the
    snapshot nor announced by an EXISTS earlier in the queue, non-EXISTS responders of that message can be
    taken out of the queue -/
theorem HistInv.drop_noop {sid : StateId} {snap : Snap} {q1 rs q2 : List Responder} {mb : Mbox} {id : MsgId}
    (h : HistInv sid { snap, res := q1 ++ rs ++ q2 } mb) (hr : ∀ r ∈ rs, r.touchesOnly id)
    (hno : snap.has id = false) (hpend : ∀ r ∈ q1, ¬ (r.isExists = true ∧ r.msgId = id)) :
    HistInv sid { snap, res := q1 ++ q2 } mb := by
  apply h.of_queue
  · obtain ⟨s', hs', _⟩ := conv_iff.mp h.conv
    simp only at hs'
    rw [List.append_assoc, run_append] at hs'
    rw [run_append, List.append_assoc, run_append]
    cases h1 : run sid snap q1 with
    | none => rfl
    | some s1 =>
      have hno1 : s1.has id = false := by
        cases hh : s1.has id with
        | false => rfl
        | true =>
          rcases has_run h.inv h1 hh with h' | ⟨r, hrq, hc⟩
          · simp only at h'; rw [hno] at h'; cases h'
          · exact absurd hc (hpend r hrq)
      simp only [Option.bind, run_append, run_noops hr hno1]
  · rw [existsUids_append, existsUids_append, existsUids_append, existsUids_noops hr, List.append_nil]

/-! ### flushing the applied responders while more are to come -/

theorem existsUids_sublist_left (a b : List Responder) : (existsUids a).Sublist (existsUids (a ++ b)) := by
  rw [existsUids_append]; exact List.sublist_append_left _ _

/-- a `permitExpunge = true` flush of `res` keeps the invariant of `res ++ p` -/
theorem HistInv.flush_true_frame {sid : StateId} {snap : Snap} {res p : List Responder} {mb : Mbox}
    (h : HistInv sid { snap, res := res ++ p } mb) :
    HistInv sid { snap := (flush true false sid snap res).snap, res := (flush true false sid snap res).rem ++ p } mb ∧
    (∀ e, (flush true false sid snap res).result ≠ .err e) ∧
    (∀ x ∈ (flush true false sid snap res).snap, snap.has x.id = true ∨ ∃ r ∈ res, r.isExists = true ∧ r.msgId = x.id) ∧
    (flush true false sid snap res).rem = [] := by
  obtain ⟨sF, hsF, hsv⟩ := conv_iff.mp h.conv
  simp only at hsF
  rw [run_append] at hsF
  cases h1 : run sid snap res with
  | none => rw [h1] at hsF; cases hsF
  | some s1 =>
    rw [h1] at hsF
    simp only [Option.bind] at hsF
    have hpop : popResponders true res = (res, []) := by simp [popResponders]
    have hrun : run sid snap (popResponders true res).1 = some s1 := by rw [hpop]; exact h1
    have hsnap : (flush true false sid snap res).snap = s1 := flush_snap_run hrun
    have hrem : (flush true false sid snap res).rem = [] := by rw [flush_rem, hpop]
    rw [hsnap, hrem, List.nil_append]
    have hasc : UidsAsc snap res := h.uids.sublist (List.sublist_append_left _ _)
    obtain ⟨s1', hs1', hu1⟩ := run_uidsOk h.inv (hasc.uidsOk (sid := sid))
    rw [h1] at hs1'
    simp only [Option.some.injEq] at hs1'
    subst hs1'
    have hU := h.uids
    simp only [UidsAsc, existsUids_append] at hU
    obtain ⟨hpw, hlt⟩ := hU
    obtain ⟨_, hpw2, hcross⟩ := List.pairwise_append.mp hpw
    refine ⟨⟨run_inv h.inv h1, conv_iff.mpr ⟨sF, hsF, hsv⟩, h.wf, ⟨hpw2, ?_⟩, ?_, ?_⟩, flush_result_not_err hrun,
      fun x hx => has_run h.inv h1 (Snap.has_of_mem hx), rfl⟩
    · intro x hx u hu
      rcases hu1 x hx with ⟨y, hy, hyu⟩ | hin
      · rw [← hyu]; exact hlt y hy u (List.mem_append_right _ hu)
      · exact hcross _ hin _ hu
    · intro x hx
      rcases hu1 x hx with ⟨y, hy, hyu⟩ | hin
      · rw [← hyu]; exact h.snapBelow y hy
      · exact h.queueBelow _ (by simp only [existsUids_append]; exact List.mem_append_left _ hin)
    · intro u hu
      exact h.queueBelow u (by simp only [existsUids_append]; exact List.mem_append_right _ hu)

/-- the permitting flush of CLOSE (nothing announced) does not fail either -/
theorem HistInv.close_flush_not_err {sid : StateId} {snap : Snap} {res p : List Responder} {mb : Mbox}
    (h : HistInv sid { snap, res := res ++ p } mb) (e : Err) : (flush true true sid snap res).result ≠ .err e := by
  obtain ⟨sF, hsF, _⟩ := conv_iff.mp h.conv
  simp only at hsF
  rw [run_append] at hsF
  cases h1 : run sid snap res with
  | none => rw [h1] at hsF; cases hsF
  | some s1 =>
    have hpop : popResponders true res = (res, []) := by simp [popResponders]
    have hrun : run sid snap (popResponders true res).1 = some s1 := by rw [hpop]; exact h1
    exact flush_result_not_err hrun e

/-- a `permitExpunge = false` flush of `res` keeps the invariant of `res ++ p` -/
theorem HistInv.flush_false_frame {sid : StateId} {snap : Snap} {res p : List Responder} {mb : Mbox}
    (h : HistInv sid { snap, res := res ++ p } mb) :
    HistInv sid { snap := (flush false false sid snap res).snap, res := (flush false false sid snap res).rem ++ p } mb ∧
    (∀ e, (flush false false sid snap res).result ≠ .err e) ∧
    (∀ x ∈ (flush false false sid snap res).snap, snap.has x.id = true ∨ ∃ r ∈ res, r.isExists = true ∧ r.msgId = x.id) ∧
    (∀ r ∈ (flush false false sid snap res).rem, r.isExists = true → r ∈ res) := by
  have hasc : UidsAsc snap res := h.uids.sublist (List.sublist_append_left _ _)
  obtain ⟨s1, sR, hs1, hsR1, hsR, _, hu1⟩ := flush_false_core sid h.inv (hasc.uidsOk (sid := sid))
  obtain ⟨sF, hsF, hsv⟩ := conv_iff.mp h.conv
  simp only at hsF
  rw [run_append, hsR] at hsF
  simp only [Option.bind] at hsF
  have hpop : popResponders false res = popAux [] [] res := by simp [popResponders]
  have hrun : run sid snap (popResponders false res).1 = some s1 := by rw [hpop]; exact hs1
  have hsnap : (flush false false sid snap res).snap = s1 := flush_snap_run hrun
  have hrem : (flush false false sid snap res).rem = (popAux [] [] res).2 := by rw [flush_rem, hpop]
  rw [hsnap, hrem]
  have heq := existsUids_popAux [] [] res
  have hU := h.uids
  simp only [UidsAsc, existsUids_append] at hU
  obtain ⟨hpw, hlt⟩ := hU
  rw [← heq, List.append_assoc] at hpw
  obtain ⟨_, hpw2, hcross⟩ := List.pairwise_append.mp hpw
  refine ⟨⟨run_inv h.inv hs1, conv_iff.mpr ⟨sF, ?_, hsv⟩, h.wf, ⟨?_, ?_⟩, ?_, ?_⟩, flush_result_not_err hrun, ?_,
    fun r hr hex => popAux_snd_mem_exists [] [] res hr hex⟩
  rotate_left 5
  · intro x hx
    rcases has_run h.inv hs1 (Snap.has_of_mem hx) with h' | ⟨r, hr, hc⟩
    · exact Or.inl h'
    · exact Or.inr ⟨r, (popAux_fst_sublist [] [] res).subset hr, hc⟩
  · rw [run_append, hsR1]; exact hsF
  · rw [existsUids_append]; exact hpw2
  · intro x hx u hu
    rw [existsUids_append] at hu
    rcases hu1 x hx with ⟨y, hy, hyu⟩ | hin
    · rw [← hyu]
      apply hlt y hy u
      rw [← heq]
      rcases List.mem_append.mp hu with hu | hu
      · exact List.mem_append_left _ (List.mem_append_right _ hu)
      · exact List.mem_append_right _ hu
    · exact hcross _ hin _ hu
  · intro x hx
    rcases hu1 x hx with ⟨y, hy, hyu⟩ | hin
    · rw [← hyu]; exact h.snapBelow y hy
    · apply h.queueBelow
      simp only [existsUids_append, ← heq]
      exact List.mem_append_left _ (List.mem_append_left _ hin)
  · intro u hu
    apply h.queueBelow
    simp only [existsUids_append, ← heq] at hu ⊢
    rcases List.mem_append.mp hu with hu | hu
    · exact List.mem_append_left _ (List.mem_append_right _ hu)
    · exact List.mem_append_right _ hu

/-! ### a list of committed changes with their responders -/

/-- every change of the list is admissible when its turn comes and broadcasts its responder -/
def ChangesOk : Mbox → List (Change × Responder) → Prop
  | _, [] => True
  | mb, p :: ps => mb.Admissible p.1 ∧ RespOf p.1 p.2 ∧ ChangesOk (mb.apply p.1) ps

def Mbox.applyAll (mb : Mbox) (cs : List Change) : Mbox := cs.foldl Mbox.apply mb

theorem HistInv.changes {sid : StateId} {snap : Snap} {q : List Responder} {mb : Mbox}
    (h : HistInv sid { snap, res := q } mb) (ps : List (Change × Responder)) (hok : ChangesOk mb ps) :
    HistInv sid { snap, res := q ++ ps.map (·.2) } (mb.applyAll (ps.map (·.1))) := by
  induction ps generalizing q mb with
  | nil => simpa [Mbox.applyAll] using h
  | cons p ps ih =>
    obtain ⟨hadm, hr, hrest⟩ := hok
    have h1 := h.change hadm hr
    simp only [Sess.step, Mbox.step] at h1
    have h2 := ih h1 hrest
    simpa [Mbox.applyAll, List.append_assoc] using h2

end Gluon
