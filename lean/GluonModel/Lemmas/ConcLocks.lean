/- Invariants of the generic lock semantics (Model/Conc.lean, part 2). -/
import GluonModel.Model.Conc

namespace Gluon.Conc

theorem LSys.set_same (s : LSys) (t : Nat) (th : Thread) : (s.set t th) t = th := by simp [LSys.set]
theorem LSys.set_other (s : LSys) (t u : Nat) (th : Thread) (h : u ≠ t) : (s.set t th) u = s u := by
  simp [LSys.set, h]

/-- every non-empty list has an element whose key is maximal for a strict partial order -/
theorem exists_maximal (lt : Nat → Nat → Prop) (irr : ∀ a, ¬ lt a a) (tr : ∀ a b c, lt a b → lt b c → lt a c)
    (f : Nat → Nat) (D : List Nat) (hne : D ≠ []) :
    ∃ t ∈ D, ∀ u ∈ D, ¬ lt (f t) (f u) := by
  induction D with
  | nil => exact absurd rfl hne
  | cons x xs ih =>
    by_cases hx : xs = []
    · subst hx; exact ⟨x, by simp, by intro u hu; simp at hu; subst hu; exact irr _⟩
    · obtain ⟨m, hm, hmax⟩ := ih hx
      by_cases hlt : lt (f m) (f x)
      · refine ⟨x, by simp, ?_⟩
        intro u hu
        cases hu with
        | head => exact irr _
        | tail _ hu' => intro hxu; exact hmax u hu' (tr _ _ _ hlt hxu)
      · refine ⟨m, List.mem_cons_of_mem _ hm, ?_⟩
        intro u hu
        cases hu with
        | head => exact hlt
        | tail _ hu' => exact hmax u hu'

structure LInv (lt : Nat → Nat → Prop) (g : Guard) (s : LSys) : Prop where
  /-- whoever waits for `l` holds only locks below `l` -/
  order : ∀ t l m, (s t).want = some (l, m) → ∀ h ∈ (s t).held, lt h.1 l
  /-- a write-held lock is held by nobody else -/
  excl : ∀ t u l, t ≠ u → (l, Mode.w) ∈ (s t).held → ¬ holdsLock (s u) l
  /-- whoever is inside an access holds what the discipline demands -/
  ent : ∀ t f k, (s t).acc = some (f, k) → entitled (s t).held (g f) k

theorem entitled_mono {h h' : List (Nat × Mode)} (hsub : ∀ x ∈ h, x ∈ h') (g : Option Nat) (k : AKind)
    (he : entitled h g k) : entitled h' g k := by
  unfold entitled at *
  cases g with
  | none => trivial
  | some l =>
    cases k with
    | write => exact hsub _ he
    | read => obtain ⟨m, hm⟩ := he; exact ⟨m, hsub _ hm⟩

theorem linv_init (lt : Nat → Nat → Prop) (g : Guard) : LInv lt g LSys.init := by
  constructor
  · intro t l m h; simp [LSys.init] at h
  · intro t u l _ h; simp [LSys.init] at h
  · intro t f k h; simp [LSys.init] at h

theorem linv_step {lt : Nat → Nat → Prop} {g : Guard} {s s' : LSys} (h : LInv lt g s) (st : LStep lt g s s') :
    LInv lt g s' := by
  obtain ⟨ho, hx, he⟩ := h
  cases st with
  | request t l m hw hlt =>
    constructor
    · intro t' l' m' hw' h' hh
      by_cases ht : t' = t
      · subst ht; simp [LSys.set_same] at hw' hh; rw [← hw'.1]; exact hlt h' hh
      · rw [LSys.set_other _ _ _ _ ht] at hw' hh; exact ho t' l' m' hw' h' hh
    · intro t' u l' hne hh
      have e1 : ((s.set t { s t with want := some (l, m) }) t').held = (s t').held := by
        by_cases ht : t' = t
        · subst ht; simp [LSys.set_same]
        · rw [LSys.set_other _ _ _ _ ht]
      have e2 : ((s.set t { s t with want := some (l, m) }) u).held = (s u).held := by
        by_cases ht : u = t
        · subst ht; simp [LSys.set_same]
        · rw [LSys.set_other _ _ _ _ ht]
      rw [e1] at hh; unfold holdsLock; rw [e2]; exact hx t' u l' hne hh
    · intro t' f k ha
      by_cases ht : t' = t
      · subst ht; simp [LSys.set_same] at ha ⊢; exact he _ f k ha
      · rw [LSys.set_other _ _ _ _ ht] at ha ⊢; exact he t' f k ha
  | grant t l m hw hg =>
    constructor
    · intro t' l' m' hw' h' hh
      by_cases ht : t' = t
      · subst ht; simp [LSys.set_same] at hw'
      · rw [LSys.set_other _ _ _ _ ht] at hw' hh; exact ho t' l' m' hw' h' hh
    · intro t' u l' hne hh
      by_cases ht : t' = t
      · subst ht
        have hu : u ≠ t' := fun e => hne e.symm
        simp only [LSys.set_same] at hh
        unfold holdsLock; rw [LSys.set_other _ _ _ _ hu]
        cases hh with
        | head =>
          -- the granted lock itself, in write mode
          exact hg u hu
        | tail _ hh' => exact hx t' u l' hne hh'
      · rw [LSys.set_other _ _ _ _ ht] at hh
        by_cases hu : u = t
        · subst hu
          unfold holdsLock; simp only [LSys.set_same]
          rintro ⟨m', hm'⟩
          cases hm' with
          | head =>
            -- t' write-holds the lock that u was just granted
            cases m with
            | w => exact hg t' ht ⟨Mode.w, hh⟩
            | r => exact hg t' ht hh
          | tail _ hm'' => exact hx t' u l' hne hh ⟨m', hm''⟩
        · unfold holdsLock; rw [LSys.set_other _ _ _ _ hu]; exact hx t' u l' hne hh
    · intro t' f k ha
      by_cases ht : t' = t
      · subst ht; simp only [LSys.set_same] at ha ⊢
        exact entitled_mono (fun x hx' => List.mem_cons_of_mem _ hx') _ _ (he _ f k ha)
      · rw [LSys.set_other _ _ _ _ ht] at ha ⊢; exact he t' f k ha
  | release t l m hm hrel =>
    constructor
    · intro t' l' m' hw' h' hh
      by_cases ht : t' = t
      · subst ht; simp only [LSys.set_same] at hw' hh
        exact ho _ l' m' hw' h' (List.mem_of_mem_erase hh)
      · rw [LSys.set_other _ _ _ _ ht] at hw' hh; exact ho t' l' m' hw' h' hh
    · intro t' u l' hne hh
      have hh' : (l', Mode.w) ∈ (s t').held := by
        by_cases ht : t' = t
        · subst ht; simp only [LSys.set_same] at hh; exact List.mem_of_mem_erase hh
        · rw [LSys.set_other _ _ _ _ ht] at hh; exact hh
      rintro ⟨m', hm'⟩
      apply hx t' u l' hne hh'
      by_cases hu : u = t
      · subst hu; simp only [LSys.set_same] at hm'; exact ⟨m', List.mem_of_mem_erase hm'⟩
      · rw [LSys.set_other _ _ _ _ hu] at hm'; exact ⟨m', hm'⟩
    · intro t' f k ha
      by_cases ht : t' = t
      · subst ht; simp only [LSys.set_same] at ha ⊢; exact hrel f k ha
      · rw [LSys.set_other _ _ _ _ ht] at ha ⊢; exact he t' f k ha
  | beginAcc t f k hnone hent =>
    constructor
    · intro t' l' m' hw' h' hh
      by_cases ht : t' = t
      · subst ht; simp only [LSys.set_same] at hw' hh; exact ho _ l' m' hw' h' hh
      · rw [LSys.set_other _ _ _ _ ht] at hw' hh; exact ho t' l' m' hw' h' hh
    · intro t' u l' hne hh
      have e1 : ((s.set t { s t with acc := some (f, k) }) t').held = (s t').held := by
        by_cases ht : t' = t
        · subst ht; simp [LSys.set_same]
        · rw [LSys.set_other _ _ _ _ ht]
      have e2 : ((s.set t { s t with acc := some (f, k) }) u).held = (s u).held := by
        by_cases ht : u = t
        · subst ht; simp [LSys.set_same]
        · rw [LSys.set_other _ _ _ _ ht]
      rw [e1] at hh; unfold holdsLock; rw [e2]; exact hx t' u l' hne hh
    · intro t' f' k' ha
      by_cases ht : t' = t
      · subst ht; simp only [LSys.set_same] at ha ⊢
        simp at ha; obtain ⟨rfl, rfl⟩ := ha; exact hent
      · rw [LSys.set_other _ _ _ _ ht] at ha ⊢; exact he t' f' k' ha
  | endAcc t =>
    constructor
    · intro t' l' m' hw' h' hh
      by_cases ht : t' = t
      · subst ht; simp only [LSys.set_same] at hw' hh; exact ho _ l' m' hw' h' hh
      · rw [LSys.set_other _ _ _ _ ht] at hw' hh; exact ho t' l' m' hw' h' hh
    · intro t' u l' hne hh
      have e1 : ((s.set t { s t with acc := none }) t').held = (s t').held := by
        by_cases ht : t' = t
        · subst ht; simp [LSys.set_same]
        · rw [LSys.set_other _ _ _ _ ht]
      have e2 : ((s.set t { s t with acc := none }) u).held = (s u).held := by
        by_cases ht : u = t
        · subst ht; simp [LSys.set_same]
        · rw [LSys.set_other _ _ _ _ ht]
      rw [e1] at hh; unfold holdsLock; rw [e2]; exact hx t' u l' hne hh
    · intro t' f' k' ha
      by_cases ht : t' = t
      · subst ht; simp [LSys.set_same] at ha
      · rw [LSys.set_other _ _ _ _ ht] at ha ⊢; exact he t' f' k' ha

theorem linv_reach {lt : Nat → Nat → Prop} {g : Guard} {s : LSys} (h : LReach lt g s) : LInv lt g s := by
  induction h with
  | init => exact linv_init lt g
  | step _ st ih => exact linv_step ih st

end Gluon.Conc
