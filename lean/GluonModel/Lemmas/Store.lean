/- Lemmas about M-STORE: cutting and re-cutting, the reader goroutine, the directory map. -/
import GluonModel.Model.Store

set_option linter.unusedSimpArgs false

namespace Gluon.Store

variable {K : Type}

/-! ### `cut` -/

theorem cutAux_nil (fuel n : Nat) : cutAux fuel n [] = [] := by
  cases fuel <;> simp [cutAux]

theorem flatten_cutAux {n : Nat} (hn : 0 < n) :
    ∀ (fuel : Nat) (l : Bytes), l.length ≤ fuel → (cutAux fuel n l).flatten = l := by
  intro fuel
  induction fuel with
  | zero =>
    intro l hl
    have : l = [] := List.eq_nil_of_length_eq_zero (by omega)
    subst this; simp [cutAux]
  | succ f ih =>
    intro l hl
    cases l with
    | nil => simp [cutAux]
    | cons a t =>
      have hd : ((a :: t).drop n).length ≤ f := by
        simp only [List.length_drop, List.length_cons] at *
        omega
      simp only [cutAux, List.isEmpty_cons, Bool.false_eq_true, if_false, List.flatten_cons, ih _ hd]
      exact List.take_append_drop n (a :: t)

/-- Cutting loses nothing: the blocks concatenate to the stream. -/
theorem flatten_cut {n : Nat} (hn : 0 < n) (l : Bytes) : (cut n l).flatten = l :=
  flatten_cutAux hn _ _ (Nat.le_refl _)

theorem cutAux_shaped {n : Nat} (hn : 0 < n) :
    ∀ (fuel : Nat) (l : Bytes), l.length ≤ fuel → Shaped n (cutAux fuel n l) := by
  intro fuel
  induction fuel with
  | zero => intro l _; simp [cutAux, Shaped]
  | succ f ih =>
    intro l hl
    cases l with
    | nil => simp [cutAux, Shaped]
    | cons a t =>
      have hd : ((a :: t).drop n).length ≤ f := by
        simp only [List.length_drop, List.length_cons] at *
        omega
      have ih' := ih _ hd
      simp only [cutAux, List.isEmpty_cons, Bool.false_eq_true, if_false]
      by_cases hlen : (a :: t).length ≤ n
      · -- last block
        have hdrop : (a :: t).drop n = [] := List.drop_eq_nil_of_le hlen
        rw [hdrop, cutAux_nil]
        simp only [Shaped, List.length_take, List.length_cons] at *
        omega
      · -- a full block, more to come
        have hne : (a :: t).drop n ≠ [] := by
          intro h
          have := List.drop_eq_nil_iff.mp h
          omega
        cases hrest : cutAux f n ((a :: t).drop n) with
        | nil =>
          -- impossible: a non-empty stream yields at least one block
          exfalso
          have hfl := flatten_cutAux hn f _ hd
          rw [hrest] at hfl
          exact hne (by simpa using hfl.symm)
        | cons q rest =>
          rw [hrest] at ih'
          refine ⟨?_, ih'⟩
          simp only [List.length_take, List.length_cons] at *
          omega

/-- All blocks `Set` writes are full except the last, which is non-empty. -/
theorem cut_shaped {n : Nat} (hn : 0 < n) (l : Bytes) : Shaped n (cut n l) :=
  cutAux_shaped hn _ _ (Nat.le_refl _)

theorem cutAux_flatten_shaped {n : Nat} (hn : 0 < n) :
    ∀ (ps : List Bytes) (fuel : Nat), Shaped n ps → ps.flatten.length ≤ fuel →
      cutAux fuel n ps.flatten = ps := by
  intro ps
  induction ps with
  | nil => intro fuel _ _; simp [cutAux_nil]
  | cons p rest ih =>
    intro fuel hs hf
    cases rest with
    | nil =>
      simp only [Shaped] at hs
      simp only [List.flatten_cons, List.flatten_nil, List.append_nil] at *
      cases fuel with
      | zero => omega
      | succ f =>
        have hne : p.isEmpty = false := by
          cases p with
          | nil => simp at hs
          | cons _ _ => rfl
        simp only [cutAux, hne, Bool.false_eq_true, if_false]
        rw [List.take_of_length_le hs.2, List.drop_eq_nil_of_le hs.2, cutAux_nil]
    | cons q rest' =>
      simp only [Shaped] at hs
      obtain ⟨hp, hs'⟩ := hs
      cases fuel with
      | zero =>
        simp only [List.flatten_cons, List.length_append] at hf
        omega
      | succ f =>
        have hne : (p ++ (q :: rest').flatten).isEmpty = false := by
          cases p with
          | nil => simp at hp; omega
          | cons _ _ => rfl
        have htake : (p ++ (q :: rest').flatten).take n = p := by
          rw [← hp]; simp
        have hdrop : (p ++ (q :: rest').flatten).drop n = (q :: rest').flatten := by
          rw [← hp]; simp
        have hf' : (q :: rest').flatten.length ≤ f := by
          simp only [List.flatten_cons, List.length_append] at hf ⊢
          omega
        rw [List.flatten_cons]
        simp only [cutAux, hne, Bool.false_eq_true, if_false, htake, hdrop]
        rw [ih f hs' hf']

/-- Re-cutting a concatenation of well-shaped blocks at the same size recovers the blocks. -/
theorem cut_flatten_shaped {n : Nat} (hn : 0 < n) (ps : List Bytes) (hs : Shaped n ps) :
    cut n ps.flatten = ps :=
  cutAux_flatten_shaped hn ps _ hs (Nat.le_refl _)

/-- Sealing keeps the shape, at block size + overhead. -/
theorem shaped_map_seal {P : Prims K} (hL : Laws P) (k : K) (nonce : Bytes) (n : Nat) :
    ∀ ps : List Bytes, Shaped n ps → Shaped (n + P.overhead) (ps.map (P.aeadSeal k nonce))
  | [], _ => by simp [Shaped]
  | [p], h => by
    simp only [Shaped, List.map, hL.seal_length] at *
    omega
  | p :: q :: rest, h => by
    simp only [Shaped, List.map] at *
    refine ⟨by rw [hL.seal_length]; omega, ?_⟩
    exact shaped_map_seal hL k nonce n (q :: rest) h.2

/-- What `Get`'s reader re-reads from the body `Set` wrote are exactly the sealed blocks. -/
theorem cut_sealed {P : Prims K} (hL : Laws P) (k : K) (nonce : Bytes) {n : Nat}
    (ps : List Bytes) (hs : Shaped n ps) (hn : 0 < n) :
    cut (n + P.overhead) (ps.map (P.aeadSeal k nonce)).flatten = ps.map (P.aeadSeal k nonce) :=
  cut_flatten_shaped (by omega) _ (shaped_map_seal hL k nonce n ps hs)

/-- a strict prefix of the block list concatenates to a strict prefix of the stream -/
theorem shaped_ne_nil_of_mem {n : Nat} (hn : 0 < n) : ∀ ps : List Bytes, Shaped n ps → ∀ p ∈ ps, p ≠ []
  | [], _ => by simp
  | [p], h => by
    intro q hq
    simp only [List.mem_singleton] at hq
    subst hq
    simp only [Shaped] at h
    intro he; subst he; simp at h
  | p :: q :: rest, h => by
    intro x hx
    simp only [Shaped] at h
    rcases List.mem_cons.mp hx with rfl | hx'
    · intro he; subst he; simp at h; omega
    · exact shaped_ne_nil_of_mem hn (q :: rest) h.2 x hx'

/-! ### the reader goroutine -/

theorem openPrefix_all {f : Bytes → Option Bytes} {g : Bytes → Bytes} (h : ∀ x, f (g x) = some x) :
    ∀ ps : List Bytes, openPrefix f (ps.map g) = (ps, .eof)
  | [] => rfl
  | p :: rest => by
    simp only [List.map, openPrefix, h, openPrefix_all h rest]

/-- good blocks, then one that does not open: the plain text of the good ones, then a pipe error -/
theorem openPrefix_fail {f : Bytes → Option Bytes} {g : Bytes → Bytes} (h : ∀ x, f (g x) = some x)
    (c : Bytes) (hc : f c = none) (tail : List Bytes) :
    ∀ ps : List Bytes, openPrefix f (ps.map g ++ c :: tail) = (ps, .fail)
  | [] => by simp [openPrefix, hc]
  | p :: rest => by
    simp only [List.map, List.cons_append, openPrefix, h, openPrefix_fail h c hc tail rest]

/-- Whatever the file holds: every plain-text block the LZ4 reader gets was obtained by `Open`. -/
theorem openPrefix_sound (f : Bytes → Option Bytes) :
    ∀ cs : List Bytes, ∃ used : List Bytes, used <+: cs ∧ used.length = (openPrefix f cs).1.length ∧
      (∀ i (h : i < used.length) (h' : i < (openPrefix f cs).1.length), f used[i] = some (openPrefix f cs).1[i])
  | [] => ⟨[], List.prefix_refl _, rfl, by simp [openPrefix]⟩
  | c :: cs => by
    cases hc : f c with
    | none => exact ⟨[], List.nil_prefix, by simp [openPrefix, hc], by simp [openPrefix, hc]⟩
    | some p =>
      obtain ⟨used, hpre, hlen, hall⟩ := openPrefix_sound f cs
      refine ⟨c :: used, by simpa using hpre, by simp [openPrefix, hc, hlen], ?_⟩
      intro i h h'
      cases i with
      | zero => simp [openPrefix, hc]
      | succ j =>
        simp only [openPrefix, hc, List.getElem_cons_succ]
        exact hall j (by simpa using h) (by simpa [openPrefix, hc] using h')


/-! ### more about `cut`: fuel, full blocks in front, prefixes of a shaped list -/

theorem cutAux_fuel {n : Nat} (hn : 0 < n) :
    ∀ (f1 f2 : Nat) (l : Bytes), l.length ≤ f1 → l.length ≤ f2 → cutAux f1 n l = cutAux f2 n l := by
  intro f1
  induction f1 with
  | zero =>
    intro f2 l h1 _
    have : l = [] := List.eq_nil_of_length_eq_zero (by omega)
    subst this; simp [cutAux_nil]
  | succ f ih =>
    intro f2 l h1 h2
    cases l with
    | nil => simp [cutAux_nil]
    | cons a t =>
      cases f2 with
      | zero => simp at h2
      | succ g =>
        have hd : ((a :: t).drop n).length ≤ f := by
          simp only [List.length_drop, List.length_cons] at *; omega
        have hd' : ((a :: t).drop n).length ≤ g := by
          simp only [List.length_drop, List.length_cons] at *; omega
        simp only [cutAux, List.isEmpty_cons, Bool.false_eq_true, if_false]
        rw [ih g _ hd hd']

theorem cut_of_ne_nil {n : Nat} (hn : 0 < n) (l : Bytes) (hl : l ≠ []) :
    cut n l = l.take n :: cut n (l.drop n) := by
  cases l with
  | nil => exact absurd rfl hl
  | cons a t =>
    unfold cut
    simp only [List.length_cons, cutAux, List.isEmpty_cons, Bool.false_eq_true, if_false]
    rw [cutAux_fuel hn t.length ((a :: t).drop n).length _ (by simp only [List.length_drop, List.length_cons]; omega) (Nat.le_refl _)]

/-- full pieces in front are cut off as they are, whatever follows -/
theorem cut_append_full {n : Nat} (hn : 0 < n) (t : Bytes) :
    ∀ cs : List Bytes, (∀ c ∈ cs, c.length = n) → cut n (cs.flatten ++ t) = cs ++ cut n t
  | [], _ => by simp
  | c :: cs, h => by
    have hc : c.length = n := h c List.mem_cons_self
    have hne : c ++ cs.flatten ++ t ≠ [] := by
      cases c with
      | nil => simp at hc; omega
      | cons _ _ => simp
    rw [List.flatten_cons, cut_of_ne_nil hn _ hne]
    have h1 : (c ++ cs.flatten ++ t).take n = c := by
      rw [List.append_assoc, ← hc]; simp
    have h2 : (c ++ cs.flatten ++ t).drop n = cs.flatten ++ t := by
      rw [List.append_assoc, ← hc]; simp
    rw [h1, h2, cut_append_full hn t cs (fun x hx => h x (List.mem_cons_of_mem _ hx))]
    rfl

theorem shaped_prefix_full {n : Nat} :
    ∀ (pre post : List Bytes), Shaped n (pre ++ post) → post ≠ [] → ∀ p ∈ pre, p.length = n
  | [], _, _, _ => by simp
  | [p], post, h, hp => by
    cases post with
    | nil => exact absurd rfl hp
    | cons q rest =>
      simp only [List.singleton_append, Shaped] at h
      intro x hx
      simp only [List.mem_singleton] at hx
      subst hx; exact h.1
  | p :: p' :: pre, post, h, hp => by
    simp only [List.cons_append, Shaped] at h
    intro x hx
    rcases List.mem_cons.mp hx with rfl | hx'
    · exact h.1
    · exact shaped_prefix_full (p' :: pre) post h.2 hp x hx'

theorem shaped_of_all_full {n : Nat} (hn : 0 < n) :
    ∀ ps : List Bytes, (∀ p ∈ ps, p.length = n) → Shaped n ps
  | [], _ => by simp [Shaped]
  | [p], h => by
    have := h p (by simp)
    simp only [Shaped]; omega
  | p :: q :: rest, h => by
    simp only [Shaped]
    exact ⟨h p (by simp), shaped_of_all_full hn (q :: rest) (fun x hx => h x (List.mem_cons_of_mem _ hx))⟩

theorem shaped_suffix {n : Nat} :
    ∀ (pre post : List Bytes), Shaped n (pre ++ post) → Shaped n post
  | [], _, h => by simpa using h
  | [p], post, h => by
    cases post with
    | nil => simp [Shaped]
    | cons q rest => simp only [List.singleton_append, Shaped] at h; exact h.2
  | p :: p' :: pre, post, h => by
    simp only [List.cons_append, Shaped] at h
    exact shaped_suffix (p' :: pre) post h.2

/-- full blocks in front of a shaped list give a shaped list -/
theorem shaped_append_full {n : Nat} :
    ∀ (pre post : List Bytes), (∀ p ∈ pre, p.length = n) → Shaped n post → post ≠ [] → Shaped n (pre ++ post)
  | [], _, _, h, _ => by simpa using h
  | p :: pre, post, hf, h, hp => by
    have ih := shaped_append_full pre post (fun x hx => hf x (List.mem_cons_of_mem _ hx)) h hp
    cases hrest : pre ++ post with
    | nil =>
      have : post = [] := (List.append_eq_nil_iff.mp hrest).2
      exact absurd this hp
    | cons q rest =>
      rw [List.cons_append, hrest]
      rw [hrest] at ih
      exact ⟨hf p List.mem_cons_self, ih⟩

/-- swapping two full blocks that are not last keeps the shape -/
theorem shaped_swap {n : Nat} (pre post : List Bytes) (a b : Bytes) (hpost : post ≠ [])
    (h : Shaped n (pre ++ a :: b :: post)) : Shaped n (pre ++ b :: a :: post) := by
  have hpre := shaped_prefix_full pre (a :: b :: post) h (by simp)
  have htail := shaped_suffix pre (a :: b :: post) h
  cases post with
  | nil => exact absurd rfl hpost
  | cons c rest =>
    simp only [Shaped] at htail
    exact shaped_append_full pre _ hpre ⟨htail.2.1, htail.1, htail.2.2⟩ (by simp)

/-! ### `Get` on a file with an intact header and a nonce of the right length -/

theorem decodeFile_wellformed (cfg : Config) (P : Prims K) (k : K) (nonce body : Bytes)
    (hn : nonce.length = P.nonceSize) :
    decodeFile cfg P k (cfg.header ++ nonce ++ body) =
      finish cfg (P.decode (openPrefix (P.aeadOpen k nonce) (cut (cfg.blockSize + P.overhead) body)).1.flatten
        (openPrefix (P.aeadOpen k nonce) (cut (cfg.blockSize + P.overhead) body)).2) := by
  unfold decodeFile
  have h1 : ¬ (cfg.header ++ nonce ++ body).length < cfg.header.length := by
    simp only [List.length_append]; omega
  have h2 : (cfg.header ++ nonce ++ body).take cfg.header.length = cfg.header := by
    rw [List.append_assoc]; simp
  have h3 : (cfg.header ++ nonce ++ body).drop cfg.header.length = nonce ++ body := by
    rw [List.append_assoc]; simp
  have h4 : ¬ (nonce ++ body).length < P.nonceSize := by
    simp only [List.length_append]; omega
  have h5 : (nonce ++ body).take P.nonceSize = nonce := by rw [← hn]; simp
  have h6 : (nonce ++ body).drop P.nonceSize = body := by rw [← hn]; simp
  simp only [h1, h2, h3, h4, h5, h6, if_false, ne_eq, not_true_eq_false]

/-- The core of the format: a file made of individually sealed, well-shaped blocks reads back as
    whatever the LZ4 reader makes of their concatenation — in whatever order they are, however
    many there are. -/
theorem decodeFile_sealed {cfg : Config} {P : Prims K} (hL : Laws P) (k : K) (nonce : Bytes)
    (hn : nonce.length = P.nonceSize) (hb : 0 < cfg.blockSize) (ps : List Bytes)
    (hs : Shaped cfg.blockSize ps) :
    decodeFile cfg P k (cfg.header ++ nonce ++ (ps.map (P.aeadSeal k nonce)).flatten) =
      finish cfg (P.decode ps.flatten .eof) := by
  rw [decodeFile_wellformed cfg P k nonce _ hn, cut_sealed hL k nonce ps hs hb,
    openPrefix_all (hL.open_seal k nonce)]

/-- Intact full blocks, then bytes whose first piece does not open: pipe error after the intact part. -/
theorem decodeFile_broken {cfg : Config} {P : Prims K} (hL : Laws P) (k : K) (nonce : Bytes)
    (hn : nonce.length = P.nonceSize) (hb : 0 < cfg.blockSize) (pre : List Bytes)
    (hpre : ∀ p ∈ pre, p.length = cfg.blockSize) (tail : Bytes) (ht : tail ≠ [])
    (hbad : P.aeadOpen k nonce (tail.take (cfg.blockSize + P.overhead)) = none) :
    decodeFile cfg P k (cfg.header ++ nonce ++ ((pre.map (P.aeadSeal k nonce)).flatten ++ tail)) =
      finish cfg (P.decode pre.flatten .fail) := by
  have hN : 0 < cfg.blockSize + P.overhead := by omega
  have hfull : ∀ c ∈ pre.map (P.aeadSeal k nonce), c.length = cfg.blockSize + P.overhead := by
    intro c hc
    obtain ⟨p, hp, rfl⟩ := List.mem_map.mp hc
    rw [hL.seal_length, hpre p hp]
  rw [decodeFile_wellformed cfg P k nonce _ hn, cut_append_full hN tail _ hfull,
    cut_of_ne_nil hN tail ht, openPrefix_fail (hL.open_seal k nonce) _ hbad]

theorem finish_bad (cfg : Config) : finish cfg .bad = .err .corrupt := rfl

/-- the blocks before a given one concatenate to a strict prefix of the stream -/
theorem flatten_pre_strict {n : Nat} (hn : 0 < n) (pre post : List Bytes) (x : Bytes)
    (hs : Shaped n (pre ++ x :: post)) :
    pre.flatten <+: (pre ++ x :: post).flatten ∧ pre.flatten ≠ (pre ++ x :: post).flatten := by
  have hx : x ≠ [] := shaped_ne_nil_of_mem hn _ hs x (by simp)
  refine ⟨⟨(x :: post).flatten, by simp⟩, ?_⟩
  intro h
  have : (pre.flatten ++ (x :: post).flatten).length = pre.flatten.length := by
    rw [← List.flatten_append, ← h]
  simp only [List.length_append, List.flatten_cons] at this
  have : x.length = 0 := by omega
  exact hx (List.eq_nil_of_length_eq_zero this)

/-! ### the directory -/

namespace FS

theorem lookup_filter_ne (l : List (Id × Bytes)) (id : Id) :
    (l.filter (fun e => e.1 != id)).lookup id = none := by
  induction l with
  | nil => rfl
  | cons e rest ih =>
    obtain ⟨a, d⟩ := e
    by_cases h : a = id
    · simp [List.filter_cons, h, ih]
    · have : (id == a) = false := by simp; exact fun h' => h h'.symm
      simp [List.filter_cons, h, List.lookup, this, ih]

theorem lookup_filter_other (l : List (Id × Bytes)) (id id' : Id) (hne : id' ≠ id) :
    (l.filter (fun e => e.1 != id)).lookup id' = l.lookup id' := by
  induction l with
  | nil => rfl
  | cons e rest ih =>
    obtain ⟨a, d⟩ := e
    by_cases h : a = id
    · subst h
      have : (id' == a) = false := by simp [hne]
      simp [List.filter_cons, List.lookup, this, ih]
    · by_cases h2 : id' = a
      · subst h2; simp [List.filter_cons, h, List.lookup]
      · have : (id' == a) = false := by simp [h2]
        simp [List.filter_cons, h, List.lookup, this, ih]

@[simp] theorem read_write_same (fs : FS) (id : Id) (d : Bytes) : (fs.write id d).read id = some d := by
  simp [read, write, List.lookup]

theorem read_write_other (fs : FS) (id id' : Id) (d : Bytes) (hne : id' ≠ id) :
    (fs.write id d).read id' = fs.read id' := by
  have : (id' == id) = false := by simp [hne]
  simp [read, write, remove, List.lookup, this, lookup_filter_other _ _ _ hne]

@[simp] theorem read_remove_same (fs : FS) (id : Id) : (fs.remove id).read id = none := by
  simp [read, remove, lookup_filter_ne]

theorem read_remove_other (fs : FS) (id id' : Id) (hne : id' ≠ id) :
    (fs.remove id).read id' = fs.read id' := by
  simp [read, remove, lookup_filter_other _ _ _ hne]

theorem mem_ids_iff_read (fs : FS) (id : Id) : id ∈ fs.ids ↔ (fs.read id).isSome = true := by
  unfold ids read
  induction fs.files with
  | nil => simp
  | cons e rest ih =>
    obtain ⟨a, d⟩ := e
    by_cases h : id = a
    · subst h; simp [List.lookup]
    · have : (id == a) = false := by simp [h]
      simp [List.lookup, this, h, ih]

theorem ids_remove (fs : FS) (id : Id) : (fs.remove id).ids = fs.ids.filter (· != id) := by
  unfold ids remove
  induction fs.files with
  | nil => rfl
  | cons e rest ih =>
    obtain ⟨a, d⟩ := e
    by_cases h : a = id <;> simp_all [List.filter_cons]

theorem wf_empty : FS.empty.WF := by simp [WF, ids, empty]

theorem wf_remove (fs : FS) (id : Id) (h : fs.WF) : (fs.remove id).WF := by
  unfold WF at *
  rw [ids_remove]
  exact h.filter _

theorem wf_write (fs : FS) (id : Id) (d : Bytes) (h : fs.WF) : (fs.write id d).WF := by
  have h' := wf_remove fs id h
  unfold WF at *
  simp only [write, ids, List.map_cons, List.nodup_cons]
  refine ⟨?_, h'⟩
  have := ids_remove fs id
  unfold ids at this
  rw [this]
  simp

end FS


/-! ### `Store` level -/

theorem get_write (s : Store K) (fs : FS) (id : Id) (f : Bytes) :
    s.get (fs.write id f) id = decodeFile s.cfg s.P s.key f := by
  simp [Store.get]

theorem finish_ne_notFound (cfg : Config) (d : Dec) : finish cfg d ≠ .err .notFound := by
  cases d <;> simp [finish]
  split <;> simp

theorem viaFallback_ne_notFound (cfg : Config) (f : Bytes) (e : Err) (he : e ≠ .notFound) :
    viaFallback cfg f e ≠ .err .notFound := by
  unfold viaFallback
  split
  · simpa using he
  · split <;> simp

/-- `Get` reports "no such file" only when there is no file -/
theorem decodeFile_ne_notFound (cfg : Config) (P : Prims K) (k : K) (f : Bytes) :
    decodeFile cfg P k f ≠ .err .notFound := by
  unfold decodeFile
  simp only
  split
  · split
    · simp
    · exact viaFallback_ne_notFound _ _ _ (by simp)
  · split
    · exact viaFallback_ne_notFound _ _ _ (by simp)
    · split
      · simp
      · exact finish_ne_notFound _ _

theorem delete_read_none (id : Id) : ∀ (ids : List Id) (fs : FS), fs.read id = none →
    (Store.delete fs ids).1.read id = none
  | [], fs, h => h
  | a :: rest, fs, h => by
    simp only [Store.delete]
    split
    · exact h
    · by_cases ha : id = a
      · subst ha; exact delete_read_none id rest _ (FS.read_remove_same fs id)
      · exact delete_read_none id rest _ (by rw [FS.read_remove_other fs a id ha]; exact h)

theorem delete_removes_all : ∀ (ids : List Id) (fs : FS), (Store.delete fs ids).2 = none →
    ∀ id ∈ ids, (Store.delete fs ids).1.read id = none
  | [], _, _ => by simp
  | a :: rest, fs, h => by
    intro id hid
    simp only [Store.delete] at h ⊢
    split
    · next hr => simp [hr] at h
    · next f hr =>
      simp only [hr] at h
      by_cases ha : id = a
      · subst ha; exact delete_read_none id rest _ (FS.read_remove_same fs id)
      · have : id ∈ rest := by
          rcases List.mem_cons.mp hid with h1 | h1
          · exact absurd h1 ha
          · exact h1
        exact delete_removes_all rest _ h id this

theorem delete_read_other (id : Id) : ∀ (ids : List Id) (fs : FS), id ∉ ids →
    (Store.delete fs ids).1.read id = fs.read id
  | [], _, _ => rfl
  | a :: rest, fs, h => by
    simp only [Store.delete]
    have ha : id ≠ a := fun e => h (by simp [e])
    have hr : id ∉ rest := fun e => h (List.mem_cons_of_mem _ e)
    split
    · rfl
    · rw [delete_read_other id rest _ hr, FS.read_remove_other fs a id ha]

theorem delete_wf : ∀ (ids : List Id) (fs : FS), fs.WF → (Store.delete fs ids).1.WF
  | [], _, h => h
  | a :: rest, fs, h => by
    simp only [Store.delete]
    split
    · exact h
    · exact delete_wf rest _ (FS.wf_remove fs a h)

/-! ### size of the file `Set` writes -/

theorem cutAux_length {n : Nat} (hn : 0 < n) :
    ∀ (fuel : Nat) (l : Bytes), l.length ≤ fuel → (cutAux fuel n l).length = (l.length + n - 1) / n := by
  intro fuel
  induction fuel with
  | zero =>
    intro l hl
    have : l = [] := List.eq_nil_of_length_eq_zero (by omega)
    subst this
    simp only [cutAux, List.length_nil, Nat.zero_add]
    exact (Nat.div_eq_of_lt (by omega)).symm
  | succ f ih =>
    intro l hl
    cases l with
    | nil =>
      simp only [cutAux_nil, List.length_nil, Nat.zero_add]
      exact (Nat.div_eq_of_lt (by omega)).symm
    | cons a t =>
      have hd : ((a :: t).drop n).length ≤ f := by
        simp only [List.length_drop, List.length_cons] at *; omega
      simp only [cutAux, List.isEmpty_cons, Bool.false_eq_true, if_false, List.length_cons, ih _ hd,
        List.length_drop]
      have h1 : t.length + 1 + n - 1 = t.length + n := by omega
      rw [h1, Nat.add_div_right _ hn]
      by_cases hge : n ≤ t.length + 1
      · have : t.length + 1 - n + n - 1 = t.length := by omega
        rw [this]
      · have h2 : t.length + 1 - n + n - 1 = n - 1 := by omega
        rw [h2, Nat.div_eq_of_lt (by omega), Nat.div_eq_of_lt (by omega)]

theorem cut_length {n : Nat} (hn : 0 < n) (l : Bytes) : (cut n l).length = (l.length + n - 1) / n :=
  cutAux_length hn _ _ (Nat.le_refl _)

theorem flatten_map_seal_length {P : Prims K} (hL : Laws P) (k : K) (nonce : Bytes) :
    ∀ ps : List Bytes, ((ps.map (P.aeadSeal k nonce)).flatten).length = ps.flatten.length + P.overhead * ps.length
  | [] => by simp
  | p :: ps => by
    simp only [List.map, List.flatten_cons, List.length_append, hL.seal_length, List.length_cons,
      flatten_map_seal_length hL k nonce ps, Nat.mul_add, Nat.mul_one]
    omega

end Gluon.Store
