/-
MessagesCreated, part 3: helper facts about `mkRows`, `hasDupMsg`, `rowsExtended`.
-/
import GluonModel.Lemmas.ConnCreated2

namespace Gluon.ConnUpd

theorem mkRows_length : ∀ (l : List (Nat × RID)) (u : Nat), (mkRows u l).length = l.length := by
  intro l
  induction l with
  | nil => intro u; rfl
  | cons p ps ih => intro u; simp [mkRows, ih]

theorem mkRows_uids : ∀ (l : List (Nat × RID)) (u : Nat),
    (mkRows u l).map (·.uid) = (List.range l.length).map (fun i => u + i) := by
  intro l
  induction l with
  | nil => intro u; rfl
  | cons p ps ih =>
    intro u
    simp only [mkRows, List.map_cons, List.length_cons, List.range_succ_eq_map, List.map_map, ih (u + 1)]
    simp only [Nat.add_zero, List.cons.injEq, true_and]
    apply List.map_congr_left
    intro i _
    simp only [Function.comp]
    omega

theorem mem_mkRows : ∀ (l : List (Nat × RID)) (u : Nat) (r : Row),
    r ∈ mkRows u l → r.deleted = false ∧ (r.msg, r.rid) ∈ l := by
  intro l
  induction l with
  | nil => intro u r h; cases h
  | cons p ps ih =>
    intro u r h
    simp only [mkRows, List.mem_cons] at h
    rcases h with rfl | h
    · exact ⟨rfl, List.mem_cons_self⟩
    · obtain ⟨h1, h2⟩ := ih (u + 1) r h
      exact ⟨h1, List.mem_cons_of_mem _ h2⟩

theorem mkRows_mem_of : ∀ (l : List (Nat × RID)) (u : Nat) (p : Nat × RID), p ∈ l →
    ∃ r ∈ mkRows u l, r.msg = p.1 ∧ r.rid = p.2 := by
  intro l
  induction l with
  | nil => intro u p h; cases h
  | cons q qs ih =>
    intro u p h
    rw [List.mem_cons] at h
    rcases h with rfl | h
    · exact ⟨_, List.mem_cons_self, rfl, rfl⟩
    · obtain ⟨r, hr, h1, h2⟩ := ih (u + 1) p h
      exact ⟨r, List.mem_cons_of_mem _ hr, h1, h2⟩

theorem mkRows_rids : ∀ (l : List (Nat × RID)) (u : Nat), (mkRows u l).map (·.rid) = l.map (·.2) := by
  intro l
  induction l with
  | nil => intro u; rfl
  | cons p ps ih => intro u; simp [mkRows, ih]

theorem nodupKeys_map_eq {α β κ : Type} [BEq κ] (f : α → κ) (g : β → κ) :
    ∀ (l : List α) (l' : List β), l.map f = l'.map g → nodupKeys f l = nodupKeys g l' := by
  intro l
  induction l with
  | nil => intro l' h; cases l' with
    | nil => rfl
    | cons _ _ => simp at h
  | cons a as ih =>
    intro l' h
    cases l' with
    | nil => simp at h
    | cons b bs =>
      simp only [List.map_cons, List.cons.injEq] at h
      simp only [nodupKeys, ih bs h.2]
      congr 1
      have : as.any (fun y => f y == f a) = bs.any (fun y => g y == g b) := by
        have h1 : as.any (fun y => f y == f a) = (as.map f).any (fun k => k == f a) := by
          rw [List.any_map]; rfl
        have h2 : bs.any (fun y => g y == g b) = (bs.map g).any (fun k => k == g b) := by
          rw [List.any_map]; rfl
        rw [h1, h2, h.2, h.1]
      rw [this]

/-- no two pairs share a message id or a remote id -/
theorem hasDupMsg_false : ∀ l : List (Nat × RID), nodupKeys (fun p : Nat × RID => p.1) l = true →
    nodupKeys (fun p : Nat × RID => p.2) l = true → hasDupMsg l = false := by
  intro l
  induction l with
  | nil => intro _ _; rfl
  | cons p ps ih =>
    intro h1 h2
    rw [nodupKeys_cons] at h1 h2
    simp only [hasDupMsg, Bool.or_eq_false_iff]
    refine ⟨?_, ih h1.2 h2.2⟩
    rw [List.any_eq_false]
    intro q hq
    simp [h1.1 q hq, h2.1 q hq]

theorem nodupKeys_snd_of_hasDupMsg : ∀ l : List (Nat × RID), hasDupMsg l = false →
    nodupKeys (fun p : Nat × RID => p.2) l = true := by
  intro l
  induction l with
  | nil => intro _; rfl
  | cons p ps ih =>
    intro h
    simp only [hasDupMsg, Bool.or_eq_false_iff] at h
    rw [nodupKeys_cons]
    refine ⟨?_, ih h.2⟩
    intro q hq
    have := (List.any_eq_false.1 h.1) q hq
    simp only [Bool.or_eq_true, beq_iff_eq, not_or] at this
    simpa using this.2

theorem nodupKeys_filter {α κ : Type} [BEq κ] (f : α → κ) (q : α → Bool) : ∀ l : List α,
    nodupKeys f l = true → nodupKeys f (l.filter q) = true := by
  intro l
  induction l with
  | nil => intro _; rfl
  | cons a as ih =>
    intro h
    rw [nodupKeys_cons] at h
    simp only [List.filter_cons]
    split
    · rw [nodupKeys_cons]
      exact ⟨fun y hy => h.1 y (List.mem_filter.1 hy).1, ih h.2⟩
    · exact ih h.2

theorem rowsExtended_growMany (B : Mbox) (l : List (Nat × RID)) (allow : RID → Bool)
    (h1 : ∀ p ∈ l, allow p.2 = true ∧ B.hasRid p.2 = false)
    (h2 : nodupKeys (fun p : Nat × RID => p.2) l = true) : rowsExtended B (growMany B l) allow = true := by
  have hlen : (growMany B l).rows.length - B.rows.length = l.length := by
    simp [growMany, mkRows_length]
  have hdrop : (growMany B l).rows.drop B.rows.length = mkRows (B.seq + 1) l := by
    simp [growMany]
  have htake : (growMany B l).rows.take B.rows.length = B.rows := by
    simp [growMany]
  simp only [rowsExtended, hlen, hdrop, htake, Bool.and_eq_true, beq_iff_eq, decide_eq_true_eq, List.all_eq_true,
    Bool.not_eq_true']
  refine ⟨⟨⟨⟨⟨trivial, ?_⟩, ?_⟩, ?_⟩, ?_⟩, ?_⟩
  · simp [growMany, mkRows_length]
  · simp [growMany]
  · exact mkRows_uids l (B.seq + 1)
  · intro r hr
    obtain ⟨hd, hp⟩ := mem_mkRows l (B.seq + 1) r hr
    obtain ⟨ha, hh⟩ := h1 (r.msg, r.rid) hp
    exact ⟨⟨hd, ha⟩, hh⟩
  · rw [nodupKeys_map_eq (fun r : Row => r.rid) (fun p : Nat × RID => p.2) _ l (mkRows_rids l (B.seq + 1))]
    exact h2

theorem nodupKeys_of_nodup_map {α κ : Type} [BEq κ] [LawfulBEq κ] (f : α → κ) :
    ∀ l : List α, (l.map f).Nodup → nodupKeys f l = true := by
  intro l
  induction l with
  | nil => intro _; rfl
  | cons a as ih =>
    intro h
    rw [List.map_cons, List.nodup_cons] at h
    rw [nodupKeys_cons]
    refine ⟨?_, ih h.2⟩
    intro y hy
    cases hb : (f y == f a) with
    | false => rfl
    | true =>
      exfalso
      apply h.1
      rw [← eq_of_beq hb]
      exact List.mem_map_of_mem hy

end Gluon.ConnUpd
