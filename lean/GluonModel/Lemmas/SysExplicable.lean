/- C01 on the system model: under the system invariant every flush a session performs is explicable to its client;
   a client mirror threaded through a whole trace. -/
import GluonModel.Lemmas.SysConverge
import GluonModel.Theorems.C01

namespace Gluon.Sys
open Gluon

/-! ### no own-`.SILENT` responders -/

def Sess.SilentFree (me : Sess) : Prop := ∀ r ∈ me.res, r.isSilent = false

/-- no session holds a responder of its own `.SILENT` store -/
def SilentFree (s : Sys) : Prop := ∀ (i : Nat) (me : Sess), s.sess[i]? = some me → me.SilentFree

/-- the op is not a `.SILENT` store -/
def SysOp.NoSilent : SysOp → Prop
  | .cmd _ (.store _ _ _ silent) => silent = false
  | _ => True

instance (op : SysOp) : Decidable op.NoSilent := by
  unfold SysOp.NoSilent; split <;> infer_instance

theorem responders_not_silent (sid : StateId) (mb : Nat) (cu : Bool) (u : Update) :
    ∀ r ∈ u.responders sid mb cu false, r.isSilent = false := by
  intro r hr
  cases u with
  | «exists» mb' items st =>
    simp only [Update.responders, List.mem_map] at hr
    obtain ⟨_, _, rfl⟩ := hr; rfl
  | expunge mb' id =>
    simp only [Update.responders, List.mem_singleton] at hr
    subst hr; rfl
  | flags mb' origin parts =>
    simp only [Update.responders, List.mem_flatMap, List.mem_map] at hr
    obtain ⟨_, _, _, _, rfl⟩ := hr
    simp [Responder.isSilent]
  | remoteFlag id add flag =>
    simp only [Update.responders, List.mem_singleton] at hr
    subst hr; rfl

theorem Sess.SilentFree.apply {me : Sess} (h : me.SilentFree) (sid : StateId) (cu : Bool) (u : Update) :
    (me.apply sid cu false u).SilentFree := by
  unfold Sess.apply
  split
  · exact h
  · split
    · intro r hr
      rcases List.mem_append.mp hr with h1 | h1
      · exact h r h1
      · exact responders_not_silent _ _ _ _ r h1
    · exact h

theorem Sess.SilentFree.applyAll {me : Sess} (h : me.SilentFree) (sid : StateId) (cu : Bool) (us : List Update) :
    (me.applyAll sid cu false us).SilentFree := by
  induction us generalizing me with
  | nil => exact h
  | cons u us ih => simp only [Sess.applyAll, List.foldl_cons] at ih ⊢; exact ih (h.apply sid cu u)

theorem Sess.SilentFree.drain {me : Sess} (h : me.SilentFree) (sid : StateId) (k : Nat) : (me.drain sid k).SilentFree := by
  unfold Sess.drain
  exact Sess.SilentFree.applyAll (me := { me with inbox := me.inbox.drop k }) h sid false _

theorem Sess.SilentFree.flush {me : Sess} (h : me.SilentFree) (sid : StateId) (p : Bool) : (me.flush sid p).1.SilentFree := by
  intro r hr
  simp only [Sess.flush, flush_rem] at hr
  cases p with
  | true => simp [popResponders] at hr
  | false =>
    simp only [popResponders, Bool.false_eq_true, if_false] at hr
    obtain ⟨r0, _, rfl⟩ := popAux_snd_mem [] [] me.res hr
    simp

theorem Sess.SilentFree.endFlushes {me : Sess} (h : me.SilentFree) (sid : StateId) (e : Effect) :
    (endFlushes sid e me).1.SilentFree := by
  unfold Sys.endFlushes
  cases e.flush1 with
  | none =>
    simp only
    split
    · exact h.flush sid false
    · exact h
  | some p =>
    simp only
    split
    · exact (h.flush sid p).flush sid false
    · exact h.flush sid p

/-! ### the shape of a step, seen from one session -/

theorem effect_silent {idx : Index} {me : Sess} {sid : StateId} {c : Cmd} {e : Effect} (h : effect idx me sid c = some e)
    (hns : ∀ seqs op fl silent, c = .store seqs op fl silent → silent = false) : e.silent = false := by
  cases c with
  | append mb fl =>
    simp only [effect] at h
    split at h
    · cases h
    · simp only [Option.some.injEq] at h; subst h; rfl
  | store seqs op fl silent =>
    have := hns seqs op fl silent rfl
    subst this
    simp only [effect] at h
    split at h
    · cases h
    · split at h
      · cases h
      · simp only [Option.some.injEq] at h; subst h; rfl
  | expunge =>
    simp only [effect] at h
    split at h
    · cases h
    · split at h <;> (simp only [Option.some.injEq] at h; subst h; rfl)
  | copy seqs dest =>
    simp only [effect] at h
    split at h
    · cases h
    · split at h
      · cases h
      · split at h
        · cases h
        · simp only [Option.some.injEq] at h; subst h; rfl
  | move seqs dest =>
    simp only [effect] at h
    split at h
    · cases h
    · split at h
      · cases h
      · split at h
        · cases h
        · split at h
          · split at h <;> (simp only [Option.some.injEq] at h; subst h; rfl)
          · simp only [Option.some.injEq] at h; subst h; rfl

theorem setSess_idx (s : Sys) (j : Nat) (x : Sess) : (s.setSess j x).idx = s.idx := rfl

theorem setSess_self {s : Sys} {j : Nat} {sj : Sess} (hj : s.sess[j]? = some sj) (x : Sess) :
    (s.setSess j x).sess[j]? = some x := getElem?_set_self' hj

theorem setSess_other (s : Sys) {i j : Nat} (h : i ≠ j) (x : Sess) : (s.setSess j x).sess[i]? = s.sess[i]? := by
  simp [Sys.setSess, List.getElem?_set, Ne.symm h]

theorem step_no_session {s : Sys} {j : Nat} (hj : s.sess[j]? = none) (op : SysOp)
    (hop : op = .drain j k ∨ op = .flush j p ∨ op = .select j mb ∨ op = .unselect j ∨ op = .cmd j c) :
    (step s op).1 = s := by
  rcases hop with rfl | rfl | rfl | rfl | rfl <;> simp [step, hj]

theorem step_drain {s : Sys} {j : Nat} {sj : Sess} (hj : s.sess[j]? = some sj) (k : Nat) :
    step s (.drain j k) = (s.setSess j (sj.drain (sidOf j) k), {}) := by
  simp [step, hj]

theorem step_flush_sel {s : Sys} {j : Nat} {sj : Sess} {mb : Nat} (hj : s.sess[j]? = some sj) (hs : sj.sel = some mb) (p : Bool) :
    step s (.flush j p) = (s.setSess j (sj.flush (sidOf j) p).1, ({} : Out).andThen (sj.flush (sidOf j) p).2) := by
  simp [step, hj, hs]

theorem step_flush_unsel {s : Sys} {j : Nat} {sj : Sess} (hj : s.sess[j]? = some sj) (hs : sj.sel = none) (p : Bool) :
    step s (.flush j p) = (s, {}) := by
  simp [step, hj, hs]

theorem step_unselect_sel {s : Sys} {j : Nat} {sj : Sess} {mb : Nat} (hj : s.sess[j]? = some sj) (hs : sj.sel = some mb) :
    step s (.unselect j) = (s.setSess j { sj with sel := none, snap := [], res := [] }, {}) := by
  simp [step, hj, hs]

theorem step_unselect_unsel {s : Sys} {j : Nat} {sj : Sess} (hj : s.sess[j]? = some sj) (hs : sj.sel = none) :
    step s (.unselect j) = (s, { status := .refused }) := by
  simp [step, hj, hs]

theorem step_select_ok {s : Sys} {j : Nat} {sj : Sess} {mb : Nat} (hj : s.sess[j]? = some sj) (hmb : ¬ s.idx.boxes.length ≤ mb) :
    step s (.select j mb) = (s.setSess j { sj with sel := some mb, snap := snapOf (s.idx.view mb), res := [] },
      { resps := [.exists (snapOf (s.idx.view mb)).length] }) := by
  simp [step, hj, hmb]

theorem step_select_refused {s : Sys} {j : Nat} {sj : Sess} {mb : Nat} (hj : s.sess[j]? = some sj) (hmb : s.idx.boxes.length ≤ mb) :
    step s (.select j mb) = (s, { status := .refused }) := by
  simp [step, hj, hmb]

theorem step_none {s : Sys} {j : Nat} (hj : s.sess[j]? = none) :
    (∀ k, step s (.drain j k) = (s, {})) ∧ (∀ p, step s (.flush j p) = (s, { status := .refused })) ∧
    (∀ mb, step s (.select j mb) = (s, { status := .refused })) ∧ step s (.unselect j) = (s, { status := .refused }) ∧
    (∀ c, step s (.cmd j c) = (s, { status := .refused })) := by
  refine ⟨?_, ?_, ?_, ?_, ?_⟩ <;> simp [step, hj]

/-- a refused command: nothing, or (a selected-state command) the trailing flush -/
theorem step_cmd_none {s : Sys} {j : Nat} {c : Cmd} {sj : Sess} (hj : s.sess[j]? = some sj)
    (he : effect s.idx sj (sidOf j) c = none) :
    step s (.cmd j c) = (s, { status := .refused }) ∨
    ∃ mb, sj.sel = some mb ∧
      step s (.cmd j c) = (s.setSess j (sj.flush (sidOf j) false).1, ({ status := .refused } : Out).andThen (sj.flush (sidOf j) false).2) := by
  cases c with
  | append mb fl => left; simp [step, hj, he]
  | store seqs op fl silent =>
    cases hs : sj.sel with
    | none => left; simp [step, hj, he, hs]
    | some mb => right; exact ⟨mb, rfl, by simp [step, hj, he, hs]⟩
  | expunge =>
    cases hs : sj.sel with
    | none => left; simp [step, hj, he, hs]
    | some mb => right; exact ⟨mb, rfl, by simp [step, hj, he, hs]⟩
  | copy seqs dest =>
    cases hs : sj.sel with
    | none => left; simp [step, hj, he, hs]
    | some mb => right; exact ⟨mb, rfl, by simp [step, hj, he, hs]⟩
  | move seqs dest =>
    cases hs : sj.sel with
    | none => left; simp [step, hj, he, hs]
    | some mb => right; exact ⟨mb, rfl, by simp [step, hj, he, hs]⟩

/-- a command that is carried out, seen from the issuer and from everybody else -/
theorem step_cmd_some {s : Sys} {i : Nat} {c : Cmd} {me : Sess} {e : Effect} (hi : s.sess[i]? = some me)
    (he : effect s.idx me (sidOf i) c = some e) :
    (step s (.cmd i c)).1.idx = e.idx ∧
    (step s (.cmd i c)).1.sess[i]? = some (endFlushes (sidOf i) e (me.applyAll (sidOf i) false e.silent e.ups)).1 ∧
    (step s (.cmd i c)).2 = (endFlushes (sidOf i) e (me.applyAll (sidOf i) false e.silent e.ups)).2 ∧
    (∀ (j : Nat) (sj : Sess), j ≠ i → s.sess[j]? = some sj → (step s (.cmd i c)).1.sess[j]? = some (sj.enqueue e.ups)) ∧
    (step s (.cmd i c)).1.sess.length = s.sess.length := by
  have hm1 : (s.sess.mapIdx fun j sj =>
      if j = i then sj.applyAll (sidOf i) false e.silent e.ups else sj.enqueue e.ups)[i]? =
      some (me.applyAll (sidOf i) false e.silent e.ups) := by
    rw [List.getElem?_mapIdx, hi]; simp
  have hstep : step s (.cmd i c) =
      ({ idx := e.idx, sess := (s.sess.mapIdx fun j sj =>
            if j = i then sj.applyAll (sidOf i) false e.silent e.ups else sj.enqueue e.ups).set i
          (endFlushes (sidOf i) e (me.applyAll (sidOf i) false e.silent e.ups)).1 },
        (endFlushes (sidOf i) e (me.applyAll (sidOf i) false e.silent e.ups)).2) := by
    simp only [step, hi, he, hm1, Option.getD_some]
  rw [hstep]
  refine ⟨rfl, getElem?_set_self' hm1, rfl, ?_, by simp⟩
  intro j sj hj hsj
  simp only [List.getElem?_set, Ne.symm hj, if_false]
  rw [List.getElem?_mapIdx, hsj]
  simp [hj]

theorem step_close_none {s : Sys} {j : Nat} (hj : s.sess[j]? = none) : step s (.close j) = (s, { status := .refused }) := by
  simp [step, hj]

theorem step_close_unsel {s : Sys} {j : Nat} {sj : Sess} (hj : s.sess[j]? = some sj)
    (he : effect s.idx sj (sidOf j) .expunge = none) : step s (.close j) = (s, { status := .refused }) := by
  simp [step, hj, he]

/-- CLOSE with a mailbox selected, seen from the issuer and from everybody else -/
theorem step_close_some {s : Sys} {i : Nat} {me : Sess} {e : Effect} (hi : s.sess[i]? = some me)
    (he : effect s.idx me (sidOf i) .expunge = some e) :
    (step s (.close i)).1.idx = e.idx ∧
    (step s (.close i)).1.sess[i]? = some ((me.applyAll (sidOf i) false e.silent e.ups).closeEnd (sidOf i)).1 ∧
    (step s (.close i)).2 = ((me.applyAll (sidOf i) false e.silent e.ups).closeEnd (sidOf i)).2 ∧
    (∀ (j : Nat) (sj : Sess), j ≠ i → s.sess[j]? = some sj → (step s (.close i)).1.sess[j]? = some (sj.enqueue e.ups)) ∧
    (step s (.close i)).1.sess.length = s.sess.length := by
  have hm1 : (s.sess.mapIdx fun j sj =>
      if j = i then sj.applyAll (sidOf i) false e.silent e.ups else sj.enqueue e.ups)[i]? =
      some (me.applyAll (sidOf i) false e.silent e.ups) := by
    rw [List.getElem?_mapIdx, hi]; simp
  have hstep : step s (.close i) =
      ({ idx := e.idx, sess := (s.sess.mapIdx fun j sj =>
            if j = i then sj.applyAll (sidOf i) false e.silent e.ups else sj.enqueue e.ups).set i
          ((me.applyAll (sidOf i) false e.silent e.ups).closeEnd (sidOf i)).1 },
        ((me.applyAll (sidOf i) false e.silent e.ups).closeEnd (sidOf i)).2) := by
    simp only [step, hi, he, hm1, Option.getD_some]
  rw [hstep]
  refine ⟨rfl, getElem?_set_self' hm1, rfl, ?_, by simp⟩
  intro j sj hj hsj
  simp only [List.getElem?_set, Ne.symm hj, if_false]
  rw [List.getElem?_mapIdx, hsj]
  simp [hj]

theorem lt_of_getElem?_some {α} {l : List α} {i : Nat} {x : α} (h : l[i]? = some x) : i < l.length := by
  rcases Nat.lt_or_ge i l.length with h' | h'
  · exact h'
  · rw [List.getElem?_eq_none h'] at h; cases h

/-! ### explicable flushes -/

theorem agree_ofCount (snap : Snap) : Agree (Mirror.ofCount snap.length) snap := by
  refine ⟨by simp [Mirror.ofCount], ?_, by simp [Mirror.ofCount]⟩
  intro i e x he _
  simp only [Mirror.ofCount, List.getElem?_replicate] at he
  split at he
  · simp only [Option.some.injEq] at he
    subst he
    exact ⟨fun u h => by simp at h, fun f h => by simp at h⟩
  · cases he

/-- **under the session invariant a flush is explicable**: it does not fail, `Merge` does not panic, and what is
    sent leads the client's mirror to the snapshot the session answers from afterwards -/
theorem sess_flush_explicable {idx : Index} {i : Nat} {me : Sess} {mb : Nat} {m : Mirror} (hinv : SessInv idx i me)
    (hs : me.sel = some mb) (hsf : me.SilentFree) (hag : Agree m me.snap) (p : Bool) :
    ∃ out m', (me.flush (sidOf i) p).2 = .ok out ∧ m.applyAll out = some m' ∧ Agree m' (me.flush (sidOf i) p).1.snap := by
  unfold SessInv at hinv
  rw [hs] at hinv
  obtain ⟨_, hh, _⟩ := hinv
  unfold Sess.virt at hh
  have hasc : UidsAsc me.snap me.res := hh.uids.sublist (List.sublist_append_left _ _)
  have hsub : (popResponders p me.res).1.Sublist me.res := by
    cases p
    · exact popAux_fst_sublist [] [] me.res
    · simp [popResponders]
  exact C01.flush_explicable_of_uidsAsc hag hh.inv p (sidOf i) me.res hasc (fun r hr => hsf r (hsub.subset hr))

theorem andThen_ok (o : Out) (out : List Resp) : o.andThen (.ok out) = { o with resps := o.resps ++ out } := rfl

/-- the flushes a command ends with -/
theorem endFlushes_explicable {idx : Index} {i : Nat} {me : Sess} {mb : Nat} {m : Mirror} (hinv : SessInv idx i me)
    (hs : me.sel = some mb) (hsf : me.SilentFree) (hag : Agree m me.snap) (e : Effect) :
    ∃ m', m.applyAll (endFlushes (sidOf i) e me).2.resps = some m' ∧ Agree m' (endFlushes (sidOf i) e me).1.snap ∧
      (endFlushes (sidOf i) e me).2.status = .ok := by
  unfold Sys.endFlushes
  cases hf : e.flush1 with
  | none =>
    simp only
    split
    · obtain ⟨out, m', h1, h2, h3⟩ := sess_flush_explicable hinv hs hsf hag false
      refine ⟨m', ?_, h3, ?_⟩
      · rw [h1, andThen_ok]; simpa using h2
      · rw [h1, andThen_ok]
    · exact ⟨m, rfl, hag, rfl⟩
  | some p =>
    simp only
    obtain ⟨out, m1, h1, h2, h3⟩ := sess_flush_explicable hinv hs hsf hag p
    have hs1 : (me.flush (sidOf i) p).1.sel = some mb := by simpa [Sess.flush] using hs
    split
    · obtain ⟨out2, m2, g1, g2, g3⟩ := sess_flush_explicable (hinv.flush p) hs1 (hsf.flush _ p) h3 false
      refine ⟨m2, ?_, g3, ?_⟩
      · rw [h1, g1, andThen_ok, andThen_ok]
        simp only [List.nil_append]
        rw [Mirror.applyAll_append, h2]; exact g2
      · rw [h1, g1, andThen_ok, andThen_ok]
    · refine ⟨m1, ?_, h3, ?_⟩
      · rw [h1, andThen_ok]; simpa using h2
      · rw [h1, andThen_ok]

/-! ### the client of session `i` along a trace -/

/-- what the client of session `i` does with the answer to `op`: a successful SELECT resets its mirror to the
    announced count, UNSELECT and a successful CLOSE empty it, the untagged responses of its own commands are applied one by one
    (`none`: a response is inexplicable) -/
def observe (i : Nat) (m : Mirror) (op : SysOp) (o : Out) : Option Mirror :=
  match op with
  | .select j _ =>
    if j = i ∧ o.status = .ok then
      match o.resps with
      | [.exists n] => some (Mirror.ofCount n)
      | _ => none
    else some m
  | .unselect j => if j = i ∧ o.status = .ok then some (Mirror.ofCount 0) else some m
  | .cmd j _ => if j = i then m.applyAll o.resps else some m
  | .flush j _ => if j = i then m.applyAll o.resps else some m
  | .close j => if j = i then (if o.status = .ok then some (Mirror.ofCount 0) else m.applyAll o.resps) else some m
  | _ => some m

def observeAll (i : Nat) (m : Mirror) (s : Sys) : List SysOp → Option Mirror
  | [] => some m
  | op :: ops => (observe i m op (step s op).2).bind fun m' => observeAll i m' (step s op).1 ops

/-- the client's mirror agrees with the snapshot of session `i` whenever it has a mailbox selected -/
def Seen (i : Nat) (s : Sys) (m : Mirror) : Prop :=
  ∀ (me : Sess) (mb : Nat), s.sess[i]? = some me → me.sel = some mb → Agree m me.snap

theorem Sess.SilentFree.closeEnd {me : Sess} (h : me.SilentFree) (sid : StateId) : (me.closeEnd sid).1.SilentFree := by
  unfold Sess.closeEnd
  cases hr : (Gluon.flush true true sid me.snap me.res).result with
  | err er =>
    simp only [hr]
    apply Sess.SilentFree.flush
    intro r hr'
    simp only [flush_rem, popResponders] at hr'
    cases hr'
  | ok out => simp only [hr]; intro r hr'; cases hr'
  | mergePanic => simp only [hr]; intro r hr'; cases hr'

theorem silentFree_setSess {s : Sys} (h : SilentFree s) {j : Nat} {sj : Sess} (hj : s.sess[j]? = some sj) {x : Sess}
    (hx : x.SilentFree) : SilentFree (s.setSess j x) := by
  intro i me hi
  by_cases hij : i = j
  · subst hij
    rw [setSess_self hj] at hi
    simp only [Option.some.injEq] at hi
    subst hi; exact hx
  · rw [setSess_other s hij] at hi
    exact h i me hi

theorem silentFree_step {s : Sys} (h : SilentFree s) (op : SysOp) (hns : op.NoSilent) : SilentFree (step s op).1 := by
  cases op with
  | conn c =>
    simp only [step]
    intro j x hx
    simp only [List.getElem?_map] at hx
    cases hj : s.sess[j]? with
    | none => simp [hj] at hx
    | some sj =>
      simp only [hj, Option.map_some, Option.some.injEq] at hx
      subst hx
      exact h j sj hj
  | drain j k =>
    cases hj : s.sess[j]? with
    | none => rw [(step_none hj).1 k]; exact h
    | some sj => rw [step_drain hj]; exact silentFree_setSess h hj ((h j sj hj).drain _ k)
  | flush j p =>
    cases hj : s.sess[j]? with
    | none => rw [(step_none hj).2.1 p]; exact h
    | some sj =>
      cases hs : sj.sel with
      | none => rw [step_flush_unsel hj hs]; exact h
      | some mb => rw [step_flush_sel hj hs]; exact silentFree_setSess h hj ((h j sj hj).flush _ p)
  | unselect j =>
    cases hj : s.sess[j]? with
    | none => rw [(step_none hj).2.2.2.1]; exact h
    | some sj =>
      cases hs : sj.sel with
      | none => rw [step_unselect_unsel hj hs]; exact h
      | some mb => rw [step_unselect_sel hj hs]; exact silentFree_setSess h hj (fun r hr => by cases hr)
  | select j mb =>
    cases hj : s.sess[j]? with
    | none => rw [(step_none hj).2.2.1 mb]; exact h
    | some sj =>
      by_cases hmb : s.idx.boxes.length ≤ mb
      · rw [step_select_refused hj hmb]; exact h
      · rw [step_select_ok hj hmb]; exact silentFree_setSess h hj (fun r hr => by cases hr)
  | close j =>
    cases hj : s.sess[j]? with
    | none => rw [step_close_none hj]; exact h
    | some sj =>
      cases he : effect s.idx sj (sidOf j) .expunge with
      | none => rw [step_close_unsel hj he]; exact h
      | some e =>
        obtain ⟨_, h2, _, h4, hlen⟩ := step_close_some hj he
        have hsil : e.silent = false := effect_silent he (by
          intro seqs op fl silent hc
          cases hc)
        intro i x hx
        by_cases hij : i = j
        · subst hij
          rw [h2] at hx
          simp only [Option.some.injEq] at hx
          subst hx
          apply Sess.SilentFree.closeEnd
          rw [hsil]
          exact (h i sj hj).applyAll _ false _
        · cases hi : s.sess[i]? with
          | none =>
            have := lt_of_getElem?_some hx
            rw [hlen] at this
            rw [List.getElem?_eq_none_iff] at hi
            omega
          | some si =>
            rw [h4 i si hij hi] at hx
            simp only [Option.some.injEq] at hx
            subst hx
            exact h i si hi
  | cmd j c =>
    cases hj : s.sess[j]? with
    | none => rw [(step_none hj).2.2.2.2 c]; exact h
    | some sj =>
      cases he : effect s.idx sj (sidOf j) c with
      | none =>
        rcases step_cmd_none hj he with h1 | ⟨mb, _, h1⟩
        · rw [h1]; exact h
        · rw [h1]; exact silentFree_setSess h hj ((h j sj hj).flush _ false)
      | some e =>
        obtain ⟨_, h2, _, h4, hlen⟩ := step_cmd_some hj he
        have hsil : e.silent = false := effect_silent he (by
          intro seqs op fl silent hc
          subst hc
          exact hns)
        intro i x hx
        by_cases hij : i = j
        · subst hij
          rw [h2] at hx
          simp only [Option.some.injEq] at hx
          subst hx
          apply Sess.SilentFree.endFlushes
          rw [hsil]
          exact (h i sj hj).applyAll _ false _
        · cases hi : s.sess[i]? with
          | none =>
            have := lt_of_getElem?_some hx
            rw [hlen] at this
            rw [List.getElem?_eq_none_iff] at hi
            omega
          | some si =>
            rw [h4 i si hij hi] at hx
            simp only [Option.some.injEq] at hx
            subst hx
            exact h i si hi

theorem seen_setSess_other {s : Sys} {i j : Nat} {m : Mirror} (hm : Seen i s m) (hij : i ≠ j) (x : Sess) :
    Seen i (s.setSess j x) m := by
  intro me mb hme hs
  rw [setSess_other s hij] at hme
  exact hm me mb hme hs

theorem seen_setSess_self {s : Sys} {j : Nat} {sj : Sess} (hj : s.sess[j]? = some sj) {x : Sess} {m : Mirror}
    (hx : ∀ mb, x.sel = some mb → Agree m x.snap) : Seen j (s.setSess j x) m := by
  intro me mb hme hs
  rw [setSess_self hj] at hme
  simp only [Option.some.injEq] at hme
  subst hme
  exact hx mb hs

/-- **one step, seen by the client of session `i`** -/
theorem observe_step {s : Sys} (h : SysInv s) (hsf : SilentFree s) (op : SysOp) (hv : op.Valid) (hns : op.NoSilent)
    (hno : OpNoOvertake s op) (i : Nat) {m : Mirror} (hm : Seen i s m) :
    ∃ m', observe i m op (step s op).2 = some m' ∧ Seen i (step s op).1 m' := by
  cases op with
  | conn c =>
    refine ⟨m, rfl, ?_⟩
    intro me mb hme hs
    simp only [step, List.getElem?_map] at hme
    cases hj : s.sess[i]? with
    | none => simp [hj] at hme
    | some sj =>
      simp only [hj, Option.map_some, Option.some.injEq] at hme
      subst hme
      exact hm sj mb hj hs
  | drain j k =>
    refine ⟨m, rfl, ?_⟩
    cases hj : s.sess[j]? with
    | none => rw [(step_none hj).1 k]; exact hm
    | some sj =>
      rw [step_drain hj]
      by_cases hij : i = j
      · subst hij
        apply seen_setSess_self hj
        intro mb hs
        have := hm sj mb hj (by rw [← drain_sel (sidOf i) k sj]; exact hs)
        simpa [Sess.drain, applyAll_snap] using this
      · exact seen_setSess_other hm hij _
  | unselect j =>
    cases hj : s.sess[j]? with
    | none =>
      rw [(step_none hj).2.2.2.1]
      exact ⟨m, by simp [observe], hm⟩
    | some sj =>
      cases hs : sj.sel with
      | none =>
        rw [step_unselect_unsel hj hs]
        exact ⟨m, by simp [observe], hm⟩
      | some mb0 =>
        rw [step_unselect_sel hj hs]
        by_cases hij : i = j
        · subst hij
          refine ⟨Mirror.ofCount 0, by simp [observe], ?_⟩
          apply seen_setSess_self hj
          intro mb hsel; cases hsel
        · exact ⟨m, by simp [observe, Ne.symm hij], seen_setSess_other hm hij _⟩
  | select j mb0 =>
    cases hj : s.sess[j]? with
    | none =>
      rw [(step_none hj).2.2.1 mb0]
      exact ⟨m, by simp [observe], hm⟩
    | some sj =>
      by_cases hmb : s.idx.boxes.length ≤ mb0
      · rw [step_select_refused hj hmb]
        exact ⟨m, by simp [observe], hm⟩
      · rw [step_select_ok hj hmb]
        by_cases hij : i = j
        · subst hij
          refine ⟨Mirror.ofCount (snapOf (s.idx.view mb0)).length, by simp [observe], ?_⟩
          apply seen_setSess_self hj
          intro mb _
          exact agree_ofCount _
        · exact ⟨m, by simp [observe, Ne.symm hij], seen_setSess_other hm hij _⟩
  | flush j p =>
    cases hj : s.sess[j]? with
    | none =>
      rw [(step_none hj).2.1 p]
      refine ⟨m, ?_, hm⟩
      simp only [observe]; split <;> rfl
    | some sj =>
      cases hs : sj.sel with
      | none =>
        rw [step_flush_unsel hj hs]
        refine ⟨m, ?_, hm⟩
        simp only [observe]; split <;> rfl
      | some mb0 =>
        rw [step_flush_sel hj hs]
        by_cases hij : i = j
        · subst hij
          obtain ⟨out, m', h1, h2, h3⟩ := sess_flush_explicable (h.sess i sj hj) hs (hsf i sj hj) (hm sj mb0 hj hs) p
          refine ⟨m', ?_, ?_⟩
          · simp only [observe, if_true]
            rw [h1, andThen_ok]; simpa using h2
          · apply seen_setSess_self hj
            intro mb _; exact h3
        · exact ⟨m, by simp [observe, Ne.symm hij], seen_setSess_other hm hij _⟩
  | close j =>
    cases hj : s.sess[j]? with
    | none =>
      rw [step_close_none hj]
      refine ⟨m, ?_, hm⟩
      simp only [observe]; split <;> simp [Mirror.applyAll]
    | some sj =>
      cases he : effect s.idx sj (sidOf j) .expunge with
      | none =>
        rw [step_close_unsel hj he]
        refine ⟨m, ?_, hm⟩
        simp only [observe]; split <;> simp [Mirror.applyAll]
      | some e =>
        obtain ⟨h1, h2, h3, h4, hlen⟩ := step_close_some hj he
        by_cases hij : i = j
        · subst hij
          have hselb : ∀ mb, sj.sel = some mb → mb < s.idx.boxes.length := by
            intro mb hs
            have := h.sess i sj hj
            unfold SessInv at this
            rw [hs] at this
            exact this.1
          have hsnap : ∀ mb, sj.sel = some mb → ∀ x ∈ sj.snap, x.id < s.idx.nextId := by
            intro mb hs x hx
            have := h.sess i sj hj
            unfold SessInv at this
            rw [hs] at this
            exact this.2.2.snap x hx
          have g := good_effect h.wf hselb hsnap he
          have hown := (h.sess i sj hj).own g.1 e.silent (fun mb hs => hno sj mb e hj hs he)
          obtain ⟨mb0, hs⟩ : ∃ mb, sj.sel = some mb := by
            cases hs : sj.sel with
            | none => simp [effect, hs] at he
            | some mb => exact ⟨mb, rfl⟩
          have hce := hown.closeEnd (mb := mb0) (by rw [applyAll_sel]; exact hs)
          rw [hce] at h2 h3
          refine ⟨Mirror.ofCount 0, ?_, ?_⟩
          · rw [h3]; simp [observe]
          · intro me mb hme hsel
            rw [h2] at hme
            simp only [Option.some.injEq] at hme
            subst hme
            cases hsel
        · refine ⟨m, by simp [observe, Ne.symm hij], ?_⟩
          intro me mb hme hsel
          cases hi : s.sess[i]? with
          | none =>
            have := lt_of_getElem?_some hme
            rw [hlen] at this
            rw [List.getElem?_eq_none_iff] at hi
            omega
          | some si =>
            rw [h4 i si hij hi] at hme
            simp only [Option.some.injEq] at hme
            subst hme
            exact hm si mb hi hsel
  | cmd j c =>
    cases hj : s.sess[j]? with
    | none =>
      rw [(step_none hj).2.2.2.2 c]
      refine ⟨m, ?_, hm⟩
      simp only [observe]; split <;> rfl
    | some sj =>
      cases he : effect s.idx sj (sidOf j) c with
      | none =>
        rcases step_cmd_none hj he with h1 | ⟨mb0, hs, h1⟩
        · rw [h1]
          refine ⟨m, ?_, hm⟩
          simp only [observe]; split <;> rfl
        · rw [h1]
          by_cases hij : i = j
          · subst hij
            obtain ⟨out, m', g1, g2, g3⟩ := sess_flush_explicable (h.sess i sj hj) hs (hsf i sj hj) (hm sj mb0 hj hs) false
            refine ⟨m', ?_, ?_⟩
            · simp only [observe, if_true]
              rw [g1, andThen_ok]; simpa using g2
            · apply seen_setSess_self hj
              intro mb _; exact g3
          · exact ⟨m, by simp [observe, Ne.symm hij], seen_setSess_other hm hij _⟩
      | some e =>
        obtain ⟨h1, h2, h3, h4, hlen⟩ := step_cmd_some hj he
        have hsil : e.silent = false := effect_silent he (by
          intro seqs op fl silent hc
          subst hc
          exact hns)
        by_cases hij : i = j
        · subst hij
          simp only [observe, if_true]
          rw [h3]
          have hselb : ∀ mb, sj.sel = some mb → mb < s.idx.boxes.length := by
            intro mb hs
            have := h.sess i sj hj
            unfold SessInv at this
            rw [hs] at this
            exact this.1
          have hsnap : ∀ mb, sj.sel = some mb → ∀ x ∈ sj.snap, x.id < s.idx.nextId := by
            intro mb hs x hx
            have := h.sess i sj hj
            unfold SessInv at this
            rw [hs] at this
            exact this.2.2.snap x hx
          have g := good_effect h.wf hselb hsnap he
          have hown := (h.sess i sj hj).own g.1 e.silent (fun mb hs => hno sj mb e hj hs he)
          cases hs : sj.sel with
          | none =>
            -- nothing selected: only APPEND gets here, and it does not flush
            have hs1 : (sj.applyAll (sidOf i) false e.silent e.ups).sel = none := by rw [applyAll_sel]; exact hs
            have hnf : e.flush1 = none ∧ e.trailing = false := by
              cases c with
              | append mb fl =>
                simp only [effect] at he
                split at he
                · cases he
                · simp only [Option.some.injEq] at he; subst he; simp [hs]
              | store seqs op fl silent => simp [effect, hs] at he
              | expunge => simp [effect, hs] at he
              | copy seqs dest => simp [effect, hs] at he
              | move seqs dest => simp [effect, hs] at he
            refine ⟨m, by simp [Sys.endFlushes, hnf.1, hnf.2, Mirror.applyAll], ?_⟩
            intro me mb hme hsel
            rw [h2] at hme
            simp only [Option.some.injEq] at hme
            subst hme
            simp only [Sys.endFlushes, hnf.1, hnf.2, Bool.false_eq_true, if_false] at hsel
            rw [hs1] at hsel; cases hsel
          | some mb0 =>
            have hs1 : (sj.applyAll (sidOf i) false e.silent e.ups).sel = some mb0 := by rw [applyAll_sel]; exact hs
            have hsf1 : (sj.applyAll (sidOf i) false e.silent e.ups).SilentFree := by
              rw [hsil]; exact (hsf i sj hj).applyAll _ false _
            have hag1 : Agree m (sj.applyAll (sidOf i) false e.silent e.ups).snap := by
              rw [applyAll_snap]; exact hm sj mb0 hj hs
            obtain ⟨m', g1, g2, _⟩ := endFlushes_explicable hown hs1 hsf1 hag1 e
            refine ⟨m', g1, ?_⟩
            intro me mb hme hsel
            rw [h2] at hme
            simp only [Option.some.injEq] at hme
            subst hme
            exact g2
        · refine ⟨m, by simp [observe, Ne.symm hij], ?_⟩
          intro me mb hme hsel
          cases hi : s.sess[i]? with
          | none =>
            have := lt_of_getElem?_some hme
            rw [hlen] at this
            rw [List.getElem?_eq_none_iff] at hi
            omega
          | some si =>
            rw [h4 i si hij hi] at hme
            simp only [Option.some.injEq] at hme
            subst hme
            exact hm si mb hi hsel

/-- **a whole trace, seen by the client of session `i`** -/
theorem observeAll_explicable {s : Sys} (h : SysInv s) (hsf : SilentFree s) (ops : List SysOp) (hv : ∀ op ∈ ops, op.Valid)
    (hns : ∀ op ∈ ops, op.NoSilent) (hno : NoOvertake s ops) (i : Nat) {m : Mirror} (hm : Seen i s m) :
    ∃ m', observeAll i m s ops = some m' ∧ Seen i (exec s ops) m' := by
  induction ops generalizing s m with
  | nil => exact ⟨m, rfl, hm⟩
  | cons op ops ih =>
    have hv1 := hv op List.mem_cons_self
    have hns1 := hns op List.mem_cons_self
    obtain ⟨m1, h1, h2⟩ := observe_step h hsf op hv1 hns1 hno.1 i hm
    obtain ⟨m2, g1, g2⟩ := ih (step_inv h op hv1 hno.1) (silentFree_step hsf op hns1)
      (fun o ho => hv o (List.mem_cons_of_mem _ ho)) (fun o ho => hns o (List.mem_cons_of_mem _ ho)) hno.2 h2
    refine ⟨m2, ?_, by rw [exec_cons]; exact g2⟩
    simp only [observeAll, h1, Option.bind]
    exact g1

theorem silentFree_init (n k : Nat) : SilentFree (Sys.init n k) := by
  intro i me hi
  simp only [Sys.init] at hi
  have := List.mem_of_getElem? hi
  simp only [List.mem_replicate] at this
  rw [this.2]
  intro r hr; cases hr

theorem seen_init (n k i : Nat) (m : Mirror) : Seen i (Sys.init n k) m := by
  intro me mb hi hs
  simp only [Sys.init] at hi
  have := List.mem_of_getElem? hi
  simp only [List.mem_replicate] at this
  rw [this.2] at hs
  cases hs

end Gluon.Sys
