/- Flag-set facts for the system model: what a FETCH responder's flag computation (`newFlags`) does to the flags a
   table row shows (`rowX`: the message's flags plus the row's `\Deleted`), at the level of sets ignoring `\Recent`. -/
import GluonModel.Lemmas.SysDeliver

namespace Gluon
open Flags

theorem mem_newFlags {X fl : Flags} {op : FlagOp} {other : Bool} {g : Flag} :
    g ∈ newFlags X op fl other ↔
      (other = true ∧ g = deleted ∧ deleted ∈ X) ∨
      ((other = false ∨ g ≠ deleted) ∧
        (match op with
         | .add => g ∈ X ∨ g ∈ fl
         | .rem => g ∈ X ∧ g ∉ fl
         | .set => g ∈ fl)) := by
  cases op <;> cases other <;> by_cases hd : deleted ∈ X <;> by_cases hg : g = deleted <;>
    simp [newFlags, mem_set, mem_add, mem_remove, mem_norm, hd, hg]

/-- the flags a row shows: the message's flags, plus `\Deleted` when the row is marked -/
def rowX (mf : Flags) (rd : Bool) : Flags := if rd then add1 mf deleted else mf

theorem mem_rowX {mf : Flags} {rd : Bool} {g : Flag} : g ∈ rowX mf rd ↔ g ∈ mf ∨ (rd = true ∧ g = deleted) := by
  cases rd <;> simp [rowX, mem_add1]

theorem Sys.Index.rowFlags_eq (idx : Sys.Index) (r : Sys.Row) : idx.rowFlags r = rowX (idx.msgFlags r.id) r.deleted := rfl

/-- STORE ±FLAGS (\Deleted), seen from the mailbox it was run on: the row's mark changes -/
theorem flagsEq_deleted_same (mf : Flags) (rd d : Bool) (hnd : deleted ∉ mf) :
    FlagsEq (remove1 (newFlags (rowX mf rd) (if d then .add else .rem) [deleted] false) recent) (rowX mf d) := by
  intro g hg
  cases d <;> simp only [mem_remove1, mem_newFlags, mem_rowX, List.mem_singleton] <;> grind

/-- … seen from another mailbox: nothing changes -/
theorem flagsEq_deleted_other (X : Flags) (d : Bool) :
    FlagsEq (remove1 (newFlags X (if d then .add else .rem) [deleted] true) recent) X := by
  intro g hg
  cases d <;> simp only [mem_remove1, mem_newFlags, List.mem_singleton] <;> grind

/-- STORE ±FLAGS of flags other than `\Deleted`, seen from any mailbox: the message's flags change, the mark stays -/
theorem flagsEq_msg (mf R : Flags) (rd o : Bool) (op : FlagOp) (hop : op ≠ .set) (hR : deleted ∉ R) :
    FlagsEq (remove1 (newFlags (rowX mf rd) op R o) recent) (rowX (newFlags mf op R false) rd) := by
  intro g hg
  cases op <;> simp only [mem_remove1, mem_newFlags, mem_rowX] <;> grind

/-- STORE FLAGS, seen from the mailbox it was run on: everything is replaced -/
theorem flagsEq_set_same (mf fl : Flags) (rd : Bool) :
    FlagsEq (remove1 (newFlags (rowX mf rd) .set fl false) recent)
      (rowX (newFlags mf .set (remove1 fl deleted) false) (fl.contains deleted)) := by
  intro g hg
  simp only [mem_remove1, mem_newFlags, mem_rowX, List.contains_iff_mem]
  grind

/-- … seen from another mailbox: the message's flags are replaced, the row's mark stays -/
theorem flagsEq_set_other (mf fl : Flags) (rd : Bool) (hnd : deleted ∉ mf) :
    FlagsEq (remove1 (newFlags (rowX mf rd) .set fl true) recent)
      (rowX (newFlags mf .set (remove1 fl deleted) false) rd) := by
  intro g hg
  simp only [mem_remove1, mem_newFlags, mem_rowX]
  grind

end Gluon
