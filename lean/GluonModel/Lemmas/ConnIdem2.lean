/-
Idempotence lemmas for C06, second part: MessageMailboxesUpdated, MessageUpdated, MessagesCreated.
-/
import GluonModel.Lemmas.ConnIdem

namespace Gluon.ConnUpd

/-- with the invariant, "the mailbox has a row for message `g`" can be read off the row's message
    id or off its remote id -/
theorem has_iff_hasRid {db : DB} (hi : InvP db) {g : Msg} (hg : g ∈ db.msgs) {m : Mbox} (hm : m ∈ db.mboxes) :
    m.has g.iid = true ↔ m.hasRid g.rid = true := by
  simp only [Mbox.has, Mbox.hasRid, List.any_eq_true, beq_iff_eq]
  constructor
  · rintro ⟨r, hr, he⟩
    obtain ⟨g', hg', hrid⟩ := hi.rowRef m hm r hr
    obtain ⟨hmem', hiid'⟩ := msgByIid_some hg'
    have : g' = g := eq_of_key_eq (fun g : Msg => g.iid) db.msgs g' g hi.msgIid hmem' hg (by simp [hiid', he])
    exact ⟨r, hr, by rw [← hrid, this]⟩
  · rintro ⟨r, hr, he⟩
    obtain ⟨g', hg', hrid⟩ := hi.rowRef m hm r hr
    obtain ⟨hmem', hiid'⟩ := msgByIid_some hg'
    have : g' = g := eq_of_key_eq (fun g : Msg => g.rid) db.msgs g' g hi.msgRid hmem' hg (by simp [hrid, he])
    exact ⟨r, hr, by rw [← hiid', this]⟩

theorem mem_mailboxesOf {db : DB} {msg i : Nat} : i ∈ db.mailboxesOf msg ↔ ∃ m ∈ db.mboxes, m.has msg = true ∧ m.iid = i := by
  simp [DB.mailboxesOf, and_assoc]

theorem mem_mboxRidsOf {db : DB} {mrid b : RID} : b ∈ db.mboxRidsOf mrid ↔ ∃ m ∈ db.mboxes, m.hasRid mrid = true ∧ m.rid = b := by
  simp [DB.mboxRidsOf, and_assoc]

theorem addToAll_nil (cfg : Cfg) (db : DB) (p : Nat × RID) : addToAll cfg db p [] = .ok (db, []) := rfl

/-- `setMessageMailboxes` towards the membership the message already has -/
theorem setMessageMailboxes_same (cfg : Cfg) (db : DB) (g : Msg) (target : List Nat)
    (h : ∀ i, i ∈ target ↔ i ∈ db.mailboxesOf g.iid) : setMessageMailboxes cfg db g target = .ok (db, []) := by
  unfold setMessageMailboxes
  have h1 : target.filter (fun m => !(db.mailboxesOf g.iid).contains m) = [] := by
    rw [List.filter_eq_nil_iff]; intro i hi; simp [(h i).1 hi]
  have h2 : (db.mailboxesOf g.iid).filter (fun m => !target.contains m) = [] := by
    rw [List.filter_eq_nil_iff]; intro i hi; simp [(h i).2 hi]
  simp only [h1, h2, addToAll_nil, removeFromAll_nil, List.append_nil]

theorem idem_MMU (cfg : Cfg) (db : DB) (hi : InvP db) (rid : RID) (mbs : List RID) (flags : List Flag)
    (h : Restates cfg db (.messageMailboxesUpdated rid mbs flags) = true) :
    NoEffect db (applyMessageMailboxesUpdated cfg db rid mbs flags) := by
  simp only [Restates, Bool.and_eq_true, Bool.not_eq_true'] at h
  obtain ⟨hp, h2⟩ := h
  cases hl : db.liveMsg rid with
  | none => simp [hl] at h2
  | some g =>
    simp only [hl, Bool.and_eq_true] at h2
    obtain ⟨hf, hs⟩ := h2
    obtain ⟨hm, _⟩ := liveMsg_some hl
    obtain ⟨hmem, hgr⟩ := msgByRid_some hm
    rw [sameSet_iff] at hs
    unfold applyMessageMailboxesUpdated
    simp only [hp, Bool.false_eq_true, if_false, hm]
    have htarget : ∀ i, i ∈ (db.mboxes.filter (fun m => mbs.contains m.rid)).map (·.iid) ↔ i ∈ db.mailboxesOf g.iid := by
      intro i
      rw [mem_mailboxesOf]
      simp only [List.mem_map, List.mem_filter, List.contains_iff_mem]
      constructor
      · rintro ⟨m, ⟨hmm, hin⟩, rfl⟩
        refine ⟨m, hmm, ?_, rfl⟩
        have : m.rid ∈ mbs.filter db.known := by
          simp only [List.mem_filter, DB.known]
          exact ⟨hin, by rw [mboxByRid_of_mem hi hmm]; rfl⟩
        have := (hs m.rid).2 this
        rw [mem_mboxRidsOf] at this
        obtain ⟨m2, hm2, hhas, hr2⟩ := this
        have : m2 = m := eq_of_key_eq (fun m : Mbox => m.rid) db.mboxes m2 m hi.mboxRid hm2 hmm hr2
        rw [this, ← hgr] at hhas
        exact (has_iff_hasRid hi hmem hmm).2 hhas
      · rintro ⟨m, hmm, hhas, rfl⟩
        refine ⟨m, ⟨hmm, ?_⟩, rfl⟩
        have h1 := (has_iff_hasRid hi hmem hmm).1 hhas
        rw [hgr] at h1
        have : m.rid ∈ db.mboxRidsOf rid := mem_mboxRidsOf.2 ⟨m, hmm, h1, rfl⟩
        have := (hs m.rid).1 this
        exact (List.mem_filter.1 this).1
    rw [setMessageMailboxes_same cfg db g _ htarget]
    simp only [setMessageFlags_same db hi g hmem flags hf]
    exact noEffect_ok db

theorem resolveAll_some (db : DB) : ∀ (bs : List RID) (t : List Nat), resolveAll db bs = some t →
    ∀ i, i ∈ t ↔ ∃ b ∈ bs, ∃ m, db.mboxByRid b = some m ∧ m.iid = i := by
  intro bs
  induction bs with
  | nil => intro t h i; simp [resolveAll] at h; subst h; simp
  | cons b bs ih =>
    intro t h i
    simp only [resolveAll] at h
    cases hb : db.mboxByRid b with
    | none => simp [hb] at h
    | some mb =>
      cases hr : resolveAll db bs with
      | none => simp [hb, hr] at h
      | some r =>
        simp only [hb, hr, Option.some.injEq] at h
        subst h
        have := ih r hr i
        simp only [List.mem_cons, this]
        constructor
        · rintro (rfl | ⟨b', hb', m, hm, rfl⟩)
          · exact ⟨b, Or.inl rfl, mb, hb, rfl⟩
          · exact ⟨b', Or.inr hb', m, hm, rfl⟩
        · rintro ⟨b', (rfl | hb'), m, hm, rfl⟩
          · rw [hb] at hm; cases hm; exact Or.inl rfl
          · exact Or.inr ⟨b', hb', m, hm, rfl⟩

theorem resolveAll_of_known (db : DB) : ∀ bs : List RID, bs.all db.known = true → ∃ t, resolveAll db bs = some t := by
  intro bs
  induction bs with
  | nil => intro _; exact ⟨[], rfl⟩
  | cons b bs ih =>
    intro h
    simp only [List.all_cons, Bool.and_eq_true] at h
    obtain ⟨t, ht⟩ := ih h.2
    have hk := h.1
    simp only [DB.known, Option.isSome_iff_exists] at hk
    obtain ⟨m, hm⟩ := hk
    exact ⟨m.iid :: t, by simp [resolveAll, hm, ht]⟩

theorem idem_MSU (cfg : Cfg) (db : DB) (hi : InvP db) (m : NewMsg) (ac : Bool)
    (h : Restates cfg db (.messageUpdated m ac) = true) : NoEffect db (applyMessageUpdated cfg db m ac) := by
  simp only [Restates] at h
  cases hl : db.liveMsg m.rid with
  | none => simp [hl] at h
  | some g =>
    simp only [hl, Bool.and_eq_true] at h
    obtain ⟨⟨⟨hlit, hf⟩, hk⟩, hs⟩ := h
    obtain ⟨hm, _⟩ := liveMsg_some hl
    obtain ⟨hmem, hgr⟩ := msgByRid_some hm
    rw [sameSet_iff] at hs
    obtain ⟨t, ht⟩ := resolveAll_of_known db m.mboxes hk
    have htm := resolveAll_some db m.mboxes t ht
    unfold applyMessageUpdated
    simp only [hm, hlit, if_true, ht, setMessageFlags_same db hi g hmem m.flags hf]
    have htarget : ∀ i, i ∈ t ↔ i ∈ db.mailboxesOf g.iid := by
      intro i
      rw [htm, mem_mailboxesOf]
      constructor
      · rintro ⟨b, hb, mb, hmb, rfl⟩
        obtain ⟨hmbm, hmbr⟩ := mboxByRid_some hmb
        refine ⟨mb, hmbm, ?_, rfl⟩
        have := (hs b).2 hb
        rw [mem_mboxRidsOf] at this
        obtain ⟨m2, hm2, hhas, hr2⟩ := this
        have : m2 = mb := eq_of_key_eq (fun m : Mbox => m.rid) db.mboxes m2 mb hi.mboxRid hm2 hmbm (by simp [hr2, hmbr])
        rw [this, ← hgr] at hhas
        exact (has_iff_hasRid hi hmem hmbm).2 hhas
      · rintro ⟨mb, hmbm, hhas, rfl⟩
        have h1 := (has_iff_hasRid hi hmem hmbm).1 hhas
        rw [hgr] at h1
        have : mb.rid ∈ db.mboxRidsOf m.rid := mem_mboxRidsOf.2 ⟨mb, hmbm, h1, rfl⟩
        exact ⟨mb.rid, (hs mb.rid).1 this, mb, mboxByRid_of_mem hi hmbm, rfl⟩
    rw [setMessageMailboxes_same cfg db g t htarget]
    exact noEffect_ok db

/-! ### MessagesCreated -/

/-- every pair collected so far is already a row of its mailbox -/
def PairsPresent (db : DB) (fm : List (Nat × List (Nat × RID))) : Prop :=
  ∀ e ∈ fm, ∃ M ∈ db.mboxes, M.iid = e.1 ∧ ∀ p ∈ e.2, M.has p.1 = true

theorem addPair_present (db : DB) (fm : List (Nat × List (Nat × RID))) (M : Mbox) (hM : M ∈ db.mboxes)
    (hi : InvP db) (p : Nat × RID) (hp : M.has p.1 = true) (h : PairsPresent db fm) :
    PairsPresent db (addPair fm M.iid p) := by
  unfold addPair
  split
  · intro e he
    simp only [List.mem_map] at he
    obtain ⟨e0, he0, rfl⟩ := he
    obtain ⟨M0, hM0, hiid, hall⟩ := h e0 he0
    split
    · rename_i hk
      split
      · exact ⟨M0, hM0, hiid, hall⟩
      · refine ⟨M0, hM0, hiid, ?_⟩
        intro q hq
        simp only [List.mem_append, List.mem_singleton] at hq
        rcases hq with hq | rfl
        · exact hall q hq
        · have : M0 = M := eq_of_key_eq (fun m : Mbox => m.iid) db.mboxes M0 M hi.mboxIid hM0 hM
            (by simp [hiid]; simpa using hk)
          rw [this]; exact hp
    · exact ⟨M0, hM0, hiid, hall⟩
  · intro e he
    simp only [List.mem_append, List.mem_singleton] at he
    rcases he with he | rfl
    · exact h e he
    · exact ⟨M, hM, rfl, by intro q hq; simp at hq; subst hq; exact hp⟩

theorem mscMailboxes_present (db : DB) (hi : InvP db) (ignore : Bool) (g : Msg) (hg : g ∈ db.msgs) :
    ∀ (bs : List RID) (fm : List (Nat × List (Nat × RID))),
      (∀ b ∈ bs, if db.known b then db.inMbox b g.rid = true else ignore = true) → PairsPresent db fm →
      ∃ fm', mscMailboxes db ignore (g.iid, g.rid) bs fm = .ok fm' ∧ PairsPresent db fm' := by
  intro bs
  induction bs with
  | nil => intro fm _ h; exact ⟨fm, rfl, h⟩
  | cons b bs ih =>
    intro fm hb h
    have hb0 := hb b (List.mem_cons_self)
    have hrest : ∀ b' ∈ bs, if db.known b' then db.inMbox b' g.rid = true else ignore = true :=
      fun b' hb' => hb b' (List.mem_cons_of_mem _ hb')
    simp only [mscMailboxes]
    cases hm : db.mboxByRid b with
    | none =>
      simp only [DB.known, hm, Option.isSome_none, Bool.false_eq_true, if_false] at hb0
      subst hb0
      simp only [if_true]
      exact ih fm hrest h
    | some M =>
      simp only [DB.known, hm, Option.isSome_some, if_true, DB.inMbox] at hb0
      obtain ⟨hMm, _⟩ := mboxByRid_some hm
      have hhas : M.has g.iid = true := (has_iff_hasRid hi hg hMm).2 hb0
      exact ih _ hrest (addPair_present db fm M hMm hi (g.iid, g.rid) hhas h)

theorem mscLoop_restating (cfg : Cfg) (db : DB) (hi : InvP db) (ignore : Bool) :
    ∀ (ms : List NewMsg) (fm : List (Nat × List (Nat × RID))),
      (∀ m ∈ ms, m.mboxes.contains cfg.recoveryRID = false ∧ (db.liveMsg m.rid).isSome = true ∧
        ∀ b ∈ m.mboxes, if db.known b then db.inMbox b m.rid = true else ignore = true) →
      PairsPresent db fm →
      ∃ fm', mscLoop cfg db ignore { toCreate := [], forMbox := fm } ms = .ok { toCreate := [], forMbox := fm' } ∧
        PairsPresent db fm' := by
  intro ms
  induction ms with
  | nil => intro fm _ h; exact ⟨fm, rfl, h⟩
  | cons m ms ih =>
    intro fm hms h
    obtain ⟨hp, hlive, hb⟩ := hms m (List.mem_cons_self)
    obtain ⟨g, hg⟩ := Option.isSome_iff_exists.1 hlive
    obtain ⟨hgm, _⟩ := liveMsg_some hg
    obtain ⟨hmem, hgr⟩ := msgByRid_some hgm
    have hb' : ∀ b ∈ m.mboxes, if db.known b then db.inMbox b g.rid = true else ignore = true := by
      rw [hgr]; exact hb
    obtain ⟨fm1, h1, hp1⟩ := mscMailboxes_present db hi ignore g hmem m.mboxes fm hb' h
    have hstep : mscStep cfg db ignore { toCreate := [], forMbox := fm } m = .ok { toCreate := [], forMbox := fm1 } := by
      unfold mscStep
      simp only [hp, Bool.false_eq_true, if_false, mscResolve, List.find?_nil, hgm]
      rw [← hgr, h1]
    simp only [mscLoop, hstep]
    exact ih fm1 (fun m' hm' => hms m' (List.mem_cons_of_mem _ hm')) hp1

theorem assignAll_present (cfg : Cfg) (db : DB) (hi : InvP db) :
    ∀ fm : List (Nat × List (Nat × RID)), PairsPresent db fm → assignAll cfg db fm = .ok (db, []) := by
  intro fm
  induction fm with
  | nil => intro _; rfl
  | cons e rest ih =>
    intro h
    obtain ⟨M, hM, hiid, hall⟩ := h e (List.mem_cons_self)
    obtain ⟨mb, pairs⟩ := e
    simp only at hiid hall
    subst hiid
    simp only [assignAll, mboxByIid_of_mem hi hM]
    have : pairs.filter (fun p => !M.has p.1) = [] := by
      rw [List.filter_eq_nil_iff]; intro p hp; simp [hall p hp]
    simp only [this, List.isEmpty_nil, if_true]
    exact ih (fun e' he' => h e' (List.mem_cons_of_mem _ he'))

theorem idem_MSC (cfg : Cfg) (db : DB) (hi : InvP db) (ignore : Bool) (ms : List NewMsg)
    (h : Restates cfg db (.messagesCreated ignore ms) = true) : NoEffect db (applyMessagesCreated cfg db ignore ms) := by
  simp only [Restates, List.all_eq_true, Bool.and_eq_true, Bool.not_eq_true'] at h
  have hms : ∀ m ∈ ms, m.mboxes.contains cfg.recoveryRID = false ∧ (db.liveMsg m.rid).isSome = true ∧
      ∀ b ∈ m.mboxes, if db.known b then db.inMbox b m.rid = true else ignore = true := by
    intro m hm
    obtain ⟨⟨h1, h2⟩, h3⟩ := h m hm
    refine ⟨h1, h2, ?_⟩
    intro b hb
    have := h3 b hb
    split <;> simp_all
  obtain ⟨fm', hloop, hpres⟩ := mscLoop_restating cfg db hi ignore ms [] hms (by intro e he; cases he)
  unfold applyMessagesCreated
  simp only [hloop, List.isEmpty_nil, Bool.true_and]
  split
  · exact noEffect_ok db
  · have hdb : ({ db with msgs := db.msgs ++ [], nextMsg := db.nextMsg + ([] : List Msg).length } : DB) = db := by
      simp
    rw [hdb, assignAll_present cfg db hi fm' hpres]
    exact noEffect_ok db

end Gluon.ConnUpd
