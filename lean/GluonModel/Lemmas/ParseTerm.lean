/-
Termination of the parser model: with fuel above the number of bytes left, no loop and no recursion
runs out of fuel — every iteration consumes a byte or stops (since commit 18609dc also the loop of
`ParseQuoted`, which used to match the EOF token forever, #7). `Shrinks` (the parser only moves forward)
and `Total n` (no out-of-fuel with less than `n` bytes left) are established for every parsing function
by composition (type class resolution over the `do` blocks) and by induction for the loops.
-/
import GluonModel.Lemmas.ParseTok

namespace Gluon.Parse

set_option synthInstance.maxSize 4096
set_option synthInstance.maxHeartbeats 400000

/-- the input the parser still has in front of it: the look-ahead byte (if any) and the unread bytes -/
def PState.input (s : PState) : Bytes := if s.cur.ty = .eof then s.rest else s.cur.val :: s.rest

/-- the look-ahead token is EOF only when the source is exhausted, and otherwise is the token of its
byte (true after any `Advance`) -/
def Loaded (s : PState) : Prop :=
  (s.cur.ty = .eof → s.rest = []) ∧ (s.cur.ty ≠ .eof → s.cur.ty = tokTy s.cur.val)

/-- `p` only moves forward: what is left after it is a suffix of what was left before -/
class Shrinks (p : P α) : Prop where
  sh : ∀ s a s', Loaded s → p s = .ok a s' → Loaded s' ∧ s'.input <:+ s.input

/-- with less than `n` bytes left, `p` (given fuel `n`) does not run out of fuel -/
class Total (n : Nat) (p : P α) : Prop where
  tot : ∀ s, Loaded s → s.input.length < n → p s ≠ .fuel

theorem bind_eq (x : P α) (f : α → P β) (s : PState) :
    (x >>= f) s = match x s with
      | .ok a s' => f a s'
      | .err e s' => .err e s'
      | .fuel => .fuel := rfl

instance : Shrinks (pure a : P α) := ⟨fun s a' s' hl h => by cases h; exact ⟨hl, List.suffix_refl _⟩⟩
instance : Total n (pure a : P α) := ⟨fun s _ _ h => by cases h⟩
instance (x : P α) (f : α → P β) [hx : Shrinks x] [hf : ∀ a, Shrinks (f a)] : Shrinks (x >>= f) := ⟨by
  intro s b s' hl h
  rw [bind_eq] at h
  cases hxs : x s with
  | ok a s1 =>
    rw [hxs] at h
    obtain ⟨hl1, hs1⟩ := hx.sh s a s1 hl hxs
    obtain ⟨hl2, hs2⟩ := (hf a).sh s1 b s' hl1 h
    exact ⟨hl2, List.IsSuffix.trans hs2 hs1⟩
  | err e s1 => rw [hxs] at h; cases h
  | fuel => rw [hxs] at h; cases h⟩
instance (x : P α) (f : α → P β) [hx : Shrinks x] [tx : Total n x] [tf : ∀ a, Total n (f a)] :
    Total n (x >>= f) := ⟨by
  intro s hl hs h
  rw [bind_eq] at h
  cases hxs : x s with
  | ok a s1 =>
    rw [hxs] at h
    obtain ⟨hl1, hsuf⟩ := hx.sh s a s1 hl hxs
    exact (tf a).tot s1 hl1 (Nat.lt_of_le_of_lt hsuf.length_le hs) h
  | err e s1 => rw [hxs] at h; cases h
  | fuel => exact tx.tot s hl hs hxs⟩
instance (c : Prop) [Decidable c] (p q : P α) [hp : Shrinks p] [hq : Shrinks q] : Shrinks (if c then p else q) := ⟨by
  intro s a s' hl h
  split at h
  · exact hp.sh s a s' hl h
  · exact hq.sh s a s' hl h⟩
instance (c : Prop) [Decidable c] (p q : P α) [hp : Total n p] [hq : Total n q] : Total n (if c then p else q) := ⟨by
  intro s hl hs h
  split at h
  · exact hp.tot s hl hs h
  · exact hq.tot s hl hs h⟩

instance : Shrinks (makeError : P α) := ⟨fun s a s' _ h => by cases h⟩
instance : Total n (makeError : P α) := ⟨fun s _ _ h => by cases h⟩
instance : Shrinks (makeErrorAt : P α) := ⟨fun s a s' _ h => by cases h⟩
instance : Total n (makeErrorAt : P α) := ⟨fun s _ _ h => by cases h⟩
instance : Shrinks (fail e : P α) := ⟨fun s a s' _ h => by cases h⟩
instance : Total n (fail e : P α) := ⟨fun s _ _ h => by cases h⟩
instance : Shrinks (outOfFuel : P α) := ⟨fun s a s' _ h => by cases h⟩
instance : Shrinks (check t) := ⟨fun s a s' hl h => by cases h; exact ⟨hl, List.suffix_refl _⟩⟩
instance : Total n (check t) := ⟨fun s _ _ h => by cases h⟩
instance : Shrinks (checkWith f) := ⟨fun s a s' hl h => by cases h; exact ⟨hl, List.suffix_refl _⟩⟩
instance : Total n (checkWith f) := ⟨fun s _ _ h => by cases h⟩
instance : Shrinks prevVal := ⟨fun s a s' hl h => by cases h; exact ⟨hl, List.suffix_refl _⟩⟩
instance : Total n prevVal := ⟨fun s _ _ h => by cases h⟩
instance : Shrinks curVal := ⟨fun s a s' hl h => by cases h; exact ⟨hl, List.suffix_refl _⟩⟩
instance : Total n curVal := ⟨fun s _ _ h => by cases h⟩
instance : Shrinks bumpConts := ⟨fun s a s' hl h => by cases h; exact ⟨hl, List.suffix_refl _⟩⟩
instance : Total n bumpConts := ⟨fun s _ _ h => by cases h⟩

/-- `Advance` always succeeds; afterwards the state is loaded and shows exactly the bytes that were unread -/
theorem advance_input (s : PState) : ∃ s', advance s = .ok () s' ∧ s'.input = s.rest ∧ Loaded s' := by
  unfold advance
  cases hr : s.rest with
  | nil => exact ⟨_, rfl, by simp [PState.input, Tok.eof], fun _ => rfl, fun h => absurd rfl h⟩
  | cons b bs =>
    refine ⟨_, rfl, ?_, ?_⟩
    · simp [PState.input, Tok.ofByte, tokTy_ne_eof]
    · exact ⟨fun h => absurd h (tokTy_ne_eof b), fun _ => rfl⟩

theorem rest_suffix_input (s : PState) : s.rest <:+ s.input := by
  unfold PState.input
  split
  · exact List.suffix_refl _
  · exact List.suffix_cons _ _

instance : Shrinks advance := ⟨by
  intro s a s' _ h
  obtain ⟨s1, e, hi, hl⟩ := advance_input s
  rw [e] at h
  cases h
  rw [hi]
  exact ⟨hl, rest_suffix_input s⟩⟩
instance : Total n advance := ⟨by
  intro s _ _ h
  obtain ⟨s1, e, _⟩ := advance_input s
  rw [e] at h
  cases h⟩

instance : Shrinks (consumeWith f) := ⟨by
  intro s a s' hl h
  unfold consumeWith at h
  split at h
  · exact Shrinks.sh (p := advance) s a s' hl h
  · cases h⟩
instance : Total n (consumeWith f) := ⟨by
  intro s hl hs h
  unfold consumeWith at h
  split at h
  · exact Total.tot (p := advance) (n := n) s hl hs h
  · cases h⟩
instance : Shrinks (consume t) := inferInstanceAs (Shrinks (consumeWith _))
instance : Total n (consume t) := inferInstanceAs (Total n (consumeWith _))

instance : Shrinks (matchesWith f) := ⟨by
  intro s a s' hl h
  unfold matchesWith at h
  split at h
  · exact Shrinks.sh (p := advance >>= fun _ => pure true) s a s' hl h
  · cases h; exact ⟨hl, List.suffix_refl _⟩⟩
instance : Total n (matchesWith f) := ⟨by
  intro s hl hs h
  unfold matchesWith at h
  split at h
  · exact Total.tot (p := advance >>= fun _ => pure true) (n := n) s hl hs h
  · cases h⟩
instance : Shrinks (matchesTy t) := inferInstanceAs (Shrinks (matchesWith _))
instance : Total n (matchesTy t) := inferInstanceAs (Total n (matchesWith _))

/-- a token class that does not contain the EOF token: matching it consumes a byte -/
class NoEOF (f : TokTy → Bool) : Prop where
  ne : f .eof = false

instance : NoEOF isAStringChar := ⟨by decide⟩
instance : NoEOF isAtomChar := ⟨by decide⟩
instance : NoEOF isListChar := ⟨by decide⟩
instance : NoEOF isTagChar := ⟨by decide⟩
instance : NoEOF isQuotedSpecial := ⟨by decide⟩
instance : NoEOF (fun t => t == TokTy.char) := ⟨by decide⟩
instance : NoEOF (fun t => t == TokTy.digit) := ⟨by decide⟩
instance : NoEOF (fun t => t == TokTy.sp) := ⟨by decide⟩
instance : NoEOF (fun t => t == TokTy.comma) := ⟨by decide⟩
instance : NoEOF (fun t => t == TokTy.period) := ⟨by decide⟩
instance : NoEOF (fun t => t == TokTy.backslash) := ⟨by decide⟩
instance : NoEOF (fun t => t == TokTy.lparen) := ⟨by decide⟩

/-- a successful match of a class without EOF consumes one byte -/
theorem matchesWith_true_lt (f : TokTy → Bool) [hf : NoEOF f] (s s' : PState)
    (h : matchesWith f s = .ok true s') : s'.input.length < s.input.length := by
  unfold matchesWith at h
  split at h
  · rename_i hc
    have hne : s.cur.ty ≠ .eof := by intro e; rw [e, hf.ne] at hc; cases hc
    obtain ⟨s1, e, hi, _⟩ := advance_input s
    rw [bind_eq, e] at h
    cases h
    rw [hi]
    simp [PState.input, hne]
  · cases h

theorem matchesWith_false_eq (f : TokTy → Bool) (s s' : PState) (h : matchesWith f s = .ok false s') : s' = s := by
  unfold matchesWith at h
  split at h
  · obtain ⟨s1, e, _⟩ := advance_input s
    rw [bind_eq, e] at h
    cases h
  · cases h; rfl

theorem matchesWith_cases (f : TokTy → Bool) (s : PState) :
    ∃ b s', matchesWith f s = .ok b s' := by
  unfold matchesWith
  split
  · obtain ⟨s1, e, _⟩ := advance_input s
    exact ⟨true, s1, by rw [bind_eq, e]; rfl⟩
  · exact ⟨false, s, rfl⟩

theorem sh_consumeBytes (l : Bytes) : Shrinks (consumeBytes l) ∧ ∀ n, Total n (consumeBytes l) := by
  induction l with
  | nil => exact ⟨inferInstanceAs (Shrinks (pure ())), fun n => inferInstanceAs (Total n (pure ()))⟩
  | cons c cs ih =>
    haveI := ih.1
    haveI := ih.2
    constructor
    · refine ⟨fun s a s' hl h => ?_⟩
      unfold consumeBytes at h
      split at h
      · cases h
      · exact Shrinks.sh (p := advance >>= fun _ => consumeBytes cs) s a s' hl h
    · intro n
      refine ⟨fun s hl hs h => ?_⟩
      unfold consumeBytes at h
      split at h
      · cases h
      · exact Total.tot (p := advance >>= fun _ => consumeBytes cs) (n := n) s hl hs h
instance : Shrinks (consumeBytes l) := (sh_consumeBytes l).1
instance : Total n (consumeBytes l) := (sh_consumeBytes l).2 n

theorem sh_consumeBytesFold (l : Bytes) : Shrinks (consumeBytesFold l) ∧ ∀ n, Total n (consumeBytesFold l) := by
  induction l with
  | nil => exact ⟨inferInstanceAs (Shrinks (pure ())), fun n => inferInstanceAs (Total n (pure ()))⟩
  | cons c cs ih =>
    haveI := ih.1
    haveI := ih.2
    constructor
    · refine ⟨fun s a s' hl h => ?_⟩
      unfold consumeBytesFold at h
      split at h
      · cases h
      · exact Shrinks.sh (p := advance >>= fun _ => consumeBytesFold cs) s a s' hl h
    · intro n
      refine ⟨fun s hl hs h => ?_⟩
      unfold consumeBytesFold at h
      split at h
      · cases h
      · exact Total.tot (p := advance >>= fun _ => consumeBytesFold cs) (n := n) s hl hs h
instance : Shrinks (consumeBytesFold l) := (sh_consumeBytesFold l).1
instance : Total n (consumeBytesFold l) := (sh_consumeBytesFold l).2 n

/-! ### loops -/

theorem sh_collectLoop (f : TokTy → Bool) (n : Nat) : Shrinks (collectLoop f n) := by
  induction n with
  | zero => exact inferInstanceAs (Shrinks outOfFuel)
  | succ n ih => unfold collectLoop; infer_instance
instance : Shrinks (collectLoop f n) := sh_collectLoop f n

/-- generic loop step: a loop `if matches then (body; loop n) else stop` with less than `n+1` bytes left
continues with less than `n` bytes left -/
theorem tot_collectLoop (f : TokTy → Bool) [NoEOF f] (n : Nat) : Total n (collectLoop f n) := by
  induction n with
  | zero => exact ⟨fun s _ hs _ => absurd hs (Nat.not_lt_zero _)⟩
  | succ n ih =>
    refine ⟨fun s hl hs h => ?_⟩
    unfold collectLoop at h
    obtain ⟨b, s1, hm⟩ := matchesWith_cases f s
    rw [bind_eq, hm] at h
    cases b with
    | false => cases h
    | true =>
      have hlt := matchesWith_true_lt f s s1 hm
      obtain ⟨hl1, hsuf⟩ := Shrinks.sh (p := matchesWith f) s true s1 hl hm
      simp only [if_true] at h
      have h2 : (collectLoop f n >>= fun r => pure (s1.prev.val :: r)) s1 = .fuel := h
      exact Total.tot (n := n) (p := collectLoop f n >>= fun r => pure (s1.prev.val :: r)) s1 hl1 (by omega) h2
instance [NoEOF f] : Total n (collectLoop f n) := tot_collectLoop f n
instance : Shrinks (collectWhile f n) := sh_collectLoop f n
instance [NoEOF f] : Total n (collectWhile f n) := tot_collectLoop f n
instance : Shrinks (collectWhilePrev f n) := by unfold collectWhilePrev; infer_instance
instance [NoEOF f] : Total n (collectWhilePrev f n) := by unfold collectWhilePrev; infer_instance


theorem sh_numberLoop (n : Nat) : ∀ acc, Shrinks (numberLoop n acc) := by
  induction n with
  | zero => intro acc; exact inferInstanceAs (Shrinks outOfFuel)
  | succ n ih => intro acc; unfold numberLoop; infer_instance
instance : Shrinks (numberLoop n acc) := sh_numberLoop n acc

theorem tot_numberLoop (n : Nat) : ∀ acc, Total n (numberLoop n acc) := by
  induction n with
  | zero => intro acc; exact ⟨fun s _ hs _ => absurd hs (Nat.not_lt_zero _)⟩
  | succ n ih =>
    intro acc
    refine ⟨fun s hl hs h => ?_⟩
    unfold numberLoop matchesTy at h
    obtain ⟨b, s1, hm⟩ := matchesWith_cases (fun t => t == TokTy.digit) s
    rw [bind_eq, hm] at h
    cases b with
    | false => cases h
    | true =>
      have hlt := matchesWith_true_lt _ s s1 hm
      obtain ⟨hl1, hsuf⟩ := Shrinks.sh (p := matchesWith _) s true s1 hl hm
      simp only [if_true] at h
      exact Total.tot (n := n) (p := prevVal >>= fun d =>
        if numStep acc d > maxUint32 then makeError else numberLoop n (numStep acc d)) s1 hl1 (by omega) h
instance : Total n (numberLoop n acc) := tot_numberLoop n acc
instance : Shrinks (parseNumber n) := by unfold parseNumber; infer_instance
instance : Total n (parseNumber n) := by unfold parseNumber; infer_instance

theorem sh_numberNLoop (k : Nat) : ∀ acc, Shrinks (numberNLoop k acc) ∧ ∀ n, Total n (numberNLoop k acc) := by
  induction k with
  | zero => intro acc; exact ⟨inferInstanceAs (Shrinks (pure acc)), fun n => inferInstanceAs (Total n (pure acc))⟩
  | succ k ih =>
    intro acc
    haveI : ∀ a, Shrinks (numberNLoop k a) := fun a => (ih a).1
    haveI : ∀ a n, Total n (numberNLoop k a) := fun a n => (ih a).2 n
    constructor
    · unfold numberNLoop; infer_instance
    · intro n; unfold numberNLoop; infer_instance
instance : Shrinks (numberNLoop k acc) := (sh_numberNLoop k acc).1
instance : Total n (numberNLoop k acc) := (sh_numberNLoop k acc).2 n
instance : Shrinks (parseNumberN k) := by unfold parseNumberN; infer_instance
instance : Total n (parseNumberN k) := by unfold parseNumberN; infer_instance
instance : Shrinks (parseAtom n) := by unfold parseAtom; infer_instance
instance : Total n (parseAtom n) := by unfold parseAtom; infer_instance

/-! ### quoted strings: the one loop that can run forever -/

theorem sh_quotedLoop (n : Nat) : Shrinks (quotedLoop n) := by
  induction n with
  | zero => exact inferInstanceAs (Shrinks outOfFuel)
  | succ n ih => unfold quotedLoop; infer_instance
instance : Shrinks (quotedLoop n) := sh_quotedLoop n

theorem input_of_cur_ne {s : PState} (h : s.cur.ty ≠ .eof) : s.input = s.cur.val :: s.rest := by
  simp [PState.input, h]

theorem cur_of_input_cons {s : PState} (hl : Loaded s) {b : UInt8} {bs : Bytes} (h : s.input = b :: bs) :
    s.cur.ty ≠ .eof ∧ s.cur.val = b ∧ s.rest = bs := by
  unfold PState.input at h
  split at h
  · rename_i he
    rw [hl.1 he] at h
    cases h
  · rename_i he
    cases h
    exact ⟨he, rfl, rfl⟩


theorem bind_fuel {x : P α} {f : α → P β} {s : PState} (h : (x >>= f) s = .fuel) :
    x s = .fuel ∨ ∃ a s', x s = .ok a s' ∧ f a s' = .fuel := by
  rw [bind_eq] at h
  cases hx : x s with
  | ok a s' => rw [hx] at h; exact Or.inr ⟨a, s', rfl, h⟩
  | err e s' => rw [hx] at h; cases h
  | fuel => exact Or.inl rfl

/-- `MatchesWith(f)` on a loaded state whose next byte is `b` -/
theorem matchesWith_on (f : TokTy → Bool) {s : PState} (hl : Loaded s) {b : UInt8} {bs : Bytes}
    (hi : s.input = b :: bs) :
    (f (tokTy b) = true ∧ ∃ s1, matchesWith f s = .ok true s1 ∧ s1.input = bs ∧ Loaded s1 ∧ s1.prev.val = b) ∨
    (f (tokTy b) = false ∧ matchesWith f s = .ok false s) := by
  obtain ⟨hne, hv, hr⟩ := cur_of_input_cons hl hi
  have hty : s.cur.ty = tokTy b := by rw [hl.2 hne, hv]
  unfold matchesWith
  rw [hty]
  cases hf : f (tokTy b) with
  | false => exact Or.inr ⟨rfl, by simp⟩
  | true =>
    left
    refine ⟨rfl, ?_⟩
    obtain ⟨s1, e, hi1, hl1⟩ := advance_input s
    refine ⟨s1, by simp [bind_eq, e], by rw [hi1, hr], hl1, ?_⟩
    unfold advance at e
    split at e <;> (cases e; exact hv)

theorem consumeWith_on (f : TokTy → Bool) {s : PState} (hl : Loaded s) {b : UInt8} {bs : Bytes}
    (hi : s.input = b :: bs) :
    (f (tokTy b) = true ∧ ∃ s1, consumeWith f s = .ok () s1 ∧ s1.input = bs ∧ Loaded s1 ∧ s1.prev.val = b) ∨
    (f (tokTy b) = false ∧ ∃ e, consumeWith f s = .err e s) := by
  obtain ⟨hne, hv, hr⟩ := cur_of_input_cons hl hi
  have hty : s.cur.ty = tokTy b := by rw [hl.2 hne, hv]
  unfold consumeWith
  rw [hty]
  cases hf : f (tokTy b) with
  | false => exact Or.inr ⟨rfl, .parse s.prev.ty, by simp [makeError]⟩
  | true =>
    left
    refine ⟨rfl, ?_⟩
    obtain ⟨s1, e, hi1, hl1⟩ := advance_input s
    refine ⟨s1, by simp [e], by rw [hi1, hr], hl1, ?_⟩
    unfold advance at e
    split at e <;> (cases e; exact hv)

theorem input_nil_cur {s : PState} (hl : Loaded s) (h : s.input = []) : s.cur.ty = .eof := by
  unfold PState.input at h
  split at h
  · assumption
  · cases h

instance : NoEOF isQuotedChar := ⟨by decide⟩

/-- the loop of `ParseQuoted`: every iteration consumes one byte (an ordinary character) or two (an
escape), or stops — at the EOF token too, since `IsQuotedChar(EOF)` is false -/
theorem tot_quotedLoop (n : Nat) : Total n (quotedLoop n) := by
  induction n with
  | zero => exact ⟨fun s _ hs _ => absurd hs (Nat.not_lt_zero _)⟩
  | succ n ih =>
    refine ⟨fun s hl hs h => ?_⟩
    unfold quotedLoop at h
    obtain ⟨b, s1, hm⟩ := matchesWith_cases isQuotedChar s
    rw [bind_eq, hm] at h
    cases b with
    | true =>
      have hlt := matchesWith_true_lt _ s s1 hm
      obtain ⟨hl1, hsuf⟩ := Shrinks.sh (p := matchesWith _) s true s1 hl hm
      simp only [if_true] at h
      exact Total.tot (n := n) (p := prevVal >>= fun b => quotedLoop n >>= fun r => pure (b :: r)) s1 hl1
        (by omega) h
    | false =>
      have hs1 := matchesWith_false_eq _ s s1 hm
      subst hs1
      simp only [Bool.false_eq_true, if_false] at h
      unfold matchesTy at h
      obtain ⟨b2, s2, hm2⟩ := matchesWith_cases (fun t => t == TokTy.backslash) s1
      rw [bind_eq, hm2] at h
      cases b2 with
      | false => cases h
      | true =>
        have hlt := matchesWith_true_lt _ s1 s2 hm2
        obtain ⟨hl2, hsuf⟩ := Shrinks.sh (p := matchesWith _) s1 true s2 hl hm2
        simp only [if_true] at h
        exact Total.tot (n := n) (p := consumeWith isQuotedSpecial >>= fun _ => prevVal >>= fun b =>
          quotedLoop n >>= fun r => pure (b :: r)) s2 hl2 (by omega) h
instance : Total n (quotedLoop n) := tot_quotedLoop n

instance : Shrinks (parseQuoted n) := by unfold parseQuoted; infer_instance
instance : Total n (parseQuoted n) := by unfold parseQuoted; infer_instance

instance : Shrinks (bumpContsIf b) := by unfold bumpContsIf; infer_instance
instance : Total n (bumpContsIf b) := by unfold bumpContsIf; infer_instance
instance : Shrinks (goMakeBytes k) := ⟨by
  intro s a s' hl h
  unfold goMakeBytes at h
  split at h
  · cases h
  · cases h; exact ⟨hl, List.suffix_refl _⟩⟩
instance : Total n (goMakeBytes k) := ⟨by
  intro s _ _ h
  unfold goMakeBytes at h
  split at h <;> cases h⟩

theorem scannerConsumeBytes_cases (k : Nat) (s : PState) :
    (∃ e s1, scannerConsumeBytes k s = .err e s1) ∨
    scannerConsumeBytes k s = .ok (s.curByte :: s.rest.take (k - 1)) { s with rest := s.rest.drop (k - 1) } := by
  unfold scannerConsumeBytes
  split
  · exact Or.inl ⟨_, _, rfl⟩
  · split
    · exact Or.inl ⟨_, _, rfl⟩
    · exact Or.inr rfl

/-- reading the literal's bytes and loading the next token, as one step: in between, the look-ahead token
is stale -/
instance : Shrinks (scannerConsumeBytes k >>= fun lit => advance >>= fun _ => pure lit) := ⟨by
  intro s a s' _ h
  rcases scannerConsumeBytes_cases k s with ⟨e, s1, he⟩ | hok
  · rw [bind_eq, he] at h; cases h
  · obtain ⟨s1, e, hi, hl1⟩ := advance_input { s with rest := s.rest.drop (k - 1) }
    rw [bind_eq, hok] at h
    simp only [bind_eq, e] at h
    cases h
    rw [hi]
    exact ⟨hl1, List.IsSuffix.trans (List.drop_suffix _ _) (rest_suffix_input s)⟩⟩
instance : Total n (scannerConsumeBytes k >>= fun lit => advance >>= fun _ => pure lit) := ⟨by
  intro s _ _ h
  rcases scannerConsumeBytes_cases k s with ⟨e, s1, he⟩ | hok
  · rw [bind_eq, he] at h; cases h
  · obtain ⟨s1, e, _⟩ := advance_input { s with rest := s.rest.drop (k - 1) }
    rw [bind_eq, hok] at h
    simp only [bind_eq, e] at h
    cases h⟩

instance : Shrinks (parseLiteral n) := by unfold parseLiteral; infer_instance
instance : Total n (parseLiteral n) := by unfold parseLiteral; infer_instance
instance : Shrinks (parseString n) := by unfold parseString; infer_instance
instance : Total n (parseString n) := by unfold parseString; infer_instance
instance : Shrinks (parseAString n) := by unfold parseAString; infer_instance
instance : Total n (parseAString n) := by unfold parseAString; infer_instance
instance : Shrinks (tryParseString n) := by unfold tryParseString; infer_instance
instance : Total n (tryParseString n) := by unfold tryParseString; infer_instance


theorem Total.mono {p : P α} {m n : Nat} (h : Total m p) (hle : n ≤ m) : Total n p :=
  ⟨fun s hl hs hf => h.tot s hl (Nat.lt_of_lt_of_le hs hle) hf⟩

/-- a token type other than EOF -/
class NotEOF (t : TokTy) : Prop where
  ne : t ≠ .eof
instance : NotEOF .sp := ⟨by decide⟩
instance : NotEOF .comma := ⟨by decide⟩
instance [h : NotEOF t] : NoEOF (fun x => x == t) := ⟨by
  have := h.ne
  simp only [beq_eq_false_iff_ne, ne_eq]
  exact fun e => this e.symm⟩

theorem sh_sepLoop (sep : TokTy) (item : P α) [Shrinks item] (k : Nat) : Shrinks (sepLoop sep item k) := by
  induction k with
  | zero => exact inferInstanceAs (Shrinks outOfFuel)
  | succ k ih => unfold sepLoop; infer_instance
instance (sep : TokTy) (item : P α) [Shrinks item] : Shrinks (sepLoop sep item k) := sh_sepLoop sep item k

/-- a separated list loop with `k` iterations of budget does not run out of fuel when less than `n ≤ k`
bytes are left -/
theorem tot_sepLoop (sep : TokTy) [NotEOF sep] (item : P α) [Shrinks item] (k : Nat) :
    ∀ n, n ≤ k → Total n item → Total n (sepLoop sep item k) := by
  induction k with
  | zero =>
    intro n hn _
    exact ⟨fun s _ hs _ => absurd hs (by omega)⟩
  | succ k ih =>
    intro n hn hitem
    refine ⟨fun s hl hs h => ?_⟩
    unfold sepLoop matchesTy at h
    obtain ⟨b, s1, hm⟩ := matchesWith_cases (fun t => t == sep) s
    rw [bind_eq, hm] at h
    cases b with
    | false => cases h
    | true =>
      have hlt := matchesWith_true_lt _ s s1 hm
      obtain ⟨hl1, hsuf⟩ := Shrinks.sh (p := matchesWith _) s true s1 hl hm
      simp only [if_true] at h
      cases n with
      | zero => exact absurd hs (Nat.not_lt_zero _)
      | succ n =>
        haveI : Total n item := hitem.mono (by omega)
        haveI : Total n (sepLoop sep item k) := ih n (by omega) (hitem.mono (by omega))
        exact Total.tot (n := n) (p := item >>= fun x => sepLoop sep item k >>= fun r => pure (x :: r)) s1 hl1
          (by omega) h
instance (sep : TokTy) [NotEOF sep] (item : P α) [Shrinks item] [h : Total n item] :
    Total n (sepLoop sep item n) := tot_sepLoop sep item n n (Nat.le_refl _) h


/-! ### the grammar -/

instance : Shrinks (readKeyword n) := by unfold readKeyword; infer_instance
instance : Total n (readKeyword n) := by unfold readKeyword; infer_instance
instance : Shrinks (parseMailbox n) := by unfold parseMailbox; infer_instance
instance : Total n (parseMailbox n) := by unfold parseMailbox; infer_instance
instance : Shrinks (parseListMailbox n) := by unfold parseListMailbox; infer_instance
instance : Total n (parseListMailbox n) := by unfold parseListMailbox; infer_instance
instance : Shrinks (parseFlag n) := by unfold parseFlag; infer_instance
instance : Total n (parseFlag n) := by unfold parseFlag; infer_instance
instance : Shrinks (parseFlagList n) := by unfold parseFlagList; infer_instance
instance : Total n (parseFlagList n) := by unfold parseFlagList; infer_instance
instance : Shrinks (tryParseFlagList n) := by unfold tryParseFlagList; infer_instance
instance : Total n (tryParseFlagList n) := by unfold tryParseFlagList; infer_instance
instance : Shrinks (parseNZNumber n) := by unfold parseNZNumber; infer_instance
instance : Total n (parseNZNumber n) := by unfold parseNZNumber; infer_instance
instance : Shrinks (parseSeqNumber n) := by unfold parseSeqNumber; infer_instance
instance : Total n (parseSeqNumber n) := by unfold parseSeqNumber; infer_instance
instance : Shrinks (parseSeqRange n) := by unfold parseSeqRange; infer_instance
instance : Total n (parseSeqRange n) := by unfold parseSeqRange; infer_instance
instance : Shrinks (parseSeqSet n) := by unfold parseSeqSet; infer_instance
instance : Total n (parseSeqSet n) := by unfold parseSeqSet; infer_instance
instance : Shrinks parseDateDayFixed := by unfold parseDateDayFixed; infer_instance
instance : Total n parseDateDayFixed := by unfold parseDateDayFixed; infer_instance
instance : Shrinks parseDateMonth := by
  unfold parseDateMonth
  have : ∀ o : Option Int, Shrinks (match o with | some m => (pure m : P Int) | none => makeError) := by
    intro o; cases o <;> infer_instance
  infer_instance
instance : Total n parseDateMonth := by
  unfold parseDateMonth
  have : ∀ o : Option Int, Total n (match o with | some m => (pure m : P Int) | none => makeError) := by
    intro o; cases o <;> infer_instance
  infer_instance
instance : Shrinks parseDateYear := by unfold parseDateYear; infer_instance
instance : Total n parseDateYear := by unfold parseDateYear; infer_instance
instance : Shrinks parseZone := by unfold parseZone; infer_instance
instance : Total n parseZone := by unfold parseZone; infer_instance
instance : Shrinks parseTime := by unfold parseTime; infer_instance
instance : Total n parseTime := by unfold parseTime; infer_instance
instance : Shrinks parseDateTime := by
  unfold parseDateTime
  have : ∀ (year month day : Int) (t : Int × Int × Int), Shrinks (match t with
      | (h, m, s) => do
        consume .sp
        let zone ← parseZone
        consume .dquote
        pure (DateTime.mk year month day h m s zone) : P DateTime) := by
    intro y mo d t; obtain ⟨h, m, s⟩ := t; infer_instance
  infer_instance
instance : Total n parseDateTime := by
  unfold parseDateTime
  have : ∀ (year month day : Int) (t : Int × Int × Int), Total n (match t with
      | (h, m, s) => do
        consume .sp
        let zone ← parseZone
        consume .dquote
        pure (DateTime.mk year month day h m s zone) : P DateTime) := by
    intro y mo d t; obtain ⟨h, m, s⟩ := t; infer_instance
  infer_instance
instance : Shrinks parseDateText := by unfold parseDateText; infer_instance
instance : Total n parseDateText := by unfold parseDateText; infer_instance
instance : Shrinks parseDate := by unfold parseDate; infer_instance
instance : Total n parseDate := by unfold parseDate; infer_instance
instance : Shrinks (parseMailboxCmd mk n) := by unfold parseMailboxCmd; infer_instance
instance : Total n (parseMailboxCmd mk n) := by unfold parseMailboxCmd; infer_instance
instance : Shrinks (parseLogin n) := by unfold parseLogin; infer_instance
instance : Total n (parseLogin n) := by unfold parseLogin; infer_instance
instance : Shrinks (parseRename n) := by unfold parseRename; infer_instance
instance : Total n (parseRename n) := by unfold parseRename; infer_instance
instance : Shrinks (parseListCmd mk n) := by unfold parseListCmd; infer_instance
instance : Total n (parseListCmd mk n) := by unfold parseListCmd; infer_instance
instance : Shrinks (parseStatusAttribute n) := by unfold parseStatusAttribute; infer_instance
instance : Total n (parseStatusAttribute n) := by unfold parseStatusAttribute; infer_instance
instance : Shrinks (parseStatus n) := by unfold parseStatus; infer_instance
instance : Total n (parseStatus n) := by unfold parseStatus; infer_instance
instance : Shrinks (parseStoreFlags n) := by
  unfold parseStoreFlags
  have : ∀ o : Option (List BStr), Shrinks (match o with
      | some fl => (pure fl : P (List BStr))
      | none => do
        let f ← parseFlag n
        let r ← sepLoop .sp (parseFlag n) n
        pure (f :: r)) := by
    intro o; cases o <;> infer_instance
  infer_instance
instance : Total n (parseStoreFlags n) := by
  unfold parseStoreFlags
  have : ∀ o : Option (List BStr), Total n (match o with
      | some fl => (pure fl : P (List BStr))
      | none => do
        let f ← parseFlag n
        let r ← sepLoop .sp (parseFlag n) n
        pure (f :: r)) := by
    intro o; cases o <;> infer_instance
  infer_instance
instance : Shrinks (parseStore n) := by unfold parseStore; infer_instance
instance : Total n (parseStore n) := by unfold parseStore; infer_instance
instance : Shrinks (parseCopyMove mk n) := by unfold parseCopyMove; infer_instance
instance : Total n (parseCopyMove mk n) := by unfold parseCopyMove; infer_instance
instance : Shrinks (parseHeaderList n) := by unfold parseHeaderList; infer_instance
instance : Total n (parseHeaderList n) := by unfold parseHeaderList; infer_instance
instance : Shrinks (parseHeaderFields n) := by unfold parseHeaderFields; infer_instance
instance : Total n (parseHeaderFields n) := by unfold parseHeaderFields; infer_instance
instance : Shrinks (handleSectionMessageText t n) := by unfold handleSectionMessageText; infer_instance
instance : Total n (handleSectionMessageText t n) := by unfold handleSectionMessageText; infer_instance
instance : Shrinks (parseSectionText n) := by unfold parseSectionText; infer_instance
instance : Total n (parseSectionText n) := by unfold parseSectionText; infer_instance
instance : Shrinks (parseSectionMsgText n) := by unfold parseSectionMsgText; infer_instance
instance : Total n (parseSectionMsgText n) := by unfold parseSectionMsgText; infer_instance
theorem sh_sectionPartLoop (fuel k : Nat) : Shrinks (sectionPartLoop fuel k) := by
  induction k with
  | zero => exact inferInstanceAs (Shrinks outOfFuel)
  | succ k ih => unfold sectionPartLoop; infer_instance
instance : Shrinks (sectionPartLoop fuel k) := sh_sectionPartLoop fuel k

theorem tot_sectionPartLoop (fuel : Nat) (k : Nat) : ∀ n, n ≤ k → n ≤ fuel → Total n (sectionPartLoop fuel k) := by
  induction k with
  | zero => intro n hn _; exact ⟨fun s _ hs _ => absurd hs (by omega)⟩
  | succ k ih =>
    intro n hn hnf
    refine ⟨fun s hl hs h => ?_⟩
    unfold sectionPartLoop matchesTy at h
    obtain ⟨b, s1, hm⟩ := matchesWith_cases (fun t => t == TokTy.period) s
    rw [bind_eq, hm] at h
    cases b with
    | false => cases h
    | true =>
      have hlt := matchesWith_true_lt _ s s1 hm
      obtain ⟨hl1, hsuf⟩ := Shrinks.sh (p := matchesWith _) s true s1 hl hm
      simp only [Bool.not_true, Bool.false_eq_true, if_false] at h
      cases n with
      | zero => exact absurd hs (Nat.not_lt_zero _)
      | succ n =>
        haveI : Total n (parseNZNumber fuel) :=
          Total.mono (m := fuel) (by infer_instance) (by omega)
        haveI : Total n (sectionPartLoop fuel k) := ih n (by omega) (by omega)
        exact Total.tot (n := n) (p := check .digit >>= fun d => if (!d) = true then pure [] else
          parseNZNumber fuel >>= fun x => sectionPartLoop fuel k >>= fun r => pure (x :: r)) s1 hl1 (by omega) h
instance : Total n (sectionPartLoop n n) := tot_sectionPartLoop n n n (Nat.le_refl _) (Nat.le_refl _)
instance : Shrinks (parseSectionPart n) := by unfold parseSectionPart; infer_instance
instance : Total n (parseSectionPart n) := by unfold parseSectionPart; infer_instance
instance : Shrinks (parseSectionSpec n) := by unfold parseSectionSpec; infer_instance
instance : Total n (parseSectionSpec n) := by unfold parseSectionSpec; infer_instance
instance : Shrinks (handleBodyFetchAttribute n) := by unfold handleBodyFetchAttribute; infer_instance
instance : Total n (handleBodyFetchAttribute n) := by unfold handleBodyFetchAttribute; infer_instance
instance : Shrinks (handleRFC822FetchAttribute n) := by unfold handleRFC822FetchAttribute; infer_instance
instance : Total n (handleRFC822FetchAttribute n) := by unfold handleRFC822FetchAttribute; infer_instance
instance : Shrinks (handleFetchAttribute name n) := by unfold handleFetchAttribute; infer_instance
instance : Total n (handleFetchAttribute name n) := by unfold handleFetchAttribute; infer_instance
instance : Shrinks (parseFetchAttribute n) := by unfold parseFetchAttribute; infer_instance
instance : Total n (parseFetchAttribute n) := by unfold parseFetchAttribute; infer_instance
instance : Shrinks (parseFetchAttributes n) := by unfold parseFetchAttributes; infer_instance
instance : Total n (parseFetchAttributes n) := by unfold parseFetchAttributes; infer_instance
instance : Shrinks (parseFetch n) := by unfold parseFetch; infer_instance
instance : Total n (parseFetch n) := by unfold parseFetch; infer_instance
instance : Shrinks (consumeIf b t) := by unfold consumeIf; infer_instance
instance : Total n (consumeIf b t) := by unfold consumeIf; infer_instance
instance : Shrinks appendDateTime := by unfold appendDateTime; infer_instance
instance : Total n appendDateTime := by unfold appendDateTime; infer_instance
instance : Shrinks (parseAppend n) := by unfold parseAppend; infer_instance
instance : Total n (parseAppend n) := by unfold parseAppend; infer_instance
instance (p : P α) [Shrinks p] : Shrinks (spThen p) := by unfold spThen; infer_instance
instance (p : P α) [Shrinks p] [Total n p] : Total n (spThen p) := by unfold spThen; infer_instance


/-! ### search keys: recursion depth -/

/-- what a collect loop returns is exactly what it consumed -/
theorem collectLoop_len (f : TokTy → Bool) [NoEOF f] (n : Nat) : ∀ s r s', Loaded s →
    collectLoop f n s = .ok r s' → s'.input.length + r.length = s.input.length := by
  induction n with
  | zero => intro s r s' _ h; cases h
  | succ n ih =>
    intro s r s' hl h
    unfold collectLoop at h
    obtain ⟨b, s1, hm⟩ := matchesWith_cases f s
    rw [bind_eq, hm] at h
    cases b with
    | false =>
      simp only [Bool.false_eq_true, if_false] at h
      have hs1 := matchesWith_false_eq f s s1 hm
      cases h
      rw [hs1]; simp
    | true =>
      simp only [if_true] at h
      obtain ⟨hl1, _⟩ := Shrinks.sh (p := matchesWith f) s true s1 hl hm
      have h' : (collectLoop f n >>= fun r => pure (s1.prev.val :: r)) s1 = .ok r s' := h
      rw [bind_eq] at h'
      cases hc : collectLoop f n s1 with
      | ok r1 s2 =>
        rw [hc] at h'
        have := ih s1 r1 s2 hl1 hc
        cases h'
        -- one byte was consumed by the match
        have hlt : s1.input.length + 1 = s.input.length := by
          unfold matchesWith at hm
          split at hm
          · rename_i hcnd
            have hne : s.cur.ty ≠ .eof := by
              intro e; rw [e, NoEOF.ne (f := f)] at hcnd; cases hcnd
            obtain ⟨s1', e, hi, _⟩ := advance_input s
            rw [bind_eq, e] at hm
            cases hm
            rw [hi]; simp [PState.input, hne]
          · cases hm
        simp only [List.length_cons]
        omega
      | err e s2 => rw [hc] at h'; cases h'
      | fuel => rw [hc] at h'; cases h'

theorem readKeyword_len (fuel : Nat) (s : PState) (k : Bytes) (s1 : PState) (hl : Loaded s)
    (h : readKeyword fuel s = .ok k s1) : s1.input.length + k.length = s.input.length ∧ Loaded s1 := by
  unfold readKeyword collectWhile at h
  rw [bind_eq] at h
  cases hc : collectLoop (fun x => x == TokTy.char) fuel s with
  | ok r s2 =>
    rw [hc] at h
    have := collectLoop_len _ fuel s r s2 hl hc
    obtain ⟨hl2, _⟩ := Shrinks.sh (p := collectLoop _ fuel) s r s2 hl hc
    cases h
    exact ⟨by simpa [lowerBytes] using this, hl2⟩
  | err e s2 => rw [hc] at h; cases h
  | fuel => rw [hc] at h; cases h

/-- `d ≤ fuel` as an instance argument, so that fuel-indexed facts can be used at the smaller index -/
class LEFuel (d : Nat) (fuel : outParam Nat) : Prop where
  le : d ≤ fuel

instance (priority := low) monoTotal [h : LEFuel d fuel] (q : P α) [t : Total fuel q] : Total d q :=
  t.mono h.le

instance (recKey : P SearchKey) [Shrinks recKey] : Shrinks (handleSearchKey recKey k fuel) := by
  unfold handleSearchKey; infer_instance

theorem tot_handleSearchKey (recKey : P SearchKey) [Shrinks recKey] (d fuel : Nat) [LEFuel d fuel]
    [Total d recKey] (k : Bytes) : Total d (handleSearchKey recKey k fuel) := by
  unfold handleSearchKey; infer_instance


instance (recKey : P SearchKey) [Shrinks recKey] : Shrinks (parseSearchKeyList recKey fuel) := by
  unfold parseSearchKeyList; infer_instance

theorem sh_parseSearchKey (d fuel : Nat) : Shrinks (parseSearchKey d fuel) := by
  induction d with
  | zero => unfold parseSearchKey; infer_instance
  | succ d ih => unfold parseSearchKey; infer_instance
instance : Shrinks (parseSearchKey d fuel) := sh_parseSearchKey d fuel

theorem handleSearchKey_nil (recKey : P SearchKey) (fuel : Nat) :
    handleSearchKey recKey [] fuel = makeErrorAt := by
  unfold handleSearchKey
  rfl

instance (recKey : P SearchKey) [Shrinks recKey] [Total n recKey] : Total n (handleSearchKey recKey k n) :=
  haveI : LEFuel n n := ⟨Nat.le_refl _⟩
  tot_handleSearchKey recKey n n k

/-- with the nesting cap (/repo c30e930) the recursion of `parseSearchKey` is bounded by its first argument, the
number of levels still allowed, whatever the input: it cannot run out of fuel by nesting, only its loops
could — and they do not, with loop fuel above the number of bytes left -/
theorem tot_parseSearchKey (n : Nat) : ∀ d, Total n (parseSearchKey d n) := by
  intro d
  induction d with
  | zero => unfold parseSearchKey; infer_instance
  | succ d ih =>
    haveI := ih
    haveI : Total n (parseSearchKeyList (parseSearchKey d n) n) := by unfold parseSearchKeyList; infer_instance
    unfold parseSearchKey
    infer_instance

instance : Total n (parseSearchKey d n) := tot_parseSearchKey n d

instance : Shrinks (searchFirst n) := by unfold searchFirst; infer_instance
instance : Total n (searchFirst n) := by unfold searchFirst; infer_instance
instance : Shrinks (parseSearch n) := by
  unfold parseSearch
  have : ∀ x : BStr × List SearchKey, Shrinks (match x with
      | (charset, first) => do
        let more ← sepLoop .sp (parseSearchKey searchBudget n) n
        let keys := first ++ more
        if keys.isEmpty then makeError
        else pure (Cmd.search charset keys) : P Cmd) := by
    intro x; obtain ⟨a, b⟩ := x; infer_instance
  infer_instance
instance : Total n (parseSearch n) := by
  unfold parseSearch
  have : ∀ x : BStr × List SearchKey, Total n (match x with
      | (charset, first) => do
        let more ← sepLoop .sp (parseSearchKey searchBudget n) n
        let keys := first ++ more
        if keys.isEmpty then makeError
        else pure (Cmd.search charset keys) : P Cmd) := by
    intro x; obtain ⟨a, b⟩ := x; infer_instance
  infer_instance
instance : Shrinks (dispatchUID c n) := by unfold dispatchUID; infer_instance
instance : Total n (dispatchUID c n) := by unfold dispatchUID; infer_instance
instance : Shrinks (parseUID n) := by unfold parseUID; infer_instance
instance : Total n (parseUID n) := by unfold parseUID; infer_instance
instance : Shrinks (parseNString n) := by
  unfold parseNString
  have : ∀ o : Option Bytes, Shrinks (match o with
      | some s => (pure (some s) : P (Option BStr))
      | none => do
        consumeBytesFold (kw "NIL")
        pure none) := by
    intro o; cases o <;> infer_instance
  infer_instance
instance : Total n (parseNString n) := by
  unfold parseNString
  have : ∀ o : Option Bytes, Total n (match o with
      | some s => (pure (some s) : P (Option BStr))
      | none => do
        consumeBytesFold (kw "NIL")
        pure none) := by
    intro o; cases o <;> infer_instance
  infer_instance

theorem sh_idLoop (fuel k : Nat) : ∀ m, Shrinks (idLoop fuel k m) := by
  induction k with
  | zero => intro m; exact inferInstanceAs (Shrinks outOfFuel)
  | succ k ih =>
    intro m
    unfold idLoop
    have : ∀ o : Option Bytes, Shrinks (match o with
        | none => (pure m : P (List (BStr × BStr)))
        | some key => do
          consume .sp
          let v ← parseNString fuel
          let atEnd ← check .rparen
          consumeIf (!atEnd) .sp
          idLoop fuel k (mapInsert m key (v.getD []))) := by
      intro o; cases o <;> infer_instance
    infer_instance
instance : Shrinks (idLoop fuel k m) := sh_idLoop fuel k m

/-- an ID pair consumes at least the SP after its key, so the loop needs at most one iteration per byte -/
theorem tot_idLoop (fuel : Nat) (k : Nat) : ∀ n, n ≤ k → n ≤ fuel → ∀ m, Total n (idLoop fuel k m) := by
  induction k with
  | zero => intro n hn _ m; exact ⟨fun s _ hs _ => absurd hs (by omega)⟩
  | succ k ih =>
    intro n hn hnf m
    refine ⟨fun s hl hs h => ?_⟩
    unfold idLoop at h
    rcases bind_fuel h with h1 | ⟨o, s1, ho, h1⟩
    · have : Total fuel (tryParseString fuel) := inferInstance
      exact this.tot s hl (by omega) h1
    · obtain ⟨hl1, hsuf1⟩ := Shrinks.sh (p := tryParseString fuel) s o s1 hl ho
      cases o with
      | none => cases h1
      | some key =>
        -- the SP after the key is consumed
        have h1' : (consume .sp >>= fun _ => parseNString fuel >>= fun v => check .rparen >>= fun atEnd =>
            consumeIf (!atEnd) .sp >>= fun _ => idLoop fuel k (mapInsert m key (v.getD []))) s1 = .fuel := h1
        rcases bind_fuel h1' with h2 | ⟨_, s2, hc, h2⟩
        · have : Total fuel (consume .sp) := inferInstance
          exact this.tot s1 hl1 (by have := hsuf1.length_le; omega) h2
        · have hlt : s2.input.length < s1.input.length := by
            unfold consume consumeWith at hc
            split at hc
            · rename_i hcnd
              have hne : s1.cur.ty ≠ .eof := by
                intro e; rw [e] at hcnd; cases hcnd
              obtain ⟨s', e, hi, _⟩ := advance_input s1
              rw [e] at hc
              cases hc
              rw [hi]; simp [PState.input, hne]
            · cases hc
          obtain ⟨hl2, hsuf2⟩ := Shrinks.sh (p := consume .sp) s1 () s2 hl1 hc
          cases n with
          | zero => exact absurd hs (Nat.not_lt_zero _)
          | succ n =>
            haveI : LEFuel n fuel := ⟨by omega⟩
            haveI : ∀ m', Total n (idLoop fuel k m') := fun m' => ih n (by omega) (by omega) m'
            have := hsuf1.length_le
            exact Total.tot (n := n) (p := parseNString fuel >>= fun v => check .rparen >>= fun atEnd =>
              consumeIf (!atEnd) .sp >>= fun _ => idLoop fuel k (mapInsert m key (v.getD []))) s2 hl2 (by omega) h2
instance : Total n (idLoop n n m) := tot_idLoop n n n (Nat.le_refl _) (Nat.le_refl _) m
instance : Shrinks (parseID n) := by unfold parseID; infer_instance
instance : Total n (parseID n) := by unfold parseID; infer_instance
instance : Shrinks (parseTag n) := by unfold parseTag; infer_instance
instance : Total n (parseTag n) := by unfold parseTag; infer_instance
instance : Shrinks (dispatchCommand c n) := by unfold dispatchCommand; infer_instance
instance : Total n (dispatchCommand c n) := by unfold dispatchCommand; infer_instance
instance : Shrinks (parseCommand n) := by unfold parseCommand; infer_instance
instance : Total n (parseCommand n) := by unfold parseCommand; infer_instance


/-- the body of `Parser.Parse` after its initial `Advance` -/
def parseLineBody (fuel : Nat) : P Command := do
  let tag ← parseTag fuel
  let cmd ← (do
    if lowerBytes tag = kw "done" then pure (Command.mk [] .done)
    else do
      consume .sp
      let p ← parseCommand fuel
      pure (Command.mk tag p))
  consume .cr
  if !(← check .lf) then makeError
  else pure cmd

theorem parseLine_eq (fuel : Nat) : parseLine fuel = advance >>= fun _ => parseLineBody fuel := rfl

instance : Shrinks (parseLineBody n) := by unfold parseLineBody; infer_instance
instance : Total n (parseLineBody n) := by unfold parseLineBody; infer_instance

/-- `Parse`, given more fuel than the input has bytes, never runs out of fuel -/
theorem parse_total (fuel : Nat) (input : Bytes) (hf : input.length < fuel) : parse fuel input ≠ .fuel := by
  intro h
  unfold parse at h
  rw [parseLine_eq] at h
  obtain ⟨s1, e, hi, hl⟩ := advance_input (PState.init input)
  rw [bind_eq, e] at h
  have hinp : s1.input = input := hi
  exact Total.tot (n := fuel) (p := parseLineBody fuel) s1 hl (by rw [hinp]; exact hf) h

/-- depth_capped: `d` opening parentheses exhaust a budget of `d` levels — the result is a parser error (BAD),
not a loop and not deeper recursion; with `d = searchBudget` that is what `maxSearchKeyDepth + 1` parentheses
get. (Before /repo c30e930 the same lemma said `.fuel`: no constant bounded the recursion depth.) -/
theorem parseSearchKey_parens (d fuel : Nat) (c : Ctx) (rest : Bytes) :
    ∃ t s', parseSearchKey d fuel (load c (List.replicate d 40 ++ rest)) = .err (.parse t) s' := by
  induction d generalizing c with
  | zero => exact ⟨_, _, rfl⟩
  | succ d ih =>
    unfold parseSearchKey matchesTy
    have h40 : (fun t => t == TokTy.lparen) (tokTy 40) = true := by rfl
    have hm : matchesWith (fun t => t == TokTy.lparen) (load c (40 :: (List.replicate d 40 ++ rest))) =
        .ok true (load ⟨Tok.ofByte 40, 40, c.n⟩ (List.replicate d 40 ++ rest)) := by
      unfold matchesWith
      simp [h40, bind_ok (advance_load c 40 _)]
    simp only [List.replicate_succ, List.cons_append]
    rw [bind_ok hm]
    simp only [if_true]
    unfold parseSearchKeyList
    obtain ⟨t, s', e⟩ := ih ⟨Tok.ofByte 40, 40, c.n⟩
    rw [bind_def, e]
    exact ⟨t, s', rfl⟩


end Gluon.Parse
