/-
C03 helper lemmas, part 3: what ONE successful call of a `db.Transaction` / `db.ReadOnly` method does to
the part of the index `abs` looks at (`proj`), for argument lists of any length: the chunked model
operation is first replaced by its un-chunked meaning (`Gluon.C08.chunk_faithful_*`).
-/
import GluonModel.Lemmas.ActAbs
import GluonModel.Theorems.C08

namespace Gluon.C03
open Gluon.DB

/-! ### small facts -/

theorem mem_appendKeys {α : Type} [BEq α] [LawfulBEq α] (o : Bool) (l : List α) :
    ∀ (rel r : List α), appendKeys o rel l = .ok r → ∀ p, p ∈ r ↔ p ∈ rel ∨ p ∈ l := by
  induction l with
  | nil => intro rel r h p; simp [appendKeys] at h; subst h; simp
  | cons k t ih =>
    intro rel r h p
    unfold appendKeys at h
    by_cases hk : rel.contains k = true
    · simp only [hk, if_true] at h
      cases o with
      | false => simp at h
      | true =>
        simp only [if_true] at h
        rw [ih rel r h p]
        have : k ∈ rel := by simpa using hk
        constructor
        · rintro (h1 | h1); exact Or.inl h1; exact Or.inr (List.mem_cons_of_mem _ h1)
        · rintro (h1 | h1)
          · exact Or.inl h1
          · rcases List.mem_cons.mp h1 with rfl | h1
            · exact Or.inl this
            · exact Or.inr h1
    · simp only [hk] at h
      rw [ih _ r h p]
      simp only [List.mem_append, List.mem_cons, List.not_mem_nil, or_false]
      constructor
      · rintro ((h1 | h1) | h1)
        · exact Or.inl h1
        · exact Or.inr (Or.inl h1)
        · exact Or.inr (Or.inr h1)
      · rintro (h1 | h1 | h1)
        · exact Or.inl (Or.inl h1)
        · exact Or.inl (Or.inr h1)
        · exact Or.inr h1

theorem mem_flagsOf (l : List (Nat × FlagVal)) (k : Nat) (g : FlagVal) : g ∈ flagsOf l k ↔ (k, g) ∈ l := by
  unfold flagsOf
  simp only [List.mem_map, List.mem_filter, beq_iff_eq]
  constructor
  · rintro ⟨⟨a, b⟩, ⟨h1, h2⟩, rfl⟩; simp only at h2; subst h2; exact h1
  · intro h; exact ⟨(k, g), ⟨h, rfl⟩, rfl⟩

/-- everything of `proj` except the flag rows -/
def SameButFlags (db db' : DB) : Prop :=
  db'.mailboxes = db.mailboxes ∧ db'.mtables = db.mtables ∧ db'.messages = db.messages ∧ db'.mboxAttrs = db.mboxAttrs

theorem SameButFlags.refl (db : DB) : SameButFlags db db := ⟨rfl, rfl, rfl, rfl⟩
theorem SameButFlags.trans {a b c : DB} (h1 : SameButFlags a b) (h2 : SameButFlags b c) : SameButFlags a c :=
  ⟨h2.1.trans h1.1, h2.2.1.trans h1.2.1, h2.2.2.1.trans h1.2.2.1, h2.2.2.2.trans h1.2.2.2⟩

theorem guarded_ok {α : Type} (xs : List α) (step : DB → Except DbErr DB) (db db' : DB)
    (h : Spec.guarded xs step db = .ok ((), db')) : (xs = [] ∧ db' = db) ∨ (xs ≠ [] ∧ step db = .ok db') := by
  unfold Spec.guarded at h
  cases xs with
  | nil => simp [Except.map] at h; exact Or.inl ⟨rfl, h.symm⟩
  | cons a t =>
    right
    refine ⟨by simp, ?_⟩
    simp only [List.isEmpty_cons, Bool.false_eq_true, if_false] at h
    cases hs : step db with
    | error e => rw [hs] at h; simp [Except.map] at h
    | ok d => rw [hs] at h; simp [Except.map] at h; rw [h]

/-! ### tables -/

/-- `tx.RemoveMessagesFromMailbox(mb, ids)` with a non-empty list: the rows of these messages leave the table of `mb` -/
theorem remove_effect (mb : MailboxId) (ids : List MessageId) (hne : ids ≠ []) (db db' : DB)
    (h : DB.removeMessagesFromMailbox factSites mb ids db = .ok ((), db')) :
    ∃ t, db.table? mb = some t ∧ proj db' = (proj db).setTable mb (rmRows ids t) ∧ db'.mboxAttrs = db.mboxAttrs := by
  rw [C08.chunk_faithful_removeMessagesFromMailbox] at h
  rcases guarded_ok _ _ _ _ h with ⟨h1, _⟩ | ⟨_, h2⟩
  · exact absurd h1 hne
  · unfold Spec.removeStep at h2
    simp only [bind, Except.bind] at h2
    cases hg : db.getTable mb with
    | error e => rw [hg] at h2; simp at h2
    | ok t =>
      rw [hg] at h2
      simp only [pure, Except.pure, Except.ok.injEq] at h2
      subst h2
      exact ⟨t, getTable_ok hg, proj_setTable db mb t _ (getTable_ok hg), rfl⟩

/-- `tx.SetMailboxMessagesDeletedFlag(mb, ids, d)` with a non-empty list -/
theorem setDeleted_effect (mb : MailboxId) (ids : List MessageId) (d : Bool) (hne : ids ≠ []) (db db' : DB)
    (h : DB.setMailboxMessagesDeletedFlag factSites mb ids d db = .ok ((), db')) :
    ∃ t, db.table? mb = some t ∧ proj db' = (proj db).setTable mb (setDelRows ids d t) ∧ db'.mboxAttrs = db.mboxAttrs := by
  rw [C08.chunk_faithful_setMailboxMessagesDeletedFlag] at h
  rcases guarded_ok _ _ _ _ h with ⟨h1, _⟩ | ⟨_, h2⟩
  · exact absurd h1 hne
  · unfold Spec.setDeletedStep at h2
    simp only [bind, Except.bind] at h2
    cases hg : db.getTable mb with
    | error e => rw [hg] at h2; simp at h2
    | ok t =>
      rw [hg] at h2
      simp only [pure, Except.pure, Except.ok.injEq] at h2
      subst h2
      exact ⟨t, getTable_ok hg, proj_setTable db mb t _ (getTable_ok hg), rfl⟩

/-- `tx.SetMailboxMessagesDeletedFlag` with an empty list issues no statement -/
theorem setDeleted_nil (mb : MailboxId) (d : Bool) (db db' : DB)
    (h : DB.setMailboxMessagesDeletedFlag factSites mb [] d db = .ok ((), db')) : db' = db := by
  rw [C08.chunk_faithful_setMailboxMessagesDeletedFlag] at h
  rcases guarded_ok _ _ _ _ h with ⟨_, h1⟩ | ⟨h1, _⟩
  · exact h1
  · exact absurd rfl h1

/-- `tx.AddMessagesToMailbox(mb, pairs)` with a non-empty list: rows with fresh UIDs in list order are appended -/
theorem add_effect (mb : MailboxId) (pairs : List (MessageId × RemoteId)) (hne : pairs ≠ []) (db db' : DB) (rows : List SnapRow)
    (h : DB.addMessagesToMailbox factSites mb pairs db = .ok (rows, db')) :
    ∃ t, db.table? mb = some t ∧ proj db' = (proj db).setTable mb (addRows pairs t) ∧ db'.mboxAttrs = db.mboxAttrs := by
  have hf := C08.chunk_faithful_addMessagesToMailbox mb pairs db
  rw [h] at hf
  unfold AgreeRes at hf
  cases hs : Spec.addMessagesToMailbox mb pairs db with
  | error e => rw [hs] at hf; exact absurd hf id
  | ok r =>
    obtain ⟨l2, d2⟩ := r
    rw [hs] at hf
    obtain ⟨hd, _⟩ := hf
    subst hd
    unfold Spec.addMessagesToMailbox at hs
    have hemp : pairs.isEmpty = false := by cases pairs with | nil => exact absurd rfl hne | cons _ _ => rfl
    simp only [hemp, Bool.false_eq_true, if_false, bind, Except.bind] at hs
    cases ha : Spec.addStep mb pairs db with
    | error e => rw [ha] at hs; simp at hs
    | ok d1 =>
      rw [ha] at hs
      simp only [] at hs
      cases hu : Spec.uidsWithFlags d1 mb (pairs.map (·.1)) with
      | error e => rw [hu] at hs; simp at hs
      | ok r1 =>
        rw [hu] at hs
        simp only [pure, Except.pure, Except.ok.injEq, Prod.mk.injEq] at hs
        obtain ⟨_, hd⟩ := hs
        subst hd
        obtain ⟨t, t', rel, h1, h2, _, _, _, h6⟩ := (addStep_ok_iff mb pairs db d1).mp ha
        subst h6
        have := appendRows_ok pairs t t' h2
        subst this
        exact ⟨t, getTable_ok h1, proj_setTable db mb t _ (getTable_ok h1), rfl⟩

theorem add_nil (mb : MailboxId) (db db' : DB) (rows : List SnapRow)
    (h : DB.addMessagesToMailbox factSites mb [] db = .ok (rows, db')) : db' = db := by
  simp [DB.addMessagesToMailbox, pure, Except.pure] at h
  exact h.2.symm

/-- `tx.ClearRecentFlagInMailboxOnMessage` -/
theorem clearRecent_effect (mb : MailboxId) (m : MessageId) (db db' : DB)
    (h : clearRecentFlagInMailboxOnMessage mb m db = .ok ((), db')) :
    ∃ t, db.table? mb = some t ∧
      proj db' = (proj db).setTable mb { t with rows := t.rows.map fun r => if r.msgId == m then { r with recent := false } else r } := by
  unfold clearRecentFlagInMailboxOnMessage at h
  simp only [bind, Except.bind] at h
  cases hg : db.getTable mb with
  | error e => rw [hg] at h; simp at h
  | ok t =>
    rw [hg] at h
    simp only [pure, Except.pure, Except.ok.injEq, Prod.mk.injEq, true_and] at h
    subst h
    exact ⟨t, getTable_ok hg, proj_setTable db mb t _ (getTable_ok hg)⟩

/-! ### flag rows -/

/-- `tx.AddFlagToMessages(ids, flag)`: the rows `(m, flag)`, `m ∈ ids`, exist afterwards; nothing else changes -/
theorem addFlag_effect (ids : List MessageId) (flag : FlagVal) (db db' : DB)
    (h : DB.addFlagToMessages factSites ids flag db = .ok ((), db')) :
    SameButFlags db db' ∧ ∀ p, p ∈ db'.msgFlags ↔ p ∈ db.msgFlags ∨ (p.1 ∈ ids ∧ p.2 = flag) := by
  rw [C08.chunk_faithful_addFlagToMessages] at h
  rcases guarded_ok _ _ _ _ h with ⟨h1, h2⟩ | ⟨_, h2⟩
  · subst h1; subst h2; exact ⟨SameButFlags.refl _, by simp⟩
  · unfold Spec.addFlagStep at h2
    simp only [bind, Except.bind] at h2
    cases hk : appendKeys true db.msgFlags (ids.map fun m => (m, flag)) with
    | error e => rw [hk] at h2; simp at h2
    | ok fl =>
      rw [hk] at h2
      simp only [] at h2
      split at h2
      · simp at h2
      · simp only [Except.ok.injEq] at h2
        subst h2
        refine ⟨⟨rfl, rfl, rfl, rfl⟩, ?_⟩
        intro p
        rw [mem_appendKeys true _ _ _ hk p]
        simp only [List.mem_map]
        constructor
        · rintro (h1 | ⟨m, hm, rfl⟩)
          · exact Or.inl h1
          · exact Or.inr ⟨hm, rfl⟩
        · rintro (h1 | ⟨h1, h2⟩)
          · exact Or.inl h1
          · exact Or.inr ⟨p.1, h1, by rw [← h2]⟩

theorem toLower_eq_lower (s : String) : s.toLower = MailboxRef.lower s := by
  unfold String.toLower MailboxRef.lower
  rw [← String.toList_map, String.ofList_toList]

/-- `tx.RemoveFlagFromMessages(ids, flag)`: the rows `(m, g)`, `m ∈ ids`, `g` = `flag` in ANY spelling go
    (`COLLATE NOCASE` since gluon 45f4598) -/
theorem removeFlag_effect (ids : List MessageId) (flag : FlagVal) (db db' : DB)
    (h : DB.removeFlagFromMessages factSites ids flag db = .ok ((), db')) :
    SameButFlags db db' ∧ ∀ p, p ∈ db'.msgFlags ↔ p ∈ db.msgFlags ∧ ¬(p.1 ∈ ids ∧ MailboxRef.lower p.2 = MailboxRef.lower flag) := by
  rw [C08.chunk_faithful_removeFlagFromMessages] at h
  rcases guarded_ok _ _ _ _ h with ⟨h1, h2⟩ | ⟨_, h2⟩
  · subst h1; subst h2; exact ⟨SameButFlags.refl _, by simp⟩
  · unfold Spec.removeFlagStep at h2
    simp only [Except.ok.injEq] at h2
    subst h2
    refine ⟨⟨rfl, rfl, rfl, rfl⟩, ?_⟩
    intro p
    simp only [List.mem_filter, Bool.not_eq_true', Bool.and_eq_false_imp, List.contains_iff_mem, beq_eq_false_iff_ne, ne_eq,
      and_congr_right_iff, toLower_eq_lower]
    intro _
    constructor
    · rintro h1 ⟨h2, h3⟩; exact h1 h2 h3
    · intro h1 h2 h3; exact h1 ⟨h2, h3⟩

/-- `tx.SetFlagsOnMessages(ids, flags)`, `flags` not empty: afterwards the listed messages have exactly these rows -/
theorem setFlags_effect (ids : List MessageId) (flags : List FlagVal) (hfl : flags ≠ []) (db db' : DB)
    (h : DB.setFlagsOnMessages factSites ids flags db = .ok ((), db')) :
    SameButFlags db db' ∧
      (∀ p, p ∈ db'.msgFlags ↔ (p ∈ db.msgFlags ∧ ¬(p.1 ∈ ids ∧ p.2 ∉ flags)) ∨ (p.1 ∈ ids ∧ p.2 ∈ flags)) ∧
      ∀ m ∈ ids, db.hasMessage m = true := by
  rw [C08.chunk_faithful_setFlagsOnMessages_partial ids flags hfl] at h
  rcases guarded_ok _ _ _ _ h with ⟨h1, h2⟩ | ⟨_, h2⟩
  · subst h1; subst h2; exact ⟨SameButFlags.refl _, by simp, by simp⟩
  · unfold Spec.setFlagsStep at h2
    simp only [bind, Except.bind] at h2
    generalize hkept : (db.msgFlags.filter fun p => !(ids.contains p.1 && !flags.contains p.2)) = kept at h2
    cases hk : appendKeys true kept (ids.flatMap fun m => flags.map fun f => (m, f)) with
    | error e => rw [hk] at h2; simp at h2
    | ok fl =>
      rw [hk] at h2
      simp only [] at h2
      split at h2
      · simp at h2
      · next hfk =>
        simp only [Except.ok.injEq] at h2
        subst h2
        refine ⟨⟨rfl, rfl, rfl, rfl⟩, ?_, ?_⟩
        rotate_left
        · intro m hm
          have hne : flags.isEmpty = false := by cases flags with | nil => exact absurd rfl hfl | cons _ _ => rfl
          simp only [hne, Bool.not_false, Bool.true_and, Bool.not_eq_true] at hfk
          rw [List.any_eq_false] at hfk
          simpa using hfk m hm
        intro p
        rw [mem_appendKeys true _ _ _ hk p, ← hkept]
        simp only [List.mem_filter, List.mem_flatMap, List.mem_map, Bool.not_eq_true', Bool.and_eq_false_imp,
          List.contains_iff_mem, Bool.not_eq_false', Bool.not_eq_eq_eq_not, Bool.not_true]
        constructor
        · rintro (⟨h1, h2⟩ | ⟨m, hm, f, hf, rfl⟩)
          · left; refine ⟨h1, ?_⟩; rintro ⟨h3, h4⟩; have := h2 (by simpa using h3); simp_all
          · right; exact ⟨hm, hf⟩
        · rintro (⟨h1, h2⟩ | ⟨h1, h2⟩)
          · left; refine ⟨h1, ?_⟩; intro h3; by_cases h4 : p.2 ∈ flags <;> simp_all
          · right; exact ⟨p.1, h1, p.2, h2, rfl⟩

/-! ### reads -/

/-- `tx.MailboxFilterContains(mb, pairs)`: the ids of `pairs` that have a row in the table of `mb` -/
theorem filterContains_char (db : DB) (mb : MailboxId) (pairs : List (MessageId × RemoteId)) (have_ : List MessageId)
    (h : mailboxFilterContains factSites db mb pairs = .ok have_) (hne : pairs ≠ []) :
    ∃ t, db.table? mb = some t ∧ ∀ x, x ∈ have_ ↔ x ∈ pairs.map (·.1) ∧ ∃ r ∈ t.rows, r.msgId = x := by
  have hf := C08.chunk_faithful_mailboxFilterContains db mb pairs
  rw [h] at hf
  unfold SameSet at hf
  cases hs : Spec.mailboxFilterContains db mb pairs with
  | error e => rw [hs] at hf; exact absurd hf id
  | ok l2 =>
    rw [hs] at hf
    unfold Spec.mailboxFilterContains at hs
    have hemp : pairs.isEmpty = false := by cases pairs with | nil => exact absurd rfl hne | cons _ _ => rfl
    simp only [hemp, Bool.false_eq_true, if_false, bind, Except.bind] at hs
    cases hg : db.getTable mb with
    | error e => rw [hg] at hs; simp at hs
    | ok t =>
      rw [hg] at hs
      simp only [pure, Except.pure, Except.ok.injEq] at hs
      subst hs
      refine ⟨t, getTable_ok hg, ?_⟩
      intro x
      rw [hf x]
      simp only [List.mem_map, List.mem_filter, List.contains_iff_mem]
      constructor
      · rintro ⟨r, ⟨hr, ⟨a, ha, hax⟩⟩, rfl⟩; exact ⟨⟨a, ha, hax⟩, r, hr, rfl⟩
      · rintro ⟨⟨a, ha, hax⟩, r, hr, rfl⟩; exact ⟨r, ⟨hr, ⟨a, ha, hax⟩⟩, rfl⟩

/-- `tx.GetMessagesFlags(ids)`: one row per existing message of the list, with its flag rows -/
theorem getMessagesFlags_char (db : DB) (ids : List MessageId) (cur : List (MessageId × RemoteId × List FlagVal))
    (h : getMessagesFlags factSites db ids = .ok cur) :
    ∀ x, x ∈ cur ↔ ∃ r ∈ db.messages, r.id ∈ ids ∧ x = (r.id, r.remoteId, flagsOf db.msgFlags r.id) := by
  have hf := C08.chunk_faithful_getMessagesFlags db ids
  rw [h] at hf
  unfold SameSet Spec.getMessagesFlags at hf
  intro x
  rw [hf x]
  simp only [List.mem_map, List.mem_filter, List.contains_iff_mem]
  constructor
  · rintro ⟨r, ⟨hr, hi⟩, rfl⟩; exact ⟨r, hr, hi, rfl⟩
  · rintro ⟨r, hr, hi, rfl⟩; exact ⟨r, ⟨hr, hi⟩, rfl⟩

end Gluon.C03
