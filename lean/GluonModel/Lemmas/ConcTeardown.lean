/- Invariants and termination measure of the teardown protocol (Model/Conc.lean, part 3). -/
import GluonModel.Model.Conc

namespace Gluon.Conc
open TState

/-! ### list helpers -/

theorem countP_set_getD (p : Sess → Bool) (l : List Sess) (i : Nat) (b : Sess) (hi : i < l.length) :
    (l.set i b).countP p + (if p (l.getD i .gone) then 1 else 0) = l.countP p + (if p b then 1 else 0) := by
  induction l generalizing i with
  | nil => simp at hi
  | cons x xs ih =>
    cases i with
    | zero => simp [List.countP_cons]; omega
    | succ j =>
      have := ih j (by simpa using hi)
      simp [List.countP_cons] at this ⊢; omega

theorem sum_set_getD (f : Sess → Nat) (l : List Sess) (i : Nat) (b : Sess) (hi : i < l.length) :
    ((l.set i b).map f).sum + f (l.getD i .gone) = (l.map f).sum + f b := by
  induction l generalizing i with
  | nil => simp at hi
  | cons x xs ih =>
    cases i with
    | zero => simp; omega
    | succ j =>
      have := ih j (by simpa using hi)
      simp at this ⊢; omega

theorem getD_set (l : List Sess) (i j : Nat) (b : Sess) :
    (l.set i b).getD j .gone = if j = i ∧ i < l.length then b else l.getD j .gone := by
  simp only [List.getD_eq_getElem?_getD, List.getElem?_set]
  by_cases h : i = j
  · subst h; by_cases hl : i < l.length <;> simp [hl]
  · have : ¬ j = i := fun e => h e.symm
    simp [h, this]

theorem lt_of_getD_ne (l : List Sess) (i : Nat) (h : l.getD i .gone ≠ .gone) : i < l.length := by
  by_cases hl : i < l.length
  · exact hl
  · simp [List.getD_eq_getElem?_getD, List.getElem?_eq_none (Nat.le_of_not_lt hl)] at h

/-! ### ranks -/

def sessRank : Sess → Nat
  | .preauth => 1
  | .running => 4
  | .relRead => 3
  | .relLock => 2
  | .relWrite => 1
  | .gone => 0

def closerRank : Closer → Nat
  | .idle => 9
  | .locked => 8
  | .waitUpdater => 7
  | .closeConn => 6
  | .signal => 5
  | .waitStates => 4
  | .closeStore => 3
  | .closeDB => 2
  | .returned _ => 0

/-- strictly decreases with every step taken once the closer has the lock -/
def measure (s : TState) : Nat :=
  closerRank s.closer + (s.sess.map sessRank).sum + s.updaterRunning.toNat

def closedPhase (c : Closer) : Bool :=
  c == .closeStore || c == .closeDB || c == .returned true

/-- the closer is between `usersLock.Lock()` and its return -/
def closing (c : Closer) : Bool :=
  match c with
  | .idle => false
  | .returned _ => false
  | _ => true

structure TInv (s : TState) : Prop where
  /-- the WaitGroup counts exactly the sessions that still owe a Done -/
  wgEq : s.wg = s.sess.countP owes
  quitOk : s.closer = .waitUpdater → s.quit = true
  lockOk : closing s.closer = true → s.usersLock = true
  sigOk : s.closer = .waitStates → ∀ i, s.sessAt i = .running → s.signalled.getD i false = true
  wgZero : closedPhase s.closer = true → s.wg = 0
  openOk : (s.dbOpen = false ∨ s.storeOpen = false) → closedPhase s.closer = true
  noUse : s.useAfterClose = false
  /-- every created state is either still counted by the WaitGroup or has notified it -/
  cntOk : s.wg + s.dones = s.logins
  /-- whoever notified the WaitGroup has closed its state -/
  closedOk : s.statesClosed = s.dones

theorem tinv_init (n : Nat) (a b c d : Bool) : TInv (TState.init n a b c d) := by
  constructor <;> simp [TState.init, closing, closedPhase, owes, List.countP_replicate]

/-! ### effect of a session step -/

theorem sessAt_lt (s : TState) (i : Nat) (h : s.sessAt i ≠ .gone) : i < s.sess.length :=
  lt_of_getD_ne s.sess i h

theorem sessAt_setSess (s : TState) (i j : Nat) (x : Sess) :
    (s.setSess i x).sessAt j = if j = i ∧ i < s.sess.length then x else s.sessAt j := by
  unfold TState.sessAt TState.setSess; exact getD_set s.sess i j x

theorem count_setSess (s : TState) (i : Nat) (x : Sess) (h : s.sessAt i ≠ .gone) :
    (s.setSess i x).sess.countP owes + (if owes (s.sessAt i) then 1 else 0)
      = s.sess.countP owes + (if owes x then 1 else 0) :=
  countP_set_getD owes s.sess i x (sessAt_lt s i h)

theorem rank_setSess (s : TState) (i : Nat) (x : Sess) (h : s.sessAt i ≠ .gone) :
    ((s.setSess i x).sess.map sessRank).sum + sessRank (s.sessAt i)
      = (s.sess.map sessRank).sum + sessRank x :=
  sum_set_getD sessRank s.sess i x (sessAt_lt s i h)

/-- the part of `TInv` that only talks about the closer, carried over a session step that keeps the
    closer fields -/
theorem tinv_sess_step (s : TState) (i : Nat) (a x : Sess) (s' : TState)
    (h : TInv s) (ha : s.sessAt i = a) (hne : a ≠ .gone)
    (hs' : s'.sess = s.sess.set i x) (hsig : s'.signalled = s.signalled) (hcl : s'.closer = s.closer)
    (hq : s'.quit = s.quit) (hul : s'.usersLock = s.usersLock) (hdb : s'.dbOpen = s.dbOpen)
    (hso : s'.storeOpen = s.storeOpen)
    (hC : s'.wg + (if owes a then 1 else 0) = s.wg + (if owes x then 1 else 0))
    (hcnt : s'.wg + s'.dones + s.logins = s.wg + s.dones + s'.logins)
    (hcls : s'.statesClosed + s.dones = s.statesClosed + s'.dones)
    (hrun : x = .running → closing s.closer = false)
    (hclosed : owes x = true → owes a = true ∨ closedPhase s.closer = false)
    (huse : s'.useAfterClose = false) : TInv s' := by
  have hlt : i < s.sess.length := sessAt_lt s i (by rw [ha]; exact hne)
  have hcnt := countP_set_getD owes s.sess i x hlt
  have ha' : s.sess.getD i .gone = a := ha
  rw [ha'] at hcnt
  constructor
  · rw [hs']; have := h.wgEq; omega
  · rw [hcl, hq]; exact h.quitOk
  · rw [hcl, hul]; exact h.lockOk
  · rw [hcl]; intro hw j hj
    rw [hsig]
    have : s'.sessAt j = (s.setSess i x).sessAt j := by simp [TState.sessAt, TState.setSess, hs']
    rw [this, sessAt_setSess] at hj
    by_cases hji : j = i ∧ i < s.sess.length
    · rw [if_pos hji] at hj
      have := hrun hj; rw [hw] at this; simp [closing] at this
    · rw [if_neg hji] at hj; exact h.sigOk hw j hj
  · rw [hcl]; intro hc
    have hz := h.wgZero hc
    have hweq := h.wgEq
    -- wg = 0: nobody owes, so `a` does not owe; `x` may only owe if `a` did
    have hao : owes a = false := by
      cases hoa : owes a with
      | false => rfl
      | true =>
        have : 0 < s.sess.countP owes := by
          apply List.countP_pos_iff.mpr
          refine ⟨a, ?_, hoa⟩
          rw [← ha']; rw [List.getD_eq_getElem?_getD, List.getElem?_eq_getElem hlt]; simp
        omega
    have hxo : owes x = false := by
      cases hox : owes x with
      | false => rfl
      | true => cases hclosed hox with
        | inl h1 => rw [hao] at h1; cases h1
        | inr h2 => rw [hc] at h2; cases h2
    simp [hao, hxo] at hC; omega
  · rw [hdb, hso, hcl]; exact h.openOk
  · exact huse
  · have := h.cntOk; omega
  · have := h.closedOk; omega

theorem wg_pos (s : TState) (h : TInv s) (i : Nat) (ho : owes (s.sessAt i) = true) : 0 < s.wg := by
  have hne : s.sessAt i ≠ .gone := by intro e; rw [e] at ho; cases ho
  have hlt := sessAt_lt s i hne
  have : 0 < s.sess.countP owes := by
    apply List.countP_pos_iff.mpr
    refine ⟨s.sessAt i, ?_, ho⟩
    unfold TState.sessAt; rw [List.getD_eq_getElem?_getD, List.getElem?_eq_getElem hlt]; simp
  have := h.wgEq; omega

theorem not_closed_of_wg_pos (s : TState) (h : TInv s) (hp : 0 < s.wg) : closedPhase s.closer = false := by
  cases hc : closedPhase s.closer with
  | false => rfl
  | true => have := h.wgZero hc; omega

theorem tinv_apply (s : TState) (st : TStep) (h : TInv s) (hen : s.enabled st = true) : TInv (s.apply st) := by
  cases st with
  | login i =>
    simp only [enabled, Bool.and_eq_true, beq_iff_eq, Bool.not_eq_true', bne_iff_ne, ne_eq] at hen
    obtain ⟨⟨ha, hul⟩, hnr⟩ := hen
    have hncl : closing s.closer = false := by
      cases hc : closing s.closer with
      | false => rfl
      | true => have := h.lockOk hc; rw [hul] at this; cases this
    apply tinv_sess_step s i .preauth .running _ h ha (by simp) <;> simp [apply, setSess, owes, h.noUse]
    all_goals first | omega | (revert hncl hnr; cases s.closer <;> simp [closing, closedPhase])
  | leave i =>
    simp only [enabled, Bool.or_eq_true, beq_iff_eq] at hen
    cases hen with
    | inl ha =>
      apply tinv_sess_step s i .preauth .gone _ h ha (by simp) <;> simp [apply, ha, setSess, owes, h.noUse]
    | inr ha =>
      apply tinv_sess_step s i .running .relRead _ h ha (by simp) <;> simp [apply, ha, setSess, owes, h.noUse]
  | observeDone i =>
    simp only [enabled, Bool.and_eq_true, beq_iff_eq] at hen
    apply tinv_sess_step s i .running .relRead _ h hen.1.1 (by simp) <;> simp [apply, setSess, owes, h.noUse]
  | readOk i =>
    simp only [enabled, beq_iff_eq] at hen
    have hp := wg_pos s h i (by rw [hen]; rfl)
    have hnc := not_closed_of_wg_pos s h hp
    have hdb : s.dbOpen = true := by
      cases hd : s.dbOpen with
      | true => rfl
      | false => have := h.openOk (Or.inl hd); rw [hnc] at this; cases this
    apply tinv_sess_step s i .relRead .relLock _ h hen (by simp) <;> simp [apply, setSess, owes, h.noUse, hdb]
  | readFail i =>
    simp only [enabled, Bool.and_eq_true, beq_iff_eq] at hen
    have hp := wg_pos s h i (by rw [hen.1]; rfl)
    have hnc := not_closed_of_wg_pos s h hp
    have hdb : s.dbOpen = true := by
      cases hd : s.dbOpen with
      | true => rfl
      | false => have := h.openOk (Or.inl hd); rw [hnc] at this; cases this
    apply tinv_sess_step s i .relRead .relLock _ h hen.1 (by simp) <;> simp [apply, setSess, owes, h.noUse, hdb]
  | lockDelete i =>
    simp only [enabled, beq_iff_eq] at hen
    apply tinv_sess_step s i .relLock .relWrite _ h hen (by simp) <;> simp [apply, setSess, owes, h.noUse]
  | finishRel i =>
    simp only [enabled, beq_iff_eq] at hen
    have hp := wg_pos s h i (by rw [hen]; rfl)
    have hnc := not_closed_of_wg_pos s h hp
    have hdb : s.dbOpen = true := by
      cases hd : s.dbOpen with
      | true => rfl
      | false => have := h.openOk (Or.inl hd); rw [hnc] at this; cases this
    have hso : s.storeOpen = true := by
      cases hd : s.storeOpen with
      | true => rfl
      | false => have := h.openOk (Or.inr hd); rw [hnc] at this; cases this
    apply tinv_sess_step s i .relWrite .gone _ h hen (by simp) <;>
      simp [apply, setSess, owes, h.noUse, hdb, hso]
    all_goals omega
  | finishFail i =>
    simp only [enabled, Bool.and_eq_true, beq_iff_eq] at hen
    have hp := wg_pos s h i (by rw [hen.1]; rfl)
    have hnc := not_closed_of_wg_pos s h hp
    have hdb : s.dbOpen = true := by
      cases hd : s.dbOpen with
      | true => rfl
      | false => have := h.openOk (Or.inl hd); rw [hnc] at this; cases this
    apply tinv_sess_step s i .relWrite .gone _ h hen.1 (by simp) <;>
      simp [apply, setSess, owes, h.noUse, hdb, hen.2]
    all_goals omega
  | beginClose =>
    simp only [enabled, Bool.and_eq_true, beq_iff_eq] at hen
    obtain ⟨hc, _⟩ := hen
    have := h.cntOk; have := h.closedOk; have := h.wgEq; have := h.openOk; have := h.noUse
    constructor <;> simp_all [apply, closing, closedPhase]
  | closeQuit =>
    simp only [enabled, beq_iff_eq] at hen
    have := h.cntOk; have := h.closedOk; have := h.wgEq; have := h.openOk; have := h.noUse; have := h.lockOk
    constructor <;> simp_all [apply, closing, closedPhase]
  | updaterExit =>
    have h1 := h.wgEq; have h2 := h.openOk; have h3 := h.noUse; have h4 := h.lockOk
    have h5 := h.quitOk; have h6 := h.sigOk; have h7 := h.wgZero; have h8 := h.cntOk; have h9 := h.closedOk
    constructor <;> simp_all [apply, TState.sessAt]
  | updaterWaited =>
    simp only [enabled, Bool.and_eq_true, beq_iff_eq] at hen
    have := h.cntOk; have := h.closedOk; have := h.wgEq; have := h.openOk; have := h.noUse; have := h.lockOk
    constructor <;> simp_all [apply, closing, closedPhase]
  | connOk =>
    simp only [enabled, beq_iff_eq] at hen
    have := h.cntOk; have := h.closedOk; have := h.wgEq; have := h.openOk; have := h.noUse; have := h.lockOk
    constructor <;> simp_all [apply, closing, closedPhase]
  | connFail =>
    simp only [enabled, Bool.and_eq_true, beq_iff_eq] at hen
    have := h.cntOk; have := h.closedOk; have := h.wgEq; have := h.openOk; have := h.noUse; have := h.lockOk
    constructor <;> simp_all [apply, closing, closedPhase]
  | signalAll =>
    simp only [enabled, beq_iff_eq] at hen
    have h1 := h.wgEq; have h2 := h.openOk; have h3 := h.noUse; have h4 := h.lockOk
    constructor
    · simpa [apply] using h1
    · simp [apply]
    · intro _; simpa [apply] using h4 (by rw [hen]; rfl)
    · intro _ i hi
      simp only [apply, TState.sessAt] at hi ⊢
      have hlt : i < s.sess.length := lt_of_getD_ne s.sess i (by rw [hi]; simp)
      simp [List.getD_eq_getElem?_getD, hlt]
      right
      simp [List.getD_eq_getElem?_getD, hlt] at hi
      simp [hi, inMap]
    · simp [apply, closedPhase]
    · intro hh; have := h2 (by simpa [apply] using hh); rw [hen] at this; simp [closedPhase] at this
    · simpa [apply] using h3
    · simpa [apply] using h.cntOk
    · simpa [apply] using h.closedOk
  | waitDone =>
    simp only [enabled, Bool.and_eq_true, beq_iff_eq] at hen
    have := h.cntOk; have := h.closedOk; have := h.wgEq; have := h.openOk; have := h.noUse; have := h.lockOk
    constructor <;> simp_all [apply, closing, closedPhase]
  | storeClosed =>
    simp only [enabled, beq_iff_eq] at hen
    have := h.cntOk; have := h.closedOk; have := h.wgEq; have := h.openOk; have := h.noUse; have := h.lockOk; have := h.wgZero
    constructor <;> simp_all [apply, closing, closedPhase]
  | dbClosed =>
    simp only [enabled, beq_iff_eq] at hen
    have := h.cntOk; have := h.closedOk; have := h.wgEq; have := h.openOk; have := h.noUse; have := h.lockOk; have := h.wgZero
    constructor <;> simp_all [apply, closing, closedPhase]


theorem tinv_step (s : TState) (st : TStep) (h : TInv s) : TInv (s.step st) := by
  unfold TState.step; split
  · next hen => exact tinv_apply s st h hen
  · exact h

theorem tinv_run (s : TState) (steps : List TStep) (h : TInv s) : TInv (s.run steps) := by
  induction steps generalizing s with
  | nil => exact h
  | cons st rest ih => exact ih _ (tinv_step s st h)

/-! ### configuration switches never change -/

theorem cfg_apply (s : TState) (st : TStep) :
    (s.apply st).observes = s.observes ∧ (s.apply st).readFails = s.readFails ∧
    (s.apply st).writeFails = s.writeFails ∧ (s.apply st).connCloseFails = s.connCloseFails := by
  cases st <;> simp [apply, setSess] <;> split <;> simp

/-! ### the measure decreases -/

theorem measure_apply (s : TState) (st : TStep) (h : TInv s) (hc : closing s.closer = true)
    (hen : s.enabled st = true) : measure (s.apply st) < measure s := by
  have hul := h.lockOk hc
  cases st with
  | login i => simp [enabled, hul] at hen
  | leave i =>
    simp only [enabled, Bool.or_eq_true, beq_iff_eq] at hen
    cases hen with
    | inl ha =>
      have := rank_setSess s i .gone (by rw [ha]; simp)
      simp [apply, ha, measure, setSess, sessRank] at this ⊢; omega
    | inr ha =>
      have := rank_setSess s i .relRead (by rw [ha]; simp)
      simp [apply, ha, measure, setSess, sessRank] at this ⊢; omega
  | observeDone i =>
    simp only [enabled, Bool.and_eq_true, beq_iff_eq] at hen
    have ha := hen.1.1
    have := rank_setSess s i .relRead (by rw [ha]; simp)
    simp [apply, ha, measure, setSess, sessRank] at this ⊢; omega
  | readOk i =>
    simp only [enabled, beq_iff_eq] at hen
    have := rank_setSess s i .relLock (by rw [hen]; simp)
    simp [apply, hen, measure, setSess, sessRank] at this ⊢; omega
  | readFail i =>
    simp only [enabled, Bool.and_eq_true, beq_iff_eq] at hen
    have ha := hen.1
    have := rank_setSess s i .relLock (by rw [ha]; simp)
    simp [apply, ha, measure, setSess, sessRank] at this ⊢; omega
  | finishFail i =>
    simp only [enabled, Bool.and_eq_true, beq_iff_eq] at hen
    have ha := hen.1
    have := rank_setSess s i .gone (by rw [ha]; simp)
    simp [apply, ha, measure, setSess, sessRank] at this ⊢; omega
  | lockDelete i =>
    simp only [enabled, beq_iff_eq] at hen
    have := rank_setSess s i .relWrite (by rw [hen]; simp)
    simp [apply, hen, measure, setSess, sessRank] at this ⊢; omega
  | finishRel i =>
    simp only [enabled, beq_iff_eq] at hen
    have := rank_setSess s i .gone (by rw [hen]; simp)
    simp [apply, hen, measure, setSess, sessRank] at this ⊢; omega
  | beginClose => simp [enabled] at hen; rw [hen.1] at hc; simp [closing] at hc
  | closeQuit => simp [enabled] at hen; simp [apply, measure, hen, closerRank] <;> omega
  | updaterExit => simp [enabled] at hen; simp [apply, measure, hen.1]
  | updaterWaited => simp [enabled] at hen; simp [apply, measure, hen, closerRank] <;> omega
  | connOk => simp [enabled] at hen; simp [apply, measure, hen, closerRank] <;> omega
  | connFail => simp [enabled] at hen; simp [apply, measure, hen, closerRank] <;> omega
  | signalAll => simp [enabled] at hen; simp [apply, measure, hen, closerRank] <;> omega
  | waitDone => simp [enabled] at hen; simp [apply, measure, hen, closerRank] <;> omega
  | storeClosed => simp [enabled] at hen; simp [apply, measure, hen, closerRank] <;> omega
  | dbClosed => simp [enabled] at hen; simp [apply, measure, hen, closerRank] <;> omega

/-- a step taken while closing leaves the closer closing or returned -/
theorem closing_apply (s : TState) (st : TStep) (hc : closing s.closer = true) (hen : s.enabled st = true) :
    closing (s.apply st).closer = true ∨ ∃ ok, (s.apply st).closer = .returned ok := by
  cases st <;> simp [apply, setSess, enabled] at hen ⊢ <;>
    first
    | (left; exact hc)
    | (split <;> left <;> exact hc)
    | (simp [closing])
    | (rw [hen.1] at hc; simp [closing] at hc)
    | skip
  all_goals simp_all [closing]

/-! ### progress -/

theorem exists_owing (s : TState) (h : 0 < s.sess.countP owes) : ∃ i, owes (s.sessAt i) = true := by
  obtain ⟨a, ha, hp⟩ := List.countP_pos_iff.mp h
  obtain ⟨i, hi, rfl⟩ := List.mem_iff_getElem.mp ha
  refine ⟨i, ?_⟩
  unfold TState.sessAt; rw [List.getD_eq_getElem?_getD, List.getElem?_eq_getElem hi]; simpa using hp

theorem progress (s : TState) (h : TInv s) (hc : closing s.closer = true)
    (hobs : s.observes = true) : ∃ st, st.must = true ∧ s.enabled st = true := by
  cases hcl : s.closer with
  | idle => rw [hcl] at hc; simp [closing] at hc
  | returned ok => rw [hcl] at hc; simp [closing] at hc
  | locked => exact ⟨.closeQuit, rfl, by simp [enabled, hcl]⟩
  | waitUpdater =>
    have hq := h.quitOk hcl
    cases hu : s.updaterRunning with
    | true => exact ⟨.updaterExit, rfl, by simp [enabled, hu, hq]⟩
    | false => exact ⟨.updaterWaited, rfl, by simp [enabled, hu, hcl]⟩
  | closeConn => exact ⟨.connOk, rfl, by simp [enabled, hcl]⟩
  | signal => exact ⟨.signalAll, rfl, by simp [enabled, hcl]⟩
  | closeStore => exact ⟨.storeClosed, rfl, by simp [enabled, hcl]⟩
  | closeDB => exact ⟨.dbClosed, rfl, by simp [enabled, hcl]⟩
  | waitStates =>
    by_cases hz : s.wg = 0
    · exact ⟨.waitDone, rfl, by simp [enabled, hcl, hz]⟩
    · have hw := h.wgEq
      obtain ⟨i, hi⟩ := exists_owing s (by omega)
      cases ha : s.sessAt i with
      | preauth => rw [ha] at hi; cases hi
      | gone => rw [ha] at hi; cases hi
      | running =>
        have := h.sigOk hcl i ha
        exact ⟨.observeDone i, rfl, by simp only [enabled, ha, this, hobs]; rfl⟩
      | relRead => exact ⟨.readOk i, rfl, by simp [enabled, ha]⟩
      | relLock => exact ⟨.lockDelete i, rfl, by simp [enabled, ha]⟩
      | relWrite => exact ⟨.finishRel i, rfl, by simp [enabled, ha]⟩

/-! ### completion -/

theorem completes_of_measure (n : Nat) (s : TState) (hm : measure s ≤ n) (h : TInv s)
    (hc : closing s.closer = true ∨ ∃ ok, s.closer = .returned ok)
    (hobs : s.observes = true) : Completes s := by
  induction n generalizing s with
  | zero =>
    cases hc with
    | inr hr => obtain ⟨ok, hr⟩ := hr; exact Completes.done hr
    | inl hc =>
      exfalso
      revert hc hm; unfold measure; cases s.closer <;> simp [closing, closerRank]
  | succ n ih =>
    cases hc with
    | inr hr => obtain ⟨ok, hr⟩ := hr; exact Completes.done hr
    | inl hc =>
      refine Completes.step (progress s h hc hobs) ?_
      intro st hen
      have hlt := measure_apply s st h hc hen
      obtain ⟨ho, _⟩ := cfg_apply s st
      exact ih (s.apply st) (by omega) (tinv_apply s st h hen) (closing_apply s st hc hen)
        (by rw [ho]; exact hobs)

end Gluon.Conc
