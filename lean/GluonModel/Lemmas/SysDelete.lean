/- The connector's `MessageDeleted` (`ConnOp.delete`, `applyMessageDeleted`): what the index looks like afterwards and
   how the step acts on the sessions. -/
import GluonModel.Lemmas.SysHeld

namespace Gluon.Sys
open Gluon

/-- the removals of `applyMessageDeleted` / `setMessageMailboxes`, mailbox by mailbox: a mailbox that still holds `id`
    afterwards held it before and was not among the mailboxes named -/
theorem foldRem_has {id : MsgId} (l : List Nat) (idx : Index) (acc : List Update) (mb : Nat)
    (h : (((l.foldl (fun (acc : Index × List Update) m =>
        ((removeFrom acc.1 m [id]).1, acc.2 ++ (removeFrom acc.1 m [id]).2)) (idx, acc)).1).box mb).has id = true) :
    (idx.box mb).has id = true ∧ mb ∉ l := by
  induction l generalizing idx acc with
  | nil => exact ⟨h, by simp⟩
  | cons m t ih =>
    simp only [List.foldl_cons] at h
    obtain ⟨h1, h2⟩ := ih _ _ h
    simp only [removeFrom] at h1
    rw [Index.box_setBox] at h1
    split at h1
    · next hc =>
      exfalso
      simp [Box.has, Box.remove] at h1
    · next hc =>
      by_cases hm : mb = m
      · subst hm
        have hl : idx.boxes.length ≤ mb := by
          simp only [true_and, Nat.not_lt] at hc
          exact hc
        rw [Index.box_default idx hl] at h1
        simp [Box.has] at h1
      · exact ⟨h1, by simp [hm, h2]⟩

/-- **after the connector deleted a message no mailbox holds it** (every index) -/
theorem delete_box_has (idx : Index) (id : MsgId) (hid : id < idx.nextId) (mb : Nat) :
    ((connEffect idx (.delete id)).1.box mb).has id = false := by
  cases hh : ((connEffect idx (.delete id)).1.box mb).has id with
  | false => rfl
  | true =>
    exfalso
    simp only [connEffect, Nat.not_le.mpr hid, if_false] at hh
    obtain ⟨h1, h2⟩ := foldRem_has _ _ _ _ hh
    apply h2
    rw [boxesOf_mem]
    refine ⟨?_, h1⟩
    apply Classical.byContradiction
    intro hl
    rw [Index.box_default idx (by omega)] at h1
    simp [Box.has] at h1

theorem delete_view (idx : Index) (id : MsgId) (hid : id < idx.nextId) (mb : Nat) :
    id ∉ ((connEffect idx (.delete id)).1.view mb).ids := by
  rw [Index.view_ids, ← Index.box_has_iff]
  simp [delete_box_has idx id hid mb]

theorem step_conn (s : Sys) (c : ConnOp) :
    step s (.conn c) = ({ idx := (connEffect s.idx c).1, sess := s.sess.map (·.enqueue (connEffect s.idx c).2) }, {}) := by
  simp [step]

theorem step_drain_idx (s : Sys) (i k : Nat) : (step s (.drain i k)).1.idx = s.idx := by
  simp only [step]
  cases s.sess[i]? <;> rfl

end Gluon.Sys
