/-
C03 helper lemmas, part 6: from effects on the index to reference operations — a table effect is an
`updMailbox` of the reference state, a change of flag rows is an `updMessages`; plus the algebra of
these two on reference states.
-/
import GluonModel.Lemmas.ActTx

namespace Gluon.C03
open Gluon.DB Gluon.Act

/-! ### algebra of reference updates -/

theorem updMailbox_id (r : MailboxRef.State) (name : String) (f : MailboxRef.Mailbox → MailboxRef.Mailbox)
    (hf : ∀ p ∈ r.mailboxes, p.1 = name → f p.2 = p.2) : r.updMailbox name f = r := by
  cases r with
  | mk mbs msgs n =>
    simp only [MailboxRef.State.updMailbox, MailboxRef.State.mk.injEq, and_true]
    conv => rhs; rw [← List.map_id mbs]
    apply List.map_congr_left
    intro p hp
    by_cases h : p.1 = name
    · have := hf p hp h
      simp only [h, BEq.rfl, if_true, id]
      rw [← h, this]
    · simp [h]

theorem updMailbox_congr (r : MailboxRef.State) (name : String) (f g : MailboxRef.Mailbox → MailboxRef.Mailbox)
    (hf : ∀ p ∈ r.mailboxes, p.1 = name → f p.2 = g p.2) : r.updMailbox name f = r.updMailbox name g := by
  simp only [MailboxRef.State.updMailbox, MailboxRef.State.mk.injEq, and_true]
  apply List.map_congr_left
  intro p hp
  by_cases h : p.1 = name
  · simp [h, hf p hp h]
  · simp [h]

theorem updMailbox_fuse (r : MailboxRef.State) (name : String) (f g : MailboxRef.Mailbox → MailboxRef.Mailbox) :
    (r.updMailbox name f).updMailbox name g = r.updMailbox name (fun b => g (f b)) := by
  simp only [MailboxRef.State.updMailbox, List.map_map, MailboxRef.State.mk.injEq, and_true]
  apply List.map_congr_left
  intro p _
  by_cases h : p.1 = name <;> simp [h]

theorem updMailbox_comm (r : MailboxRef.State) (a b : String) (hab : a ≠ b) (f g : MailboxRef.Mailbox → MailboxRef.Mailbox) :
    (r.updMailbox a f).updMailbox b g = (r.updMailbox b g).updMailbox a f := by
  simp only [MailboxRef.State.updMailbox, List.map_map, MailboxRef.State.mk.injEq, and_true]
  apply List.map_congr_left
  intro p _
  by_cases h : p.1 = a
  · have : p.1 ≠ b := fun e => hab (h.symm.trans e)
    simp [h, this, hab]
  · by_cases h2 : p.1 = b
    · have hba : ¬ b = a := fun e => hab e.symm
      simp [h2, hba]
    · simp [h, h2]

theorem updMailbox_updMessages (r : MailboxRef.State) (name : String) (f : MailboxRef.Mailbox → MailboxRef.Mailbox)
    (msgs : List MailboxRef.MsgRef) (g : MailboxRef.Message → MailboxRef.Message) :
    (r.updMessages msgs g).updMailbox name f = (r.updMailbox name f).updMessages msgs g := rfl

/-! ### table effects -/

theorem absP_mailbox_none (P : Proj) (row : MboxRow) (h : P.table? row.id = none) : absMailbox P row = (row.name, {}) := by
  simp [absMailbox, h]

/-- an index whose table of mailbox `row` changed by `g` is, through `abs`, the reference state with the
    mailbox called `row.name` changed by `f`, if `g` is `f` on sorted tables -/
theorem abs_TabEff (s s' : State) (hInv : Inv s) (row : MboxRow) (hrow : row ∈ s.db.mailboxes)
    (g : MTable → MTable) (f : MailboxRef.Mailbox → MailboxRef.Mailbox) (h : TabEff row.id g s s')
    (hg : ∀ t, SortedT t → SortedT (g t) ∧ absTable (g t) = f (absTable t))
    (hnone : s.db.table? row.id = none → f {} = {}) :
    Inv s' ∧ abs s' = (abs s).updMailbox row.name f := by
  obtain ⟨⟨h1, h2, h3, _⟩, hsome, hno⟩ := h
  cases ht : s.db.table? row.id with
  | none =>
    have hp := hno ht
    refine ⟨by unfold Inv; rw [hp]; exact hInv, ?_⟩
    unfold abs
    rw [hp, h1, h2]
    symm
    apply updMailbox_id
    intro p hp' hname
    simp only [absP, List.mem_map] at hp'
    obtain ⟨m, hm, rfl⟩ := hp'
    have hmr : m = row := nodup_map_inj (·.name) _ hInv.names m hm row hrow hname
    subst hmr
    rw [absP_mailbox_none _ _ (by simpa using ht)]
    exact hnone ht
  | some t =>
    have hp := hsome t ht
    have hst : SortedT t := hInv.sorted row.id t (by simpa using ht)
    obtain ⟨hs', ha⟩ := hg t hst
    refine ⟨by unfold Inv; rw [hp]; exact PInv.setTable hInv row.id _ hs', ?_⟩
    unfold abs
    rw [hp, h1, h2]
    unfold absP
    simp only [MailboxRef.State.updMailbox, MailboxRef.State.mk.injEq, and_true]
    refine ⟨?_, rfl⟩
    exact mailboxes_setTable (proj s.db) hInv row hrow t (g t) (by simpa using ht) f ha

/-! ### flag rows -/

/-- an index that differs only in the flag rows is, through `abs`, the reference state with the flag sets of
    the named messages changed by `F`, if that is what happened to every message row -/
theorem abs_flags (s s' : State) (h1 : s'.store = s.store) (h2 : s'.nextId = s.nextId) (hsame : SameButFlags s.db s'.db)
    (msgs : List MessageId) (F : MailboxRef.FlagSet → MailboxRef.FlagSet)
    (hfl : ∀ r ∈ s.db.messages, MailboxRef.canon (flagsOf s'.db.msgFlags r.id) =
      if msgs.contains r.id then F (MailboxRef.canon (flagsOf s.db.msgFlags r.id)) else MailboxRef.canon (flagsOf s.db.msgFlags r.id)) :
    (Inv s → Inv s') ∧ abs s' = (abs s).updMessages msgs fun m => { m with flags := F m.flags } := by
  obtain ⟨e1, e2, e3, _⟩ := hsame
  have htab : s'.db.table? = s.db.table? := by funext k; unfold DB.table?; rw [e2]
  constructor
  · intro hInv
    unfold Inv proj at *
    rw [e1, htab]
    exact ⟨hInv.names, hInv.ids, hInv.sorted⟩
  · unfold abs absP proj
    simp only [MailboxRef.State.updMessages, MailboxRef.State.mk.injEq]
    refine ⟨?_, ?_, h2⟩
    · rw [e1]
      apply List.map_congr_left
      intro m _
      simp only [absMailbox, htab]
    · rw [e3, List.map_map]
      apply List.map_congr_left
      intro r hr
      simp only [Function.comp, absMessage, h1]
      rw [hfl r hr]
      by_cases hc : r.id ∈ msgs <;> simp [hc]

end Gluon.C03
