/-
Helper lemmas for C20, part 1: name-keyed mailbox list, association lists, the hash map
(`hmInsert` / `hmErase`).
-/
import GluonModel.Model.Append

namespace Gluon.Append

/-! ### association lists -/

theorem lookup_cons' {α} (k i : Nat) (v : α) (es : List (Nat × α)) :
    ((k, v) :: es).lookup i = if i = k then some v else es.lookup i := by
  rw [List.lookup_cons]
  by_cases h : i = k
  · subst h; simp
  · have : (i == k) = false := by simpa using h
    rw [this]; simp [h]

theorem lookup_cons_self {α} (k : Nat) (v : α) (es : List (Nat × α)) : ((k, v) :: es).lookup k = some v := by
  simp [lookup_cons']

theorem lookup_cons_ne {α} {k i : Nat} (v : α) (es : List (Nat × α)) (h : i ≠ k) :
    ((k, v) :: es).lookup i = es.lookup i := by
  simp [lookup_cons', h]

theorem lookup_filter_ne {α} (es : List (Nat × α)) (k i : Nat) :
    (es.filter (·.1 != k)).lookup i = if i = k then none else es.lookup i := by
  induction es with
  | nil => simp
  | cons e es ih =>
    obtain ⟨a, b⟩ := e
    rw [List.filter_cons]
    by_cases hak : a = k
    · subst hak
      simp only [bne_self_eq_false, Bool.false_eq_true, ↓reduceIte, ih, lookup_cons']
      by_cases hi : i = a <;> simp [hi]
    · have : (a != k) = true := by simpa using hak
      simp only [this, ↓reduceIte, lookup_cons', ih]
      by_cases hi : i = k
      · subst hi
        have : i ≠ a := fun e => hak e.symm
        simp [this]
      · simp [hi]

theorem lookup_some_mem {α} {es : List (Nat × α)} {i : Nat} {v : α} (h : es.lookup i = some v) : (i, v) ∈ es := by
  induction es with
  | nil => simp at h
  | cons e es ih =>
    obtain ⟨a, b⟩ := e
    rw [lookup_cons'] at h
    by_cases hia : i = a
    · subst hia; simp at h; simp [h]
    · simp [hia] at h; exact List.mem_cons_of_mem _ (ih h)

theorem find?_cons' {α} (p : α → Bool) (a : α) (as : List α) :
    (a :: as).find? p = if p a then some a else as.find? p := by
  rw [List.find?_cons]; cases p a <;> simp

/-! ### mailboxes by name -/

theorem getBox_updBoxes_self (bs : List Mbox) (n : String) (f : Mbox → Mbox) (hf : ∀ b, (f b).name = b.name) :
    (updBoxes bs n f).find? (·.name == n) = (bs.find? (·.name == n)).map f := by
  induction bs with
  | nil => simp [updBoxes]
  | cons b r ih =>
    by_cases hb : b.name = n
    · simp [updBoxes, hb, find?_cons', hf]
    · simp [updBoxes, hb, find?_cons', ih]

theorem getBox_updBox_self (db : Db) (n : String) (f : Mbox → Mbox) (hf : ∀ b, (f b).name = b.name) :
    getBox (updBox db n f) n = (getBox db n).map f := by
  simp [getBox, updBox, getBox_updBoxes_self _ _ _ hf]

theorem getBox_updBoxes_ne (bs : List Mbox) (n m : String) (f : Mbox → Mbox) (hf : ∀ b, (f b).name = b.name) (h : m ≠ n) :
    (updBoxes bs n f).find? (·.name == m) = bs.find? (·.name == m) := by
  induction bs with
  | nil => simp [updBoxes]
  | cons b r ih =>
    by_cases hb : b.name = n
    · have h1 : ¬ b.name = m := by rw [hb]; exact fun e => h e.symm
      simp [updBoxes, hb, find?_cons', hf, Ne.symm h]
    · by_cases hm : b.name = m
      · simp [updBoxes, hb, find?_cons', hm]
        subst hm; simp [hb, find?_cons']
      · simp [updBoxes, hb, find?_cons', hm, ih]

theorem getBox_updBox_ne (db : Db) (n m : String) (f : Mbox → Mbox) (hf : ∀ b, (f b).name = b.name) (h : m ≠ n) :
    getBox (updBox db n f) m = getBox db m := by
  simp [getBox, updBox, getBox_updBoxes_ne _ _ _ _ hf h]

theorem getBox_rows (db : Db) (rows : List (Nat × Row)) (m : String) : getBox { db with rows := rows } m = getBox db m := rfl

theorem getBox_name {db : Db} {n : String} {b : Mbox} (h : getBox db n = some b) : b.name = n := by
  have := List.find?_some h
  simpa using this

theorem remove_name (b : Mbox) (ids : List Nat) : (b.remove ids).name = b.name := rfl

theorem add_name (b : Mbox) (ids : List Nat) : (b.add ids).1.name = b.name := by
  induction ids generalizing b with
  | nil => rfl
  | cons i r ih => simp [Mbox.add, ih]

/-- `Mbox.add`: the old messages stay, the new ones get the announced UIDs -/
theorem add_msgs (b : Mbox) (ids : List Nat) :
    (b.add ids).1.msgs = b.msgs ++ (b.add ids).2.zip ids ∧ (b.add ids).2.length = ids.length := by
  induction ids generalizing b with
  | nil => simp [Mbox.add]
  | cons i r ih =>
    have := ih { b with msgs := b.msgs ++ [(b.uidNext, i)], uidNext := b.uidNext + 1 }
    simp [Mbox.add, this.1, this.2]

/-! ### recovery mailbox content under database updates -/

theorem recMsgs_db {s s' : St} (h : s'.db = s.db) : recMsgs s' = recMsgs s := by simp [recMsgs, h]

theorem recMsgs_boxes {s s' : St} (h : s'.db.boxes = s.db.boxes) : recMsgs s' = recMsgs s := by
  simp [recMsgs, getBox, h]

theorem recMsgs_updBoxes_ne {s s' : St} (n : String) (f : Mbox → Mbox) (hf : ∀ b, (f b).name = b.name)
    (hn : n ≠ recName) (h : s'.db.boxes = updBoxes s.db.boxes n f) : recMsgs s' = recMsgs s := by
  simp [recMsgs, getBox, h, getBox_updBoxes_ne _ n recName f hf (Ne.symm hn)]

/-- the mailbox names, in table order -/
def names (s : St) : List String := s.db.boxes.map (·.name)

theorem updBoxes_names (bs : List Mbox) (n : String) (f : Mbox → Mbox) (hf : ∀ b, (f b).name = b.name) :
    (updBoxes bs n f).map (·.name) = bs.map (·.name) := by
  induction bs with
  | nil => simp [updBoxes]
  | cons b r ih =>
    by_cases hb : b.name = n
    · simp [updBoxes, hb, hf]
    · simp [updBoxes, hb, ih]

theorem names_boxes {s s' : St} (h : s'.db.boxes = s.db.boxes) : names s' = names s := by simp [names, h]

theorem names_upd {s s' : St} (n : String) (f : Mbox → Mbox) (hf : ∀ b, (f b).name = b.name)
    (h : s'.db.boxes = updBoxes s.db.boxes n f) : names s' = names s := by
  simp [names, h, updBoxes_names _ _ _ hf]

/-! ### the hash map -/

theorem hmErase1_lookup (s : St) (k i : Nat) :
    (hmErase1 s k).idToHash.lookup i = if i = k then none else s.idToHash.lookup i := by
  unfold hmErase1
  split <;> simp [lookup_filter_ne]

theorem hmErase1_hashes (s : St) (k h : Nat) :
    h ∈ (hmErase1 s k).hashes ↔ h ∈ s.hashes ∧ s.idToHash.lookup k ≠ some h := by
  unfold hmErase1
  split
  · next v hv =>
    simp only [List.mem_filter, hv]
    constructor
    · rintro ⟨h1, h2⟩
      refine ⟨h1, ?_⟩
      intro e
      simp at e
      subst e
      simp at h2
    · rintro ⟨h1, h2⟩
      refine ⟨h1, ?_⟩
      simp
      intro e
      subst e
      exact h2 rfl
  · next hv => simp [hv]

theorem hmErase1_fields (s : St) (k : Nat) :
    (hmErase1 s k).db = s.db ∧ (hmErase1 s k).store = s.store ∧ (hmErase1 s k).nextId = s.nextId ∧
    (hmErase1 s k).staleHash = s.staleHash ∧ (hmErase1 s k).lostHash = s.lostHash ∧
    (hmErase1 s k).txIns = s.txIns ∧ (hmErase1 s k).txErase = s.txErase ∧ (hmErase1 s k).sc = s.sc ∧
    (hmErase1 s k).lim = s.lim ∧ (hmErase1 s k).remote = s.remote ∧ (hmErase1 s k).nextRid = s.nextRid := by
  unfold hmErase1
  split <;> simp

theorem hmErase_fields (s : St) (ids : List Nat) :
    (hmErase s ids).db = s.db ∧ (hmErase s ids).store = s.store ∧ (hmErase s ids).nextId = s.nextId ∧
    (hmErase s ids).staleHash = s.staleHash ∧ (hmErase s ids).lostHash = s.lostHash ∧
    (hmErase s ids).txIns = s.txIns ∧ (hmErase s ids).txErase = s.txErase ∧ (hmErase s ids).sc = s.sc ∧
    (hmErase s ids).lim = s.lim ∧ (hmErase s ids).remote = s.remote ∧ (hmErase s ids).nextRid = s.nextRid := by
  induction ids generalizing s with
  | nil => simp [hmErase]
  | cons i r ih =>
    have h1 := hmErase1_fields s i
    have h2 := ih (hmErase1 s i)
    simp only [hmErase]
    refine ⟨h2.1.trans h1.1, h2.2.1.trans h1.2.1, h2.2.2.1.trans h1.2.2.1, h2.2.2.2.1.trans h1.2.2.2.1,
      h2.2.2.2.2.1.trans h1.2.2.2.2.1, h2.2.2.2.2.2.1.trans h1.2.2.2.2.2.1, h2.2.2.2.2.2.2.1.trans h1.2.2.2.2.2.2.1,
      h2.2.2.2.2.2.2.2.1.trans h1.2.2.2.2.2.2.2.1, h2.2.2.2.2.2.2.2.2.1.trans h1.2.2.2.2.2.2.2.2.1,
      h2.2.2.2.2.2.2.2.2.2.1.trans h1.2.2.2.2.2.2.2.2.2.1, h2.2.2.2.2.2.2.2.2.2.2.trans h1.2.2.2.2.2.2.2.2.2.2⟩

theorem hmErase_lookup (s : St) (ids : List Nat) (i : Nat) :
    (hmErase s ids).idToHash.lookup i = if i ∈ ids then none else s.idToHash.lookup i := by
  induction ids generalizing s with
  | nil => simp [hmErase]
  | cons k r ih =>
    simp only [hmErase, ih, hmErase1_lookup, List.mem_cons]
    by_cases hr : i ∈ r <;> by_cases hk : i = k <;> simp [hr, hk]

theorem hmErase_hashes (s : St) (ids : List Nat) (h : Nat) :
    h ∈ (hmErase s ids).hashes ↔ h ∈ s.hashes ∧ ∀ i ∈ ids, s.idToHash.lookup i ≠ some h := by
  induction ids generalizing s with
  | nil => simp [hmErase]
  | cons k r ih =>
    simp only [hmErase, ih, hmErase1_hashes, hmErase1_lookup, List.mem_cons, forall_eq_or_imp]
    constructor
    · rintro ⟨⟨h1, h2⟩, h3⟩
      refine ⟨h1, h2, fun i hi => ?_⟩
      have := h3 i hi
      by_cases hik : i = k
      · subst hik; exact h2
      · simpa [hik] using this
    · rintro ⟨h1, h2, h3⟩
      refine ⟨⟨h1, h2⟩, fun i hi => ?_⟩
      by_cases hik : i = k
      · simp [hik]
      · simpa [hik] using h3 i hi

end Gluon.Append
