/-
Helper lemmas for C20, part 6: `newUser` rebuilds the hash map from the recovery mailbox — the
invariant holds again afterwards, and a stale hash (#19) is gone.
-/
import GluonModel.Lemmas.AppendCmd

namespace Gluon.Append

theorem hmInsert_fields (s : St) (id h : Nat) :
    (hmInsert s id h).2.db = s.db ∧ (hmInsert s id h).2.store = s.store ∧ (hmInsert s id h).2.nextId = s.nextId ∧
    (hmInsert s id h).2.staleHash = s.staleHash ∧ (hmInsert s id h).2.lostHash = s.lostHash := by
  unfold hmInsert; split <;> simp

theorem rebuild_fields (H : Nat → Nat) (store : List (Nat × Lit)) (ms : List (Nat × Nat)) :
    ∀ a : St, (rebuild H store ms a).db = a.db ∧ (rebuild H store ms a).store = a.store ∧
      (rebuild H store ms a).nextId = a.nextId ∧ (rebuild H store ms a).staleHash = a.staleHash ∧
      (rebuild H store ms a).lostHash = a.lostHash := by
  induction ms with
  | nil => intro a; simp [rebuild]
  | cons p r ih =>
    intro a
    obtain ⟨u, id⟩ := p
    unfold rebuild
    split
    · exact ih a
    · next l _ =>
      split
      · have h1 := hmInsert_fields a id (H l.hv)
        have h2 := ih (hmInsert a id (H l.hv)).2
        exact ⟨h2.1.trans h1.1, h2.2.1.trans h1.2.1, h2.2.2.1.trans h1.2.2.1, h2.2.2.2.1.trans h1.2.2.2.1,
          h2.2.2.2.2.trans h1.2.2.2.2⟩
      · exact ih a

/-- one `Insert` keeps the map invariant when the ID is not yet a key -/
theorem hmInsert_map {a : St} {b : Nat} (id h : Nat) (hm : MapInv a.idToHash a.hashes b) (hid : a.idToHash.lookup id = none)
    (hb : id < b) : MapInv (hmInsert a id h).2.idToHash (hmInsert a id h).2.hashes b := by
  unfold hmInsert
  split
  · exact hm
  · next hc => exact hm.insert id h hid hb (by simpa using hc)

theorem hmInsert_lookup_ne (a : St) (id h i : Nat) (hi : i ≠ id) :
    (hmInsert a id h).2.idToHash.lookup i = a.idToHash.lookup i := by
  unfold hmInsert
  split
  · rfl
  · simp [lookup_cons_ne _ _ hi]

theorem rebuild_map (H : Nat → Nat) (store : List (Nat × Lit)) (b : Nat) (ms : List (Nat × Nat)) :
    ∀ a : St, (ms.map (·.2)).Nodup → (∀ p ∈ ms, a.idToHash.lookup p.2 = none) → (∀ p ∈ ms, p.2 < b) →
      MapInv a.idToHash a.hashes b →
      MapInv (rebuild H store ms a).idToHash (rebuild H store ms a).hashes b := by
  induction ms with
  | nil => intro a _ _ _ h; simpa [rebuild] using h
  | cons p r ih =>
    intro a hnd hk hb hm
    obtain ⟨u, id⟩ := p
    simp only [List.map_cons, List.nodup_cons] at hnd
    have hkr : ∀ p ∈ r, a.idToHash.lookup p.2 = none := fun p hp => hk p (List.mem_cons_of_mem _ hp)
    have hbr : ∀ p ∈ r, p.2 < b := fun p hp => hb p (List.mem_cons_of_mem _ hp)
    unfold rebuild
    split
    · exact ih a hnd.2 hkr hbr hm
    · next l _ =>
      split
      · refine ih _ hnd.2 ?_ hbr (hmInsert_map id _ hm (hk (u, id) List.mem_cons_self) (hb (u, id) List.mem_cons_self))
        intro p hp
        have : p.2 ≠ id := by
          intro e; exact hnd.1 (e ▸ List.mem_map_of_mem hp)
        rw [hmInsert_lookup_ne _ _ _ _ this]; exact hkr p hp
      · exact ih a hnd.2 hkr hbr hm

/-- every entry of the rebuilt map comes from a stored, hashable message of the list -/
theorem rebuild_hashed (H : Nat → Nat) (store : List (Nat × Lit)) (L : List (Nat × Nat)) (ms : List (Nat × Nat)) :
    ∀ a : St, (∀ p ∈ ms, p ∈ L) →
      (∀ i h, a.idToHash.lookup i = some h → ∃ u l, (u, i) ∈ L ∧ store.lookup i = some l ∧ l.hashOk = true ∧ H l.hv = h) →
      ∀ i h, (rebuild H store ms a).idToHash.lookup i = some h →
        ∃ u l, (u, i) ∈ L ∧ store.lookup i = some l ∧ l.hashOk = true ∧ H l.hv = h := by
  induction ms with
  | nil => intro a _ h; simpa [rebuild] using h
  | cons p r ih =>
    intro a hL ha
    obtain ⟨u, id⟩ := p
    have hLr : ∀ p ∈ r, p ∈ L := fun p hp => hL p (List.mem_cons_of_mem _ hp)
    unfold rebuild
    split
    · exact ih a hLr ha
    · next l hl =>
      split
      · next hok =>
        refine ih _ hLr ?_
        intro i h hi
        unfold hmInsert at hi
        split at hi
        · exact ha i h hi
        · simp only at hi
          rw [lookup_cons'] at hi
          by_cases e : i = id
          · subst e; simp at hi
            exact ⟨u, l, hL _ List.mem_cons_self, hl, hok, hi⟩
          · simp [e] at hi; exact ha i h hi
      · exact ih a hLr ha

theorem rebuild_mono (H : Nat → Nat) (store : List (Nat × Lit)) (ms : List (Nat × Nat)) :
    ∀ a : St, (∀ p ∈ ms, a.idToHash.lookup p.2 = none) → (ms.map (·.2)).Nodup →
      ∀ i h, a.idToHash.lookup i = some h → (rebuild H store ms a).idToHash.lookup i = some h := by
  induction ms with
  | nil => intro a _ _ i h hi; simpa [rebuild] using hi
  | cons p r ih =>
    intro a hk hnd i h hi
    obtain ⟨u, id⟩ := p
    simp only [List.map_cons, List.nodup_cons] at hnd
    have hkr : ∀ p ∈ r, a.idToHash.lookup p.2 = none := fun p hp => hk p (List.mem_cons_of_mem _ hp)
    unfold rebuild
    split
    · exact ih a hkr hnd.2 i h hi
    · next l _ =>
      split
      · have hne : i ≠ id := by
          intro e; subst e
          rw [hk (u, i) List.mem_cons_self] at hi; simp at hi
        refine ih _ ?_ hnd.2 i h (by rw [hmInsert_lookup_ne _ _ _ _ hne]; exact hi)
        intro p hp
        have : p.2 ≠ id := by
          intro e; exact hnd.1 (e ▸ List.mem_map_of_mem hp)
        rw [hmInsert_lookup_ne _ _ _ _ this]; exact hkr p hp
      · exact ih a hkr hnd.2 i h hi

/-- with pairwise distinct hashes every hashable message of the list gets its entry -/
theorem rebuild_covered (H : Nat → Nat) (store : List (Nat × Lit)) (ms : List (Nat × Nat)) :
    ∀ a : St, (ms.map (·.2)).Nodup → (∀ p ∈ ms, a.idToHash.lookup p.2 = none) →
      (∀ p ∈ ms, ∀ l, store.lookup p.2 = some l → l.hashOk = true → H l.hv ∉ a.hashes) →
      (∀ p ∈ ms, ∀ q ∈ ms, ∀ lp lq, store.lookup p.2 = some lp → store.lookup q.2 = some lq → lp.hashOk = true →
        lq.hashOk = true → H lp.hv = H lq.hv → p.2 = q.2) →
      ∀ p ∈ ms, ∀ l, store.lookup p.2 = some l → l.hashOk = true →
        (rebuild H store ms a).idToHash.lookup p.2 = some (H l.hv) := by
  induction ms with
  | nil => intro a _ _ _ _ p hp; simp at hp
  | cons q r ih =>
    intro a hnd hk hd1 hd2 p hp l hl hok
    obtain ⟨u, id⟩ := q
    simp only [List.map_cons, List.nodup_cons] at hnd
    have hkr : ∀ p ∈ r, a.idToHash.lookup p.2 = none := fun p hp => hk p (List.mem_cons_of_mem _ hp)
    have hd2r : ∀ p ∈ r, ∀ q ∈ r, ∀ lp lq, store.lookup p.2 = some lp → store.lookup q.2 = some lq → lp.hashOk = true →
        lq.hashOk = true → H lp.hv = H lq.hv → p.2 = q.2 :=
      fun p hp q hq => hd2 p (List.mem_cons_of_mem _ hp) q (List.mem_cons_of_mem _ hq)
    have hne : ∀ p ∈ r, p.2 ≠ id := fun p hp e => hnd.1 (e ▸ List.mem_map_of_mem hp)
    unfold rebuild
    split
    · next hnone =>
      rcases List.mem_cons.mp hp with e | hp'
      · subst e; simp only at hl; rw [hnone] at hl; simp at hl
      · exact ih a hnd.2 hkr (fun p hp => hd1 p (List.mem_cons_of_mem _ hp)) hd2r p hp' l hl hok
    · next l0 hl0 =>
      split
      · next hok0 =>
        have hnotin : H l0.hv ∉ a.hashes := hd1 (u, id) List.mem_cons_self l0 hl0 hok0
        have hins : (hmInsert a id (H l0.hv)).2.idToHash = (id, H l0.hv) :: a.idToHash ∧
            (hmInsert a id (H l0.hv)).2.hashes = H l0.hv :: a.hashes := by
          unfold hmInsert
          simp [hnotin]
        have hk' : ∀ p ∈ r, (hmInsert a id (H l0.hv)).2.idToHash.lookup p.2 = none := by
          intro p hp
          rw [hmInsert_lookup_ne _ _ _ _ (hne p hp)]; exact hkr p hp
        rcases List.mem_cons.mp hp with e | hp'
        · subst e
          simp only at hl
          rw [hl0] at hl; simp at hl; subst hl
          exact rebuild_mono H store r _ hk' hnd.2 id _ (by rw [hins.1, lookup_cons_self])
        · refine ih _ hnd.2 hk' ?_ hd2r p hp' l hl hok
          intro q hq lq hlq hokq
          rw [hins.2]
          intro hmem
          rcases List.mem_cons.mp hmem with e | e
          · exact hne q hq (hd2 q (List.mem_cons_of_mem _ hq) (u, id) List.mem_cons_self lq l0 hlq hl0 hokq hok0 e)
          · exact hd1 q (List.mem_cons_of_mem _ hq) lq hlq hokq e
      · next hnok =>
        rcases List.mem_cons.mp hp with e | hp'
        · subst e; simp only at hl; rw [hl0] at hl; simp at hl; subst hl; exact absurd hok hnok
        · exact ih a hnd.2 hkr (fun p hp => hd1 p (List.mem_cons_of_mem _ hp)) hd2r p hp' l hl hok

theorem restart_inv {H : Nat → Nat} (s : St) (h : RecInv H s) : RecInv H (restart H s) := by
  unfold restart
  have hf := rebuild_fields H s.store (recMsgs s) { s with idToHash := [], hashes := [], staleHash := false }
  have hrec : recMsgs (rebuild H s.store (recMsgs s) { s with idToHash := [], hashes := [], staleHash := false }) = recMsgs s :=
    recMsgs_db hf.1
  have hk0 : ∀ p ∈ recMsgs s, ({ s with idToHash := [], hashes := [], staleHash := false } : St).idToHash.lookup p.2 = none := by
    intro p _; rfl
  refine ⟨?_, ?_, ?_, ?_, ?_, ?_⟩
  · rw [hf.2.2.1]
    exact rebuild_map H s.store s.nextId (recMsgs s) _ h.nodup hk0 h.fresh
      ⟨fun i x hx => by simp at hx, fun x hx => by simp at hx, fun i x hx => by simp at hx, fun i j x hx => by simp at hx⟩
  · rw [hrec, hf.2.2.1]; exact h.fresh
  · rw [hrec, hf.2.1]; exact h.stored
  · intro _
    rw [hrec, hf.2.1]
    exact rebuild_hashed H s.store (recMsgs s) (recMsgs s) _ (fun p hp => hp) (fun i x hx => by simp at hx)
  · rw [hf.2.2.2.2, hrec, hf.2.1]
    intro hl
    refine rebuild_covered H s.store (recMsgs s) _ h.nodup hk0 (fun p _ l _ _ => by simp) ?_
    intro p hp q hq lp lq hlp hlq hokp hokq e
    have h1 := h.covered hl p hp lp hlp hokp
    have h2 := h.covered hl q hq lq hlq hokq
    rw [e] at h1
    exact h.map.inj _ _ _ h1 h2
  · rw [hrec]; exact h.nodup

end Gluon.Append
