/- Lemmas for C15: the SEARCH loop as "evaluate every message, pick the numbers", the Boolean structure
   of the closures, and the conditions under which a closure computes the RFC predicate. -/
import GluonModel.Model.Search
import GluonModel.Spec.SearchSpec

namespace Gluon
namespace Search
open SearchSpec

/-! ### bytes -/

theorem foldByte_eq_lowerByte (c : UInt8) : foldByte c = lowerByte c := rfl

theorem isPrefixOf_lower (k h : Bytes) : (lower k).isPrefixOf (lower h) = prefixCI k h := by
  induction k generalizing h with
  | nil => simp [lower, prefixCI]
  | cons a as ih =>
    cases h with
    | nil => simp [lower, prefixCI]
    | cons b bs =>
      have := ih bs
      simp only [lower] at this
      simp [lower, prefixCI, eqCI, foldByte_eq_lowerByte, List.isPrefixOf, this]

theorem lower_isEmpty (k : Bytes) : (lower k).isEmpty = k.isEmpty := by
  cases k <;> simp [lower]

/-- the model's `Contains(ToLower(hay), ToLower(key))` is the spec's case-insensitive substring test -/
theorem contains_lower (hay k : Bytes) : contains (lower hay) (lower k) = containsCI hay k := by
  induction hay with
  | nil => simp [lower, contains, containsCI]
  | cons c tl ih =>
    have h1 := isPrefixOf_lower k (c :: tl)
    simp only [lower, List.map_cons] at h1 ih
    simp only [lower, List.map_cons, contains, containsCI, h1, ih]

theorem lower_eq_iff_nameEq (a b : Bytes) : (lower a == lower b) = nameEq a b := by
  induction a generalizing b with
  | nil => cases b <;> simp [lower, nameEq, prefixCI]
  | cons x xs ih =>
    cases b with
    | nil => simp [lower, nameEq]
    | cons y ys =>
      have := ih ys
      simp only [lower, nameEq] at this
      simp only [lower, List.map_cons, nameEq, List.length_cons, prefixCI, eqCI, foldByte_eq_lowerByte]
      rw [Bool.eq_iff_iff]
      rw [Bool.eq_iff_iff] at this
      simp only [beq_iff_eq, Bool.and_eq_true, List.cons.injEq, Nat.add_right_cancel_iff] at this ⊢
      constructor
      · rintro ⟨h1, h2⟩
        have := this.mp h2
        exact ⟨this.1, h1, this.2⟩
      · rintro ⟨h1, h2, h3⟩
        exact ⟨h2, this.mpr ⟨h1, h3⟩⟩

/-- `prefixCI`, declaratively: `hay` starts with a block that equals `key` up to ASCII case -/
theorem prefixCI_iff (k h : Bytes) :
    prefixCI k h = true ↔ ∃ mid post, h = mid ++ post ∧ mid.map foldByte = k.map foldByte := by
  induction k generalizing h with
  | nil => simp [prefixCI]
  | cons a as ih =>
    cases h with
    | nil => simp [prefixCI]
    | cons b bs =>
      simp only [prefixCI, Bool.and_eq_true, eqCI, beq_iff_eq, ih bs]
      constructor
      · rintro ⟨hab, mid, post, rfl, hm⟩
        exact ⟨b :: mid, post, rfl, by simp [hab, hm]⟩
      · rintro ⟨mid, post, hh, hm⟩
        cases mid with
        | nil => simp at hm
        | cons c mid =>
          simp only [List.cons_append, List.cons.injEq] at hh
          simp only [List.map_cons, List.cons.injEq] at hm
          obtain ⟨rfl, rfl⟩ := hh
          exact ⟨hm.1.symm, mid, post, rfl, hm.2⟩

/-- **case-insensitive substring, declaratively**: somewhere in `hay` there is a block that equals `key` up
    to ASCII case -/
theorem containsCI_iff (hay k : Bytes) :
    containsCI hay k = true ↔ ∃ pre mid post, hay = pre ++ mid ++ post ∧ mid.map foldByte = k.map foldByte := by
  induction hay with
  | nil =>
    simp only [containsCI, List.isEmpty_iff]
    constructor
    · rintro rfl; exact ⟨[], [], [], rfl, rfl⟩
    · rintro ⟨pre, mid, post, hh, hm⟩
      have : mid = [] := by
        have := congrArg List.length hh
        simp at this
        exact List.eq_nil_of_length_eq_zero (by omega)
      subst this
      cases k with
      | nil => rfl
      | cons a as => simp at hm
  | cons c tl ih =>
    simp only [containsCI, Bool.or_eq_true, prefixCI_iff, ih]
    constructor
    · rintro (⟨mid, post, hh, hm⟩ | ⟨pre, mid, post, hh, hm⟩)
      · exact ⟨[], mid, post, by simpa using hh, hm⟩
      · exact ⟨c :: pre, mid, post, by simp [hh], hm⟩
    · rintro ⟨pre, mid, post, hh, hm⟩
      cases pre with
      | nil => exact Or.inl ⟨mid, post, by simpa using hh, hm⟩
      | cons p pre =>
        simp only [List.cons_append, List.cons.injEq] at hh
        exact Or.inr ⟨pre, mid, post, hh.2, hm⟩

/-! ### picking numbers -/

/-- the numbers whose flag is set -/
def pick : List Nat → List Bool → List Nat
  | n :: ns, b :: bs => if b then n :: pick ns bs else pick ns bs
  | _, _ => []

theorem pick_sublist (ns : List Nat) (bs : List Bool) : (pick ns bs).Sublist ns := by
  induction ns generalizing bs with
  | nil => simp [pick]
  | cons n ns ih =>
    cases bs with
    | nil => simp [pick]
    | cons b bs =>
      simp only [pick]
      split
      · exact (ih bs).cons_cons n
      · exact (ih bs).cons n

theorem mem_pick_mem {ns : List Nat} {bs : List Bool} {x : Nat} (h : x ∈ pick ns bs) : x ∈ ns :=
  (pick_sublist ns bs).subset h

theorem pick_map_filter {α : Type} (l : List α) (f : α → Nat) (p : α → Bool) :
    pick (l.map f) (l.map p) = (l.filter p).map f := by
  induction l with
  | nil => simp [pick]
  | cons a l ih =>
    simp only [List.map_cons, pick, List.filter_cons]
    split <;> simp [ih]

theorem pick_not (ns : List Nat) (bs : List Bool) (hn : ns.Nodup) (hl : bs.length = ns.length) :
    pick ns (bs.map (!·)) = ns.filter (fun n => !(pick ns bs).contains n) := by
  induction ns generalizing bs with
  | nil => simp [pick]
  | cons n ns ih =>
    cases bs with
    | nil => simp at hl
    | cons b bs =>
      have hn' : ns.Nodup := (List.nodup_cons.mp hn).2
      have hnot : n ∉ ns := (List.nodup_cons.mp hn).1
      have hl' : bs.length = ns.length := by simpa using hl
      have hnp : n ∉ pick ns bs := fun h => hnot (mem_pick_mem h)
      have ih' := ih bs hn' hl'
      have hcongr : ∀ (extra : List Nat), (∀ x ∈ extra, x = n) →
          ns.filter (fun x => !(extra ++ pick ns bs).contains x) = ns.filter (fun x => !(pick ns bs).contains x) := by
        intro extra hex
        apply List.filter_congr
        intro x hx
        have hxn : x ≠ n := fun h => hnot (h ▸ hx)
        have : x ∉ extra := fun h => hxn (hex x h)
        simp [this]
      cases b with
      | true =>
        simp only [List.map_cons, Bool.not_true, pick, if_true, List.filter_cons]
        have : (!(n :: pick ns bs).contains n) = false := by simp
        simp only [this, Bool.false_eq_true, if_false]
        rw [ih']
        exact (hcongr [n] (by simp)).symm
      | false =>
        simp only [List.map_cons, Bool.not_false, pick, if_true, List.filter_cons, Bool.false_eq_true, if_false]
        have : (!(pick ns bs).contains n) = true := by simp [hnp]
        simp only [this, if_true]
        rw [ih']

theorem pick_zipWith (op : Bool → Bool → Bool) (ns : List Nat) (as bs : List Bool) (hn : ns.Nodup)
    (ha : as.length = ns.length) (hb : bs.length = ns.length) :
    pick ns (List.zipWith op as bs) =
      ns.filter (fun n => op ((pick ns as).contains n) ((pick ns bs).contains n)) := by
  induction ns generalizing as bs with
  | nil => simp [pick]
  | cons n ns ih =>
    cases as with
    | nil => simp at ha
    | cons a as =>
      cases bs with
      | nil => simp at hb
      | cons b bs =>
        have hn' : ns.Nodup := (List.nodup_cons.mp hn).2
        have hnot : n ∉ ns := (List.nodup_cons.mp hn).1
        have ha' : as.length = ns.length := by simpa using ha
        have hb' : bs.length = ns.length := by simpa using hb
        have hpa : n ∉ pick ns as := fun h => hnot (mem_pick_mem h)
        have hpb : n ∉ pick ns bs := fun h => hnot (mem_pick_mem h)
        have ih' := ih as bs hn' ha' hb'
        have hhead : op ((pick (n :: ns) (a :: as)).contains n) ((pick (n :: ns) (b :: bs)).contains n) = op a b := by
          cases a <;> cases b <;> simp [pick, hpa, hpb]
        have htail : ns.filter (fun x => op ((pick (n :: ns) (a :: as)).contains x) ((pick (n :: ns) (b :: bs)).contains x))
            = ns.filter (fun x => op ((pick ns as).contains x) ((pick ns bs).contains x)) := by
          apply List.filter_congr
          intro x hx
          have hxn : x ≠ n := fun h => hnot (h ▸ hx)
          cases a <;> cases b <;> simp [pick, hxn]
        simp only [List.zipWith_cons_cons, List.filter_cons, hhead, htail]
        simp only [pick]
        split <;> simp [ih']

/-! ### the loop -/

/-- the flags the loop computes for the messages from index `i` on -/
def evalAll (apply : Nat → SMsg → Except SErr Bool) : Nat → List SMsg → Except SErr (List Bool)
  | _, [] => .ok []
  | i, m :: rest => do
    let b ← apply (i + 1) m
    let bs ← evalAll apply (i + 1) rest
    .ok (b :: bs)

/-- the numbers SEARCH (`false`) / UID SEARCH (`true`) reports for the messages from index `i` on -/
def nums (uidMode : Bool) : Nat → List SMsg → List Nat
  | _, [] => []
  | i, m :: rest => (if uidMode then m.uid else i + 1) :: nums uidMode (i + 1) rest

theorem evalAll_length {apply : Nat → SMsg → Except SErr Bool} {i : Nat} {l : List SMsg} {bs : List Bool}
    (h : evalAll apply i l = .ok bs) : bs.length = l.length := by
  induction l generalizing i bs with
  | nil => simp [evalAll] at h; subst h; rfl
  | cons m rest ih =>
    simp only [evalAll, bind, Except.bind] at h
    split at h
    · simp at h
    · split at h
      · simp at h
      · next bs' hbs => simp at h; subst h; simp [ih hbs]

theorem nums_length (u : Bool) (i : Nat) (l : List SMsg) : (nums u i l).length = l.length := by
  induction l generalizing i with
  | nil => rfl
  | cons m rest ih => simp [nums, ih]

/-- all numbers are non-zero: sequence numbers always, UIDs under `UidsPos` -/
def UidsPos (s : Snap) : Prop := ∀ m ∈ s, 0 < m.uid

theorem nums_pos (u : Bool) (i : Nat) (l : List SMsg) (h : u = true → UidsPos l) : ∀ n ∈ nums u i l, n ≠ 0 := by
  induction l generalizing i with
  | nil => simp [nums]
  | cons m rest ih =>
    intro n hn
    simp only [nums, List.mem_cons] at hn
    rcases hn with rfl | hn
    · cases u
      · simp
      · have := h rfl m (by simp); simp; omega
    · exact ih (i + 1) (fun hu m' hm' => h hu m' (List.mem_cons_of_mem _ hm')) n hn

theorem searchLoop_eq (apply : Nat → SMsg → Except SErr Bool) (u : Bool) (i : Nat) (l : List SMsg)
    (hpos : u = true → UidsPos l) :
    (do let r ← searchLoop apply (fun seq m => if u then m.uid else seq) i l
        (pure (r.filter (· != 0)) : Except SErr (List Nat))) =
    (do let bs ← evalAll apply i l
        pure (pick (nums u i l) bs)) := by
  induction l generalizing i with
  | nil => simp [searchLoop, evalAll, pick, nums, bind, Except.bind, pure, Except.pure]
  | cons m rest ih =>
    have ih' := ih (i + 1) (fun hu m' hm' => hpos hu m' (List.mem_cons_of_mem _ hm'))
    simp only [searchLoop, evalAll, bind, Except.bind, pure, Except.pure] at ih' ⊢
    cases hap : apply (i + 1) m with
    | error e => simp
    | ok b =>
      simp only
      cases hsl : searchLoop apply (fun seq m => if u then m.uid else seq) (i + 1) rest with
      | error e =>
        rw [hsl] at ih'
        cases hev : evalAll apply (i + 1) rest with
        | error e' => rw [hev] at ih'; simpa using ih'
        | ok bs => rw [hev] at ih'; simp at ih'
      | ok tl =>
        rw [hsl] at ih'
        cases hev : evalAll apply (i + 1) rest with
        | error e' => rw [hev] at ih'; simp at ih'
        | ok bs =>
          rw [hev] at ih'
          simp only [Except.ok.injEq] at ih'
          simp only [nums, pick, List.filter_cons]
          have hne : (if u then m.uid else i + 1) ≠ 0 := by
            cases u
            · simp
            · have := hpos rfl m (by simp); simp; omega
          cases b
          · simp [ih']
          · simp [hne, ih']

/-- `Mailbox.Search` = build, evaluate every message, pick the numbers of the matching ones -/
theorem search_eq (u : Bool) (s : Snap) (data : MsgId → MsgData) (dec : Bytes → Option Bytes) (keys : List Key)
    (hpos : u = true → UidsPos s) :
    search u s data dec keys =
    (do let op ← buildList s dec keys
        let bs ← evalAll (fun seq m => applySearch (COp.needsList op) op seq m (data m.id)) 0 s
        pure (pick (nums u 0 s) bs)) := by
  simp only [search]
  cases buildList s dec keys with
  | error e => rfl
  | ok op =>
    simp only [bind, Except.bind]
    exact searchLoop_eq _ u 0 s hpos

theorem nums_false (i : Nat) (l : List SMsg) : nums false i l = List.range' (i + 1) l.length := by
  induction l generalizing i with
  | nil => rfl
  | cons m rest ih => simp [nums, ih, List.range'_succ]

theorem nums_true (i : Nat) (l : List SMsg) : nums true i l = l.map (·.uid) := by
  induction l generalizing i with
  | nil => rfl
  | cons m rest ih => simp [nums, ih]

theorem nums_nodup (u : Bool) (s : Snap) (hinv : Snap.Inv s) : (nums u 0 s).Nodup := by
  cases u
  · rw [nums_false]; exact List.nodup_range'
  · rw [nums_true]
    have := hinv.asc
    simp only [Snap.uids] at this
    exact this.imp (fun h => Nat.ne_of_lt h)

theorem nums_ascending (u : Bool) (s : Snap) (hinv : Snap.Inv s) : (nums u 0 s).Pairwise (· < ·) := by
  cases u
  · rw [nums_false]; exact List.pairwise_lt_range'
  · rw [nums_true]; exact hinv.asc

theorem evalAll_map {f g : Nat → SMsg → Except SErr Bool} (φ : Bool → Bool)
    (h : ∀ seq m, f seq m = (g seq m).map φ) (i : Nat) (l : List SMsg) :
    evalAll f i l = (evalAll g i l).map (List.map φ) := by
  induction l generalizing i with
  | nil => rfl
  | cons m rest ih =>
    simp only [evalAll, bind, Except.bind, h, ih]
    cases g (i + 1) m with
    | error e => rfl
    | ok b =>
      simp only [Except.map]
      cases evalAll g (i + 1) rest <;> rfl

theorem evalAll_congr {f g : Nat → SMsg → Except SErr Bool} (i : Nat) (l : List SMsg)
    (h : ∀ seq, ∀ m ∈ l, f seq m = g seq m) : evalAll f i l = evalAll g i l := by
  induction l generalizing i with
  | nil => rfl
  | cons m rest ih =>
    simp only [evalAll, h (i + 1) m (by simp), ih (i + 1) (fun seq m' hm' => h seq m' (List.mem_cons_of_mem _ hm'))]

theorem evalAll_zipWith {f g h : Nat → SMsg → Except SErr Bool} (op : Bool → Bool → Bool) (i : Nat) (l : List SMsg)
    {as bs : List Bool} (hf : evalAll f i l = .ok as) (hg : evalAll g i l = .ok bs)
    (hh : ∀ seq m a b, f seq m = .ok a → g seq m = .ok b → h seq m = .ok (op a b)) :
    evalAll h i l = .ok (List.zipWith op as bs) := by
  induction l generalizing i as bs with
  | nil => simp [evalAll] at hf hg ⊢; subst hf; subst hg; simp
  | cons m rest ih =>
    simp only [evalAll, bind, Except.bind] at hf hg ⊢
    cases hfa : f (i + 1) m with
    | error e => rw [hfa] at hf; simp at hf
    | ok a =>
      cases hgb : g (i + 1) m with
      | error e => rw [hgb] at hg; simp at hg
      | ok b =>
        rw [hfa] at hf; rw [hgb] at hg
        simp only at hf hg
        cases hfr : evalAll f (i + 1) rest with
        | error e => rw [hfr] at hf; simp at hf
        | ok as' =>
          cases hgr : evalAll g (i + 1) rest with
          | error e => rw [hgr] at hg; simp at hg
          | ok bs' =>
            rw [hfr] at hf; rw [hgr] at hg
            simp only [Except.ok.injEq] at hf hg
            subst hf; subst hg
            rw [hh (i + 1) m a b hfa hgb, ih (i + 1) hfr hgr]
            rfl

theorem evalAll_const_ok (p : Nat → SMsg → Bool) (i : Nat) (l : List SMsg) :
    ∃ bs, evalAll (fun seq m => .ok (p seq m)) i l = .ok bs := by
  induction l generalizing i with
  | nil => exact ⟨[], rfl⟩
  | cons m rest ih =>
    obtain ⟨bs, hbs⟩ := ih (i + 1)
    exact ⟨p (i + 1) m :: bs, by simp [evalAll, bind, Except.bind, hbs]⟩

/-! ### closures: Boolean structure -/

theorem Needs.merge_empty (a : Needs) : Needs.merge a {} = a := by
  cases a; simp [Needs.merge]

theorem evalList_single (x : SData) (c : COp) : COp.evalList x [c] = c.eval x := by
  simp only [COp.evalList, bind, Except.bind]
  cases c.eval x with
  | error e => rfl
  | ok b => cases b <;> rfl

theorem needsList_single (c : COp) : COp.needsList [c] = c.needs := by
  simp [COp.needsList, Needs.merge_empty]

theorem buildList_single (s : Snap) (dec : Bytes → Option Bytes) (k : Key) :
    buildList s dec [k] = (build s dec k).map ([·]) := by
  simp only [buildList, bind, Except.bind]
  cases build s dec k <;> rfl

theorem applySearch_single (n : Needs) (c : COp) (seq : Nat) (m : SMsg) (d : MsgData) :
    applySearch n [c] seq m d = (do let x ← buildSearchData n seq m d; c.eval x) := by
  simp only [applySearch, evalList_single]

theorem build_not (s : Snap) (dec : Bytes → Option Bytes) (k : Key) :
    build s dec (.not k) = (build s dec k).map .not := by
  simp only [build, bind, Except.bind]
  cases build s dec k <;> rfl

theorem build_or (s : Snap) (dec : Bytes → Option Bytes) (a b : Key) :
    build s dec (.or a b) = (do let ca ← build s dec a; let cb ← build s dec b; pure (.or ca cb)) := by
  simp only [build]; rfl

theorem build_list (s : Snap) (dec : Bytes → Option Bytes) (ks : List Key) :
    build s dec (.list ks) = (buildList s dec ks).map .list := by
  simp only [build, bind, Except.bind]
  cases buildList s dec ks <;> rfl

theorem applySearch_not (n : Needs) (c : COp) (seq : Nat) (m : SMsg) (d : MsgData) :
    applySearch n [.not c] seq m d = (applySearch n [c] seq m d).map (!·) := by
  simp only [applySearch_single, COp.eval, bind, Except.bind]
  cases buildSearchData n seq m d with
  | error e => rfl
  | ok x => simp only; cases c.eval x <;> rfl

/-- NOT: same failures; otherwise the numbers of the view that the inner key does not select -/
theorem search_not (u : Bool) (s : Snap) (data : MsgId → MsgData) (dec : Bytes → Option Bytes) (k : Key)
    (hinv : Snap.Inv s) (hpos : u = true → UidsPos s) :
    search u s data dec [.not k] =
      (search u s data dec [k]).map (fun r => (nums u 0 s).filter (fun n => !r.contains n)) := by
  rw [search_eq u s data dec _ hpos, search_eq u s data dec _ hpos, buildList_single, buildList_single, build_not]
  cases build s dec k with
  | error e => rfl
  | ok c =>
    simp only [Except.map, bind, Except.bind, needsList_single, COp.needs]
    rw [evalAll_map (!·) (fun seq m => applySearch_not c.needs c seq m (data m.id))]
    cases hev : evalAll (fun seq m => applySearch c.needs [c] seq m (data m.id)) 0 s with
    | error e => rfl
    | ok bs =>
      simp only [Except.map, pure, Except.pure]
      rw [pick_not _ _ (nums_nodup u s hinv) (by rw [evalAll_length hev, nums_length])]

theorem buildSearchData_ok {n : Needs} {seq : Nat} {m : SMsg} {d : MsgData} {x : SData}
    (h : buildSearchData n seq m d = .ok x) : x = ⟨seq, m, d⟩ ∧ (n.header && d.hdr.isNone) = false := by
  simp only [buildSearchData] at h
  split at h
  · simp at h
  · next hc =>
    simp at h
    refine ⟨h.symm, ?_⟩
    cases hh : (n.header && d.hdr.isNone)
    · rfl
    · exact absurd hh hc


theorem buildSearchData_of {n : Needs} {seq : Nat} {m : SMsg} {d : MsgData}
    (h : (n.header && d.hdr.isNone) = false) : buildSearchData n seq m d = .ok ⟨seq, m, d⟩ := by
  simp [buildSearchData, h]

/-- what a successful single-key evaluation says -/
theorem applySearch_single_ok {n : Needs} {c : COp} {seq : Nat} {m : SMsg} {d : MsgData} {b : Bool}
    (h : applySearch n [c] seq m d = .ok b) :
    (n.header && d.hdr.isNone) = false ∧ c.eval ⟨seq, m, d⟩ = .ok b := by
  rw [applySearch_single] at h
  simp only [bind, Except.bind] at h
  cases hx : buildSearchData n seq m d with
  | error e => rw [hx] at h; simp at h
  | ok x =>
    rw [hx] at h
    obtain ⟨rfl, hn⟩ := buildSearchData_ok hx
    exact ⟨hn, h⟩

theorem applySearch_list_ok {n : Needs} {cs : List COp} {seq : Nat} {m : SMsg} {d : MsgData} {b : Bool}
    (h : applySearch n cs seq m d = .ok b) :
    (n.header && d.hdr.isNone) = false ∧ COp.evalList ⟨seq, m, d⟩ cs = .ok b := by
  simp only [applySearch, bind, Except.bind] at h
  cases hx : buildSearchData n seq m d with
  | error e => rw [hx] at h; simp at h
  | ok x =>
    rw [hx] at h
    obtain ⟨rfl, hn⟩ := buildSearchData_ok hx
    exact ⟨hn, h⟩

theorem merge_header_false {a b : Needs} {o : Bool} (ha : (a.header && o) = false) (hb : (b.header && o) = false) :
    ((Needs.merge a b).header && o) = false := by
  cases o <;> simp_all [Needs.merge]

/-- OR: when both operands can be searched, the union -/
theorem search_or (u : Bool) (s : Snap) (data : MsgId → MsgData) (dec : Bytes → Option Bytes) (a b : Key)
    (hinv : Snap.Inv s) (hpos : u = true → UidsPos s) {ra rb : List Nat}
    (ha : search u s data dec [a] = .ok ra) (hb : search u s data dec [b] = .ok rb) :
    search u s data dec [.or a b] = .ok ((nums u 0 s).filter (fun n => ra.contains n || rb.contains n)) := by
  rw [search_eq u s data dec _ hpos, buildList_single] at ha hb ⊢
  rw [build_or]
  cases hca : build s dec a with
  | error e => rw [hca] at ha; simp [Except.map, bind, Except.bind] at ha
  | ok ca =>
    cases hcb : build s dec b with
    | error e => rw [hcb] at hb; simp [Except.map, bind, Except.bind] at hb
    | ok cb =>
      rw [hca] at ha; rw [hcb] at hb
      simp only [Except.map, bind, Except.bind, needsList_single, pure, Except.pure, COp.needs] at ha hb ⊢
      cases hea : evalAll (fun seq m => applySearch ca.needs [ca] seq m (data m.id)) 0 s with
      | error e => rw [hea] at ha; simp at ha
      | ok as =>
        cases heb : evalAll (fun seq m => applySearch cb.needs [cb] seq m (data m.id)) 0 s with
        | error e => rw [heb] at hb; simp at hb
        | ok bs =>
          rw [hea] at ha; rw [heb] at hb
          simp only [Except.ok.injEq] at ha hb
          subst ha; subst hb
          have hz := evalAll_zipWith (h := fun seq m => applySearch (Needs.merge ca.needs cb.needs) [.or ca cb] seq m (data m.id))
            (· || ·) 0 s hea heb (by
              intro seq m x y hx hy
              obtain ⟨hna, hxa⟩ := applySearch_single_ok hx
              obtain ⟨hnb, hyb⟩ := applySearch_single_ok hy
              rw [applySearch_single, buildSearchData_of (merge_header_false hna hnb)]
              simp [bind, Except.bind, COp.eval, hxa, hyb])
          rw [hz]
          simp only
          rw [pick_zipWith (· || ·) _ _ _ (nums_nodup u s hinv)
            (by rw [evalAll_length hea, nums_length]) (by rw [evalAll_length heb, nums_length])]

/-- OR fails when an operand fails -/
theorem search_or_error_left (u : Bool) (s : Snap) (data : MsgId → MsgData) (dec : Bytes → Option Bytes) (a b : Key)
    {e : SErr} (ha : build s dec a = .error e) : search u s data dec [.or a b] = .error e := by
  simp [search, buildList, build, bind, Except.bind, ha]

theorem needsList_list (cs : List COp) : COp.needsList [.list cs] = COp.needsList cs := by
  simp [COp.needsList, COp.needs, Needs.merge_empty]

/-- a parenthesised list is the juxtaposition of its keys -/
theorem search_list (u : Bool) (s : Snap) (data : MsgId → MsgData) (dec : Bytes → Option Bytes) (ks : List Key) :
    search u s data dec [.list ks] = search u s data dec ks := by
  simp only [search, buildList_single, build_list]
  cases buildList s dec ks with
  | error e => rfl
  | ok cs =>
    simp only [Except.map, bind, Except.bind, needsList_list]
    have : (fun seq m => applySearch (COp.needsList cs) [COp.list cs] seq m (data m.id)) =
        (fun seq m => applySearch (COp.needsList cs) cs seq m (data m.id)) := by
      funext seq m
      simp only [applySearch, evalList_single, COp.eval]
    rw [this]

theorem buildList_cons (s : Snap) (dec : Bytes → Option Bytes) (k : Key) (ks : List Key) :
    buildList s dec (k :: ks) = (do let c ← build s dec k; let cs ← buildList s dec ks; pure (c :: cs)) := by
  simp only [buildList]; rfl

/-- juxtaposition: when the first key and the rest can each be searched, the intersection -/
theorem search_cons (u : Bool) (s : Snap) (data : MsgId → MsgData) (dec : Bytes → Option Bytes) (k : Key) (ks : List Key)
    (hinv : Snap.Inv s) (hpos : u = true → UidsPos s) {r1 r2 : List Nat}
    (h1 : search u s data dec [k] = .ok r1) (h2 : search u s data dec ks = .ok r2) :
    search u s data dec (k :: ks) = .ok ((nums u 0 s).filter (fun n => r1.contains n && r2.contains n)) := by
  rw [search_eq u s data dec _ hpos] at h1 h2 ⊢
  rw [buildList_single] at h1
  rw [buildList_cons]
  cases hc : build s dec k with
  | error e => rw [hc] at h1; simp [Except.map, bind, Except.bind] at h1
  | ok c =>
    cases hcs : buildList s dec ks with
    | error e => rw [hcs] at h2; simp [bind, Except.bind] at h2
    | ok cs =>
      rw [hc] at h1; rw [hcs] at h2
      simp only [Except.map, bind, Except.bind, needsList_single, pure, Except.pure] at h1 h2 ⊢
      cases hea : evalAll (fun seq m => applySearch c.needs [c] seq m (data m.id)) 0 s with
      | error e => rw [hea] at h1; simp at h1
      | ok as =>
        cases heb : evalAll (fun seq m => applySearch (COp.needsList cs) cs seq m (data m.id)) 0 s with
        | error e => rw [heb] at h2; simp at h2
        | ok bs =>
          rw [hea] at h1; rw [heb] at h2
          simp only [Except.ok.injEq] at h1 h2
          subst h1; subst h2
          have hz := evalAll_zipWith (h := fun seq m => applySearch (COp.needsList (c :: cs)) (c :: cs) seq m (data m.id))
            (· && ·) 0 s hea heb (by
              intro seq m x y hx hy
              obtain ⟨hna, hxa⟩ := applySearch_single_ok hx
              obtain ⟨hnb, hyb⟩ := applySearch_list_ok hy
              simp only [applySearch, COp.needsList]
              rw [buildSearchData_of (merge_header_false hna hnb)]
              simp only [bind, Except.bind, COp.evalList, hxa, hyb]
              cases x <;> simp)
          rw [hz]
          simp only
          rw [pick_zipWith (· && ·) _ _ _ (nums_nodup u s hinv)
            (by rw [evalAll_length hea, nums_length]) (by rw [evalAll_length heb, nums_length])]

/-- no keys at all (not expressible on the wire): everything -/
theorem search_nil (u : Bool) (s : Snap) (data : MsgId → MsgData) (dec : Bytes → Option Bytes)
    (hpos : u = true → UidsPos s) : search u s data dec [] = .ok (nums u 0 s) := by
  rw [search_eq u s data dec _ hpos]
  simp only [buildList, bind, Except.bind, COp.needsList, pure, Except.pure]
  have : ∀ i (l : List SMsg), evalAll (fun seq m => applySearch {} [] seq m (data m.id)) i l = .ok (l.map fun _ => true) := by
    intro i l
    induction l generalizing i with
    | nil => rfl
    | cons m rest ih =>
      have ih' := ih (i + 1)
      simp only [applySearch, buildSearchData, COp.evalList, bind, Except.bind] at ih' ⊢
      simp only [evalAll, bind, Except.bind]
      simp at ih' ⊢
      rw [ih']
  rw [this]
  simp only
  have hp : ∀ (ns : List Nat) (l : List SMsg), ns.length = l.length → pick ns (l.map fun _ => true) = ns := by
    intro ns l
    induction ns generalizing l with
    | nil => intro _; cases l <;> simp [pick]
    | cons n ns ih =>
      intro hl
      cases l with
      | nil => simp at hl
      | cons m rest => simp [pick, ih rest (by simpa using hl)]
  rw [hp _ _ (nums_length u 0 s)]

/-! ### when a closure computes the RFC predicate -/

/-- every number of the set is a 32-bit value (`0` stands for `*`) -/
def SetSmall (set : List SeqRange) : Prop :=
  ∀ r ∈ set, 0 ≤ r.b ∧ r.b < 4294967296 ∧ 0 ≤ r.e ∧ r.e < 4294967296

/-- no range `n:*` / `*:n` whose number lies above `top` (the value of `*`) -/
def NoStarAbove (top : Nat) (set : List SeqRange) : Prop :=
  ∀ r ∈ set, (r.b = 0 → r.e ≤ (top : Int)) ∧ (r.e = 0 → r.b ≤ (top : Int))

theorem toU32_small {x : Int} (h0 : 0 ≤ x) (h1 : x < 4294967296) : toU32 x = x.toNat := by
  simp only [toU32]
  rw [Int.emod_eq_of_lt h0 h1]

theorem contains_iff (iv : Interval) (x : Nat) : iv.contains x = true ↔ iv.b ≤ x ∧ x ≤ iv.e := by
  simp [Interval.contains]

theorem inRange_iff (top x : Nat) (r : SeqRange) : inRange top x r = true ↔
    min (numVal top r.b) (numVal top r.e) ≤ (x : Int) ∧ (x : Int) ≤ max (numVal top r.b) (numVal top r.e) := by
  simp [inRange]

theorem numVal_nonneg (top : Nat) (x : Int) (h : 0 ≤ x) : 0 ≤ numVal top x := by
  simp only [numVal]; split <;> omega

theorem resolveOne_spec (res : Int → Except Err Nat) (top : Nat) (r : SeqRange)
    (hres : ∀ x, 0 ≤ x → x < 4294967296 → res x = .ok (numVal top x).toNat)
    (hs : 0 ≤ r.b ∧ r.b < 4294967296 ∧ 0 ≤ r.e ∧ r.e < 4294967296)
    (hstar : (r.b = 0 → r.e ≤ (top : Int)) ∧ (r.e = 0 → r.b ≤ (top : Int))) :
    ∃ iv, resolveOne res r = .ok iv ∧ ∀ x, iv.contains x = inRange top x r := by
  obtain ⟨hb0, hb1, he0, he1⟩ := hs
  obtain ⟨hsb, hse⟩ := hstar
  have hrb := hres r.b hb0 hb1
  have hre := hres r.e he0 he1
  have hA := numVal_nonneg top r.b hb0
  have hB := numVal_nonneg top r.e he0
  -- the values
  generalize hAd : numVal top r.b = A at *
  generalize hBd : numVal top r.e = B at *
  simp only [resolveOne]
  by_cases hbe : r.b = r.e
  · have hAB : A = B := by rw [← hAd, ← hBd, hbe]
    simp only [hbe, if_true, bind, Except.bind, hre]
    refine ⟨_, rfl, ?_⟩
    intro x
    rw [Bool.eq_iff_iff, contains_iff, inRange_iff, hAd, hBd, hAB]
    simp only [Int.min_self, Int.max_self]
    omega
  · simp only [hbe, if_false]
    by_cases hb : r.b = 0
    · have he : r.e ≠ 0 := fun h => hbe (by rw [hb, h])
      have htop := hsb hb
      have hAtop : A = top := by rw [← hAd]; simp [numVal, hb]
      have hBe : B = r.e := by rw [← hBd]; simp [numVal, he]
      simp only [hb, if_true, bind, Except.bind]
      rw [← hb, hre, hrb]
      simp only
      split
      · next hgt => exfalso; omega
      · refine ⟨_, rfl, ?_⟩
        intro x
        rw [Bool.eq_iff_iff, contains_iff, inRange_iff, hAd, hBd]
        simp only [Int.min_def, Int.max_def]
        split <;> omega
    · have hAb : A = r.b := by rw [← hAd]; simp [numVal, hb]
      simp only [hb, if_false, bind, Except.bind, hrb, hre]
      by_cases he : r.e = 0
      · have htop := hse he
        have hBtop : B = top := by rw [← hBd]; simp [numVal, he]
        simp only [he, if_true]
        split
        · next hgt => exfalso; omega
        · refine ⟨_, rfl, ?_⟩
          intro x
          rw [Bool.eq_iff_iff, contains_iff, inRange_iff, hAd, hBd]
          simp only [Int.min_def, Int.max_def]
          split <;> omega
      · simp only [ne_eq, he, not_false_eq_true, if_true]
        split
        · refine ⟨_, rfl, ?_⟩
          intro x
          rw [Bool.eq_iff_iff, contains_iff, inRange_iff, hAd, hBd]
          simp only [Int.min_def, Int.max_def]
          split <;> omega
        · refine ⟨_, rfl, ?_⟩
          intro x
          rw [Bool.eq_iff_iff, contains_iff, inRange_iff, hAd, hBd]
          simp only [Int.min_def, Int.max_def]
          split <;> omega
theorem resolveAll_spec (res : Int → Except Err Nat) (top : Nat) (set : List SeqRange)
    (hres : ∀ x, 0 ≤ x → x < 4294967296 → res x = .ok (numVal top x).toNat)
    (hs : SetSmall set) (hstar : NoStarAbove top set) :
    ∃ ivs, resolveAll res set = .ok ivs ∧ ∀ x, ivs.any (·.contains x) = inSet top set x := by
  induction set with
  | nil => exact ⟨[], rfl, fun x => by simp [inSet]⟩
  | cons r rest ih =>
    obtain ⟨iv, hiv, hc⟩ := resolveOne_spec res top r hres (hs r (by simp)) (hstar r (by simp))
    obtain ⟨ivs, hivs, hcs⟩ := ih (fun r' hr' => hs r' (List.mem_cons_of_mem _ hr')) (fun r' hr' => hstar r' (List.mem_cons_of_mem _ hr'))
    refine ⟨iv :: ivs, by simp [resolveAll, bind, Except.bind, hiv, hivs], ?_⟩
    intro x
    rw [List.any_cons, hc x, hcs x]
    simp [inSet]

theorem hdr_contains (h : List (Bytes × Bytes)) (f k : Bytes)
    (h1 : (h.filter (fun e => nameEq e.1 f)).length ≤ 1)
    (h2 : k ≠ [] ∨ (h.any fun e => nameEq e.1 f) = true) :
    contains (lower (hdrGet h f)) (lower k) = h.any (fun e => nameEq e.1 f && containsCI e.2 k) := by
  induction h with
  | nil =>
    have hk : k ≠ [] := by simpa using h2
    cases k with
    | nil => exact absurd rfl hk
    | cons a as => simp [hdrGet, lower, contains]
  | cons e h ih =>
    by_cases hm : nameEq e.1 f = true
    · have hfind : hdrGet (e :: h) f = e.2 := by
        simp [hdrGet, List.find?, lower_eq_iff_nameEq, hm]
      have h1' : (h.filter (fun e => nameEq e.1 f)).length = 0 := by
        have : (e :: h).filter (fun e => nameEq e.1 f) = e :: h.filter (fun e => nameEq e.1 f) := by
          simp [List.filter_cons, hm]
        rw [this] at h1
        simp only [List.length_cons] at h1
        omega
      have hnone : ∀ e' ∈ h, nameEq e'.1 f = false := by
        intro e' he'
        cases hq : nameEq e'.1 f
        · rfl
        · exfalso
          have : e' ∈ h.filter (fun e => nameEq e.1 f) := List.mem_filter.mpr ⟨he', hq⟩
          have hpos := List.length_pos_of_mem this
          omega
      have hany : (h.any fun e => nameEq e.1 f && containsCI e.2 k) = false := by
        rw [List.any_eq_false]
        intro e' he'
        simp [hnone e' he']
      rw [hfind, contains_lower]
      simp [hm, hany]
    · have hm' : nameEq e.1 f = false := by simpa using hm
      have hfind : hdrGet (e :: h) f = hdrGet h f := by
        simp [hdrGet, List.find?, lower_eq_iff_nameEq, hm']
      rw [hfind, ih (by simpa [List.filter_cons, hm'] using h1) (by simpa [hm'] using h2)]
      simp [hm']

def HeadersOk (s : Snap) (data : MsgId → MsgData) : Prop := ∀ m ∈ s, (data m.id).hdr.isSome = true

/-- **FieldOK**: the key decodes; every message has a parseable header with at most one field `f`
    (`Header.Get` looks at the first only); and the decoded key is non-empty or every message has the field
    (`Get` answers "" for an absent field, and "" contains "") -/
def FieldOK (s : Snap) (data : MsgId → MsgData) (dec : Bytes → Option Bytes) (f v : Bytes) : Prop :=
  ∃ k, dec v = some k ∧ ∀ m ∈ s, ∃ h, (data m.id).hdr = some h ∧
    (h.filter (fun e => nameEq e.1 f)).length ≤ 1 ∧ (k ≠ [] ∨ (h.any fun e => nameEq e.1 f) = true)

/-- **ZoneFree**: the stored internal date names the same calendar day in its own zone and in UTC -/
def ZoneFree (s : Snap) (data : MsgId → MsgData) : Prop :=
  ∀ m ∈ s, (data m.id).date.localDay = (data m.id).date.utcDay

/-- **SentParsable**: every message has a Date header that `rfc5322.ParseDateTime` accepts -/
def SentParsable (s : Snap) (data : MsgId → MsgData) : Prop := ∀ m ∈ s, (data m.id).sent.isSome = true

/-- the named hypothesis each kind of key needs for its closure to compute the RFC predicate -/
def LeafOK (s : Snap) (data : MsgId → MsgData) (dec : Bytes → Option Bytes) : Leaf → Prop
  | .since _ => ZoneFree s data
  | .sentBefore _ | .sentOn _ | .sentSince _ => SentParsable s data ∧ HeadersOk s data
  | .bcc v => FieldOK s data dec (hName "Bcc") v
  | .cc v => FieldOK s data dec (hName "Cc") v
  | .from v => FieldOK s data dec (hName "From") v
  | .subject v => FieldOK s data dec (hName "Subject") v
  | .to v => FieldOK s data dec (hName "To") v
  | .header f v => FieldOK s data dec f v
  | .body v | .text v => (dec v).isSome = true
  | .uid set => s ≠ [] ∧ SetSmall set ∧ NoStarAbove (boxOf s).maxUid set
  | .seqSet set => s.length < 4294967296 ∧ SetSmall set ∧ NoStarAbove s.length set
  | _ => True

theorem field_leaf (s : Snap) (data : MsgId → MsgData) (dec : Bytes → Option Bytes) (f v : Bytes)
    (hf : FieldOK s data dec f v) :
    ∃ k, decodeLower dec v = .ok k ∧ ∀ seq, ∀ m ∈ s,
      (Op.header f k).eval ⟨seq, m, data m.id⟩ = .ok (strKey dec v (hasField (toMsg seq m (data m.id)) f)) := by
  obtain ⟨k, hk, hall⟩ := hf
  refine ⟨lower k, by simp [decodeLower, hk], ?_⟩
  intro seq m hm
  obtain ⟨h, hhdr, h1, h2⟩ := hall m hm
  simp only [Op.eval, strKey, hk, hasField, toMsg, hhdr, Option.getD_some]
  rw [hdr_contains h f k h1 h2]

theorem before_iff (u d : Int) : decide (u < keyInstant d) = decide (u / 86400 < d) := by
  rw [decide_eq_decide]; simp only [keyInstant]; omega

theorem on_iff (u d : Int) : (truncate24h (keyInstant d) == truncate24h u) = decide (u / 86400 = d) := by
  rw [Bool.eq_iff_iff]
  simp only [truncate24h, keyInstant, beq_iff_eq, decide_eq_true_eq]
  omega

theorem leaf_ok (s : Snap) (data : MsgId → MsgData) (dec : Bytes → Option Bytes) (l : Leaf)
    (hl : LeafOK s data dec l) :
    ∃ op, buildLeaf s dec l = .ok op ∧ ∀ seq, ∀ m ∈ s,
      op.eval ⟨seq, m, data m.id⟩ = .ok (satLeaf (boxOf s) dec (toMsg seq m (data m.id)) l) := by
  cases l with
  | all => exact ⟨_, rfl, fun _ _ _ => rfl⟩
  | answered => exact ⟨_, rfl, fun _ _ _ => by simp [Op.eval, satLeaf, toMsg, flagAnswered]⟩
  | deleted => exact ⟨_, rfl, fun _ _ _ => by simp [Op.eval, satLeaf, toMsg, Flags.deleted]⟩
  | draft => exact ⟨_, rfl, fun _ _ _ => by simp [Op.eval, satLeaf, toMsg, flagDraft]⟩
  | flagged => exact ⟨_, rfl, fun _ _ _ => by simp [Op.eval, satLeaf, toMsg, flagFlagged]⟩
  | new => exact ⟨_, rfl, fun _ _ _ => by simp [Op.eval, satLeaf, toMsg, Flags.recent, Flags.seen]⟩
  | old => exact ⟨_, rfl, fun _ _ _ => by simp [Op.eval, satLeaf, toMsg, Flags.recent]⟩
  | recent => exact ⟨_, rfl, fun _ _ _ => by simp [Op.eval, satLeaf, toMsg, Flags.recent]⟩
  | seen => exact ⟨_, rfl, fun _ _ _ => by simp [Op.eval, satLeaf, toMsg, Flags.seen]⟩
  | unanswered => exact ⟨_, rfl, fun _ _ _ => by simp [Op.eval, satLeaf, toMsg, flagAnswered]⟩
  | undeleted => exact ⟨_, rfl, fun _ _ _ => by simp [Op.eval, satLeaf, toMsg, Flags.deleted]⟩
  | undraft => exact ⟨_, rfl, fun _ _ _ => by simp [Op.eval, satLeaf, toMsg, flagDraft]⟩
  | unflagged => exact ⟨_, rfl, fun _ _ _ => by simp [Op.eval, satLeaf, toMsg, flagFlagged]⟩
  | unseen => exact ⟨_, rfl, fun _ _ _ => by simp [Op.eval, satLeaf, toMsg, Flags.seen]⟩
  | keyword a => exact ⟨_, rfl, fun _ _ _ => by simp [Op.eval, satLeaf, toMsg]⟩
  | unkeyword a => exact ⟨_, rfl, fun _ _ _ => by simp [Op.eval, satLeaf, toMsg]⟩
  | larger n => exact ⟨_, rfl, fun _ _ _ => by simp [Op.eval, satLeaf, toMsg]⟩
  | smaller n => exact ⟨_, rfl, fun _ _ _ => by simp [Op.eval, satLeaf, toMsg]; rfl⟩
  | before d =>
    refine ⟨_, rfl, fun _ m _ => ?_⟩
    exact congrArg Except.ok (before_iff _ _)
  | on d =>
    refine ⟨_, rfl, fun _ m _ => ?_⟩
    exact congrArg Except.ok (on_iff _ _)
  | since d =>
    refine ⟨_, rfl, fun _ m hm => ?_⟩
    have := hl m hm
    simp only [Op.eval, satLeaf, toMsg, convertToDateWithoutTZ, this]
    rfl
  | sentBefore d =>
    refine ⟨_, rfl, fun _ m hm => ?_⟩
    obtain ⟨t, ht⟩ := Option.isSome_iff_exists.mp (hl.1 m hm)
    simp [Op.eval, satLeaf, toMsg, convertToDateWithoutTZ, ht]
    rfl
  | sentOn d =>
    refine ⟨_, rfl, fun _ m hm => ?_⟩
    obtain ⟨t, ht⟩ := Option.isSome_iff_exists.mp (hl.1 m hm)
    simp [Op.eval, satLeaf, toMsg, convertToDateWithoutTZ, ht]
    rfl
  | sentSince d =>
    refine ⟨_, rfl, fun _ m hm => ?_⟩
    obtain ⟨t, ht⟩ := Option.isSome_iff_exists.mp (hl.1 m hm)
    simp [Op.eval, satLeaf, toMsg, convertToDateWithoutTZ, ht]
  | bcc v =>
    obtain ⟨k, hk, hall⟩ := field_leaf s data dec (hName "Bcc") v hl
    exact ⟨.header (hName "Bcc") k, by simp [buildLeaf, hk, bind, Except.bind], fun seq m hm => by rw [hall seq m hm]; rfl⟩
  | cc v =>
    obtain ⟨k, hk, hall⟩ := field_leaf s data dec (hName "Cc") v hl
    exact ⟨.header (hName "Cc") k, by simp [buildLeaf, hk, bind, Except.bind], fun seq m hm => by rw [hall seq m hm]; rfl⟩
  | «from» v =>
    obtain ⟨k, hk, hall⟩ := field_leaf s data dec (hName "From") v hl
    exact ⟨.header (hName "From") k, by simp [buildLeaf, hk, bind, Except.bind], fun seq m hm => by rw [hall seq m hm]; rfl⟩
  | subject v =>
    obtain ⟨k, hk, hall⟩ := field_leaf s data dec (hName "Subject") v hl
    exact ⟨.header (hName "Subject") k, by simp [buildLeaf, hk, bind, Except.bind], fun seq m hm => by rw [hall seq m hm]; rfl⟩
  | to v =>
    obtain ⟨k, hk, hall⟩ := field_leaf s data dec (hName "To") v hl
    exact ⟨.header (hName "To") k, by simp [buildLeaf, hk, bind, Except.bind], fun seq m hm => by rw [hall seq m hm]; rfl⟩
  | header f v =>
    obtain ⟨k, hk, hall⟩ := field_leaf s data dec f v hl
    exact ⟨.header f k, by simp [buildLeaf, hk, bind, Except.bind], fun seq m hm => by rw [hall seq m hm]; rfl⟩
  | body v =>
    obtain ⟨k, hk⟩ := Option.isSome_iff_exists.mp hl
    refine ⟨.body (lower k), by simp [buildLeaf, decodeLower, hk, bind, Except.bind], fun _ m _ => ?_⟩
    simp [Op.eval, satLeaf, strKey, hk, toMsg, contains_lower]
  | text v =>
    obtain ⟨k, hk⟩ := Option.isSome_iff_exists.mp hl
    refine ⟨.text (lower k), by simp [buildLeaf, decodeLower, hk, bind, Except.bind], fun _ m _ => ?_⟩
    simp [Op.eval, satLeaf, strKey, hk, toMsg, contains_lower]
  | uid set =>
    obtain ⟨hne, hsm, hst⟩ := hl
    obtain ⟨last, hlast⟩ : ∃ l, s.getLast? = some l := by
      cases h : s.getLast? with
      | none => exact absurd (List.getLast?_eq_none_iff.mp h) hne
      | some l => exact ⟨l, rfl⟩
    have htop : (boxOf s).maxUid = last.uid := by simp [boxOf, hlast]
    rw [htop] at hst
    obtain ⟨ivs, hivs, hc⟩ := resolveAll_spec (resolveUID s) last.uid set (by
      intro x h0 h1
      have hlen : s.length ≠ 0 := fun h => hne (List.eq_nil_of_length_eq_zero h)
      have hidx : SeqSet.goIndex s ((s.length : Int) - 1) = .ok last := by
        have hget : s[s.length - 1]? = some last := by rw [← List.getLast?_eq_getElem?]; exact hlast
        have hnn : ¬ ((s.length : Int) - 1 < 0) := by omega
        have htn : ((s.length : Int) - 1).toNat = s.length - 1 := by omega
        simp only [SeqSet.goIndex, hnn, if_false, htn, hget]
      simp only [resolveUID, hlen, if_false, hidx, numVal]
      split
      · simp
      · rw [toU32_small h0 h1]) hsm hst
    refine ⟨.uidIn ivs, by simp [buildLeaf, resolveUIDInterval, hivs], fun _ m _ => ?_⟩
    simp [Op.eval, satLeaf, toMsg, htop, hc]
  | seqSet set =>
    obtain ⟨hlen, hsm, hst⟩ := hl
    obtain ⟨ivs, hivs, hc⟩ := resolveAll_spec (resolveSeq s) s.length set (by
      intro x h0 h1
      simp only [resolveSeq, numVal]
      split
      · rw [toU32_small (by omega) (by omega)]
      · rw [toU32_small h0 h1]) hsm hst
    refine ⟨.seqIn ivs, by simp [buildLeaf, resolveSeqInterval, hivs], fun _ m _ => ?_⟩
    simp [Op.eval, satLeaf, toMsg, boxOf, hc]

/-- the keys that look at the flags of the view only -/
def Leaf.isFlagKey : Leaf → Bool
  | .all | .answered | .deleted | .draft | .flagged | .new | .old | .recent | .seen | .unanswered | .undeleted
  | .undraft | .unflagged | .unseen | .keyword _ | .unkeyword _ => true
  | _ => false

/-- the keys whose closure asks for the parsed header (`needsHeader()`) -/
def Leaf.usesHeader : Leaf → Bool
  | .bcc _ | .cc _ | .from _ | .header _ _ | .subject _ | .to _ | .sentBefore _ | .sentOn _ | .sentSince _ => true
  | _ => false

theorem buildLeaf_needs {s : Snap} {dec : Bytes → Option Bytes} {l : Leaf} {op : Op}
    (h : buildLeaf s dec l = .ok op) : op.needs.header = l.usesHeader := by
  cases l <;> simp only [buildLeaf, bind, Except.bind, decodeLower] at h <;>
    first
    | (cases h; rfl)
    | (split at h <;> first | (cases h; rfl) | (split at h <;> first | (cases h; rfl) | cases h) | cases h)

theorem leafOK_headers {s : Snap} {data : MsgId → MsgData} {dec : Bytes → Option Bytes} {l : Leaf}
    (hu : l.usesHeader = true) (hl : LeafOK s data dec l) : HeadersOk s data := by
  have field : ∀ f v, FieldOK s data dec f v → HeadersOk s data := by
    intro f v ⟨k, _, hall⟩ m hm
    obtain ⟨h, hh, _⟩ := hall m hm
    simp [hh]
  cases l <;> simp [Leaf.usesHeader] at hu <;> first | exact field _ _ hl | exact hl.2

mutual
theorem build_needs (s : Snap) (dec : Bytes → Option Bytes) :
    ∀ (k : Key) (c : COp), build s dec k = .ok c → c.needs.header = true → ∃ l ∈ k.leaves, l.usesHeader = true
  | .leaf l, c, h, hn => by
    simp only [build, bind, Except.bind] at h
    split at h
    · cases h
    · next op hop =>
      cases h
      exact ⟨l, by simp [Key.leaves], by rw [← buildLeaf_needs hop]; exact hn⟩
  | .not k, c, h, hn => by
    rw [build_not] at h
    cases hk : build s dec k with
    | error e => rw [hk] at h; cases h
    | ok c' =>
      rw [hk] at h; cases h
      obtain ⟨l, hl, hu⟩ := build_needs s dec k c' hk hn
      exact ⟨l, by simpa [Key.leaves] using hl, hu⟩
  | .or a b, c, h, hn => by
    rw [build_or] at h
    cases ha : build s dec a with
    | error e => rw [ha] at h; cases h
    | ok ca =>
      cases hb : build s dec b with
      | error e => rw [ha, hb] at h; cases h
      | ok cb =>
        rw [ha, hb] at h; cases h
        simp only [COp.needs, Needs.merge, Bool.or_eq_true] at hn
        rcases hn with hn | hn
        · obtain ⟨l, hl, hu⟩ := build_needs s dec a ca ha hn
          exact ⟨l, by simp [Key.leaves, hl], hu⟩
        · obtain ⟨l, hl, hu⟩ := build_needs s dec b cb hb hn
          exact ⟨l, by simp [Key.leaves, hl], hu⟩
  | .list ks, c, h, hn => by
    rw [build_list] at h
    cases hk : buildList s dec ks with
    | error e => rw [hk] at h; cases h
    | ok cs =>
      rw [hk] at h; cases h
      obtain ⟨l, hl, hu⟩ := buildList_needs s dec ks cs hk hn
      exact ⟨l, by simpa [Key.leaves] using hl, hu⟩
theorem buildList_needs (s : Snap) (dec : Bytes → Option Bytes) :
    ∀ (ks : List Key) (cs : List COp), buildList s dec ks = .ok cs → (COp.needsList cs).header = true →
      ∃ l ∈ Key.leavesAll ks, l.usesHeader = true
  | [], cs, h, hn => by
    simp only [buildList] at h; cases h
    simp [COp.needsList] at hn
  | k :: ks, cs, h, hn => by
    rw [buildList_cons] at h
    cases hk : build s dec k with
    | error e => rw [hk] at h; cases h
    | ok c =>
      cases hks : buildList s dec ks with
      | error e => rw [hk, hks] at h; cases h
      | ok cs' =>
        rw [hk, hks] at h; cases h
        simp only [COp.needsList, Needs.merge, Bool.or_eq_true] at hn
        rcases hn with hn | hn
        · obtain ⟨l, hl, hu⟩ := build_needs s dec k c hk hn
          exact ⟨l, by simp [Key.leavesAll, hl], hu⟩
        · obtain ⟨l, hl, hu⟩ := buildList_needs s dec ks cs' hks hn
          exact ⟨l, by simp [Key.leavesAll, hl], hu⟩
end

/-- every leaf of the command satisfies the named hypothesis of its kind -/
def Conforming (s : Snap) (data : MsgId → MsgData) (dec : Bytes → Option Bytes) (keys : List Key) : Prop :=
  ∀ l ∈ Key.leavesAll keys, LeafOK s data dec l

mutual
theorem key_ok (s : Snap) (data : MsgId → MsgData) (dec : Bytes → Option Bytes) :
    ∀ k : Key, (∀ l ∈ k.leaves, LeafOK s data dec l) →
      ∃ c, build s dec k = .ok c ∧ ∀ seq, ∀ m ∈ s,
        c.eval ⟨seq, m, data m.id⟩ = .ok (sat (boxOf s) dec (toMsg seq m (data m.id)) k)
  | .leaf l, h => by
    obtain ⟨op, hop, hall⟩ := leaf_ok s data dec l (h l (by simp [Key.leaves]))
    exact ⟨.leaf op, by simp [build, hop, bind, Except.bind], fun seq m hm => by simp [COp.eval, sat, hall seq m hm]⟩
  | .not k, h => by
    obtain ⟨c, hc, hall⟩ := key_ok s data dec k (fun l hl => h l (by simpa [Key.leaves] using hl))
    exact ⟨.not c, by simp [build, hc, bind, Except.bind],
      fun seq m hm => by simp [COp.eval, sat, hall seq m hm, bind, Except.bind]⟩
  | .or a b, h => by
    obtain ⟨ca, hca, halla⟩ := key_ok s data dec a (fun l hl => h l (by simp [Key.leaves, hl]))
    obtain ⟨cb, hcb, hallb⟩ := key_ok s data dec b (fun l hl => h l (by simp [Key.leaves, hl]))
    exact ⟨.or ca cb, by simp [build, hca, hcb, bind, Except.bind],
      fun seq m hm => by simp [COp.eval, sat, halla seq m hm, hallb seq m hm, bind, Except.bind]⟩
  | .list ks, h => by
    obtain ⟨cs, hcs, hall⟩ := keys_ok s data dec ks (fun l hl => h l (by simpa [Key.leaves] using hl))
    exact ⟨.list cs, by simp [build, hcs, bind, Except.bind],
      fun seq m hm => by simp [COp.eval, sat, hall seq m hm]⟩
theorem keys_ok (s : Snap) (data : MsgId → MsgData) (dec : Bytes → Option Bytes) :
    ∀ ks : List Key, (∀ l ∈ Key.leavesAll ks, LeafOK s data dec l) →
      ∃ cs, buildList s dec ks = .ok cs ∧ ∀ seq, ∀ m ∈ s,
        COp.evalList ⟨seq, m, data m.id⟩ cs = .ok (satAll (boxOf s) dec (toMsg seq m (data m.id)) ks)
  | [], _ => ⟨[], rfl, fun _ _ _ => rfl⟩
  | k :: ks, h => by
    obtain ⟨c, hc, hallc⟩ := key_ok s data dec k (fun l hl => h l (by simp [Key.leavesAll, hl]))
    obtain ⟨cs, hcs, hall⟩ := keys_ok s data dec ks (fun l hl => h l (by simp [Key.leavesAll, hl]))
    refine ⟨c :: cs, by simp [buildList, hc, hcs, bind, Except.bind], fun seq m hm => ?_⟩
    simp only [COp.evalList, satAll, bind, Except.bind, hallc seq m hm, hall seq m hm]
    cases sat (boxOf s) dec (toMsg seq m (data m.id)) k <;> simp
end

theorem evalAll_pure (data : MsgId → MsgData) (p : Msg → Bool) (i : Nat) (l : List SMsg) :
    evalAll (fun seq m => .ok (p (toMsg seq m (data m.id)))) i l = .ok ((viewFrom data i l).map p) := by
  induction l generalizing i with
  | nil => rfl
  | cons m rest ih => simp [evalAll, viewFrom, bind, Except.bind, ih]

theorem nums_eq_view (u : Bool) (data : MsgId → MsgData) (i : Nat) (l : List SMsg) :
    nums u i l = (viewFrom data i l).map (fun m => if u then m.uid else m.seq) := by
  induction l generalizing i with
  | nil => rfl
  | cons m rest ih => simp [nums, viewFrom, ih, toMsg]

/-- under the named hypotheses the model answers exactly what the RFC asks for -/
theorem search_conforming (u : Bool) (s : Snap) (data : MsgId → MsgData) (dec : Bytes → Option Bytes) (keys : List Key)
    (hpos : u = true → UidsPos s) (hc : Conforming s data dec keys) :
    search u s data dec keys = .ok (expected u s data dec keys) := by
  rw [search_eq u s data dec keys hpos]
  obtain ⟨cs, hcs, hall⟩ := keys_ok s data dec keys hc
  rw [hcs]
  simp only [bind, Except.bind]
  rw [evalAll_congr (g := fun seq m => .ok (satAll (boxOf s) dec (toMsg seq m (data m.id)) keys)) 0 s (by
    intro seq m hm
    have hn : ((COp.needsList cs).header && (data m.id).hdr.isNone) = false := by
      cases hq : (COp.needsList cs).header
      · rfl
      · obtain ⟨l, hl, hu⟩ := buildList_needs s dec keys cs hcs hq
        have hsome := leafOK_headers hu (hc l hl) m hm
        cases hd : (data m.id).hdr with
        | none => rw [hd] at hsome; simp at hsome
        | some _ => rfl
    simp only [applySearch, buildSearchData_of hn, bind, Except.bind]
    exact hall seq m hm)]
  rw [evalAll_pure data (fun x => satAll (boxOf s) dec x keys)]
  simp only [pure, Except.pure, expected, view]
  rw [nums_eq_view u data, pick_map_filter]

/-! ### shape of every answer; UID SEARCH; n-ary intersection -/

theorem search_ok_pick (u : Bool) (s : Snap) (data : MsgId → MsgData) (dec : Bytes → Option Bytes) (keys : List Key)
    (hpos : u = true → UidsPos s) {r : List Nat} (h : search u s data dec keys = .ok r) :
    ∃ bs : List Bool, bs.length = s.length ∧ r = pick (nums u 0 s) bs := by
  rw [search_eq u s data dec keys hpos] at h
  simp only [bind, Except.bind, pure, Except.pure] at h
  cases hb : buildList s dec keys with
  | error e => rw [hb] at h; cases h
  | ok op =>
    rw [hb] at h
    simp only at h
    cases he : evalAll (fun seq m => applySearch (COp.needsList op) op seq m (data m.id)) 0 s with
    | error e => rw [he] at h; cases h
    | ok bs =>
      rw [he] at h
      cases h
      exact ⟨bs, evalAll_length he, rfl⟩

theorem pick_map (f : Nat → Nat) (ns : List Nat) (bs : List Bool) : pick (ns.map f) bs = (pick ns bs).map f := by
  induction ns generalizing bs with
  | nil => simp [pick]
  | cons n ns ih =>
    cases bs with
    | nil => simp [pick]
    | cons b bs => cases b <;> simp [pick, ih]

/-- the UID of the message with sequence number `seq` (0 if there is none) -/
def uidAt (s : Snap) (seq : Nat) : Nat := ((s[seq - 1]?).map (·.uid)).getD 0

theorem uids_eq_map_uidAt (s : Snap) : s.map (·.uid) = (List.range' 1 s.length).map (uidAt s) := by
  apply List.ext_getElem
  · simp
  · intro i h1 h2
    simp only [List.length_map] at h1
    simp [uidAt, List.getElem_range', h1]

/-- UID SEARCH = SEARCH with every sequence number replaced by that message's UID (failures included) -/
theorem search_uid_eq (s : Snap) (data : MsgId → MsgData) (dec : Bytes → Option Bytes) (keys : List Key)
    (hpos : UidsPos s) :
    search true s data dec keys = (search false s data dec keys).map (fun r => r.map (uidAt s)) := by
  rw [search_eq true s data dec keys (fun _ => hpos), search_eq false s data dec keys (fun h => by cases h)]
  cases buildList s dec keys with
  | error e => rfl
  | ok op =>
    simp only [bind, Except.bind, pure, Except.pure]
    cases evalAll (fun seq m => applySearch (COp.needsList op) op seq m (data m.id)) 0 s with
    | error e => rfl
    | ok bs =>
      simp only [Except.map]
      rw [nums_true, nums_false, uids_eq_map_uidAt, pick_map]

theorem contains_filter_of_mem {ns : List Nat} {p : Nat → Bool} {n : Nat} (h : n ∈ ns) :
    (ns.filter p).contains n = p n := by
  rw [Bool.eq_iff_iff]
  simp [List.mem_filter, h]

/-- keys side by side: when every key can be searched on its own (`res k` its answer), the intersection -/
theorem search_all (u : Bool) (s : Snap) (data : MsgId → MsgData) (dec : Bytes → Option Bytes)
    (hinv : Snap.Inv s) (hpos : u = true → UidsPos s) (ks : List Key) (res : Key → List Nat)
    (h : ∀ k ∈ ks, search u s data dec [k] = .ok (res k)) :
    search u s data dec ks = .ok ((nums u 0 s).filter (fun n => ks.all (fun k => (res k).contains n))) := by
  induction ks with
  | nil =>
    rw [search_nil u s data dec hpos]
    simp only [List.all_nil]
    congr 1
    exact (List.filter_eq_self.mpr (fun _ _ => rfl)).symm
  | cons k ks ih =>
    rw [search_cons u s data dec _ _ hinv hpos (h k (by simp)) (ih (fun k' hk' => h k' (List.mem_cons_of_mem _ hk')))]
    congr 1
    apply List.filter_congr
    intro n hn
    rw [contains_filter_of_mem hn]
    simp

theorem search_ascending (u : Bool) (s : Snap) (data : MsgId → MsgData) (dec : Bytes → Option Bytes) (keys : List Key)
    (hinv : Snap.Inv s) (hpos : u = true → UidsPos s) {r : List Nat} (h : search u s data dec keys = .ok r) :
    r.Pairwise (· < ·) ∧ r.Sublist (nums u 0 s) := by
  obtain ⟨bs, _, rfl⟩ := search_ok_pick u s data dec keys hpos h
  exact ⟨(nums_ascending u s hinv).sublist (pick_sublist _ _), pick_sublist _ _⟩

end Search
end Gluon
