/-
`Plain p`: on input without `{` (so that no literal can be announced), the parsing function `p` — whatever its
outcome — has moved over neither a CR nor an LF: the bytes between where it started and where it stands
(look-ahead included in "where it stands") contain no line-end byte. `Parse` as a whole moves over exactly
one CR (its final `Consume(CR)`) and stops with the LF as look-ahead; everything before that is `Plain`.
This is what makes a "line" of the session's reader loop the bytes up to the FIRST LF
(`Gluon.SessionLoop.readStep_one_lf`). By composition (type class resolution over the `do` blocks) and by
induction for the loops, like `NoPanic`; `parseLiteral` by hand (it cannot get past its `{`).
-/
import GluonModel.Lemmas.ParseTerm

namespace Gluon.Parse

set_option synthInstance.maxSize 4096
set_option synthInstance.maxHeartbeats 400000

set_option maxRecDepth 100000 in
theorem tokNat_lcurly : ∀ n, n < 256 → (tokNat n = .lcurly ↔ n = 123) := by decide +kernel

theorem tokTy_lcurly (b : UInt8) : tokTy b = .lcurly ↔ b = 123 := by
  rw [tokTy_eq_tokNat, tokNat_lcurly _ b.toNat_lt]
  constructor
  · intro h; exact byte_eq_of_toNat (by decide) h
  · intro h; subst h; rfl

/-- no `{` -/
def NoCurly (l : Bytes) : Prop := (123 : UInt8) ∉ l
/-- neither LF nor CR -/
def Clean (l : Bytes) : Prop := (10 : UInt8) ∉ l ∧ (13 : UInt8) ∉ l

theorem Clean.nil : Clean [] := ⟨by simp, by simp⟩
theorem Clean.append {a b : Bytes} (ha : Clean a) (hb : Clean b) : Clean (a ++ b) :=
  ⟨by simp [ha.1, hb.1], by simp [ha.2, hb.2]⟩
theorem Clean.single {v : UInt8} (h10 : v ≠ 10) (h13 : v ≠ 13) : Clean [v] :=
  ⟨by simp; exact fun h => h10 h.symm, by simp; exact fun h => h13 h.symm⟩

theorem NoCurly.of_append {a b : Bytes} (h : NoCurly (a ++ b)) : NoCurly b := by
  unfold NoCurly at *
  intro hb
  exact h (List.mem_append_right _ hb)

/-- the state an outcome carries is loaded, and the bytes between `s` and it are clean -/
def Res.PlainFrom (r : Res α) (s : PState) : Prop :=
  match r with
  | .ok _ s' => Loaded s' ∧ ∃ C, s.input = C ++ s'.input ∧ Clean C
  | .err _ s' => Loaded s' ∧ ∃ C, s.input = C ++ s'.input ∧ Clean C
  | .fuel => True

class Plain (p : P α) : Prop where
  plain : ∀ s, Loaded s → NoCurly s.input → (p s).PlainFrom s

theorem Plain.ok {α : Type} {p : P α} [m : Plain p] {s : PState} {a : α} {s' : PState} (hl : Loaded s)
    (hn : NoCurly s.input) (h : p s = .ok a s') : Loaded s' ∧ ∃ C, s.input = C ++ s'.input ∧ Clean C := by
  have := m.plain s hl hn; rw [h] at this; exact this
theorem Plain.err {α : Type} {p : P α} [m : Plain p] {s : PState} {e : PErr} {s' : PState} (hl : Loaded s)
    (hn : NoCurly s.input) (h : p s = .err e s') : Loaded s' ∧ ∃ C, s.input = C ++ s'.input ∧ Clean C := by
  have := m.plain s hl hn; rw [h] at this; exact this

theorem plainFrom_same {α : Type} (s : PState) (hl : Loaded s) :
    (Loaded s ∧ ∃ C, s.input = C ++ s.input ∧ Clean C) := ⟨hl, [], by simp, Clean.nil⟩

instance : Plain (pure a : P α) := ⟨fun s hl _ => plainFrom_same (α := α) s hl⟩
instance (x : P α) (f : α → P β) [hx : Plain x] [hf : ∀ a, Plain (f a)] : Plain (x >>= f) := ⟨by
  intro s hl hn
  rw [bind_eq]
  cases hxs : x s with
  | ok a s1 =>
    obtain ⟨hl1, C1, h1, c1⟩ := Plain.ok hl hn hxs
    have hn1 : NoCurly s1.input := by rw [h1] at hn; exact hn.of_append
    have h2 := (hf a).plain s1 hl1 hn1
    simp only
    cases hf2 : f a s1 with
    | ok b s2 =>
      rw [hf2] at h2
      obtain ⟨hl2, C2, h2', c2⟩ := h2
      exact ⟨hl2, C1 ++ C2, by rw [h1, h2']; simp, c1.append c2⟩
    | err e s2 =>
      rw [hf2] at h2
      obtain ⟨hl2, C2, h2', c2⟩ := h2
      exact ⟨hl2, C1 ++ C2, by rw [h1, h2']; simp, c1.append c2⟩
    | fuel => trivial
  | err e s1 => exact Plain.err hl hn hxs
  | fuel => trivial⟩
instance (c : Prop) [Decidable c] (p q : P α) [hp : Plain p] [hq : Plain q] : Plain (if c then p else q) := ⟨by
  intro s hl hn
  split
  · exact hp.plain s hl hn
  · exact hq.plain s hl hn⟩
instance : Plain (outOfFuel : P α) := ⟨fun _ _ _ => trivial⟩
instance : Plain (makeError : P α) := ⟨fun s hl _ => plainFrom_same (α := α) s hl⟩
instance : Plain (makeErrorAt : P α) := ⟨fun s hl _ => plainFrom_same (α := α) s hl⟩
instance : Plain (fail e : P α) := ⟨fun s hl _ => plainFrom_same (α := α) s hl⟩
instance : Plain (check t) := ⟨fun s hl _ => plainFrom_same (α := Bool) s hl⟩
instance : Plain (checkWith f) := ⟨fun s hl _ => plainFrom_same (α := Bool) s hl⟩
instance : Plain prevVal := ⟨fun s hl _ => plainFrom_same (α := UInt8) s hl⟩
instance : Plain curVal := ⟨fun s hl _ => plainFrom_same (α := UInt8) s hl⟩
instance : Plain bumpConts := ⟨fun s hl _ => ⟨hl, [], by simp [PState.input], Clean.nil⟩⟩

/-- a token class that contains neither CR nor LF -/
class PlainTok (f : TokTy → Bool) : Prop where
  cr : f .cr = false
  lf : f .lf = false

instance : PlainTok isAStringChar := ⟨by decide, by decide⟩
instance : PlainTok isAtomChar := ⟨by decide, by decide⟩
instance : PlainTok isListChar := ⟨by decide, by decide⟩
instance : PlainTok isTagChar := ⟨by decide, by decide⟩
instance : PlainTok isQuotedSpecial := ⟨by decide, by decide⟩
instance : PlainTok isQuotedChar := ⟨by decide, by decide⟩

/-- a token type that is neither CR nor LF -/
class NotCRLF (t : TokTy) : Prop where
  cr : t ≠ .cr
  lf : t ≠ .lf

instance [h : NotCRLF t] : PlainTok (fun x => x == t) :=
  ⟨by simp; exact fun e => h.cr e.symm, by simp; exact fun e => h.lf e.symm⟩

instance : NotCRLF .char := ⟨by decide, by decide⟩
instance : NotCRLF .colon := ⟨by decide, by decide⟩
instance : NotCRLF .digit := ⟨by decide, by decide⟩
instance : NotCRLF .dquote := ⟨by decide, by decide⟩
instance : NotCRLF .greater := ⟨by decide, by decide⟩
instance : NotCRLF .less := ⟨by decide, by decide⟩
instance : NotCRLF .lbracket := ⟨by decide, by decide⟩
instance : NotCRLF .rbracket := ⟨by decide, by decide⟩
instance : NotCRLF .lparen := ⟨by decide, by decide⟩
instance : NotCRLF .rparen := ⟨by decide, by decide⟩
instance : NotCRLF .minus := ⟨by decide, by decide⟩
instance : NotCRLF .plus := ⟨by decide, by decide⟩
instance : NotCRLF .period := ⟨by decide, by decide⟩
instance : NotCRLF .comma := ⟨by decide, by decide⟩
instance : NotCRLF .sp := ⟨by decide, by decide⟩
instance : NotCRLF .asterisk := ⟨by decide, by decide⟩
instance : NotCRLF .backslash := ⟨by decide, by decide⟩
instance : NotCRLF .lcurly := ⟨by decide, by decide⟩
instance : NotCRLF .rcurly := ⟨by decide, by decide⟩

/-- `Advance` from a loaded state whose current token is accepted by a class without CR / LF -/
theorem advance_plain (f : TokTy → Bool) [hf : PlainTok f] (s : PState) (hl : Loaded s) (hc : f s.cur.ty = true) :
    ∃ s', advance s = .ok () s' ∧ Loaded s' ∧ ∃ C, s.input = C ++ s'.input ∧ Clean C := by
  obtain ⟨s', e, hi, hl'⟩ := advance_input s
  refine ⟨s', e, hl', ?_⟩
  by_cases he : s.cur.ty = .eof
  · have hr := hl.1 he
    refine ⟨[], ?_, Clean.nil⟩
    rw [hi, hr]
    simp [PState.input, he, hr]
  · have hty := hl.2 he
    refine ⟨[s.cur.val], ?_, ?_⟩
    · rw [hi]; simp [PState.input, he]
    · apply Clean.single
      · intro h10
        have : s.cur.ty = .lf := by rw [hty, h10]; rfl
        rw [this, hf.lf] at hc; cases hc
      · intro h13
        have : s.cur.ty = .cr := by rw [hty, h13]; rfl
        rw [this, hf.cr] at hc; cases hc

instance [PlainTok f] : Plain (consumeWith f) := ⟨by
  intro s hl _
  unfold consumeWith
  split
  · rename_i hc
    obtain ⟨s', e, hl', h⟩ := advance_plain f s hl hc
    rw [e]; exact ⟨hl', h⟩
  · exact plainFrom_same (α := Unit) s hl⟩
instance [NotCRLF t] : Plain (consume t) := inferInstanceAs (Plain (consumeWith _))
instance [PlainTok f] : Plain (matchesWith f) := ⟨by
  intro s hl _
  unfold matchesWith
  split
  · rename_i hc
    obtain ⟨s', e, hl', h⟩ := advance_plain f s hl hc
    rw [bind_eq, e]; exact ⟨hl', h⟩
  · exact plainFrom_same (α := Bool) s hl⟩
instance [NotCRLF t] : Plain (matchesTy t) := inferInstanceAs (Plain (matchesWith _))

/-- a keyword none of whose bytes is (or lower-cases to) CR or LF -/
class PlainBytes (l : Bytes) : Prop where
  ok : ∀ c ∈ l, byteToLower c ≠ 10 ∧ byteToLower c ≠ 13 ∧ c ≠ 10 ∧ c ≠ 13

instance : PlainBytes (kw "FLAGS") := ⟨by decide⟩
instance : PlainBytes (kw "SILENT") := ⟨by decide⟩
instance : PlainBytes (kw "PEEK") := ⟨by decide⟩
instance : PlainBytes (kw "822") := ⟨by decide⟩
instance : PlainBytes (kw "HARSET") := ⟨by decide⟩
instance : PlainBytes (kw "NIL") := ⟨by decide⟩

theorem byteToLower_10 : byteToLower 10 = 10 := by decide
theorem byteToLower_13 : byteToLower 13 = 13 := by decide

/-- `Advance` over a byte that is known not to be a line end -/
theorem advance_plain_val (s : PState) (hl : Loaded s) (h10 : s.cur.ty ≠ .eof → s.cur.val ≠ 10)
    (h13 : s.cur.ty ≠ .eof → s.cur.val ≠ 13) :
    ∃ s', advance s = .ok () s' ∧ Loaded s' ∧ ∃ C, s.input = C ++ s'.input ∧ Clean C := by
  obtain ⟨s', e, hi, hl'⟩ := advance_input s
  refine ⟨s', e, hl', ?_⟩
  by_cases he : s.cur.ty = .eof
  · have hr := hl.1 he
    refine ⟨[], ?_, Clean.nil⟩
    rw [hi, hr]
    simp [PState.input, he, hr]
  · refine ⟨[s.cur.val], ?_, Clean.single (h10 he) (h13 he)⟩
    rw [hi]; simp [PState.input, he]

theorem plain_consumeBytes (l : Bytes) (hb : ∀ c ∈ l, c ≠ 10 ∧ c ≠ 13) : Plain (consumeBytes l) := by
  induction l with
  | nil => exact inferInstanceAs (Plain (pure ()))
  | cons c cs ih =>
    have ih' := ih (fun x hx => hb x (List.mem_cons_of_mem _ hx))
    refine ⟨fun s hl hn => ?_⟩
    unfold consumeBytes
    split
    · exact plainFrom_same (α := Unit) s hl
    · rename_i hv
      have hv' : s.cur.val = c := by simpa using hv
      have hc := hb c (List.mem_cons_self ..)
      obtain ⟨s', e, hl', C, hC, cC⟩ := advance_plain_val s hl (fun _ => by rw [hv']; exact hc.1) (fun _ => by rw [hv']; exact hc.2)
      rw [bind_eq, e]
      simp only
      have hn' : NoCurly s'.input := by rw [hC] at hn; exact hn.of_append
      have h2 := ih'.plain s' hl' hn'
      cases hf2 : consumeBytes cs s' with
      | ok b s2 =>
        rw [hf2] at h2
        obtain ⟨hl2, C2, h2', c2⟩ := h2
        exact ⟨hl2, C ++ C2, by rw [hC, h2']; simp, cC.append c2⟩
      | err e2 s2 =>
        rw [hf2] at h2
        obtain ⟨hl2, C2, h2', c2⟩ := h2
        exact ⟨hl2, C ++ C2, by rw [hC, h2']; simp, cC.append c2⟩
      | fuel => trivial
instance [h : PlainBytes l] : Plain (consumeBytes l) := plain_consumeBytes l (fun c hc => ⟨(h.ok c hc).2.2.1, (h.ok c hc).2.2.2⟩)

theorem plain_consumeBytesFold (l : Bytes) (hb : ∀ c ∈ l, byteToLower c ≠ 10 ∧ byteToLower c ≠ 13) :
    Plain (consumeBytesFold l) := by
  induction l with
  | nil => exact inferInstanceAs (Plain (pure ()))
  | cons c cs ih =>
    have ih' := ih (fun x hx => hb x (List.mem_cons_of_mem _ hx))
    refine ⟨fun s hl hn => ?_⟩
    unfold consumeBytesFold
    split
    · exact plainFrom_same (α := Unit) s hl
    · rename_i hv
      have hv' : byteToLower s.cur.val = byteToLower c := by simpa using hv
      have hc := hb c (List.mem_cons_self ..)
      obtain ⟨s', e, hl', C, hC, cC⟩ := advance_plain_val s hl
        (fun _ h10 => by rw [h10, byteToLower_10] at hv'; exact hc.1 hv'.symm)
        (fun _ h13 => by rw [h13, byteToLower_13] at hv'; exact hc.2 hv'.symm)
      rw [bind_eq, e]
      simp only
      have hn' : NoCurly s'.input := by rw [hC] at hn; exact hn.of_append
      have h2 := ih'.plain s' hl' hn'
      cases hf2 : consumeBytesFold cs s' with
      | ok b s2 =>
        rw [hf2] at h2
        obtain ⟨hl2, C2, h2', c2⟩ := h2
        exact ⟨hl2, C ++ C2, by rw [hC, h2']; simp, cC.append c2⟩
      | err e2 s2 =>
        rw [hf2] at h2
        obtain ⟨hl2, C2, h2', c2⟩ := h2
        exact ⟨hl2, C ++ C2, by rw [hC, h2']; simp, cC.append c2⟩
      | fuel => trivial
instance [h : PlainBytes l] : Plain (consumeBytesFold l) :=
  plain_consumeBytesFold l (fun c hc => ⟨(h.ok c hc).1, (h.ok c hc).2.1⟩)

theorem plain_collectLoop (f : TokTy → Bool) [PlainTok f] (n : Nat) : Plain (collectLoop f n) := by
  induction n with
  | zero => exact inferInstanceAs (Plain outOfFuel)
  | succ n ih => unfold collectLoop; infer_instance
instance [PlainTok f] : Plain (collectLoop f n) := plain_collectLoop f n
instance [PlainTok f] : Plain (collectWhile f n) := plain_collectLoop f n
instance [PlainTok f] : Plain (collectWhilePrev f n) := by unfold collectWhilePrev; infer_instance

theorem plain_numberLoop (n : Nat) : ∀ acc, Plain (numberLoop n acc) := by
  induction n with
  | zero => intro acc; exact inferInstanceAs (Plain outOfFuel)
  | succ n ih => intro acc; unfold numberLoop; infer_instance
instance : Plain (numberLoop n acc) := plain_numberLoop n acc
instance : Plain (parseNumber n) := by unfold parseNumber; infer_instance


theorem plain_numberNLoop (n : Nat) : ∀ acc, Plain (numberNLoop n acc) := by
  induction n with
  | zero => intro acc; exact inferInstanceAs (Plain (pure acc))
  | succ n ih => intro acc; unfold numberNLoop; infer_instance
instance : Plain (numberNLoop n acc) := plain_numberNLoop n acc
instance : Plain (parseNumberN n) := by unfold parseNumberN; infer_instance
instance : Plain (parseAtom n) := by unfold parseAtom; infer_instance

theorem plain_quotedLoop (n : Nat) : Plain (quotedLoop n) := by
  induction n with
  | zero => exact inferInstanceAs (Plain outOfFuel)
  | succ n ih => unfold quotedLoop; infer_instance
instance : Plain (quotedLoop n) := plain_quotedLoop n
instance : Plain (parseQuoted n) := by unfold parseQuoted; infer_instance

instance : Plain (bumpContsIf b) := by unfold bumpContsIf; infer_instance

/-- `ParseLiteral` cannot get past its `{` on input without `{` -/
instance : Plain (parseLiteral fuel) := ⟨by
  intro s hl hn
  unfold parseLiteral
  rw [bind_eq]
  cases hc : consume TokTy.lcurly s with
  | ok u s1 =>
    exfalso
    unfold consume consumeWith at hc
    split at hc
    · rename_i hcur
      have hty : s.cur.ty = .lcurly := by simpa using hcur
      have hne : s.cur.ty ≠ .eof := by rw [hty]; decide
      have hv : s.cur.val = 123 := (tokTy_lcurly s.cur.val).mp (by rw [← hl.2 hne]; exact hty)
      apply hn
      rw [input_of_cur_ne hne, hv]
      exact List.mem_cons_self ..
    · cases hc
  | err e s1 => exact Plain.err hl hn hc
  | fuel => trivial⟩

instance : Plain (parseString n) := by unfold parseString; infer_instance
instance : Plain (parseAString n) := by unfold parseAString; infer_instance
instance : Plain (tryParseString n) := by unfold tryParseString; infer_instance


theorem plain_sepLoop (sep : TokTy) [NotCRLF sep] (item : P α) [Plain item] (n : Nat) : Plain (sepLoop sep item n) := by
  induction n with
  | zero => exact inferInstanceAs (Plain outOfFuel)
  | succ n ih => unfold sepLoop; infer_instance
instance (sep : TokTy) [NotCRLF sep] (item : P α) [Plain item] : Plain (sepLoop sep item n) := plain_sepLoop sep item n

instance : Plain (readKeyword fuel) := by unfold readKeyword; infer_instance
instance : Plain (parseMailbox fuel) := by unfold parseMailbox; infer_instance
instance : Plain (parseListMailbox fuel) := by unfold parseListMailbox; infer_instance
instance : Plain (parseFlag fuel) := by unfold parseFlag; infer_instance
instance : Plain (parseFlagList fuel) := by unfold parseFlagList; infer_instance
instance : Plain (tryParseFlagList fuel) := by unfold tryParseFlagList; infer_instance
instance : Plain (parseNZNumber fuel) := by unfold parseNZNumber; infer_instance
instance : Plain (parseSeqNumber fuel) := by unfold parseSeqNumber; infer_instance
instance : Plain (parseSeqRange fuel) := by unfold parseSeqRange; infer_instance
instance : Plain (parseSeqSet fuel) := by unfold parseSeqSet; infer_instance
instance : Plain parseDateDayFixed := by unfold parseDateDayFixed; infer_instance
instance : Plain parseDateMonth := by
  unfold parseDateMonth
  have : ∀ o : Option Int, Plain (match o with | some m => (pure m : P Int) | none => makeError) := by
    intro o; cases o <;> infer_instance
  infer_instance
instance : Plain parseDateYear := by unfold parseDateYear; infer_instance
instance : Plain parseZone := by unfold parseZone; infer_instance
instance : Plain parseTime := by unfold parseTime; infer_instance
instance : Plain parseDateTime := by
  unfold parseDateTime
  have : ∀ (year month day : Int) (t : Int × Int × Int), Plain (match t with
      | (h, m, s) => do
        consume .sp
        let zone ← parseZone
        consume .dquote
        pure (DateTime.mk year month day h m s zone) : P DateTime) := by
    intro y mo d t; obtain ⟨h, m, s⟩ := t; infer_instance
  infer_instance
instance : Plain parseDateText := by unfold parseDateText; infer_instance
instance : Plain parseDate := by unfold parseDate; infer_instance
instance : Plain (parseMailboxCmd mk fuel) := by unfold parseMailboxCmd; infer_instance
instance : Plain (parseLogin fuel) := by unfold parseLogin; infer_instance
instance : Plain (parseRename fuel) := by unfold parseRename; infer_instance
instance : Plain (parseListCmd mk fuel) := by unfold parseListCmd; infer_instance
instance : Plain (parseStatusAttribute fuel) := by unfold parseStatusAttribute; infer_instance
instance : Plain (parseStatus fuel) := by unfold parseStatus; infer_instance
instance : Plain (parseStoreFlags fuel) := by
  unfold parseStoreFlags
  have : ∀ o : Option (List BStr), Plain (match o with
      | some fl => (pure fl : P (List BStr))
      | none => do
        let f ← parseFlag fuel
        let r ← sepLoop .sp (parseFlag fuel) fuel
        pure (f :: r)) := by
    intro o; cases o <;> infer_instance
  infer_instance
instance : Plain (parseStore fuel) := by unfold parseStore; infer_instance
instance : Plain (parseCopyMove mk fuel) := by unfold parseCopyMove; infer_instance
instance : Plain (parseHeaderList fuel) := by unfold parseHeaderList; infer_instance
instance : Plain (parseHeaderFields fuel) := by unfold parseHeaderFields; infer_instance
instance : Plain (handleSectionMessageText t fuel) := by unfold handleSectionMessageText; infer_instance
instance : Plain (parseSectionText fuel) := by unfold parseSectionText; infer_instance
instance : Plain (parseSectionMsgText fuel) := by unfold parseSectionMsgText; infer_instance
theorem plain_sectionPartLoop (fuel n : Nat) : Plain (sectionPartLoop fuel n) := by
  induction n with
  | zero => exact inferInstanceAs (Plain outOfFuel)
  | succ n ih => unfold sectionPartLoop; infer_instance
instance : Plain (sectionPartLoop fuel n) := plain_sectionPartLoop fuel n
instance : Plain (parseSectionPart fuel) := by unfold parseSectionPart; infer_instance
instance : Plain (parseSectionSpec fuel) := by unfold parseSectionSpec; infer_instance
instance : Plain (handleBodyFetchAttribute fuel) := by unfold handleBodyFetchAttribute; infer_instance
instance : Plain (handleRFC822FetchAttribute fuel) := by unfold handleRFC822FetchAttribute; infer_instance
instance : Plain (handleFetchAttribute name fuel) := by unfold handleFetchAttribute; infer_instance
instance : Plain (parseFetchAttribute fuel) := by unfold parseFetchAttribute; infer_instance
instance : Plain (parseFetchAttributes fuel) := by unfold parseFetchAttributes; infer_instance
instance : Plain (parseFetch fuel) := by unfold parseFetch; infer_instance
instance [NotCRLF t] : Plain (consumeIf b t) := by unfold consumeIf; infer_instance
instance : Plain appendDateTime := by unfold appendDateTime; infer_instance
instance : Plain (parseAppend fuel) := by unfold parseAppend; infer_instance
instance (p : P α) [Plain p] : Plain (spThen p) := by unfold spThen; infer_instance
instance (recKey : P SearchKey) [Plain recKey] : Plain (handleSearchKey recKey k fuel) := by unfold handleSearchKey; infer_instance
instance (recKey : P SearchKey) [Plain recKey] : Plain (parseSearchKeyList recKey fuel) := by unfold parseSearchKeyList; infer_instance
theorem plain_parseSearchKey (d fuel : Nat) : Plain (parseSearchKey d fuel) := by
  induction d with
  | zero => unfold parseSearchKey; infer_instance
  | succ d ih => unfold parseSearchKey; infer_instance
instance : Plain (parseSearchKey d fuel) := plain_parseSearchKey d fuel
instance : Plain (searchFirst fuel) := by unfold searchFirst; infer_instance
instance : Plain (parseSearch fuel) := by
  unfold parseSearch
  have : ∀ x : BStr × List SearchKey, Plain (match x with
      | (charset, first) => do
        let more ← sepLoop .sp (parseSearchKey searchBudget fuel) fuel
        let keys := first ++ more
        if keys.isEmpty then makeError
        else pure (Cmd.search charset keys) : P Cmd) := by
    intro x; obtain ⟨a, b⟩ := x; infer_instance
  infer_instance
instance : Plain (dispatchUID c fuel) := by unfold dispatchUID; infer_instance
instance : Plain (parseUID fuel) := by unfold parseUID; infer_instance
instance : Plain (parseNString fuel) := by
  unfold parseNString
  have : ∀ o : Option Bytes, Plain (match o with
      | some s => (pure (some s) : P (Option BStr))
      | none => do
        consumeBytesFold (kw "NIL")
        pure none) := by
    intro o; cases o <;> infer_instance
  infer_instance
theorem plain_idLoop (fuel n : Nat) : ∀ m, Plain (idLoop fuel n m) := by
  induction n with
  | zero => intro m; exact inferInstanceAs (Plain outOfFuel)
  | succ n ih =>
    intro m
    unfold idLoop
    have : ∀ o : Option Bytes, Plain (match o with
        | none => (pure m : P (List (BStr × BStr)))
        | some key => do
          consume .sp
          let v ← parseNString fuel
          let atEnd ← check .rparen
          consumeIf (!atEnd) .sp
          idLoop fuel n (mapInsert m key (v.getD []))) := by
      intro o; cases o <;> infer_instance
    infer_instance
instance : Plain (idLoop fuel n m) := plain_idLoop fuel n m
instance : Plain (parseID fuel) := by unfold parseID; infer_instance
instance : Plain (parseTag fuel) := by unfold parseTag; infer_instance
instance : Plain (dispatchCommand c fuel) := by unfold dispatchCommand; infer_instance
instance : Plain (parseCommand fuel) := by unfold parseCommand; infer_instance

end Gluon.Parse
