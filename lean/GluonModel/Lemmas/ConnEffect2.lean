/-
Effect lemmas for C06, second part: MessageDeleted, MessageMailboxesUpdated, UIDValidityBumped.
-/
import GluonModel.Lemmas.ConnMembership

namespace Gluon.ConnUpd

theorem sameMsgsExcept_congr (skip : RID → Bool) (db db' db'' : DB) (h : db'.msgs = db''.msgs) :
    sameMsgsExcept skip db db' = sameMsgsExcept skip db db'' := by
  simp [sameMsgsExcept, DB.msgByRid, h]

theorem mboxByIid_congr (db db' : DB) (h : db'.mboxes = db.mboxes) (i : Nat) : db'.mboxByIid i = db.mboxByIid i := by
  simp [DB.mboxByIid, h]

theorem msgByRid_congr (db db' : DB) (h : db'.msgs = db.msgs) (r : RID) : db'.msgByRid r = db.msgByRid r := by
  simp [DB.msgByRid, h]

theorem msgByIid_congr (db db' : DB) (h : db'.msgs = db.msgs) (i : Nat) : db'.msgByIid i = db.msgByIid i := by
  simp [DB.msgByIid, h]

theorem mailboxesOf_congr (db db' : DB) (h : db'.mboxes = db.mboxes) (i : Nat) : db'.mailboxesOf i = db.mailboxesOf i := by
  simp [DB.mailboxesOf, h]

theorem all_known_of_iids (db db' : DB) (h : db'.mboxes.map (·.iid) = db.mboxes.map (·.iid)) :
    db'.mboxes.all (fun m' => (db.mboxByIid m'.iid).isSome) = true := by
  rw [List.all_eq_true]
  intro m' hm'
  apply mem_iids_isSome
  rw [← h]
  exact List.mem_map_of_mem hm'

theorem mboxByIid_of_mem' {db : DB} (hib : nodupKeys (fun m : Mbox => m.iid) db.mboxes = true) {m : Mbox}
    (hm : m ∈ db.mboxes) : db.mboxByIid m.iid = some m :=
  find?_of_mem (fun m : Mbox => m.iid) db.mboxes m hib hm

theorem contains_mailboxesOf' {db : DB} (hib : nodupKeys (fun m : Mbox => m.iid) db.mboxes = true) {m : Mbox}
    (hm : m ∈ db.mboxes) (msg : Nat) : (db.mailboxesOf msg).contains m.iid = m.has msg := by
  rw [Bool.eq_iff_iff, List.contains_iff_mem, mem_mailboxesOf]
  constructor
  · rintro ⟨m2, hm2, hhas, hiid⟩
    have : m2 = m := eq_of_key_eq (fun m : Mbox => m.iid) db.mboxes m2 m hib hm2 hm hiid
    rw [← this]; exact hhas
  · intro h; exact ⟨m, hm, h, rfl⟩

theorem contains_mailboxesOf {db : DB} (hi : InvP db) {m : Mbox} (hm : m ∈ db.mboxes) (msg : Nat) :
    (db.mailboxesOf msg).contains m.iid = m.has msg := contains_mailboxesOf' hi.mboxIid hm msg

/-- the pointwise description of a membership change implies `membershipSet` -/
theorem membershipSet_of_pointwise (db db' : DB) (hi : InvP db) (g : Msg) (hg : g ∈ db.msgs) (tr : List RID)
    (hiids : db'.mboxes.map (·.iid) = db.mboxes.map (·.iid))
    (hpt : ∀ m ∈ db.mboxes, db'.mboxByIid m.iid =
      some (if tr.contains m.rid then (if m.has g.iid then m else growBy (g.iid, g.rid) m) else strip g.iid m)) :
    membershipSet db db' g.rid tr = true := by
  simp only [membershipSet, Bool.and_eq_true]
  refine ⟨?_, all_known_of_iids db db' hiids⟩
  rw [List.all_eq_true]
  intro m hm
  rw [hpt m hm]
  by_cases ht : tr.contains m.rid = true
  · simp only [ht, if_true]
    by_cases hh : m.has g.iid = true
    · have hr : m.hasRid g.rid = true := (has_iff_hasRid hi hg hm).1 hh
      simp [hh, hr, metaSame_refl, mboxSame_refl]
    · have hh' : m.has g.iid = false := by simpa using hh
      have hr : m.hasRid g.rid = false := by
        cases h : m.hasRid g.rid with
        | false => rfl
        | true => rw [(has_iff_hasRid hi hg hm).2 h] at hh'; cases hh'
      simp [hh', hr, growBy, metaSame, Row.key]
  · have ht' : tr.contains m.rid = false := by simpa using ht
    simp only [ht', Bool.false_eq_true, if_false]
    rw [strip_rows_eq hi hg hm]
    simp [strip, metaSame]

theorem removeFromAll_eq (db : DB) (msg : Nat) (L : List Nat) (r : DB × List Ev) (h : removeFromAll db msg L = r) :
    MboxFrame db r.1 ∧ ∀ j, r.1.mboxByIid j = (db.mboxByIid j).map (fun m => if L.contains m.iid then strip msg m else m) := by
  rw [← h]; exact removeFromAll_spec msg L db

theorem strip_eq_self_of_not_has (m : Mbox) (msg : Nat) (h : m.has msg = false) : strip msg m = m := by
  simp only [strip]
  have : m.rows.filter (fun r => r.msg != msg) = m.rows := by
    rw [List.filter_eq_self]
    simp only [Mbox.has, List.any_eq_false, beq_iff_eq] at h
    intro r hr; simpa using h r hr
  rw [this]

theorem eff_MSD (cfg : Cfg) (db : DB) (hi : InvP db) (rid : RID)
    (hv : Valid cfg db (.messageDeleted rid) = true) :
    Applied (.messageDeleted rid) db (applyMessageDeleted db rid) := by
  simp only [Valid] at hv
  obtain ⟨g, hl⟩ := Option.isSome_iff_exists.1 hv
  obtain ⟨hm, hd⟩ := liveMsg_some hl
  obtain ⟨hmem, hgr⟩ := msgByRid_some hm
  unfold applyMessageDeleted
  simp only [hm]
  generalize hr : removeFromAll (db.updMsg g.iid (fun m => { m with deleted := true })) g.iid
      ((db.updMsg g.iid (fun m => { m with deleted := true })).mailboxesOf g.iid) = r
  obtain ⟨db2, evs⟩ := r
  obtain ⟨hfr, hpt⟩ := removeFromAll_eq _ _ _ _ hr
  simp only at hfr hpt
  refine ⟨rfl, ?_⟩
  simp only [Res.ok, effectOK, Bool.and_eq_true]
  have hmb1 : (db.updMsg g.iid (fun m => { m with deleted := true })).mboxes = db.mboxes := rfl
  have hmsgs : db2.msgs = (db.updMsg g.iid (fun m => { m with deleted := true })).msgs := hfr.msgs
  have hpt' : ∀ m ∈ db.mboxes, db2.mboxByIid m.iid = some (strip g.iid m) := by
    intro m hmm
    rw [hpt m.iid, mboxByIid_congr db _ hmb1, mboxByIid_of_mem hi hmm, mailboxesOf_congr db _ hmb1]
    simp only [Option.map_some, Option.some.injEq, contains_mailboxesOf hi hmm]
    split
    · rfl
    · rename_i hh
      exact (strip_eq_self_of_not_has m g.iid (by simpa using hh)).symm
  refine ⟨⟨⟨?_, ?_⟩, ?_⟩, ?_⟩
  · rw [← hgr]
    -- membership: target = []
    simp only [membershipSet, Bool.and_eq_true]
    refine ⟨?_, all_known_of_iids db db2 hfr.iids⟩
    rw [List.all_eq_true]
    intro m hmm
    rw [hpt' m hmm]
    have := strip_rows_eq hi hmem hmm
    simp only [strip] at this
    simp [this, strip, metaSame]
  · have : db2.msgByRid rid = some { g with deleted := true } := by
      have h2 := msgByRid_updMsg db g.iid (fun m => { m with deleted := true }) (fun _ => rfl) rid
      rw [msgByRid_congr _ db2 hmsgs, h2, hm]
      simp
    simp [DB.liveMsg, this]
  · rw [sameMsgsExcept_congr _ db db2 _ hmsgs, ← hgr]
    exact sameMsgsExcept_updMsg db hi g hmem _ (fun _ => rfl)
  · exact sameDelSubs_of_eq _ _ hfr.delSubs


/-! ### setMessageMailboxes -/

theorem nodup_map_of_nodupKeys {α κ : Type} [BEq κ] [LawfulBEq κ] (f : α → κ) :
    ∀ l : List α, nodupKeys f l = true → (l.map f).Nodup := by
  intro l
  induction l with
  | nil => intro _; exact List.nodup_nil
  | cons a as ih =>
    intro h
    rw [nodupKeys_cons] at h
    rw [List.map_cons, List.nodup_cons]
    refine ⟨?_, ih h.2⟩
    intro hmem
    rw [List.mem_map] at hmem
    obtain ⟨y, hy, he⟩ := hmem
    have := h.1 y hy
    rw [he] at this
    simp at this

theorem contains_filter (l : List Nat) (p : Nat → Bool) (x : Nat) : (l.filter p).contains x = (l.contains x && p x) := by
  rw [Bool.eq_iff_iff]
  simp [List.mem_filter]

theorem setMessageMailboxes_spec' (cfg : Cfg) (db : DB) (hib : nodupKeys (fun m : Mbox => m.iid) db.mboxes = true)
    (g : Msg) (hfree : ∀ m ∈ db.mboxes, m.has g.iid = false → freeOf (g.iid, g.rid) m = true) (target : List Nat)
    (hnd : target.Nodup) (hex : ∀ i ∈ target, ∃ m ∈ db.mboxes, m.iid = i)
    (hroom : ∀ m ∈ db.mboxes, roomFor cfg m 1 = true) :
    ∃ db' evs, setMessageMailboxes cfg db g target = .ok (db', evs) ∧ MboxFrame db db' ∧
      ∀ m ∈ db.mboxes, db'.mboxByIid m.iid =
        some (if target.contains m.iid then (if m.has g.iid then m else growBy (g.iid, g.rid) m) else strip g.iid m) := by
  have hadds_nd : (target.filter (fun m => !(db.mailboxesOf g.iid).contains m)).Nodup :=
    List.Nodup.sublist (List.filter_sublist) hnd
  have hpre : ∀ i ∈ target.filter (fun m => !(db.mailboxesOf g.iid).contains m),
      ∃ M, db.mboxByIid i = some M ∧ roomFor cfg M 1 = true ∧ freeOf (g.iid, g.rid) M = true := by
    intro i hi'
    rw [List.mem_filter] at hi'
    obtain ⟨m, hm, rfl⟩ := hex i hi'.1
    refine ⟨m, mboxByIid_of_mem' hib hm, hroom m hm, ?_⟩
    apply hfree m hm
    rw [← contains_mailboxesOf' hib hm]
    simpa using hi'.2
  obtain ⟨db1, evs1, hadd, hfr1, hpt1⟩ := addToAll_spec cfg (g.iid, g.rid) _ db hadds_nd hpre
  generalize hr : removeFromAll db1 g.iid ((db.mailboxesOf g.iid).filter (fun m => !target.contains m)) = r
  obtain ⟨db2, evs2⟩ := r
  obtain ⟨hfr2, hpt2⟩ := removeFromAll_eq _ _ _ _ hr
  simp only at hfr2 hpt2
  refine ⟨db2, evs1 ++ evs2, ?_, hfr1.trans hfr2, ?_⟩
  · unfold setMessageMailboxes
    simp only [hadd, hr]
  · intro m hm
    rw [hpt2 m.iid, hpt1 m.iid, mboxByIid_of_mem' hib hm]
    have hc := contains_mailboxesOf' hib hm g.iid
    have hgi : ∀ c : Bool, (if c = true then growBy (g.iid, g.rid) m else m).iid = m.iid := by
      intro c; cases c <;> rfl
    simp only [Option.map_some, Option.some.injEq, contains_filter, hgi, hc]
    cases ht : target.contains m.iid <;> cases hh : m.has g.iid <;>
      simp only [Bool.and_true, Bool.and_false, Bool.not_true, Bool.not_false, Bool.true_and, Bool.false_and,
        if_true, if_false, Bool.false_eq_true]
    · exact (strip_eq_self_of_not_has m g.iid hh).symm

theorem setMessageMailboxes_spec (cfg : Cfg) (db : DB) (hi : InvP db) (g : Msg) (hg : g ∈ db.msgs) (target : List Nat)
    (hnd : target.Nodup) (hex : ∀ i ∈ target, ∃ m ∈ db.mboxes, m.iid = i)
    (hroom : ∀ m ∈ db.mboxes, roomFor cfg m 1 = true) :
    ∃ db' evs, setMessageMailboxes cfg db g target = .ok (db', evs) ∧ MboxFrame db db' ∧
      ∀ m ∈ db.mboxes, db'.mboxByIid m.iid =
        some (if target.contains m.iid then (if m.has g.iid then m else growBy (g.iid, g.rid) m) else strip g.iid m) :=
  setMessageMailboxes_spec' cfg db hi.mboxIid g (fun m hm h => freeOf_of_not_has hi hg hm h) target hnd hex hroom

theorem target_contains_iff {db : DB} (hi : InvP db) (mbs : List RID) {m : Mbox} (hm : m ∈ db.mboxes) :
    ((db.mboxes.filter (fun m => mbs.contains m.rid)).map (·.iid)).contains m.iid = mbs.contains m.rid := by
  rw [Bool.eq_iff_iff]
  simp only [List.contains_iff_mem, List.mem_map, List.mem_filter]
  constructor
  · rintro ⟨m2, ⟨hm2, hc⟩, hiid⟩
    have : m2 = m := eq_of_key_eq (fun m : Mbox => m.iid) db.mboxes m2 m hi.mboxIid hm2 hm hiid
    rw [← this]; exact hc
  · intro h; exact ⟨m, ⟨hm, h⟩, rfl⟩

theorem setMessageFlags_ok' (db : DB) (g : Msg) (hfind : db.msgByIid g.iid = some g) (flags : List Flag) :
    ∃ evs, setMessageFlags db g.iid flags =
      .ok (db.updMsg g.iid (fun x => { x with flags := flagsAfter g.flags flags }), evs) := by
  unfold setMessageFlags
  rw [hfind]
  exact ⟨_, rfl⟩

theorem eff_MMU (cfg : Cfg) (db : DB) (hi : InvP db) (rid : RID) (mbs : List RID) (flags : List Flag)
    (hv : Valid cfg db (.messageMailboxesUpdated rid mbs flags) = true) :
    Applied (.messageMailboxesUpdated rid mbs flags) db (applyMessageMailboxesUpdated cfg db rid mbs flags) := by
  simp only [Valid, Bool.and_eq_true, Bool.not_eq_true', List.all_eq_true] at hv
  obtain ⟨⟨hp, hlive⟩, hroom⟩ := hv
  obtain ⟨g, hl⟩ := Option.isSome_iff_exists.1 hlive
  obtain ⟨hm, hd⟩ := liveMsg_some hl
  obtain ⟨hmem, hgr⟩ := msgByRid_some hm
  have hnd : ((db.mboxes.filter (fun m => mbs.contains m.rid)).map (·.iid)).Nodup :=
    List.Nodup.sublist (List.Sublist.map _ List.filter_sublist) (nodup_map_of_nodupKeys (fun m : Mbox => m.iid) _ hi.mboxIid)
  have hex : ∀ i ∈ (db.mboxes.filter (fun m => mbs.contains m.rid)).map (·.iid), ∃ m ∈ db.mboxes, m.iid = i := by
    intro i hi'
    simp only [List.mem_map, List.mem_filter] at hi'
    obtain ⟨m, ⟨hmm, _⟩, rfl⟩ := hi'
    exact ⟨m, hmm, rfl⟩
  obtain ⟨db1, evs1, hset, hfr, hpt⟩ := setMessageMailboxes_spec cfg db hi g hmem _ hnd hex hroom
  have hfind : db1.msgByIid g.iid = some g := by
    rw [msgByIid_congr db db1 hfr.msgs]; exact msgByIid_of_mem hi hmem
  obtain ⟨evs2, hfl⟩ := setMessageFlags_ok' db1 g hfind flags
  unfold applyMessageMailboxesUpdated
  simp only [hp, Bool.false_eq_true, if_false, hm, hset, hfl]
  refine ⟨rfl, ?_⟩
  simp only [Res.ok, effectOK, Bool.and_eq_true]
  have hmsgs : (db1.updMsg g.iid (fun x => { x with flags := flagsAfter g.flags flags })).msgs
      = (db.updMsg g.iid (fun x => { x with flags := flagsAfter g.flags flags })).msgs := by
    simp [DB.updMsg, hfr.msgs]
  refine ⟨⟨⟨?_, ?_⟩, ?_⟩, ?_⟩
  · rw [← hgr]
    apply membershipSet_of_pointwise db _ hi g hmem mbs
    · exact hfr.iids
    · intro m hmm
      have := hpt m hmm
      rw [target_contains_iff hi mbs hmm] at this
      rw [← this]
      rfl
  · rw [← hgr]
    exact liveWithFlags_updMsg db hi g hmem hd (flagsAfter g.flags flags) flags (flags_after_sameSet g.flags flags) _ hmsgs
  · rw [sameMsgsExcept_congr _ db _ _ hmsgs, ← hgr]
    exact sameMsgsExcept_updMsg db hi g hmem _ (fun _ => rfl)
  · exact sameDelSubs_of_eq _ _ hfr.delSubs

/-! ### UIDValidityBumped -/

theorem bumpAll_find (i : Nat) : ∀ (l : List Mbox) (g : Nat) (m : Mbox),
    l.find? (fun x => x.iid == i) = some m →
    ∃ v, g < v ∧ v ≤ g + l.length ∧ (bumpAll g l).find? (fun x => x.iid == i) = some { m with uidv := v } := by
  intro l
  induction l with
  | nil => intro g m h; simp at h
  | cons a as ih =>
    intro g m h
    simp only [List.find?_cons] at h
    simp only [bumpAll, List.find?_cons, List.length_cons]
    cases ha : (a.iid == i) with
    | true =>
      simp only [ha] at h
      cases h
      exact ⟨g + 1, by omega, by omega, rfl⟩
    | false =>
      simp only [ha] at h
      obtain ⟨v, h1, h2, h3⟩ := ih (g + 1) m h
      exact ⟨v, by omega, by omega, h3⟩

theorem bumpAll_iids : ∀ (l : List Mbox) (g : Nat), (bumpAll g l).map (·.iid) = l.map (·.iid) := by
  intro l
  induction l with
  | nil => intro g; rfl
  | cons a as ih => intro g; simp [bumpAll, ih]

theorem bumpAll_uidv_bounds : ∀ (l : List Mbox) (g : Nat), ∀ x ∈ bumpAll g l, g < x.uidv := by
  intro l
  induction l with
  | nil => intro g x hx; cases hx
  | cons a as ih =>
    intro g x hx
    simp only [bumpAll, List.mem_cons] at hx
    rcases hx with rfl | hx
    · simp
    · have := ih (g + 1) x hx; omega

theorem bumpAll_nodup : ∀ (l : List Mbox) (g : Nat), nodupKeys (fun m : Mbox => m.uidv) (bumpAll g l) = true := by
  intro l
  induction l with
  | nil => intro g; rfl
  | cons a as ih =>
    intro g
    simp only [bumpAll]
    rw [nodupKeys_cons]
    refine ⟨?_, ih (g + 1)⟩
    intro y hy
    have := bumpAll_uidv_bounds as (g + 1) y hy
    simp only [beq_eq_false_iff_ne, ne_eq]
    omega

theorem eff_UVB (db : DB) (hi : InvP db) : Applied .uidValidityBumped db (applyUIDValidityBumped db) := by
  refine ⟨rfl, ?_⟩
  simp only [applyUIDValidityBumped, Res.ok, effectOK, Bool.and_eq_true]
  refine ⟨⟨⟨⟨sameMsgsExcept_of_eq _ _ _ hi rfl, sameDelSubs_of_eq _ _ rfl⟩, ?_⟩, ?_⟩, ?_⟩
  · rw [List.all_eq_true]
    intro m hm
    have hf := mboxByIid_of_mem hi hm
    simp only [DB.mboxByIid] at hf
    obtain ⟨v, h1, _, h3⟩ := bumpAll_find m.iid db.mboxes db.gen m hf
    simp only [DB.mboxByIid, h3]
    simp [mboxSame_refl, h1]
  · exact all_known_of_iids db { db with mboxes := bumpAll db.gen db.mboxes, gen := db.gen + db.mboxes.length }
      (bumpAll_iids db.mboxes db.gen)
  · exact bumpAll_nodup db.mboxes db.gen

end Gluon.ConnUpd
