/- C15: a schedule that covers the view computes what the sequential loop computes (helper lemmas). -/
import GluonModel.Model.SearchSched

namespace Gluon
namespace Search

/-- what a successful sequential loop has computed, slot by slot -/
theorem searchLoop_spec (apply : Nat → SMsg → Except SErr Bool) (mapFn : Nat → SMsg → Nat) :
    ∀ (l : List SMsg) (i : Nat) (r : List Nat), searchLoop apply mapFn i l = .ok r →
      r.length = l.length ∧
      ∀ j (hj : j < l.length), ∃ b, apply (i + j + 1) l[j] = .ok b ∧
        r[j]? = some (if b then mapFn (i + j + 1) l[j] else 0) := by
  intro l
  induction l with
  | nil => intro i r h; simp [searchLoop] at h; subst h; simp
  | cons m rest ih =>
    intro i r h
    simp only [searchLoop, bind, Except.bind] at h
    cases hap : apply (i + 1) m with
    | error e => rw [hap] at h; simp at h
    | ok b =>
      rw [hap] at h
      cases hsl : searchLoop apply mapFn (i + 1) rest with
      | error e => rw [hsl] at h; simp at h
      | ok tl =>
        rw [hsl] at h
        simp only [Except.ok.injEq] at h
        subst h
        obtain ⟨hlen, hslots⟩ := ih (i + 1) tl hsl
        refine ⟨by simp [hlen], ?_⟩
        intro j hj
        cases j with
        | zero => exact ⟨b, by simpa using hap, by simp⟩
        | succ j =>
          obtain ⟨b', hb', hr'⟩ := hslots j (by simpa using hj)
          refine ⟨b', ?_, ?_⟩
          · have : i + (j + 1) + 1 = i + 1 + j + 1 := by omega
            simpa [this] using hb'
          · have : i + (j + 1) + 1 = i + 1 + j + 1 := by omega
            simpa [this] using hr'

/-- a failing sequential loop has a failing call -/
theorem searchLoop_error (apply : Nat → SMsg → Except SErr Bool) (mapFn : Nat → SMsg → Nat) :
    ∀ (l : List SMsg) (i : Nat) (e : SErr), searchLoop apply mapFn i l = .error e →
      ∃ j, ∃ (hj : j < l.length), ∃ e', apply (i + j + 1) l[j] = .error e' := by
  intro l
  induction l with
  | nil => intro i e h; simp [searchLoop] at h
  | cons m rest ih =>
    intro i e h
    simp only [searchLoop, bind, Except.bind] at h
    cases hap : apply (i + 1) m with
    | error e' => exact ⟨0, by simp, e', by simpa using hap⟩
    | ok b =>
      rw [hap] at h
      cases hsl : searchLoop apply mapFn (i + 1) rest with
      | ok tl => rw [hsl] at h; simp at h
      | error e'' =>
        obtain ⟨j, hj, e', he'⟩ := ih (i + 1) e'' hsl
        refine ⟨j + 1, by simpa using hj, e', ?_⟩
        have : i + (j + 1) + 1 = i + 1 + j + 1 := by omega
        simpa [this] using he'

/-- the result array while a schedule runs: the slots of the calls made so far (`done`) hold their final value,
    the others are still zero -/
def SlotsDone (r : List Nat) (done : List Nat) (arr : List Nat) : Prop :=
  arr.length = r.length ∧ ∀ j, j < r.length → arr[j]? = some (if j ∈ done then r.getD j 0 else 0)

theorem callSlot_step (apply : Nat → SMsg → Except SErr Bool) (mapFn : Nat → SMsg → Nat) (s : List SMsg)
    (r : List Nat) (hr : searchLoop apply mapFn 0 s = .ok r) (done arr : List Nat) (i : Nat) (hi : i < s.length)
    (hinv : SlotsDone r done arr) :
    ∃ arr', callSlot apply mapFn s i arr = .ok arr' ∧ SlotsDone r (i :: done) arr' := by
  obtain ⟨hlen, hslots⟩ := searchLoop_spec apply mapFn s 0 r hr
  obtain ⟨b, hb, hri⟩ := hslots i hi
  obtain ⟨halen, harr⟩ := hinv
  have hsi : s[i]? = some s[i] := List.getElem?_eq_getElem hi
  have hb' : apply (i + 1) s[i] = .ok b := by simpa using hb
  have hri' : r.getD i 0 = if b then mapFn (i + 1) s[i] else 0 := by
    simp only [List.getD_eq_getElem?_getD, hri, Option.getD_some]; simp
  simp only [callSlot, hsi, hb', bind, Except.bind]
  cases b with
  | false =>
    refine ⟨arr, rfl, halen, ?_⟩
    intro j hj
    rw [harr j hj]
    by_cases hji : j = i
    · subst hji
      simp only [List.mem_cons, true_or, if_true]
      simp at hri'
      split <;> simp [hri']
    · simp [hji]
  | true =>
    refine ⟨arr.set i (mapFn (i + 1) s[i]), rfl, by simp [halen], ?_⟩
    intro j hj
    by_cases hji : j = i
    · subst hji
      simp at hri'
      rw [List.getElem?_set_self (by omega)]
      simp [hri']
    · have hij : i ≠ j := fun h => hji h.symm
      rw [List.getElem?_set_ne hij, harr j hj]
      simp [hji]

theorem runCalls_ok (apply : Nat → SMsg → Except SErr Bool) (mapFn : Nat → SMsg → Nat) (s : List SMsg)
    (r : List Nat) (hr : searchLoop apply mapFn 0 s = .ok r) :
    ∀ (order done arr : List Nat), (∀ j ∈ order, j < s.length) → SlotsDone r done arr →
      ∃ arr', runCalls apply mapFn s order arr = .ok arr' ∧ SlotsDone r (order.reverse ++ done) arr' := by
  intro order
  induction order with
  | nil => intro done arr _ hinv; exact ⟨arr, rfl, by simpa using hinv⟩
  | cons i rest ih =>
    intro done arr hlt hinv
    obtain ⟨arr1, h1, hinv1⟩ := callSlot_step apply mapFn s r hr done arr i (hlt i (by simp)) hinv
    obtain ⟨arr2, h2, hinv2⟩ := ih (i :: done) arr1 (fun j hj => hlt j (by simp [hj])) hinv1
    refine ⟨arr2, ?_, ?_⟩
    · simp [runCalls, h1, h2, bind, Except.bind]
    · simpa using hinv2

/-- **a covering schedule computes the result array of the sequential loop** -/
theorem searchSched_ok (apply : Nat → SMsg → Except SErr Bool) (mapFn : Nat → SMsg → Nat) (s : List SMsg)
    (order : List Nat) (hc : Covers order s.length) (r : List Nat) (hr : searchLoop apply mapFn 0 s = .ok r) :
    searchSched apply mapFn s order = .ok r := by
  obtain ⟨hlen, _⟩ := searchLoop_spec apply mapFn s 0 r hr
  have h0 : SlotsDone r [] (List.replicate s.length 0) := by
    refine ⟨by simp [hlen], ?_⟩
    intro j hj
    simp [hlen ▸ hj]
  obtain ⟨arr, harr, hl, hslots⟩ := runCalls_ok apply mapFn s r hr order [] _ (fun j hj => (hc j).1 hj) h0
  rw [searchSched, harr]
  congr 1
  apply List.ext_getElem? 
  intro j
  by_cases hj : j < r.length
  · rw [hslots j hj]
    have : j ∈ order := (hc j).2 (hlen ▸ hj)
    simp [this, List.getD_eq_getElem?_getD, List.getElem?_eq_getElem hj]
  · have h1 : arr[j]? = none := by rw [List.getElem?_eq_none_iff]; omega
    have h2 : r[j]? = none := by rw [List.getElem?_eq_none_iff]; omega
    rw [h1, h2]

theorem runCalls_error (apply : Nat → SMsg → Except SErr Bool) (mapFn : Nat → SMsg → Nat) (s : List SMsg)
    (j : Nat) (hj : j < s.length) (e : SErr) (he : apply (j + 1) s[j] = .error e) :
    ∀ (order arr : List Nat), j ∈ order → ∃ e', runCalls apply mapFn s order arr = .error e' := by
  intro order
  induction order with
  | nil => intro arr h; simp at h
  | cons i rest ih =>
    intro arr hmem
    simp only [runCalls, bind, Except.bind]
    cases hcs : callSlot apply mapFn s i arr with
    | error e' => exact ⟨e', rfl⟩
    | ok arr' =>
      simp only
      have hne : j ≠ i := by
        intro h; subst h
        simp [callSlot, List.getElem?_eq_getElem hj, he, bind, Except.bind] at hcs
      rcases List.mem_cons.1 hmem with h | h
      · exact absurd h hne
      · exact ih arr' h

/-- **a covering schedule fails when the sequential loop fails** (with the error of some failing call) -/
theorem searchSched_error (apply : Nat → SMsg → Except SErr Bool) (mapFn : Nat → SMsg → Nat) (s : List SMsg)
    (order : List Nat) (hc : Covers order s.length) (e : SErr) (hr : searchLoop apply mapFn 0 s = .error e) :
    ∃ e', searchSched apply mapFn s order = .error e' := by
  obtain ⟨j, hj, e', he'⟩ := searchLoop_error apply mapFn s 0 e hr
  exact runCalls_error apply mapFn s j hj e' (by simpa using he') order _ ((hc j).2 hj)

end Search
end Gluon
