/- Lemmas for C07 over the step-list model of Model/Crash.lean. -/
import GluonModel.Model.Crash

namespace Gluon.Crash

/-! ### A. the log of a run is the log before plus the visible chunks of the committed transactions -/

theorem apply_log (db : DB) (q : Stmt) :
    (db.apply q).log = db.log ++ (if q.visible then [q.name] else []) := by
  unfold DB.apply Stmt.visible
  cases hk : q.kind <;> simp

theorem applyAll_log (b : List Stmt) : ∀ db : DB, (db.applyAll b).log = db.log ++ visNames b := by
  induction b with
  | nil => intro db; simp [DB.applyAll, visNames]
  | cons q b ih =>
    intro db
    have := ih (db.apply q)
    simp only [DB.applyAll, List.foldl_cons] at this ⊢
    rw [this, apply_log]
    by_cases hv : q.visible = true <;> simp [visNames, hv]

theorem run_nil (s : St) : run [] s = s := rfl
theorem run_cons (st : Step) (r : List Step) (s : St) : run (st :: r) s = run r (exec s st) := rfl
theorem run_append (a b : List Step) (s : St) : run (a ++ b) s = run b (run a s) := by
  simp [run, List.foldl_append]

theorem log_run (steps : List Step) : ∀ s : St,
    (run steps s).db.log = s.db.log ++ (chunks steps s.tx).flatten := by
  induction steps with
  | nil => intro s; simp [run, chunks]
  | cons st r ih =>
    intro s
    rw [run_cons, ih]
    cases st with
    | rdBegin => simp [exec, chunks]
    | rd n => simp [exec, chunks]
    | get id => simp [exec, chunks]
    | list => simp [exec, chunks]
    | txBegin => simp [exec, chunks]
    | stmt q => cases h : s.tx <;> simp [exec, chunks, h]
    | commit =>
      cases h : s.tx with
      | none => simp [exec, chunks, h]
      | some b =>
        simp only [exec, h, chunks]
        rw [applyAll_log]
        by_cases hv : visNames b = [] <;> simp [hv]
    | setOpen id => simp [exec, chunks]
    | setMid id => simp [exec, chunks]
    | setEnd id l => simp [exec, chunks]
    | del ids => simp [exec, chunks]

/-! ### B. the chunks of a prefix of the steps are a prefix of the chunks -/

theorem chunks_take_prefix (l : List Step) : ∀ (t : Option (List Stmt)) (i : Nat),
    chunks (l.take i) t <+: chunks l t := by
  induction l with
  | nil => intro t i; simp [chunks]
  | cons st r ih =>
    intro t i
    cases i with
    | zero => simp [chunks]
    | succ i =>
      rw [List.take_succ_cons]
      cases st with
      | rdBegin => simpa [chunks] using ih t i
      | rd n => simpa [chunks] using ih t i
      | get id => simpa [chunks] using ih t i
      | list => simpa [chunks] using ih t i
      | txBegin => simpa [chunks] using ih (some []) i
      | stmt q =>
        cases t with
        | none => simpa [chunks] using ih none i
        | some b => simpa [chunks] using ih (some (b ++ [q])) i
      | commit =>
        cases t with
        | none => simpa [chunks] using ih none i
        | some b =>
          simp only [chunks]
          by_cases hv : visNames b = []
          · simpa [hv] using ih none i
          · simp only [hv, if_false]
            exact (List.prefix_cons_inj _).mpr (ih none i)
      | setOpen id => simpa [chunks] using ih t i
      | setMid id => simpa [chunks] using ih t i
      | setEnd id l => simpa [chunks] using ih t i
      | del ids => simpa [chunks] using ih t i

theorem prefix_of_length_le_one {α} {p l : List α} (h : p <+: l) (hl : l.length ≤ 1) : p = [] ∨ p = l := by
  obtain ⟨t, rfl⟩ := h
  cases p with
  | nil => exact Or.inl rfl
  | cons a p' =>
    right
    simp only [List.length_append, List.length_cons] at hl
    have hp : p' = [] := List.eq_nil_of_length_eq_zero (by omega)
    have ht : t = [] := List.eq_nil_of_length_eq_zero (by omega)
    simp [hp, ht]

theorem flatten_chunks_take (steps : List Step) (i : Nat) (h : oneVisibleTx steps = true) :
    (chunks (steps.take i) none).flatten = [] ∨
    (chunks (steps.take i) none).flatten = (chunks steps none).flatten := by
  have hl : (chunks steps none).length ≤ 1 := by simpa [oneVisibleTx] using h
  rcases prefix_of_length_le_one (chunks_take_prefix steps none i) hl with h0 | h1
  · left; simp [h0]
  · right; rw [h1]

theorem recover_log (s : St) : (recover s).db.log = s.db.log := rfl
theorem crash_log (s : St) : (crash s).db.log = s.db.log := rfl
theorem crash_tx (s : St) : (crash s).tx = none := rfl

/-! ### C. recovery -/

theorem recover_db (s : St) : (recover s).db = s.db.purge := rfl
theorem recover_store (s : St) (id : MsgId) :
    (recover s).store id = if s.db.purge.hasRow id then (s.store.del (markedIds s.db)).1 id else none := rfl

theorem mem_contains {l : List MsgId} {id : MsgId} : l.contains id = true ↔ id ∈ l := by
  simp

theorem not_contains {l : List MsgId} {id : MsgId} : l.contains id = false ↔ id ∉ l := by
  rw [← mem_contains]; cases l.contains id <;> simp

theorem hasRow_iff (db : DB) (id : MsgId) : db.hasRow id = true ↔ ∃ r ∈ db.rows, r.id = id := by
  simp [DB.hasRow, List.any_eq_true]

theorem mem_purge (db : DB) (r : Row) : r ∈ db.purge.rows ↔ r ∈ db.rows ∧ r.id ∉ markedIds db := by
  simp only [DB.purge, List.mem_filter, Bool.not_eq_true', not_contains]

theorem marked_mem (db : DB) (r : Row) (h : r ∈ db.rows) (hm : r.marked = true) : r.id ∈ markedIds db := by
  simp only [markedIds, List.mem_map, List.mem_filter]
  exact ⟨r, ⟨h, hm⟩, rfl⟩

theorem recover_noLeftovers (s : St) : NoLeftovers (recover s) := by
  constructor
  · intro id h
    rw [recover_store] at h
    rw [recover_db]
    cases hr : s.db.purge.hasRow id with
    | true => rfl
    | false => simp [hr] at h
  · intro r hr
    rw [recover_db, mem_purge] at hr
    cases hm : r.marked with
    | false => rfl
    | true => exact absurd (marked_mem _ _ hr.1 hm) hr.2

theorem del_other (ids : List MsgId) : ∀ (st : Store) (id : MsgId), id ∉ ids → (st.del ids).1 id = st id := by
  induction ids with
  | nil => intro st id _; rfl
  | cons a r ih =>
    intro st id h
    simp only [List.mem_cons, not_or] at h
    simp only [Store.del]
    cases hs : st a with
    | none => rfl
    | some f =>
      simp only
      rw [ih _ _ h.2]
      simp [Store.remove, h.1]

theorem recover_fetchable (s : St) (h : AllFetchable s) : AllFetchable (recover s) := by
  intro r hr
  rw [recover_db, mem_purge] at hr
  have hfo := h r hr.1
  have hrow : s.db.purge.hasRow r.id = true :=
    (hasRow_iff _ _).mpr ⟨r, (mem_purge _ _).mpr hr, rfl⟩
  have hst : (recover s).store r.id = s.store r.id := by
    rw [recover_store, hrow]; simp only [if_true]
    exact del_other _ _ _ hr.2
  unfold fetchOk at hfo ⊢
  rw [hst]
  exact hfo

/-! ### D. the store discipline keeps every row fetchable (abstract interpretation is sound) -/

/-- the abstract state `a` describes the concrete state `s` -/
structure Rel (a : Abs) (s : St) : Prop where
  rows : ∀ id, s.db.hasRow id = true → a.mayHaveRow id = true
  files : ∀ id f, a.file id = some f → s.store id = some f
  tx : a.tx = s.tx
  redl : ∀ id ∈ a.redl, ∀ r ∈ s.db.rows, r.id = id → r.remote = true ∧ r.lit = litOf id

theorem fetchOk_congr (st : Store) (r r0 : Row) (hi : r0.id = r.id) (hl : r0.lit = r.lit) (hr : r0.remote = r.remote) :
    fetchOk st r = fetchOk st r0 := by
  unfold fetchOk; rw [hi, hl, hr]

theorem fetchOk_put_other (st : Store) (id : MsgId) (f : File) (r : Row) (h : r.id ≠ id) :
    fetchOk (st.put id f) r = fetchOk st r := by
  unfold fetchOk Store.put; simp [h]

theorem not_hasRow_ne (db : DB) (id : MsgId) (h : db.hasRow id = false) : ∀ r ∈ db.rows, r.id ≠ id := by
  intro r hr hc
  have : db.hasRow id = true := by
    simp only [DB.hasRow, List.any_eq_true]; exact ⟨r, hr, by simp [hc]⟩
  simp [this] at h

theorem file_setFile_same (a : Abs) (id : MsgId) (f : File) : (a.setFile id f).file id = some f := by
  simp [Abs.file, Abs.setFile, lookupF]

theorem file_setFile_other (a : Abs) (id id' : MsgId) (f : File) (h : id' ≠ id) :
    (a.setFile id f).file id' = a.file id' := by
  have hne : ¬ id = id' := fun hc => h hc.symm
  simp [Abs.file, Abs.setFile, lookupF, hne]

theorem lookupF_filter (ids : List MsgId) (id : MsgId) (f : File) : ∀ l : List (MsgId × File),
    lookupF (l.filter (fun p => !ids.contains p.1)) id = some f → id ∉ ids ∧ lookupF l id = some f := by
  intro l
  induction l with
  | nil => intro h; simp [lookupF] at h
  | cons p l ih =>
    intro h
    obtain ⟨k, g⟩ := p
    by_cases hk : k ∈ ids
    · have h' : lookupF (l.filter (fun p => !ids.contains p.1)) id = some f := by
        rw [List.filter_cons] at h; simpa [hk] using h
      obtain ⟨hni, hl⟩ := ih h'
      refine ⟨hni, ?_⟩
      have hne : ¬ k = id := fun hc => hni (hc ▸ hk)
      simp [lookupF, hne, hl]
    · have h' : lookupF ((k, g) :: l.filter (fun p => !ids.contains p.1)) id = some f := by
        rw [List.filter_cons] at h; simpa [hk] using h
      by_cases he : k = id
      · subst he
        refine ⟨hk, ?_⟩
        simpa [lookupF] using h'
      · have h'' : lookupF (l.filter (fun p => !ids.contains p.1)) id = some f := by
          simpa [lookupF, he] using h'
        obtain ⟨hni, hl⟩ := ih h''
        exact ⟨hni, by simp [lookupF, he, hl]⟩

theorem file_forget (a : Abs) (ids : List MsgId) (id : MsgId) (f : File)
    (h : (a.forget ids).file id = some f) : id ∉ ids ∧ a.file id = some f :=
  lookupF_filter ids id f a.files h

/-- where the rows after a statement come from -/
theorem row_apply (db : DB) (q : Stmt) (r : Row) (h : r ∈ (db.apply q).rows) :
    (∃ r0 ∈ db.rows, r0.id = r.id ∧ r0.lit = r.lit ∧ r0.remote = r.remote ∧ r.id ∉ stmtDeletes q) ∨
    (r.id ∈ stmtInserts q ∧ r.lit = litOf r.id) := by
  unfold DB.apply at h
  cases he : q.eff with
  | none => left; simp [he] at h; exact ⟨r, h, rfl, rfl, rfl, by simp [stmtDeletes, he]⟩
  | insert ids rem =>
    simp only [he, List.mem_append, List.mem_map] at h
    rcases h with h | ⟨id, hid, rfl⟩
    · left; exact ⟨r, h, rfl, rfl, rfl, by simp [stmtDeletes, he]⟩
    · right; simp [stmtInserts, he, hid]
  | mark ids =>
    simp only [he, List.mem_map] at h
    obtain ⟨r0, hr0, rfl⟩ := h
    left
    refine ⟨r0, hr0, ?_, ?_, ?_, by simp [stmtDeletes, he]⟩ <;> split <;> rfl
  | delete ids =>
    simp only [he, List.mem_filter, Bool.not_eq_true', not_contains] at h
    left; exact ⟨r, h.1, rfl, rfl, rfl, by simpa [stmtDeletes, he] using h.2⟩

theorem row_applyAll (b : List Stmt) : ∀ (db : DB) (r : Row), r ∈ (db.applyAll b).rows →
    ((∃ r0 ∈ db.rows, r0.id = r.id ∧ r0.lit = r.lit ∧ r0.remote = r.remote) ∨
      (r.id ∈ b.flatMap stmtInserts ∧ r.lit = litOf r.id)) ∧
    (r.id ∉ b.flatMap stmtDeletes ∨ r.id ∈ b.flatMap stmtInserts) := by
  induction b with
  | nil => intro db r h; simp [DB.applyAll] at h; exact ⟨Or.inl ⟨r, h, rfl, rfl, rfl⟩, Or.inl (by simp)⟩
  | cons q b ih =>
    intro db r h
    simp only [DB.applyAll, List.foldl_cons] at h
    obtain ⟨h1, h2⟩ := ih (db.apply q) r h
    simp only [List.flatMap_cons, List.mem_append]
    rcases h1 with ⟨r0, hr0, hi, hl, hrm⟩ | ⟨hins, hlit⟩
    · rcases row_apply db q r0 hr0 with ⟨r1, hr1, hi1, hl1, hrm1, hnd⟩ | ⟨hins0, hlit0⟩
      · refine ⟨Or.inl ⟨r1, hr1, hi1.trans hi, hl1.trans hl, hrm1.trans hrm⟩, ?_⟩
        rcases h2 with h2 | h2
        · left; rw [← hi]; intro hc; rcases hc with hc | hc
          · exact hnd hc
          · exact h2 (hi ▸ hc)
        · right; exact Or.inr h2
      · refine ⟨Or.inr ⟨Or.inl (hi ▸ hins0), ?_⟩, Or.inr (Or.inl (hi ▸ hins0))⟩
        rw [← hl, ← hi]; exact hlit0
    · exact ⟨Or.inr ⟨Or.inr hins, hlit⟩, Or.inr (Or.inr hins)⟩

/-- the commit check makes the abstract row knowledge sound -/
theorem rel_commit_rows (a : Abs) (s : St) (b : List Stmt) (hrel : Rel a s)
    (hdis : ∀ id ∈ b.flatMap stmtInserts, id ∉ b.flatMap stmtDeletes)
    (id : MsgId) (h : (s.db.applyAll b).hasRow id = true) : (a.commit b).mayHaveRow id = true := by
  obtain ⟨r, hr, rfl⟩ := (hasRow_iff _ _).mp h
  obtain ⟨h1, h2⟩ := row_applyAll b s.db r hr
  have hnd : r.id ∉ b.flatMap stmtDeletes := by
    rcases h2 with h2 | h2
    · exact h2
    · exact hdis _ h2
  have hsrc : a.mayHaveRow r.id = true ∨ r.id ∈ b.flatMap stmtInserts := by
    rcases h1 with ⟨r0, hr0, hi, _, _⟩ | ⟨hins, _⟩
    · left; exact hrel.rows _ ((hasRow_iff _ _).mpr ⟨r0, hr0, hi⟩)
    · right; exact hins
  cases hid : r.id with
  | new k =>
    rw [hid] at hnd hsrc
    simp only [Abs.mayHaveRow, Abs.commit, mem_contains, List.mem_filter, List.mem_append,
      Bool.not_eq_true', not_contains]
    refine ⟨?_, hnd⟩
    rcases hsrc with hm | hi
    · left; simpa [Abs.mayHaveRow, mem_contains] using hm
    · right; exact ⟨hi, rfl⟩
  | old k =>
    rw [hid] at hnd hsrc
    simp only [Abs.mayHaveRow, Abs.commit, Bool.not_eq_true', not_contains, List.mem_filter,
      List.mem_append, not_and]
    intro hmem
    rcases hmem with hm | hm
    · rcases hsrc with hs | hs
      · simp [Abs.mayHaveRow, hm] at hs
      · exact fun hc => hc hs
    · exact absurd hm.1 hnd

/-- one disciplined step keeps `Rel` and `AllFetchable` -/
theorem step_sound (a : Abs) (s : St) (st : Step) (hrel : Rel a s) (hinv : AllFetchable s)
    (hok : a.ok st = true) : Rel (a.exec st) (exec s st) ∧ AllFetchable (exec s st) := by
  have setCase : ∀ (id : MsgId) (f : File),
      (a.mayHaveRow id = false ∨ (id ∈ a.redl ∧ (f = .partialF ∨ f = .complete (litOf id)))) →
      Rel (a.setFile id f) { s with store := s.store.put id f } ∧ AllFetchable { s with store := s.store.put id f } := by
    intro id f hcase
    refine ⟨⟨hrel.rows, ?_, hrel.tx, hrel.redl⟩, ?_⟩
    · intro id' f' hf
      by_cases he : id' = id
      · subst he; rw [file_setFile_same] at hf; simp [Store.put, ← hf]
      · rw [file_setFile_other _ _ _ _ he] at hf
        simp [Store.put, he, hrel.files id' f' hf]
    · intro r hr
      show fetchOk (s.store.put id f) r = true
      by_cases he : r.id = id
      · rcases hcase with hno | ⟨hmem, hf⟩
        · exfalso
          have hnr : s.db.hasRow id = false := by
            cases hh : s.db.hasRow id with
            | false => rfl
            | true => have := hrel.rows id hh; simp [this] at hno
          exact not_hasRow_ne _ _ hnr r hr he
        · obtain ⟨hrem, hlit⟩ := hrel.redl id hmem r hr he
          unfold fetchOk Store.put
          rcases hf with hf | hf <;> subst hf <;> simp [he, hrem, hlit]
      · rw [fetchOk_put_other _ _ _ _ he]
        exact hinv r hr
  cases st with
  | rdBegin => exact ⟨hrel, hinv⟩
  | rd n => exact ⟨hrel, hinv⟩
  | get id => exact ⟨hrel, hinv⟩
  | list => exact ⟨hrel, hinv⟩
  | txBegin => exact ⟨⟨hrel.rows, hrel.files, rfl, hrel.redl⟩, hinv⟩
  | stmt q =>
    have ht := hrel.tx
    cases h : s.tx with
    | none =>
      have h' : a.tx = none := by rw [ht, h]
      simp only [Abs.exec, exec, h, h']; exact ⟨hrel, hinv⟩
    | some b =>
      have h' : a.tx = some b := by rw [ht, h]
      simp only [Abs.exec, exec, h, h']
      exact ⟨⟨hrel.rows, hrel.files, rfl, hrel.redl⟩, hinv⟩
  | setOpen id =>
    refine setCase id _ ?_
    simp only [Abs.ok, Bool.or_eq_true, Bool.not_eq_true', mem_contains] at hok
    rcases hok with h | h
    · exact Or.inl h
    · exact Or.inr ⟨h, Or.inl rfl⟩
  | setMid id =>
    refine setCase id _ ?_
    simp only [Abs.ok, Bool.or_eq_true, Bool.not_eq_true', mem_contains] at hok
    rcases hok with h | h
    · exact Or.inl h
    · exact Or.inr ⟨h, Or.inl rfl⟩
  | setEnd id l =>
    refine setCase id _ ?_
    simp only [Abs.ok, Bool.or_eq_true, Bool.not_eq_true', Bool.and_eq_true, mem_contains, beq_iff_eq] at hok
    rcases hok with h | ⟨h, hl⟩
    · exact Or.inl h
    · exact Or.inr ⟨h, Or.inr (by rw [hl])⟩
  | del ids =>
    simp only [Abs.ok, List.all_eq_true, Bool.not_eq_true'] at hok
    have hnr : ∀ id ∈ ids, s.db.hasRow id = false := by
      intro id hid
      cases hh : s.db.hasRow id with
      | false => rfl
      | true => have := hrel.rows id hh; have := hok id hid; simp_all
    refine ⟨⟨hrel.rows, ?_, hrel.tx, hrel.redl⟩, ?_⟩
    · intro id f hf
      obtain ⟨hni, hf'⟩ := file_forget a ids id f hf
      show (s.store.del ids).1 id = some f
      rw [del_other _ _ _ hni]; exact hrel.files id f hf'
    · intro r hr
      have hni : r.id ∉ ids := fun hc => not_hasRow_ne _ _ (hnr _ hc) r hr rfl
      show fetchOk (s.store.del ids).1 r = true
      have := hinv r hr
      unfold fetchOk at this ⊢
      rw [del_other _ _ _ hni]; exact this
  | commit =>
    have ht := hrel.tx
    cases h : s.tx with
    | none =>
      have h' : a.tx = none := by rw [ht, h]
      simp only [Abs.exec, exec, h, h']; exact ⟨hrel, hinv⟩
    | some b =>
      have h' : a.tx = some b := by rw [ht, h]
      simp only [Abs.ok, h', List.all_eq_true, Bool.and_eq_true, Bool.not_eq_true', beq_iff_eq,
        not_contains] at hok
      simp only [Abs.exec, exec, h, h']
      have hdis : ∀ id ∈ b.flatMap stmtInserts, id ∉ b.flatMap stmtDeletes := fun id hid => (hok id hid).1.2
      refine ⟨⟨?_, ?_, rfl, ?_⟩, ?_⟩
      · intro id hh; exact rel_commit_rows a s b hrel hdis id hh
      · intro id f hf; exact hrel.files id f (by simpa [Abs.commit, Abs.file] using hf)
      · intro id hid r hr hri
        obtain ⟨h1, _⟩ := row_applyAll b s.db r hr
        rcases h1 with ⟨r0, hr0, hi, hl, hrm⟩ | ⟨hins, _⟩
        · have := hrel.redl id hid r0 hr0 (hi.trans hri)
          rw [← hrm, ← hl]; exact this
        · exact absurd (by simpa [Abs.commit] using hid) ((hok _ hins).2 ∘ (hri ▸ ·))
      · intro r hr
        obtain ⟨h1, _⟩ := row_applyAll b s.db r hr
        rcases h1 with ⟨r0, hr0, hi, hl, hrm⟩ | ⟨hins, hlit⟩
        · show fetchOk s.store r = true
          rw [fetchOk_congr s.store r r0 hi hl hrm]; exact hinv r0 hr0
        · have hfile := hrel.files _ _ (hok _ hins).1.1.1
          show fetchOk s.store r = true
          unfold fetchOk; rw [hfile]; simp [hlit]

theorem disciplinedFrom_take (steps : List Step) : ∀ (a : Abs) (i : Nat),
    disciplinedFrom steps a = true → disciplinedFrom (steps.take i) a = true := by
  induction steps with
  | nil => intro a i h; simp [disciplinedFrom]
  | cons st r ih =>
    intro a i h
    cases i with
    | zero => simp [disciplinedFrom]
    | succ i =>
      simp only [disciplinedFrom, Bool.and_eq_true] at h
      simp only [List.take_succ_cons, disciplinedFrom, Bool.and_eq_true]
      exact ⟨h.1, ih _ _ h.2⟩

def absRun (steps : List Step) (a : Abs) : Abs := steps.foldl Abs.exec a

theorem run_sound' (steps : List Step) : ∀ (a : Abs) (s : St), Rel a s → AllFetchable s →
    disciplinedFrom steps a = true → Rel (absRun steps a) (run steps s) ∧ AllFetchable (run steps s) := by
  induction steps with
  | nil => intro a s hrel hinv _; exact ⟨hrel, hinv⟩
  | cons st r ih =>
    intro a s hrel hinv h
    simp only [disciplinedFrom, Bool.and_eq_true] at h
    obtain ⟨hr', hi'⟩ := step_sound a s st hrel hinv h.1
    rw [run_cons]
    exact ih _ _ hr' hi' h.2

theorem run_sound (steps : List Step) (a : Abs) (s : St) (hrel : Rel a s) (hinv : AllFetchable s)
    (h : disciplinedFrom steps a = true) : AllFetchable (run steps s) :=
  (run_sound' steps a s hrel hinv h).2

theorem rel_crash (a : Abs) (s : St) (h : Rel a s) : Rel { a with tx := none } (crash s) :=
  ⟨h.rows, h.files, rfl, h.redl⟩

/-- no row of the initial state has an id the trace classifies as new -/
def FreshNew (s : St) : Prop := ∀ k, s.db.hasRow (.new k) = false

/-- every row with an id the operation re-downloads can be re-downloaded, and the connector serves the
    acknowledged literal -/
def Redl (s : St) (redl : List MsgId) : Prop :=
  ∀ id ∈ redl, ∀ r ∈ s.db.rows, r.id = id → r.remote = true ∧ r.lit = litOf id

theorem rel_init (s : St) (redl : List MsgId) (hf : FreshNew s) (ht : s.tx = none) (hr : Redl s redl) :
    Rel { redl := redl } s := by
  refine ⟨?_, ?_, by simp [ht], hr⟩
  · intro id h
    cases id with
    | old k => simp [Abs.mayHaveRow]
    | new k => rw [hf k] at h; simp at h
  · intro id f h; simp [Abs.file, lookupF] at h

theorem crash_fetchable (s : St) (h : AllFetchable s) : AllFetchable (crash s) := h

/-! ### E. without re-downloads (`redl = []`) the store discipline keeps every row's COMPLETE cache file -/

theorem cachedOk_fetchOk (st : Store) (r : Row) (h : cachedOk st r = true) : fetchOk st r = true := by
  unfold cachedOk at h
  unfold fetchOk
  split at h
  · next l hl => rw [hl]; exact h
  · exact absurd h (by simp)

theorem cached_fetchable (s : St) (h : AllCached s) : AllFetchable s :=
  fun r hr => cachedOk_fetchOk _ _ (h r hr)

theorem cachedOk_congr (st : Store) (r r0 : Row) (hi : r0.id = r.id) (hl : r0.lit = r.lit) :
    cachedOk st r = cachedOk st r0 := by
  unfold cachedOk; rw [hi, hl]

theorem cachedOk_put_other (st : Store) (id : MsgId) (f : File) (r : Row) (h : r.id ≠ id) :
    cachedOk (st.put id f) r = cachedOk st r := by
  unfold cachedOk Store.put; simp [h]

theorem exec_redl (a : Abs) (st : Step) : (a.exec st).redl = a.redl := by
  cases st <;> simp only [Abs.exec, Abs.setFile, Abs.forget]
  · cases a.tx <;> rfl
  · cases a.tx <;> rfl

theorem absRun_redl (steps : List Step) : ∀ a : Abs, (absRun steps a).redl = a.redl := by
  induction steps with
  | nil => intro a; rfl
  | cons st r ih => intro a; simp only [absRun, List.foldl_cons] at ih ⊢; rw [ih, exec_redl]

/-- one disciplined step of an operation that re-downloads nothing keeps `AllCached` -/
theorem step_cached (a : Abs) (s : St) (st : Step) (hrel : Rel a s) (h0 : a.redl = []) (hinv : AllCached s)
    (hok : a.ok st = true) : AllCached (exec s st) := by
  have noRow : ∀ id, a.mayHaveRow id = false → ∀ r ∈ s.db.rows, r.id ≠ id := by
    intro id hno
    have hnr : s.db.hasRow id = false := by
      cases hh : s.db.hasRow id with
      | false => rfl
      | true => have := hrel.rows id hh; simp [this] at hno
    exact not_hasRow_ne _ _ hnr
  have setCase : ∀ (id : MsgId) (f : File), a.mayHaveRow id = false →
      AllCached { s with store := s.store.put id f } := by
    intro id f hno r hr
    show cachedOk (s.store.put id f) r = true
    rw [cachedOk_put_other _ _ _ _ (noRow id hno r hr)]
    exact hinv r hr
  cases st with
  | rdBegin => exact hinv
  | rd n => exact hinv
  | get id => exact hinv
  | list => exact hinv
  | txBegin => exact fun r hr => hinv r hr
  | stmt q =>
    cases h : s.tx with
    | none => simp only [exec, h]; exact hinv
    | some b => simp only [exec, h]; exact fun r hr => hinv r hr
  | setOpen id =>
    refine setCase id _ ?_
    simpa [Abs.ok, h0] using hok
  | setMid id =>
    refine setCase id _ ?_
    simpa [Abs.ok, h0] using hok
  | setEnd id l =>
    refine setCase id _ ?_
    simpa [Abs.ok, h0] using hok
  | del ids =>
    simp only [Abs.ok, List.all_eq_true, Bool.not_eq_true'] at hok
    intro r hr
    have hni : r.id ∉ ids := fun hc => noRow _ (hok _ hc) r hr rfl
    show cachedOk (s.store.del ids).1 r = true
    have := hinv r hr
    unfold cachedOk at this ⊢
    rw [del_other _ _ _ hni]; exact this
  | commit =>
    have ht := hrel.tx
    cases h : s.tx with
    | none => simp only [exec, h]; exact hinv
    | some b =>
      have h' : a.tx = some b := by rw [ht, h]
      simp only [Abs.ok, h', List.all_eq_true, Bool.and_eq_true, Bool.not_eq_true', beq_iff_eq,
        not_contains] at hok
      simp only [exec, h]
      intro r hr
      obtain ⟨h1, _⟩ := row_applyAll b s.db r hr
      rcases h1 with ⟨r0, hr0, hi, hl, _⟩ | ⟨hins, hlit⟩
      · show cachedOk s.store r = true
        rw [cachedOk_congr s.store r r0 hi hl]; exact hinv r0 hr0
      · have hfile := hrel.files _ _ (hok _ hins).1.1.1
        show cachedOk s.store r = true
        unfold cachedOk; rw [hfile]; simp [hlit]

theorem run_cached (steps : List Step) : ∀ (a : Abs) (s : St), Rel a s → a.redl = [] → AllCached s →
    disciplinedFrom steps a = true →
    Rel (absRun steps a) (run steps s) ∧ AllCached (run steps s) := by
  induction steps with
  | nil => intro a s hrel _ hinv _; exact ⟨hrel, hinv⟩
  | cons st r ih =>
    intro a s hrel h0 hinv h
    simp only [disciplinedFrom, Bool.and_eq_true] at h
    obtain ⟨hr', _⟩ := step_sound a s st hrel (cached_fetchable s hinv) h.1
    have hc' := step_cached a s st hrel h0 hinv h.1
    rw [run_cons]
    exact ih _ _ hr' (by rw [exec_redl]; exact h0) hc' h.2

theorem crash_cached (s : St) (h : AllCached s) : AllCached (crash s) := h

theorem recover_cached (s : St) (h : AllCached s) : AllCached (recover s) := by
  intro r hr
  rw [recover_db, mem_purge] at hr
  have hfo := h r hr.1
  have hrow : s.db.purge.hasRow r.id = true :=
    (hasRow_iff _ _).mpr ⟨r, (mem_purge _ _).mpr hr, rfl⟩
  have hst : (recover s).store r.id = s.store r.id := by
    rw [recover_store, hrow]; simp only [if_true]
    exact del_other _ _ _ hr.2
  unfold cachedOk at hfo ⊢
  rw [hst]
  exact hfo

/-- the state after step `i` failed, the roll-back, and a disciplined error handler -/
theorem fail_cached (steps handler : List Step) (s : St) (i : Nat)
    (hdisc : disciplined steps [] = true) (hh : handlerOk steps handler i [] = true)
    (hfresh : FreshNew s) (htx : s.tx = none) (hinv : AllCached s) :
    AllCached (failAt i steps handler s) := by
  have hrel0 : Rel { redl := [] } s := rel_init s [] hfresh htx (by intro id hid; simp at hid)
  obtain ⟨hrel, hc⟩ := run_cached (steps.take i) _ s hrel0 rfl hinv (disciplinedFrom_take steps _ i hdisc)
  have hrel' := rel_crash _ _ hrel
  have hred : ({ absRun (steps.take i) { redl := [] } with tx := none } : Abs).redl = [] := by
    show (absRun (steps.take i) { redl := [] }).redl = []
    rw [absRun_redl]
  exact (run_cached handler _ _ hrel' hred (crash_cached _ hc) hh).2

end Gluon.Crash
