/-
Round-trip lemmas for the command grammar (`imap/command/*.go`): keywords, lists, mailboxes, and the
commands themselves.
-/
import GluonModel.Lemmas.ParsePrim

namespace Gluon.Parse

/-! ### keywords -/

def isLowerAlpha (b : UInt8) : Prop := 97 ≤ b.toNat ∧ b.toNat ≤ 122
def isCharTok : TokTy → Bool := fun t => t == TokTy.char

set_option maxRecDepth 100000 in
theorem case_facts : ∀ n, n < 256 →
    byteToLower (byteToUpper n.toUInt8) = byteToLower n.toUInt8 ∧
    byteToLower (byteToLower n.toUInt8) = byteToLower n.toUInt8 ∧
    (97 ≤ n ∧ n ≤ 122 → byteToLower n.toUInt8 = n.toUInt8 ∧ tokNat n = .char ∧
      tokTy (byteToUpper n.toUInt8) = .char) := by decide +kernel

theorem byte_ofNat_toNat (b : UInt8) : b.toNat.toUInt8 = b := by
  apply UInt8.toNat_inj.mp
  simp [Nat.toUInt8]

theorem lower_upper (b : UInt8) : byteToLower (byteToUpper b) = byteToLower b := by
  have := (case_facts b.toNat b.toNat_lt).1; rwa [byte_ofNat_toNat] at this
theorem lower_lower (b : UInt8) : byteToLower (byteToLower b) = byteToLower b := by
  have := (case_facts b.toNat b.toNat_lt).2.1; rwa [byte_ofNat_toNat] at this
theorem lower_of_lowerAlpha {b : UInt8} (h : isLowerAlpha b) :
    byteToLower b = b ∧ tokTy b = .char ∧ tokTy (byteToUpper b) = .char := by
  have := (case_facts b.toNat b.toNat_lt).2.2 h; rwa [byte_ofNat_toNat, ← tokTy_eq_tokNat] at this

theorem lowerBytes_kwCase (c : Choices) (k : Bytes) : lowerBytes (kwCase c k) = lowerBytes k := by
  induction k generalizing c with
  | nil => rfl
  | cons b k ih =>
    simp only [kwCase, lowerBytes, List.map_cons] at ih ⊢
    rw [ih]
    split <;> simp [lower_upper, lower_lower]

theorem kwCase_length (c : Choices) (k : Bytes) : (kwCase c k).length = k.length := by
  induction k generalizing c with
  | nil => rfl
  | cons b k ih => simp [kwCase, ih]

theorem kwCase_char (c : Choices) (k : Bytes) (hk : ∀ b ∈ k, isLowerAlpha b) :
    ∀ b ∈ kwCase c k, isCharTok (tokTy b) = true := by
  induction k generalizing c with
  | nil => intro b hb; simp [kwCase] at hb
  | cons x k ih =>
    intro b hb
    simp only [kwCase, List.mem_cons] at hb
    have hx := lower_of_lowerAlpha (hk x (by simp))
    rcases hb with hb | hb
    · subst hb
      split
      · simp [isCharTok, hx.2.2]
      · simp [isCharTok, hx.1, hx.2.1]
    · exact ih c.tl (fun y hy => hk y (by simp [hy])) b hb

theorem lowerBytes_of_lower (k : Bytes) (hk : ∀ b ∈ k, isLowerAlpha b) : lowerBytes k = k := by
  induction k with
  | nil => rfl
  | cons x k ih =>
    simp only [lowerBytes, List.map_cons] at ih ⊢
    rw [ih (fun y hy => hk y (by simp [hy])), (lower_of_lowerAlpha (hk x (by simp))).1]

/-- a keyword in any letter case is read back (lower-cased) by `readKeyword` -/
theorem rt_readKeyword (c : Choices) (k : Bytes) (hk : ∀ b ∈ k, isLowerAlpha b) (fuel : Nat)
    (hf : k.length < fuel) : RT (readKeyword fuel) (kwCase c k) k (nextNot isCharTok) := by
  have h := rt_collectWhile isCharTok (kwCase c k) (kwCase_char c k hk) fuel (by rw [kwCase_length]; exact hf)
  have h2 := RT.map lowerBytes h
  rw [lowerBytes_kwCase, lowerBytes_of_lower k hk] at h2
  exact h2


/-- `ConsumeBytesFold(k...)` accepts `w` when `w` equals `k` up to ASCII letter case -/
theorem rt_consumeBytesFold (k w : Bytes) (h : lowerBytes w = lowerBytes k) :
    RT (consumeBytesFold k) w () anyRest := by
  induction k generalizing w with
  | nil =>
    cases w with
    | nil => exact RT.ret () anyRest
    | cons _ _ => simp [lowerBytes] at h
  | cons x k ih =>
    cases w with
    | nil => simp [lowerBytes] at h
    | cons y w =>
      simp only [lowerBytes, List.map_cons, List.cons.injEq] at h
      intro c rest hr
      obtain ⟨c', e⟩ := ih w h.2 ⟨Tok.ofByte y, y, c.n⟩ rest hr
      refine ⟨c', ?_⟩
      simp only [List.cons_append, consumeBytesFold, load_cur_val, headVal, h.1, bne_self_eq_false,
        Bool.false_eq_true, if_false]
      rw [bind_ok (advance_load c y (w ++ rest))]
      exact e

theorem rt_consumeBytesFold_kw (c : Choices) (k : Bytes) :
    RT (consumeBytesFold k) (kwCase c k) () anyRest :=
  rt_consumeBytesFold k (kwCase c k) (lowerBytes_kwCase c k)

/-! ### separated lists -/

theorem rt_sepLoop {α : Type} (sep : TokTy) (sepB : UInt8) (hsep : tokTy sepB = sep) (item : P α)
    (pr : Choices → α → Bytes) (okI ok : Bytes → Prop) (xs : List α)
    (hitem : ∀ c, ∀ x ∈ xs, RT item (pr c x) x okI)
    (hok1 : ∀ r, ok r → headTy r ≠ sep) (hok2 : ∀ r, ok r → okI r) (hokSep : ∀ r, okI (sepB :: r))
    (fuel : Nat) (hf : xs.length < fuel) (c : Choices) :
    RT (sepLoop sep item fuel) (printSepTail sepB pr c xs) xs ok := by
  induction xs generalizing fuel c with
  | nil =>
    cases fuel with
    | zero => simp at hf
    | succ n =>
      unfold sepLoop printSepTail
      have h := RT.bind (k := fun b => if b = true then item >>= fun x => sepLoop sep item n >>= fun r => pure (x :: r) else pure [])
        (rt_matchesTy_no sep) (by simpa using RT.ret ([] : List α) ok) (fun r hr => by simpa using hok1 r hr)
      simpa using h
  | cons x xs ih =>
    cases fuel with
    | zero => simp at hf
    | succ n =>
      have ih' := ih (fun c y hy => hitem c y (by simp [hy])) n (by simpa using hf) c.r
      have hx := hitem c.l x (by simp)
      unfold sepLoop printSepTail
      have h3 := RT.map (fun r => x :: r) ih'
      have h2 := RT.bind (k := fun x => sepLoop sep item n >>= fun r => pure (x :: r)) hx h3
        (fun r hr => by
          cases xs with
          | nil => simpa [printSepTail] using hok2 r hr
          | cons y ys => simpa [printSepTail] using hokSep _)
      have h1 := RT.bind (k := fun b => if b = true then item >>= fun x => sepLoop sep item n >>= fun r => pure (x :: r) else pure [])
        (rt_matchesTy_yes (b := sepB) hsep anyRest) (by simpa using h2) (fun _ _ => trivial)
      simpa using h1


/-! ### mailboxes and the simple commands -/

theorem RT.bind_nil {p : P α} {k : α → P β} {w : Bytes} {v1 : α} {v2 : β} {ok1 ok2 : Bytes → Prop}
    (h1 : RT p w v1 ok1) (h2 : RT (k v1) [] v2 ok2) (hf : ∀ rest, ok2 rest → ok1 rest) :
    RT (p >>= k) w v2 ok2 :=
  (RT.bind h1 h2 (fun r hr => by simpa using hf r hr)).congr_w (by simp)

/-- an IMAP mailbox name as the parser returns it: `INBOX` in any case is returned as `INBOX` -/
def MboxOK (m : BStr) : Prop := StrOK m ∧ (lowerBytes m = kw "inbox" → m = kw "INBOX")

theorem rt_parseMailbox (c : Choices) (m : BStr) (hm : MboxOK m) (fuel : Nat) (hf : m.length + 1 < fuel) :
    RT (parseMailbox fuel) (printMailbox c m) m (nextNot isAStringChar) := by
  unfold parseMailbox printMailbox
  refine RT.bind_nil (rt_parseAString c.here m hm.1 fuel hf) ?_ (fun _ h => h)
  by_cases h : lowerBytes m = kw "inbox"
  · simp only [h, if_true]
    have := hm.2 h
    exact this ▸ RT.ret (kw "INBOX") _
  · simp only [h, if_false]
    exact RT.ret m _

theorem nextNot_astring_sp (r : Bytes) : nextNot isAStringChar (32 :: r) := by rfl

theorem rt_parseLogin (c : Choices) (u p : BStr) (hu : StrOK u) (hp : StrOK p) (fuel : Nat)
    (hf : u.length + p.length + 2 < fuel) :
    RT (parseLogin fuel) (32 :: (printAString c.r.l.here u ++ (32 :: printAString c.r.r.here p)))
      (.login u p) (nextNot isAStringChar) := by
  unfold parseLogin
  refine RT.bind (w1 := [32]) (rt_consume rfl anyRest) ?_ (fun _ _ => trivial)
  refine RT.bind (rt_parseAString _ u hu fuel (by omega)) ?_ (fun r _ => nextNot_astring_sp _)
  refine RT.bind (w1 := [32]) (rt_consume rfl anyRest) ?_ (fun _ _ => trivial)
  exact RT.map _ (rt_parseAString _ p hp fuel (by omega))

theorem rt_parseMailboxCmd (mk : BStr → Cmd) (c : Choices) (m : BStr) (hm : MboxOK m) (fuel : Nat)
    (hf : m.length + 1 < fuel) :
    RT (parseMailboxCmd mk fuel) (32 :: printMailbox c m) (mk m) (nextNot isAStringChar) := by
  unfold parseMailboxCmd
  refine RT.bind (w1 := [32]) (rt_consume rfl anyRest) ?_ (fun _ _ => trivial)
  exact RT.map _ (rt_parseMailbox c m hm fuel hf)

theorem rt_parseRename (c : Choices) (a b : BStr) (ha : MboxOK a) (hb : MboxOK b) (fuel : Nat)
    (hf : a.length + b.length + 2 < fuel) :
    RT (parseRename fuel) (32 :: (printMailbox c.r.l a ++ (32 :: printMailbox c.r.r b)))
      (.rename a b) (nextNot isAStringChar) := by
  unfold parseRename
  refine RT.bind (w1 := [32]) (rt_consume rfl anyRest) ?_ (fun _ _ => trivial)
  refine RT.bind (rt_parseMailbox _ a ha fuel (by omega)) ?_ (fun r _ => nextNot_astring_sp _)
  refine RT.bind (w1 := [32]) (rt_consume rfl anyRest) ?_ (fun _ _ => trivial)
  exact RT.map _ (rt_parseMailbox _ b hb fuel (by omega))


set_option maxRecDepth 100000 in
theorem listChar_facts : ∀ n, n < 256 → (rfcAStringCharN n = true ∨ n = 37 ∨ n = 42) → n ≠ 91 →
    isListChar (tokNat n) = true := by decide +kernel

theorem listAtomOK_facts {s : Bytes} (h : listAtomOK s = true) :
    s ≠ [] ∧ ∀ b ∈ s, isListChar (tokTy b) = true := by
  unfold listAtomOK at h
  simp only [Bool.and_eq_true, Bool.not_eq_true', List.all_eq_true, bne_iff_ne, ne_eq, Bool.or_eq_true,
    beq_iff_eq] at h
  refine ⟨by intro e; simp [e] at h, fun b hb => ?_⟩
  have := h.2 b hb
  refine listChar_facts b.toNat b.toNat_lt ?_ this.2
  rcases this.1 with (h1 | h1) | h1
  · exact Or.inl h1
  · exact Or.inr (Or.inl h1)
  · exact Or.inr (Or.inr h1)

/-- a list-mailbox pattern the printer can write without a literal (`Gluon.C10.list_literal_witness`):
as list characters, or as a quoted string -/
def ListPatOK (p : BStr) : Prop := listAtomOK p = true ∨ quotedOK p = true

set_option maxRecDepth 100000 in
theorem listChar_noCRLF : ∀ n, n < 256 → (rfcAStringCharN n = true ∨ n = 37 ∨ n = 42) → n ≠ 13 ∧ n ≠ 10 := by
  decide +kernel

theorem ListPatOK.noCRLF {p : BStr} (h : ListPatOK p) : NoCRLF p := by
  rcases h with h | h
  · unfold listAtomOK at h
    simp only [Bool.and_eq_true, Bool.not_eq_true', List.all_eq_true, bne_iff_ne, ne_eq, Bool.or_eq_true,
      beq_iff_eq] at h
    intro b hb
    have hb' := (h.2 b hb).1
    have := listChar_noCRLF b.toNat b.toNat_lt (by
      rcases hb' with (h1 | h1) | h1
      · exact Or.inl h1
      · exact Or.inr (Or.inl h1)
      · exact Or.inr (Or.inr h1))
    constructor
    · intro e; subst e; exact this.1 rfl
    · intro e; subst e; exact this.2 rfl
  · exact quotedOK_noCRLF h

theorem rt_parseListMailbox (c : Choices) (s : BStr) (hp : ListPatOK s) (fuel : Nat) (hf : s.length + 1 < fuel) :
    RT (parseListMailbox fuel) (printListMailbox c s) s (nextNot isListChar) := by
  intro cx rest hr
  unfold printListMailbox
  split
  · rename_i h
    simp only [Bool.and_eq_true, decide_eq_true_eq] at h
    obtain ⟨hne, hall⟩ := listAtomOK_facts h.2
    cases s with
    | nil => exact absurd rfl hne
    | cons b w =>
      obtain ⟨c', e⟩ := collectWhilePrev_after isListChar b w (fun x hx => hall x (by simp [hx])) fuel
        (by simp at hf; omega) cx.n rest hr
      refine ⟨c', ?_⟩
      unfold parseListMailbox
      simp only [List.cons_append]
      rw [matchesWith_load_yes (hall b (by simp))]
      simpa using e
  · unfold parseListMailbox
    have h34 : isListChar (headTy (printQuoted s ++ rest)) = false := by rfl
    rw [matchesWith_load_no h34]
    simp only [Bool.false_eq_true, if_false]
    rw [parseString_quoted]
    exact rt_parseQuoted s hp.noCRLF fuel (by omega) cx rest trivial

theorem nextNot_list_cr (r : Bytes) : nextNot isListChar (13 :: r) := by rfl

theorem rt_parseListCmd (mk : BStr → BStr → Cmd) (c : Choices) (m p : BStr) (hm : MboxOK m)
    (hp : ListPatOK p) (fuel : Nat) (hf : m.length + p.length + 2 < fuel) :
    RT (parseListCmd mk fuel) (32 :: (printMailbox c.r.l m ++ (32 :: printListMailbox c.r.r p)))
      (mk m p) (nextNot isListChar) := by
  unfold parseListCmd
  refine RT.bind (w1 := [32]) (rt_consume rfl anyRest) ?_ (fun _ _ => trivial)
  refine RT.bind (rt_parseMailbox _ m hm fuel (by omega)) ?_ (fun r _ => nextNot_astring_sp _)
  refine RT.bind (w1 := [32]) (rt_consume rfl anyRest) ?_ (fun _ _ => trivial)
  exact RT.map _ (rt_parseListMailbox _ p hp fuel (by omega))

/-! ### status -/

def allLower (k : Bytes) : Bool := k.all (fun b => 97 ≤ b.toNat && b.toNat ≤ 122)

theorem allLower_spec {k : Bytes} (h : allLower k = true) : ∀ b ∈ k, isLowerAlpha b := by
  unfold allLower at h
  simp only [List.all_eq_true, Bool.and_eq_true, decide_eq_true_eq] at h
  exact h

/-- `rt_readKeyword` for a concrete keyword (`by decide` proves the side conditions) -/
theorem rt_kw (c : Choices) (k : Bytes) (fuel : Nat) (hk : allLower k = true) (hf : k.length < fuel) :
    RT (readKeyword fuel) (kwCase c k) k (nextNot isCharTok) :=
  rt_readKeyword c k (allLower_spec hk) fuel hf

theorem rt_parseStatusAttribute (c : Choices) (a : StatusAttr) (fuel : Nat) (hf : 12 < fuel) :
    RT (parseStatusAttribute fuel) (printStatusAttr c a) a (nextNot isCharTok) := by
  unfold parseStatusAttribute
  cases a <;> unfold printStatusAttr
  · refine RT.bind_nil (rt_kw c _ fuel (by decide) (by simp [kw]; omega)) ?_ (fun _ h => h)
    exact RT.ret _ _
  · refine RT.bind_nil (rt_kw c _ fuel (by decide) (by simp [kw]; omega)) ?_ (fun _ h => h)
    exact RT.ret _ _
  · refine RT.bind_nil (rt_kw c _ fuel (by decide) (by simp [kw]; omega)) ?_ (fun _ h => h)
    exact RT.ret _ _
  · refine RT.bind_nil (rt_kw c _ fuel (by decide) (by simp [kw]; omega)) ?_ (fun _ h => h)
    exact RT.ret _ _
  · refine RT.bind_nil (rt_kw c _ fuel (by decide) (by simp [kw]; omega)) ?_ (fun _ h => h)
    exact RT.ret _ _


theorem nextNot_char_sp (r : Bytes) : nextNot isCharTok (32 :: r) := by rfl
theorem nextNot_char_rparen (r : Bytes) : nextNot isCharTok (41 :: r) := by rfl

theorem rt_parseStatus (c : Choices) (m : BStr) (a : StatusAttr) (as : List StatusAttr) (hm : MboxOK m)
    (fuel : Nat) (hf : m.length + as.length + 13 < fuel) :
    RT (parseStatus fuel)
      (32 :: (printMailbox c.r.l m ++ (32 :: (40 :: (printSepList 32 printStatusAttr c.r.r (a :: as) ++ [41])))))
      (.status m (a :: as)) anyRest := by
  unfold parseStatus
  simp only [printSepList, List.append_assoc]
  refine RT.bind (w1 := [32]) (rt_consume rfl anyRest) ?_ (fun _ _ => trivial)
  refine RT.bind (rt_parseMailbox _ m hm fuel (by omega)) ?_ (fun r _ => nextNot_astring_sp _)
  refine RT.bind (w1 := [32]) (rt_consume rfl anyRest) ?_ (fun _ _ => trivial)
  refine RT.bind (w1 := [40]) (rt_consume rfl anyRest) ?_ (fun _ _ => trivial)
  refine RT.bind (rt_parseStatusAttribute _ a fuel (by omega)) ?_ ?_
  · refine RT.bind (rt_sepLoop .sp 32 rfl (parseStatusAttribute fuel) printStatusAttr (nextNot isCharTok)
      (fun r => headTy r = .rparen) as (fun c x _ => rt_parseStatusAttribute c x fuel (by omega))
      (fun r hr => by rw [hr]; decide) (fun r hr => by unfold nextNot; rw [hr]; rfl)
      (fun r => nextNot_char_sp r) fuel (by omega) _) ?_ (fun r _ => rfl)
    exact RT.map _ (rt_consume (b := 41) rfl anyRest)
  · intro r _
    cases as with
    | nil => exact nextNot_char_rparen _
    | cons x xs => exact nextNot_char_sp _

/-! ### the tag and the command line -/

/-- a tag: non-empty, ASTRING-CHARs other than `+` (and `[`), not the word DONE -/
def TagOK (t : BStr) : Prop :=
  t ≠ [] ∧ (∀ b ∈ t, rfcAStringChar b = true ∧ b.toNat ≠ 43 ∧ b.toNat ≠ 91) ∧ lowerBytes t ≠ kw "done"

set_option maxRecDepth 100000 in
theorem tagChar_facts : ∀ n, n < 256 → rfcAStringCharN n = true → n ≠ 43 → n ≠ 91 →
    isTagChar (tokNat n) = true := by decide +kernel

theorem rt_parseTag (t : BStr) (ht : TagOK t) (fuel : Nat) (hf : t.length < fuel) :
    RT (parseTag fuel) t t (nextNot isTagChar) := by
  obtain ⟨hne, hall, _⟩ := ht
  have hc : ∀ b ∈ t, isTagChar (tokTy b) = true := fun b hb =>
    tagChar_facts b.toNat b.toNat_lt (hall b hb).1 (hall b hb).2.1 (hall b hb).2.2
  cases t with
  | nil => exact absurd rfl hne
  | cons b w =>
    exact rt_consumeCollectPrev isTagChar b w (hc b (by simp)) (fun x hx => hc x (by simp [hx])) fuel
      (by simp at hf; omega)

theorem advance_init (input : Bytes) : advance (PState.init input) = .ok () (load ⟨Tok.eof, 0, 0⟩ input) := by
  cases input <;> rfl

/-- the frame of `Parser.Parse` around a command parser `pc`: tag, SP, command, CR, LF check -/
theorem parseLine_frame (t : BStr) (ht : TagOK t) (w : Bytes) (v : Cmd) (ok : Bytes → Prop)
    (fuel : Nat) (hf : t.length < fuel)
    (hcmd : RT (parseCommand fuel) w v ok) (hok : ∀ r, ok (13 :: r)) (tail : Bytes) :
    ∃ s, parse fuel (t ++ (32 :: (w ++ [13, 10])) ++ tail) = .ok ⟨t, v⟩ s ∧ s.rest = tail := by
  unfold parse parseLine
  rw [bind_ok (advance_init _)]
  have h1 : RT (do
      consume .sp
      let p ← parseCommand fuel
      pure (Command.mk t p)) (32 :: w) (Command.mk t v) ok := by
    refine RT.bind (w1 := [32]) (rt_consume rfl anyRest) ?_ (fun _ _ => trivial)
    exact RT.map _ hcmd
  obtain ⟨c1, e1⟩ := rt_parseTag t ht fuel hf ⟨Tok.eof, 0, 0⟩ (32 :: (w ++ [13, 10]) ++ tail) (by rfl)
  obtain ⟨c2, e2⟩ := h1 c1 (13 :: 10 :: tail) (hok _)
  have hw : t ++ 32 :: (w ++ [13, 10]) ++ tail = t ++ (32 :: (w ++ [13, 10]) ++ tail) := by simp
  rw [hw, bind_ok e1]
  simp only [ht.2.2, if_false]
  have hw2 : 32 :: (w ++ [13, 10]) ++ tail = 32 :: w ++ 13 :: 10 :: tail := by simp
  rw [hw2, bind_ok e2]
  rw [consume_load (by rfl)]
  simp only [bind_check, load_cur_ty, headTy_cons]
  exact ⟨_, rfl, rfl⟩


end Gluon.Parse
