/-
C16 helper lemmas, part 2: message sequence numbers (`resolveSeqInterval`, `getWithSeqID`,
`existsWithSeqID`, `seqRange`, `getMessagesInSeqRange`).
-/
import GluonModel.Lemmas.SeqSetBase

namespace Gluon
namespace SeqSet
open SeqSetSpec

/-- the value `resolveSeq` returns (it never fails) -/
def rs (s : Snap) (x : Int) : Nat := if x = 0 then toU32 s.length else toU32 x

theorem resolveSeq_eq (s : Snap) (x : Int) : resolveSeq s x = .ok (rs s x) := by
  unfold resolveSeq rs; split <;> rfl

/-- closed form of one turn of `resolveSeqInterval` / `resolveUIDInterval` for a resolver that
    never fails and returns `val x` (for every pair of Go ints) -/
def ivOf (val : Int → Nat) (r : SeqRange) : Interval :=
  if r.b = r.e then ⟨val r.b, val r.b⟩
  else
    let rb := if r.b = 0 then r.e else r.b
    let re := if r.b = 0 then r.b else r.e
    if val rb > val re then (if re ≠ 0 then ⟨val re, val rb⟩ else ⟨val rb, val rb⟩)
    else ⟨val rb, val re⟩

theorem resolveOne_eq (res : Int → Except Err Nat) (val : Int → Nat) (h : ∀ x, res x = .ok (val x))
    (r : SeqRange) : resolveOne res r = .ok (ivOf val r) := by
  obtain ⟨b, e⟩ := r
  unfold resolveOne ivOf
  simp only [h, bind, Except.bind]
  repeat' split
  all_goals first | rfl | simp_all

theorem ivOf_le_aux (x y : Nat) (z : Int) :
    (if x > y then (if z ≠ 0 then (⟨y, x⟩ : Interval) else ⟨x, x⟩) else ⟨x, y⟩).b
      ≤ (if x > y then (if z ≠ 0 then (⟨y, x⟩ : Interval) else ⟨x, x⟩) else ⟨x, y⟩).e := by
  by_cases c : x > y
  · by_cases c2 : z ≠ 0
    · rw [if_pos c, if_pos c2]; show y ≤ x; omega
    · rw [if_pos c, if_neg c2]; exact Nat.le_refl _
  · rw [if_neg c]; show x ≤ y; omega

/-- every interval the resolvers build is ordered -/
theorem ivOf_le (val : Int → Nat) (r : SeqRange) : (ivOf val r).b ≤ (ivOf val r).e := by
  unfold ivOf
  by_cases h : r.b = r.e
  · simp [h]
  · simp only [h, if_false]
    exact ivOf_le_aux _ _ _

def seqIv (s : Snap) (r : SeqRange) : Interval := ivOf (rs s) r

theorem resolveOne_seq (s : Snap) (r : SeqRange) : resolveOne (resolveSeq s) r = .ok (seqIv s r) :=
  resolveOne_eq _ _ (resolveSeq_eq s) r

theorem resolveAll_ok (res : Int → Except Err Nat) (f : SeqRange → Interval) (set : List SeqRange)
    (h : ∀ r ∈ set, resolveOne res r = .ok (f r)) : resolveAll res set = .ok (set.map f) := by
  induction set with
  | nil => rfl
  | cons r rest ih =>
    have h1 := h r (by simp)
    have h2 := ih (fun r hr => h r (by simp [hr]))
    simp [resolveAll, h1, h2, bind, Except.bind]

theorem getMessagesInSeqRange_eq (s : Snap) (set : List SeqRange) :
    getMessagesInSeqRange s set = collect (seqOne s) (set.map (seqIv s)) := by
  unfold getMessagesInSeqRange resolveSeqInterval
  rw [resolveAll_ok (resolveSeq s) (seqIv s) set (fun r _ => resolveOne_seq s r)]
  rfl

/-! ### collect -/

theorem collect_cons_ok {one : Interval → Except Err (List SeqMsg)} {iv : Interval} {rest : List Interval}
    {ms more : List SeqMsg} (h1 : one iv = .ok ms) (h2 : collect one rest = .ok more) :
    collect one (iv :: rest) = .ok (ms ++ more) := by
  simp [collect, h1, h2, bind, Except.bind]

theorem collect_cons_err {one : Interval → Except Err (List SeqMsg)} {iv : Interval} {rest : List Interval}
    {e : Err} (h1 : one iv = .error e) : collect one (iv :: rest) = .error e := by
  simp [collect, h1, bind, Except.bind]

theorem collect_cons_err2 {one : Interval → Except Err (List SeqMsg)} {iv : Interval} {rest : List Interval}
    {ms : List SeqMsg} {e : Err} (h1 : one iv = .ok ms) (h2 : collect one rest = .error e) :
    collect one (iv :: rest) = .error e := by
  simp [collect, h1, h2, bind, Except.bind]

/-- if the whole loop succeeds, every turn succeeded and contributed its messages -/
theorem collect_ok_all {one : Interval → Except Err (List SeqMsg)} {ivs : List Interval} {ms : List SeqMsg}
    (h : collect one ivs = .ok ms) : ∀ iv ∈ ivs, ∃ m, one iv = .ok m ∧ ∀ x ∈ m, x ∈ ms := by
  induction ivs generalizing ms with
  | nil => simp
  | cons iv rest ih =>
    cases h1 : one iv with
    | error e => rw [collect_cons_err h1] at h; cases h
    | ok m1 =>
      cases h2 : collect one rest with
      | error e => rw [collect_cons_err2 h1 h2] at h; cases h
      | ok more =>
        rw [collect_cons_ok h1 h2] at h
        cases h
        intro iv' hiv'
        simp only [List.mem_cons] at hiv'
        rcases hiv' with rfl | hr
        · exact ⟨m1, h1, fun x hx => by simp [hx]⟩
        · obtain ⟨m, hm, hsub⟩ := ih h2 iv' hr
          exact ⟨m, hm, fun x hx => by simp [hsub x hx]⟩

/-- every message of a successful loop comes from one of its turns -/
theorem collect_mem {one : Interval → Except Err (List SeqMsg)} {ivs : List Interval} {ms : List SeqMsg}
    (h : collect one ivs = .ok ms) : ∀ x ∈ ms, ∃ iv ∈ ivs, ∃ m, one iv = .ok m ∧ x ∈ m := by
  induction ivs generalizing ms with
  | nil => simp [collect] at h; subst h; simp
  | cons iv rest ih =>
    cases h1 : one iv with
    | error e => rw [collect_cons_err h1] at h; cases h
    | ok m1 =>
      cases h2 : collect one rest with
      | error e => rw [collect_cons_err2 h1 h2] at h; cases h
      | ok more =>
        rw [collect_cons_ok h1 h2] at h
        cases h
        intro x hx
        simp only [List.mem_append] at hx
        rcases hx with hx | hx
        · exact ⟨iv, by simp, m1, h1, hx⟩
        · obtain ⟨iv', hiv', m, hm, hxm⟩ := ih h2 x hx
          exact ⟨iv', by simp [hiv'], m, hm, hxm⟩

/-! ### one interval -/

theorem uids_length (s : Snap) : s.uids.length = s.length := by simp [Snap.uids]

theorem goSlice_ok {α : Type} (l : List α) (lo hi : Nat) (h : lo ≤ hi) (h2 : hi ≤ l.length) :
    goSlice l (lo : Int) (hi : Int) = .ok ((l.drop lo).take (hi - lo)) := by
  unfold goSlice
  have c : (0 : Int) ≤ (lo : Int) ∧ (lo : Int) ≤ (hi : Int) ∧ (hi : Int) ≤ (l.length : Int) := by omega
  rw [if_pos c]
  simp

theorem goIndex_ok {α : Type} (l : List α) (i : Nat) (h : i < l.length) : goIndex l (i : Int) = .ok l[i] := by
  unfold goIndex
  have c : ¬ ((i : Int) < 0) := by omega
  rw [if_neg c]
  simp [List.getElem?_eq_getElem h]

theorem getWithSeqID_none (s : Snap) (id : Nat) (h : s.length = 0 ∨ (id : Int) - 1 ≥ (s.length : Int)) :
    getWithSeqID s id = .ok none := by
  unfold getWithSeqID
  simp only []
  rw [if_pos h]

theorem getWithSeqID_some (s : Snap) (id : Nat) (h1 : 1 ≤ id) (h : id ≤ s.length) :
    getWithSeqID s id = .ok (some ⟨id, s[id - 1]⟩) := by
  unfold getWithSeqID
  simp only []
  have c : ¬ (s.length = 0 ∨ (id : Int) - 1 ≥ (s.length : Int)) := by omega
  rw [if_neg c]
  have e : (id : Int) - 1 = ((id - 1 : Nat) : Int) := by omega
  rw [e, goIndex_ok s (id - 1) (by omega)]

theorem existsWithSeqID_iff (s : Snap) (id : Nat) : existsWithSeqID s id = decide (id ≤ s.length) := by
  unfold existsWithSeqID
  simp only []
  by_cases h : id ≤ s.length
  · have c : ¬ ((id : Int) - 1 ≥ (s.length : Int)) := by omega
    rw [if_neg c]; simp [h]
  · have c : (id : Int) - 1 ≥ (s.length : Int) := by omega
    rw [if_pos c]; simp [h]

theorem seqOne_ok_single (s : Snap) (lo : Nat) (h1 : 1 ≤ lo) (h3 : lo ≤ s.length)
    (hl : s.length < 4294967296) :
    seqOne s ⟨lo, lo⟩ = .ok (number (lo : Int) ((s.drop (lo - 1)).take (lo + 1 - lo))) := by
  unfold seqOne
  have hlt : lo - 1 < s.length := by omega
  have e4 : lo + 1 - lo = 1 := by omega
  have e5 : toU32 (lo : Int) = lo := toU32_nat (by omega)
  have t : (s.drop (lo - 1)).take 1 = [s[lo - 1]] := by
    rw [List.drop_eq_getElem_cons hlt]; rfl
  simp only [if_true, getWithSeqID_some s lo h1 h3, e4, t, number, e5]

theorem seqOne_ok_range (s : Snap) (lo hi : Nat) (h1 : 1 ≤ lo) (h2 : lo < hi) (h3 : hi ≤ s.length) :
    seqOne s ⟨lo, hi⟩ = .ok (number (lo : Int) ((s.drop (lo - 1)).take (hi + 1 - lo))) := by
  unfold seqOne
  have p : u32Pred lo = lo - 1 := u32Pred_pos h1
  have e : hi - (lo - 1) = hi + 1 - lo := by omega
  have x1 : lo ≤ s.length := by omega
  have hne : ¬ ((⟨lo, hi⟩ : Interval).b = (⟨lo, hi⟩ : Interval).e) := by simp; omega
  have x : (!existsWithSeqID s lo || !existsWithSeqID s hi) = false := by
    simp [existsWithSeqID_iff, x1, h3]
  have g := goSlice_ok s (lo - 1) hi (by omega) h3
  rw [if_neg hne]
  simp only [x, Bool.false_eq_true, if_false]
  unfold seqRange
  rw [p, g, e]

theorem seqOne_ok (s : Snap) (lo hi : Nat) (h1 : 1 ≤ lo) (h2 : lo ≤ hi) (h3 : hi ≤ s.length)
    (hl : s.length < 4294967296) :
    seqOne s ⟨lo, hi⟩ = .ok (number (lo : Int) ((s.drop (lo - 1)).take (hi + 1 - lo))) := by
  by_cases h : lo = hi
  · subst h; exact seqOne_ok_single s lo h1 h3 hl
  · exact seqOne_ok_range s lo hi h1 (by omega) h3

/-- an interval with an end point beyond the message count fails with ErrNoSuchMessage -/
theorem seqOne_beyond (s : Snap) (iv : Interval) (n : Nat) (hn : iv.b = n ∨ iv.e = n) (h : s.length < n) :
    seqOne s iv = .error .noSuchMessage := by
  unfold seqOne
  by_cases he : iv.b = iv.e
  · have hb : iv.b = n := by rcases hn with h | h <;> omega
    rw [if_pos he, hb, getWithSeqID_none s n (by omega)]
  · rw [if_neg he]
    have x : ¬ (n ≤ s.length) := by omega
    rcases hn with h | h <;> simp [h, existsWithSeqID_iff, x]

/-- `*` (or anything) on an empty view -/
theorem seqOne_empty (s : Snap) (x : Nat) (h : s.length = 0) : seqOne s ⟨x, x⟩ = .error .noSuchMessage := by
  unfold seqOne
  simp only [if_true]
  rw [getWithSeqID_none s x (Or.inl h)]

theorem seqOne_between (s : Snap) (lo hi : Nat) (h1 : 1 ≤ lo) (h2 : lo ≤ hi) (h3 : hi ≤ s.length)
    (hl : s.length < 4294967296) :
    ∃ ms, seqOne s ⟨lo, hi⟩ = .ok ms ∧ ms.map obs = seqBetween s.uids lo hi := by
  refine ⟨_, seqOne_ok s lo hi h1 h2 h3 hl, ?_⟩
  rw [number_obs _ lo (by simp; omega), seqBetween_slice _ lo hi h1]
  simp [Snap.uids, List.map_drop, List.map_take]

/-! ### one item of the set -/

theorem rs_nat (s : Snap) (n : Nat) (hn : n < 4294967296) (hl : s.length < 4294967296) :
    rs s (n : Int) = if n = 0 then s.length else n := by
  unfold rs
  by_cases h : n = 0
  · subst h; simp [toU32_nat hl]
  · simp [h, toU32_nat hn]

theorem absNum_nat (n : Nat) : absNum (n : Int) = if n = 0 then .star else .num n := by
  unfold absNum
  by_cases h : n = 0
  · subst h; simp
  · simp [h]

theorem seqVal_star (v : View) : seqVal v .star = if v.length = 0 then none else some v.length := rfl

theorem seqVal_num (v : View) (n : Nat) : seqVal v (.num n) = if 1 ≤ n ∧ n ≤ v.length then some n else none := rfl

/-- "the model's turn of the loop does what the spec's item says" -/
def Agrees (s : Snap) (iv : Interval) : Option (List Sel) → Prop
  | some sel => ∃ ms, seqOne s iv = .ok ms ∧ ms.map obs = sel
  | none => seqOne s iv = .error .noSuchMessage

theorem seqVal_absNum (s : Snap) (n : Nat) :
    seqVal s.uids (absNum (n : Int)) =
      if n = 0 then (if s.length = 0 then none else some s.length) else (if n ≤ s.length then some n else none) := by
  rw [absNum_nat]
  by_cases h : n = 0
  · simp [h, seqVal_star, uids_length]
  · have : (1 ≤ n ∧ n ≤ s.length) ↔ n ≤ s.length := by omega
    simp [h, seqVal_num, uids_length, this]

theorem selectSeqItem_one_some {v : View} {a : SNum} {x : Nat} (h : seqVal v a = some x) :
    selectSeqItem v (.one a) = some (seqBetween v x x) := by simp [selectSeqItem, h]

theorem selectSeqItem_one_none {v : View} {a : SNum} (h : seqVal v a = none) :
    selectSeqItem v (.one a) = none := by simp [selectSeqItem, h]

theorem selectSeqItem_range_some {v : View} {a b : SNum} {x y : Nat} (ha : seqVal v a = some x) (hb : seqVal v b = some y) :
    selectSeqItem v (.range a b) = some (seqBetween v (min x y) (max x y)) := by simp [selectSeqItem, ha, hb]

theorem selectSeqItem_range_none_left {v : View} {a b : SNum} (ha : seqVal v a = none) :
    selectSeqItem v (.range a b) = none := by simp [selectSeqItem, ha]

theorem selectSeqItem_range_none_right {v : View} {a b : SNum} (hb : seqVal v b = none) :
    selectSeqItem v (.range a b) = none := by
  unfold selectSeqItem
  cases seqVal v a <;> simp [hb]

/-- the four shapes of a parsed item and the interval `resolveSeqInterval` makes of them -/
theorem seqIv_single (s : Snap) (n : Nat) (hn : n < 4294967296) (hl : s.length < 4294967296) :
    seqIv s ⟨n, n⟩ = ⟨if n = 0 then s.length else n, if n = 0 then s.length else n⟩ := by
  simp [seqIv, ivOf, rs_nat s n hn hl]

theorem seqIv_star_num (s : Snap) (e : Nat) (he0 : e ≠ 0) (he : e < 4294967296) (hl : s.length < 4294967296) :
    seqIv s ⟨0, e⟩ = if e > s.length then ⟨e, e⟩ else ⟨e, s.length⟩ := by
  have h1 : ¬ ((0 : Int) = (e : Int)) := by omega
  have h2 := rs_nat s e he hl
  have h3 := rs_nat s 0 (by omega) hl
  simp only [Int.natCast_zero] at h3
  simp only [seqIv, ivOf, h1, if_false, if_true, h2, h3, he0, ne_eq, not_true_eq_false]

theorem seqIv_num_star (s : Snap) (b : Nat) (hb0 : b ≠ 0) (hb : b < 4294967296) (hl : s.length < 4294967296) :
    seqIv s ⟨b, 0⟩ = if b > s.length then ⟨b, b⟩ else ⟨b, s.length⟩ := by
  have h1 : ¬ ((b : Int) = (0 : Int)) := by omega
  have h2 := rs_nat s b hb hl
  have h3 := rs_nat s 0 (by omega) hl
  simp only [Int.natCast_zero] at h3
  simp only [seqIv, ivOf, h1, if_false, if_true, h2, h3, hb0, ne_eq, not_true_eq_false]

theorem seqIv_num_num (s : Snap) (b e : Nat) (hb0 : b ≠ 0) (he0 : e ≠ 0) (hbe : b ≠ e) (hb : b < 4294967296)
    (he : e < 4294967296) (hl : s.length < 4294967296) :
    seqIv s ⟨b, e⟩ = if b > e then ⟨e, b⟩ else ⟨b, e⟩ := by
  have h1 : ¬ ((b : Int) = (e : Int)) := by omega
  have h0 : ¬ ((b : Int) = 0) := by omega
  have h0' : ¬ ((e : Int) = 0) := by omega
  have h2 := rs_nat s b hb hl
  have h3 := rs_nat s e he hl
  simp only [seqIv, ivOf, h1, h0, h0', if_false, if_true, h2, h3, hb0, he0, ne_eq, not_false_eq_true]

theorem agrees_between (s : Snap) (lo hi : Nat) (h1 : 1 ≤ lo) (h2 : lo ≤ hi) (h3 : hi ≤ s.length)
    (hl : s.length < 4294967296) : Agrees s ⟨lo, hi⟩ (some (seqBetween s.uids lo hi)) :=
  seqOne_between s lo hi h1 h2 h3 hl

/-- what one parsed item below 2^32 resolves to, side by side with what the RFC says about it -/
inductive Shape (s : Snap) (iv : Interval) (o : Option (List Sel)) : Prop
  | valid (lo hi : Nat) (h : iv = ⟨lo, hi⟩) (h1 : 1 ≤ lo) (h2 : lo ≤ hi) (h3 : hi ≤ s.length)
      (ho : o = some (seqBetween s.uids lo hi))
  | beyond (n : Nat) (hn : iv.b = n ∨ iv.e = n) (h : s.length < n) (ho : o = none)
  | emptyStar (x : Nat) (h : iv = ⟨x, x⟩) (hz : s.length = 0) (ho : o = none)

theorem seqIv_shape (s : Snap) (r : SeqRange) (hl : s.length < 4294967296)
    (hp : 0 ≤ r.b ∧ 0 ≤ r.e) (h32 : r.b < 4294967296 ∧ r.e < 4294967296) :
    Shape s (seqIv s r) (selectSeqItem s.uids (absRange r)) := by
  obtain ⟨b, e⟩ := r
  obtain ⟨hb, he⟩ := hp
  obtain ⟨hb32, he32⟩ := h32
  simp only at hb he hb32 he32
  obtain ⟨b, rfl⟩ := Int.eq_ofNat_of_zero_le hb
  obtain ⟨e, rfl⟩ := Int.eq_ofNat_of_zero_le he
  have hb' : b < 4294967296 := by omega
  have he' : e < 4294967296 := by omega
  by_cases hbe : b = e
  · -- a single number (or `n:n`, or `*`)
    subst hbe
    have ha : absRange ⟨(b : Int), (b : Int)⟩ = .one (absNum (b : Int)) := by simp [absRange]
    rw [ha, seqIv_single s b hb' hl]
    have hv := seqVal_absNum s b
    by_cases h0 : b = 0
    · by_cases hz : s.length = 0
      · simp only [h0, hz, if_true] at hv ⊢
        rw [selectSeqItem_one_none (by simpa [h0] using hv)]
        exact .emptyStar _ rfl hz rfl
      · simp only [h0, hz, if_true, if_false] at hv ⊢
        rw [selectSeqItem_one_some (by simpa [h0] using hv)]
        exact .valid _ _ rfl (by omega) (Nat.le_refl _) (Nat.le_refl _) rfl
    · by_cases hle : b ≤ s.length
      · simp only [h0, hle, if_true, if_false] at hv ⊢
        rw [selectSeqItem_one_some hv]
        exact .valid _ _ rfl (by omega) (Nat.le_refl _) hle rfl
      · simp only [h0, hle, if_false] at hv ⊢
        rw [selectSeqItem_one_none hv]
        exact .beyond b (Or.inl rfl) (by omega) rfl
  · have hbe' : ¬ ((b : Int) = (e : Int)) := by omega
    have ha : absRange ⟨(b : Int), (e : Int)⟩ = .range (absNum (b : Int)) (absNum (e : Int)) := by simp [absRange, hbe']
    rw [ha]
    have hvb := seqVal_absNum s b
    have hve := seqVal_absNum s e
    by_cases hb0 : b = 0
    · -- `*:e`
      subst hb0
      have he0 : e ≠ 0 := fun h => hbe (by omega)
      have e1 : ((0 : Nat) : Int) = 0 := rfl
      rw [e1] at hvb ⊢
      rw [seqIv_star_num s e he0 he' hl]
      by_cases hle : e ≤ s.length
      · have hz : s.length ≠ 0 := by omega
        have c1 : ¬ (e > s.length) := by omega
        simp only [he0, hz, hle, if_true, if_false] at hvb hve
        simp only [c1, if_false]
        rw [selectSeqItem_range_some (by simpa using hvb) hve, Nat.min_eq_right hle, Nat.max_eq_left hle]
        exact .valid _ _ rfl (by omega) hle (Nat.le_refl _) rfl
      · have c1 : e > s.length := by omega
        simp only [he0, hle, if_false] at hve
        simp only [c1, if_true]
        rw [selectSeqItem_range_none_right hve]
        exact .beyond e (Or.inl rfl) (by omega) rfl
    · by_cases he0 : e = 0
      · -- `b:*`
        subst he0
        have e1 : ((0 : Nat) : Int) = 0 := rfl
        rw [e1] at hve ⊢
        rw [seqIv_num_star s b hb0 hb' hl]
        by_cases hle : b ≤ s.length
        · have hz : s.length ≠ 0 := by omega
          have c1 : ¬ (b > s.length) := by omega
          simp only [hb0, hz, hle, if_true, if_false] at hvb hve
          simp only [c1, if_false]
          rw [selectSeqItem_range_some hvb (by simpa using hve), Nat.min_eq_left hle, Nat.max_eq_right hle]
          exact .valid _ _ rfl (by omega) hle (Nat.le_refl _) rfl
        · have c1 : b > s.length := by omega
          simp only [hb0, hle, if_false] at hvb
          simp only [c1, if_true]
          rw [selectSeqItem_range_none_left hvb]
          exact .beyond b (Or.inl rfl) (by omega) rfl
      · -- `b:e`, both numbers
        rw [seqIv_num_num s b e hb0 he0 hbe hb' he' hl]
        simp only [hb0, he0, if_false] at hvb hve
        by_cases hgt : b > e
        · simp only [hgt, if_true]
          by_cases hle : b ≤ s.length
          · have hle2 : e ≤ s.length := by omega
            simp only [hle, hle2, if_true] at hvb hve
            rw [selectSeqItem_range_some hvb hve, Nat.min_eq_right (by omega), Nat.max_eq_left (by omega)]
            exact .valid _ _ rfl (by omega) (by omega) hle rfl
          · simp only [hle, if_false] at hvb
            rw [selectSeqItem_range_none_left hvb]
            exact .beyond b (Or.inr rfl) (by omega) rfl
        · simp only [hgt, if_false]
          by_cases hle : e ≤ s.length
          · have hle2 : b ≤ s.length := by omega
            simp only [hle, hle2, if_true] at hvb hve
            rw [selectSeqItem_range_some hvb hve, Nat.min_eq_left (by omega), Nat.max_eq_right (by omega)]
            exact .valid _ _ rfl (by omega) (by omega) hle rfl
          · simp only [hle, if_false] at hve
            rw [selectSeqItem_range_none_right hve]
            exact .beyond e (Or.inr rfl) (by omega) rfl

/-- one parsed item below 2^32: the model does what the RFC says -/
theorem seqItem_spec (s : Snap) (r : SeqRange) (hl : s.length < 4294967296)
    (hp : 0 ≤ r.b ∧ 0 ≤ r.e) (h32 : r.b < 4294967296 ∧ r.e < 4294967296) :
    Agrees s (seqIv s r) (selectSeqItem s.uids (absRange r)) := by
  cases seqIv_shape s r hl hp h32 with
  | valid lo hi h h1 h2 h3 ho => rw [h, ho]; exact agrees_between s lo hi h1 h2 h3 hl
  | beyond n hn h ho => rw [ho]; exact seqOne_beyond s _ n hn h
  | emptyStar x h hz ho => rw [h, ho]; exact seqOne_empty s x hz

end SeqSet
end Gluon
