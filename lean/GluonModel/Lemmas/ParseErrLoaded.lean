/-
`ErrLoaded p`: when `p`, started on a loaded state, fails with a parser error (`*rfcparser.Error`), the state it
leaves behind is loaded too and shows a suffix of the input — the counterpart for FAILED outcomes of `Shrinks`
(`Lemmas/ParseTerm.lean`). The session's reader loop runs `ConsumeInvalidInput` on exactly such a state; to say
which bytes that line consists of (in particular: that its last byte is the LF when the look-ahead token is the
LF) one has to know that the look-ahead token still is the byte in front of the unread input.
By composition and induction, like `NoPanic`.
-/
import GluonModel.Lemmas.ParseTerm

namespace Gluon.Parse

set_option synthInstance.maxSize 4096
set_option synthInstance.maxHeartbeats 400000

class ErrLoaded (p : P α) : Prop where
  el : ∀ s t s', Loaded s → p s = .err (.parse t) s' → Loaded s' ∧ s'.input <:+ s.input

instance : ErrLoaded (pure a : P α) := ⟨fun s t s' _ h => by cases h⟩
instance (x : P α) (f : α → P β) [sx : Shrinks x] [hx : ErrLoaded x] [hf : ∀ a, ErrLoaded (f a)] : ErrLoaded (x >>= f) := ⟨by
  intro s t s' hl h
  rw [bind_eq] at h
  cases hxs : x s with
  | ok a s1 =>
    rw [hxs] at h
    obtain ⟨hl1, hs1⟩ := sx.sh s a s1 hl hxs
    obtain ⟨hl2, hs2⟩ := (hf a).el s1 t s' hl1 h
    exact ⟨hl2, List.IsSuffix.trans hs2 hs1⟩
  | err e s1 =>
    rw [hxs] at h
    cases h
    exact hx.el s t s' hl hxs
  | fuel => rw [hxs] at h; cases h⟩
instance (c : Prop) [Decidable c] (p q : P α) [hp : ErrLoaded p] [hq : ErrLoaded q] : ErrLoaded (if c then p else q) := ⟨by
  intro s t s' hl h
  split at h
  · exact hp.el s t s' hl h
  · exact hq.el s t s' hl h⟩
instance : ErrLoaded (outOfFuel : P α) := ⟨fun s t s' _ h => by cases h⟩
instance : ErrLoaded (makeError : P α) := ⟨fun s t s' hl h => by cases h; exact ⟨hl, List.suffix_refl _⟩⟩
instance : ErrLoaded (makeErrorAt : P α) := ⟨fun s t s' hl h => by cases h; exact ⟨hl, List.suffix_refl _⟩⟩
instance : ErrLoaded advance := ⟨fun s t s' _ h => by unfold advance at h; split at h <;> cases h⟩
instance : ErrLoaded (check t) := ⟨fun s t' s' _ h => by cases h⟩
instance : ErrLoaded (checkWith f) := ⟨fun s t s' _ h => by cases h⟩
instance : ErrLoaded prevVal := ⟨fun s t s' _ h => by cases h⟩
instance : ErrLoaded curVal := ⟨fun s t s' _ h => by cases h⟩
instance : ErrLoaded bumpConts := ⟨fun s t s' _ h => by cases h⟩

instance : ErrLoaded (consumeWith f) := ⟨by
  intro s t s' hl h
  unfold consumeWith at h
  split at h
  · exact ErrLoaded.el (p := advance) s t s' hl h
  · exact ErrLoaded.el (p := (makeError : P Unit)) s t s' hl h⟩
instance : ErrLoaded (consume t) := inferInstanceAs (ErrLoaded (consumeWith _))
instance : ErrLoaded (matchesWith f) := ⟨by
  intro s t s' hl h
  unfold matchesWith at h
  split at h
  · exact ErrLoaded.el (p := advance >>= fun _ => pure true) s t s' hl h
  · cases h⟩
instance : ErrLoaded (matchesTy t) := inferInstanceAs (ErrLoaded (matchesWith _))

theorem el_consumeBytes (l : Bytes) : ErrLoaded (consumeBytes l) := by
  induction l with
  | nil => exact inferInstanceAs (ErrLoaded (pure ()))
  | cons c cs ih =>
    refine ⟨fun s t s' hl h => ?_⟩
    unfold consumeBytes at h
    split at h
    · exact ErrLoaded.el (p := (makeError : P Unit)) s t s' hl h
    · haveI := (sh_consumeBytes cs).1
      exact ErrLoaded.el (p := advance >>= fun _ => consumeBytes cs) s t s' hl h
instance : ErrLoaded (consumeBytes l) := el_consumeBytes l

theorem el_consumeBytesFold (l : Bytes) : ErrLoaded (consumeBytesFold l) := by
  induction l with
  | nil => exact inferInstanceAs (ErrLoaded (pure ()))
  | cons c cs ih =>
    refine ⟨fun s t s' hl h => ?_⟩
    unfold consumeBytesFold at h
    split at h
    · exact ErrLoaded.el (p := (makeError : P Unit)) s t s' hl h
    · exact ErrLoaded.el (p := advance >>= fun _ => consumeBytesFold cs) s t s' hl h
instance : ErrLoaded (consumeBytesFold l) := el_consumeBytesFold l

theorem el_collectLoop (f : TokTy → Bool) (n : Nat) : ErrLoaded (collectLoop f n) := by
  induction n with
  | zero => exact inferInstanceAs (ErrLoaded outOfFuel)
  | succ n ih => unfold collectLoop; infer_instance
instance : ErrLoaded (collectLoop f n) := el_collectLoop f n
instance : ErrLoaded (collectWhile f n) := el_collectLoop f n
instance : ErrLoaded (collectWhilePrev f n) := by unfold collectWhilePrev; infer_instance

theorem el_numberLoop (n : Nat) : ∀ acc, ErrLoaded (numberLoop n acc) := by
  induction n with
  | zero => intro acc; exact inferInstanceAs (ErrLoaded outOfFuel)
  | succ n ih => intro acc; unfold numberLoop; infer_instance
instance : ErrLoaded (numberLoop n acc) := el_numberLoop n acc
instance : ErrLoaded (parseNumber n) := by unfold parseNumber; infer_instance


theorem el_numberNLoop (n : Nat) : ∀ acc, ErrLoaded (numberNLoop n acc) := by
  induction n with
  | zero => intro acc; exact inferInstanceAs (ErrLoaded (pure acc))
  | succ n ih => intro acc; unfold numberNLoop; infer_instance
instance : ErrLoaded (numberNLoop n acc) := el_numberNLoop n acc
instance : ErrLoaded (parseNumberN n) := by unfold parseNumberN; infer_instance
instance : ErrLoaded (parseAtom n) := by unfold parseAtom; infer_instance

theorem el_quotedLoop (n : Nat) : ErrLoaded (quotedLoop n) := by
  induction n with
  | zero => exact inferInstanceAs (ErrLoaded outOfFuel)
  | succ n ih => unfold quotedLoop; infer_instance
instance : ErrLoaded (quotedLoop n) := el_quotedLoop n
instance : ErrLoaded (parseQuoted n) := by unfold parseQuoted; infer_instance

instance : ErrLoaded (bumpContsIf b) := by unfold bumpContsIf; infer_instance

instance : ErrLoaded (scannerConsumeBytes k >>= fun lit => advance >>= fun _ => pure lit) := ⟨by
  intro s t s' _ h
  rcases scannerConsumeBytes_cases k s with ⟨e, s1, he⟩ | hok
  · rw [bind_eq, he] at h
    -- the scanner's errors are `io.EOF` / a panic, never a parser error
    unfold scannerConsumeBytes at he
    split at he
    · cases he; cases h
    · split at he
      · cases he; cases h
      · cases he
  · obtain ⟨s1, e, _⟩ := advance_input { s with rest := s.rest.drop (k - 1) }
    rw [bind_eq, hok] at h
    simp only [bind_eq, e] at h
    cases h⟩
instance : ErrLoaded (goMakeBytes size) := ⟨by
  intro s t s' _ h
  unfold goMakeBytes at h
  split at h <;> cases h⟩
instance : ErrLoaded (parseLiteral fuel) := by unfold parseLiteral; infer_instance

instance : ErrLoaded (parseString n) := by unfold parseString; infer_instance
instance : ErrLoaded (parseAString n) := by unfold parseAString; infer_instance
instance : ErrLoaded (tryParseString n) := by unfold tryParseString; infer_instance


theorem el_sepLoop (sep : TokTy) (item : P α) [Shrinks item] [ErrLoaded item] (n : Nat) : ErrLoaded (sepLoop sep item n) := by
  induction n with
  | zero => exact inferInstanceAs (ErrLoaded outOfFuel)
  | succ n ih => unfold sepLoop; infer_instance
instance (sep : TokTy) (item : P α) [Shrinks item] [ErrLoaded item] : ErrLoaded (sepLoop sep item n) := el_sepLoop sep item n

instance : ErrLoaded (readKeyword fuel) := by unfold readKeyword; infer_instance
instance : ErrLoaded (parseMailbox fuel) := by unfold parseMailbox; infer_instance
instance : ErrLoaded (parseListMailbox fuel) := by unfold parseListMailbox; infer_instance
instance : ErrLoaded (parseFlag fuel) := by unfold parseFlag; infer_instance
instance : ErrLoaded (parseFlagList fuel) := by unfold parseFlagList; infer_instance
instance : ErrLoaded (tryParseFlagList fuel) := by unfold tryParseFlagList; infer_instance
instance : ErrLoaded (parseNZNumber fuel) := by unfold parseNZNumber; infer_instance
instance : ErrLoaded (parseSeqNumber fuel) := by unfold parseSeqNumber; infer_instance
instance : ErrLoaded (parseSeqRange fuel) := by unfold parseSeqRange; infer_instance
instance : ErrLoaded (parseSeqSet fuel) := by unfold parseSeqSet; infer_instance
instance : ErrLoaded parseDateDayFixed := by unfold parseDateDayFixed; infer_instance
instance : ErrLoaded parseDateMonth := by
  unfold parseDateMonth
  have : ∀ o : Option Int, ErrLoaded (match o with | some m => (pure m : P Int) | none => makeError) := by
    intro o; cases o <;> infer_instance
  infer_instance
instance : ErrLoaded parseDateYear := by unfold parseDateYear; infer_instance
instance : ErrLoaded parseZone := by unfold parseZone; infer_instance
instance : ErrLoaded parseTime := by unfold parseTime; infer_instance
instance : ErrLoaded parseDateTime := by
  unfold parseDateTime
  have : ∀ (year month day : Int) (t : Int × Int × Int), ErrLoaded (match t with
      | (h, m, s) => do
        consume .sp
        let zone ← parseZone
        consume .dquote
        pure (DateTime.mk year month day h m s zone) : P DateTime) := by
    intro y mo d t; obtain ⟨h, m, s⟩ := t; infer_instance
  infer_instance
instance : ErrLoaded parseDateText := by unfold parseDateText; infer_instance
instance : ErrLoaded parseDate := by unfold parseDate; infer_instance
instance : ErrLoaded (parseMailboxCmd mk fuel) := by unfold parseMailboxCmd; infer_instance
instance : ErrLoaded (parseLogin fuel) := by unfold parseLogin; infer_instance
instance : ErrLoaded (parseRename fuel) := by unfold parseRename; infer_instance
instance : ErrLoaded (parseListCmd mk fuel) := by unfold parseListCmd; infer_instance
instance : ErrLoaded (parseStatusAttribute fuel) := by unfold parseStatusAttribute; infer_instance
instance : ErrLoaded (parseStatus fuel) := by unfold parseStatus; infer_instance
instance : ErrLoaded (parseStoreFlags fuel) := by
  unfold parseStoreFlags
  have : ∀ o : Option (List BStr), ErrLoaded (match o with
      | some fl => (pure fl : P (List BStr))
      | none => do
        let f ← parseFlag fuel
        let r ← sepLoop .sp (parseFlag fuel) fuel
        pure (f :: r)) := by
    intro o; cases o <;> infer_instance
  infer_instance
instance : ErrLoaded (parseStore fuel) := by unfold parseStore; infer_instance
instance : ErrLoaded (parseCopyMove mk fuel) := by unfold parseCopyMove; infer_instance
instance : ErrLoaded (parseHeaderList fuel) := by unfold parseHeaderList; infer_instance
instance : ErrLoaded (parseHeaderFields fuel) := by unfold parseHeaderFields; infer_instance
instance : ErrLoaded (handleSectionMessageText t fuel) := by unfold handleSectionMessageText; infer_instance
instance : ErrLoaded (parseSectionText fuel) := by unfold parseSectionText; infer_instance
instance : ErrLoaded (parseSectionMsgText fuel) := by unfold parseSectionMsgText; infer_instance
theorem el_sectionPartLoop (fuel n : Nat) : ErrLoaded (sectionPartLoop fuel n) := by
  induction n with
  | zero => exact inferInstanceAs (ErrLoaded outOfFuel)
  | succ n ih => unfold sectionPartLoop; infer_instance
instance : ErrLoaded (sectionPartLoop fuel n) := el_sectionPartLoop fuel n
instance : ErrLoaded (parseSectionPart fuel) := by unfold parseSectionPart; infer_instance
instance : ErrLoaded (parseSectionSpec fuel) := by unfold parseSectionSpec; infer_instance
instance : ErrLoaded (handleBodyFetchAttribute fuel) := by unfold handleBodyFetchAttribute; infer_instance
instance : ErrLoaded (handleRFC822FetchAttribute fuel) := by unfold handleRFC822FetchAttribute; infer_instance
instance : ErrLoaded (handleFetchAttribute name fuel) := by unfold handleFetchAttribute; infer_instance
instance : ErrLoaded (parseFetchAttribute fuel) := by unfold parseFetchAttribute; infer_instance
instance : ErrLoaded (parseFetchAttributes fuel) := by unfold parseFetchAttributes; infer_instance
instance : ErrLoaded (parseFetch fuel) := by unfold parseFetch; infer_instance
instance : ErrLoaded (consumeIf b t) := by unfold consumeIf; infer_instance
instance : ErrLoaded appendDateTime := by unfold appendDateTime; infer_instance
instance : ErrLoaded (parseAppend fuel) := by unfold parseAppend; infer_instance
instance (p : P α) [Shrinks p] [ErrLoaded p] : ErrLoaded (spThen p) := by unfold spThen; infer_instance
instance (recKey : P SearchKey) [Shrinks recKey] [ErrLoaded recKey] : ErrLoaded (handleSearchKey recKey k fuel) := by unfold handleSearchKey; infer_instance
instance (recKey : P SearchKey) [Shrinks recKey] [ErrLoaded recKey] : ErrLoaded (parseSearchKeyList recKey fuel) := by unfold parseSearchKeyList; infer_instance
theorem el_parseSearchKey (d fuel : Nat) : ErrLoaded (parseSearchKey d fuel) := by
  induction d with
  | zero => unfold parseSearchKey; infer_instance
  | succ d ih => unfold parseSearchKey; infer_instance
instance : ErrLoaded (parseSearchKey d fuel) := el_parseSearchKey d fuel
instance : ErrLoaded (searchFirst fuel) := by unfold searchFirst; infer_instance
instance : ErrLoaded (parseSearch fuel) := by
  unfold parseSearch
  have : ∀ x : BStr × List SearchKey, ErrLoaded (match x with
      | (charset, first) => do
        let more ← sepLoop .sp (parseSearchKey searchBudget fuel) fuel
        let keys := first ++ more
        if keys.isEmpty then makeError
        else pure (Cmd.search charset keys) : P Cmd) := by
    intro x; obtain ⟨a, b⟩ := x; infer_instance
  infer_instance
instance : ErrLoaded (dispatchUID c fuel) := by unfold dispatchUID; infer_instance
instance : ErrLoaded (parseUID fuel) := by unfold parseUID; infer_instance
instance : ErrLoaded (parseNString fuel) := by
  unfold parseNString
  have : ∀ o : Option Bytes, ErrLoaded (match o with
      | some s => (pure (some s) : P (Option BStr))
      | none => do
        consumeBytesFold (kw "NIL")
        pure none) := by
    intro o; cases o <;> infer_instance
  infer_instance
theorem el_idLoop (fuel n : Nat) : ∀ m, ErrLoaded (idLoop fuel n m) := by
  induction n with
  | zero => intro m; exact inferInstanceAs (ErrLoaded outOfFuel)
  | succ n ih =>
    intro m
    unfold idLoop
    have : ∀ o : Option Bytes, ErrLoaded (match o with
        | none => (pure m : P (List (BStr × BStr)))
        | some key => do
          consume .sp
          let v ← parseNString fuel
          let atEnd ← check .rparen
          consumeIf (!atEnd) .sp
          idLoop fuel n (mapInsert m key (v.getD []))) := by
      intro o; cases o <;> infer_instance
    infer_instance
instance : ErrLoaded (idLoop fuel n m) := el_idLoop fuel n m
instance : ErrLoaded (parseID fuel) := by unfold parseID; infer_instance
instance : ErrLoaded (parseTag fuel) := by unfold parseTag; infer_instance
instance : ErrLoaded (dispatchCommand c fuel) := by unfold dispatchCommand; infer_instance
instance : ErrLoaded (parseCommand fuel) := by unfold parseCommand; infer_instance
instance : ErrLoaded (parseLine fuel) := by unfold parseLine; infer_instance


end Gluon.Parse
