/- Per message, handling the popped responders first and the retained ones afterwards gives the same
   entry as handling the queue in order (C02). -/
import GluonModel.Lemmas.ConvergeLook
import GluonModel.Lemmas.Flush

namespace Gluon

theorem List.snoc_induction {α} {P : List α → Prop} (nil : P []) (snoc : ∀ l a, P l → P (l ++ [a])) :
    ∀ l, P l := by
  have key : ∀ l : List α, P l.reverse := by
    intro l
    induction l with
    | nil => exact nil
    | cons a t ih => rw [List.reverse_cons]; exact snoc _ _ ih
  intro l
  have := key l.reverse
  rwa [List.reverse_reverse] at this

theorem stepId_unsilent (sid : StateId) (a : MsgId) (c : Option SMsg) (r : Responder) :
    stepId sid a c r.unsilent = stepId sid a c r := by
  cases r <;> rfl

/-- the per-message facts proved together along the queue -/
structure PopFacts (sid : StateId) (a : MsgId) (res : List Responder) : Prop where
  /-- popped first, retained afterwards = queue order -/
  comm : ∀ c, ((popAux [] [] res).1 ++ (popAux [] [] res).2).foldl (stepId sid a) c = res.foldl (stepId sid a) c
  /-- no removal and no EXISTS of `a` is retained: the retained responders do not touch `a` -/
  untouched : a ∉ hexpAfter [] res → a ∉ hexAfter [] [] res →
    ∀ c, (popAux [] [] res).2.foldl (stepId sid a) c = c
  /-- no EXISTS of `a` is retained: the retained responders leave `a` alone or remove it -/
  notHeld : a ∉ hexAfter [] [] res →
    (∀ c, (popAux [] [] res).2.foldl (stepId sid a) c = c) ∨
    (∀ c, (popAux [] [] res).2.foldl (stepId sid a) c = none)

theorem popFacts_iff (sid : StateId) (a : MsgId) (res : List Responder) :
    PopFacts sid a res ↔
      (∀ c, ((popAux [] [] res).1 ++ (popAux [] [] res).2).foldl (stepId sid a) c = res.foldl (stepId sid a) c) ∧
      (a ∉ hexpAfter [] res → a ∉ hexAfter [] [] res →
        ∀ c, (popAux [] [] res).2.foldl (stepId sid a) c = c) ∧
      (a ∉ hexAfter [] [] res →
        (∀ c, (popAux [] [] res).2.foldl (stepId sid a) c = c) ∨
        (∀ c, (popAux [] [] res).2.foldl (stepId sid a) c = none)) :=
  ⟨fun h => ⟨h.1, h.2, h.3⟩, fun h => ⟨h.1, h.2.1, h.2.2⟩⟩

theorem popFacts (sid : StateId) (a : MsgId) (res : List Responder) : PopFacts sid a res := by
  induction res using List.snoc_induction with
  | nil => exact ⟨fun c => rfl, fun _ _ c => rfl, fun _ => Or.inl fun c => rfl⟩
  | snoc res h ih =>
    obtain ⟨hA, hB2, hB3⟩ := ih
    generalize hE : hexpAfter [] res = E at *
    generalize hX : hexAfter [] [] res = X at *
    have hpop : popAux [] [] (res ++ [h]) =
        ((popAux [] [] res).1 ++ (popAux E X [h]).1, (popAux [] [] res).2 ++ (popAux E X [h]).2) := by
      rw [popAux_append, hE, hX]
    have hse : hexpAfter [] (res ++ [h]) = hexpAfter E [h] := by rw [hexpAfter_append, hE]
    have hsx : hexAfter [] [] (res ++ [h]) = hexAfter E X [h] := by rw [hexAfter_append, hE, hX]
    rw [popFacts_iff, hpop, hse, hsx]
    generalize (popAux [] [] res).1 = pop at *
    generalize (popAux [] [] res).2 = rem at *
    have hA' : ∀ c, rem.foldl (stepId sid a) (pop.foldl (stepId sid a) c) = res.foldl (stepId sid a) c := by
      intro c; rw [← hA c, List.foldl_append]
    by_cases hne : h.msgId = a
    · -- a responder of message `a`
      cases h with
      | expunge id =>
        simp only [Responder.msgId] at hne
        subst hne
        rw [popAux_expunge]
        have e2 : id ∈ hexpAfter E [Responder.expunge id] := by simp [hexpAfter]
        simp only [popAux, List.append_nil]
        refine ⟨?_, ?_, ?_⟩
        · intro c
          rw [← List.append_assoc, List.foldl_append, List.foldl_append, List.foldl_append, hA']
        · intro hnot
          exact absurd e2 hnot
        · intro _
          right; intro c
          simp [List.foldl_append, stepId]
      | «exists» id uid fl t o =>
        simp only [Responder.msgId] at hne
        subst hne
        cases hk : holdsExists E X id
        · -- popped
          obtain ⟨hX0, hnE⟩ := holdsExists_false_iff.mp hk
          rw [popAux_exists_popped hk, hexAfter_exists_popped hk]
          have e2 : hexpAfter E [Responder.exists id uid fl t o] = E := rfl
          rw [e2]
          simp only [popAux, hexAfter, List.append_nil]
          refine ⟨?_, hB2, hB3⟩
          intro c
          simp only [List.foldl_append, List.foldl_cons, List.foldl_nil]
          rw [← hA' c]
          have hid := hB2 hnE (by rw [hX0]; simp)
          rw [hid, hid]
        · -- held back
          rw [popAux_exists_held hk, hexAfter_exists_held hk]
          have e3 : id ∈ hexAfter E (id :: X) [] := by simp [hexAfter]
          simp only [popAux, List.append_nil]
          refine ⟨?_, ?_, ?_⟩
          · intro c
            rw [← List.append_assoc, List.foldl_append, List.foldl_append, List.foldl_append, hA']
          · intro _ hnot
            exact absurd e3 hnot
          · intro hnot
            exact absurd e3 hnot
      | fetch id fl op x y z =>
        simp only [Responder.msgId] at hne
        subst hne
        have e2 : hexpAfter E [Responder.fetch id fl op x y z] = E := rfl
        have e3 : hexAfter E X [Responder.fetch id fl op x y z] = X := rfl
        rw [e2, e3]
        by_cases hk : id ∈ X
        · -- held back (un-silenced)
          rw [popAux_fetch_held hk]
          simp only [popAux, List.append_nil]
          refine ⟨?_, fun _ hnot => absurd hk hnot, fun hnot => absurd hk hnot⟩
          intro c
          rw [← List.append_assoc, List.foldl_append, List.foldl_append, List.foldl_append, hA']
          simp only [List.foldl_cons, List.foldl_nil]
          exact stepId_unsilent sid id _ (.fetch id fl op x y z)
        · -- popped
          rw [popAux_fetch_popped hk]
          simp only [popAux, List.append_nil]
          refine ⟨?_, hB2, hB3⟩
          intro c
          simp only [List.foldl_append, List.foldl_cons, List.foldl_nil]
          rw [← hA' c]
          rcases hB3 hk with hid | hn
          · rw [hid, hid]
          · rw [hn, hn]; simp [stepId]
    · -- a responder of another message: nothing changes for `a`
      have hst : ∀ c, stepId sid a c h = c := fun c => stepId_other hne
      have hst' : ∀ c, stepId sid a c h.unsilent = c := fun c => by rw [stepId_unsilent]; exact hst c
      have hfold : ∀ (l : List Responder) c, (l ++ (popAux E X [h]).2).foldl (stepId sid a) c = l.foldl (stepId sid a) c := by
        intro l c
        cases h with
        | expunge id => rw [popAux_expunge]; simp [popAux, List.foldl_append, hst]
        | «exists» id uid fl t o =>
          cases hk : holdsExists E X id
          · rw [popAux_exists_popped hk]; simp [popAux]
          · rw [popAux_exists_held hk]; simp [popAux, List.foldl_append, hst]
        | fetch id fl op x y z =>
          by_cases hk : id ∈ X
          · rw [popAux_fetch_held hk]
            have := hst' c
            simp only [Responder.unsilent_fetch] at hst'
            simp [popAux, List.foldl_append, hst']
          · rw [popAux_fetch_popped hk]; simp [popAux]
      have hfold1 : ∀ (l : List Responder) c, (l ++ (popAux E X [h]).1).foldl (stepId sid a) c = l.foldl (stepId sid a) c := by
        intro l c
        cases h with
        | expunge id => rw [popAux_expunge]; simp [popAux]
        | «exists» id uid fl t o =>
          cases hk : holdsExists E X id
          · rw [popAux_exists_popped hk]; simp [popAux, List.foldl_append, hst]
          · rw [popAux_exists_held hk]; simp [popAux]
        | fetch id fl op x y z =>
          by_cases hk : id ∈ X
          · rw [popAux_fetch_held hk]; simp [popAux]
          · rw [popAux_fetch_popped hk]; simp [popAux, List.foldl_append, hst]
      have hsem : a ∈ hexpAfter E [h] ↔ a ∈ E := by
        cases h with
        | expunge id =>
          have : a ≠ id := fun h => hne (by simp [Responder.msgId, h])
          simp [hexpAfter, this]
        | «exists» id uid fl t o => simp [hexpAfter]
        | fetch id fl op x y z => simp [hexpAfter]
      have hsxm : a ∈ hexAfter E X [h] ↔ a ∈ X := by
        cases h with
        | expunge id => simp [hexAfter]
        | «exists» id uid fl t o =>
          have : a ≠ id := fun h => hne (by simp [Responder.msgId, h])
          cases hk : holdsExists E X id
          · rw [hexAfter_exists_popped hk]; simp [hexAfter]
          · rw [hexAfter_exists_held hk]; simp [hexAfter, this]
        | fetch id fl op x y z => simp [hexAfter]
      refine ⟨?_, ?_, ?_⟩
      · intro c
        rw [List.foldl_append, hfold1, hfold, List.foldl_append, List.foldl_cons, List.foldl_nil, hst, hA' c]
      · intro hn1 hn2
        simp only [hfold]
        exact hB2 (fun h => hn1 (hsem.mpr h)) (fun h => hn2 (hsxm.mpr h))
      · intro hnot
        simp only [hfold]
        exact hB3 (fun h => hnot (hsxm.mpr h))

end Gluon
