/- Per message, handling the popped responders first and the retained ones afterwards gives the same
   entry as handling the queue in order — provided no FETCH follows a held-back re-add (C02). -/
import GluonModel.Lemmas.ConvergeLook
import GluonModel.Lemmas.Flush

namespace Gluon

theorem List.snoc_induction {α} {P : List α → Prop} (nil : P []) (snoc : ∀ l a, P l → P (l ++ [a])) :
    ∀ l, P l := by
  have key : ∀ l : List α, P l.reverse := by
    intro l
    induction l with
    | nil => exact nil
    | cons a t ih => rw [List.reverse_cons]; exact snoc _ _ ih
  intro l
  have := key l.reverse
  rwa [List.reverse_reverse] at this

/-- the `held` set after `fetchSafeAux` has walked over `l` -/
def heldAfter (skip held : List MsgId) : List Responder → List MsgId
  | [] => held
  | .expunge id :: rs => heldAfter (if skip.contains id then skip else id :: skip) (held.filter (· != id)) rs
  | .exists id .. :: rs =>
    if skip.contains id then heldAfter (skip.filter (· != id)) (id :: held) rs else heldAfter skip held rs
  | .fetch .. :: rs => heldAfter skip held rs

theorem fetchSafeAux_append (skip held : List MsgId) (l1 l2 : List Responder) :
    fetchSafeAux skip held (l1 ++ l2) =
      (fetchSafeAux skip held l1 && fetchSafeAux (skipAfter skip l1) (heldAfter skip held l1) l2) := by
  induction l1 generalizing skip held with
  | nil => simp [fetchSafeAux, skipAfter, heldAfter]
  | cons r rs ih =>
    cases r with
    | «exists» id uid fl t o =>
      by_cases h : id ∈ skip
      · simp [fetchSafeAux, skipAfter, heldAfter, h, ih]
      · simp [fetchSafeAux, skipAfter, heldAfter, h, ih]
    | expunge id => simp [fetchSafeAux, skipAfter, heldAfter, ih]
    | fetch id fl op a b c => simp [fetchSafeAux, skipAfter, heldAfter, ih, Bool.and_assoc]

theorem skipAfter_append (skip : List MsgId) (l1 l2 : List Responder) :
    skipAfter skip (l1 ++ l2) = skipAfter (skipAfter skip l1) l2 := by
  induction l1 generalizing skip with
  | nil => simp [skipAfter]
  | cons r rs ih =>
    cases r with
    | «exists» id uid fl t o =>
      by_cases h : id ∈ skip
      · simp [skipAfter, h, ih]
      · simp [skipAfter, h, ih]
    | expunge id => simp [skipAfter, ih]
    | fetch id fl op a b c => simp [skipAfter, ih]

theorem heldAfter_append (skip held : List MsgId) (l1 l2 : List Responder) :
    heldAfter skip held (l1 ++ l2) = heldAfter (skipAfter skip l1) (heldAfter skip held l1) l2 := by
  induction l1 generalizing skip held with
  | nil => simp [skipAfter, heldAfter]
  | cons r rs ih =>
    cases r with
    | «exists» id uid fl t o =>
      by_cases h : id ∈ skip
      · simp [skipAfter, heldAfter, h, ih]
      · simp [skipAfter, heldAfter, h, ih]
    | expunge id => simp [skipAfter, heldAfter, ih]
    | fetch id fl op a b c => simp [skipAfter, heldAfter, ih]

/-- the per-message facts proved together along the queue -/
structure PopFacts (sid : StateId) (a : MsgId) (res : List Responder) : Prop where
  /-- popped first, retained afterwards = queue order -/
  comm : ∀ c, ((popAux [] res).1 ++ (popAux [] res).2).foldl (stepId sid a) c = res.foldl (stepId sid a) c
  /-- a removal of `a` is pending un-answered: the retained responders end with `a` absent -/
  inSkip : a ∈ skipAfter [] res → ∀ c, (popAux [] res).2.foldl (stepId sid a) c = none
  /-- otherwise the retained responders do not touch `a`, or end with a held-back re-add of `a` -/
  notSkip : a ∉ skipAfter [] res →
    (∀ c, (popAux [] res).2.foldl (stepId sid a) c = c) ∨
    (∃ m, ∀ c, (popAux [] res).2.foldl (stepId sid a) c = some m)
  /-- no held-back re-add of `a` since its last removal: the retained responders leave `a` alone or remove it -/
  notHeld : a ∉ heldAfter [] [] res →
    (∀ c, (popAux [] res).2.foldl (stepId sid a) c = c) ∨
    (∀ c, (popAux [] res).2.foldl (stepId sid a) c = none)

theorem popFacts_iff (sid : StateId) (a : MsgId) (res : List Responder) :
    PopFacts sid a res ↔
      (∀ c, ((popAux [] res).1 ++ (popAux [] res).2).foldl (stepId sid a) c = res.foldl (stepId sid a) c) ∧
      (a ∈ skipAfter [] res → ∀ c, (popAux [] res).2.foldl (stepId sid a) c = none) ∧
      (a ∉ skipAfter [] res →
        (∀ c, (popAux [] res).2.foldl (stepId sid a) c = c) ∨
        (∃ m, ∀ c, (popAux [] res).2.foldl (stepId sid a) c = some m)) ∧
      (a ∉ heldAfter [] [] res →
        (∀ c, (popAux [] res).2.foldl (stepId sid a) c = c) ∨
        (∀ c, (popAux [] res).2.foldl (stepId sid a) c = none)) :=
  ⟨fun h => ⟨h.1, h.2, h.3, h.4⟩, fun h => ⟨h.1, h.2.1, h.2.2.1, h.2.2.2⟩⟩

theorem popFacts (sid : StateId) (a : MsgId) (res : List Responder) (hsafe : FetchSafe res) :
    PopFacts sid a res := by
  induction res using List.snoc_induction with
  | nil =>
    exact ⟨fun c => rfl, fun h => by simp [skipAfter] at h, fun _ => Or.inl fun c => rfl,
      fun _ => Or.inl fun c => rfl⟩
  | snoc res h ih =>
    simp only [FetchSafe, fetchSafeAux_append, Bool.and_eq_true] at hsafe
    obtain ⟨hs1, hs2⟩ := hsafe
    obtain ⟨hA, hB1, hB2, hB3⟩ := ih hs1
    generalize hK : skipAfter [] res = K at *
    generalize hH : heldAfter [] [] res = H at *
    have hpop : popAux [] (res ++ [h]) =
        ((popAux [] res).1 ++ (popAux K [h]).1, (popAux [] res).2 ++ (popAux K [h]).2) := by
      rw [popAux_append, hK]
    have hsk : skipAfter [] (res ++ [h]) = skipAfter K [h] := by rw [skipAfter_append, hK]
    have hhe : heldAfter [] [] (res ++ [h]) = heldAfter K H [h] := by rw [heldAfter_append, hK, hH]
    rw [popFacts_iff, hpop, hsk, hhe]
    generalize (popAux [] res).1 = pop at *
    generalize (popAux [] res).2 = rem at *
    have hA' : ∀ c, rem.foldl (stepId sid a) (pop.foldl (stepId sid a) c) = res.foldl (stepId sid a) c := by
      intro c; rw [← hA c, List.foldl_append]
    by_cases hne : h.msgId = a
    · -- a responder of message `a`
      cases h with
      | expunge id =>
        simp only [Responder.msgId] at hne
        subst hne
        have e1 : popAux K [Responder.expunge id] = ([], [Responder.expunge id]) := by simp [popAux]
        have e2 : id ∈ skipAfter K [Responder.expunge id] := by
          simp only [skipAfter]
          split
          · next h => simpa using h
          · exact List.mem_cons_self
        have e3 : id ∉ heldAfter K H [Responder.expunge id] := by simp [heldAfter]
        rw [e1]
        simp only [List.append_nil]
        refine ⟨?_, ?_, ?_, ?_⟩
        · intro c
          rw [← List.append_assoc, List.foldl_append, List.foldl_append, List.foldl_append, hA']
        · intro _ c
          simp [List.foldl_append, stepId]
        · intro hnot
          exact absurd e2 hnot
        · intro _
          right; intro c
          simp [List.foldl_append, stepId]
      | «exists» id uid fl t o =>
        simp only [Responder.msgId] at hne
        subst hne
        by_cases hk : id ∈ K
        · -- held back
          have e1 : popAux K [Responder.exists id uid fl t o] = ([], [Responder.exists id uid fl t o]) := by
            simp [popAux, hk]
          have e2 : id ∉ skipAfter K [Responder.exists id uid fl t o] := by simp [skipAfter, hk]
          have e3 : id ∈ heldAfter K H [Responder.exists id uid fl t o] := by simp [heldAfter, hk]
          rw [e1]
          simp only [List.append_nil]
          refine ⟨?_, ?_, ?_, ?_⟩
          · intro c
            rw [← List.append_assoc, List.foldl_append, List.foldl_append, List.foldl_append, hA']
          · intro hin
            exact absurd hin e2
          · intro _
            right
            refine ⟨Snap.mkMsg id uid (exFlags sid t fl), ?_⟩
            intro c
            simp [List.foldl_append, hB1 hk c, stepId]
          · intro hnot
            exact absurd e3 hnot
        · -- popped
          have e1 : popAux K [Responder.exists id uid fl t o] = ([Responder.exists id uid fl t o], []) := by
            simp [popAux, hk]
          have e2 : skipAfter K [Responder.exists id uid fl t o] = K := by simp [skipAfter, hk]
          have e3 : heldAfter K H [Responder.exists id uid fl t o] = H := by simp [heldAfter, hk]
          rw [e1, e2, e3]
          simp only [List.append_nil]
          refine ⟨?_, hB1, hB2, hB3⟩
          intro c
          simp only [List.foldl_append, List.foldl_cons, List.foldl_nil]
          rw [← hA' c]
          rcases hB2 hk with hid | ⟨m, hm⟩
          · rw [hid, hid]
          · rw [hm, hm]; simp [stepId]
      | fetch id fl op x y z =>
        simp only [Responder.msgId] at hne
        subst hne
        have hnh : id ∉ H := by
          simpa [fetchSafeAux] using hs2
        have e1 : popAux K [Responder.fetch id fl op x y z] = ([Responder.fetch id fl op x y z], []) := by
          simp [popAux]
        have e2 : skipAfter K [Responder.fetch id fl op x y z] = K := by simp [skipAfter]
        have e3 : heldAfter K H [Responder.fetch id fl op x y z] = H := by simp [heldAfter]
        rw [e1, e2, e3]
        simp only [List.append_nil]
        refine ⟨?_, hB1, hB2, hB3⟩
        intro c
        simp only [List.foldl_append, List.foldl_cons, List.foldl_nil]
        rw [← hA' c]
        rcases hB3 hnh with hid | hn
        · rw [hid, hid]
        · rw [hn, hn]; simp [stepId]
    · -- a responder of another message: nothing changes for `a`
      have hst : ∀ c, stepId sid a c h = c := fun c => stepId_other hne
      have hfold : ∀ (l : List Responder) c, (l ++ (popAux K [h]).2).foldl (stepId sid a) c = l.foldl (stepId sid a) c := by
        intro l c
        cases h with
        | expunge id => simp [popAux, List.foldl_append, hst]
        | «exists» id uid fl t o =>
          by_cases hk : id ∈ K
          · simp [popAux, hk, List.foldl_append, hst]
          · simp [popAux, hk]
        | fetch id fl op x y z => simp [popAux]
      have hfold1 : ∀ (l : List Responder) c, (l ++ (popAux K [h]).1).foldl (stepId sid a) c = l.foldl (stepId sid a) c := by
        intro l c
        cases h with
        | expunge id => simp [popAux]
        | «exists» id uid fl t o =>
          by_cases hk : id ∈ K
          · simp [popAux, hk]
          · simp [popAux, hk, List.foldl_append, hst]
        | fetch id fl op x y z => simp [popAux, List.foldl_append, hst]
      have hskm : a ∈ skipAfter K [h] ↔ a ∈ K := by
        cases h with
        | expunge id =>
          have : a ≠ id := fun h => hne (by simp [Responder.msgId, h])
          simp only [skipAfter]
          split
          · exact Iff.rfl
          · simp [this]
        | «exists» id uid fl t o =>
          have : a ≠ id := fun h => hne (by simp [Responder.msgId, h])
          simp only [skipAfter]
          split
          · simp [List.mem_filter, this]
          · exact Iff.rfl
        | fetch id fl op x y z => simp [skipAfter]
      have hhem : a ∈ heldAfter K H [h] ↔ a ∈ H := by
        cases h with
        | expunge id =>
          have : a ≠ id := fun h => hne (by simp [Responder.msgId, h])
          simp [heldAfter, List.mem_filter, this]
        | «exists» id uid fl t o =>
          have : a ≠ id := fun h => hne (by simp [Responder.msgId, h])
          simp only [heldAfter]
          split
          · simp [this]
          · exact Iff.rfl
        | fetch id fl op x y z => simp [heldAfter]
      refine ⟨?_, ?_, ?_, ?_⟩
      · intro c
        rw [List.foldl_append, hfold1, hfold, List.foldl_append, List.foldl_cons, List.foldl_nil, hst, hA' c]
      · intro hin c
        rw [hfold]; exact hB1 (hskm.mp hin) c
      · intro hnot
        simp only [hfold]
        exact hB2 (fun h => hnot (hskm.mpr h))
      · intro hnot
        simp only [hfold]
        exact hB3 (fun h => hnot (hhem.mpr h))

end Gluon
