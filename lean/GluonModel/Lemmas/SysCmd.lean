/- Every command and every connector-originated change of the system model delivers (`Delivers`) and keeps the
   index well formed. -/
import GluonModel.Lemmas.SysStore

namespace Gluon.Sys
open Gluon

/-- an index write that delivers and leaves a well-formed index -/
def Good (idx idx' : Index) (ups : List Update) : Prop := Delivers idx idx' ups ∧ idx'.Wf

theorem Good.refl {idx : Index} (hwf : idx.Wf) : Good idx idx [] := ⟨Delivers.refl idx, hwf⟩

theorem Good.trans {a b c : Index} {u v : List Update} (h1 : Good a b u) (h2 : Good b c v) : Good a c (u ++ v) :=
  ⟨h1.1.trans h2.1, h2.2⟩

theorem wf_of_delivers {idx idx' : Index} {ups : List Update} (h : Delivers idx idx' ups) (hwf : idx.Wf)
    (hfresh : ∀ mb, ∀ r ∈ (idx'.box mb).rows, r.id < idx'.nextId) (hnoDel : ∀ id, Flags.deleted ∉ idx'.msgFlags id) :
    idx'.Wf := ⟨h.box_wf hwf.box, hfresh, hnoDel⟩

/-! ### primitives -/

theorem good_remove {idx : Index} (hwf : idx.Wf) (mb : Nat) (ids : List MsgId) :
    Good idx (removeFrom idx mb ids).1 (ids.map (.expunge mb)) := by
  refine ⟨delivers_remove idx mb ids, wf_of_delivers (delivers_remove idx mb ids) hwf ?_ hwf.noDel⟩
  intro mb' r hr
  simp only [removeFrom, Index.box_setBox, Index.nextId_setBox] at hr ⊢
  split at hr
  · next h =>
    obtain ⟨rfl, _⟩ := h
    simp only [Box.remove, List.mem_filter] at hr
    exact hwf.fresh _ r hr.1
  · exact hwf.fresh _ r hr

theorem good_add {idx : Index} (hwf : idx.Wf) {mb : Nat} (hmb : mb < idx.boxes.length) (ids : List MsgId) (d : Bool)
    (st : Option StateId) (hnd : ids.Nodup) (hnot : ∀ id ∈ ids, (idx.box mb).has id = false)
    (hlt : ∀ id ∈ ids, id < idx.nextId) :
    Good idx (idx.setBox mb ((idx.box mb).add ids d)) [.exists mb (addItems idx mb ids d) st] := by
  have hd := delivers_add idx hmb ids d st hnd hnot hlt
  refine ⟨hd, wf_of_delivers hd hwf ?_ hwf.noDel⟩
  intro mb' r hr
  simp only [Index.box_setBox, Index.nextId_setBox] at hr ⊢
  split at hr
  · next h =>
    obtain ⟨rfl, _⟩ := h
    simp only [Box.add, Box.newRows, List.mem_append] at hr
    rcases hr with hr | hr
    · exact hwf.fresh _ r hr
    · apply hlt
      have : r.id ∈ (Box.rowsFrom d (idx.box mb').uidNext ids).map (·.id) := List.mem_map_of_mem hr
      rwa [rowsFrom_ids] at this
  · exact hwf.fresh _ r hr

theorem msgFlags_newMsg (idx : Index) (fl : Flags) (id : MsgId) :
    (idx.newMsg fl).msgFlags id = if id = idx.nextId then fl else idx.msgFlags id := by
  unfold Index.newMsg Index.msgFlags
  simp only [List.find?_cons]
  by_cases h : idx.nextId = id
  · subst h; simp
  · have h' : (idx.nextId == id) = false := by simpa using h
    simp [h', Ne.symm h]

/-- a message is created: nothing is shown differently anywhere -/
theorem good_newMsg {idx : Index} (hwf : idx.Wf) (fl : Flags) (hfl : Flags.deleted ∉ fl) : Good idx (idx.newMsg fl) [] := by
  have hd : Delivers idx (idx.newMsg fl) [] := by
    refine ⟨rfl, Nat.le_succ _, ?_, fun _ _ _ _ r hr => by simp [pendC_nil] at hr⟩
    intro sid mb cu cs snap q _ h
    have : (idx.newMsg fl).mbox mb = idx.mbox mb := by
      refine Index.mbox_congr (idx := idx) (idx' := idx.newMsg fl) rfl ?_
      intro r hr
      rw [msgFlags_newMsg]
      have := hwf.fresh mb r hr
      simp [Nat.ne_of_lt this]
    rw [this]; simpa [pendC_nil] using h
  refine ⟨hd, wf_of_delivers hd hwf ?_ ?_⟩
  · intro mb r hr
    exact Nat.lt_succ_of_lt (hwf.fresh mb r hr)
  · intro id
    rw [msgFlags_newMsg]
    split
    · exact hfl
    · exact hwf.noDel id

theorem store_box_ids (idx : Index) (sel : Nat) (sid : StateId) (ids : List MsgId) (op : FlagOp) (fl : Flags) (mb : Nat) :
    ((storeEffect idx sel sid ids op fl).1.box mb).rows.map (·.id) = (idx.box mb).rows.map (·.id) := by
  have key : ∀ d, ((idx.setBox sel ((idx.box sel).setDeleted ids d)).box mb).rows.map (·.id) = (idx.box mb).rows.map (·.id) := by
    intro d
    rw [Index.box_setBox]
    split
    · next h =>
      obtain ⟨rfl, _⟩ := h
      simp only [Box.setDeleted, List.map_map]
      apply List.map_congr_left
      intro r _
      simp only [Function.comp_def]; split <;> rfl
    · rfl
  cases op <;> simp only [storeEffect, Index.box_mapMsgFlags]
  · split
    · exact key true
    · rfl
  · split
    · exact key false
    · rfl
  · exact key _

theorem store_nextId (idx : Index) (sel : Nat) (sid : StateId) (ids : List MsgId) (op : FlagOp) (fl : Flags) :
    (storeEffect idx sel sid ids op fl).1.nextId = idx.nextId := by
  cases op <;> simp only [storeEffect, Index.nextId_mapMsgFlags]
  · split <;> rfl
  · split <;> rfl
  · rfl

theorem store_msgFlags (idx : Index) (sel : Nat) (sid : StateId) (ids : List MsgId) (op : FlagOp) (fl : Flags) (id : MsgId) :
    (storeEffect idx sel sid ids op fl).1.msgFlags id =
      if ids.contains id then newFlags (idx.msgFlags id) op (Flags.remove1 fl Flags.deleted) false else idx.msgFlags id := by
  cases op <;>
    simp only [storeEffect, Index.msgFlags_mapMsgFlags, apply_ite (fun i : Index => i.msgFlags id), Index.msgFlags_setBox, ite_self]

theorem good_store {idx : Index} (hwf : idx.Wf) {sel : Nat} (hsel : sel < idx.boxes.length) (sid : StateId)
    (ids : List MsgId) (hnd : ids.Nodup) (op : FlagOp) (fl : Flags) :
    Good idx (storeEffect idx sel sid ids op fl).1 (storeEffect idx sel sid ids op fl).2 := by
  have hd := delivers_store hwf.noDel hsel sid ids hnd op fl
  refine ⟨hd, wf_of_delivers hd hwf ?_ ?_⟩
  · intro mb r hr
    rw [store_nextId]
    have : r.id ∈ ((storeEffect idx sel sid ids op fl).1.box mb).rows.map (·.id) := List.mem_map_of_mem hr
    rw [store_box_ids] at this
    obtain ⟨r', hr', e⟩ := List.mem_map.mp this
    rw [← e]; exact hwf.fresh mb r' hr'
  · intro id
    rw [store_msgFlags]
    have hR := deleted_not_mem_remove1 fl
    have hc := hwf.noDel id
    split
    · rw [mem_newFlags]
      cases op <;> simp [hR, hc]
    · exact hc

/-- `actionAddMessagesToMailbox` -/
theorem good_actionAdd {idx : Index} (hwf : idx.Wf) {mb : Nat} (hmb : mb < idx.boxes.length) (ids : List MsgId)
    (st : Option StateId) (hnd : ids.Nodup) (hlt : ∀ id ∈ ids, id < idx.nextId) :
    Good idx (actionAdd idx mb ids st).1 (actionAdd idx mb ids st).2 := by
  unfold actionAdd
  simp only
  by_cases he : (ids.filter (idx.box mb).has).isEmpty = true
  · simp only [he, if_true, List.nil_append]
    apply good_add hwf hmb ids false st hnd _ hlt
    intro id hid
    have : ids.filter (idx.box mb).has = [] := by simpa using he
    cases hh : (idx.box mb).has id with
    | false => rfl
    | true =>
      have : id ∈ ids.filter (idx.box mb).has := List.mem_filter.mpr ⟨hid, hh⟩
      simp_all
  · simp only [he, Bool.false_eq_true, if_false]
    have g1 := good_remove hwf mb (ids.filter (idx.box mb).has)
    have hlen : mb < (removeFrom idx mb (ids.filter (idx.box mb).has)).1.boxes.length := by simpa [removeFrom] using hmb
    have g2 := good_add g1.2 hlen ids false st hnd (by
      intro id hid
      simp only [removeFrom, Index.box_setBox_same hmb, Box.remove, Box.has, List.any_eq_false, List.mem_filter]
      intro r ⟨hr, hnc⟩ hrid
      have hrid' : r.id = id := by simpa using hrid
      have hhas : (idx.box mb).has id = true := by
        simp only [Box.has, List.any_eq_true]
        exact ⟨r, hr, by simpa using hrid'⟩
      have : id ∈ ids.filter (idx.box mb).has := List.mem_filter.mpr ⟨hid, hhas⟩
      rw [hrid'] at hnc
      simp [this] at hnc) (by simpa [removeFrom] using hlt)
    exact g1.trans g2

/-! ### `resolve` -/

theorem dedupe_nodup (ms : List SMsg) (acc : List SMsg) (hacc : (acc.map (·.id)).Nodup) :
    ((ms.foldl (fun acc m => if acc.any (·.id == m.id) then acc else acc ++ [m]) acc).map (·.id)).Nodup ∧
    ∀ x ∈ ms.foldl (fun acc m => if acc.any (·.id == m.id) then acc else acc ++ [m]) acc, x ∈ acc ∨ x ∈ ms := by
  induction ms generalizing acc with
  | nil => exact ⟨hacc, fun x hx => Or.inl hx⟩
  | cons m ms ih =>
    simp only [List.foldl_cons]
    by_cases h : acc.any (·.id == m.id) = true
    · simp only [h, if_true]
      obtain ⟨h1, h2⟩ := ih acc hacc
      exact ⟨h1, fun x hx => (h2 x hx).imp id (List.mem_cons_of_mem _)⟩
    · simp only [h, Bool.false_eq_true, if_false]
      have hacc' : ((acc ++ [m]).map (·.id)).Nodup := by
        rw [List.map_append, List.nodup_append]
        refine ⟨hacc, by simp, ?_⟩
        intro a ha b hb
        simp only [List.map_cons, List.map_nil, List.mem_singleton] at hb
        subst hb
        intro e
        obtain ⟨x, hx, hxe⟩ := List.mem_map.mp ha
        apply h
        simp only [List.any_eq_true]
        exact ⟨x, hx, by simpa using hxe.trans e⟩
      obtain ⟨h1, h2⟩ := ih (acc ++ [m]) hacc'
      refine ⟨h1, fun x hx => ?_⟩
      rcases h2 x hx with h3 | h3
      · rcases List.mem_append.mp h3 with h4 | h4
        · exact Or.inl h4
        · simp only [List.mem_singleton] at h4; subst h4; exact Or.inr List.mem_cons_self
      · exact Or.inr (List.mem_cons_of_mem _ h3)

theorem resolve_spec {snap : Snap} {seqs : List Nat} {ms : List SMsg} (h : resolve snap seqs = some ms) :
    (ms.map (·.id)).Nodup ∧ ∀ x ∈ ms, x ∈ snap := by
  unfold resolve at h
  cases hm : seqs.mapM (fun n => if n = 0 then none else snap[n - 1]?) with
  | none => simp [hm] at h
  | some l =>
    simp only [hm, Option.map_some, Option.some.injEq] at h
    subst h
    obtain ⟨h1, h2⟩ := dedupe_nodup l [] (by simp)
    refine ⟨h1, fun x hx => ?_⟩
    rcases h2 x hx with h3 | h3
    · simp at h3
    · -- members of `l` are snapshot entries
      have : ∀ (seqs : List Nat) (l : List SMsg), seqs.mapM (fun n => if n = 0 then none else snap[n - 1]?) = some l →
          ∀ x ∈ l, x ∈ snap := by
        intro seqs
        induction seqs with
        | nil => intro l hl x hx; simp at hl; subst hl; simp at hx
        | cons n t ih =>
          intro l hl x hx
          rw [List.mapM_cons] at hl
          cases hn : (if n = 0 then none else snap[n - 1]?) with
          | none => simp [hn] at hl
          | some y =>
            cases ht : t.mapM (fun n => if n = 0 then none else snap[n - 1]?) with
            | none => simp [hn, ht] at hl
            | some l' =>
              simp [hn, ht] at hl
              subst hl
              rcases List.mem_cons.mp hx with rfl | hx
              · split at hn
                · cases hn
                · exact List.mem_of_getElem? hn
              · exact ih l' ht x hx
      exact this seqs l hm x h3

theorem insertByUid_perm (m : SMsg) (l : List SMsg) : (insertByUid m l).Perm (m :: l) := by
  induction l with
  | nil => exact List.Perm.refl _
  | cons x xs ih =>
    simp only [insertByUid]
    split
    · exact List.Perm.refl _
    · exact (List.Perm.cons x ih).trans (List.Perm.swap m x xs)

theorem sortByUid_perm (ms : List SMsg) : (sortByUid ms).Perm ms := by
  induction ms with
  | nil => exact List.Perm.refl _
  | cons m ms ih =>
    simp only [sortByUid, List.foldr_cons] at ih ⊢
    exact (insertByUid_perm m _).trans (List.Perm.cons m ih)

theorem sorted_spec {snap : Snap} {seqs : List Nat} {ms : List SMsg} (h : resolve snap seqs = some ms) :
    ((sortByUid ms).map (·.id)).Nodup ∧ ∀ id ∈ (sortByUid ms).map (·.id), ∃ x ∈ snap, x.id = id := by
  obtain ⟨h1, h2⟩ := resolve_spec h
  have hp := sortByUid_perm ms
  refine ⟨(hp.map _).nodup_iff.mpr h1, ?_⟩
  intro id hid
  obtain ⟨x, hx, rfl⟩ := List.mem_map.mp hid
  exact ⟨x, h2 x (hp.mem_iff.mp hx), rfl⟩

/-! ### commands -/

theorem pendC_disjoint_comm (sid : StateId) (mb : Nat) (cu cs : Bool) (A B : List Update)
    (h : pendC sid mb cu cs A = [] ∨ pendC sid mb cu cs B = []) :
    pendC sid mb cu cs (A ++ B) = pendC sid mb cu cs (B ++ A) := by
  rw [pendC_append, pendC_append]
  rcases h with h | h <;> simp [h]

/-- **every command delivers** -/
theorem good_effect {idx : Index} (hwf : idx.Wf) {me : Sess} {sid : StateId} {c : Cmd} {e : Effect}
    (hsel : ∀ mb, me.sel = some mb → mb < idx.boxes.length)
    (hsnap : ∀ mb, me.sel = some mb → ∀ x ∈ me.snap, x.id < idx.nextId)
    (h : effect idx me sid c = some e) : Good idx e.idx e.ups := by
  cases c with
  | append mb fl =>
    simp only [effect] at h
    split at h
    · cases h
    · next hmb =>
      simp only [Option.some.injEq] at h
      subst h
      simp only
      have hmb' : mb < idx.boxes.length := by omega
      have g1 := good_newMsg hwf (Flags.norm (Flags.remove1 fl Flags.deleted)) (by
        rw [Flags.mem_norm]; exact deleted_not_mem_remove1 fl)
      have g2 := good_add g1.2 (mb := mb) (by simpa [Index.newMsg] using hmb') [idx.nextId] (fl.contains Flags.deleted)
        (if (me.sel == some mb) = true then some sid else none) (by simp)
        (by
          intro id hid
          simp only [List.mem_singleton] at hid
          subst hid
          cases hh : ((idx.newMsg (Flags.norm (Flags.remove1 fl Flags.deleted))).box mb).has idx.nextId with
          | false => rfl
          | true =>
            simp only [Box.has, List.any_eq_true] at hh
            obtain ⟨r, hr, hrid⟩ := hh
            have := hwf.fresh mb r hr
            have hrid' : r.id = idx.nextId := by simpa using hrid
            omega)
        (by intro id hid; simp only [List.mem_singleton] at hid; subst hid; simp [Index.newMsg])
      simpa using g1.trans g2
  | store seqs op fl silent =>
    simp only [effect] at h
    split at h
    · cases h
    · next sel hs =>
      split at h
      · cases h
      · next ms hms =>
        simp only [Option.some.injEq] at h
        subst h
        exact good_store hwf (hsel sel hs) sid _ (resolve_spec hms).1 op fl
  | expunge =>
    simp only [effect] at h
    split at h
    · cases h
    · next sel hs =>
      split at h
      · simp only [Option.some.injEq] at h; subst h; exact Good.refl hwf
      · simp only [Option.some.injEq] at h; subst h; exact good_remove hwf sel _
  | copy seqs dest =>
    simp only [effect] at h
    split at h
    · cases h
    · next sel hs =>
      split at h
      · cases h
      · next hd =>
        split at h
        · cases h
        · next ms hms =>
          simp only [Option.some.injEq] at h
          subst h
          obtain ⟨h1, h2⟩ := sorted_spec hms
          refine good_actionAdd hwf (by omega) _ (some sid) h1 ?_
          intro id hid
          obtain ⟨x, hx, rfl⟩ := h2 id hid
          exact hsnap sel hs x hx
  | move seqs dest =>
    simp only [effect] at h
    split at h
    · cases h
    · next sel hs =>
      split at h
      · cases h
      · next hd =>
        split at h
        · cases h
        · next ms hms =>
          obtain ⟨h1, h2⟩ := sorted_spec hms
          have hdest : dest < idx.boxes.length := by omega
          have hselb := hsel sel hs
          -- the messages moved: still in the source, each once, all known
          have hnd : (((sortByUid ms).map (·.id)).filter (idx.box sel).has).Nodup := h1.sublist List.filter_sublist
          have hlt : ∀ id ∈ ((sortByUid ms).map (·.id)).filter (idx.box sel).has, id < idx.nextId := by
            intro id hid
            obtain ⟨x, hx, rfl⟩ := h2 id (List.mem_filter.mp hid).1
            exact hsnap sel hs x hx
          generalize ((sortByUid ms).map (·.id)).filter (idx.box sel).has = toMove at h hnd hlt
          split at h
          · next heq =>
            -- onto the selected mailbox itself
            have heq' : sel = dest := by simpa using heq
            subst heq'
            split at h
            · simp only [Option.some.injEq] at h; subst h; exact Good.refl hwf
            · simp only [Option.some.injEq] at h
              subst h
              have g1 := good_remove hwf sel toMove
              have g2 := good_actionAdd g1.2 (mb := sel) (by simpa [removeFrom] using hselb) toMove none hnd
                (by simpa [removeFrom] using hlt)
              exact g1.trans g2
          · next hne =>
            have hne' : sel ≠ dest := by simpa using hne
            simp only [Option.some.injEq] at h
            subst h
            simp only
            -- copies the destination already holds are removed
            have g1 : Good idx
                (if (toMove.filter (idx.box dest).has).isEmpty = true then (idx, ([] : List Update))
                  else removeFrom idx dest (toMove.filter (idx.box dest).has)).1
                (if (toMove.filter (idx.box dest).has).isEmpty = true then (idx, ([] : List Update))
                  else removeFrom idx dest (toMove.filter (idx.box dest).has)).2 := by
              split
              · exact Good.refl hwf
              · exact good_remove hwf dest _
            generalize hI1 : (if (toMove.filter (idx.box dest).has).isEmpty = true then (idx, ([] : List Update))
                  else removeFrom idx dest (toMove.filter (idx.box dest).has)) = p1 at g1
            have hI1box : ∀ id ∈ toMove, (p1.1.box dest).has id = false := by
              intro id hid
              subst hI1
              split
              · next he =>
                have he' : toMove.filter (idx.box dest).has = [] := by simpa using he
                cases hh : (idx.box dest).has id with
                | false => rfl
                | true =>
                  have : id ∈ toMove.filter (idx.box dest).has := List.mem_filter.mpr ⟨hid, hh⟩
                  simp_all
              · simp only [removeFrom, Index.box_setBox_same hdest, Box.remove, Box.has, List.any_eq_false, List.mem_filter]
                intro r ⟨hr, hnc⟩ hrid
                have hrid' : r.id = id := by simpa using hrid
                have hhas : (idx.box dest).has id = true := by
                  simp only [Box.has, List.any_eq_true]
                  exact ⟨r, hr, by simpa using hrid'⟩
                have : id ∈ toMove.filter (idx.box dest).has := List.mem_filter.mpr ⟨hid, hhas⟩
                rw [hrid'] at hnc
                simp [this] at hnc
            have hI1len : p1.1.boxes.length = idx.boxes.length := g1.1.len
            have hI1next : p1.1.nextId = idx.nextId := by
              subst hI1; split <;> simp [removeFrom]
            -- out of the source
            have g2 := good_remove g1.2 sel toMove
            -- into the destination
            have hdest2 : dest < (removeFrom p1.1 sel toMove).1.boxes.length := by
              simp only [removeFrom, Index.length_setBox, hI1len]; exact hdest
            have g3 := good_add g2.2 hdest2 toMove false (some sid) hnd (by
              intro id hid
              simp only [removeFrom, Index.box_setBox_other (Ne.symm hne')]
              exact hI1box id hid) (by
              intro id hid
              simp only [removeFrom, Index.nextId_setBox, hI1next]
              exact hlt id hid)
            have g := (g1.trans g2).trans g3
            simp only [removeFrom] at g ⊢
            refine ⟨g.1.congr_ups ?_, g.2⟩
            intro sid' mb cu cs
            simp only [List.append_assoc, pendC_append]
            congr 1
            rw [← pendC_append, ← pendC_append]
            apply pendC_disjoint_comm
            by_cases hm : mb = dest
            · right
              rw [pendC_expunges]
              simp [hm, Ne.symm hne']
            · left
              rw [pendC_exists]
              simp [hm]

/-! ### connector-originated changes -/

theorem pend_remoteFlag (sid : StateId) (mb : Nat) (cu cs : Bool) (id : MsgId) (add : Bool) (flag : Flag) :
    Update.pend sid mb cu cs (.remoteFlag id add flag) =
      [id].map fun id => Responder.fetch id [flag] (if add then .add else .rem) cu cs false := by
  simp [Update.pend, Update.mboxPasses, Update.responders]

theorem good_remoteFlag {idx : Index} (hwf : idx.Wf) (id : MsgId) (add : Bool) (flag : Flag) (hf : flag ≠ Flags.deleted) :
    Good idx (idx.mapMsgFlags [id] fun cur => newFlags cur (if add then .add else .rem) [flag] false)
      [.remoteFlag id add flag] := by
  have hR : Flags.deleted ∉ [flag] := by simpa using Ne.symm hf
  have hop : (if add then FlagOp.add else FlagOp.rem) ≠ .set := by cases add <;> simp
  have hd : Delivers idx (idx.mapMsgFlags [id] fun cur => newFlags cur (if add then .add else .rem) [flag] false)
      [.remoteFlag id add flag] := by
    apply delivers_flags (ids := [id]) (fun _ => false) (by simp : [id].Nodup)
    · intro sid mb cu cs
      exact ⟨cu, cs, pend_remoteFlag ..⟩
    · rfl
    · rfl
    · intro mb; rfl
    · intro mb
      rw [view_mapMsgFlags, view_eq_map]
      apply viewEq_flagMap_rows
      intro r _
      split
      · exact flagsEq_msg _ _ _ _ _ hop hR
      · exact FlagsEq.refl _
  refine ⟨hd, wf_of_delivers hd hwf (fun mb r hr => hwf.fresh mb r hr) ?_⟩
  intro id'
  rw [Index.msgFlags_mapMsgFlags]
  have hc := hwf.noDel id'
  split
  · rw [mem_newFlags]
    cases add <;> simp [hc, Ne.symm hf]
  · exact hc

/-- additions of `setMessageMailboxes` -/
theorem good_boxes_add {idx : Index} (hwf : idx.Wf) (id : MsgId) (hid : id < idx.nextId) (toAdd : List Nat)
    (hnd : toAdd.Nodup) (hlen : ∀ mb ∈ toAdd, mb < idx.boxes.length) (hnot : ∀ mb ∈ toAdd, (idx.box mb).has id = false)
    (acc : List Update) :
    ∃ us, (toAdd.foldl (fun (acc : Index × List Update) mb =>
        (acc.1.setBox mb ((acc.1.box mb).add [id]), acc.2 ++ [.exists mb (addItems acc.1 mb [id]) none])) (idx, acc)).2 = acc ++ us ∧
      Good idx (toAdd.foldl (fun (acc : Index × List Update) mb =>
        (acc.1.setBox mb ((acc.1.box mb).add [id]), acc.2 ++ [.exists mb (addItems acc.1 mb [id]) none])) (idx, acc)).1 us ∧
      (∀ mb, mb ∉ toAdd → ((toAdd.foldl (fun (acc : Index × List Update) mb =>
        (acc.1.setBox mb ((acc.1.box mb).add [id]), acc.2 ++ [.exists mb (addItems acc.1 mb [id]) none])) (idx, acc)).1.box mb) = idx.box mb) := by
  induction toAdd generalizing idx acc with
  | nil => exact ⟨[], by simp, Good.refl hwf, fun _ _ => rfl⟩
  | cons mb t ih =>
    simp only [List.nodup_cons] at hnd
    simp only [List.foldl_cons]
    have g1 := good_add hwf (hlen mb List.mem_cons_self) [id] false none (by simp)
      (by intro x hx; simp only [List.mem_singleton] at hx; subst hx; exact hnot mb List.mem_cons_self)
      (by intro x hx; simp only [List.mem_singleton] at hx; subst hx; exact hid)
    obtain ⟨us, e1, g2, hb⟩ := ih (idx := idx.setBox mb ((idx.box mb).add [id])) g1.2 (by simpa using hid) hnd.2
      (by intro m hm; simpa using hlen m (List.mem_cons_of_mem _ hm))
      (by
        intro m hm
        have : m ≠ mb := fun e => hnd.1 (e ▸ hm)
        rw [Index.box_setBox_other this]
        exact hnot m (List.mem_cons_of_mem _ hm))
      (acc ++ [.exists mb (addItems idx mb [id]) none])
    refine ⟨[.exists mb (addItems idx mb [id]) none] ++ us, by rw [e1, List.append_assoc], g1.trans g2, ?_⟩
    intro m hm
    have hm' : m ≠ mb ∧ m ∉ t := by simpa using hm
    rw [hb m hm'.2, Index.box_setBox_other hm'.1]

/-- removals of `setMessageMailboxes` -/
theorem good_boxes_rem {idx : Index} (hwf : idx.Wf) (id : MsgId) (toRem : List Nat) (acc : List Update) :
    ∃ us, (toRem.foldl (fun (acc : Index × List Update) mb =>
        ((removeFrom acc.1 mb [id]).1, acc.2 ++ (removeFrom acc.1 mb [id]).2)) (idx, acc)).2 = acc ++ us ∧
      Good idx (toRem.foldl (fun (acc : Index × List Update) mb =>
        ((removeFrom acc.1 mb [id]).1, acc.2 ++ (removeFrom acc.1 mb [id]).2)) (idx, acc)).1 us := by
  induction toRem generalizing idx acc with
  | nil => exact ⟨[], by simp, Good.refl hwf⟩
  | cons mb t ih =>
    simp only [List.foldl_cons]
    have g1 := good_remove hwf mb [id]
    obtain ⟨us, e1, g2⟩ := ih (idx := (removeFrom idx mb [id]).1) g1.2 (acc ++ (removeFrom idx mb [id]).2)
    exact ⟨(removeFrom idx mb [id]).2 ++ us, by rw [e1, List.append_assoc], g1.trans g2⟩

theorem boxesOf_mem {idx : Index} {id : MsgId} {mb : Nat} : mb ∈ idx.boxesOf id ↔ mb < idx.boxes.length ∧ (idx.box mb).has id = true := by
  simp [Index.boxesOf]

/-- the connector's `MessageDeleted` writes and queues what `MessageMailboxesUpdated(id, [])` does -/
theorem connEffect_delete (idx : Index) (id : MsgId) : connEffect idx (.delete id) = connEffect idx (.boxes id []) := by
  have hf : (idx.boxesOf id).filter (fun _ => true) = idx.boxesOf id := List.filter_eq_self.mpr (by simp)
  simp [connEffect, hf]

/-- **every connector-originated change delivers** -/
theorem good_connEffect {idx : Index} (hwf : idx.Wf) (c : ConnOp) (hv : (SysOp.conn c).Valid) :
    Good idx (connEffect idx c).1 (connEffect idx c).2 := by
  cases c with
  | create mb fl =>
    simp only [connEffect]
    split
    · exact Good.refl hwf
    · next hmb =>
      have hmb' : mb < idx.boxes.length := by omega
      have g1 := good_newMsg hwf (Flags.norm fl) (by rw [Flags.mem_norm]; exact hv)
      have g2 := good_add g1.2 (mb := mb) (by simpa [Index.newMsg] using hmb') [idx.nextId] false none (by simp)
        (by
          intro id hid
          simp only [List.mem_singleton] at hid
          subst hid
          cases hh : ((idx.newMsg (Flags.norm fl)).box mb).has idx.nextId with
          | false => rfl
          | true =>
            simp only [Box.has, List.any_eq_true] at hh
            obtain ⟨r, hr, hrid⟩ := hh
            have := hwf.fresh mb r hr
            have hrid' : r.id = idx.nextId := by simpa using hrid
            omega)
        (by intro id hid; simp only [List.mem_singleton] at hid; subst hid; simp [Index.newMsg])
      simpa using g1.trans g2
  | boxes id mbs =>
    simp only [connEffect]
    split
    · exact Good.refl hwf
    · next hid =>
      have hid' : id < idx.nextId := by omega
      have hnd : mbs.Nodup := hv
      generalize hA : ((mbs.filter fun mb => mb < idx.boxes.length).filter fun mb => !(idx.boxesOf id).contains mb) = toAdd
      obtain ⟨us1, e1, g1, _⟩ := good_boxes_add hwf id hid' toAdd
        (by subst hA; exact (hnd.sublist List.filter_sublist).sublist List.filter_sublist)
        (by subst hA; intro mb hm; simpa using (List.mem_filter.mp (List.mem_filter.mp hm).1).2)
        (by
          subst hA
          intro mb hm
          obtain ⟨hm1, hm2⟩ := List.mem_filter.mp hm
          have hlt : mb < idx.boxes.length := by simpa using (List.mem_filter.mp hm1).2
          cases hh : (idx.box mb).has id with
          | false => rfl
          | true =>
            have : mb ∈ idx.boxesOf id := boxesOf_mem.mpr ⟨hlt, hh⟩
            simp [this] at hm2)
        []
      generalize hP : (toAdd.foldl (fun (acc : Index × List Update) mb =>
        (acc.1.setBox mb ((acc.1.box mb).add [id]), acc.2 ++ [.exists mb (addItems acc.1 mb [id]) none])) (idx, [])) = p at e1 g1
      obtain ⟨pi, pu⟩ := p
      simp only [List.nil_append] at e1 g1
      subst e1
      obtain ⟨us2, e2, g2⟩ := good_boxes_rem g1.2 id ((idx.boxesOf id).filter fun mb => !mbs.contains mb) pu
      rw [e2]
      exact g1.trans g2
  | delete id =>
    simp only [connEffect]
    split
    · exact Good.refl hwf
    · obtain ⟨us2, e2, g2⟩ := good_boxes_rem hwf id (idx.boxesOf id) []
      rw [e2]
      exact g2
  | setFlag id flag on =>
    simp only [connEffect]
    split
    · exact Good.refl hwf
    · split
      · exact good_remoteFlag hwf id true flag hv
      · split
        · exact good_remoteFlag hwf id false flag hv
        · exact Good.refl hwf

end Gluon.Sys
