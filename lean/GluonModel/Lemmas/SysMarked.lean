/- `Marked`: the expunge marks of a snapshot (`snapMsg.toExpunge`: what `Mailbox.Expunge`, i.e. EXPUNGE, UID EXPUNGE
   and CLOSE, choose the messages to remove from) agree with the snapshot's flags — along EVERY trace of the system
   model (no hypothesis on the schedule); and what the marks of a settled session are: the `\Deleted` column of ITS
   mailbox in the index, whatever mailbox the flag changes it has seen were made in. -/
import GluonModel.Lemmas.SysConverge
import GluonModel.Spec.MailboxRef

namespace Gluon

/-- every entry's `toExpunge` says "the entry's flags hold `\Deleted`" -/
def Snap.Marked (s : Snap) : Prop := ∀ x ∈ s, x.toExpunge = x.flags.contains Flags.deleted

theorem Snap.marked_nil : Snap.Marked [] := by intro x hx; cases hx

theorem Snap.Marked.insert {s s' : Snap} {id uid fl} (h : Snap.Marked s) (hi : s.insert id uid fl = .ok s') :
    Snap.Marked s' := by
  intro x hx
  rcases (Snap.mem_insert hi x).mp hx with hx | rfl
  · exact h x hx
  · rfl

theorem Snap.Marked.insertOutOfOrder {s s' : Snap} {id uid fl} (h : Snap.Marked s)
    (hi : s.insertOutOfOrder id uid fl = .ok s') : Snap.Marked s' := by
  intro x hx
  rcases (Snap.mem_insertOutOfOrder hi x).mp hx with hx | rfl
  · exact h x hx
  · rfl

theorem Snap.Marked.remove {s s' : Snap} {id} (h : Snap.Marked s) (hr : s.remove id = some s') : Snap.Marked s' := by
  simp only [Snap.remove] at hr
  split at hr
  · cases hr
  · simp only [Option.some.injEq] at hr
    subst hr
    intro x hx
    exact h x (List.mem_of_mem_eraseIdx hx)

theorem Snap.Marked.setFlags {s : Snap} (h : Snap.Marked s) (id : MsgId) (fl : Flags) : Snap.Marked (s.setFlags id fl) := by
  intro x hx
  simp only [Snap.setFlags, List.mem_map] at hx
  obtain ⟨m, hm, rfl⟩ := hx
  split
  · rfl
  · exact h m hm

/-- `responder.handle` keeps the marks in step with the flags: `targetedExists` inserts an entry built by
    `newSnapMsg`, `expunge` removes one, `fetch` goes through `snapshot.setMessageFlags` -/
theorem Responder.handle_marked (r : Responder) (close : Bool) (sid : StateId) {snap : Snap} (h : Snap.Marked snap) :
    Snap.Marked (r.handle close sid snap).snap := by
  cases r with
  | «exists» id uid fl t o =>
    simp only [Responder.handle]
    split
    · exact h
    · split
      · exact h
      · next snap' hins =>
        have hm : Snap.Marked snap' := by
          split at hins
          · exact h.insert hins
          · exact h.insertOutOfOrder hins
        split <;> exact hm
  | expunge id =>
    simp only [Responder.handle]
    split
    · exact h
    · split
      · exact h
      · next snap' hr => split <;> exact h.remove hr
  | fetch id fl op a b c =>
    simp only [Responder.handle]
    split
    · exact h
    · split
      · exact h.setFlags _ _
      · split
        · exact h.setFlags _ _
        · split <;> exact h.setFlags _ _

theorem handleAll_marked (close : Bool) (sid : StateId) (rs : List Responder) {snap : Snap} (h : Snap.Marked snap) :
    Snap.Marked (handleAll close sid snap rs).1 := by
  induction rs generalizing snap with
  | nil => exact h
  | cons r rs ih =>
    simp only [handleAll]
    split
    · exact r.handle_marked close sid h
    · exact ih (r.handle_marked close sid h)

/-- `flushResponses` (any `permitExpunge`, inside CLOSE or not) -/
theorem flush_marked (p c : Bool) (sid : StateId) {snap : Snap} (res : List Responder) (h : Snap.Marked snap) :
    Snap.Marked (flush p c sid snap res).snap := by
  rw [flush_snap]
  exact handleAll_marked c sid _ h

theorem marked_snapOf (v : View) : Snap.Marked (Sys.snapOf v) := by
  intro x hx
  simp only [Sys.snapOf, List.mem_map] at hx
  obtain ⟨m, _, rfl⟩ := hx
  rfl

namespace Sys

/-- every session's marks agree with its flags -/
def Sys.Marked (s : Sys) : Prop := ∀ me ∈ s.sess, Snap.Marked me.snap

theorem Sess.apply_snap (sid : StateId) (cu cs : Bool) (s : Sess) (u : Update) : (s.apply sid cu cs u).snap = s.snap := by
  unfold Sess.apply
  split
  · rfl
  · split <;> rfl

theorem Sess.applyAll_snap (sid : StateId) (cu cs : Bool) (s : Sess) (us : List Update) :
    (s.applyAll sid cu cs us).snap = s.snap := by
  unfold Sess.applyAll
  induction us generalizing s with
  | nil => rfl
  | cons u us ih => simp only [List.foldl_cons]; rw [ih, Sess.apply_snap]

theorem Sess.drain_snap (sid : StateId) (k : Nat) (s : Sess) : (s.drain sid k).snap = s.snap := by
  unfold Sess.drain
  rw [Sess.applyAll_snap]

theorem Sess.flush_marked (sid : StateId) (p : Bool) {s : Sess} (h : Snap.Marked s.snap) :
    Snap.Marked (s.flush sid p).1.snap := by
  unfold Sess.flush
  exact Gluon.flush_marked p false sid s.res h

theorem endFlushes_marked (sid : StateId) (e : Effect) {me : Sess} (h : Snap.Marked me.snap) :
    Snap.Marked (endFlushes sid e me).1.snap := by
  unfold endFlushes
  cases e.flush1 with
  | none =>
    simp only
    split
    · exact Sess.flush_marked sid false h
    · exact h
  | some p =>
    simp only
    split
    · exact Sess.flush_marked sid false (Sess.flush_marked sid p h)
    · exact Sess.flush_marked sid p h

theorem closeEnd_marked (sid : StateId) {me : Sess} (h : Snap.Marked me.snap) : Snap.Marked (me.closeEnd sid).1.snap := by
  unfold Sess.closeEnd
  simp only
  split
  · apply Sess.flush_marked
    exact Gluon.flush_marked true true sid _ h
  · exact Snap.marked_nil

theorem marked_setSess {s : Sys} (h : Sys.Marked s) (i : Nat) {x : Sess} (hx : Snap.Marked x.snap) :
    Sys.Marked (s.setSess i x) := by
  intro me hme
  simp only [Sys.setSess] at hme
  rcases List.mem_or_eq_of_mem_set hme with hme | rfl
  · exact h me hme
  · exact hx

/-- **one step keeps the marks in step with the flags** — every op, every state, no hypothesis -/
theorem step_marked {s : Sys} (h : Sys.Marked s) (op : SysOp) : Sys.Marked (step s op).1 := by
  cases op with
  | cmd i c =>
    simp only [step]
    cases hi : s.sess[i]? with
    | none => exact h
    | some me =>
      have hme : Snap.Marked me.snap := h me (List.mem_of_getElem? hi)
      simp only
      cases he : effect s.idx me (sidOf i) c with
      | none =>
        simp only
        split
        · exact h
        · exact h
        · exact marked_setSess h i (Sess.flush_marked (sidOf i) false hme)
      | some e =>
        simp only
        intro me' hme'
        simp only at hme'
        have hall : ∀ x ∈ (s.sess.mapIdx fun j sj =>
            if j = i then sj.applyAll (sidOf i) false e.silent e.ups else sj.enqueue e.ups), Snap.Marked x.snap := by
          intro x hx
          obtain ⟨j, hj, rfl⟩ := List.mem_mapIdx.mp hx
          split
          · rw [Sess.applyAll_snap]; exact h _ (List.getElem_mem hj)
          · exact h (s.sess[j]) (List.getElem_mem hj)
        rcases List.mem_or_eq_of_mem_set hme' with hm | rfl
        · exact hall _ hm
        · apply endFlushes_marked
          cases hg : (s.sess.mapIdx fun j sj =>
              if j = i then sj.applyAll (sidOf i) false e.silent e.ups else sj.enqueue e.ups)[i]? with
          | none => simpa using hme
          | some y => simpa using hall y (List.mem_of_getElem? hg)
  | close i =>
    simp only [step]
    cases hi : s.sess[i]? with
    | none => exact h
    | some me =>
      have hme : Snap.Marked me.snap := h me (List.mem_of_getElem? hi)
      simp only
      cases he : effect s.idx me (sidOf i) .expunge with
      | none => exact h
      | some e =>
        simp only
        have hall : ∀ x ∈ (s.sess.mapIdx fun j sj =>
            if j = i then sj.applyAll (sidOf i) false e.silent e.ups else sj.enqueue e.ups), Snap.Marked x.snap := by
          intro x hx
          obtain ⟨j, hj, rfl⟩ := List.mem_mapIdx.mp hx
          split
          · rw [Sess.applyAll_snap]; exact h _ (List.getElem_mem hj)
          · exact h (s.sess[j]) (List.getElem_mem hj)
        have hme1 : Snap.Marked (((s.sess.mapIdx fun j sj =>
            if j = i then sj.applyAll (sidOf i) false e.silent e.ups else sj.enqueue e.ups)[i]?).getD me).snap := by
          cases hg : (s.sess.mapIdx fun j sj =>
              if j = i then sj.applyAll (sidOf i) false e.silent e.ups else sj.enqueue e.ups)[i]? with
          | none => simpa using hme
          | some y => simpa using hall y (List.mem_of_getElem? hg)
        intro me' hme'
        simp only at hme'
        rcases List.mem_or_eq_of_mem_set hme' with hm | rfl
        · exact hall _ hm
        · exact closeEnd_marked _ hme1
  | conn c =>
    simp only [step]
    intro me hme
    simp only [List.mem_map] at hme
    obtain ⟨x, hx, rfl⟩ := hme
    exact h x hx
  | drain i k =>
    simp only [step]
    cases hi : s.sess[i]? with
    | none => exact h
    | some me =>
      simp only
      apply marked_setSess h
      rw [Sess.drain_snap]
      exact h me (List.mem_of_getElem? hi)
  | flush i p =>
    simp only [step]
    cases hi : s.sess[i]? with
    | none => exact h
    | some me =>
      simp only
      split
      · exact h
      · exact marked_setSess h i (Sess.flush_marked (sidOf i) p (h me (List.mem_of_getElem? hi)))
  | select i mb =>
    simp only [step]
    cases hi : s.sess[i]? with
    | none => exact h
    | some me =>
      simp only
      split
      · exact h
      · exact marked_setSess h i (marked_snapOf _)
  | unselect i =>
    simp only [step]
    cases hi : s.sess[i]? with
    | none => exact h
    | some me =>
      simp only
      split
      · exact h
      · exact marked_setSess h i Snap.marked_nil

theorem init_marked (n k : Nat) : Sys.Marked (Sys.init n k) := by
  intro me hme
  simp only [Sys.init, List.mem_replicate] at hme
  rw [hme.2]
  exact Snap.marked_nil

/-- … hence along every trace -/
theorem exec_marked {s : Sys} (h : Sys.Marked s) (ops : List SysOp) : Sys.Marked (exec s ops) := by
  induction ops generalizing s with
  | nil => exact h
  | cons op ops ih => rw [exec_cons]; exact ih (step_marked h op)

theorem settle_marked {s : Sys} (h : Sys.Marked s) (k i : Nat) : Sys.Marked (settle k s i) := by
  unfold settle
  exact step_marked (step_marked h _) _

theorem settleAll_marked {s : Sys} (h : Sys.Marked s) (k : Nat) : Sys.Marked (settleAll k s) := by
  unfold settleAll
  generalize List.range s.sess.length = L
  induction L generalizing s with
  | nil => exact h
  | cons i L ih => simp only [List.foldl_cons]; exact ih (settle_marked h k i)

/-! ### what the marks of a session are once its snapshot shows its mailbox -/

/-- a row shows `\Deleted` iff it is marked in ITS mailbox table (`\Deleted` never sits in the per-message list) -/
theorem deleted_mem_rowFlags {idx : Index} (hnd : ∀ id, Flags.deleted ∉ idx.msgFlags id) (r : Row) :
    Flags.deleted ∈ idx.rowFlags r ↔ r.deleted = true := by
  rw [Index.rowFlags_eq, mem_rowX]
  constructor
  · rintro (h | ⟨h, _⟩)
    · exact absurd h (hnd r.id)
    · exact h
  · intro h; exact Or.inr ⟨h, rfl⟩

theorem deleted_ne_recent : Flags.deleted ≠ Flags.recent := by decide

/-- **the marks of a snapshot that shows the mailbox are the `\Deleted` column of that mailbox** -/
theorem marks_of_sameView {idx : Index} (hnd : ∀ id, Flags.deleted ∉ idx.msgFlags id) :
    ∀ (rows : List Row) (snap : Snap), Snap.Marked snap →
      SameView snap (rows.map fun r => ({ id := r.id, uid := r.uid, flags := idx.rowFlags r } : VMsg)) →
      (snap.filter (·.toExpunge)).map (·.id) = (rows.filter (·.deleted)).map (·.id)
  | [], [], _, _ => rfl
  | [], _ :: _, _, h => absurd h (by simp [SameView])
  | _ :: _, [], _, h => absurd h (by simp [SameView])
  | r :: rows, x :: snap, hm, h => by
    simp only [List.map_cons, SameView] at h
    obtain ⟨⟨hid, _, hfl⟩, hrest⟩ := h
    have ih := marks_of_sameView hnd rows snap (fun y hy => hm y (List.mem_cons_of_mem _ hy)) hrest
    have hx : x.toExpunge = r.deleted := by
      rw [hm x List.mem_cons_self]
      have := (hfl Flags.deleted deleted_ne_recent).trans (deleted_mem_rowFlags hnd r)
      cases hd : r.deleted with
      | true => simpa [List.contains_iff_mem] using this.mpr hd
      | false =>
        cases hc : x.flags.contains Flags.deleted with
        | false => rfl
        | true =>
          have := this.mp (by simpa [List.contains_iff_mem] using hc)
          rw [hd] at this; cases this
    simp only [List.filter_cons, hx]
    cases r.deleted with
    | true => simp only [if_true, List.map_cons]; rw [ih]; simp only at hid; rw [hid]
    | false => simpa using ih


/-! ### EXPUNGE of a session whose marks are the `\Deleted` column -/

/-- the reference EXPUNGE on one mailbox table (`MailboxRef.refExpunge`: `Mailbox.remove (deletedOf …)`): the rows
    marked `\Deleted` leave, order, UIDs and the UID counter stay -/
def Box.expunged (b : Box) : Box := { b with rows := b.rows.filter fun r => !r.deleted }

theorem inj_of_nodup_map {α β : Type} (f : α → β) : ∀ (l : List α), (l.map f).Nodup →
    ∀ x ∈ l, ∀ y ∈ l, f x = f y → x = y
  | [], _, x, hx, _, _, _ => by cases hx
  | a :: t, hnd, x, hx, y, hy, hxy => by
    simp only [List.map_cons, List.nodup_cons, List.mem_map, not_exists, not_and] at hnd
    rcases List.mem_cons.mp hx with rfl | hx' <;> rcases List.mem_cons.mp hy with rfl | hy'
    · rfl
    · exact absurd hxy.symm (hnd.1 y hy')
    · exact absurd hxy (hnd.1 x hx')
    · exact inj_of_nodup_map f t hnd.2 x hx' y hy' hxy

/-- removing the messages of the `\Deleted` rows = dropping the `\Deleted` rows (a mailbox holds a message once) -/
theorem remove_deleted_ids (b : Box) (hnd : (b.rows.map (·.id)).Nodup) :
    b.remove ((b.rows.filter (·.deleted)).map (·.id)) = b.expunged := by
  simp only [Box.remove, Box.expunged]
  congr 1
  apply List.filter_congr
  intro r hr
  congr 1
  cases hd : r.deleted with
  | true =>
    simp only [List.contains_iff_mem, List.mem_map, List.mem_filter]
    exact ⟨r, ⟨hr, hd⟩, rfl⟩
  | false =>
    cases hc : ((b.rows.filter (·.deleted)).map (·.id)).contains r.id with
    | false => rfl
    | true =>
      simp only [List.contains_iff_mem, List.mem_map, List.mem_filter] at hc
      obtain ⟨r', ⟨hr', hd'⟩, hid⟩ := hc
      have := inj_of_nodup_map (·.id) b.rows hnd r' hr' r hr hid
      subst this
      rw [hd] at hd'; cases hd'

/-- the messages `Mailbox.Expunge` hands to the index: marked `\Deleted` in the snapshot and without a pending `expunge`
    responder (`State.pendingExpunges`, fix 9c5a27f) -/
def expungeIds (me : Sess) : List MsgId :=
  ((me.snap.filter (·.toExpunge)).map (·.id)).filter fun id => !me.res.contains (.expunge id)

theorem expungeIds_of_res_nil {me : Sess} (hres : me.res = []) : expungeIds me = (me.snap.filter (·.toExpunge)).map (·.id) := by
  simp [expungeIds, hres]

/-- the index after `EXPUNGE` of session `i` (its flushes do not touch the index) -/
theorem expunge_idx {s : Sys} {i : Nat} {me : Sess} {mb : Nat} (hi : s.sess[i]? = some me) (hs : me.sel = some mb) :
    (step s (.cmd i .expunge)).1.idx =
      if ((expungeIds me).filter (s.idx.box mb).has).isEmpty then s.idx
      else s.idx.setBox mb ((s.idx.box mb).remove ((expungeIds me).filter (s.idx.box mb).has)) := by
  unfold expungeIds
  by_cases hemp : ((((me.snap.filter (·.toExpunge)).map (·.id)).filter fun id => !me.res.contains (.expunge id)).filter
      (s.idx.box mb).has).isEmpty = true
  · simp only [step, hi, effect, hs, hemp, if_true]
  · simp only [step, hi, effect, hs, hemp, Bool.false_eq_true, if_false, removeFrom]

/-- **EXPUNGE by a session whose marks are the `\Deleted` column of its mailbox is the reference EXPUNGE**: the
    `\Deleted` rows of that mailbox leave; every other mailbox, every message's flags and the id counter stay -/
theorem expunge_of_marks {s : Sys} (hwf : s.idx.Wf) {i : Nat} {me : Sess} {mb : Nat} (hi : s.sess[i]? = some me)
    (hs : me.sel = some mb) (hmb : mb < s.idx.boxes.length) (hres : me.res = [])
    (hmarks : (me.snap.filter (·.toExpunge)).map (·.id) = ((s.idx.box mb).rows.filter (·.deleted)).map (·.id)) :
    (step s (.cmd i .expunge)).1.idx.box mb = (s.idx.box mb).expunged ∧
    (∀ mb', mb' ≠ mb → (step s (.cmd i .expunge)).1.idx.box mb' = s.idx.box mb') ∧
    (step s (.cmd i .expunge)).1.idx.flags = s.idx.flags ∧ (step s (.cmd i .expunge)).1.idx.nextId = s.idx.nextId := by
  have hnd : ((s.idx.box mb).rows.map (·.id)).Nodup := by
    have := (hwf.box mb).view.nodup
    rwa [Index.mbox, Index.view_ids] at this
  have hall : (((s.idx.box mb).rows.filter (·.deleted)).map (·.id)).filter (s.idx.box mb).has =
      ((s.idx.box mb).rows.filter (·.deleted)).map (·.id) := by
    apply List.filter_eq_self.mpr
    intro id hid
    rw [Index.box_has_iff]
    simp only [List.mem_map, List.mem_filter] at hid ⊢
    obtain ⟨r, ⟨hr, _⟩, rfl⟩ := hid
    exact ⟨r, hr, rfl⟩
  rw [expunge_idx hi hs, expungeIds_of_res_nil hres, hmarks, hall]
  split
  · next hemp =>
    have hnone : (s.idx.box mb).expunged = s.idx.box mb := by
      simp only [Box.expunged]
      have : (s.idx.box mb).rows.filter (fun r => !r.deleted) = (s.idx.box mb).rows := by
        apply List.filter_eq_self.mpr
        intro r hr
        cases hd : r.deleted with
        | false => rfl
        | true =>
          have : r.id ∈ ((s.idx.box mb).rows.filter (·.deleted)).map (·.id) :=
            List.mem_map.mpr ⟨r, List.mem_filter.mpr ⟨hr, hd⟩, rfl⟩
          rw [List.isEmpty_iff.mp hemp] at this; cases this
      rw [this]
    exact ⟨hnone.symm, fun _ _ => rfl, rfl, rfl⟩
  · refine ⟨?_, fun mb' h' => Index.box_setBox_other h' _, rfl, rfl⟩
    rw [Index.box_setBox_same hmb, remove_deleted_ids _ hnd]

/-! ### the same statement in the vocabulary of the reference (`Spec/MailboxRef.lean`) -/

/-- a mailbox table of the index as a reference mailbox: `(uid, message, \Deleted)` in UID order + UIDNEXT -/
def Box.abs (b : Box) : MailboxRef.Mailbox :=
  { entries := b.rows.map fun r => { uid := r.uid, msg := r.id, deleted := r.deleted }, uidNext := b.uidNext }

/-- `Box.expunged` IS the reference EXPUNGE (`refExpunge` = `Mailbox.remove` of the messages of the `\Deleted` entries) -/
theorem abs_expunged (b : Box) (hnd : (b.rows.map (·.id)).Nodup) :
    b.expunged.abs = b.abs.remove ((b.abs.entries.filter (·.deleted)).map (·.msg)) := by
  have hD : (b.abs.entries.filter (·.deleted)).map (·.msg) = (b.rows.filter (·.deleted)).map (·.id) := by
    simp [Box.abs, List.filter_map, List.map_map, Function.comp_def]
  rw [hD]
  have hrows := congrArg Box.rows (remove_deleted_ids b hnd)
  simp only [Box.remove, Box.expunged] at hrows
  simp only [Box.abs, Box.expunged, MailboxRef.Mailbox.remove, List.filter_map, Function.comp_def]
  rw [← hrows]

end Sys
end Gluon
