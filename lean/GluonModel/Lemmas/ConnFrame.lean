/-
Frame lemmas for the C06 effect theorems: what point updates do to look-ups, and when the
"nothing else changed" predicates of Spec/ConnUpdates.lean hold.
-/
import GluonModel.Lemmas.ConnBasic

namespace Gluon.ConnUpd

theorem mboxSame_refl (m : Mbox) : mboxSame m m = true := by simp [mboxSame]
theorem msgSame_refl (g : Msg) : msgSame g g = true := by simp [msgSame, sameSet_refl]
theorem metaSame_refl (m : Mbox) : metaSame m m = true := by simp [metaSame]

theorem find?_isSome_of_mem {α : Type} (p : α → Bool) (l : List α) (x : α) (hx : x ∈ l) (hp : p x = true) :
    (l.find? p).isSome = true := by
  rw [List.find?_isSome]; exact ⟨x, hx, hp⟩

/-! ### look-ups after point updates -/

theorem mboxByIid_updMbox (db : DB) (i : Nat) (f : Mbox → Mbox) (hf : ∀ m, (f m).iid = m.iid) (j : Nat) :
    (db.updMbox i f).mboxByIid j = (db.mboxByIid j).map (fun m => if m.iid == i then f m else m) := by
  unfold DB.updMbox DB.mboxByIid
  apply find?_map_pres
  intro x
  split <;> simp [hf]

theorem mboxByIid_updMbox_ne (db : DB) (i : Nat) (f : Mbox → Mbox) (hf : ∀ m, (f m).iid = m.iid) (j : Nat) (h : j ≠ i) :
    (db.updMbox i f).mboxByIid j = db.mboxByIid j := by
  rw [mboxByIid_updMbox db i f hf j]
  cases hm : db.mboxByIid j with
  | none => rfl
  | some m =>
    have := (mboxByIid_some hm).2
    have hne : ¬ m.iid = i := by rw [this]; exact h
    simp [hne]

theorem mboxByIid_updMbox_eq (db : DB) (i : Nat) (f : Mbox → Mbox) (hf : ∀ m, (f m).iid = m.iid) :
    (db.updMbox i f).mboxByIid i = (db.mboxByIid i).map f := by
  rw [mboxByIid_updMbox db i f hf i]
  cases hm : db.mboxByIid i with
  | none => rfl
  | some m =>
    have := (mboxByIid_some hm).2
    simp [this]

/-- point updates of mailboxes that keep remote ids do not make an unknown mailbox known -/
theorem mboxByRid_updMbox (db : DB) (i : Nat) (f : Mbox → Mbox) (hf : ∀ m, (f m).rid = m.rid) (b : RID) :
    (db.updMbox i f).mboxByRid b = (db.mboxByRid b).map (fun m => if m.iid == i then f m else m) := by
  unfold DB.updMbox DB.mboxByRid
  apply find?_map_pres
  intro x
  split <;> simp [hf]

theorem mboxByRid_updMbox_none (db : DB) (i : Nat) (f : Mbox → Mbox) (b : RID) (hb : db.mboxByRid b = none)
    (hf : ∀ m, (f m).rid = m.rid) : (db.updMbox i f).mboxByRid b = none := by
  rw [mboxByRid_updMbox db i f hf, hb]; rfl

theorem msgByRid_updMsg (db : DB) (i : Nat) (f : Msg → Msg) (hf : ∀ g, (f g).rid = g.rid) (r : RID) :
    (db.updMsg i f).msgByRid r = (db.msgByRid r).map (fun g => if g.iid == i then f g else g) := by
  unfold DB.updMsg DB.msgByRid
  apply find?_map_pres
  intro x
  split <;> simp [hf]

theorem msgByIid_updMsg (db : DB) (i : Nat) (f : Msg → Msg) (hf : ∀ g, (f g).iid = g.iid) (j : Nat) :
    (db.updMsg i f).msgByIid j = (db.msgByIid j).map (fun g => if g.iid == i then f g else g) := by
  unfold DB.updMsg DB.msgByIid
  apply find?_map_pres
  intro x
  split <;> simp [hf]

theorem updMbox_iids (db : DB) (i : Nat) (f : Mbox → Mbox) (hf : ∀ m, (f m).iid = m.iid) :
    (db.updMbox i f).mboxes.map (·.iid) = db.mboxes.map (·.iid) := by
  simp only [DB.updMbox, List.map_map]
  apply List.map_congr_left
  intro m _
  simp only [Function.comp]
  split <;> simp [hf]

theorem mem_iids_isSome (db : DB) (j : Nat) (h : j ∈ db.mboxes.map (·.iid)) : (db.mboxByIid j).isSome = true := by
  simp only [List.mem_map] at h
  obtain ⟨m, hm, rfl⟩ := h
  exact find?_isSome_of_mem _ _ m hm (by simp)

/-! ### "nothing else changed" -/

theorem sameMsgsExcept_of_eq (skip : RID → Bool) (db db' : DB) (hi : InvP db) (h : db'.msgs = db.msgs) :
    sameMsgsExcept skip db db' = true := by
  have hby : ∀ r, db'.msgByRid r = db.msgByRid r := by intro r; simp [DB.msgByRid, h]
  simp only [sameMsgsExcept, Bool.and_eq_true, List.all_eq_true, Bool.or_eq_true]
  constructor
  · intro g hg
    right
    rw [hby, msgByRid_of_mem hi hg]
    exact msgSame_refl g
  · intro g hg
    right
    rw [h] at hg
    rw [msgByRid_of_mem hi hg]; rfl

theorem sameMboxesExcept_of_eq (skip : Mbox → Bool) (db db' : DB) (hi : InvP db) (h : db'.mboxes = db.mboxes) :
    sameMboxesExcept skip db db' = true := by
  have hby : ∀ i, db'.mboxByIid i = db.mboxByIid i := by intro i; simp [DB.mboxByIid, h]
  simp only [sameMboxesExcept, Bool.and_eq_true, List.all_eq_true, Bool.or_eq_true]
  constructor
  · intro m hm
    right
    rw [hby, mboxByIid_of_mem hi hm]
    exact mboxSame_refl m
  · intro m hm
    right
    rw [h] at hm
    rw [mboxByIid_of_mem hi hm]; rfl

theorem sameDelSubs_of_eq (db db' : DB) (h : db'.delSubs = db.delSubs) : sameDelSubs db db' = true := by
  simp [sameDelSubs, h]

theorem sameState_refl (db : DB) (hi : InvP db) : sameState db db = true := by
  simp [sameState, sameMboxes, sameMsgs, sameMboxesExcept_of_eq _ db db hi rfl, sameMsgsExcept_of_eq _ db db hi rfl,
    sameDelSubs_of_eq db db rfl]

/-- messages other than the one with internal id `i` are untouched by `updMsg i f` (f keeps ids) -/
theorem sameMsgsExcept_updMsg (db : DB) (hi : InvP db) (g : Msg) (hg : g ∈ db.msgs) (f : Msg → Msg)
    (hf : ∀ x, (f x).rid = x.rid) :
    sameMsgsExcept (fun r => r == g.rid) db (db.updMsg g.iid f) = true := by
  simp only [sameMsgsExcept, Bool.and_eq_true, List.all_eq_true, Bool.or_eq_true, beq_iff_eq]
  constructor
  · intro x hx
    by_cases hr : x.rid = g.rid
    · left; exact hr
    · right
      rw [msgByRid_updMsg db g.iid f hf, msgByRid_of_mem hi hx]
      have hne : ¬ x.iid = g.iid := by
        intro h
        apply hr
        have : x = g := eq_of_key_eq (fun g : Msg => g.iid) db.msgs x g hi.msgIid hx hg h
        rw [this]
      simp [hne, msgSame_refl]
  · intro x hx
    right
    simp only [DB.updMsg, List.mem_map] at hx
    obtain ⟨y, hy, rfl⟩ := hx
    have : (if y.iid == g.iid then f y else y).rid = y.rid := by split <;> simp [hf]
    rw [this, msgByRid_of_mem hi hy]; rfl

/-- mailboxes other than `i` are untouched by `updMbox i f` (f keeps ids) -/
theorem sameMboxesExcept_updMbox (db : DB) (hi : InvP db) (i : Nat) (f : Mbox → Mbox) (hf : ∀ m, (f m).iid = m.iid)
    (skip : Mbox → Bool) (hskip : ∀ m ∈ db.mboxes, m.iid = i → skip m = true) :
    sameMboxesExcept skip db (db.updMbox i f) = true := by
  simp only [sameMboxesExcept, Bool.and_eq_true, List.all_eq_true, Bool.or_eq_true]
  constructor
  · intro m hm
    by_cases h : m.iid = i
    · left; exact hskip m hm h
    · right
      rw [mboxByIid_updMbox_ne db i f hf m.iid h, mboxByIid_of_mem hi hm]
      exact mboxSame_refl m
  · intro m hm
    right
    apply mem_iids_isSome
    rw [← updMbox_iids db i f hf]
    exact List.mem_map_of_mem hm

end Gluon.ConnUpd
