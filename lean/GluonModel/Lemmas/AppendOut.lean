/-
Helper lemmas for C20, part 12: listing, protection, and moving / copying out of the recovery mailbox.
-/
import GluonModel.Lemmas.AppendVia

namespace Gluon.Append

/-! ### LIST -/

theorem find_of_count_one (bs : List Mbox) (n : String) (h : (bs.map (·.name)).count n = 1) (b : Mbox) (hb : b ∈ bs)
    (hn : b.name = n) : bs.find? (·.name == n) = some b := by
  induction bs with
  | nil => simp at hb
  | cons x r ih =>
    by_cases hx : x.name = n
    · simp only [List.map_cons, List.count_cons, hx, beq_self_eq_true, ↓reduceIte] at h
      have h0 : (r.map (·.name)).count n = 0 := by omega
      rcases List.mem_cons.mp hb with e | e
      · subst e; simp [find?_cons', hx]
      · have : n ∈ r.map (·.name) := hn ▸ List.mem_map_of_mem e
        exact absurd (List.count_pos_iff.mpr this) (by omega)
    · have hxn : (x.name == n) = false := by simpa using hx
      simp only [List.map_cons, List.count_cons, hxn] at h
      rcases List.mem_cons.mp hb with e | e
      · subst e; exact absurd hn hx
      · simp [find?_cons', hx]
        exact ih (by simpa using h) e

theorem listed_iff (s : St) (h : recCountBoxes s = 1) : recName ∈ list s ↔ recMsgs s ≠ [] := by
  unfold list
  simp only [List.mem_map, List.mem_filter]
  constructor
  · rintro ⟨b, ⟨hb, hp⟩, hn⟩
    have hg : getBox s.db recName = some b := find_of_count_one _ _ h b hb hn
    simp only [recMsgs, hg]
    intro e
    simp [hn, e] at hp
  · intro hne
    cases hg : getBox s.db recName with
    | none => simp [recMsgs, hg] at hne
    | some b =>
      simp only [recMsgs, hg] at hne
      have hn := getBox_name hg
      refine ⟨b, ⟨List.mem_of_find?_eq_some hg, ?_⟩, hn⟩
      simp [hn]
      exact hne

theorem recovery_exists_of_count (s : St) (h : recCountBoxes s = 1) : ∃ b, getBox s.db recName = some b := by
  have : recName ∈ names s := List.count_pos_iff.mp (by unfold recCountBoxes at h; omega)
  obtain ⟨b, hb, hn⟩ := List.mem_map.mp this
  exact ⟨b, find_of_count_one _ _ h b hb hn⟩

/-! ### protection -/

theorem isInbox_of_isRecName {n : String} (h : isRecName n = true) : isInbox n = false := by
  unfold isRecName at h
  unfold isInbox
  have : lower n = recNameLower.toList := by simpa using h
  rw [this]; decide

theorem hasRecPrefix_of_isRecName {n : String} (h : isRecName n = true) : hasRecPrefix n = true := by
  unfold isRecName at h
  unfold hasRecPrefix
  have : lower n = recNameLower.toList := by simpa using h
  rw [this]; decide

theorem protected_append (H : Nat → Nat) (s : St) (n : String) (l : Lit) (h : isRecName n = true) :
    append H s n l = (.refused .notAllowed, s) := by
  simp [append, h]

theorem protected_create (s : St) (n : String) (h : isRecName n = true) : create s n = (some .notAllowed, s) := by
  simp [create, isInbox_of_isRecName h, hasRecPrefix_of_isRecName h]

theorem protected_delete (s : St) (n : String) (h : isRecName n = true) : delete s n = (some .notAllowed, s) := by
  simp [delete, isInbox_of_isRecName h, h]

theorem protected_rename (s : St) (o n : String) (h : isRecName o = true ∨ isRecName n = true) :
    rename s o n = (some .notAllowed, s) := by
  rcases h with h | h <;> simp [rename, h]

theorem protected_copy_into (s : St) (src : String) (uids : List Nat) (dst : String) (h : isRecName dst = true) :
    (copy s src uids dst).2 = s ∧ (move s src uids dst).2 = s ∧
    (∀ a b, (copy s src uids dst).1 ≠ .ok a b) ∧ (∀ a b, (move s src uids dst).1 ≠ .ok a b) := by
  unfold copy move
  cases getBox s.db src <;> simp [h]

/-! ### out of the recovery mailbox -/

theorem withTx_error {α} {s s' : St} {f : St → R α} {e : Err} (h : withTx s f = (.error e, s')) : s'.db = s.db := by
  unfold withTx txFinish at h
  split at h
  · simp at h
  · simp at h; rw [← h.2]

theorem addRecovered_ok {s s' : St} {n : String} {ids uids : List Nat} (h : addRecovered s n ids = (.ok uids, s')) :
    ∃ b', getBox s'.db n = some b' ∧ ∀ u ∈ uids, ∃ id, (u, id) ∈ b'.msgs := by
  unfold addRecovered at h
  split at h
  · simp at h
  · next b hb =>
    simp only at h
    split at h
    · simp at h
    · next s1 h1 =>
      obtain ⟨b0, b', _, h4, h5, h6, _⟩ := dbAddMessages_ok h
      refine ⟨b', h4, fun u hu => ?_⟩
      obtain ⟨i, hi, hiu⟩ := List.getElem_of_mem hu
      have hi' : i < (ids.filter (fun i => !boxHas b i)).length := by rw [← h5]; exact hi
      refine ⟨(ids.filter (fun i => !boxHas b i))[i], ?_⟩
      rw [h6]
      refine List.mem_append_right _ ?_
      rw [List.mem_iff_getElem]
      exact ⟨i, by rw [List.length_zip]; omega, by simp [hiu]⟩

theorem copyOut_ok {s s' : St} {ids : List Nat} {dst : String} {uids : List Nat}
    (h : copyOutOfRecovery s ids dst = (.ok uids, s')) :
    ∃ b', getBox s'.db dst = some b' ∧ ∀ u ∈ uids, ∃ id, (u, id) ∈ b'.msgs := by
  unfold copyOutOfRecovery at h
  split at h
  · simp at h
  · exact addRecovered_ok h

theorem moveOut_ok {s s' : St} {ids : List Nat} {dst : String} {uids : List Nat} (hd : dst ≠ recName)
    (h : moveOutOfRecovery s ids dst = (.ok uids, s')) :
    (∃ b', getBox s'.db dst = some b' ∧ ∀ u ∈ uids, ∃ id, (u, id) ∈ b'.msgs) ∧
    recMsgs s' = (recMsgs s).filter (fun p => !ids.contains p.2) := by
  unfold moveOutOfRecovery at h
  have h1 := importAll_frame (k := s.nextId) ids true s (Nat.le_refl _)
  split at h
  · simp at h
  · next nids s1 he =>
    rw [he] at h1
    simp only at h1
    have hf := hmErase_fields { s1 with db := updBox s1.db recName (fun b => b.remove ids) } ids
    have h3 := addRecovered_frame s.nextId
      { hmErase { s1 with db := updBox s1.db recName (fun b => b.remove ids) } ids with txErase := true } dst nids hd
    rw [h] at h3
    simp only at h3
    refine ⟨addRecovered_ok h, ?_⟩
    rw [h3.recm]
    have : recMsgs { hmErase { s1 with db := updBox s1.db recName (fun b => b.remove ids) } ids with txErase := true } =
        recMsgs { s1 with db := updBox s1.db recName (fun b => b.remove ids) } := recMsgs_db hf.1
    rw [this, recMsgs_remove s1 ids _ rfl, h1.recm]

/-- the destination UIDs of the COPYUID item are destination UIDs that were assigned (all, or none) -/
theorem copyUidItem_snd (sel : List (Nat × Nat)) (d : List Nat) : ∀ u ∈ (copyUidItem sel d).2, u ∈ d := by
  intro u hu
  unfold copyUidItem at hu
  split at hu
  · exact hu
  · simp at hu

/-- the item carries every selected UID with as many destination UIDs, or nothing at all -/
theorem copyUidItem_cases (sel : List (Nat × Nat)) (d : List Nat) :
    ((copyUidItem sel d).1 = sel.map (·.1) ∧ (copyUidItem sel d).2 = d ∧ d.length = sel.length) ∨
    ((copyUidItem sel d).1 = [] ∧ (copyUidItem sel d).2 = [] ∧ d.length ≠ sel.length) := by
  unfold copyUidItem
  split
  · next h => exact Or.inl ⟨rfl, rfl, by simpa using h⟩
  · next h => exact Or.inr ⟨rfl, rfl, by simpa using h⟩

theorem copy_out_spec {s s' : St} {uids : List Nat} {dst : String} {r : CopyRes}
    (h : copy s recName uids dst = (r, s')) :
    recMsgs s' = recMsgs s ∧
    ∀ su du, r = .ok su du → ∃ b', getBox s'.db dst = some b' ∧ ∀ u ∈ du, ∃ id, (u, id) ∈ b'.msgs := by
  unfold copy at h
  split at h
  · simp at h; obtain ⟨h1, h2⟩ := h; subst h1 h2; exact ⟨rfl, fun _ _ e => by cases e⟩
  · next bs _ =>
    split at h
    · simp at h; obtain ⟨h1, h2⟩ := h; subst h1 h2; exact ⟨rfl, fun _ _ e => by cases e⟩
    · next hrn =>
      have hd : dst ≠ recName := ne_recName_of_not_isRecName (by simpa using hrn)
      split at h
      · simp at h; obtain ⟨h1, h2⟩ := h; subst h1 h2; exact ⟨rfl, fun _ _ e => by cases e⟩
      · simp only [beq_self_eq_true, ↓reduceIte] at h
        have hf : Frame s.nextId s (withTx s (fun s0 => copyOutOfRecovery s0 ((selectUids bs uids).map (·.2)) dst)).2 :=
          withTx_frame s _ (copyOutOfRecovery_frame { s with txIns := false, txErase := false } _ dst hd)
        split at h
        · next e s1 he =>
          rw [he] at hf
          simp at h; obtain ⟨h1, h2⟩ := h; subst h1 h2
          exact ⟨hf.recm, fun _ _ e => by cases e⟩
        · next d s1 he =>
          rw [he] at hf
          simp at h; obtain ⟨h1, h2⟩ := h; subst h1 h2
          refine ⟨hf.recm, fun su du e => ?_⟩
          simp at e
          obtain ⟨_, e2⟩ := e
          subst e2
          obtain ⟨b', hb', hall⟩ := copyOut_ok (withTx_ok he)
          exact ⟨b', hb', fun u hu => hall u (copyUidItem_snd _ _ u hu)⟩

theorem move_out_spec {s s' : St} {uids : List Nat} {dst : String} {r : CopyRes}
    (h : move s recName uids dst = (r, s')) :
    ((∀ su du, r ≠ .ok su du) → recMsgs s' = recMsgs s) ∧
    ∀ su du, r = .ok su du →
      (∃ b', getBox s'.db dst = some b' ∧ ∀ u ∈ du, ∃ id, (u, id) ∈ b'.msgs) ∧
      ∃ bs, getBox s.db recName = some bs ∧ (su = (selectUids bs uids).map (·.1) ∨ (su = [] ∧ du = [])) ∧
        recMsgs s' = (recMsgs s).filter (fun p => !((selectUids bs uids).map (·.2)).contains p.2) := by
  unfold move at h
  split at h
  · simp at h; obtain ⟨h1, h2⟩ := h; subst h1 h2; exact ⟨fun _ => rfl, fun _ _ e => by cases e⟩
  · next bs hbs =>
    split at h
    · simp at h; obtain ⟨h1, h2⟩ := h; subst h1 h2; exact ⟨fun _ => rfl, fun _ _ e => by cases e⟩
    · next hrn =>
      have hd : dst ≠ recName := ne_recName_of_not_isRecName (by simpa using hrn)
      split at h
      · simp at h; obtain ⟨h1, h2⟩ := h; subst h1 h2; exact ⟨fun _ => rfl, fun _ _ e => by cases e⟩
      · simp only [beq_self_eq_true, ↓reduceIte] at h
        split at h
        · next e s1 he =>
          simp at h; obtain ⟨h1, h2⟩ := h; subst h1 h2
          exact ⟨fun _ => recMsgs_db (withTx_error he), fun _ _ e => by cases e⟩
        · next d s1 he =>
          simp at h; obtain ⟨h1, h2⟩ := h; subst h1 h2
          refine ⟨fun hne => absurd rfl (hne _ _), fun su du e => ?_⟩
          simp at e
          obtain ⟨e1, e2⟩ := e
          subst e1 e2
          obtain ⟨⟨b', hb', hall⟩, hb⟩ := moveOut_ok hd (withTx_ok he)
          refine ⟨⟨b', hb', fun u hu => hall u (copyUidItem_snd _ _ u hu)⟩, bs, hbs, ?_, hb⟩
          rcases copyUidItem_cases (selectUids bs uids) d with ⟨h1, _, _⟩ | ⟨h1, h2, _⟩
          · exact Or.inl h1
          · exact Or.inr ⟨h1, h2⟩

/-! ### "answered OK" means "is in the destination", de-duplicated or not -/

theorem importAll_length {mark : Bool} : ∀ (ids : List Nat) (s s' : St) (nids : List Nat),
    importAll s ids mark = (.ok nids, s') → nids.length = ids.length := by
  intro ids
  induction ids with
  | nil => intro s s' nids h; simp [importAll] at h; simp [h.1]
  | cons id r ih =>
    intro s s' nids h
    unfold importAll at h
    split at h
    · simp at h
    · next nid dd s1 _ =>
      simp only at h
      split at h
      · simp at h
      · next n2 s2 h2 =>
        simp at h
        rw [← h.1]
        simp [ih _ _ _ h2]

/-- whatever `actionAddRecoveredMessagesToMailbox` is handed is in the mailbox afterwards: the
    messages that were already there (the only ones it does not label) and the ones it adds -/
theorem addRecovered_arrives {s s' : St} {n : String} {ids uids : List Nat} (h : addRecovered s n ids = (.ok uids, s')) :
    ∃ b', getBox s'.db n = some b' ∧ ∀ i ∈ ids, boxHas b' i = true := by
  unfold addRecovered at h
  split at h
  · simp at h
  · next b hb =>
    simp only at h
    split at h
    · simp at h
    · next s1 h1 =>
      have hdb : s1.db = s.db := by unfold remoteAdd at h1; simp at h1; rw [← h1.2]
      obtain ⟨b0, b', h3, h4, h5, h6, _⟩ := dbAddMessages_ok h
      rw [hdb, hb] at h3
      cases h3
      refine ⟨b', h4, fun i hi => ?_⟩
      by_cases hin : boxHas b i = true
      · unfold boxHas at hin ⊢
        rw [h6, List.any_append, hin]; rfl
      · have hmem : i ∈ ids.filter (fun i => !boxHas b i) := by
          rw [List.mem_filter]; exact ⟨hi, by simpa using hin⟩
        obtain ⟨j, hj, hji⟩ := List.getElem_of_mem hmem
        have hj' : j < uids.length := by rw [h5]; exact hj
        have hz : (uids.zip (ids.filter (fun i => !boxHas b i))).any (fun p => p.2 == i) = true := by
          rw [List.any_eq_true]
          refine ⟨(uids[j], i), ?_, by simp⟩
          rw [List.mem_iff_getElem]
          exact ⟨j, by rw [List.length_zip]; omega, by simp [hji]⟩
        unfold boxHas
        rw [h6, List.any_append, hz]; simp

theorem copyOut_arrives {s s' : St} {ids : List Nat} {dst : String} {uids : List Nat}
    (h : copyOutOfRecovery s ids dst = (.ok uids, s')) :
    ∃ nids s1, importAll s ids false = (.ok nids, s1) ∧ nids.length = ids.length ∧
      ∃ b', getBox s'.db dst = some b' ∧ ∀ i ∈ nids, boxHas b' i = true := by
  unfold copyOutOfRecovery at h
  split at h
  · simp at h
  · next nids s1 he => exact ⟨nids, s1, he, importAll_length _ _ _ _ he, addRecovered_arrives h⟩

theorem moveOut_arrives {s s' : St} {ids : List Nat} {dst : String} {uids : List Nat}
    (h : moveOutOfRecovery s ids dst = (.ok uids, s')) :
    ∃ nids s1, importAll s ids true = (.ok nids, s1) ∧ nids.length = ids.length ∧
      ∃ b', getBox s'.db dst = some b' ∧ ∀ i ∈ nids, boxHas b' i = true := by
  unfold moveOutOfRecovery at h
  split at h
  · simp at h
  · next nids s1 he => exact ⟨nids, s1, he, importAll_length _ _ _ _ he, addRecovered_arrives h⟩

/-- COPY out of the recovery mailbox answered OK: every selected message was imported and the
    message it was imported as — new, or the one the remote recognised — is in the destination -/
theorem copy_out_arrives {s s' : St} {uids : List Nat} {dst : String} {su du : List Nat}
    (h : copy s recName uids dst = (.ok su du, s')) :
    ∃ bs nids s1, getBox s.db recName = some bs ∧
      importAll { s with txIns := false, txErase := false } ((selectUids bs uids).map (·.2)) false = (.ok nids, s1) ∧
      nids.length = (selectUids bs uids).length ∧
      ∃ b', getBox s'.db dst = some b' ∧ ∀ i ∈ nids, boxHas b' i = true := by
  unfold copy at h
  split at h
  · simp at h
  · next bs hbs =>
    split at h
    · simp at h
    · split at h
      · simp at h
      · simp only [beq_self_eq_true, ↓reduceIte] at h
        split at h
        · simp at h
        · next d s1 he =>
          simp at h
          obtain ⟨_, h2⟩ := h
          subst h2
          obtain ⟨nids, s2, h3, h4, h5⟩ := copyOut_arrives (withTx_ok he)
          exact ⟨bs, nids, s2, hbs, h3, by simpa using h4, h5⟩

/-- MOVE likewise -/
theorem move_out_arrives {s s' : St} {uids : List Nat} {dst : String} {su du : List Nat}
    (h : move s recName uids dst = (.ok su du, s')) :
    ∃ bs nids s1, getBox s.db recName = some bs ∧
      importAll { s with txIns := false, txErase := false } ((selectUids bs uids).map (·.2)) true = (.ok nids, s1) ∧
      nids.length = (selectUids bs uids).length ∧
      ∃ b', getBox s'.db dst = some b' ∧ ∀ i ∈ nids, boxHas b' i = true := by
  unfold move at h
  split at h
  · simp at h
  · next bs hbs =>
    split at h
    · simp at h
    · split at h
      · simp at h
      · simp only [beq_self_eq_true, ↓reduceIte] at h
        split at h
        · simp at h
        · next d s1 he =>
          simp at h
          obtain ⟨_, h2⟩ := h
          subst h2
          obtain ⟨nids, s2, h3, h4, h5⟩ := moveOut_arrives (withTx_ok he)
          exact ⟨bs, nids, s2, hbs, h3, by simpa using h4, h5⟩

end Gluon.Append
