/-
C03 helper lemmas, part 7: STORE — `imap.FlagSet` with spellings, the three flag loops of
internal/state/updates.go, and what they do to the flag rows of every message.
-/
import GluonModel.Lemmas.ActRef

namespace Gluon.C03
open Gluon.DB Gluon.Act

/-! ### `imap.FlagSet` -/

theorem FSet.has_iff (fs : FSet) (k : String) : fs.has k = true ↔ k ∈ fs.map lower := by
  unfold FSet.has
  simp only [List.any_eq_true, beq_iff_eq, List.mem_map]

theorem FSet.has_false_iff (fs : FSet) (k : String) : fs.has k = false ↔ k ∉ fs.map lower := by
  rw [← FSet.has_iff]; simp

theorem FSet.add1_keys (fs : FSet) (f x : String) : x ∈ (FSet.add1 fs f).map lower ↔ x ∈ fs.map lower ∨ x = lower f := by
  unfold FSet.add1
  split
  · next h =>
    rw [FSet.has_iff] at h
    constructor
    · exact Or.inl
    · rintro (h1 | rfl); exact h1; exact h
  · simp [eq_comm]

theorem FSet.add_keys (l : List String) : ∀ (fs : FSet) (x : String), x ∈ (FSet.add fs l).map lower ↔ x ∈ fs.map lower ∨ x ∈ l.map lower := by
  induction l with
  | nil => intro fs x; simp [FSet.add]
  | cons f r ih =>
    intro fs x
    have : FSet.add fs (f :: r) = FSet.add (FSet.add1 fs f) r := rfl
    rw [this, ih, FSet.add1_keys]
    simp only [List.map_cons, List.mem_cons]
    constructor
    · rintro ((h | h) | h); exact Or.inl h; exact Or.inr (Or.inl h); exact Or.inr (Or.inr h)
    · rintro (h | h | h); exact Or.inl (Or.inl h); exact Or.inl (Or.inr h); exact Or.inr h

theorem FSet.new_keys (l : List String) (x : String) : x ∈ (FSet.new l).map lower ↔ x ∈ l.map lower := by
  unfold FSet.new
  rw [FSet.add_keys]; simp

theorem FSet.add_sub (l : List String) : ∀ (fs : FSet) (f : String), f ∈ FSet.add fs l → f ∈ fs ∨ f ∈ l := by
  induction l with
  | nil => intro fs f h; exact Or.inl h
  | cons a r ih =>
    intro fs f h
    have : FSet.add fs (a :: r) = FSet.add (FSet.add1 fs a) r := rfl
    rw [this] at h
    rcases ih _ _ h with h1 | h1
    · unfold FSet.add1 at h1
      split at h1
      · exact Or.inl h1
      · rcases List.mem_append.mp h1 with h2 | h2
        · exact Or.inl h2
        · simp at h2; subst h2; exact Or.inr List.mem_cons_self
    · exact Or.inr (List.mem_cons_of_mem _ h1)

theorem FSet.new_sub (l : List String) (f : String) (h : f ∈ FSet.new l) : f ∈ l := by
  rcases FSet.add_sub l [] f h with h1 | h1
  · simp at h1
  · exact h1

theorem FSet.mem_remove (fs : FSet) (flag f : String) : f ∈ fs.remove flag ↔ f ∈ fs ∧ lower f ≠ lower flag := by
  simp [FSet.remove]

theorem FSet.has_new (l : List String) (k : String) : (FSet.new l).has k = l.any fun f => lower f == k := by
  rw [Bool.eq_iff_iff, FSet.has_iff, FSet.new_keys]
  simp only [List.mem_map, List.any_eq_true, beq_iff_eq]

theorem lower_flagDeleted : lower flagDeleted = keyDeleted := by decide

/-- the keys of `flags.Remove(\Deleted)` -/
theorem remaining_keys (fs : FSet) (x : String) : x ∈ (fs.remove flagDeleted).map lower ↔ x ∈ fs.map lower ∧ x ≠ keyDeleted := by
  simp only [List.mem_map, FSet.mem_remove, lower_flagDeleted]
  constructor
  · rintro ⟨f, ⟨hf, hne⟩, rfl⟩; exact ⟨⟨f, hf, rfl⟩, hne⟩
  · rintro ⟨⟨f, hf, rfl⟩, hne⟩; exact ⟨f, ⟨hf, hne⟩, rfl⟩

/-- the reference's message-flag part of a flag list has the same keys as the model's `remaining`, when the list does
    not name `\Recent` -/
theorem refFlags_keys (flags : List String) (hrec : (FSet.new flags).has keyRecent = false) (x : String) :
    x ∈ (flags.filter fun f => !MailboxRef.special f).map MailboxRef.lower ↔ x ∈ ((FSet.new flags).remove flagDeleted).map lower := by
  rw [remaining_keys, FSet.new_keys]
  rw [FSet.has_false_iff, FSet.new_keys] at hrec
  simp only [List.mem_map, List.mem_filter, MailboxRef.special, Bool.not_eq_true', Bool.or_eq_false_iff, beq_eq_false_iff_ne]
  constructor
  · rintro ⟨f, ⟨hf, h1, _⟩, rfl⟩; exact ⟨⟨f, hf, rfl⟩, h1⟩
  · rintro ⟨⟨f, hf, rfl⟩, h1⟩
    refine ⟨f, ⟨hf, h1, ?_⟩, rfl⟩
    intro h2
    exact hrec (List.mem_map.mpr ⟨f, hf, h2⟩)

/-! ### `withKey` and `GetMessagesFlags` -/

theorem mem_withKey (db : DB) (ids : List MessageId) (cur : List (MessageId × RemoteId × List FlagVal))
    (hcur : getMessagesFlags factSites db ids = .ok cur) (k : String) (present : Bool) (m : MessageId) :
    m ∈ withKey cur k present ↔ (∃ r ∈ db.messages, r.id = m) ∧ m ∈ ids ∧ FSet.has (flagsOf db.msgFlags m) k = present := by
  have hc := getMessagesFlags_char db ids cur hcur
  unfold withKey
  simp only [List.mem_map, List.mem_filter, beq_iff_eq]
  constructor
  · rintro ⟨row, ⟨hrow, hk⟩, rfl⟩
    obtain ⟨r, hr, hi, rfl⟩ := (hc row).mp hrow
    exact ⟨⟨r, hr, rfl⟩, hi, hk⟩
  · rintro ⟨⟨r, hr, rfl⟩, hi, hk⟩
    exact ⟨(r.id, r.remoteId, flagsOf db.msgFlags r.id), ⟨(hc _).mpr ⟨r, hr, hi, rfl⟩, hk⟩, rfl⟩

/-! ### the loops -/

variable (E : Env) (hE : E.sites = factSites)

include hE in
theorem addFlagsLoop_eff (cur : List (MessageId × RemoteId × List FlagVal)) (fl : List String) :
    ∀ (s s' : State), addFlagsLoop E cur fl s = .ok ((), s') →
      SameRest s s' ∧ SameButFlags s.db s'.db ∧
      ∀ p, p ∈ s'.db.msgFlags ↔ p ∈ s.db.msgFlags ∨ (p.2 ∈ fl ∧ p.1 ∈ withKey cur (lower p.2) false) := by
  induction fl with
  | nil =>
    intro s s' h
    simp only [addFlagsLoop] at h
    rw [pureA_ok] at h; cases h
    exact ⟨SameRest.refl _, SameButFlags.refl _, by simp⟩
  | cons f r ih =>
    intro s s' h
    simp only [addFlagsLoop] at h
    rw [bindA_ok] at h
    obtain ⟨_, s1, h1, h2⟩ := h
    rw [liftTx_ok] at h1
    obtain ⟨db1, h1, rfl⟩ := h1
    rw [hE] at h1
    obtain ⟨e1, e2⟩ := addFlag_effect _ f s.db db1 h1
    obtain ⟨i1, i2, i3⟩ := ih _ s' h2
    refine ⟨SameRest.trans (show SameRest s { s with db := db1 } from ⟨rfl, rfl, rfl, e1.2.2.2⟩) i1, SameButFlags.trans e1 i2, ?_⟩
    intro p
    rw [i3 p, e2 p]
    simp only [List.mem_cons]
    constructor
    · rintro ((h3 | ⟨h3, h4⟩) | ⟨h3, h4⟩)
      · exact Or.inl h3
      · exact Or.inr ⟨Or.inl h4, by rw [h4]; exact h3⟩
      · exact Or.inr ⟨Or.inr h3, h4⟩
    · rintro (h3 | ⟨h3 | h3, h4⟩)
      · exact Or.inl (Or.inl h3)
      · exact Or.inl (Or.inr ⟨by rw [h3] at h4; exact h4, h3⟩)
      · exact Or.inr ⟨h3, h4⟩

include hE in
theorem remFlagsLoop_eff (cur : List (MessageId × RemoteId × List FlagVal)) (fl : List String) :
    ∀ (s s' : State), remFlagsLoop E cur fl s = .ok ((), s') →
      SameRest s s' ∧ SameButFlags s.db s'.db ∧
      ∀ p, p ∈ s'.db.msgFlags ↔ p ∈ s.db.msgFlags ∧ ¬(∃ f ∈ fl, lower p.2 = lower f ∧ p.1 ∈ withKey cur (lower f) true) := by
  induction fl with
  | nil =>
    intro s s' h
    simp only [remFlagsLoop] at h
    rw [pureA_ok] at h; cases h
    exact ⟨SameRest.refl _, SameButFlags.refl _, by simp⟩
  | cons f r ih =>
    intro s s' h
    simp only [remFlagsLoop] at h
    rw [bindA_ok] at h
    obtain ⟨_, s1, h1, h2⟩ := h
    rw [liftTx_ok] at h1
    obtain ⟨db1, h1, rfl⟩ := h1
    rw [hE] at h1
    obtain ⟨e1, e2⟩ := removeFlag_effect _ f s.db db1 h1
    obtain ⟨i1, i2, i3⟩ := ih _ s' h2
    refine ⟨SameRest.trans (show SameRest s { s with db := db1 } from ⟨rfl, rfl, rfl, e1.2.2.2⟩) i1, SameButFlags.trans e1 i2, ?_⟩
    intro p
    rw [i3 p, e2 p]
    simp only [List.mem_cons, exists_eq_or_imp]
    constructor
    · rintro ⟨⟨h3, h4⟩, h5⟩
      refine ⟨h3, ?_⟩
      rintro (⟨h6, h7⟩ | h6)
      · exact h4 ⟨h7, h6⟩
      · exact h5 h6
    · rintro ⟨h3, h4⟩
      exact ⟨⟨h3, fun ⟨h5, h6⟩ => h4 (Or.inl ⟨h6, h5⟩)⟩, fun h5 => h4 (Or.inr h5)⟩

include hE in
theorem clearLoop_eff (ids : List MessageId) (fl : List String) :
    ∀ (s s' : State), clearLoop E ids fl s = .ok ((), s') →
      SameRest s s' ∧ SameButFlags s.db s'.db ∧
      ∀ p, p ∈ s'.db.msgFlags ↔ p ∈ s.db.msgFlags ∧ ¬(p.1 ∈ ids ∧ lower p.2 ∈ fl.map lower) := by
  induction fl with
  | nil =>
    intro s s' h
    simp only [clearLoop] at h
    rw [pureA_ok] at h; cases h
    exact ⟨SameRest.refl _, SameButFlags.refl _, by simp⟩
  | cons f r ih =>
    intro s s' h
    simp only [clearLoop] at h
    rw [bindA_ok] at h
    obtain ⟨_, s1, h1, h2⟩ := h
    rw [liftTx_ok] at h1
    obtain ⟨db1, h1, rfl⟩ := h1
    rw [hE] at h1
    obtain ⟨e1, e2⟩ := removeFlag_effect _ f s.db db1 h1
    obtain ⟨i1, i2, i3⟩ := ih _ s' h2
    refine ⟨SameRest.trans (show SameRest s { s with db := db1 } from ⟨rfl, rfl, rfl, e1.2.2.2⟩) i1, SameButFlags.trans e1 i2, ?_⟩
    intro p
    rw [i3 p, e2 p]
    simp only [List.map_cons, List.mem_cons]
    constructor
    · rintro ⟨⟨h3, h4⟩, h5⟩
      refine ⟨h3, ?_⟩
      rintro ⟨h6, h7 | h7⟩
      · exact h4 ⟨h6, h7⟩
      · exact h5 ⟨h6, h7⟩
    · rintro ⟨h3, h4⟩
      exact ⟨⟨h3, fun ⟨h5, h6⟩ => h4 ⟨h5, Or.inl h6⟩⟩, fun ⟨h5, h6⟩ => h4 ⟨h5, Or.inr h6⟩⟩

end Gluon.C03
