/-
Lemmas for C08/C03 `chunk_faithful`: `xslices.Chunk`, the chunk loop as a fold, and the
evaluation of a call site whose regenerated facts have the expected shape.
-/
import GluonModel.Model.DB
import GluonModel.Spec.DBSpec

namespace Gluon.DB

/-! ### `chunk` -/

theorem chunkF_flatten {α : Type} (n : Nat) (hn : 0 < n) :
    ∀ (fuel : Nat) (xs : List α), xs.length ≤ fuel → (chunkF fuel n xs).flatten = xs := by
  intro fuel
  induction fuel with
  | zero => intro xs h; have : xs = [] := List.length_eq_zero_iff.mp (by omega); subst this; simp [chunkF]
  | succ f ih =>
    intro xs h
    unfold chunkF
    by_cases he : xs.isEmpty
    · simp [he]; exact (List.isEmpty_iff.mp he)
    · simp only [he]
      have hne : xs ≠ [] := by intro h'; simp [h'] at he
      have hl : 0 < xs.length := List.length_pos_iff.mpr hne
      have : (xs.drop n).length ≤ f := by simp [List.length_drop]; omega
      simp [ih _ this]

/-- **`flatten (chunk n xs) = xs`** for every positive chunk size. -/
theorem chunk_flatten {α : Type} (n : Nat) (hn : 0 < n) (xs : List α) : (chunk n xs).flatten = xs :=
  chunkF_flatten n hn xs.length xs (Nat.le_refl _)

theorem chunkF_ne_nil {α : Type} (n : Nat) (hn : 0 < n) :
    ∀ (fuel : Nat) (xs : List α), ∀ c ∈ chunkF fuel n xs, c ≠ [] := by
  intro fuel
  induction fuel with
  | zero => intro xs c h; simp [chunkF] at h
  | succ f ih =>
    intro xs c h
    unfold chunkF at h
    by_cases he : xs.isEmpty
    · simp [he] at h
    · simp only [he] at h
      have hne : xs ≠ [] := by intro h'; simp [h'] at he
      rcases List.mem_cons.mp h with h | h
      · subst h
        intro h0
        have h1 := congrArg List.length h0
        have hl : 0 < xs.length := List.length_pos_iff.mpr hne
        rw [List.length_take, List.length_nil] at h1
        omega
      · exact ih _ c h

theorem chunk_ne_nil {α : Type} (n : Nat) (hn : 0 < n) (xs : List α) : ∀ c ∈ chunk n xs, c ≠ [] :=
  chunkF_ne_nil n hn xs.length xs

theorem chunk_nil {α : Type} (n : Nat) : chunk n ([] : List α) = [] := by simp [chunk, chunkF]

theorem chunk_eq_nil_iff {α : Type} (n : Nat) (hn : 0 < n) (xs : List α) : chunk n xs = [] ↔ xs = [] := by
  constructor
  · intro h
    have := chunk_flatten n hn xs
    rw [h] at this
    simpa using this.symm
  · intro h; subst h; exact chunk_nil n

theorem forChunks_pos {α σ : Type} (n : Nat) (hn : 0 < n) (xs : List α) (body : List α → σ → Except DbErr σ) (s : σ) :
    forChunks n xs body s = (chunk n xs).foldlM (fun s c => body c s) s := by
  unfold forChunks
  have : (n == 0) = false := by simp; omega
  simp [this]

/-! ### folding an additive step over chunks -/

/-- same outcome up to *which* error -/
def Agree {σ : Type} (a b : Except DbErr σ) : Prop := a.toOption = b.toOption

theorem Agree.refl {σ : Type} (a : Except DbErr σ) : Agree a a := rfl
theorem Agree.symm {σ : Type} {a b : Except DbErr σ} (h : Agree a b) : Agree b a := Eq.symm h
theorem Agree.trans {σ : Type} {a b c : Except DbErr σ} (h : Agree a b) (h' : Agree b c) : Agree a c := Eq.trans h h'

theorem Agree.of_eq {σ : Type} {a b : Except DbErr σ} (h : a = b) : Agree a b := by subst h; rfl

theorem Agree.bind_left {σ τ : Type} {a b : Except DbErr σ} (f : σ → Except DbErr τ) (h : Agree a b) :
    Agree (a >>= f) (b >>= f) := by
  unfold Agree at *
  cases a <;> cases b <;> simp_all [Except.toOption, bind, Except.bind]

theorem Agree.bind_right {σ τ : Type} (a : Except DbErr σ) {f g : σ → Except DbErr τ} (h : ∀ s, Agree (f s) (g s)) :
    Agree (a >>= f) (a >>= g) := by
  unfold Agree at *
  cases a with
  | error e => simp [Except.toOption, bind, Except.bind]
  | ok s => simpa [bind, Except.bind] using h s

theorem Agree.ok_iff {σ : Type} {a b : Except DbErr σ} (h : Agree a b) (s : σ) : a = .ok s ↔ b = .ok s := by
  unfold Agree at h
  cases a <;> cases b <;> simp_all [Except.toOption]

/-- A step that is additive on non-empty lists (up to which error) can be run chunk by chunk. -/
theorem foldlM_chunks_agree {α σ : Type} (step : List α → σ → Except DbErr σ)
    (happ : ∀ a b s, a ≠ [] → b ≠ [] → Agree (step (a ++ b) s) (step a s >>= step b)) :
    ∀ (cs : List (List α)), cs ≠ [] → (∀ c ∈ cs, c ≠ []) → ∀ s,
      Agree (cs.foldlM (fun s c => step c s) s) (step cs.flatten s) := by
  intro cs
  induction cs with
  | nil => intro h; exact absurd rfl h
  | cons c rest ih =>
    intro _ hne s
    cases rest with
    | nil =>
      simp only [List.foldlM_cons, List.foldlM_nil, List.flatten_cons, List.flatten_nil, List.append_nil]
      have : (step c s >>= fun s' => (pure s' : Except DbErr σ)) = step c s := by
        cases step c s <;> rfl
      rw [this]; exact Agree.refl _
    | cons c' rest' =>
      have hc : c ≠ [] := hne c (by simp)
      have hc' : c' ≠ [] := hne c' (by simp)
      have hfl : (c' :: rest').flatten ≠ [] := by
        simp only [List.flatten_cons]; intro h; exact hc' (List.append_eq_nil_iff.mp h).1
      have ih' := ih (by simp) (fun x hx => hne x (by simp [hx]))
      rw [List.foldlM_cons, List.flatten_cons]
      exact Agree.trans (Agree.bind_right _ ih') (Agree.symm (happ c _ s hc hfl))

/-- The chunk loop of a step that is additive on non-empty lists computes the step on the whole
    list (nothing at all for the empty list). -/
theorem forChunks_agree {α σ : Type} (n : Nat) (hn : 0 < n) (xs : List α) (step : List α → σ → Except DbErr σ)
    (happ : ∀ a b s, a ≠ [] → b ≠ [] → Agree (step (a ++ b) s) (step a s >>= step b)) (s : σ) :
    Agree (forChunks n xs step s) (if xs.isEmpty then .ok s else step xs s) := by
  rw [forChunks_pos n hn]
  by_cases he : xs = []
  · subst he; simp [chunk_nil]; exact Agree.refl _
  · have h1 : chunk n xs ≠ [] := fun h => he ((chunk_eq_nil_iff n hn xs).mp h)
    have := foldlM_chunks_agree step happ (chunk n xs) h1 (chunk_ne_nil n hn xs) s
    rw [chunk_flatten n hn] at this
    have he' : xs.isEmpty = false := by simpa using he
    simpa [he'] using this

/-- exact version: a step that is additive on non-empty lists can be run chunk by chunk -/
theorem foldlM_chunks_eq {α σ : Type} (step : List α → σ → Except DbErr σ)
    (happ : ∀ a b s, a ≠ [] → b ≠ [] → step (a ++ b) s = step a s >>= step b) :
    ∀ (cs : List (List α)), cs ≠ [] → (∀ c ∈ cs, c ≠ []) → ∀ s,
      cs.foldlM (fun s c => step c s) s = step cs.flatten s := by
  intro cs
  induction cs with
  | nil => intro h; exact absurd rfl h
  | cons c rest ih =>
    intro _ hne s
    cases rest with
    | nil =>
      simp only [List.foldlM_cons, List.foldlM_nil, List.flatten_cons, List.flatten_nil, List.append_nil]
      cases step c s <;> rfl
    | cons c' rest' =>
      have hc : c ≠ [] := hne c (by simp)
      have hc' : c' ≠ [] := hne c' (by simp)
      have hfl : (c' :: rest').flatten ≠ [] := by
        simp only [List.flatten_cons]; intro h; exact hc' (List.append_eq_nil_iff.mp h).1
      have ih' := ih (by simp) (fun x hx => hne x (by simp [hx]))
      rw [List.foldlM_cons, List.flatten_cons, happ c _ s hc hfl]
      congr 1; funext s'; exact ih' s'

theorem forChunks_eq {α σ : Type} (n : Nat) (hn : 0 < n) (xs : List α) (step : List α → σ → Except DbErr σ)
    (happ : ∀ a b s, a ≠ [] → b ≠ [] → step (a ++ b) s = step a s >>= step b) (s : σ) :
    forChunks n xs step s = if xs.isEmpty then .ok s else step xs s := by
  rw [forChunks_pos n hn]
  by_cases he : xs = []
  · subst he; simp [chunk_nil]; rfl
  · have h1 : chunk n xs ≠ [] := fun h => he ((chunk_eq_nil_iff n hn xs).mp h)
    have := foldlM_chunks_eq step happ (chunk n xs) h1 (chunk_ne_nil n hn xs) s
    rw [chunk_flatten n hn] at this
    have he' : xs.isEmpty = false := by simpa using he
    simpa [he'] using this

/-- a `Tx Unit` that is a chunk loop over a state step, against the guarded un-chunked step -/
theorem chunkedTx_eq {α : Type} (n : Nat) (hn : 0 < n) (xs : List α) (body step : List α → DB → Except DbErr DB)
    (hb : ∀ c db, body c db = step c db)
    (happ : ∀ a b s, a ≠ [] → b ≠ [] → step (a ++ b) s = step a s >>= step b) (db : DB) :
    (do let db ← forChunks n xs body db; pure ((), db) : Except DbErr (Unit × DB)) = Spec.guarded xs (step xs) db := by
  have : body = step := by funext c db; exact hb c db
  subst this
  rw [forChunks_eq n hn xs body happ db]
  unfold Spec.guarded
  cases (if xs.isEmpty = true then Except.ok db else body xs db) <;> rfl

theorem chunkedTx_agree {α : Type} (n : Nat) (hn : 0 < n) (xs : List α) (body step : List α → DB → Except DbErr DB)
    (hb : ∀ c db, body c db = step c db)
    (happ : ∀ a b s, a ≠ [] → b ≠ [] → Agree (step (a ++ b) s) (step a s >>= step b)) (db : DB) :
    Agree (do let db ← forChunks n xs body db; pure ((), db) : Except DbErr (Unit × DB)) (Spec.guarded xs (step xs) db) := by
  have : body = step := by funext c db; exact hb c db
  subst this
  have h := forChunks_agree n hn xs body happ db
  unfold Spec.guarded
  have := Agree.bind_left (fun db => (pure ((), db) : Except DbErr (Unit × DB))) h
  refine Agree.trans this ?_
  cases (if xs.isEmpty = true then Except.ok db else body xs db) <;> exact Agree.refl _

end Gluon.DB
