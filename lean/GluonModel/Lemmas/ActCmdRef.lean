/-
C03 helper lemmas, part 9: COPY, EXPUNGE and MOVE refine `refCopy`, `expungeMsgs`, `refMove`
(transaction level: from a successful run of the command's closure).
-/
import GluonModel.Lemmas.ActStoreRef

namespace Gluon.C03
open Gluon.DB Gluon.Act

/-- the command touched neither the flag rows nor the message rows nor the connector's counter -/
def Untouched (s s' : State) : Prop :=
  s'.db.msgFlags = s.db.msgFlags ∧ s'.db.messages = s.db.messages ∧ s'.nextRid = s.nextRid

/-- append under fresh UIDs, nothing removed -/
def addOnly (msgs : List MailboxRef.MsgRef) (b : MailboxRef.Mailbox) : MailboxRef.Mailbox :=
  { entries := b.entries ++ MailboxRef.freshEntries b.uidNext msgs, uidNext := b.uidNext + msgs.length }

theorem add_eq_addOnly (b : MailboxRef.Mailbox) (msgs : List MailboxRef.MsgRef) : b.add msgs = addOnly msgs (b.remove msgs) := rfl

theorem absTable_addOnly (t : MTable) (h : SortedT t) (pairs : List (MessageId × RemoteId)) :
    absTable (addRows pairs t) = addOnly (pairs.map (·.1)) (absTable t) := by
  have h1 := h.add pairs
  unfold absTable addOnly
  rw [sortByUid_of_sorted _ h1.1, sortByUid_of_sorted _ h.1]
  simp only [addRows, List.map_append, newRows_abs, List.length_map, MailboxRef.Mailbox.mk.injEq, true_and]
  omega

theorem TabEff.same {mb : MailboxId} {g : MTable → MTable} {s s' : State} (h : TabEff mb g s s') :
    s'.db.msgFlags = s.db.msgFlags ∧ s'.db.messages = s.db.messages ∧ s'.db.mailboxes = s.db.mailboxes ∧
      ∀ mb', mb' ≠ mb → s'.db.table? mb' = s.db.table? mb' := by
  rcases hs : s.db.table? mb with _ | t
  · have hp := h.2.2 hs
    have := congrArg (fun P : Proj => (P.msgFlags, P.messages, P.mailboxes)) hp
    simp only [proj, Prod.mk.injEq] at this
    refine ⟨this.1, this.2.1, this.2.2, ?_⟩
    intro mb' _
    have := congrArg (fun P : Proj => P.table? mb') hp
    simpa using this
  · have hp := h.2.1 t hs
    have := congrArg (fun P : Proj => (P.msgFlags, P.messages, P.mailboxes)) hp
    simp only [proj, Proj.setTable, Prod.mk.injEq] at this
    refine ⟨this.1, this.2.1, this.2.2, ?_⟩
    intro mb' hne
    have := congrArg (fun P : Proj => P.table? mb') hp
    simp only [proj_table?] at this
    rw [this, Proj.table?_setTable_ne _ _ _ _ hne]; rfl

variable (E : Env) (hE : E.sites = factSites)

include hE in
/-- COPY: `actionAddMessagesToMailbox` = `refCopy` -/
theorem actionAdd_ref (s s' : State) (hInv : Inv s) (d : MboxRow) (hd : d ∈ s.db.mailboxes) (pairs : List (MessageId × RemoteId))
    (res : List Upd × List SnapRow) (h : actionAdd E pairs d.id s = .ok (res, s')) :
    Inv s' ∧ abs s' = MailboxRef.refCopy (abs s) d.name (pairs.map (·.1)) ∧ Untouched s s' := by
  obtain ⟨htab, eff⟩ := actionAdd_eff E hE d.id pairs s s' res h
  have := abs_TabEff s s' hInv d hd _ (fun b => b.add (pairs.map (·.1))) eff
    (fun t ht => ⟨(ht.rm _).add pairs, absTable_add t ht pairs⟩)
    (fun hn => by obtain ⟨t, ht⟩ := htab; rw [ht] at hn; cases hn)
  exact ⟨this.1, this.2, eff.same.1, eff.same.2.1, eff.1.2.2.1⟩

include hE in
/-- EXPUNGE / UID EXPUNGE / CLOSE: `actionRemoveMessagesFromMailbox` = `expungeMsgs` -/
theorem actionRemove_ref (s s' : State) (hInv : Inv s) (sel : MboxRow) (hsel : sel ∈ s.db.mailboxes) (pairs : List (MessageId × RemoteId))
    (ups : List Upd) (h : actionRemove E pairs sel.id s = .ok (ups, s')) :
    Inv s' ∧ abs s' = MailboxRef.expungeMsgs (abs s) sel.name (pairs.map (·.1)) ∧ Untouched s s' := by
  have eff := actionRemove_eff E hE sel.id pairs s s' ups h
  have := abs_TabEff s s' hInv sel hsel _ (fun b => b.remove (pairs.map (·.1))) eff
    (fun t ht => ⟨ht.rm _, absTable_rm t ht _⟩) (fun _ => by simp [MailboxRef.Mailbox.remove])
  exact ⟨this.1, this.2, eff.same.1, eff.same.2.1, eff.1.2.2.1⟩

include hE in
/-- `tx.RemoveMessagesFromMailbox` called directly (MoveMessagesFromMailbox does not test for an empty list) -/
theorem removeTx_eff (mb : MailboxId) (ids : List MessageId) (s s' : State)
    (h : liftTx (DB.removeMessagesFromMailbox E.sites mb ids) s = .ok ((), s')) : TabEff mb (rmRows ids) s s' := by
  rw [liftTx_ok] at h
  obtain ⟨db', h, rfl⟩ := h
  rw [hE] at h
  by_cases hemp : ids = []
  · subst hemp
    rw [C08.chunk_faithful_removeMessagesFromMailbox] at h
    rcases guarded_ok _ _ _ _ h with ⟨_, h1⟩ | ⟨h1, _⟩
    · subst h1
      exact TabEff.noop mb _ s (fun t _ => rmRows_nil t)
    · exact absurd rfl h1
  · obtain ⟨t, ht, hp, ha⟩ := remove_effect mb ids hemp s.db db' h
    refine ⟨⟨rfl, rfl, rfl, ha⟩, ?_, ?_⟩
    · intro t' ht'; rw [ht] at ht'; cases ht'; exact hp
    · intro hn; rw [ht] at hn; cases hn

include hE in
/-- `MoveMessagesFromMailbox` between two different mailboxes -/
theorem moveA_eff (src dst : MailboxId) (hne : src ≠ dst) (pairs : List (MessageId × RemoteId)) (ids : List MessageId)
    (s s' : State) (res : List SnapRow × List Upd)
    (h : moveMessagesFromMailbox E src dst pairs ids true s = .ok (res, s')) :
    ∃ s2, (∃ t, s.db.table? dst = some t) ∧ TabEff src (rmRows ids) s s2 ∧ TabEff dst (addRows pairs) s2 s' := by
  unfold moveMessagesFromMailbox at h
  rw [bindA_ok] at h
  obtain ⟨_, s0, h0, h⟩ := h
  obtain ⟨e0, htab⟩ := checkAdd_ok E dst _ _ _ h0
  rw [e0] at h
  have hc : (src != dst && true) = true := by simpa using hne
  simp only [hc, if_true] at h
  rw [bindA_ok] at h
  obtain ⟨_, s2, h1, h⟩ := h
  rw [bindA_ok] at h
  obtain ⟨rows, s3, h2, h⟩ := h
  rw [pureA_ok] at h
  cases h
  refine ⟨s2, htab, removeTx_eff E hE src ids s s2 h1, ?_⟩
  rw [liftTx_ok] at h2
  obtain ⟨db', h2, rfl⟩ := h2
  rw [hE] at h2
  by_cases hemp : pairs = []
  · subst hemp
    have := add_nil dst s2.db db' rows h2
    subst this
    exact TabEff.noop dst _ _ (fun t _ => by simp [addRows, newRows])
  · obtain ⟨t, ht, hp, ha⟩ := add_effect dst pairs hemp s2.db db' rows h2
    refine ⟨⟨rfl, rfl, rfl, ha⟩, ?_, ?_⟩
    · intro t' ht'; rw [ht] at ht'; cases ht'; exact hp
    · intro hn; rw [ht] at hn; cases hn

theorem abs_hasMailbox (s : State) (row : MboxRow) (h : row ∈ s.db.mailboxes) : (abs s).hasMailbox row.name = true := by
  unfold MailboxRef.State.hasMailbox abs absP
  rw [List.any_eq_true]
  exact ⟨absMailbox (proj s.db) row, List.mem_map.mpr ⟨row, h, rfl⟩, by simp [absMailbox]⟩

theorem lookup_map_abs (P : Proj) (row : MboxRow) : ∀ (l : List MboxRow), (l.map (·.name)).Nodup → row ∈ l →
    (l.map (absMailbox P)).lookup row.name = some (absMailbox P row).2 := by
  intro l
  induction l with
  | nil => intro _ h; cases h
  | cons a r ih =>
    intro hn hr
    rw [List.map_cons, List.nodup_cons] at hn
    rw [List.map_cons]
    rcases List.mem_cons.mp hr with rfl | hr
    · simp [List.lookup_cons, absMailbox]
    · have hne : row.name ≠ a.name := fun e => hn.1 (by rw [← e]; exact List.mem_map_of_mem hr)
      have hb : (row.name == (absMailbox P a).1) = false := by simpa [absMailbox] using hne
      have hl : List.lookup row.name (absMailbox P a :: List.map (absMailbox P) r) = List.lookup row.name (List.map (absMailbox P) r) := by
        cases hp : absMailbox P a with
        | mk k v => rw [hp] at hb; simp only at hb; simp [List.lookup_cons, hb]
      rw [hl]
      exact ih hn.2 hr

/-- the reference's "is the message in the mailbox" read off the index -/
theorem abs_holds (s : State) (hInv : Inv s) (row : MboxRow) (hrow : row ∈ s.db.mailboxes) (m : MessageId) :
    (abs s).holds row.name m = match s.db.table? row.id with
      | some t => t.rows.any (·.msgId == m)
      | none => false := by
  unfold MailboxRef.State.holds MailboxRef.State.mailbox?
  have : (abs s).mailboxes.lookup row.name = some (absMailbox (proj s.db) row).2 :=
    lookup_map_abs (proj s.db) row _ hInv.names hrow
  rw [this]
  simp only [absMailbox, proj_table?]
  cases ht : s.db.table? row.id with
  | none => simp
  | some t =>
    have hst : SortedT t := hInv.sorted row.id t (by simpa using ht)
    simp only [absTable]
    rw [sortByUid_of_sorted _ hst.1]
    rw [List.any_map]
    rfl

/-- the messages `MailboxFilterContains` finds in the source are the ones the reference says the mailbox holds -/
theorem toMove_eq (s : State) (hInv : Inv s) (row : MboxRow) (hrow : row ∈ s.db.mailboxes) (pairs : List (MessageId × RemoteId))
    (inSrc : List MessageId) (h : mailboxFilterContains factSites s.db row.id pairs = .ok inSrc) :
    (pairs.filter fun p => inSrc.contains p.1).map (·.1) = (pairs.map (·.1)).filter ((abs s).holds row.name) := by
  rw [List.filter_map]
  congr 1
  apply List.filter_congr
  intro p hp
  simp only [Function.comp]
  rw [abs_holds s hInv row hrow]
  have hne : pairs ≠ [] := fun e => by rw [e] at hp; cases hp
  obtain ⟨t, ht, hc⟩ := filterContains_char s.db row.id pairs inSrc h hne
  rw [ht]
  simp only
  rw [Bool.eq_iff_iff]
  simp only [List.contains_iff_mem, List.any_eq_true, beq_iff_eq]
  rw [hc]
  constructor
  · rintro ⟨_, r, hr, he⟩; exact ⟨r, hr, he⟩
  · rintro ⟨r, hr, he⟩; exact ⟨List.mem_map.mpr ⟨p, hp, rfl⟩, r, hr, he⟩

theorem add_nil_id (b : MailboxRef.Mailbox) : b.add [] = b := by
  cases b; simp [MailboxRef.Mailbox.add, MailboxRef.Mailbox.remove, MailboxRef.freshEntries]

include hE in
/-- MOVE: `actionMoveMessages` = `refMove` — exactly the named messages still in the source move (onto the source
    itself: remove + re-add under new UIDs) -/
theorem actionMove_ref (s s' : State) (hInv : Inv s) (sel d : MboxRow) (hsel : sel ∈ s.db.mailboxes) (hd : d ∈ s.db.mailboxes)
    (pairs : List (MessageId × RemoteId))
    (res : List Upd × List SnapRow) (h : actionMove E pairs sel.id d.id s = .ok (res, s')) :
    Inv s' ∧ abs s' = MailboxRef.refMove (abs s) sel.name d.name (pairs.map (·.1)) ∧ Untouched s s' := by
  unfold MailboxRef.refMove
  rw [abs_hasMailbox s d hd]
  simp only [Bool.not_true, Bool.false_eq_true, if_false]
  unfold actionMove at h
  rw [bindA_ok] at h
  obtain ⟨inSrc, s0, h0, h⟩ := h
  rw [liftRead_ok] at h0
  obtain ⟨h0, e0⟩ := h0
  rw [e0] at h
  rw [hE] at h0
  have hmv := toMove_eq s hInv sel hsel pairs inSrc h0
  generalize htm : (pairs.filter fun p => inSrc.contains p.1) = toMove at h hmv
  rw [← hmv]
  by_cases hsd : sel.id = d.id
  · -- onto the selected mailbox itself: remove, then add (= COPY onto itself) the messages that are there
    have hrow : sel = d := nodup_map_inj (·.id) _ hInv.ids sel hsel d hd hsd
    subst hrow
    simp only [BEq.rfl, if_true] at h ⊢
    by_cases hemp : toMove.isEmpty = true
    · simp only [hemp, if_true] at h
      rw [pureA_ok] at h
      cases h
      have : toMove = [] := by simpa using hemp
      subst this
      refine ⟨hInv, ?_, rfl, rfl, rfl⟩
      unfold MailboxRef.refCopy
      symm
      apply updMailbox_id
      intro p _ _
      exact add_nil_id p.2
    · simp only [hemp, Bool.false_eq_true, if_false] at h
      rw [bindA_ok] at h
      obtain ⟨ups, s1, h1, h⟩ := h
      rw [bindA_ok] at h
      obtain ⟨ur, s2, h2, h⟩ := h
      rw [pureA_ok] at h
      cases h
      have e1 := removeUnchecked_eff E hE sel.id toMove s s1 ups h1
      obtain ⟨htab2, e2⟩ := actionAdd_eff E hE sel.id toMove s1 s' ur h2
      have htab := e1.table_of htab2
      have eff := (e1.comp e2).congr (g' := fun t => addRows toMove (rmRows (toMove.map (·.1)) t))
        (fun t _ => by rw [rmRows_rmRows])
      have := abs_TabEff s s' hInv sel hsel _ (fun b => b.add (toMove.map (·.1))) eff
        (fun t ht => ⟨(ht.rm _).add toMove, absTable_add t ht toMove⟩)
        (fun hn => by obtain ⟨t, ht⟩ := htab; rw [ht] at hn; cases hn)
      exact ⟨this.1, this.2, eff.same.1, eff.same.2.1, eff.1.2.2.1⟩
  · have hbeq : (sel.id == d.id) = false := by simpa using hsd
    have hnames : sel.name ≠ d.name := fun e => hsd (congrArg (·.id) (nodup_map_inj (·.name) _ hInv.names sel hsel d hd e))
    have hnb : (sel.name == d.name) = false := by simpa using hnames
    simp only [hbeq, Bool.false_eq_true, if_false] at h
    rw [hnb]
    simp only [Bool.false_eq_true, if_false]
    rw [bindA_ok] at h
    obtain ⟨inDst, s0', h2, h⟩ := h
    rw [liftRead_ok] at h2
    obtain ⟨h2, e1'⟩ := h2
    rw [e1'] at h
    rw [hE] at h2
    rw [bindA_ok] at h
    obtain ⟨ups, s1, h1, h⟩ := h
    rw [bindA_ok] at h
    obtain ⟨ru, s3, h3, h⟩ := h
    rw [pureA_ok] at h
    cases h
    -- 1. their instances in the destination are removed
    have e1 : TabEff d.id (rmRows (toMove.map (·.1))) s s1 := by
      by_cases hemp : (toMove.filter fun p => inDst.contains p.1).isEmpty = true
      · simp only [hemp, Bool.not_true, Bool.false_eq_true, if_false] at h1
        rw [pureA_ok] at h1
        cases h1
        apply TabEff.noop
        intro t ht
        rw [← filter_have _ d.id toMove inDst h2 t ht]
        have : (toMove.filter fun p => inDst.contains p.1) = [] := by simpa using hemp
        rw [this]; exact rmRows_nil t
      · have hne : (!(toMove.filter fun p => inDst.contains p.1).isEmpty) = true := by simpa using hemp
        simp only [hne, if_true] at h1
        exact (removeUnchecked_eff E hE d.id _ s s1 ups h1).congr (fun t ht => filter_have _ d.id toMove inDst h2 t ht)
    -- 2. they leave the source, 3. they arrive in the destination
    obtain ⟨s2, htabd, e2, e3⟩ := moveA_eff E hE sel.id d.id hsd toMove _ s1 s' ru h3
    have hm1 : s1.db.mailboxes = s.db.mailboxes := e1.same.2.2.1
    obtain ⟨hInv1, ha1⟩ := abs_TabEff s s1 hInv d hd _ (fun b => b.remove (toMove.map (·.1))) e1
      (fun t ht => ⟨ht.rm _, absTable_rm t ht _⟩) (fun _ => by simp [MailboxRef.Mailbox.remove])
    obtain ⟨hInv2, ha2⟩ := abs_TabEff s1 s2 hInv1 sel (by rw [hm1]; exact hsel) _ (fun b => b.remove (toMove.map (·.1))) e2
      (fun t ht => ⟨ht.rm _, absTable_rm t ht _⟩) (fun _ => by simp [MailboxRef.Mailbox.remove])
    have hm2 : s2.db.mailboxes = s1.db.mailboxes := e2.same.2.2.1
    have htab2 : ∃ t, s2.db.table? d.id = some t := by
      obtain ⟨t, ht⟩ := htabd
      exact ⟨t, by rw [e2.same.2.2.2 d.id (fun e => hsd e.symm)]; exact ht⟩
    obtain ⟨hInv3, ha3⟩ := abs_TabEff s2 s' hInv2 d (by rw [hm2, hm1]; exact hd) _ (addOnly (toMove.map (·.1))) e3
      (fun t ht => ⟨ht.add toMove, absTable_addOnly t ht toMove⟩)
      (fun hn => by obtain ⟨t, ht⟩ := htab2; rw [ht] at hn; cases hn)
    refine ⟨hInv3, ?_, ?_⟩
    · rw [ha3, ha2, ha1]
      unfold MailboxRef.expungeMsgs MailboxRef.refCopy
      rw [updMailbox_comm _ sel.name d.name hnames, updMailbox_fuse]
      rfl
    · exact ⟨by rw [e3.same.1, e2.same.1, e1.same.1], by rw [e3.same.2.1, e2.same.2.1, e1.same.2.1],
        by rw [e3.1.2.2.1, e2.1.2.2.1, e1.1.2.2.1]⟩

end Gluon.C03
