/-
Lemmas for C06 `invalid_update_no_effect`: a failing update is rolled back (only the UIDVALIDITY
generator, which lives outside the transaction, may have advanced); updates that name unknown or
protected objects fail or are skipped.
-/
import GluonModel.Lemmas.ConnIdem2
import GluonModel.Lemmas.ConnFrame

namespace Gluon.ConnUpd

/-- nothing queued, index as before except possibly the generator -/
def RolledBack (db : DB) (r : Res) : Prop := r.evs = [] ∧ { r.db with gen := db.gen } = db

theorem rolledBack_fail (db : DB) (e : Err) : RolledBack db (Res.fail db e) := ⟨rfl, rfl⟩
theorem rolledBack_fail_gen (db : DB) (v : Nat) (e : Err) : RolledBack db (Res.fail { db with gen := v } e) := ⟨rfl, rfl⟩

/-- either success, or rolled back -/
def OkOrRolledBack (db : DB) (r : Res) : Prop := r.err = none ∨ RolledBack db r

theorem oorb_ok (db db' : DB) (evs : List Ev) : OkOrRolledBack db (Res.ok db' evs) := Or.inl rfl
theorem oorb_fail (db : DB) (e : Err) : OkOrRolledBack db (Res.fail db e) := Or.inr (rolledBack_fail db e)
theorem oorb_fail_gen (db : DB) (v : Nat) (e : Err) : OkOrRolledBack db (Res.fail { db with gen := v } e) :=
  Or.inr (rolledBack_fail_gen db v e)

macro "oorb_leaves" : tactic =>
  `(tactic| (repeat' (first | split | dsimp only)) <;> first | exact oorb_ok _ _ _ | exact oorb_fail _ _ | exact oorb_fail_gen _ _ _)

theorem MC_oorb (cfg : Cfg) (db : DB) (rid : RID) (name : String) : OkOrRolledBack db (applyMailboxCreated cfg db rid name) := by
  unfold applyMailboxCreated; oorb_leaves

theorem MD_oorb (cfg : Cfg) (db : DB) (rid : RID) : OkOrRolledBack db (applyMailboxDeleted cfg db rid) := by
  unfold applyMailboxDeleted; oorb_leaves

theorem MU_oorb (cfg : Cfg) (db : DB) (rid : RID) (name : String) : OkOrRolledBack db (applyMailboxUpdated cfg db rid name) := by
  unfold applyMailboxUpdated; oorb_leaves

theorem MI_oorb (cfg : Cfg) (db : DB) (iid : Nat) (rid : RID) : OkOrRolledBack db (applyMailboxIDChanged cfg db iid rid) := by
  unfold applyMailboxIDChanged; oorb_leaves

theorem MSC_oorb (cfg : Cfg) (db : DB) (ig : Bool) (ms : List NewMsg) : OkOrRolledBack db (applyMessagesCreated cfg db ig ms) := by
  unfold applyMessagesCreated; oorb_leaves

theorem MMU_oorb (cfg : Cfg) (db : DB) (rid : RID) (mbs : List RID) (fl : List Flag) :
    OkOrRolledBack db (applyMessageMailboxesUpdated cfg db rid mbs fl) := by
  unfold applyMessageMailboxesUpdated; oorb_leaves

theorem MFU_oorb (db : DB) (rid : RID) (fl : List Flag) : OkOrRolledBack db (applyMessageFlagsUpdated db rid fl) := by
  unfold applyMessageFlagsUpdated; oorb_leaves

theorem MSI_oorb (cfg : Cfg) (db : DB) (iid : Nat) (rid : RID) : OkOrRolledBack db (applyMessageIDChanged cfg db iid rid) := by
  unfold applyMessageIDChanged; oorb_leaves

theorem MSD_no_err (db : DB) (rid : RID) : (applyMessageDeleted db rid).err = none := by
  unfold applyMessageDeleted
  split <;> rfl

theorem MSU_oorb (cfg : Cfg) (db : DB) (m : NewMsg) (ac : Bool) : OkOrRolledBack db (applyMessageUpdated cfg db m ac) := by
  unfold applyMessageUpdated
  split
  · split
    · exact MSC_oorb cfg db true [m]
    · exact oorb_ok _ _ _
  · oorb_leaves

theorem apply_oorb (cfg : Cfg) (db : DB) (u : Update) : OkOrRolledBack db (apply cfg db u) := by
  cases u with
  | mailboxCreated rid name => exact MC_oorb cfg db rid name
  | mailboxDeleted rid => exact MD_oorb cfg db rid
  | mailboxUpdated rid name => exact MU_oorb cfg db rid name
  | mailboxIDChanged iid rid => exact MI_oorb cfg db iid rid
  | messagesCreated ig ms => exact MSC_oorb cfg db ig ms
  | messageMailboxesUpdated rid mbs fl => exact MMU_oorb cfg db rid mbs fl
  | messageFlagsUpdated rid fl => exact MFU_oorb db rid fl
  | messageIDChanged iid rid => exact MSI_oorb cfg db iid rid
  | messageDeleted rid => exact Or.inl (MSD_no_err db rid)
  | messageUpdated m ac => exact MSU_oorb cfg db m ac
  | uidValidityBumped => exact Or.inl rfl
  | noop => exact Or.inl rfl
  | unknown => exact oorb_fail db _

/-- **a failing update of any kind is rolled back** -/
theorem apply_err_rollback (cfg : Cfg) (db : DB) (u : Update) (h : (apply cfg db u).err ≠ none) :
    RolledBack db (apply cfg db u) := by
  rcases apply_oorb cfg db u with h' | h'
  · exact absurd h' h
  · exact h'

/-! ### updates naming unknown / protected objects are refused … -/

theorem mscMailboxes_unknown (db : DB) (p : Nat × RID) :
    ∀ (bs : List RID) (fm : List (Nat × List (Nat × RID))), bs.any (fun b => !db.known b) = true →
      mscMailboxes db false p bs fm = .error .notFound := by
  intro bs
  induction bs with
  | nil => intro fm h; simp at h
  | cons b bs ih =>
    intro fm h
    simp only [mscMailboxes]
    cases hb : db.mboxByRid b with
    | none => simp
    | some mb =>
      simp only [List.any_cons, DB.known, hb, Option.isSome_some, Bool.not_true, Bool.false_or] at h
      exact ih _ h

theorem mscLoop_unknown (cfg : Cfg) (db : DB) :
    ∀ (ms : List NewMsg) (acc : MscAcc),
      ms.any (fun m => !m.mboxes.contains cfg.recoveryRID && m.mboxes.any (fun b => !db.known b)) = true →
      ∃ e, mscLoop cfg db false acc ms = .error e := by
  intro ms
  induction ms with
  | nil => intro acc h; simp at h
  | cons m ms ih =>
    intro acc h
    simp only [List.any_cons, Bool.or_eq_true] at h
    simp only [mscLoop]
    cases hs : mscStep cfg db false acc m with
    | error e => exact ⟨e, rfl⟩
    | ok acc1 =>
      rcases h with h | h
      · exfalso
        simp only [Bool.and_eq_true, Bool.not_eq_true'] at h
        unfold mscStep at hs
        simp only [h.1, Bool.false_eq_true, if_false, mscMailboxes_unknown db _ m.mboxes _ h.2] at hs
        cases hs
      · exact ih acc1 h

theorem resolveAll_unknown (db : DB) : ∀ bs : List RID, bs.any (fun b => !db.known b) = true → resolveAll db bs = none := by
  intro bs
  induction bs with
  | nil => intro h; simp at h
  | cons b bs ih =>
    intro h
    simp only [resolveAll]
    cases hb : db.mboxByRid b with
    | none => simp
    | some mb =>
      simp only [List.any_cons, DB.known, hb, Option.isSome_some, Bool.not_true, Bool.false_or] at h
      simp [ih h]

theorem addMessages_keeps_unknown (cfg : Cfg) (db db' : DB) (mb : Nat) (pairs : List (Nat × RID)) (ev : Ev) (b : RID)
    (h : addMessages cfg db mb pairs = .ok (db', ev)) (hb : db.mboxByRid b = none) : db'.mboxByRid b = none := by
  unfold addMessages at h
  split at h
  · cases h
  · repeat' split at h
    all_goals first
      | (simp only [Except.ok.injEq, Prod.mk.injEq] at h
         rw [← h.1]; exact mboxByRid_updMbox_none db _ _ b hb (fun _ => rfl))
      | cases h

theorem addNewTo_unknown (cfg : Cfg) (p : Nat × RID) :
    ∀ (bs : List RID) (db : DB), bs.any (fun b => (db.mboxByRid b).isNone) = true → ∃ e, addNewTo cfg db p bs = .error e := by
  intro bs
  induction bs with
  | nil => intro db h; simp at h
  | cons b bs ih =>
    intro db h
    simp only [addNewTo]
    cases hb : db.mboxByRid b with
    | none => exact ⟨_, rfl⟩
    | some mb =>
      simp only [List.any_cons, hb, Option.isNone_some, Bool.false_or] at h
      simp only
      cases ha : addMessages cfg db mb.iid [p] with
      | error e => exact ⟨e, rfl⟩
      | ok r =>
        obtain ⟨db1, e1⟩ := r
        have h' : bs.any (fun b => (db1.mboxByRid b).isNone) = true := by
          rw [List.any_eq_true] at h ⊢
          obtain ⟨b', hb', hn⟩ := h
          refine ⟨b', hb', ?_⟩
          rw [Option.isNone_iff_eq_none] at hn ⊢
          exact addMessages_keeps_unknown cfg db db1 mb.iid [p] e1 b' ha hn
        obtain ⟨e, he⟩ := ih db1 h'
        exact ⟨e, by simp only [he]⟩

theorem removeMessage_keeps (db : DB) (mb msg : Nat) (b : RID) (hb : db.mboxByRid b = none) :
    (removeMessage db mb msg).1.mboxByRid b = none := by
  simp only [removeMessage]
  exact mboxByRid_updMbox_none db _ _ b hb (fun _ => rfl)

theorem removeFromAll_keeps (msg : Nat) (b : RID) : ∀ (l : List Nat) (db : DB), db.mboxByRid b = none →
    (removeFromAll db msg l).1.mboxByRid b = none := by
  intro l
  induction l with
  | nil => intro db h; exact h
  | cons mb rest ih =>
    intro db h
    simp only [removeFromAll]
    exact ih _ (removeMessage_keeps db mb msg b h)

theorem invalidErr_rejected (cfg : Cfg) (db : DB) (u : Update) (h : InvalidErr cfg db u = true) :
    (apply cfg db u).err ≠ none := by
  cases u with
  | mailboxCreated rid name =>
    simp only [InvalidErr] at h
    simp [apply, applyMailboxCreated, h, Res.fail]
  | mailboxDeleted rid =>
    simp only [InvalidErr] at h
    simp [apply, applyMailboxDeleted, h, Res.fail]
  | mailboxUpdated rid name =>
    simp only [InvalidErr] at h
    simp [apply, applyMailboxUpdated, h, Res.fail]
  | mailboxIDChanged iid rid =>
    simp only [InvalidErr, Bool.or_eq_true, Option.isNone_iff_eq_none] at h
    simp only [apply, applyMailboxIDChanged]
    rcases h with h | h
    · simp [h, Res.fail]
    · split
      · simp [Res.fail]
      · simp [h, Res.fail]
  | messagesCreated ig ms =>
    simp only [InvalidErr, Bool.and_eq_true, Bool.not_eq_true'] at h
    obtain ⟨hig, hany⟩ := h
    subst hig
    obtain ⟨e, he⟩ := mscLoop_unknown cfg db ms { toCreate := [], forMbox := [] } hany
    simp [apply, applyMessagesCreated, he, Res.fail]
  | messageMailboxesUpdated rid mbs fl =>
    simp only [InvalidErr, Bool.or_eq_true, Option.isNone_iff_eq_none] at h
    simp only [apply, applyMessageMailboxesUpdated]
    rcases h with h | h
    · simp only [h, if_true]; simp [Res.fail]
    · split
      · simp [Res.fail]
      · simp [h, Res.fail]
  | messageFlagsUpdated rid fl =>
    simp only [InvalidErr, Option.isNone_iff_eq_none] at h
    simp [apply, applyMessageFlagsUpdated, h, Res.fail]
  | messageIDChanged iid rid =>
    simp only [InvalidErr, Option.isNone_iff_eq_none] at h
    simp only [apply, applyMessageIDChanged]
    split
    · simp [Res.fail]
    · simp [h, Res.fail]
  | messageDeleted rid => simp [InvalidErr] at h
  | messageUpdated m ac =>
    simp only [InvalidErr] at h
    simp only [apply, applyMessageUpdated]
    cases hm : db.msgByRid m.rid with
    | none => simp [hm] at h
    | some g =>
      simp only [hm] at h
      simp only
      split
      · simp [resolveAll_unknown db m.mboxes h, Res.fail]
      · have hunk : m.mboxes.any (fun b => (db.mboxByRid b).isNone) = true := by
          rw [List.any_eq_true] at h ⊢
          obtain ⟨b, hb, hk⟩ := h
          exact ⟨b, hb, by simpa [DB.known] using hk⟩
        generalize hrf : removeFromAll db g.iid (db.mailboxesOf g.iid) = rf
        obtain ⟨db1, e1⟩ := rf
        have hkeep : ∀ b, db.mboxByRid b = none → db1.mboxByRid b = none := by
          intro b hb
          have := removeFromAll_keeps g.iid b (db.mailboxesOf g.iid) db hb
          rw [hrf] at this; exact this
        simp only
        have hunk3 : m.mboxes.any (fun b =>
            (DB.mboxByRid { (db1.updMsg g.iid (fun x => { x with deleted := true, rid := ghostRid db.nextMsg })) with
                msgs := (db1.updMsg g.iid (fun x => { x with deleted := true, rid := ghostRid db.nextMsg })).msgs ++
                  [{ iid := db.nextMsg, rid := m.rid, flags := dedup m.flags, deleted := false, lit := m.lit }],
                nextMsg := db.nextMsg + 1 } b).isNone) = true := by
          rw [List.any_eq_true] at hunk ⊢
          obtain ⟨b, hb, hn⟩ := hunk
          refine ⟨b, hb, ?_⟩
          rw [Option.isNone_iff_eq_none] at hn ⊢
          exact hkeep b hn
        obtain ⟨e, he⟩ := addNewTo_unknown cfg (db.nextMsg, m.rid) m.mboxes _ hunk3
        rw [he]
        simp [Res.fail]
  | uidValidityBumped => simp [InvalidErr] at h
  | noop => simp [InvalidErr] at h
  | unknown => simp [apply, Res.fail]

/-! ### … or skipped -/

theorem mscLoop_all_protected (cfg : Cfg) (db : DB) (ig : Bool) :
    ∀ (ms : List NewMsg) (acc : MscAcc), ms.all (fun m => m.mboxes.contains cfg.recoveryRID) = true →
      mscLoop cfg db ig acc ms = .ok acc := by
  intro ms
  induction ms with
  | nil => intro acc _; rfl
  | cons m ms ih =>
    intro acc h
    simp only [List.all_cons, Bool.and_eq_true] at h
    simp only [mscLoop, mscStep, h.1, if_true]
    exact ih acc h.2

theorem MSC_all_protected (cfg : Cfg) (db : DB) (ig : Bool) (ms : List NewMsg)
    (h : ms.all (fun m => m.mboxes.contains cfg.recoveryRID) = true) : applyMessagesCreated cfg db ig ms = Res.ok db [] := by
  unfold applyMessagesCreated
  rw [mscLoop_all_protected cfg db ig ms _ h]
  rfl

/-- skipped: success, index untouched, nothing queued -/
theorem invalidSkip_ok (cfg : Cfg) (db : DB) (u : Update) (h : InvalidSkip cfg db u = true) :
    apply cfg db u = Res.ok db [] := by
  cases u with
  | mailboxUpdated rid name =>
    simp only [InvalidSkip, Bool.and_eq_true, bne_iff_ne, ne_eq, Bool.not_eq_true', DB.known,
      Option.isSome_eq_false_iff, Option.isNone_iff_eq_none] at h
    have h1 : (rid == cfg.recoveryRID) = false := by simpa using h.1
    simp only [apply, applyMailboxUpdated, h1, Bool.false_eq_true, if_false, h.2]
  | messagesCreated ig ms =>
    simp only [InvalidSkip] at h
    exact MSC_all_protected cfg db ig ms h
  | messageUpdated m ac =>
    simp only [InvalidSkip, Bool.and_eq_true, Option.isNone_iff_eq_none, Bool.or_eq_true, Bool.not_eq_true'] at h
    obtain ⟨hm, hor⟩ := h
    simp only [apply, applyMessageUpdated, hm]
    cases ac with
    | false => rfl
    | true =>
      simp only [if_true]
      rcases hor with hor | hor
      · cases hor
      · exact MSC_all_protected cfg db true [m] (by simp only [List.all_cons, hor, List.all_nil, Bool.and_self])
  | mailboxCreated _ _ => simp [InvalidSkip] at h
  | mailboxDeleted _ => simp [InvalidSkip] at h
  | mailboxIDChanged _ _ => simp [InvalidSkip] at h
  | messageMailboxesUpdated _ _ _ => simp [InvalidSkip] at h
  | messageFlagsUpdated _ _ => simp [InvalidSkip] at h
  | messageIDChanged _ _ => simp [InvalidSkip] at h
  | messageDeleted _ => simp [InvalidSkip] at h
  | uidValidityBumped => simp [InvalidSkip] at h
  | noop => simp [InvalidSkip] at h
  | unknown => simp [InvalidSkip] at h

end Gluon.ConnUpd
