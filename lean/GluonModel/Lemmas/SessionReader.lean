/-
Lemmas about the reader loop of the session-loop model (`Model/SessionLoop.lean`): every iteration that
produces a line consumes at least one byte and leaves a suffix of the unread input (hence the loop
terminates within |input|+1 iterations and the parser's fuel, chosen for the whole input, stays sufficient
for every later line); it never ends in `hang` / `panic` / `outOfFuel`; the bytes of the lines partition
the consumed input; every line ends with LF.
-/
import GluonModel.Model.SessionLoop
import GluonModel.Lemmas.ParseMono
import GluonModel.Lemmas.ParseTerm
import GluonModel.Lemmas.ParseNoPanic
import GluonModel.Lemmas.ParseErrLoaded

namespace Gluon.SessionLoop
open Gluon.Parse

/-! ### `Parse()` on an arbitrary parser state -/

instance : Mono (parseLineBody fuel) := by unfold parseLineBody; infer_instance
instance : ErrLoaded (parseLineBody fuel) := by unfold parseLineBody; infer_instance

/-- `Parse`, started in any state with fewer unread bytes than fuel, does not run out of fuel -/
theorem parseLine_total (fuel : Nat) (s : PState) (h : s.rest.length < fuel) : parseLine fuel s ≠ .fuel := by
  intro hf
  rw [parseLine_eq] at hf
  obtain ⟨s1, e, hi, hl⟩ := advance_input s
  rw [bind_eq, e] at hf
  exact Total.tot (n := fuel) (p := parseLineBody fuel) s1 hl (by rw [hi]; exact h) hf

/-- `Parse` never panics, in any state -/
theorem parseLine_noPanic (fuel : Nat) (s s' : PState) : parseLine fuel s ≠ .err .panic s' :=
  NoPanic.np (p := parseLine fuel) s s'

theorem isTagChar_eof : isTagChar .eof = false := by decide

/-- what `Parse` does when nothing is left to read: an error, and still nothing left -/
theorem parseLine_nil (fuel : Nat) (s : PState) (h : s.rest = []) :
    ∃ t s', parseLine fuel s = .err (.parse t) s' ∧ s'.rest = [] ∧ s'.cur.ty = .eof := by
  let s1 : PState := { s with rest := [], prev := s.cur, cur := Tok.eof }
  have ha : advance s = .ok () s1 := by unfold advance; simp only [h]; rfl
  have hc : consumeWith isTagChar s1 = .err (.parse s1.prev.ty) s1 := by
    unfold consumeWith makeError; simp [s1, Tok.eof, isTagChar_eof]
  have ht : parseTag fuel s1 = .err (.parse s1.prev.ty) s1 := by
    unfold parseTag; rw [bind_eq, hc]
  have hb : parseLineBody fuel s1 = .err (.parse s1.prev.ty) s1 := by
    unfold parseLineBody; rw [bind_eq, ht]
  refine ⟨s1.prev.ty, s1, ?_, rfl, rfl⟩
  rw [parseLine_eq, bind_eq, ha]; exact hb

/-- whatever `Parse` returns, the unread bytes are a suffix of the unread bytes after the first one -/
theorem parseLine_rest (fuel : Nat) (s : PState) (b : UInt8) (bs : Bytes) (h : s.rest = b :: bs) :
    (parseLine fuel s).RestLe { s with rest := bs } := by
  obtain ⟨s1, e, _, _⟩ := advance_input s
  have hs1 : s1.rest = bs := by
    unfold advance at e
    simp only [h] at e
    cases e
    rfl
  rw [parseLine_eq, bind_eq, e]
  show (parseLineBody fuel s1).RestLe { s with rest := bs }
  have := Mono.mono (p := parseLineBody fuel) s1
  unfold Res.RestLe at *
  rw [hs1] at this
  exact this

theorem consumeInvalidInput_rest (s : PState) : (consumeInvalidInput s).1.rest <:+ s.rest := by
  unfold consumeInvalidInput
  split
  · exact List.suffix_refl _
  · split
    · exact List.nil_suffix
    · rename_i x r h
      show r <:+ s.rest
      have h1 : r <:+ List.dropWhile (· != 10) s.rest := by rw [h]; exact List.suffix_cons _ _
      exact List.IsSuffix.trans h1 (List.dropWhile_suffix _)

/-- a failed `Parse` (parser error) leaves a loaded state whose look-ahead byte and unread bytes are a suffix
of what was unread before -/
theorem parseLine_err_loaded (fuel : Nat) (s : PState) (t : TokTy) (s1 : PState)
    (h : parseLine fuel s = .err (.parse t) s1) : Loaded s1 ∧ s1.input <:+ s.rest := by
  rw [parseLine_eq, bind_eq] at h
  obtain ⟨s0, e, hi, hl⟩ := advance_input s
  rw [e] at h
  have := ErrLoaded.el (p := parseLineBody fuel) s0 t s1 hl h
  rw [hi] at this
  exact this

/-! ### one iteration -/

/-- an iteration that hands a line on has read at least one byte, and what is left is a suffix of what
was left after that byte -/
theorem readStep_line (cfg : Cfg) (fuel : Nat) (s : PState) (l : Line) (s' : PState)
    (h : readStep cfg fuel s = .line l s') :
    ∃ b bs, s.rest = b :: bs ∧ s'.rest <:+ bs ∧ l.bytes = consumedBytes s s' := by
  cases hr : s.rest with
  | nil =>
    obtain ⟨t, s1, hp, hn, hce⟩ := parseLine_nil fuel s hr
    unfold readStep at h
    rw [hp] at h
    simp only at h
    split at h
    · cases h
    · have : consumeInvalidInput s1 = ({ s1 with rest := [] }, false) := by
        unfold consumeInvalidInput; simp [hn, hce]
      rw [this] at h
      cases h
  | cons b bs =>
    refine ⟨b, bs, rfl, ?_⟩
    have hre := parseLine_rest fuel s b bs hr
    unfold readStep at h
    cases hp : parseLine fuel s with
    | fuel => rw [hp] at h; cases h
    | err e s1 =>
      rw [hp] at h hre
      have hs1 : s1.rest <:+ bs := hre
      cases e with
      | panic => cases h
      | ioEOF => cases h
      | parse t =>
        simp only at h
        split at h
        · cases h
        · have hc := consumeInvalidInput_rest s1
          cases hci : consumeInvalidInput s1 with
          | mk s2 ok =>
            rw [hci] at h hc
            cases ok with
            | false => cases h
            | true =>
              simp only at h
              split at h
              · cases h
              · cases h
                exact ⟨List.IsSuffix.trans hc hs1, rfl⟩
    | ok c s1 =>
      rw [hp] at h hre
      have hs1 : s1.rest <:+ bs := hre
      simp only at h
      split at h
      · split at h
        · cases h; exact ⟨hs1, rfl⟩
        · split at h
          · cases h
          · cases h; exact ⟨hs1, rfl⟩
      · cases h; exact ⟨hs1, rfl⟩

theorem readStep_shrinks (cfg : Cfg) (fuel : Nat) (s : PState) (l : Line) (s' : PState)
    (h : readStep cfg fuel s = .line l s') : s'.rest.length < s.rest.length := by
  obtain ⟨b, bs, hs, hsuf, _⟩ := readStep_line cfg fuel s l s' h
  have := hsuf.length_le
  rw [hs]
  simp only [List.length_cons]
  omega

theorem readStep_noHang (cfg : Cfg) (fuel : Nat) (s : PState) (hf : s.rest.length < fuel) :
    readStep cfg fuel s ≠ .exit .hang := by
  intro h
  unfold readStep at h
  cases hp : parseLine fuel s with
  | fuel => exact parseLine_total fuel s hf hp
  | err e s1 =>
    rw [hp] at h
    cases e with
    | panic => cases h
    | ioEOF => cases h
    | parse t =>
      simp only at h
      split at h
      · split at h <;> cases h
      · cases hci : consumeInvalidInput s1 with
        | mk s2 ok =>
          rw [hci] at h
          cases ok with
          | false => cases h
          | true => simp only at h; split at h <;> cases h
  | ok c s1 =>
    rw [hp] at h
    simp only at h
    split at h
    · split at h
      · cases h
      · split at h <;> cases h
    · cases h

theorem readStep_noPanic (cfg : Cfg) (fuel : Nat) (s : PState) : readStep cfg fuel s ≠ .exit .panic := by
  intro h
  unfold readStep at h
  cases hp : parseLine fuel s with
  | fuel => rw [hp] at h; cases h
  | err e s1 =>
    rw [hp] at h
    cases e with
    | panic => exact parseLine_noPanic fuel s s1 hp
    | ioEOF => cases h
    | parse t =>
      simp only at h
      split at h
      · split at h <;> cases h
      · cases hci : consumeInvalidInput s1 with
        | mk s2 ok =>
          rw [hci] at h
          cases ok with
          | false => cases h
          | true => simp only at h; split at h <;> cases h
  | ok c s1 =>
    rw [hp] at h
    simp only at h
    split at h
    · split at h
      · cases h
      · split at h <;> cases h
    · cases h

theorem readStep_noOutOfFuel (cfg : Cfg) (fuel : Nat) (s : PState) : readStep cfg fuel s ≠ .exit .outOfFuel := by
  intro h
  unfold readStep at h
  cases hp : parseLine fuel s with
  | fuel => rw [hp] at h; cases h
  | err e s1 =>
    rw [hp] at h
    cases e with
    | panic => cases h
    | ioEOF => cases h
    | parse t =>
      simp only at h
      split at h
      · split at h <;> cases h
      · cases hci : consumeInvalidInput s1 with
        | mk s2 ok =>
          rw [hci] at h
          cases ok with
          | false => cases h
          | true => simp only at h; split at h <;> cases h
  | ok c s1 =>
    rw [hp] at h
    simp only at h
    split at h
    · split at h
      · cases h
      · split at h <;> cases h
    · cases h

/-! ### the loop -/

/-- unfolding of one iteration -/
theorem readAll_succ (cfg : Cfg) (fuel n : Nat) (s : PState) :
    readAll cfg fuel (n + 1) s =
      match readStep cfg fuel s with
      | .exit e => ([], e)
      | .line l s' =>
        match l.res with
        | .tlsOk _ => ([l], .tlsStarted)
        | _ => (l :: (readAll cfg fuel n s').1, (readAll cfg fuel n s').2) := by
  rw [readAll]
  cases readStep cfg fuel s with
  | exit e => rfl
  | line l s' => cases l.res <;> rfl

/-- the exit reason of the loop is the exit reason of some iteration, on a state with no more unread
bytes than the start — unless the iteration budget ran out or STARTTLS was accepted -/
theorem readAll_exit (cfg : Cfg) (fuel : Nat) : ∀ n s, (readAll cfg fuel n s).2 = .outOfFuel ∧ n ≤ s.rest.length
    ∨ (readAll cfg fuel n s).2 = .tlsStarted
    ∨ ∃ s', s'.rest.length ≤ s.rest.length ∧ readStep cfg fuel s' = .exit (readAll cfg fuel n s).2 := by
  intro n
  induction n with
  | zero => intro s; exact Or.inl ⟨rfl, Nat.zero_le _⟩
  | succ n ih =>
    intro s
    rw [readAll_succ]
    cases hr : readStep cfg fuel s with
    | exit e => exact Or.inr (Or.inr ⟨s, Nat.le_refl _, hr⟩)
    | line l s' =>
      have hlt := readStep_shrinks cfg fuel s l s' hr
      have key : (readAll cfg fuel n s').2 = .outOfFuel ∧ n + 1 ≤ s.rest.length
          ∨ (readAll cfg fuel n s').2 = .tlsStarted
          ∨ ∃ s'', s''.rest.length ≤ s.rest.length ∧ readStep cfg fuel s'' = .exit (readAll cfg fuel n s').2 := by
        rcases ih s' with ⟨h1, h2⟩ | h | ⟨s'', h1, h2⟩
        · exact Or.inl ⟨h1, by omega⟩
        · exact Or.inr (Or.inl h)
        · exact Or.inr (Or.inr ⟨s'', by omega, h2⟩)
      obtain ⟨lb, lr⟩ := l
      cases lr with
      | tlsOk t => exact Or.inr (Or.inl rfl)
      | err t => exact key
      | cmd c => exact key
      | tlsNo t => exact key

/-- the lines' bytes, concatenated, are a prefix of the unread input: the reader neither skips nor
re-reads a byte -/
theorem readAll_prefix (cfg : Cfg) (fuel : Nat) : ∀ n s,
    ((readAll cfg fuel n s).1.map (·.bytes)).flatten <+: s.rest := by
  intro n
  induction n with
  | zero => intro s; exact List.nil_prefix
  | succ n ih =>
    intro s
    rw [readAll_succ]
    cases hr : readStep cfg fuel s with
    | exit e => exact List.nil_prefix
    | line l s' =>
      obtain ⟨b, bs, hs, hsuf, hb⟩ := readStep_line cfg fuel s l s' hr
      have hsuf' : s'.rest <:+ s.rest := by rw [hs]; exact List.IsSuffix.trans hsuf (List.suffix_cons _ _)
      -- s.rest = l.bytes ++ s'.rest
      have hsplit : s.rest = l.bytes ++ s'.rest := by
        obtain ⟨pre, hpre⟩ := hsuf'
        rw [hb]
        unfold consumedBytes
        rw [← hpre]
        simp
      have one : ([l].map (·.bytes)).flatten <+: s.rest := by
        simp only [List.map_cons, List.map_nil, List.flatten_cons, List.flatten_nil, List.append_nil]
        rw [hsplit]; exact List.prefix_append _ _
      have more : ((l :: (readAll cfg fuel n s').1).map (·.bytes)).flatten <+: s.rest := by
        simp only [List.map_cons, List.flatten_cons]
        rw [hsplit]
        exact (List.prefix_append_right_inj _).mpr (ih s')
      obtain ⟨lb, lr⟩ := l
      cases lr with
      | tlsOk t => exact one
      | err t => exact more
      | cmd c => exact more
      | tlsNo t => exact more

end Gluon.SessionLoop

namespace Gluon.SessionLoop
open Gluon.Parse

/-! ### every line ends with LF, and its tag can be read off its bytes -/

theorem consumedBytes_of_split {s s' : PState} {A : Bytes} (h : s.rest = A ++ s'.rest) : consumedBytes s s' = A := by
  unfold consumedBytes
  rw [h]
  simp

theorem dropWhile_head_not {α : Type} (p : α → Bool) : ∀ (l : List α) (x : α) (r : List α),
    l.dropWhile p = x :: r → p x = false := by
  intro l
  induction l with
  | nil => intro x r h; cases h
  | cons a l ih =>
    intro x r h
    rw [List.dropWhile_cons] at h
    split at h
    · exact ih x r h
    · rename_i hp
      cases h
      simpa using hp

theorem mem_takeWhile_true {α : Type} (p : α → Bool) : ∀ (l : List α) (x : α), x ∈ l.takeWhile p → p x = true := by
  intro l
  induction l with
  | nil => intro x h; cases h
  | cons a l ih =>
    intro x h
    rw [List.takeWhile_cons] at h
    split at h
    · rename_i hp
      rcases List.mem_cons.mp h with h | h
      · rw [h]; exact hp
      · exact ih x h
    · cases h

/-- `ConsumeInvalidInput` that succeeded: either the look-ahead token was the LF already and nothing was read
(only when `skipStopsAtLookaheadLF`), or it has skipped LF-free bytes and then an LF -/
theorem consumeInvalidInput_true (s s2 : PState) (h : consumeInvalidInput s = (s2, true)) :
    (s2 = s ∧ s.cur.ty = .lf) ∨ ∃ pre, s.rest = pre ++ 10 :: s2.rest ∧ (10 : UInt8) ∉ pre := by
  unfold consumeInvalidInput at h
  split at h
  · rename_i hc
    cases h
    simp only [Bool.and_eq_true, beq_iff_eq] at hc
    exact Or.inl ⟨rfl, hc.2⟩
  · right
    split at h
    · cases h
    · rename_i x r hd
      cases h
      have hx := dropWhile_head_not _ _ _ _ hd
      have hx10 : x = 10 := by simpa using hx
      refine ⟨s.rest.takeWhile (· != 10), ?_, ?_⟩
      · have := List.takeWhile_append_dropWhile (p := (· != 10)) (l := s.rest)
        rw [hd, hx10] at this
        exact this.symm
      · intro hm
        have := mem_takeWhile_true _ _ _ hm
        simp at this

/-- a successful `Parse` ends right after an LF: it has consumed a CR token and then looked at (read) the
byte after it, which is LF -/
theorem parseLine_ok_lf (fuel : Nat) (s : PState) (c : Command) (s' : PState) (h : parseLine fuel s = .ok c s') :
    ∃ A, s.rest = A ++ 10 :: s'.rest := by
  rw [parseLine_eq, bind_eq] at h
  obtain ⟨s1, e, _, _⟩ := advance_input s
  have hs1 : s1.rest <:+ s.rest := Mono.ok e
  rw [e] at h
  simp only at h
  unfold parseLineBody at h
  rw [bind_eq] at h
  split at h
  · rename_i tag s2 ht
    have hs2 : s2.rest <:+ s1.rest := Mono.ok ht
    rw [bind_eq] at h
    split at h
    · rename_i cmd s3 hc
      have hs3 : s3.rest <:+ s2.rest := Mono.ok hc
      rw [bind_eq] at h
      split at h
      · rename_i u s4 hcr
        -- `consume .cr` is an `advance` from a state whose current token is CR
        have hadv : advance s3 = .ok () s4 := by
          unfold consume consumeWith at hcr
          split at hcr
          · exact hcr
          · cases hcr
        rw [bind_eq] at h
        have hchk : check TokTy.lf s4 = .ok (s4.cur.ty == .lf) s4 := rfl
        rw [hchk] at h
        simp only at h
        split at h
        · cases h
        · rename_i hb
          cases h
          have hlf : s'.cur.ty = .lf := by simpa using hb
          unfold advance at hadv
          split at hadv
          · cases hadv
            simp [Tok.eof] at hlf
          · rename_i b bs hr
            cases hadv
            have hb10 : b = 10 := (tokTy_lf b).mp hlf
            obtain ⟨p3, hp3⟩ := List.IsSuffix.trans hs3 (List.IsSuffix.trans hs2 hs1)
            refine ⟨p3, ?_⟩
            rw [← hp3, hr, hb10]
      · cases h
      · cases h
    · cases h
    · cases h
  · cases h
  · cases h

/-- every line the reader hands on ends with LF, and the reader's position has moved by exactly its bytes -/
theorem readStep_line_lf (cfg : Cfg) (fuel : Nat) (s : PState) (l : Line) (s' : PState)
    (h : readStep cfg fuel s = .line l s') :
    ∃ A, l.bytes = A ++ [10] ∧ s.rest = l.bytes ++ s'.rest := by
  have key : ∀ A, s.rest = A ++ 10 :: s'.rest → l.bytes = consumedBytes s s' →
      ∃ A, l.bytes = A ++ [10] ∧ s.rest = l.bytes ++ s'.rest := by
    intro A hA hb
    have hsplit : s.rest = (A ++ [10]) ++ s'.rest := by rw [hA]; simp
    have := consumedBytes_of_split hsplit
    exact ⟨A, by rw [hb, this], by rw [hb, this]; exact hsplit⟩
  obtain ⟨_, _, _, _, hbytes⟩ := readStep_line cfg fuel s l s' h
  unfold readStep at h
  cases hp : parseLine fuel s with
  | fuel => rw [hp] at h; cases h
  | err e s1 =>
    rw [hp] at h
    cases e with
    | panic => cases h
    | ioEOF => cases h
    | parse t =>
      simp only at h
      split at h
      · cases h
      · cases hci : consumeInvalidInput s1 with
        | mk s2 ok =>
          rw [hci] at h
          cases ok with
          | false => cases h
          | true =>
            simp only at h
            split at h
            · cases h
            · cases h
              rcases consumeInvalidInput_true s1 s' hci with ⟨he, hlf⟩ | ⟨pre, hpre, _⟩
              · -- the look-ahead token is the LF: it is the last byte that was read
                obtain ⟨hl1, X, hX⟩ := parseLine_err_loaded fuel s t s1 hp
                have hne : s1.cur.ty ≠ .eof := by rw [hlf]; decide
                have hv : s1.cur.val = 10 := (tokTy_lf _).mp (by rw [← hl1.2 hne]; exact hlf)
                subst he
                exact key X (by rw [← hX, input_of_cur_ne hne, hv]) hbytes
              · have hs1 : s1.rest <:+ s.rest := Mono.err hp
                obtain ⟨X, hX⟩ := hs1
                exact key (X ++ pre) (by rw [← hX, hpre]; simp) hbytes
  | ok c s1 =>
    rw [hp] at h
    obtain ⟨A, hA⟩ := parseLine_ok_lf fuel s c s1 hp
    simp only at h
    split at h
    · split at h
      · cases h; exact key A hA hbytes
      · split at h
        · cases h
        · cases h; exact key A hA hbytes
    · cases h; exact key A hA hbytes

/-! ### tags -/

theorem collectLoop_takeWhile (f : TokTy → Bool) [NoEOF f] (n : Nat) : ∀ s r s', Loaded s →
    collectLoop f n s = .ok r s' → r = s.input.takeWhile (fun b => f (tokTy b)) := by
  induction n with
  | zero => intro s r s' _ h; cases h
  | succ n ih =>
    intro s r s' hl h
    unfold collectLoop at h
    rw [bind_eq] at h
    cases hi : s.input with
    | nil =>
      have hc := input_nil_cur hl hi
      have hm : matchesWith f s = .ok false s := by
        unfold matchesWith
        simp [hc, NoEOF.ne (f := f)]
      rw [hm] at h
      simp only [Bool.false_eq_true, if_false] at h
      cases h
      rfl
    | cons b bs =>
      rcases matchesWith_on f hl hi with ⟨hf, s1, hm, hi1, hl1, hpv⟩ | ⟨hf, hm⟩
      · rw [hm] at h
        simp only [if_true] at h
        have h' : (collectLoop f n >>= fun r => pure (s1.prev.val :: r)) s1 = .ok r s' := h
        rw [bind_eq] at h'
        cases hc : collectLoop f n s1 with
        | ok r1 s2 =>
          rw [hc] at h'
          have := ih s1 r1 s2 hl1 hc
          cases h'
          rw [hpv, this, hi1]
          simp [List.takeWhile_cons, hf]
        | err e s2 => rw [hc] at h'; cases h'
        | fuel => rw [hc] at h'; cases h'
      · rw [hm] at h
        simp only [Bool.false_eq_true, if_false] at h
        cases h
        simp [List.takeWhile_cons, hf]

/-- `parseTag` returns the longest prefix of tag characters of what is in front of the parser, and that
prefix is not empty -/
theorem parseTag_spec (fuel : Nat) (s : PState) (hl : Loaded s) (tag : Bytes) (s' : PState)
    (h : parseTag fuel s = .ok tag s') : tag = s.input.takeWhile isTagByte ∧ tag ≠ [] := by
  unfold parseTag at h
  rw [bind_eq] at h
  cases hi : s.input with
  | nil =>
    have hc := input_nil_cur hl hi
    have : consumeWith isTagChar s = .err (.parse s.prev.ty) s := by
      unfold consumeWith makeError
      simp [hc, isTagChar_eof]
    rw [this] at h
    cases h
  | cons b bs =>
    rcases consumeWith_on isTagChar hl hi with ⟨hf, s1, hm, hi1, hl1, hpv⟩ | ⟨hf, e, hm⟩
    · rw [hm] at h
      simp only at h
      unfold collectWhilePrev at h
      have h' : (collectLoop isTagChar fuel >>= fun r => pure (s1.prev.val :: r)) s1 = .ok tag s' := h
      rw [bind_eq] at h'
      cases hc : collectLoop isTagChar fuel s1 with
      | ok r1 s2 =>
        rw [hc] at h'
        have := collectLoop_takeWhile isTagChar fuel s1 r1 s2 hl1 hc
        cases h'
        refine ⟨?_, by simp⟩
        rw [hpv, this, hi1]
        have hb : isTagByte b = true := hf
        show b :: List.takeWhile isTagByte bs = List.takeWhile isTagByte (b :: bs)
        simp [List.takeWhile_cons, hb]
      | err e s2 => rw [hc] at h'; cases h'
      | fuel => rw [hc] at h'; cases h'
    · rw [hm] at h
      cases h

theorem isTagByte_lf : isTagByte 10 = false := by decide

theorem takeWhile_append_stop {α : Type} (p : α → Bool) (x : α) (hx : p x = false) : ∀ (A B : List α),
    (A ++ x :: B).takeWhile p = (A ++ [x]).takeWhile p := by
  intro A
  induction A with
  | nil => intro B; simp [List.takeWhile_cons, hx]
  | cons a A ih =>
    intro B
    simp only [List.cons_append, List.takeWhile_cons]
    split
    · rw [ih B]
    · rfl

/-- the tag prefix of a line that ends with LF is the tag prefix of the whole unread input it was cut from -/
theorem takeWhile_line (A rest : Bytes) :
    ((A ++ [10]) ++ rest).takeWhile isTagByte = (A ++ [10]).takeWhile isTagByte := by
  have := takeWhile_append_stop isTagByte 10 isTagByte_lf A rest
  simpa using this

end Gluon.SessionLoop

namespace Gluon.SessionLoop
open Gluon.Parse

def isDoneCmd : Cmd → Bool
  | .done => true
  | _ => false

theorem isDoneCmd_eq {c : Cmd} (h : isDoneCmd c = true) : c = .done := by
  cases c <;> first | rfl | cases h

/-- the tag of a successfully parsed command is the tag prefix of the unread input; it is empty exactly for
DONE (whose "tag prefix" is the word DONE itself) -/
theorem parseLine_ok_tag (fuel : Nat) (s : PState) (c : Command) (s' : PState) (h : parseLine fuel s = .ok c s') :
    (c.tag = [] ∧ isDoneCmd c.payload = true ∧ lowerBytes (s.rest.takeWhile isTagByte) = kw "done") ∨
    (c.tag = s.rest.takeWhile isTagByte ∧ c.tag ≠ [] ∧ lowerBytes c.tag ≠ kw "done") := by
  rw [parseLine_eq, bind_eq] at h
  obtain ⟨s1, e, hi, hl⟩ := advance_input s
  rw [e] at h
  simp only at h
  unfold parseLineBody at h
  rw [bind_eq] at h
  split at h
  · rename_i tag s2 ht
    obtain ⟨htag, hne⟩ := parseTag_spec fuel s1 hl tag s2 ht
    rw [hi] at htag
    rw [bind_eq] at h
    split at h
    · rename_i cmd s3 hc
      have hcmd : (cmd.tag = [] ∧ isDoneCmd cmd.payload = true ∧ lowerBytes tag = kw "done") ∨
          (cmd.tag = tag ∧ lowerBytes tag ≠ kw "done") := by
        split at hc
        · rename_i hd
          cases hc; exact Or.inl ⟨rfl, rfl, hd⟩
        · rename_i hnd
          rw [bind_eq] at hc
          split at hc
          · rw [bind_eq] at hc
            split at hc
            · cases hc; exact Or.inr ⟨rfl, hnd⟩
            · cases hc
            · cases hc
          · cases hc
          · cases hc
      have hcc : c = cmd := by
        rw [bind_eq] at h
        split at h
        · rw [bind_eq] at h
          have hchk : ∀ st, check TokTy.lf st = .ok (st.cur.ty == .lf) st := fun _ => rfl
          rw [hchk] at h
          simp only at h
          split at h
          · cases h
          · cases h; rfl
        · cases h
        · cases h
      rw [hcc]
      rcases hcmd with ⟨h0, h0', h0''⟩ | ⟨h1, h2⟩
      · exact Or.inl ⟨h0, h0', by rw [← htag]; exact h0''⟩
      · exact Or.inr ⟨by rw [h1, htag], by rw [h1]; exact hne, by rw [h1]; exact h2⟩
    · cases h
    · cases h
  · cases h
  · cases h

/-- `res.command.Tag` of a failed `Parse` is empty or the tag prefix of the unread input -/
theorem errTag_spec (cfg : Cfg) (fuel : Nat) (s : PState) :
    errTag cfg fuel s = [] ∨
      (errTag cfg fuel s = s.rest.takeWhile isTagByte ∧ errTag cfg fuel s ≠ [] ∧
        lowerBytes (errTag cfg fuel s) ≠ kw "done") := by
  unfold errTag
  obtain ⟨s1, e, hi, hl⟩ := advance_input s
  rw [bind_eq, e]
  simp only
  cases ht : parseTag fuel s1 with
  | ok tag s2 =>
    obtain ⟨htag, hne⟩ := parseTag_spec fuel s1 hl tag s2 ht
    rw [hi] at htag
    simp only
    split
    · exact Or.inl rfl
    · rename_i hnd
      split
      · split
        · exact Or.inl rfl
        · exact Or.inr ⟨htag, hne, hnd⟩
      · exact Or.inr ⟨htag, hne, hnd⟩
  | err e' s2 => exact Or.inl rfl
  | fuel => exact Or.inl rfl

/-- with the tag kept on late errors (`lateErrDropsTag = false`) and enough fuel, `res.command.Tag` is exactly
the line's tag, or empty when the line has none -/
theorem errTag_full (cfg : Cfg) (fuel : Nat) (s : PState) (hk : cfg.lateErrDropsTag = false)
    (hf : s.rest.length < fuel) :
    errTag cfg fuel s =
      (let t := s.rest.takeWhile isTagByte; if t.isEmpty || lowerBytes t = kw "done" then [] else t) := by
  unfold errTag
  obtain ⟨s1, e, hi, hl⟩ := advance_input s
  rw [bind_eq, e]
  simp only
  cases ht : parseTag fuel s1 with
  | ok tag s2 =>
    obtain ⟨htag, hne⟩ := parseTag_spec fuel s1 hl tag s2 ht
    rw [hi] at htag
    simp only [hk, Bool.false_eq_true, if_false]
    rw [← htag]
    have : tag.isEmpty = false := by cases tag with | nil => exact absurd rfl hne | cons _ _ => rfl
    simp [this]
  | fuel =>
    exact absurd ht (Total.tot (n := fuel) (p := parseTag fuel) s1 hl (by rw [hi]; exact hf))
  | err e' s2 =>
    simp only
    -- `parseTag` fails only at its first `ConsumeWith`: the first byte is not a tag character
    have : (s.rest.takeWhile isTagByte) = [] := by
      cases hr : s.rest with
      | nil => rfl
      | cons b bs =>
        rw [hr] at hi
        rcases consumeWith_on isTagChar hl hi with ⟨hf', s1', hm, hi1, hl1, hpv⟩ | ⟨hf', _, _⟩
        · exfalso
          unfold parseTag at ht
          rw [bind_eq, hm] at ht
          simp only at ht
          unfold collectWhilePrev at ht
          have ht' : (collectLoop isTagChar fuel >>= fun r => pure (s1'.prev.val :: r)) s1' = .err e' s2 := ht
          rw [bind_eq] at ht'
          cases hc : collectLoop isTagChar fuel s1' with
          | ok r1 s3 => rw [hc] at ht'; cases ht'
          | fuel => rw [hc] at ht'; cases ht'
          | err e2 s3 =>
            -- a collect loop never fails
            have : ∀ n st e3 s4, collectLoop isTagChar n st ≠ .err e3 s4 := by
              intro n
              induction n with
              | zero => intro st e3 s4 h; cases h
              | succ n ih =>
                intro st e3 s4 h
                unfold collectLoop at h
                rw [bind_eq] at h
                obtain ⟨b', st', hm'⟩ := matchesWith_cases isTagChar st
                rw [hm'] at h
                cases b' with
                | false => simp only [Bool.false_eq_true, if_false] at h; cases h
                | true =>
                  simp only [if_true] at h
                  have h' : (collectLoop isTagChar n >>= fun r => pure (st'.prev.val :: r)) st' = .err e3 s4 := h
                  rw [bind_eq] at h'
                  cases hc' : collectLoop isTagChar n st' with
                  | ok r s5 => rw [hc'] at h'; cases h'
                  | fuel => rw [hc'] at h'; cases h'
                  | err e4 s5 => exact ih st' e4 s5 hc'
            exact this fuel s1' e2 s3 hc
        · have hb : isTagByte b = false := hf'
          simp [List.takeWhile_cons, hb]
    simp [this]

/-- a tag prefix read off the unread input is the `lineTag` of the line cut from it -/
theorem lineTag_of_prefix (A rest t : Bytes) (ht : t = ((A ++ [10]) ++ rest).takeWhile isTagByte) (hne : t ≠ [])
    (hnd : lowerBytes t ≠ kw "done") : lineTag (A ++ [10]) = some t := by
  unfold lineTag
  rw [takeWhile_line] at ht
  rw [← ht]
  have : t.isEmpty = false := by cases t with | nil => exact absurd rfl hne | cons _ _ => rfl
  simp [this, hnd]

/-- **tags of the reader's lines**: whatever the reader hands to `serve` for a line carries the line's own
tag (`lineTag` of its bytes) or an empty tag — never another line's tag, never a made-up one -/
theorem readStep_tag (cfg : Cfg) (fuel : Nat) (s : PState) (l : Line) (s' : PState)
    (h : readStep cfg fuel s = .line l s') :
    match l.res with
    | .err t => t = [] ∨ lineTag l.bytes = some t
    | .cmd c => c.tag = [] ∨ lineTag l.bytes = some c.tag
    | .tlsOk t => t = [] ∨ lineTag l.bytes = some t
    | .tlsNo t => t = [] ∨ lineTag l.bytes = some t := by
  obtain ⟨A, hA, hsplit⟩ := readStep_line_lf cfg fuel s l s' h
  have conv : ∀ t : Bytes, (t = [] ∨ (t = s.rest.takeWhile isTagByte ∧ t ≠ [] ∧ lowerBytes t ≠ kw "done")) →
      t = [] ∨ lineTag l.bytes = some t := by
    intro t ht
    rcases ht with h0 | ⟨h1, h2, h3⟩
    · exact Or.inl h0
    · right
      rw [hA]
      exact lineTag_of_prefix A s'.rest t (by rw [h1, hsplit, hA]) h2 h3
  unfold readStep at h
  cases hp : parseLine fuel s with
  | fuel => rw [hp] at h; cases h
  | err e s1 =>
    rw [hp] at h
    cases e with
    | panic => cases h
    | ioEOF => cases h
    | parse t =>
      simp only at h
      split at h
      · cases h
      · cases hci : consumeInvalidInput s1 with
        | mk s2 ok =>
          rw [hci] at h
          cases ok with
          | false => cases h
          | true =>
            simp only at h
            split at h
            · cases h
            · cases h
              exact conv _ (errTag_spec cfg fuel s)
  | ok c s1 =>
    rw [hp] at h
    have hc : c.tag = [] ∨ (c.tag = s.rest.takeWhile isTagByte ∧ c.tag ≠ [] ∧ lowerBytes c.tag ≠ kw "done") := by
      rcases parseLine_ok_tag fuel s c s1 hp with h0 | h1
      · exact Or.inl h0.1
      · exact Or.inr h1
    simp only at h
    split at h
    · split at h
      · cases h; exact conv _ hc
      · split at h
        · cases h
        · cases h; exact conv _ hc
    · cases h; exact conv _ hc

theorem lineTag_some_ne {b u : Bytes} (h : lineTag b = some u) : u ≠ [] := by
  unfold lineTag at h
  simp only at h
  split at h
  · cases h
  · rename_i hc
    cases h
    intro he
    apply hc
    simp [he]

/-- no tag prefix, or the word DONE: the line has no tag -/
theorem lineTag_none_of (A rest : Bytes) (h : ((A ++ [10]) ++ rest).takeWhile isTagByte = [] ∨
    lowerBytes (((A ++ [10]) ++ rest).takeWhile isTagByte) = kw "done") : lineTag (A ++ [10]) = none := by
  unfold lineTag
  rw [takeWhile_line] at h
  simp only
  rcases h with h | h
  · simp [h]
  · simp [h]

/-- **tags of the reader's lines, exactly** (with the tag kept on late errors, `lateErrDropsTag = false`, and enough
fuel): the tag the reader reports for a line that does not parse is the line's tag, empty when it has none; a
parsed command carries the line's tag — except DONE, which has none and carries an empty one; STARTTLS lines
carry theirs -/
theorem readStep_tag_exact (cfg : Cfg) (hk : cfg.lateErrDropsTag = false) (fuel : Nat) (s : PState)
    (hf : s.rest.length < fuel) (l : Line) (s' : PState) (h : readStep cfg fuel s = .line l s') :
    match l.res with
    | .err t => t = (lineTag l.bytes).getD []
    | .cmd c => (isDoneCmd c.payload = true ∧ c.tag = [] ∧ lineTag l.bytes = none) ∨ lineTag l.bytes = some c.tag
    | .tlsOk t => lineTag l.bytes = some t
    | .tlsNo t => lineTag l.bytes = some t := by
  obtain ⟨A, hA, hsplit⟩ := readStep_line_lf cfg fuel s l s' h
  have hrest : s.rest = (A ++ [10]) ++ s'.rest := by rw [hsplit, hA]
  have cmdCase : ∀ c s1, parseLine fuel s = .ok c s1 →
      (isDoneCmd c.payload = true ∧ c.tag = [] ∧ lineTag l.bytes = none) ∨ lineTag l.bytes = some c.tag := by
    intro c s1 hp
    rcases parseLine_ok_tag fuel s c s1 hp with ⟨h0, h1, h2⟩ | ⟨h1, h2, h3⟩
    · left
      refine ⟨h1, h0, ?_⟩
      rw [hA]
      exact lineTag_none_of A s'.rest (Or.inr (by rw [← hrest]; exact h2))
    · right
      rw [hA]
      exact lineTag_of_prefix A s'.rest c.tag (by rw [h1, hrest]) h2 h3
  unfold readStep at h
  cases hp : parseLine fuel s with
  | fuel => rw [hp] at h; cases h
  | err e s1 =>
    rw [hp] at h
    cases e with
    | panic => cases h
    | ioEOF => cases h
    | parse t =>
      simp only at h
      split at h
      · cases h
      · cases hci : consumeInvalidInput s1 with
        | mk s2 ok =>
          rw [hci] at h
          cases ok with
          | false => cases h
          | true =>
            simp only at h
            split at h
            · cases h
            · cases h
              simp only
              rw [errTag_full cfg fuel s hk hf]
              simp only at hA
              rw [hrest, takeWhile_line, hA]
              unfold lineTag
              simp only
              split <;> simp_all
  | ok c s1 =>
    rw [hp] at h
    have hc := cmdCase c s1 hp
    simp only at h
    split at h
    · rename_i hst
      -- STARTTLS is not DONE: its tag is the line's
      have hc' : lineTag l.bytes = some c.tag := by
        rcases hc with ⟨hd, _, _⟩ | hc
        · rw [hst] at hd; cases hd
        · exact hc
      split at h
      · cases h; exact hc'
      · split at h
        · cases h
        · cases h; exact hc'
    · cases h; exact hc

end Gluon.SessionLoop
